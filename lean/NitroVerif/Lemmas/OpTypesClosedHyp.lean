/-
C01/C02, second stage: the hypotheses `Hyp` of the refinement theorem (Lemmas/OpTypesRefRel.lean) hold for the schema
declaration file the MODEL of the schema printer emits (`SchemaDecls.schemaFile`, C10's subject), linked into any flat
operation file through `import type * as <NS> from "<module>"`, read with the real `__SelectionSet` hook.

  * `__SelectionSet` of the generated prelude resolves through `NS.__SelectionSet` and carries the text the reading was
    written against (`hsel`, `hp` of `envOk_of_hook`);
  * `NS.__OperationOutput.T` is the absolute reference to the alias of `T` (C10's qualified route), whose stored body —
    for an object type — is the record `{__typename, <every field>}` (`origObj`);
  * for a leaf type the alias admits exactly `Ref_OperationOutput(T)` (C10's closed form, re-used here for an environment
    WITH the `__SelectionSet` hook: the configured scalar texts do not apply an absolute reference, so the hook never
    fires inside them), i.e. the enum's value names / the configured text read globally.
-/
import NitroVerif.Lemmas.OpTypesRefThm
import NitroVerif.Lemmas.DeclsClosedInduct
namespace NitroVerif.OpTypes.Closed
open NitroVerif.Gql NitroVerif.Ts NitroVerif.DeclCfg NitroVerif.SchemaDecls NitroVerif.RefTypes

/-- the head of an application is not an absolute reference (the only heads `SelSem.hook` interprets) -/
def notAbsHead : Ty → Bool
  | .other tag _ => tag != "abs"
  | _ => true

theorem selHook_none {d : Decls} {f : Ty} {as : List Ty} (hf : notAbsHead f = true) : SelSem.hook d f as = none := by
  unfold SelSem.hook
  split
  · simp [notAbsHead] at hf
  · rfl

/-- with the `__SelectionSet` hook installed: a type that applies no absolute reference on its spine is read as in the
    empty declaration environment -/
theorem mem_indep_selHook {d : Decls} {v : J} {t : Ty} (ht : t.spine notAbsHead = true) :
    Mem { decls := d, appHook := SelSem.hook } v t ↔ Mem Env.empty v t :=
  mem_indep_spine (p := notAbsHead) (fun _ _ _ hf => selHook_none hf) (fun _ _ _ _ => rfl) ht

/-- what is assumed of the configuration and of the specification's parameters (besides C10's `DocOK`) -/
structure CfgOk (cfg : Cfg) (c : Exec.Ctx) : Prop where
  /-- the value set of a scalar type IS what its configured TypeScript text for `__OperationOutput` denotes (read
      globally) — the specification's parameter `scalar` is instantiated by the configuration (C09's subject) -/
  scalars : ∀ n sc v, scalarType? cfg c.S.items n = some sc →
    (c.scalar n v = true ↔ Mem Env.empty v (cfg.parseOf (sc.getType .operationOutput)))
  /-- no configured scalar text applies an absolute reference (a parser of TypeScript text never produces one) -/
  plain : ∀ p ∈ scalarTypes cfg c.S.items, ∀ t ∈ Target.all, (cfg.parseOf (p.2.getType t)).spine notAbsHead = true
  /-- no scalar is mapped to a type that admits `null` (`unknown`, `any`, `T | null`) -/
  notNull : ∀ p ∈ scalarTypes cfg c.S.items, ¬ Mem Env.empty .null (cfg.parseOf (p.2.getType .operationOutput))
  /-- every composite type has a possible runtime object type (no interface without implementing object type) -/
  inhabited : ∀ n, c.S.isComposite n = true → c.S.possibleTypes n ≠ []

/-! ### the prelude's `__SelectionSet` -/

def selSetDecl (P : Scope) : Ts.Decl := ⟨P, "__SelectionSet", true, [], .other "raw" [selectionSetText]⟩

theorem find_selectionSet {cfg : Cfg} {doc : TsDoc} {F : File} (hF : schemaFile cfg doc = .ok F) (P : Scope) :
    (Stmt.declsList P F).find? (isDeclAt P "__SelectionSet") = some (selSetDecl P) ∧
    (Stmt.declsList P F).find? (fun x => x.scope == P && x.name == "__SelectionSet" && x.exported)
      = some (selSetDecl P) := by
  obtain ⟨ns, _, rfl⟩ := schemaFile_eq hF
  rw [declsList_append', declsList_append']
  constructor <;>
    simp [prelude, Stmt.declsList, Stmt.decls, List.find?_append, List.find?_cons, isDeclAt, selSetDecl]

section hosted
variable {cfg : Cfg} {doc : TsDoc} {F : File} (hF : schemaFile cfg doc = .ok F) (ok : DocOK cfg doc)
variable {d : Decls} {A : String} (H : Hosted d [A] F) (hA : d.resolveNsAux A (([] : Scope).length + 1) [] = some [A])

include hF H hA in
/-- `NS.__SelectionSet` is the absolute reference to the prelude's helper -/
theorem glob_selSet : globalise d [] [] (.qref [A, "__SelectionSet"]) = .other "abs" [A, "__SelectionSet"] := by
  have hexp : d.findExported [A] "__SelectionSet" = some (selSetDecl [A]) := by
    apply findExported_of_type
    have := H.exported [] "__SelectionSet"
    simp only [List.append_nil] at this
    rw [this]
    exact (find_selectionSet hF [A]).2
  have e1 : ["__SelectionSet"].dropLast = ([] : List String) := rfl
  have e2 : ["__SelectionSet"].getLast? = some "__SelectionSet" := rfl
  simp only [globalise, List.contains_nil, Bool.false_eq_true, if_false, Decls.resolveQ, hA, e1, e2, List.append_nil,
    List.length_singleton, beq_self_eq_true, Bool.or_true, if_true, hexp]
  rfl

include hF H in
/-- … and it carries the text the reading of `__SelectionSet` was written against -/
theorem isSelSet : SelSem.isSelectionSet d [A, "__SelectionSet"] = true := by
  have hl : d.findLocal [A] "__SelectionSet" = some (selSetDecl [A]) := by
    have := H.findLocal [] "__SelectionSet"
    simp only [List.append_nil] at this
    rw [this]
    exact (find_selectionSet hF [A]).1
  have e1 : [A, "__SelectionSet"].dropLast = [A] := rfl
  have e2 : [A, "__SelectionSet"].getLast? = some "__SelectionSet" := rfl
  have e3 : (selectionSetText == SelSem.preludeText) = true := by
    rw [show selectionSetText = SelSem.preludeText from rfl]; exact beq_self_eq_true _
  simp only [SelSem.isSelectionSet, e1, e2, hl, selSetDecl, beq_self_eq_true, Bool.true_and, e3]

include hF ok H hA in
/-- `NS.__OperationOutput.T` is the absolute reference to the alias of `T` in that namespace (C10's qualified route) -/
theorem glob_out {td : TypeDef} (hm : td ∈ typeDefsOf doc) (hfit : kindFits td.kind .operationOutput = true) :
    globalise d [] [] (.qref [A, "__OperationOutput", td.name]) = absRef cfg doc [A] .operationOutput td.name := by
  obtain ⟨ty, hb⟩ := fits_body hF .operationOutput hm hfit
  have hq := hosted_qualified_outer (E := { decls := d }) hF ok H .operationOutput (sc := []) (A := A) hA hm hb
  simp only [globalise, List.contains_nil, Bool.false_eq_true, if_false]
  have : Target.operationOutput.name = "__OperationOutput" := rfl
  rw [this] at hq
  rw [hq]
  rfl

include hF ok H in
/-- `keyof` of an object type's declaration: `__typename` and the names of its fields -/
theorem origFields_object {td : TypeDef} (hm : td ∈ typeDefsOf doc) (hk : td.kind = .object) :
    ∃ ofs, SelSem.origFields d 8 (absRef cfg doc [A] .operationOutput td.name) = some ofs ∧
      ofs.map (·.1) = "__typename" :: td.fields.map (·.name) := by
  have hb : body (Ctx.new cfg doc .operationOutput) td = .ok (some (objectBody (Ctx.new cfg doc .operationOutput) td)) := by
    simp [body, hk, Target.isInput, Target.isOutput]
  have hbody := hosted_body (D := d) hF ok H .operationOutput hm hb
  rw [objectBody, globalise_objectBodyL] at hbody
  refine ⟨("__typename", false, false, .strLit td.name) :: td.fields.map fun f =>
    (f.name, false, false, tsOf (fun n => globalise d ([A] ++ [Target.operationOutput.name]) []
      ((Ctx.new cfg doc .operationOutput).leaf n)) false f.ty), ?_, ?_⟩
  · show SelSem.origFields d 8 (.other "abs" (([A] ++ [Target.operationOutput.name]) ++ [lname cfg doc td.name])) = _
    simp only [SelSem.origFields, hbody, objectBodyL]
  · simp [List.map_map, Function.comp_def]

end hosted

/-! ### `Hyp` for the generated schema declaration file -/

theorem typeDef?_mem' {S : Schema} {n : Name} {td : TypeDef} (h : S.typeDef? n = some td) :
    td ∈ typeDefsOf S.items ∧ td.name = n := by
  have h1 := List.mem_of_find?_eq_some h
  have h2 := List.find?_some h
  rw [typeDefs_eq] at h1
  exact ⟨h1, by simpa using h2⟩

section hyp
variable {cfg : Cfg} {c : Exec.Ctx} {F : File} (hF : schemaFile cfg c.S.items = .ok F) (ok : DocOK cfg c.S.items)
  (K : CfgOk cfg c) (main : File) (m ns : String) (hflat : main.all (fun s => !s.isNamespace) = true)
  (himp : starImports main = [(m, ns)])

/-- the declaration table of the operation file linked with the schema declaration file -/
abbrev tableOf (main : File) (m : String) (F : File) : Decls := Decls.ofFiles main [(m, F)]

/-- the references of the printed types, resolved in that table -/
abbrev refsOf (main : File) (m ns : String) (F : File) : Refs := (Refs.ofNs ns).close (tableOf main m F)

/-- `keyof Orig`, read off the table -/
abbrev origOf (main : File) (m ns : String) (F : File) : Name → Option (List Field) :=
  fun tn => SelSem.origFields (tableOf main m F) 8 ((refsOf main m ns F).out tn)

include K in
theorem scalarsGlobal_selHook : ScalarsGlobal cfg c.S.items (SelSem.envOf main m F) :=
  fun p hp t ht _ => mem_indep_selHook (K.plain p hp t ht)

include hF ok K hflat himp in
/-- **`Hyp` holds for the model's schema declaration file.** -/
theorem hyp_schemaFile :
    Ref.Hyp c (SelSem.envOf main m F) (refsOf main m ns F) (origOf main m ns F) := by
  have H : Hosted (tableOf main m F) [ns] F := hosted_ofFiles main m ns F hflat himp
  have hA := ofFiles_resolveNs main m ns F himp
  have hout : ∀ {td : TypeDef}, td ∈ typeDefsOf c.S.items → kindFits td.kind .operationOutput = true →
      (refsOf main m ns F).out td.name = absRef cfg c.S.items [ns] .operationOutput td.name :=
    fun hm hfit => glob_out hF ok H hA hm hfit
  refine ⟨?_, ?_, ?_, ?_, K.inhabited⟩
  · exact envOk_of_hook (tableOf main m F) (refsOf main m ns F) [ns, "__SelectionSet"] (glob_selSet hF H hA)
      (isSelSet hF H)
      (fun n => (globalise_qref_shape (tableOf main m F) [ns, "__OperationOutput", n]).1)
      (fun n => (globalise_qref_shape (tableOf main m F) [ns, "__OperationOutput", n]).2)
  · intro tn td htd hk
    obtain ⟨hm, rfl⟩ := typeDef?_mem' htd
    obtain ⟨ofs, h1, h2⟩ := origFields_object hF ok H hm hk
    refine ⟨ofs, ?_, ?_⟩
    · show SelSem.origFields _ 8 ((refsOf main m ns F).out td.name) = some ofs
      rw [hout hm (by simp [hk, kindFits, Target.isOutput])]
      exact h1
    · intro k
      have hany : ofs.any (·.1 == k) = true ↔ k ∈ ofs.map (·.1) := by
        simp only [List.any_eq_true, beq_iff_eq, List.mem_map]
      rw [hany, h2]
      have hf : (c.S.field? td.name k).isSome = true ↔ k ∈ td.fields.map (·.name) := by
        simp only [Schema.field?, Schema.fieldsOf, htd, List.find?_isSome, beq_iff_eq, List.mem_map]
      rw [hf]
      simp only [List.mem_cons]
  · intro n v hl
    unfold Ref.isLeafType Schema.kindOf? at hl
    cases htd : c.S.typeDef? n with
    | none => simp [htd] at hl
    | some td =>
      obtain ⟨hm, rfl⟩ := typeDef?_mem' htd
      have hfit : kindFits td.kind .operationOutput = true := by
        cases hk : td.kind <;> simp_all [kindFits]
      show Mem (SelSem.envOf main m F) v ((refsOf main m ns F).out td.name) ↔ _
      rw [hout hm hfit]
      have hx := hosted_alias_exact' (E := SelSem.envOf main m F) hF ok H (scalarsGlobal_selHook K main m)
        .operationOutput hm hfit v
      rw [hx]
      unfold Exec.leafOk
      rw [htd]
      cases hk : td.kind with
      | scalar =>
        rw [Ref_scalar cfg c.S .operationOutput htd hk]
        simp only [hk]
        constructor
        · rintro ⟨sc, hsc, hmem⟩; exact (K.scalars td.name sc v hsc).2 hmem
        · intro hs
          obtain ⟨ty, hb⟩ := fits_body hF .operationOutput hm hfit
          unfold body at hb
          simp only [hk, Ctx.new_target, Ctx.new_cfg, Ctx.new_scalarTypes] at hb
          split at hb
          · rename_i n' sc hfind
            have hsc : scalarType? cfg c.S.items td.name = some sc := by
              have hfind' : (scalarTypes cfg c.S.items).find? (·.1 == td.name) = some (n', sc) := hfind
              simp [scalarType?, hfind']
            exact ⟨sc, hsc, (K.scalars td.name sc v hsc).1 hs⟩
          · cases hb
      | «enum» =>
        rw [Ref_enum cfg c.S .operationOutput htd hk]
        simp only [hk]
        constructor
        · rintro ⟨x, hxv, rfl⟩
          exact List.any_eq_true.2 ⟨x, hxv, by simp⟩
        · intro h
          cases v with
          | str s =>
            obtain ⟨x, hxv, hxs⟩ := List.any_eq_true.1 h
            exact ⟨x, hxv, by simp at hxs; rw [hxs]⟩
          | _ => simp at h
      | object => simp [htd, hk] at hl
      | input => simp [htd, hk] at hl
      | interface => simp [htd, hk] at hl
      | union => simp [htd, hk] at hl
  · intro n
    unfold Exec.leafOk
    cases htd : c.S.typeDef? n with
    | none => rfl
    | some td =>
      simp only
      cases hk : td.kind with
      | scalar =>
        simp only [hk]
        cases hs : c.scalar n .null with
        | false => rfl
        | true =>
          exfalso
          obtain ⟨hm, rfl⟩ := typeDef?_mem' htd
          obtain ⟨ty, hb⟩ := fits_body hF .operationOutput hm (by simp [hk, kindFits])
          unfold body at hb
          simp only [hk, Ctx.new_target, Ctx.new_cfg, Ctx.new_scalarTypes] at hb
          split at hb
          · rename_i n' sc hfind
            have hfind' : (scalarTypes cfg c.S.items).find? (·.1 == td.name) = some (n', sc) := hfind
            have hsc : scalarType? cfg c.S.items td.name = some sc := by simp [scalarType?, hfind']
            exact K.notNull (n', sc) (List.mem_of_find?_eq_some hfind') ((K.scalars td.name sc .null hsc).1 hs)
          · cases hb
      | «enum» => rfl
      | object => rfl
      | input => rfl
      | interface => rfl
      | union => rfl

include ok in
/-- C10's `DocOK` contains the uniqueness of type names the refinement theorem needs -/
theorem typeNamesNodup_of_docOK : Ref.TypeNamesNodup c.S := by
  unfold Ref.TypeNamesNodup
  rw [typeDefs_eq]
  exact ok.distinct

end hyp

end NitroVerif.OpTypes.Closed
