import NitroVerif.Lemmas.JsChunks
import NitroVerif.Lemmas.GqlString
/-!
C16: the chunk sequences the GraphQL printer hands to `JsStringWriter` are safe. A printer token stands for one
`write` (a variable: the two writes `"$"`, name). `Tok.chunkOK` is the per-token condition; a token list all of whose
tokens satisfy it is a safe operation sequence.
-/
namespace NitroVerif.GqlPrint
open NitroVerif.JsTemplate

/-- a chunk without CR that does not end in `$` -/
def goodText (s : List Char) : Bool := noCR s && !endDollar false s

/-- a non-empty text that does not start with `{` -/
def headNotBrace : List Char → Bool
  | c :: _ => c != '{'
  | [] => false

def Tok.chunkOK : Tok → Bool
  | .p s | .name s | .int s | .float s | .lay s => goodText s.toList
  | .var n => goodText n.toList && headNotBrace n.toList
  | .str _ | .ind | .ded => true

theorem endDollar_append_quote (d : Bool) (s : List Char) : endDollar d (s ++ ['"']) = false := by
  induction s generalizing d with
  | nil => simp [endDollar]
  | cons c cs ih => simp [endDollar, ih]

theorem mem_escTriple (s : List Char) : ∀ (n : Nat) (x : Char), x ∈ escTriple n s → x = '"' ∨ x = '\\' ∨ x ∈ s := by
  induction s with
  | nil => intro n x hx; simp [escTriple] at hx; exact Or.inl hx.2
  | cons c cs ih =>
    intro n x hx
    unfold escTriple at hx
    by_cases hc : c ≠ '"'
    · simp only [hc, ne_eq, not_false_eq_true, if_true, List.mem_append, List.mem_cons, List.mem_replicate] at hx
      rcases hx with hx | hx | hx
      · exact Or.inl hx.2
      · exact Or.inr (Or.inr (by simp [hx]))
      · rcases ih 0 x hx with h | h | h
        · exact Or.inl h
        · exact Or.inr (Or.inl h)
        · exact Or.inr (Or.inr (by simp [h]))
    · simp only [hc, if_false] at hx
      by_cases hn : n + 1 = 3
      · simp only [hn, if_true, List.mem_append, List.mem_cons, List.mem_nil_iff, or_false] at hx
        rcases hx with (hx | hx | hx | hx) | hx
        · exact Or.inr (Or.inl hx)
        · exact Or.inl hx
        · exact Or.inl hx
        · exact Or.inl hx
        · rcases ih 0 x hx with h | h | h
          · exact Or.inl h
          · exact Or.inr (Or.inl h)
          · exact Or.inr (Or.inr (by simp [h]))
      · simp only [hn, if_false] at hx
        rcases ih (n + 1) x hx with h | h | h
        · exact Or.inl h
        · exact Or.inr (Or.inl h)
        · exact Or.inr (Or.inr (by simp [h]))

theorem canBlock_no_cr (s : List Char) (h : canBlock s = true) : ∀ c ∈ s, c ≠ '\r' := by
  intro c hc hcr
  subst hcr
  simp [canBlock] at h
  have := h.2.2 '\r' hc
  revert this
  decide

theorem quotedBody_no_cr (s : List Char) : ∀ x ∈ quotedBody s, x ≠ '\r' := by
  induction s with
  | nil => simp [quotedBody]
  | cons a as ih =>
    intro x hx
    simp only [quotedBody, List.mem_append] at hx
    rcases hx with hx | hx
    · exact quotedChar_no_cr a x hx
    · exact ih x hx

/-- nothing `print_string` writes is a carriage return (quoted form: it is escaped; block form: not chosen) -/
theorem printString_no_cr (s : List Char) : ∀ x ∈ printString s, x ≠ '\r' := by
  intro x hx
  unfold printString at hx
  by_cases hb : useBlock s = true
  · simp only [hb, if_true, printBlock, List.mem_append, List.mem_cons, List.mem_nil_iff, or_false] at hx
    have hcan : canBlock s = true := by
      simp only [useBlock, Bool.decide_and, Bool.and_eq_true, decide_eq_true_eq] at hb; exact hb.2
    rcases hx with ((hx | hx | hx) | hx) | (hx | hx | hx)
    all_goals try (subst hx; decide)
    rcases mem_escTriple s 0 x hx with h | h | h
    · subst h; decide
    · subst h; decide
    · exact canBlock_no_cr s hcan x h
  · simp only [hb, Bool.false_eq_true, if_false, printQuoted, List.mem_cons, List.mem_append, List.mem_nil_iff, or_false] at hx
    rcases hx with hx | hx | hx
    · subst hx; decide
    · exact quotedBody_no_cr s x hx
    · subst hx; decide

theorem printString_endDollar (s : List Char) (d : Bool) : endDollar d (printString s) = false := by
  unfold printString
  by_cases hb : useBlock s = true
  · simp only [hb, if_true, printBlock]
    have : ['"', '"', '"'] ++ escTriple 0 s ++ ['"', '"', '"'] = (['"', '"', '"'] ++ escTriple 0 s ++ ['"', '"']) ++ ['"'] := by simp
    rw [this, endDollar_append_quote]
  · simp only [hb, Bool.false_eq_true, if_false, printQuoted]
    have : '"' :: (quotedBody s ++ ['"']) = ('"' :: quotedBody s) ++ ['"'] := by simp
    rw [this, endDollar_append_quote]

theorem headOK_false (s : List Char) : headOK false s = true := by cases s <;> simp [headOK]

theorem safeOps_write_good (s : List Char) (h : goodText s = true) (r : List WOp) :
    safeOps false (.write s :: r) = safeOps false r := by
  simp only [goodText, Bool.and_eq_true, Bool.not_eq_true'] at h
  simp [safeOps, headOK_false, h.1, h.2]

/-- one token that satisfies `chunkOK`, after a text that does not end in `$`, leaves a text that does not end in `$` -/
theorem safeOps_tok (t : Tok) (h : t.chunkOK = true) (r : List WOp) :
    safeOps false (t.ops ++ r) = safeOps false r := by
  cases t with
  | p s => exact safeOps_write_good _ h r
  | name s => exact safeOps_write_good _ h r
  | int s => exact safeOps_write_good _ h r
  | float s => exact safeOps_write_good _ h r
  | lay s => exact safeOps_write_good _ h r
  | ind => simp [Tok.ops, safeOps]
  | ded => simp [Tok.ops, safeOps]
  | str v =>
    have hcr : noCR (printString v.toList) = true := by
      simp only [noCR, List.all_eq_true, bne_iff_ne]
      exact printString_no_cr v.toList
    simp [Tok.ops, safeOps, headOK_false, hcr, printString_endDollar]
  | var n =>
    simp only [Tok.chunkOK, goodText, Bool.and_eq_true, Bool.not_eq_true'] at h
    obtain ⟨⟨hcr, hend⟩, hhead⟩ := h
    cases hn : n.toList with
    | nil => simp [hn, headNotBrace] at hhead
    | cons c cs =>
      rw [hn] at hcr hend hhead
      have hc : (c == '{') = false := by simpa [headNotBrace] using hhead
      have e1 : headOK false ['$'] = true := rfl
      have e2 : noCR ['$'] = true := by decide
      have e3 : endDollar false ['$'] = true := by decide
      have e4 : headOK true (c :: cs) = true := by simp [headOK, hc]
      have e6 : endDollar true (c :: cs) = false := by simpa [endDollar] using hend
      show safeOps false (WOp.write ['$'] :: WOp.write n.toList :: r) = _
      simp only [safeOps, hn, e1, e2, e3, e4, hcr, e6, Bool.and_self, Bool.true_and]

theorem safeOps_tokens (ts : List Tok) (h : ∀ t ∈ ts, t.chunkOK = true) : safeOps false (ops ts) = true := by
  induction ts with
  | nil => simp [ops, safeOps]
  | cons t ts ih =>
    have : ops (t :: ts) = t.ops ++ ops ts := by simp [ops]
    rw [this, safeOps_tok t (h t (by simp)), ih (fun x hx => h x (by simp [hx]))]

end NitroVerif.GqlPrint
