import NitroVerif.Lemmas.GqlPrintParseTs
/-!
C16, token level: parse-back of type definitions / extensions, schema definitions / extensions, directive definitions
and whole type-system documents.
-/
namespace NitroVerif.C16
open NitroVerif.Gql NitroVerif.GqlTokens

theorem startsN_dirs (n : String) (ds : List Directive) (rest : List LTok) (h : startsN n rest = false) :
    startsN n (dirsToks ds ++ rest) = false := by
  cases ds with
  | nil => simpa [dirsToks] using h
  | cons d ds => simp [dirsToks, directiveToks, startsN]

theorem startsN_bracket {α : Type} (n open_ close : String) (t : α → List LTok) (xs : List α) (rest : List LTok)
    (h : startsN n rest = false) : startsN n (bracketToks open_ close t xs ++ rest) = false := by
  cases xs with
  | nil => simpa [bracketToks] using h
  | cons x xs => simp [bracketToks, startsN]

theorem startsP_members (s : String) (hs : s ≠ "=") (l : List (Name × Pos)) (rest : List LTok)
    (h : startsP s rest = false) : startsP s (membersToks l ++ rest) = false := by
  cases l with
  | nil => simpa [membersToks] using h
  | cons x xs => simp [membersToks, startsP]; exact fun e => hs e.symm

theorem isEmpty_eq_nil {α : Type} (l : List α) (h : l.isEmpty = true) : l = [] := by
  cases l with
  | nil => rfl
  | cons x xs => simp at h

/-! ### the part of a type definition after its name -/

theorem parse_typeBody (t : TypeDef) (hwf : wfTypeDef t = true) (rest : List LTok) (f : Nat) (hr : ItemFollow rest)
    (hf : 2 * (typeBodyToks t).length + 4 ≤ f) :
    parseTypeBody f t.kind t.desc t.name (typeBodyToks t ++ rest) = some (eraseTypeDef t, rest) := by
  unfold wfTypeDef at hwf
  unfold typeBodyToks at hf ⊢
  have hs := hr.stops
  cases hk : t.kind
  · -- scalar
    simp only [hk, Bool.and_eq_true] at hwf hf
    obtain ⟨hd, ⟨⟨⟨⟨h1, h2⟩, h3⟩, h4⟩, h5⟩⟩ := hwf
    have e1 := isEmpty_eq_nil _ h1; have e2 := isEmpty_eq_nil _ h2; have e3 := isEmpty_eq_nil _ h3
    have e4 := isEmpty_eq_nil _ h4; have e5 := isEmpty_eq_nil _ h5
    have hdirs := parse_dirs t.dirs hd rest f (by omega) hs.paren hs.at_
    simp [parseTypeBody, hdirs, eraseTypeDef, hk, e1, e2, e3, e4, e5, eraseNames]
  · -- object
    simp only [hk, Bool.and_eq_true, List.length_append] at hwf hf
    obtain ⟨hd, ⟨⟨⟨h1, h2⟩, h3⟩, h4⟩⟩ := hwf
    have e2 := isEmpty_eq_nil _ h2; have e3 := isEmpty_eq_nil _ h3; have e4 := isEmpty_eq_nil _ h4
    have hl := implementsToks_length t.implements
    have himpl := parse_implements t.implements (dirsToks t.dirs ++ (bracedToks fieldDefToks t.fields ++ rest)) f
      (by omega)
      (startsP_dirs "&" (by decide) _ _ (by rw [bracedToks_eq]; exact startsP_bracket "&" "{" "}" (by decide) _ _ _ hs.amp))
      (startsN_dirs _ _ _ (by rw [bracedToks_eq]; exact startsN_bracket _ _ _ _ _ _ hr.impl))
    have hdirs := parse_dirs t.dirs hd (bracedToks fieldDefToks t.fields ++ rest) f (by omega)
      (by rw [bracedToks_eq]; exact startsP_bracket "(" "{" "}" (by decide) _ _ _ hs.paren)
      (by rw [bracedToks_eq]; exact startsP_bracket "@" "{" "}" (by decide) _ _ _ hs.at_)
    have hfields := parse_fieldList t.fields h1 rest f hs.brace (by omega)
    simp only [List.append_assoc]
    simp [parseTypeBody, himpl, hdirs, hfields, eraseTypeDef, hk, e2, e3, e4, eraseNames]
  · -- interface
    simp only [hk, Bool.and_eq_true, List.length_append] at hwf hf
    obtain ⟨hd, ⟨⟨⟨h1, h2⟩, h3⟩, h4⟩⟩ := hwf
    have e2 := isEmpty_eq_nil _ h2; have e3 := isEmpty_eq_nil _ h3; have e4 := isEmpty_eq_nil _ h4
    have hl := implementsToks_length t.implements
    have himpl := parse_implements t.implements (dirsToks t.dirs ++ (bracedToks fieldDefToks t.fields ++ rest)) f
      (by omega)
      (startsP_dirs "&" (by decide) _ _ (by rw [bracedToks_eq]; exact startsP_bracket "&" "{" "}" (by decide) _ _ _ hs.amp))
      (startsN_dirs _ _ _ (by rw [bracedToks_eq]; exact startsN_bracket _ _ _ _ _ _ hr.impl))
    have hdirs := parse_dirs t.dirs hd (bracedToks fieldDefToks t.fields ++ rest) f (by omega)
      (by rw [bracedToks_eq]; exact startsP_bracket "(" "{" "}" (by decide) _ _ _ hs.paren)
      (by rw [bracedToks_eq]; exact startsP_bracket "@" "{" "}" (by decide) _ _ _ hs.at_)
    have hfields := parse_fieldList t.fields h1 rest f hs.brace (by omega)
    simp only [List.append_assoc]
    simp [parseTypeBody, himpl, hdirs, hfields, eraseTypeDef, hk, e2, e3, e4, eraseNames]
  · -- union
    simp only [hk, Bool.and_eq_true, List.length_append] at hwf hf
    obtain ⟨hd, ⟨⟨⟨h1, h2⟩, h3⟩, h4⟩⟩ := hwf
    have e1 := isEmpty_eq_nil _ h1; have e2 := isEmpty_eq_nil _ h2; have e3 := isEmpty_eq_nil _ h3
    have e4 := isEmpty_eq_nil _ h4
    have hl := membersToks_length t.members
    have hdirs := parse_dirs t.dirs hd (membersToks t.members ++ rest) f (by omega)
      (startsP_members "(" (by decide) _ _ hs.paren) (startsP_members "@" (by decide) _ _ hs.at_)
    have hmem := parse_members t.members rest f (by omega) hs.bar hs.eq
    simp only [List.append_assoc]
    simp [parseTypeBody, hdirs, hmem, eraseTypeDef, hk, e1, e2, e3, e4, eraseNames]
  · -- enum
    simp only [hk, Bool.and_eq_true, List.length_append] at hwf hf
    obtain ⟨hd, ⟨⟨⟨⟨h0, h1⟩, h2⟩, h3⟩, h4⟩⟩ := hwf
    have e1 := isEmpty_eq_nil _ h1; have e2 := isEmpty_eq_nil _ h2; have e3 := isEmpty_eq_nil _ h3
    have e4 := isEmpty_eq_nil _ h4
    have hdirs := parse_dirs t.dirs hd (bracedToks enumValueDefToks t.values ++ rest) f (by omega)
      (by rw [bracedToks_eq]; exact startsP_bracket "(" "{" "}" (by decide) _ _ _ hs.paren)
      (by rw [bracedToks_eq]; exact startsP_bracket "@" "{" "}" (by decide) _ _ _ hs.at_)
    have hvals := parse_enumValueList t.values h0 rest f hs.brace (by omega)
    simp only [List.append_assoc]
    simp [parseTypeBody, hdirs, hvals, eraseTypeDef, hk, e1, e2, e3, e4, eraseNames]
  · -- input
    simp only [hk, Bool.and_eq_true, List.length_append] at hwf hf
    obtain ⟨hd, ⟨⟨⟨⟨h0, h1⟩, h2⟩, h3⟩, h4⟩⟩ := hwf
    have e1 := isEmpty_eq_nil _ h1; have e2 := isEmpty_eq_nil _ h2; have e3 := isEmpty_eq_nil _ h3
    have e4 := isEmpty_eq_nil _ h4
    have hdirs := parse_dirs t.dirs hd (bracedToks inputValueDefToks t.inputs ++ rest) f (by omega)
      (by rw [bracedToks_eq]; exact startsP_bracket "(" "{" "}" (by decide) _ _ _ hs.paren)
      (by rw [bracedToks_eq]; exact startsP_bracket "@" "{" "}" (by decide) _ _ _ hs.at_)
    have hvals := parse_inputList t.inputs h0 rest f hs.brace (by omega)
    simp only [List.append_assoc]
    simp [parseTypeBody, hdirs, hvals, eraseTypeDef, hk, e1, e2, e3, e4, eraseNames]

/-! ### items -/

theorem kindOfKw_kindKw (k : TypeKind) : kindOfKw (kindKw k) = some k := by cases k <;> rfl
theorem kindKw_ne_schema (k : TypeKind) : kindKw k ≠ "schema" := by cases k <;> decide
theorem kindKw_ne_directive (k : TypeKind) : kindKw k ≠ "directive" := by cases k <;> decide
theorem kindKw_ne_extend (k : TypeKind) : kindKw k ≠ "extend" := by cases k <;> decide
theorem kindKw_ne_implements (k : TypeKind) : kindKw k ≠ "implements" := by cases k <;> decide

theorem parse_typeDef (t : TypeDef) (hwf : wfTypeDef t = true) (rest : List LTok) (f : Nat) (hr : ItemFollow rest)
    (hf : 2 * (typeDefToks t).length + 4 ≤ f) :
    parseTsItem f (typeDefToks t ++ rest) = some (.typeDef (eraseTypeDef t), rest) := by
  simp only [typeDefToks, List.length_append, List.length_cons] at hf
  have hbody := parse_typeBody t hwf rest f hr (by omega)
  simp only [typeDefToks, List.cons_append, List.append_assoc]
  simp [parseTsItem, parseDesc_desc, kindKw_ne_schema, kindKw_ne_directive, kindKw_ne_extend, kindOfKw_kindKw, hbody]

theorem nonTrivial_erase (t : TypeDef) : nonTrivial (eraseTypeDef t) = nonTrivial t := by
  simp [nonTrivial, eraseTypeDef, eraseNames, eraseDirs]

theorem parse_typeExt (t : TypeDef) (hwf : wfTypeExt t = true) (rest : List LTok) (f : Nat) (hr : ItemFollow rest)
    (hf : 2 * (typeExtToks t).length + 4 ≤ f) :
    parseTsItem f (typeExtToks t ++ rest) = some (.typeExt (eraseTypeDef t), rest) := by
  simp only [wfTypeExt, Bool.and_eq_true, Option.isNone_iff_eq_none] at hwf
  obtain ⟨⟨hw, hd⟩, hnt⟩ := hwf
  simp only [typeExtToks, List.length_cons] at hf
  have hbody := parse_typeBody t hw rest f hr (by omega)
  rw [hd] at hbody
  simp only [typeExtToks, List.cons_append]
  simp [parseTsItem, parseDesc, kindKw_ne_schema, kindOfKw_kindKw, hbody, nonTrivial_erase, hnt]

theorem parse_root (r : OpKind × Name × Pos) (X : List LTok) : parseRoot (rootToks r ++ X) = some (eraseRoot r, X) := by
  obtain ⟨k, n, p⟩ := r
  simp [rootToks, parseRoot, opKindOf_asStr, eraseRoot]

theorem rootToks_head (r : OpKind × Name × Pos) (X : List LTok) :
    Stops (rootToks r ++ X) ∧ ∃ tok r', rootToks r ++ X = tok :: r' ∧ tok ≠ .p "}" := by
  simp only [rootToks, List.cons_append, List.nil_append]
  exact ⟨Stops.name _ _, _, _, rfl, by simp⟩

theorem rootsToks_length (rs : List (OpKind × Name × Pos)) : (listToks rootToks rs).length = 3 * rs.length := by
  induction rs with
  | nil => rfl
  | cons r rs ih => simp [listToks, rootToks, ih]; omega

theorem parse_schemaDef (s : SchemaDef) (hwf : wfSchemaDef s = true) (rest : List LTok) (f : Nat)
    (hf : 2 * (schemaDefToks s).length + 4 ≤ f) :
    parseTsItem f (schemaDefToks s ++ rest) = some (.schemaDef (eraseSchemaDef s), rest) := by
  simp only [wfSchemaDef, Bool.and_eq_true, Bool.not_eq_true'] at hwf
  obtain ⟨hd, hne⟩ := hwf
  simp only [schemaDefToks, List.length_append, List.length_cons, List.length_nil, rootsToks_length] at hf
  have hdirs := parse_dirs s.dirs hd (LTok.p "{" :: (listToks rootToks s.roots ++ LTok.p "}" :: rest)) f (by omega)
    (by simp [startsP]) (by simp [startsP])
  cases hroots : s.roots with
  | nil => simp [hroots] at hne
  | cons r rs =>
    rw [hroots] at hf hdirs
    have hr := many1Until_toks "}" parseRoot rootToks eraseRoot rest (Stops.close_brace rest) r rs f
      (by simp at hf; omega) (fun y _ X _ => parse_root y X) (fun y _ X => rootToks_head y X)
    simp only [schemaDefToks, hroots, List.cons_append, List.append_assoc, List.nil_append]
    simp [parseTsItem, parseDesc_desc, parseSchemaDefRest, hdirs, hr, eraseSchemaDef, hroots]

theorem parse_schemaExt (s : SchemaDef) (hwf : wfSchemaExt s = true) (rest : List LTok) (f : Nat)
    (hr : ItemFollow rest) (hf : 2 * (schemaExtToks s).length + 4 ≤ f) :
    parseTsItem f (schemaExtToks s ++ rest) = some (.schemaExt (eraseSchemaDef s), rest) := by
  simp only [wfSchemaExt, Bool.and_eq_true, Option.isNone_iff_eq_none] at hwf
  obtain ⟨⟨hd, hdesc⟩, hnt⟩ := hwf
  have hs := hr.stops
  simp only [schemaExtToks, List.length_append, List.length_cons] at hf
  have hbl := bracketToks_length "{" "}" rootToks s.roots
  rw [← bracedToks_eq, rootsToks_length] at hbl
  have hdirs := parse_dirs s.dirs hd (bracedToks rootToks s.roots ++ rest) f (by omega)
    (by rw [bracedToks_eq]; exact startsP_bracket "(" "{" "}" (by decide) _ _ _ hs.paren)
    (by rw [bracedToks_eq]; exact startsP_bracket "@" "{" "}" (by decide) _ _ _ hs.at_)
  have hroots : optBracketed "{" "}" parseRoot f (bracedToks rootToks s.roots ++ rest) =
      some (s.roots.map eraseRoot, rest) := by
    rw [bracedToks_eq]
    exact optBracketed_bracket "{" "}" parseRoot rootToks eraseRoot s.roots rest f hs.brace (Stops.close_brace rest)
      (by omega) (fun y _ X _ => parse_root y X) (fun y _ X => rootToks_head y X)
  have hnt' : ((eraseDirs s.dirs).isEmpty && (s.roots.map eraseRoot).isEmpty) = false := by
    simp only [eraseDirs, List.isEmpty_map]
    cases h1 : s.dirs.isEmpty <;> cases h2 : s.roots.isEmpty <;> simp [h1, h2] at hnt ⊢
  simp only [schemaExtToks, List.cons_append, List.append_assoc]
  simp only [parseTsItem, parseDesc, parseSchemaExtRest, hdirs, hroots, hnt']
  simp [eraseSchemaDef, hdesc]

theorem locations_roundtrip (ls : List Name) :
    (eraseNames (ls.map fun n => (n, Pos.none))).map (·.1) = ls := by
  induction ls with
  | nil => rfl
  | cons l ls ih => simp only [eraseNames, List.map_cons, List.map_map] at ih ⊢; simp [ih]

theorem locations_all (ls : List Name) (h : ls.all isLocation = true) :
    (eraseNames (ls.map fun n => (n, Pos.none))).all (fun x => isLocation x.1) = true := by
  simp only [eraseNames, List.map_map, List.all_map]
  simpa [Function.comp_def] using h

theorem parse_directiveDef (d : DirectiveDef) (hwf : wfDirectiveDef d = true) (rest : List LTok) (f : Nat)
    (hr : ItemFollow rest) (hf : 2 * (directiveDefToks d).length + 4 ≤ f) :
    parseTsItem f (directiveDefToks d ++ rest) = some (.directiveDef (eraseDirectiveDef d), rest) := by
  simp only [wfDirectiveDef, Bool.and_eq_true, Bool.not_eq_true'] at hwf
  obtain ⟨⟨hargs, hne⟩, hloc⟩ := hwf
  have hs := hr.stops
  simp only [directiveDefToks, locationsToks, argDefsToks_eq, List.length_append, List.length_cons, sepToks_length,
    List.length_map] at hf
  cases hls : d.locations with
  | nil => simp [hls] at hne
  | cons l ls =>
    have hsep := sepNames1_toks "|" rest hs.bar (l, Pos.none) (ls.map fun n => (n, Pos.none)) f
      (by rw [hls] at hf; simp at hf ⊢; omega)
    have hall := locations_all d.locations hloc
    have hrt := locations_roundtrip d.locations
    rw [hls] at hall hrt
    simp only [List.map_cons] at hall hrt
    cases hrep : d.repeatable
    · have hA := parse_ivList "(" ")" d.args hargs
        (LTok.name "on" :: (sepToks "|" ((l, Pos.none) :: ls.map fun n => (n, Pos.none)) ++ rest)) f
        (by simp [startsP]) (Stops.close_paren _) (by omega)
      simp only [directiveDefToks, locationsToks, argDefsToks_eq, hls, hrep, List.map_cons, List.cons_append,
        List.append_assoc, List.nil_append, Bool.false_eq_true, if_false]
      simp only [parseTsItem, parseDesc_desc]
      simp [parseDirectiveDefRest, hA, parseRepeatable, hsep, hall, hrt, eraseDirectiveDef, hls, hrep]
    · have hA := parse_ivList "(" ")" d.args hargs
        (LTok.name "repeatable" :: LTok.name "on" ::
          (sepToks "|" ((l, Pos.none) :: ls.map fun n => (n, Pos.none)) ++ rest)) f
        (by simp [startsP]) (Stops.close_paren _) (by omega)
      simp only [directiveDefToks, locationsToks, argDefsToks_eq, hls, hrep, List.map_cons, List.cons_append,
        List.append_assoc, List.nil_append, if_true]
      simp only [parseTsItem, parseDesc_desc]
      simp [parseDirectiveDefRest, hA, parseRepeatable, hsep, hall, hrt, eraseDirectiveDef, hls, hrep]

theorem parse_tsItem (i : TsItem) (hwf : wfTsItem i = true) (rest : List LTok) (f : Nat) (hr : ItemFollow rest)
    (hf : 2 * (tsItemToks i).length + 4 ≤ f) :
    parseTsItem f (tsItemToks i ++ rest) = some (eraseTsItem i, rest) := by
  cases i with
  | schemaDef s => exact parse_schemaDef s hwf rest f hf
  | typeDef t => exact parse_typeDef t hwf rest f hr hf
  | directiveDef d => exact parse_directiveDef d hwf rest f hr hf
  | schemaExt s => exact parse_schemaExt s hwf rest f hr hf
  | typeExt t => exact parse_typeExt t hwf rest f hr hf

/-! ### documents -/

theorem ItemFollow.nil : ItemFollow [] := ⟨Stops.nil, rfl⟩

theorem itemFollow_desc (d : Option String) (n : String) (hn : n ≠ "implements") (X : List LTok) :
    ItemFollow (descToks d ++ .name n :: X) := by
  cases d with
  | none => exact ⟨Stops.name _ _, by simp [descToks, startsN, hn]⟩
  | some s => exact ⟨Stops.str _ _, by simp [descToks, startsN]⟩

theorem tsItemToks_follow (i : TsItem) (r : List LTok) : ItemFollow (tsItemToks i ++ r) := by
  cases i with
  | schemaDef s =>
    simp only [tsItemToks, schemaDefToks, List.cons_append, List.append_assoc]
    exact itemFollow_desc _ _ (by decide) _
  | typeDef t =>
    simp only [tsItemToks, typeDefToks, List.cons_append, List.append_assoc]
    exact itemFollow_desc _ _ (kindKw_ne_implements _) _
  | directiveDef d =>
    simp only [tsItemToks, directiveDefToks, List.cons_append, List.append_assoc]
    exact itemFollow_desc _ _ (by decide) _
  | schemaExt s =>
    simp only [tsItemToks, schemaExtToks, List.cons_append]
    exact ⟨Stops.name _ _, by simp [startsN]⟩
  | typeExt t =>
    simp only [tsItemToks, typeExtToks, List.cons_append]
    exact ⟨Stops.name _ _, by simp [startsN]⟩

theorem tsItemToks_pos (i : TsItem) : 1 ≤ (tsItemToks i).length := by
  cases i with
  | schemaDef s => simp [tsItemToks, schemaDefToks]; omega
  | typeDef t => simp [tsItemToks, typeDefToks]; omega
  | directiveDef d => simp [tsItemToks, directiveDefToks]; omega
  | schemaExt s => simp [tsItemToks, schemaExtToks]
  | typeExt t => simp [tsItemToks, typeExtToks]

theorem parse_tsDoc (d : TsDoc) (hwf : wfTsDoc d = true) (f : Nat) (hf : 2 * (tsDocToks d).length + 4 ≤ f) :
    parseTsDoc f (tsDocToks d) = some (eraseTsDoc d) := by
  unfold parseTsDoc tsDocToks eraseTsDoc
  unfold tsDocToks at hf
  have hall := List.all_eq_true.mp hwf
  have hc := listToks_length_count tsItemToks d (fun x _ => tsItemToks_pos x)
  refine manyEnd_toks (parseTsItem f) tsItemToks eraseTsItem d f (by omega) ?_ ?_
  · intro x hx r hr
    have := listToks_length_mem tsItemToks d x hx
    have hfol : ItemFollow r := by
      rcases hr with rfl | ⟨y, r', rfl, _⟩
      · exact ItemFollow.nil
      · exact tsItemToks_follow y r'
    exact parse_tsItem x (hall x hx) r f hfol (by omega)
  · intro x _ e
    have := tsItemToks_pos x
    rw [e] at this
    simp at this

theorem parse_tsDocument (d : TsDoc) (hwf : wfTsDoc d = true) : parseTsDocument (tsDocToks d) = some (eraseTsDoc d) :=
  parse_tsDoc d hwf _ (by omega)

end NitroVerif.C16
