/-
C08 (stages after parsing), the operation type printer, part C: assembly.

For every definition of a document the operation checker accepts (schema: `schemaOkB`, `ifaceOkB`, `skipIncludeB`)
that passes the decidable coherence check `noKeyClashB` (= C01's `cohB`: selections with one response key agree on
field name and on having a sub-selection, recursively — the FieldsInSetCanMerge part the checker does not implement),
`get_type_for_selection_set` returns a tree for ALL sufficiently large fuels of the model: none of the `expect` /
`panic!` sites of type_printer.rs, selection_set_visitor.rs and deep_merge.rs is reached.
-/
import NitroVerif.Lemmas.StagesGenB
import NitroVerif.Lemmas.StagesJs
import NitroVerif.Lemmas.OpTypesRefCheck
namespace NitroVerif.Stages
open NitroVerif.Gql NitroVerif.CheckOp NitroVerif.CheckCommon NitroVerif.Valid NitroVerif.OpTypes NitroVerif.OpTypes.Ref
  NitroVerif.Exec

/-- the named type in scope at the root of a definition (`resultTree`) -/
def rootNameOf (S : Schema) : ExecDef → Name
  | .op o => S.rootName o.kind
  | .frag f => f.cond
  | .imp _ => ""

/-- `OpTypes.resultTree` with the two fuels of the model as parameters -/
def treeOf (S : Schema) (D : Doc) (mfuel fuel : Nat) : ExecDef → Option (Except Panic SelTree)
  | .op o => some (implTree S (OpTypes.fragsOf D) mfuel fuel (.nonNull (.named (S.rootName o.kind) {})) o.sel)
  | .frag f => some (implTree S (OpTypes.fragsOf D) mfuel fuel (.nonNull (.named f.cond f.condPos)) f.sel)
  | .imp _ => none

theorem resultTree_eq (S : Schema) (D : Doc) (x : ExecDef) :
    resultTree S D x = treeOf S D (OpTypes.mfuelFor D) (OpTypes.fuelFor D) x := by
  cases x <;> rfl

/-- the decidable side condition for one definition, at fragment-nesting bound `Dc` and check depth `d` -/
def cohDefB (S : Schema) (D : Doc) (Dc d : Nat) (x : ExecDef) : Bool :=
  (selOfDef x).all (fits (OpTypes.fragsOf D) Dc) &&
    cohB S (OpTypes.fragsOf D) Dc d [selOfDef x] (rootNameOf S x)

/-- … for every definition of the document -/
def noKeyClashB (S : Schema) (D : Doc) (Dc d : Nat) : Bool := D.all (cohDefB S D Dc d)

/-- a bound on the list / non-null wrapper depth of the schema's field types -/
def fieldDepthBound (S : Schema) : Nat :=
  (S.typeDefs.flatMap (·.fields)).foldr (fun f m => max (gdepth f.ty) m) 0

theorem foldr_max_ge {α : Type} (g : α → Nat) : ∀ (l : List α) (x : α), x ∈ l →
    g x ≤ l.foldr (fun f m => max (g f) m) 0
  | [], _, h => by cases h
  | a :: l, x, h => by
    simp only [List.foldr_cons]
    rcases List.mem_cons.mp h with rfl | h
    · exact Nat.le_max_left _ _
    · exact Nat.le_trans (foldr_max_ge g l x h) (Nat.le_max_right _ _)

theorem fieldDepthBound_ok (S : Schema) : fieldDepthB S (fieldDepthBound S) = true := by
  unfold fieldDepthB
  simp only [List.all_eq_true, decide_eq_true_eq]
  intro t ht f hf
  exact foldr_max_ge (fun f : FieldDef => gdepth f.ty) _ f (List.mem_flatMap.mpr ⟨t, ht, hf⟩)

/-- the context the C01 lemmas speak about (its `scalar` and `fuel` components play no role here) -/
def ctxOf (S : Schema) (D : Doc) : Exec.Ctx := { S := S, F := OpTypes.fragsOf D, scalar := fun _ _ => true, fuel := 0 }

section
variable {S : Schema} {D : Doc} (hS : schemaOkB S = true) (hI : ifaceOkB S = true) (hSI : skipIncludeB S = true)
  (h : checkOp S D = [])
include hS hI hSI h

/-- every definition's selection set was walked quietly with its root type in scope -/
theorem def_walked {x : ExecDef} (hx : x ∈ D) (hni : ∀ i, x ≠ .imp i) :
    ∃ A seen vars, Admissible A ∧ QuietSet S D A seen vars (rootNameOf S x) (selOfDef x) := by
  cases x with
  | imp i => exact absurd rfl (hni i)
  | op o =>
    have ho : o ∈ opsOf D := by simp only [opsOf, List.mem_filterMap]; exact ⟨_, hx, rfl⟩
    obtain ⟨_, _, _, hq⟩ := accepted_op h ho
    exact ⟨allowNone, [], some o.vars, admissible_none, hq⟩
  | frag f =>
    have hf : f ∈ CheckOp.fragsOf D := by simp only [CheckOp.fragsOf, List.mem_filterMap]; exact ⟨_, hx, rfl⟩
    obtain ⟨A, vars, seen, hA, _, _, hq⟩ := frag_walked h (schemaOk_noReserved hS) hf
    exact ⟨A, seen, vars, hA, hq⟩

/-- one definition: a tree for all sufficiently large fuels -/
theorem def_tree_ok {x : ExecDef} (hx : x ∈ D) {Dc d : Nat} (hcoh : cohDefB S D Dc d x = true) :
    ∃ N M, ∀ fuel, N ≤ fuel → ∀ mfuel, M ≤ mfuel → ∀ r, treeOf S D mfuel fuel x = some r → ∃ T, r = .ok T := by
  by_cases hni : ∀ i, x ≠ .imp i
  · obtain ⟨A, seen, vars, hA, hq⟩ := def_walked hS hI hSI h hx hni
    obtain ⟨ct, hct, hcomp, Dp, hDp⟩ := quietSet_ok hS hI hSI (accepted_condsDefined h) hA hq
    have hpar := parentsOk_of_composite hS hct hcomp
    simp only [cohDefB, Bool.and_eq_true, List.all_eq_true] at hcoh
    have hC : ∀ d', Coh (ctxOf S D) d' (Sb1 (selOfDef x)) (rootNameOf S x) :=
      coh_of_cohB (ctxOf S D) Dc d (selOfDef x) (rootNameOf S x) hcoh.1 hcoh.2
    refine ⟨2 * Dp + 2, max ((Dp + 1) * (fieldDepthBound S + 1)) (eszL (OpTypes.fragsOf D) Dp (selOfDef x)), ?_⟩
    intro fuel hfuel mfuel hmfuel r hr
    have E : NPEnv (ctxOf S D) mfuel (fieldDepthBound S) Dp :=
      ⟨typeNamesNodup_of_valid hS, fieldDepth_of_check (c := ctxOf S D) (fieldDepthBound_ok S),
        Nat.le_trans (Nat.le_max_left _ _) hmfuel⟩
    have key : ∀ p : Pos, ∃ T, implTree S (OpTypes.fragsOf D) mfuel fuel (.nonNull (.named (rootNameOf S x) p))
        (selOfDef x) = .ok T := by
      intro p
      exact implTree_ok (c := ctxOf S D) E (Nat.le_refl _) (ty := .nonNull (.named (rootNameOf S x) p)) hfuel
        (by simpa [GType.unwrapped, ctxOf] using hpar)
        (by intro o ho s hs; exact (hDp s hs).2 o (by simpa [GType.unwrapped, ctxOf] using ho))
        (fun s hs => (hDp s hs).1) (Nat.le_trans (Nat.le_max_right _ _) hmfuel)
        (by simpa [GType.unwrapped] using hC)
    cases x with
    | imp i => exact absurd rfl (hni i)
    | op o =>
      simp only [treeOf, Option.some.injEq] at hr
      subst hr
      exact key {}
    | frag f =>
      simp only [treeOf, Option.some.injEq] at hr
      subst hr
      exact key f.condPos
  · have : ∃ i, x = .imp i := by
      cases x with
      | imp i => exact ⟨i, rfl⟩
      | op o => exact absurd (fun i => by simp) hni
      | frag f => exact absurd (fun i => by simp) hni
    obtain ⟨i, rfl⟩ := this
    exact ⟨0, 0, fun _ _ _ _ r hr => by simp [treeOf] at hr⟩

/-- all definitions of the document, with common fuel bounds -/
theorem doc_trees_ok {Dc d : Nat} (hcoh : noKeyClashB S D Dc d = true) :
    ∃ N M, ∀ fuel, N ≤ fuel → ∀ mfuel, M ≤ mfuel → ∀ x ∈ D, ∀ r, treeOf S D mfuel fuel x = some r → ∃ T, r = .ok T := by
  have hall : ∀ x ∈ D, cohDefB S D Dc d x = true := List.all_eq_true.mp hcoh
  have key : ∀ (L : List ExecDef), (∀ x ∈ L, x ∈ D) →
      ∃ N M, ∀ fuel, N ≤ fuel → ∀ mfuel, M ≤ mfuel → ∀ x ∈ L, ∀ r, treeOf S D mfuel fuel x = some r → ∃ T, r = .ok T := by
    intro L
    induction L with
    | nil => intro _; exact ⟨0, 0, fun _ _ _ _ x hx => by cases hx⟩
    | cons y L ih =>
      intro hsub
      obtain ⟨N1, M1, h1⟩ := def_tree_ok hS hI hSI h (hsub y (by simp)) (hall y (hsub y (by simp)))
      obtain ⟨N2, M2, h2⟩ := ih (fun x hx => hsub x (List.mem_cons_of_mem _ hx))
      refine ⟨max N1 N2, max M1 M2, ?_⟩
      intro fuel hf mfuel hm x hx r hr
      rcases List.mem_cons.mp hx with rfl | hx
      · exact h1 fuel (Nat.le_trans (Nat.le_max_left _ _) hf) mfuel (Nat.le_trans (Nat.le_max_left _ _) hm) r hr
      · exact h2 fuel (Nat.le_trans (Nat.le_max_right _ _) hf) mfuel (Nat.le_trans (Nat.le_max_right _ _) hm) x hx r hr
  exact key D (fun x hx => hx)

end
end NitroVerif.Stages
