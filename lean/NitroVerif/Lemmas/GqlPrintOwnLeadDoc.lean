import NitroVerif.Lemmas.GqlPrintOwnLeadDirDef
import NitroVerif.Lemmas.ParseDocTsDoc
/-!
C16 over nitrogql's own parser, second stage: items and documents over the renderings WITH leading separators. Copy of
C07's `Lemmas/ParseDocTsDoc.lean` (`tsItemT`, `tsDoc_parse`, `parseTs_rTsDoc`); the well-formedness predicates are C07's.
-/
namespace NitroVerif.DocParseL
open NitroVerif.Peg NitroVerif.Gen NitroVerif.Gen.Parts NitroVerif.Build NitroVerif.TypeParse NitroVerif.StringParse
open NitroVerif.Gql NitroVerif.ValueParse NitroVerif.Spec.Lex NitroVerif.ParseText NitroVerif.DocParse

set_option linter.unusedSimpArgs false
set_option linter.unusedVariables false

variable {inp : List Char}

/-- the text of a type definition of any kind -/
def rTypeDefAny (τ : Trivia) (sep : Bool) (p : Nat) (t : TypeDef) : List Char :=
  match t.kind with
  | .scalar => rScalarDef τ sep p t
  | .object => rObjDef τ (kindKw .object) sep p t
  | .interface => rObjDef τ (kindKw .interface) sep p t
  | .union => rUnionDef τ sep p t
  | .enum => rEnumDef τ sep p t
  | .input => rInputDef τ sep p t

def wpTypeDefAny (τ : Trivia) (inp : List Char) (sep : Bool) (p : Nat) (t : TypeDef) : TypeDef :=
  match t.kind with
  | .scalar => wpScalarDef τ inp sep p t
  | .object => wpObjDef τ inp .object (kindKw .object) sep p t
  | .interface => wpObjDef τ inp .interface (kindKw .interface) sep p t
  | .union => wpUnionDef τ inp sep p t
  | .enum => wpEnumDef τ inp sep p t
  | .input => wpInputDef τ inp sep p t

/-- the text of a type extension of any kind -/
def rTypeExtAny (τ : Trivia) (sep : Bool) (p : Nat) (t : TypeDef) : List Char :=
  match t.kind with
  | .scalar => rScalarExt τ sep p t
  | .object => rObjExt τ (kindKw .object) sep p t
  | .interface => rObjExt τ (kindKw .interface) sep p t
  | .union => rUnionExt τ sep p t
  | .enum => rEnumExt τ sep p t
  | .input => rInputExt τ sep p t

def wpTypeExtAny (τ : Trivia) (inp : List Char) (sep : Bool) (p : Nat) (t : TypeDef) : TypeDef :=
  match t.kind with
  | .scalar => wpScalarExt τ inp sep p t
  | .object => wpObjExt τ inp .object (kindKw .object) sep p t
  | .interface => wpObjExt τ inp .interface (kindKw .interface) sep p t
  | .union => wpUnionExt τ inp sep p t
  | .enum => wpEnumExt τ inp sep p t
  | .input => wpInputExt τ inp sep p t

/-- the text of an item -/
def rTsItem (τ : Trivia) : Bool → Nat → TsItem → List Char
  | sep, p, .typeDef t => rTypeDefAny τ sep p t
  | sep, p, .schemaDef s => rSchemaDef τ sep p s
  | sep, p, .directiveDef d => rDirectiveDef τ sep p d
  | sep, p, .schemaExt s => rSchemaExt τ sep p s
  | sep, p, .typeExt t => rTypeExtAny τ sep p t

def wpTsItem (τ : Trivia) (inp : List Char) : Bool → Nat → TsItem → TsItem
  | sep, p, .typeDef t => .typeDef (wpTypeDefAny τ inp sep p t)
  | sep, p, .schemaDef s => .schemaDef (wpSchemaDef τ inp sep p s)
  | sep, p, .directiveDef d => .directiveDef (wpDirectiveDef τ inp sep p d)
  | sep, p, .schemaExt s => .schemaExt (wpSchemaExt τ inp sep p s)
  | sep, p, .typeExt t => .typeExt (wpTypeExtAny τ inp sep p t)

theorem defHead_prefix {τ : Trivia} {sN : Bool} {p : Nat} {desc : Option String} {kw : List Char} {name : Name}
    {Rr : List Char} (hname : validName name.toList) (h : HasAt inp p (rDefHead τ sN p desc kw name ++ Rr)) :
    HasAt inp p (rOptDesc τ p desc ++ tk τ true (p + (rOptDesc τ p desc).length) kw) ∧
      Tok (At inp (p + (rOptDesc τ p desc).length + (tk τ true (p + (rOptDesc τ p desc).length) kw).length)) := by
  have h0 := h.left
  simp only [rDefHead] at h0
  refine ⟨hasAt_append.mpr ⟨h0.left, h0.right.left⟩, ?_⟩
  exact tok_of_hd h0.right.right (hd_tk (hd_of_validName hname)) (fun d => nameStart_not_trivia)

theorem tsItem_of_kind {τ : Trivia} (hτ : ∀ q, Ws (τ q)) (k : TypeKind) (desc : Option String) {p : Nat} {t : List Char}
    {td : TypeDef} (hk : KindDefOk inp (kindDefRule k) p t td)
    (h : HasAt inp p (rOptDesc τ p desc ++ tk τ true (p + (rOptDesc τ p desc).length) (kindKw k)))
    (ht : Tok (At inp (p + (rOptDesc τ p desc).length + (tk τ true (p + (rOptDesc τ p desc).length) (kindKw k)).length)))
    (hlen : (rOptDesc τ p desc).length ≤ t.length) : TsItemOk inp p t (.typeDef td) := by
  obtain ⟨prK, hrun, hok, hb⟩ := hk
  obtain ⟨e1, e2, e3, hr⟩ := typeDefWrapK hτ k desc hrun h ht
  refine ⟨_, hr.mono (by barith), ?_, fun fuel hf => buildItem_typeDef _ fuel p e1 e2 e3 prK td (hb fuel hf e1)⟩
  exact pairOk_mk (by decide) (by decide) ⟨cleanP_of (by decide) (by decide)
    ⟨cleanP_of (by decide) (by decide) ⟨hok.clean, trivial⟩, trivial⟩, trivial⟩

theorem tsItemT (τ : Trivia) (hτ : ∀ q, Ws (τ q)) (it : TsItem) (hwf : WFTsItem it) (sep : Bool) (p : Nat)
    (h : HasAt inp p (rTsItem τ sep p it)) (hn : Nxt inp tdBad sep (p + (rTsItem τ sep p it).length)) :
    TsItemOk inp p (rTsItem τ sep p it) (wpTsItem τ inp sep p it) := by
  cases it with
  | typeDef t =>
    obtain ⟨hname, hdirs, hk⟩ := hwf
    simp only [rTsItem, wpTsItem, rTypeDefAny, wpTypeDefAny] at h hn ⊢
    cases hkind : t.kind with
    | scalar =>
      simp only [hkind] at h hn hk ⊢
      have hpre : HasAt inp p (rDefHead τ (sep && t.dirs.isEmpty) p t.desc (kindKw .scalar) t.name ++
          rDirs τ sep (p + (rDefHead τ (sep && t.dirs.isEmpty) p t.desc (kindKw .scalar) t.name).length) t.dirs) := h
      obtain ⟨h1, h2⟩ := defHead_prefix hname hpre
      exact tsItem_of_kind hτ .scalar t.desc (scalarDefT τ hτ t hname hdirs h hn) h1 h2
        (by simp [rScalarDef, rDefHead])
    | object =>
      simp only [hkind] at h hn hk ⊢
      obtain ⟨himpl, hfields, hne⟩ := hk
      have hpre := h
      simp only [rObjDef] at hpre
      obtain ⟨h1, h2⟩ := defHead_prefix hname hpre
      exact tsItem_of_kind hτ .object t.desc (objDefT τ hτ t hname himpl hdirs hfields hne h hn) h1 h2
        (by simp [rObjDef, rDefHead])
    | interface =>
      simp only [hkind] at h hn hk ⊢
      obtain ⟨himpl, hfields, hne⟩ := hk
      have hpre := h
      simp only [rObjDef] at hpre
      obtain ⟨h1, h2⟩ := defHead_prefix hname hpre
      exact tsItem_of_kind hτ .interface t.desc (ifaceDefT τ hτ t hname himpl hdirs hfields hne h hn) h1 h2
        (by simp [rObjDef, rDefHead])
    | union =>
      simp only [hkind] at h hn hk ⊢
      obtain ⟨hmem, hmv⟩ := hk
      have hpre := h
      simp only [rUnionDef] at hpre
      obtain ⟨h1, h2⟩ := defHead_prefix hname hpre
      exact tsItem_of_kind hτ .union t.desc (unionDefT τ hτ t hname hdirs hmem hmv h hn) h1 h2
        (by simp [rUnionDef, rDefHead])
    | «enum» =>
      simp only [hkind] at h hn hk ⊢
      have hpre := h
      simp only [rEnumDef] at hpre
      obtain ⟨h1, h2⟩ := defHead_prefix hname hpre
      exact tsItem_of_kind hτ .enum t.desc (enumDefT τ hτ t hname hdirs hk h hn) h1 h2
        (by simp [rEnumDef, rDefHead])
    | input =>
      simp only [hkind] at h hn hk ⊢
      have hpre := h
      simp only [rInputDef] at hpre
      obtain ⟨h1, h2⟩ := defHead_prefix hname hpre
      exact tsItem_of_kind hτ .input t.desc (inputDefT τ hτ t hname hdirs hk h hn) h1 h2
        (by simp [rInputDef, rDefHead])
  | schemaDef s => exact schemaDefT τ hτ s hwf h hn
  | directiveDef d => exact directiveDefT τ hτ d hwf h hn
  | schemaExt s => exact schemaExtT τ hτ s hwf h hn
  | typeExt t =>
    obtain ⟨hname, hdirs, hk⟩ := hwf
    simp only [rTsItem, wpTsItem, rTypeExtAny, wpTypeExtAny] at h hn ⊢
    cases hkind : t.kind with
    | scalar =>
      simp only [hkind] at h hn hk ⊢
      have hpre := h
      simp only [rScalarExt] at hpre
      obtain ⟨h1, h2⟩ := extHead_prefix hname hpre
      exact tsItem_of_ext hτ .scalar (scalarExtT τ hτ t hname hdirs h hn) h1 h2 (by simp [rScalarExt, rExtHead])
    | object =>
      simp only [hkind] at h hn hk ⊢
      obtain ⟨himpl, hfields, hne⟩ := hk
      have hpre := h
      simp only [rObjExt] at hpre
      obtain ⟨h1, h2⟩ := extHead_prefix hname hpre
      exact tsItem_of_ext hτ .object (objExtAllT τ hτ t hname himpl hdirs hfields hne h hn) h1 h2
        (by simp [rObjExt, rExtHead])
    | interface =>
      simp only [hkind] at h hn hk ⊢
      obtain ⟨himpl, hfields, hne⟩ := hk
      have hpre := h
      simp only [rObjExt] at hpre
      obtain ⟨h1, h2⟩ := extHead_prefix hname hpre
      exact tsItem_of_ext hτ .interface (ifaceExtT τ hτ t hname himpl hdirs hfields hne h hn) h1 h2
        (by simp [rObjExt, rExtHead])
    | union =>
      simp only [hkind] at h hn hk ⊢
      obtain ⟨hne, hmv⟩ := hk
      have hk' := unionExtT τ hτ t hname hdirs hne hmv h hn
      have hpre : ∃ Rr, rUnionExt τ sep p t = rExtHead τ false p (kindKw .union) t.name ++ Rr := by
        simp only [rUnionExt]
        split
        · exact ⟨_, rfl⟩
        · exact ⟨_, rfl⟩
      obtain ⟨Rr, hRr⟩ := hpre
      obtain ⟨h1, h2⟩ := extHead_prefix hname (hRr ▸ h)
      exact tsItem_of_ext hτ .union hk' h1 h2 (by rw [hRr]; simp [rExtHead])
    | «enum» =>
      simp only [hkind] at h hn hk ⊢
      have hpre := h
      simp only [rEnumExt] at hpre
      obtain ⟨h1, h2⟩ := extHead_prefix hname hpre
      exact tsItem_of_ext hτ .enum (enumExtT τ hτ t hname hdirs hk h hn) h1 h2 (by simp [rEnumExt, rExtHead])
    | input =>
      simp only [hkind] at h hn hk ⊢
      have hpre := h
      simp only [rInputExt] at hpre
      obtain ⟨h1, h2⟩ := extHead_prefix hname hpre
      exact tsItem_of_ext hτ .input (inputExtT τ hτ t hname hdirs hk h hn) h1 h2 (by simp [rInputExt, rExtHead])

theorem hd_rTsItem (τ : Trivia) (sep : Bool) (p : Nat) (it : TsItem) (hwf : WFTsItem it) :
    Hd (fun d => nameStart d ∨ d = '"') (rTsItem τ sep p it) := by
  cases it with
  | typeDef t =>
    simp only [rTsItem, rTypeDefAny]
    cases t.kind <;> simp only [rScalarDef, rObjDef, rUnionDef, rEnumDef, rInputDef] <;>
      exact (hd_rDefHead τ _ p t.desc _ t.name (kindKw_valid _)).append _
  | schemaDef s => exact hd_rSchemaDef τ sep p s
  | directiveDef d => exact hd_rDirectiveDef τ sep p d
  | schemaExt s => exact hd_rSchemaExt τ sep p s
  | typeExt t =>
    simp only [rTsItem, rTypeExtAny]
    cases t.kind <;> simp only [rScalarExt, rObjExt, rUnionExt, rUnionExtD, rUnionExtM, rEnumExt, rInputExt] <;>
      first
      | exact (hd_rExtHead τ _ p _ t.name).append _
      | (split <;> exact (hd_rExtHead τ _ p _ t.name).append _)

/-! ### the document -/

def rTsDoc (τ : Trivia) (doc : List TsItem) : List Char :=
  τ 0 ++ renderItems (rTsItem τ) true false (τ 0).length doc

def wpTsDoc (τ : Trivia) (inp : List Char) (doc : List TsItem) : TsDoc :=
  mapItems (rTsItem τ) true false (wpTsItem τ inp) (τ 0).length doc

def TsGood (τ : Trivia) (inp : List Char) : Bool → Nat → TsItem → Pair → Prop := fun s q it pr =>
  PairOk R.TypeSystemDefinitionOrExtension q pr ∧
    ∀ fuel, (rTsItem τ s q it).length ≤ fuel →
      buildTypeSystemDefinitionOrExtension (Ctx.spec inp) fuel pr = .ok (wpTsItem τ inp s q it)

theorem filter_tsItems (pss : List Pair) (eoi : Pair) (h : ∀ x ∈ pss, x.rule = R.TypeSystemDefinitionOrExtension)
    (he : eoi.rule = R.EOI) :
    ([] ++ (pss ++ [eoi])).filter (fun c => c.rule = R.TypeSystemDefinitionOrExtension) = pss := by
  simp only [List.nil_append, List.filter_append]
  have h1 : pss.filter (fun c => decide (c.rule = R.TypeSystemDefinitionOrExtension)) = pss :=
    List.filter_eq_self.mpr (fun x hx => by simp [h x hx])
  have h2 : [eoi].filter (fun c => decide (c.rule = R.TypeSystemDefinitionOrExtension)) = [] := by
    have : decide (eoi.rule = R.TypeSystemDefinitionOrExtension) = false := by rw [he]; decide
    simp [List.filter, this]
  rw [h1, h2, List.append_nil]

/-- parsing and building the rendering of a non-empty list of well-formed items -/
theorem tsDoc_parse (τ : Trivia) (hτ : ∀ q, Ws (τ q)) (doc : List TsItem) (hne : doc ≠ []) (hwf : ∀ d ∈ doc, WFTsItem d) :
    ∃ pr, Peg.parse gList (defaultFuel (rTsDoc τ doc)) R.TypeSystemExtensionDocument (rTsDoc τ doc) = .pairs [pr] ∧
      CleanP pr ∧ buildTypeSystemDocument (Ctx.spec (rTsDoc τ doc)) (4 * (rTsDoc τ doc).length + 64) [pr] =
        .ok (wpTsDoc τ (rTsDoc τ doc) doc) := by
  cases doc with
  | nil => exact absurd rfl hne
  | cons a r =>
    generalize hinp : rTsDoc τ (a :: r) = inp
    have hI : inp = τ 0 ++ renderItems (rTsItem τ) true false (τ 0).length (a :: r) := by rw [← hinp]; rfl
    generalize hG : τ 0 = g at hI
    generalize hT : renderItems (rTsItem τ) true false g.length (a :: r) = tI at hI
    have hg : HasAt inp 0 g := ⟨tI, by simpa using hI⟩
    have hat : HasAt inp (0 + g.length) tI := ⟨[], by rw [hI]; simp⟩
    have hend : inp.drop (0 + g.length + tI.length) = [] := by rw [hI]; simp
    have htokE : Tok (At inp (0 + g.length + tI.length)) := by
      simp only [Tok, At]; rw [hend]; exact headNot_nil _
    have hnE : Nxt inp tdBad false (0 + g.length + tI.length) :=
      ⟨htokE, by rw [hend]; exact headNot_nil _, fun _ => by rw [hend]; exact headNot_nil _⟩
    obtain ⟨pss, hmany, hgood⟩ := items_many1K (rTsItem τ) true false (.call R.TypeSystemDefinitionOrExtension)
      (fun _ => tdBad) 130 (TsGood τ inp) r a (0 + g.length)
      (fun x hx s q hx1 hx2 => by
        obtain ⟨pr, hr, hok, hb⟩ := tsItemT τ hτ x (hwf x hx) s q hx1 hx2
        exact ⟨pr, hr, hok, hb⟩)
      (fun x hx s q => (hd_rTsItem τ s q x (hwf x hx)).mono (by
        rintro c (hc | rfl)
        · have := nameStart_not_punct hc
          refine ⟨nameStart_not_trivia hc, ?_, fun h => by cases h⟩
          rintro (rfl | rfl | rfl | rfl | rfl | rfl) <;> simp_all
        · decide))
      (by simpa [hT] using hat) (by simpa [hT] using hnE)
      (by simpa [hT] using (tsItem_fails_eoi hend).mono (by omega : 100 ≤ 130 + 100))
    simp only [Nat.zero_add, hT] at hmany hgood
    have htokI : Tok (At inp (0 + g.length)) := by
      obtain ⟨s', tail, htl⟩ := renderItems_cons (rTsItem τ) true false g.length a r
      refine tok_of_hd hat (P := fun d => nameStart d ∨ d = '"') ?_ ?_
      · rw [← hT, htl]
        exact (hd_rTsItem τ s' _ a (hwf a (List.mem_cons_self ..))).append _
      · rintro c (hc | rfl)
        · exact nameStart_not_trivia hc
        · decide
    have hgap : Gap inp 0 g := ⟨hg, hG ▸ hτ 0, htokI⟩
    have r0 : RunsK (g.length + 60) .soi (At inp 0) (At inp (0 + g.length)) [] :=
      ⟨At inp 0, (runs_soi true .nonAtomic (At inp 0) rfl).mono (by omega), hgap.skip⟩
    have rE : RunsK 23 (.call R.EOI) (At inp (g.length + tI.length)) (At inp (g.length + tI.length))
        [.mk R.EOI (g.length + tI.length) (g.length + tI.length) []] := by
      have hr : (At inp (g.length + tI.length)).rest = [] := by simpa [At] using hend
      have htk : Tok (At inp (g.length + tI.length)) := by simpa using htokE
      exact ⟨At inp (g.length + tI.length),
        (runs_call (runsRule_normal look_EOI (nsp (by decide) (by decide)) (runs_eoi true .nonAtomic _ hr))).mono
          (by omega), (skipTo_self htk).mono (by omega)⟩
    simp only [Nat.zero_add] at r0
    obtain ⟨e, rD⟩ := runsK_rule look_TSDocument (by decide) (by decide)
      (runsK_seq r0 (runsK_seq (runsK_plus1 hmany) rE))
    obtain ⟨c1, hruns, _⟩ := rD
    obtain ⟨tr', hh⟩ := hruns {}
    have hlenI : inp.length = g.length + tI.length := by rw [hI]; simp
    have hfuel : max (g.length + 60) (max (max (B tI.length + 130 + 1) 20 + 4) 23 + 1) + 1 + 2 ≤
        defaultFuel inp + 1 := by
      simp only [defaultFuel, B, hlenI]; omega
    have hp := hh (defaultFuel inp + 1) hfuel
    simp only [eval, At, List.drop_zero] at hp
    have hrule : ∀ x ∈ pss, x.rule = R.TypeSystemDefinitionOrExtension :=
      goodItems_forall (rTsItem τ) true false _ (fun x => x.rule = R.TypeSystemDefinitionOrExtension) (a :: r)
        (fun x _ s q pr hgd => hgd.1.rule) _ pss hgood
    have hclean : CleanL pss := goodItems_clean (rTsItem τ) true false _ (a :: r)
      (fun x _ s q pr hgd => hgd.1.clean) _ pss hgood
    refine ⟨.mk R.TypeSystemExtensionDocument 0 e
      ([] ++ (pss ++ [Pair.mk R.EOI (g.length + tI.length) (g.length + tI.length) []])),
      by simp [Peg.parse, runTr, hp], ?_, ?_⟩
    · refine cleanP_of (by decide) (by decide) ?_
      simp only [List.nil_append, cleanL_append, cleanL_cons, cleanL_nil, and_true]
      exact ⟨hclean, cleanP_of (by decide) (by decide) trivial⟩
    · simp only [buildTypeSystemDocument]
      rw [if_pos (show (Pair.mk R.TypeSystemExtensionDocument 0 e ([] ++ (pss ++ [Pair.mk R.EOI (g.length + tI.length)
        (g.length + tI.length) []]))).rule = R.TypeSystemExtensionDocument from rfl)]
      rw [show (Pair.mk R.TypeSystemExtensionDocument 0 e ([] ++ (pss ++ [Pair.mk R.EOI (g.length + tI.length)
        (g.length + tI.length) []]))).children = [] ++ (pss ++ [Pair.mk R.EOI (g.length + tI.length)
        (g.length + tI.length) []]) from rfl]
      rw [filter_tsItems pss _ hrule rfl]
      have := goodItems_mapM (rTsItem τ) true false (TsGood τ inp)
        (buildTypeSystemDefinitionOrExtension (Ctx.spec inp) (4 * inp.length + 64)) (wpTsItem τ inp)
        (4 * inp.length + 64) (a :: r) (fun x _ s q pr hgd hl => hgd.2 _ hl) g.length pss (by rw [hT, hlenI]; omega) hgood
      rw [this]
      simp only [wpTsDoc, hG]

/-- `parse_type_system_document` on the rendering of a type-system document returns the document with the true
    positions -/
theorem parseTs_rTsDoc (τ : Trivia) (hτ : ∀ q, Ws (τ q)) (doc : List TsItem) (hne : doc ≠ []) (hwf : ∀ d ∈ doc, WFTsItem d) :
    parseTs (rTsDoc τ doc) = .ok (wpTsDoc τ (rTsDoc τ doc) doc) := by
  obtain ⟨pr, hp, hc, hb⟩ := tsDoc_parse τ hτ doc hne hwf
  simp only [parseTs, parseWith, hp, firstBadEscape_clean _ [pr] ⟨hc, trivial⟩, hb]


end NitroVerif.DocParseL
