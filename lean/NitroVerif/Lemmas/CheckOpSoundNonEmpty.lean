import NitroVerif.Lemmas.CheckOpSubscription
/-!
5.2.3.1, the "at least one root field" half.

`Doc.NonEmptySelections D` — every selection set of the document (operations, fragment definitions, fields,
inline fragments) has at least one selection. This is what the grammar guarantees of every parsed document
(`crates/parser/src/parser/grammar.pest`: `SelectionSet = { "{" ~ Selection+ ~ "}" }`); the abstract syntax `Doc`
does not.

Under that hypothesis the root selection set of an accepted operation collects at least one response key:
follow first selections. A first selection is a field (a key), an inline fragment (non-empty again, structurally
smaller) or a fragment spread; a spread visited by the QUIET main walk consumed one unit of the walk's fuel, found
its fragment defined, and went on into that fragment's (non-empty) selection set with one unit less. So after at
most `fuelFor D` spread steps a field is found — and `fuelFor D` is exactly the number of rounds (`reachFuel D`)
the reference validator's closure `reachableFlat` runs, so the fragment containing the field is in that closure.
(The measure is the fuel of the accepted walk; no separate pigeonhole is needed for this half.)
-/
namespace NitroVerif.Gql

mutual
/-- every selection set nested in the selection is non-empty -/
def Selection.nonEmptyB : Selection → Bool
  | .field _ _ _ _ _ (some ss) => !ss.isEmpty && Selection.nonEmptyListB ss
  | .field _ _ _ _ _ none => true
  | .spread .. => true
  | .inline _ _ ss _ => !ss.isEmpty && Selection.nonEmptyListB ss
/-- every selection set nested in one of the selections is non-empty -/
def Selection.nonEmptyListB : List Selection → Bool
  | [] => true
  | s :: ss => s.nonEmptyB && Selection.nonEmptyListB ss
end

/-- a selection set that is non-empty and so are all selection sets nested in it -/
def Selection.setNonEmptyB (ss : List Selection) : Bool := !ss.isEmpty && Selection.nonEmptyListB ss

def ExecDef.nonEmptyB : ExecDef → Bool
  | .op o => Selection.setNonEmptyB o.sel
  | .frag f => Selection.setNonEmptyB f.sel
  | .imp _ => true

def Doc.nonEmptySelectionsB (D : Doc) : Bool := D.all ExecDef.nonEmptyB

/-- **Well-formedness of parsed documents**: every selection set of the document — of every operation, every
    fragment definition, every field and every inline fragment, at any depth — has at least one selection
    (grammar: `SelectionSet = "{" Selection+ "}"`). -/
def Doc.NonEmptySelections (D : Doc) : Prop := Doc.nonEmptySelectionsB D = true

instance (D : Doc) : Decidable (Doc.NonEmptySelections D) := inferInstanceAs (Decidable (_ = true))

end NitroVerif.Gql

namespace NitroVerif.CheckOp
open NitroVerif.Gql NitroVerif.CheckCommon NitroVerif.Valid

theorem nonEmpty_op {D : Doc} (hD : Doc.NonEmptySelections D) {o : OperationDef} (ho : o ∈ opsOf D) :
    Selection.setNonEmptyB o.sel = true := by
  have := List.all_eq_true.mp hD _ (op_mem_doc ho)
  simpa [ExecDef.nonEmptyB] using this

theorem nonEmpty_frag {D : Doc} (hD : Doc.NonEmptySelections D) {f : FragmentDef} (hf : f ∈ fragsOf D) :
    Selection.setNonEmptyB f.sel = true := by
  have := List.all_eq_true.mp hD _ (frag_mem_doc hf)
  simpa [ExecDef.nonEmptyB] using this

/-- a non-empty selection set whose nested selection sets are non-empty has, at its top level (through inline
    fragments), a field or a fragment spread -/
theorem first_flat : ∀ (k : Nat) (ss : List Selection), Selection.sizeList ss ≤ k →
    Selection.setNonEmptyB ss = true → (∃ key, key ∈ keysFlat ss) ∨ (∃ n, n ∈ spreadsFlat ss) := by
  intro k
  induction k with
  | zero =>
    intro ss hsz hne
    cases ss with
    | nil => simp [Selection.setNonEmptyB] at hne
    | cons s ss => have := Selection.one_le_size s; simp [Selection.sizeList] at hsz; omega
  | succ k ih =>
    intro ss hsz hne
    cases ss with
    | nil => simp [Selection.setNonEmptyB] at hne
    | cons s ss =>
      have hs1 := Selection.one_le_size s
      simp only [Selection.sizeList] at hsz
      simp only [Selection.setNonEmptyB, Selection.nonEmptyListB, Bool.and_eq_true] at hne
      obtain ⟨_, hs, _⟩ := hne
      cases s with
      | field al name namePos args dirs sel =>
        left
        cases al with
        | none => exact ⟨name, by simp [keysFlat, keysFlatSel]⟩
        | some a => obtain ⟨a, ap⟩ := a; exact ⟨a, by simp [keysFlat, keysFlatSel]⟩
      | spread name namePos dirs pos =>
        right
        exact ⟨name, by simp [spreadsFlat, spreadsFlatSel]⟩
      | inline cond dirs ss' pos =>
        have hss : Selection.sizeList ss' ≤ k := by simp [Selection.size] at hsz; omega
        have hne' : Selection.setNonEmptyB ss' = true := by
          simpa [Selection.nonEmptyB, Selection.setNonEmptyB] using hs
        rcases ih ss' hss hne' with ⟨key, hk⟩ | ⟨n, hn⟩
        · left; exact ⟨key, by simp only [keysFlat, keysFlatSel, List.mem_append]; exact Or.inl hk⟩
        · right; exact ⟨n, by simp only [spreadsFlat, spreadsFlatSel, List.mem_append]; exact Or.inl hn⟩

/-- one step of the reference validator's top-level spread graph, read through the checker's fragment map -/
def flatNext (D : Doc) (n : Name) : List Name :=
  match fragMap D n with | some f => spreadsFlat f.sel | none => []

/-- `Chain next x j y`: `y` is reached from `x` in exactly `j` steps of `next` -/
inductive Chain (next : Name → List Name) : Name → Nat → Name → Prop
  | refl {x : Name} : Chain next x 0 x
  | step {x z y : Name} {j : Nat} : z ∈ next x → Chain next z j y → Chain next x (j + 1) y

theorem closure_subset (next : Name → List Name) : ∀ (k : Nat) (acc : List Name) (x : Name), x ∈ acc →
    x ∈ Valid.closure next k acc := by
  intro k
  induction k with
  | zero => intro acc x hx; exact hx
  | succ k ih =>
    intro acc x hx
    simp only [Valid.closure]
    exact ih _ x (mem_foldl_dedup_of _ [] (Or.inr (List.mem_append_left _ hx)))

/-- `k` rounds of the closure contain everything reached in at most `k` steps -/
theorem closure_chain (next : Name → List Name) {x y : Name} {j : Nat} (hc : Chain next x j y) :
    ∀ (k : Nat) (acc : List Name), j ≤ k → x ∈ acc → y ∈ Valid.closure next k acc := by
  induction hc with
  | refl => intro k acc _ hx; exact closure_subset next k acc _ hx
  | @step x z y j hz _ ih =>
    intro k acc hjk hx
    cases k with
    | zero => omega
    | succ k =>
      simp only [Valid.closure]
      apply ih k _ (by omega)
      exact mem_foldl_dedup_of _ [] (Or.inr (List.mem_append_right _ (List.mem_flatMap.mpr ⟨x, hx, hz⟩)))

/-- **First-key lemma.** A quietly walked, non-empty selection set (fuel `k`) has a top-level key, or a top-level
    spread from which a fragment holding a top-level key is reached in fewer than `k` spread steps. -/
theorem first_key {S : Schema} {D : Doc} {A : ErrKind → Bool} (hA : Admissible A) (hC : CondsDefined S D)
    (hD : Doc.NonEmptySelections D) {vars : Option (List VarDef)} :
    ∀ (k : Nat) (seen : List Name) (root : TypeDef) (fields : List FieldDef) (ss : List Selection),
      directFields root = some fields → Selection.setNonEmptyB ss = true →
      Quiet A (checkSelections S (spreadHandler S D k) seen vars root fields ss) →
      (∃ key, key ∈ keysFlat ss) ∨
      (∃ n ∈ spreadsFlat ss, ∃ j y g key, Chain (flatNext D) n j y ∧ j + 1 ≤ k ∧ fragMap D y = some g ∧
        key ∈ keysFlat g.sel) := by
  intro k
  induction k with
  | zero =>
    intro seen root fields ss hf hne hq
    rcases first_flat _ ss (Nat.le_refl _) hne with hk | ⟨n, hn⟩
    · exact Or.inl hk
    · obtain ⟨root', fields', np, pos, hf', hq'⟩ := flat_spread_visited hA n _ ss (Nat.le_refl _) hn root fields hf hq
      obtain ⟨k', _, hk', _⟩ := handler_quiet hA hf' hq'
      omega
  | succ k ih =>
    intro seen root fields ss hf hne hq
    rcases first_flat _ ss (Nat.le_refl _) hne with hk | ⟨n, hn⟩
    · exact Or.inl hk
    · right
      obtain ⟨root', fields', np, pos, hf', hq'⟩ := flat_spread_visited hA n _ ss (Nat.le_refl _) hn root fields hf hq
      obtain ⟨k', f, hk', _, hm, _, hrest⟩ := handler_quiet hA hf' hq'
      have hkk : k' = k := by omega
      subst hkk
      have hfmem := (fragMap_mem hm).1
      obtain ⟨ct, hct⟩ := hC f hfmem
      have hw := (hrest ct hct).2
      unfold checkSelectionSet at hw
      cases hdf : directFields ct with
      | none =>
        simp only [hdf] at hw
        have hkk := hA _ (by decide : ErrKind.SelectionOnInvalidType ≠ ErrKind.UnknownVariable)
        rw [quiet_single, hkk] at hw; cases hw
      | some cfields =>
        simp only [hdf] at hw
        rcases ih (seen ++ [n]) ct cfields f.sel hdf (nonEmpty_frag hD hfmem) hw with ⟨key, hkey⟩ | ⟨m, hm', j, y, g, key, hch, hj, hg, hkey⟩
        · exact ⟨n, hn, 0, n, f, key, Chain.refl, by omega, hm, hkey⟩
        · refine ⟨n, hn, j + 1, y, g, key, Chain.step ?_ hch, by omega, hg, hkey⟩
          simp only [flatNext, hm]; exact hm'

/-- the reference validator's top-level closure runs on `flatNext` when fragment names are unique -/
theorem reachableFlat_eq {D : Doc} (hnd : nodupB (fragNamesOf D) = true) (ss : List Selection) :
    Valid.reachableFlat D ss = Valid.closure (flatNext D) (Valid.reachFuel D) (Valid.dedup (spreadsFlat ss)) := by
  unfold Valid.reachableFlat
  congr 1
  funext n
  simp only [flatNext, frag?_eq_fragMap hnd]
  cases fragMap D n <;> rfl

/-- **5.2.3.1, at least one.** The root selection set of an accepted operation of a document with non-empty
    selection sets collects at least one response key (spec `CollectFields`). -/
theorem rootKeys_nonempty {S : Schema} {D : Doc} (h : checkOp S D = []) (hD : Doc.NonEmptySelections D)
    {o : OperationDef} (ho : o ∈ opsOf D) : 1 ≤ (Valid.rootKeys D o.sel).length := by
  have hnd := accepted_nodup h
  obtain ⟨_, hb⟩ := checkDefs_mem D [] h _ (op_mem_doc ho)
  obtain ⟨root, hroot, _, _, _, hwalk⟩ := checkOperation_nil (by simpa [defBody] using hb)
  unfold checkSelectionSet at hwalk
  have hmem : ∃ key, key ∈ Valid.rootKeys D o.sel := by
    cases hdf : directFields root with
    | none => simp [hdf] at hwalk
    | some fields =>
      simp only [hdf] at hwalk
      unfold Valid.rootKeys
      rcases first_key admissible_none (accepted_condsDefined h) hD (fuelFor D) [] root fields o.sel hdf
          (nonEmpty_op hD ho) (quiet_none_iff.mpr hwalk) with ⟨key, hkey⟩ | ⟨n, hn, j, y, g, key, hch, hj, hg, hkey⟩
      · exact ⟨key, mem_foldl_dedup_of _ [] (Or.inr (List.mem_append_left _ hkey))⟩
      · refine ⟨key, mem_foldl_dedup_of _ [] (Or.inr (List.mem_append_right _ ?_))⟩
        have hy : y ∈ Valid.reachableFlat D o.sel := by
          rw [reachableFlat_eq hnd]
          apply closure_chain (flatNext D) hch
          · have : Valid.reachFuel D = fuelFor D := rfl
            omega
          · exact mem_foldl_dedup_of _ [] (Or.inr hn)
        refine List.mem_flatMap.mpr ⟨y, hy, ?_⟩
        rw [frag?_eq_fragMap hnd, hg]; exact hkey
  obtain ⟨key, hkey⟩ := hmem
  cases hl : Valid.rootKeys D o.sel with
  | nil => rw [hl] at hkey; cases hkey
  | cons a l => simp

end NitroVerif.CheckOp
