import NitroVerif.Model.PathToTs
namespace NitroVerif.PathToTs

theorem stripSuffix_append (stem suf : List Char) : stripSuffix (stem ++ suf) suf = some stem := by
  unfold stripSuffix
  have h : suf.isSuffixOf (stem ++ suf) = true := by
    rw [List.isSuffixOf_iff_suffix]; exact List.suffix_append stem suf
  simp [h]

theorem stripSuffix_some {s suf stem : List Char} (h : stripSuffix s suf = some stem) : s = stem ++ suf := by
  unfold stripSuffix at h
  split at h
  · next hs =>
    injection h with h; subst h
    rw [List.isSuffixOf_iff_suffix] at hs
    obtain ⟨t, rfl⟩ := hs
    simp
  · cases h

end NitroVerif.PathToTs

namespace NitroVerif.PathToTs

theorem pathToTsWith_spec (tbl : List (List Char × List Char)) (name : List Char)
    (h : ∃ p ∈ tbl, ∃ stem, name = stem ++ p.1) :
    ∃ p ∈ tbl, ∃ stem, name = stem ++ p.1 ∧ pathToTsWith tbl name = stem ++ p.2 := by
  induction tbl with
  | nil => obtain ⟨p, hp, _⟩ := h; cases hp
  | cons q rest ih =>
    obtain ⟨ts, js⟩ := q
    unfold pathToTsWith
    cases hs : stripSuffix name ts with
    | some stem =>
      exact ⟨(ts, js), by simp, stem, stripSuffix_some hs, rfl⟩
    | none =>
      have hrest : ∃ p ∈ rest, ∃ stem, name = stem ++ p.1 := by
        obtain ⟨p, hp, stem, hn⟩ := h
        simp only [List.mem_cons] at hp
        rcases hp with rfl | hp
        · rw [hn, stripSuffix_append] at hs; cases hs
        · exact ⟨p, hp, stem, hn⟩
      obtain ⟨p, hp, stem, hn, hr⟩ := ih hrest
      exact ⟨p, by simp [hp], stem, hn, hr⟩

end NitroVerif.PathToTs
