/-
Exact content of the declaration tables `Decls.ofFile` / `Decls.ofFiles` (all four components), and the notion of a
file HOSTED at a path prefix of a table (`Hosted D P F`: the file's own table when `P = []`, the image of a module
linked through `import type * as A` when `P = [A]`): inside the hosted region, lookups are determined by the file.
-/
import NitroVerif.Lemmas.DeclsResolve
namespace NitroVerif.Ts

mutual
/-- `export type { a as b }` entries a statement contributes when it stands in `scope` -/
def Stmt.exports (scope : Scope) : Stmt → List (Scope × String × String)
  | .exportList _ items => items.map fun (l, e) => (scope, l, e)
  | .namespace _ n body => Stmt.exportsList (scope ++ [n]) body
  | _ => []
def Stmt.exportsList (scope : Scope) : List Stmt → List (Scope × String × String)
  | [] => []
  | s :: r => s.exports scope ++ Stmt.exportsList scope r
end

mutual
/-- namespace paths a statement contributes when it stands in `scope` -/
def Stmt.nss (scope : Scope) : Stmt → List Scope
  | .namespace _ n body => (scope ++ [n]) :: Stmt.nssList (scope ++ [n]) body
  | _ => []
def Stmt.nssList (scope : Scope) : List Stmt → List Scope
  | [] => []
  | s :: r => s.nss scope ++ Stmt.nssList scope r
end

theorem declsList_append' (sc : Scope) (a b : List Stmt) :
    Stmt.declsList sc (a ++ b) = Stmt.declsList sc a ++ Stmt.declsList sc b := by
  induction a with
  | nil => simp [Stmt.declsList]
  | cons s r ih => simp [Stmt.declsList, ih]

theorem exportsList_append (sc : Scope) (a b : List Stmt) :
    Stmt.exportsList sc (a ++ b) = Stmt.exportsList sc a ++ Stmt.exportsList sc b := by
  induction a with
  | nil => simp [Stmt.exportsList]
  | cons s r ih => simp [Stmt.exportsList, ih]

theorem nssList_append (sc : Scope) (a b : List Stmt) :
    Stmt.nssList sc (a ++ b) = Stmt.nssList sc a ++ Stmt.nssList sc b := by
  induction a with
  | nil => simp [Stmt.nssList]
  | cons s r ih => simp [Stmt.nssList, ih]

/-- with enough fuel, `collect` appends exactly the file's declarations, export entries and namespace paths -/
theorem collect_eq : ∀ (fuel : Nat) (scope : Scope) (stmts : List Stmt) (acc : Decls),
    Stmt.sizeList stmts ≤ fuel →
    Decls.collect fuel scope stmts acc =
      { types := acc.types ++ Stmt.declsList scope stmts,
        exports := acc.exports ++ Stmt.exportsList scope stmts,
        namespaces := acc.namespaces ++ Stmt.nssList scope stmts,
        roots := acc.roots } := by
  intro fuel
  induction fuel with
  | zero =>
    intro scope stmts acc h
    cases stmts with
    | nil => simp [Decls.collect, Stmt.declsList, Stmt.exportsList, Stmt.nssList]
    | cons s r => have := Stmt.size_pos s; simp [Stmt.sizeList] at h; omega
  | succ fuel ih =>
    intro scope stmts acc h
    cases stmts with
    | nil => simp [Decls.collect, Stmt.declsList, Stmt.exportsList, Stmt.nssList]
    | cons s rest =>
      have hs := Stmt.size_pos s
      simp only [Stmt.sizeList] at h
      have hrest : Stmt.sizeList rest ≤ fuel := by omega
      simp only [Decls.collect]
      rw [ih _ _ _ hrest]
      cases s with
      | type ex n ps t => simp [Stmt.declsList, Stmt.decls, Stmt.exportsList, Stmt.exports, Stmt.nssList, Stmt.nss]
      | rawType ex n text =>
        simp [Stmt.declsList, Stmt.decls, Stmt.exportsList, Stmt.exports, Stmt.nssList, Stmt.nss]
      | «namespace» ex n body =>
        have hb : Stmt.sizeList body ≤ fuel := by simp [Stmt.size] at h; omega
        simp only []
        rw [ih _ _ _ hb]
        simp [Stmt.declsList, Stmt.decls, Stmt.exportsList, Stmt.exports, Stmt.nssList, Stmt.nss]
      | «import» _ _ _ => simp [Stmt.declsList, Stmt.decls, Stmt.exportsList, Stmt.exports, Stmt.nssList, Stmt.nss]
      | exportList _ _ => simp [Stmt.declsList, Stmt.decls, Stmt.exportsList, Stmt.exports, Stmt.nssList, Stmt.nss]
      | const _ _ _ _ _ => simp [Stmt.declsList, Stmt.decls, Stmt.exportsList, Stmt.exports, Stmt.nssList, Stmt.nss]
      | exportDefault _ => simp [Stmt.declsList, Stmt.decls, Stmt.exportsList, Stmt.exports, Stmt.nssList, Stmt.nss]
      | doc _ => simp [Stmt.declsList, Stmt.decls, Stmt.exportsList, Stmt.exports, Stmt.nssList, Stmt.nss]

/-- the table of one file, component by component -/
theorem ofFile_eq (f : File) :
    Decls.ofFile f =
      { types := Stmt.declsList [] f, exports := Stmt.exportsList [] f, namespaces := Stmt.nssList [] f, roots := [] } := by
  unfold Decls.ofFile
  rw [collect_eq _ _ _ _ (Nat.le_succ _)]
  simp

/-! ### scopes of collected entries -/

theorem declsList_scope_prefix : ∀ (n : Nat) (stmts : List Stmt) (sc : Scope), Stmt.sizeList stmts ≤ n →
    ∀ d ∈ Stmt.declsList sc stmts, sc <+: d.scope := by
  intro n
  induction n with
  | zero =>
    intro stmts sc h d hd
    cases stmts with
    | nil => simp [Stmt.declsList] at hd
    | cons s r => have := Stmt.size_pos s; simp [Stmt.sizeList] at h; omega
  | succ n ih =>
    intro stmts sc h d hd
    cases stmts with
    | nil => simp [Stmt.declsList] at hd
    | cons s rest =>
      have hs := Stmt.size_pos s
      simp only [Stmt.sizeList] at h
      simp only [Stmt.declsList, List.mem_append] at hd
      rcases hd with hd | hd
      · cases s with
        | type ex nm ps t => simp [Stmt.decls] at hd; subst hd; exact List.prefix_refl _
        | rawType ex nm text => simp [Stmt.decls] at hd; subst hd; exact List.prefix_refl _
        | «namespace» ex nm body =>
          simp only [Stmt.decls] at hd
          have hb : Stmt.sizeList body ≤ n := by simp [Stmt.size] at h; omega
          exact List.IsPrefix.trans (List.prefix_append _ _) (ih body _ hb d hd)
        | «import» _ _ _ => simp [Stmt.decls] at hd
        | exportList _ _ => simp [Stmt.decls] at hd
        | const _ _ _ _ _ => simp [Stmt.decls] at hd
        | exportDefault _ => simp [Stmt.decls] at hd
        | doc _ => simp [Stmt.decls] at hd
      · exact ih rest sc (by omega) d hd

theorem declsList_scope (stmts : List Stmt) (sc : Scope) : ∀ d ∈ Stmt.declsList sc stmts, sc <+: d.scope :=
  declsList_scope_prefix _ stmts sc (Nat.le_refl _)

/-- every declaration of a file, wherever it is placed, is named by one of the file's `type` statements -/
theorem declsList_names : ∀ (n : Nat) (stmts : List Stmt) (sc : Scope), Stmt.sizeList stmts ≤ n →
    ∀ d ∈ Stmt.declsList sc stmts, d.name ∈ Stmt.typeNamesList stmts := by
  intro n
  induction n with
  | zero =>
    intro stmts sc h d hd
    cases stmts with
    | nil => simp [Stmt.declsList] at hd
    | cons s r => have := Stmt.size_pos s; simp [Stmt.sizeList] at h; omega
  | succ n ih =>
    intro stmts sc h d hd
    cases stmts with
    | nil => simp [Stmt.declsList] at hd
    | cons s rest =>
      have hs := Stmt.size_pos s
      simp only [Stmt.sizeList] at h
      simp only [Stmt.declsList, List.mem_append] at hd
      simp only [Stmt.typeNamesList, List.mem_append]
      rcases hd with hd | hd
      · left
        cases s with
        | type ex nm ps t => simp [Stmt.decls] at hd; subst hd; simp [Stmt.typeNames]
        | rawType ex nm text => simp [Stmt.decls] at hd; subst hd; simp [Stmt.typeNames]
        | «namespace» ex nm body =>
          simp only [Stmt.decls] at hd
          have hb : Stmt.sizeList body ≤ n := by simp [Stmt.size] at h; omega
          simpa [Stmt.typeNames] using ih body _ hb d hd
        | «import» _ _ _ => simp [Stmt.decls] at hd
        | exportList _ _ => simp [Stmt.decls] at hd
        | const _ _ _ _ _ => simp [Stmt.decls] at hd
        | exportDefault _ => simp [Stmt.decls] at hd
        | doc _ => simp [Stmt.decls] at hd
      · exact Or.inr (ih rest sc (by omega) d hd)

/-! ### hosted files -/

/-- the test `findLocal` performs -/
def isDeclAt (sc : Scope) (n : String) (d : Decl) : Bool := d.scope == sc && d.name == n

/-- the test `findExported` performs on the export entries -/
def isExportAt (sc : Scope) (n : String) (x : Scope × String × String) : Bool := x.1 == sc && x.2.2 == n

/-- File `F` is hosted at path `P` of table `D`: inside the region below `P`, every lookup `D` performs is
    determined by `F` alone; lexical lookup does not leave the region. -/
structure Hosted (D : Decls) (P : Scope) (F : File) : Prop where
  findLocal : ∀ sc n, D.findLocal (P ++ sc) n = (Stmt.declsList P F).find? (isDeclAt (P ++ sc) n)
  exported : ∀ sc n, D.types.find? (fun x => x.scope == P ++ sc && x.name == n && x.exported)
    = (Stmt.declsList P F).find? (fun x => x.scope == P ++ sc && x.name == n && x.exported)
  exports : ∀ sc n, D.exports.find? (isExportAt (P ++ sc) n) = (Stmt.exportsList P F).find? (isExportAt (P ++ sc) n)
  nss : ∀ sc, sc ≠ [] → D.namespaces.contains (P ++ sc) = (Stmt.nssList P F).contains (P ++ sc)
  stop : P = [] ∨ D.roots.contains P = true
  inner : ∀ sc, sc ≠ [] → D.roots.contains (P ++ sc) = false

theorem findLocal_eq (D : Decls) (sc : Scope) (n : String) : D.findLocal sc n = D.types.find? (isDeclAt sc n) := rfl

theorem isExportAt_fun (sc : Scope) (n : String) :
    (fun (x : Scope × String × String) => match x with | (s, _, e) => s == sc && e == n) = isExportAt sc n := by
  funext x; obtain ⟨s, l, e⟩ := x; rfl

theorem findExported_of_type {D : Decls} {sc : Scope} {n : String} {x : Decl}
    (h : D.types.find? (fun x => x.scope == sc && x.name == n && x.exported) = some x) :
    D.findExported sc n = some x := by
  unfold Decls.findExported
  rw [h]

theorem findExported_of_export {D : Decls} {sc : Scope} {n : String} {s : Scope} {l e : String}
    (h1 : D.types.find? (fun x => x.scope == sc && x.name == n && x.exported) = none)
    (h2 : D.exports.find? (isExportAt sc n) = some (s, l, e)) :
    D.findExported sc n = D.resolveRef sc l := by
  unfold Decls.findExported
  rw [h1, isExportAt_fun, h2]

/-- a file is hosted at the root of its own table -/
theorem hosted_ofFile (F : File) : Hosted (Decls.ofFile F) [] F := by
  rw [ofFile_eq]
  refine ⟨fun sc n => rfl, fun sc n => rfl, fun sc n => rfl, fun sc _ => rfl, Or.inl rfl, fun sc _ => rfl⟩

end NitroVerif.Ts
