/-
Exact content of the declaration tables `Decls.ofFile` / `Decls.ofFiles` (all four components), and the notion of a
file HOSTED at a path prefix of a table (`Hosted D P F`: the file's own table when `P = []`, the image of a module
linked through `import type * as A` when `P = [A]`): inside the hosted region, lookups are determined by the file.
-/
import NitroVerif.Lemmas.DeclsResolve
namespace NitroVerif.Ts

mutual
/-- `export type { a as b }` entries a statement contributes when it stands in `scope` -/
def Stmt.exports (scope : Scope) : Stmt → List (Scope × String × String)
  | .exportList _ items => items.map fun (l, e) => (scope, l, e)
  | .namespace _ n body => Stmt.exportsList (scope ++ [n]) body
  | _ => []
def Stmt.exportsList (scope : Scope) : List Stmt → List (Scope × String × String)
  | [] => []
  | s :: r => s.exports scope ++ Stmt.exportsList scope r
end

mutual
/-- namespace paths a statement contributes when it stands in `scope` -/
def Stmt.nss (scope : Scope) : Stmt → List Scope
  | .namespace _ n body => (scope ++ [n]) :: Stmt.nssList (scope ++ [n]) body
  | _ => []
def Stmt.nssList (scope : Scope) : List Stmt → List Scope
  | [] => []
  | s :: r => s.nss scope ++ Stmt.nssList scope r
end

theorem declsList_append' (sc : Scope) (a b : List Stmt) :
    Stmt.declsList sc (a ++ b) = Stmt.declsList sc a ++ Stmt.declsList sc b := by
  induction a with
  | nil => simp [Stmt.declsList]
  | cons s r ih => simp [Stmt.declsList, ih]

theorem exportsList_append (sc : Scope) (a b : List Stmt) :
    Stmt.exportsList sc (a ++ b) = Stmt.exportsList sc a ++ Stmt.exportsList sc b := by
  induction a with
  | nil => simp [Stmt.exportsList]
  | cons s r ih => simp [Stmt.exportsList, ih]

theorem nssList_append (sc : Scope) (a b : List Stmt) :
    Stmt.nssList sc (a ++ b) = Stmt.nssList sc a ++ Stmt.nssList sc b := by
  induction a with
  | nil => simp [Stmt.nssList]
  | cons s r ih => simp [Stmt.nssList, ih]

/-- with enough fuel, `collect` appends exactly the file's declarations, export entries and namespace paths -/
theorem collect_eq : ∀ (fuel : Nat) (scope : Scope) (stmts : List Stmt) (acc : Decls),
    Stmt.sizeList stmts ≤ fuel →
    Decls.collect fuel scope stmts acc =
      { types := acc.types ++ Stmt.declsList scope stmts,
        exports := acc.exports ++ Stmt.exportsList scope stmts,
        namespaces := acc.namespaces ++ Stmt.nssList scope stmts,
        roots := acc.roots } := by
  intro fuel
  induction fuel with
  | zero =>
    intro scope stmts acc h
    cases stmts with
    | nil => simp [Decls.collect, Stmt.declsList, Stmt.exportsList, Stmt.nssList]
    | cons s r => have := Stmt.size_pos s; simp [Stmt.sizeList] at h; omega
  | succ fuel ih =>
    intro scope stmts acc h
    cases stmts with
    | nil => simp [Decls.collect, Stmt.declsList, Stmt.exportsList, Stmt.nssList]
    | cons s rest =>
      have hs := Stmt.size_pos s
      simp only [Stmt.sizeList] at h
      have hrest : Stmt.sizeList rest ≤ fuel := by omega
      simp only [Decls.collect]
      rw [ih _ _ _ hrest]
      cases s with
      | type ex n ps t => simp [Stmt.declsList, Stmt.decls, Stmt.exportsList, Stmt.exports, Stmt.nssList, Stmt.nss]
      | rawType ex n text =>
        simp [Stmt.declsList, Stmt.decls, Stmt.exportsList, Stmt.exports, Stmt.nssList, Stmt.nss]
      | «namespace» ex n body =>
        have hb : Stmt.sizeList body ≤ fuel := by simp [Stmt.size] at h; omega
        simp only []
        rw [ih _ _ _ hb]
        simp [Stmt.declsList, Stmt.decls, Stmt.exportsList, Stmt.exports, Stmt.nssList, Stmt.nss]
      | «import» _ _ _ => simp [Stmt.declsList, Stmt.decls, Stmt.exportsList, Stmt.exports, Stmt.nssList, Stmt.nss]
      | exportList _ _ => simp [Stmt.declsList, Stmt.decls, Stmt.exportsList, Stmt.exports, Stmt.nssList, Stmt.nss]
      | const _ _ _ _ _ => simp [Stmt.declsList, Stmt.decls, Stmt.exportsList, Stmt.exports, Stmt.nssList, Stmt.nss]
      | exportDefault _ => simp [Stmt.declsList, Stmt.decls, Stmt.exportsList, Stmt.exports, Stmt.nssList, Stmt.nss]
      | doc _ => simp [Stmt.declsList, Stmt.decls, Stmt.exportsList, Stmt.exports, Stmt.nssList, Stmt.nss]

/-- the table of one file, component by component -/
theorem ofFile_eq (f : File) :
    Decls.ofFile f =
      { types := Stmt.declsList [] f, exports := Stmt.exportsList [] f, namespaces := Stmt.nssList [] f, roots := [] } := by
  unfold Decls.ofFile
  rw [collect_eq _ _ _ _ (Nat.le_succ _)]
  simp

/-! ### scopes of collected entries -/

theorem declsList_scope_prefix : ∀ (n : Nat) (stmts : List Stmt) (sc : Scope), Stmt.sizeList stmts ≤ n →
    ∀ d ∈ Stmt.declsList sc stmts, sc <+: d.scope := by
  intro n
  induction n with
  | zero =>
    intro stmts sc h d hd
    cases stmts with
    | nil => simp [Stmt.declsList] at hd
    | cons s r => have := Stmt.size_pos s; simp [Stmt.sizeList] at h; omega
  | succ n ih =>
    intro stmts sc h d hd
    cases stmts with
    | nil => simp [Stmt.declsList] at hd
    | cons s rest =>
      have hs := Stmt.size_pos s
      simp only [Stmt.sizeList] at h
      simp only [Stmt.declsList, List.mem_append] at hd
      rcases hd with hd | hd
      · cases s with
        | type ex nm ps t => simp [Stmt.decls] at hd; subst hd; exact List.prefix_refl _
        | rawType ex nm text => simp [Stmt.decls] at hd; subst hd; exact List.prefix_refl _
        | «namespace» ex nm body =>
          simp only [Stmt.decls] at hd
          have hb : Stmt.sizeList body ≤ n := by simp [Stmt.size] at h; omega
          exact List.IsPrefix.trans (List.prefix_append _ _) (ih body _ hb d hd)
        | «import» _ _ _ => simp [Stmt.decls] at hd
        | exportList _ _ => simp [Stmt.decls] at hd
        | const _ _ _ _ _ => simp [Stmt.decls] at hd
        | exportDefault _ => simp [Stmt.decls] at hd
        | doc _ => simp [Stmt.decls] at hd
      · exact ih rest sc (by omega) d hd

theorem declsList_scope (stmts : List Stmt) (sc : Scope) : ∀ d ∈ Stmt.declsList sc stmts, sc <+: d.scope :=
  declsList_scope_prefix _ stmts sc (Nat.le_refl _)

/-- every declaration of a file, wherever it is placed, is named by one of the file's `type` statements -/
theorem declsList_names : ∀ (n : Nat) (stmts : List Stmt) (sc : Scope), Stmt.sizeList stmts ≤ n →
    ∀ d ∈ Stmt.declsList sc stmts, d.name ∈ Stmt.typeNamesList stmts := by
  intro n
  induction n with
  | zero =>
    intro stmts sc h d hd
    cases stmts with
    | nil => simp [Stmt.declsList] at hd
    | cons s r => have := Stmt.size_pos s; simp [Stmt.sizeList] at h; omega
  | succ n ih =>
    intro stmts sc h d hd
    cases stmts with
    | nil => simp [Stmt.declsList] at hd
    | cons s rest =>
      have hs := Stmt.size_pos s
      simp only [Stmt.sizeList] at h
      simp only [Stmt.declsList, List.mem_append] at hd
      simp only [Stmt.typeNamesList, List.mem_append]
      rcases hd with hd | hd
      · left
        cases s with
        | type ex nm ps t => simp [Stmt.decls] at hd; subst hd; simp [Stmt.typeNames]
        | rawType ex nm text => simp [Stmt.decls] at hd; subst hd; simp [Stmt.typeNames]
        | «namespace» ex nm body =>
          simp only [Stmt.decls] at hd
          have hb : Stmt.sizeList body ≤ n := by simp [Stmt.size] at h; omega
          simpa [Stmt.typeNames] using ih body _ hb d hd
        | «import» _ _ _ => simp [Stmt.decls] at hd
        | exportList _ _ => simp [Stmt.decls] at hd
        | const _ _ _ _ _ => simp [Stmt.decls] at hd
        | exportDefault _ => simp [Stmt.decls] at hd
        | doc _ => simp [Stmt.decls] at hd
      · exact Or.inr (ih rest sc (by omega) d hd)

/-! ### hosted files -/

/-- the test `findLocal` performs -/
def isDeclAt (sc : Scope) (n : String) (d : Decl) : Bool := d.scope == sc && d.name == n

/-- the test `findExported` performs on the export entries -/
def isExportAt (sc : Scope) (n : String) (x : Scope × String × String) : Bool := x.1 == sc && x.2.2 == n

/-- File `F` is hosted at path `P` of table `D`: inside the region below `P`, every lookup `D` performs is
    determined by `F` alone; lexical lookup does not leave the region. -/
structure Hosted (D : Decls) (P : Scope) (F : File) : Prop where
  findLocal : ∀ sc n, D.findLocal (P ++ sc) n = (Stmt.declsList P F).find? (isDeclAt (P ++ sc) n)
  exported : ∀ sc n, D.types.find? (fun x => x.scope == P ++ sc && x.name == n && x.exported)
    = (Stmt.declsList P F).find? (fun x => x.scope == P ++ sc && x.name == n && x.exported)
  exports : ∀ sc n, D.exports.find? (isExportAt (P ++ sc) n) = (Stmt.exportsList P F).find? (isExportAt (P ++ sc) n)
  nss : ∀ sc, sc ≠ [] → D.namespaces.contains (P ++ sc) = (Stmt.nssList P F).contains (P ++ sc)
  stop : P = [] ∨ D.roots.contains P = true
  inner : ∀ sc, sc ≠ [] → D.roots.contains (P ++ sc) = false

theorem findLocal_eq (D : Decls) (sc : Scope) (n : String) : D.findLocal sc n = D.types.find? (isDeclAt sc n) := rfl

theorem isExportAt_fun (sc : Scope) (n : String) :
    (fun (x : Scope × String × String) => match x with | (s, _, e) => s == sc && e == n) = isExportAt sc n := by
  funext x; obtain ⟨s, l, e⟩ := x; rfl

theorem findExported_of_type {D : Decls} {sc : Scope} {n : String} {x : Decl}
    (h : D.types.find? (fun x => x.scope == sc && x.name == n && x.exported) = some x) :
    D.findExported sc n = some x := by
  unfold Decls.findExported
  rw [h]

theorem findExported_of_export {D : Decls} {sc : Scope} {n : String} {s : Scope} {l e : String}
    (h1 : D.types.find? (fun x => x.scope == sc && x.name == n && x.exported) = none)
    (h2 : D.exports.find? (isExportAt sc n) = some (s, l, e)) :
    D.findExported sc n = D.resolveRef sc l := by
  unfold Decls.findExported
  rw [h1, isExportAt_fun, h2]

/-- a file is hosted at the root of its own table -/
theorem hosted_ofFile (F : File) : Hosted (Decls.ofFile F) [] F := by
  rw [ofFile_eq]
  refine ⟨fun sc n => rfl, fun sc n => rfl, fun sc n => rfl, fun sc _ => rfl, Or.inl rfl, fun sc _ => rfl⟩

/-! ### a flat file linked with one module through `import type * as A from "m"` -/

/-- the star imports of a file, in order: (module, local name) -/
def starImports (f : File) : List (String × String) :=
  f.filterMap fun | .import m _ (.star a) => some (m, a) | _ => none

def Stmt.isNamespace : Stmt → Bool
  | .namespace _ _ _ => true
  | _ => false

/-- the step of `Decls.ofFiles` -/
def linkStep (mods : List (String × File)) (acc : Decls) (s : Stmt) : Decls :=
  match s with
  | .import m _ (.star a) =>
    match mods.find? (·.1 == m) with
    | some (_, f) =>
      Decls.collect (Stmt.sizeList f + 1) [a] f
        { acc with namespaces := acc.namespaces ++ [[a]], roots := acc.roots ++ [[a]] }
    | none => acc
  | _ => acc

theorem ofFiles_eq_foldl (main : File) (mods : List (String × File)) :
    Decls.ofFiles main mods = main.foldl (linkStep mods) (Decls.ofFile main) := rfl

theorem foldl_linkStep_none (mods : List (String × File)) : ∀ (l : List Stmt) (acc : Decls), starImports l = [] →
    l.foldl (linkStep mods) acc = acc := by
  intro l
  induction l with
  | nil => intro acc _; rfl
  | cons s r ih =>
    intro acc h
    simp only [List.foldl_cons]
    cases s with
    | «import» m ty w =>
      cases w with
      | star a => simp [starImports] at h
      | named _ => exact ih _ (by simpa [starImports] using h)
      | default _ => exact ih _ (by simpa [starImports] using h)
    | type _ _ _ _ => exact ih _ (by simpa [starImports] using h)
    | rawType _ _ _ => exact ih _ (by simpa [starImports] using h)
    | «namespace» _ _ _ => exact ih _ (by simpa [starImports] using h)
    | exportList _ _ => exact ih _ (by simpa [starImports] using h)
    | const _ _ _ _ _ => exact ih _ (by simpa [starImports] using h)
    | exportDefault _ => exact ih _ (by simpa [starImports] using h)
    | doc _ => exact ih _ (by simpa [starImports] using h)

theorem foldl_linkStep_one (m A : String) (F : File) : ∀ (l : List Stmt) (acc : Decls), starImports l = [(m, A)] →
    l.foldl (linkStep [(m, F)]) acc =
      Decls.collect (Stmt.sizeList F + 1) [A] F
        { acc with namespaces := acc.namespaces ++ [[A]], roots := acc.roots ++ [[A]] } := by
  intro l
  induction l with
  | nil => intro acc h; simp [starImports] at h
  | cons s r ih =>
    intro acc h
    simp only [List.foldl_cons]
    cases s with
    | «import» m' ty w =>
      cases w with
      | star a =>
        simp only [starImports, List.filterMap_cons, List.cons.injEq, Prod.mk.injEq] at h
        obtain ⟨⟨rfl, rfl⟩, hr⟩ := h
        rw [foldl_linkStep_none _ r _ hr]
        simp [linkStep]
      | named _ => exact ih _ (by simpa [starImports] using h)
      | default _ => exact ih _ (by simpa [starImports] using h)
    | type _ _ _ _ => exact ih _ (by simpa [starImports] using h)
    | rawType _ _ _ => exact ih _ (by simpa [starImports] using h)
    | «namespace» _ _ _ => exact ih _ (by simpa [starImports] using h)
    | exportList _ _ => exact ih _ (by simpa [starImports] using h)
    | const _ _ _ _ _ => exact ih _ (by simpa [starImports] using h)
    | exportDefault _ => exact ih _ (by simpa [starImports] using h)
    | doc _ => exact ih _ (by simpa [starImports] using h)

/-- the table of a file with exactly one star import, linked with the file of that module -/
theorem ofFiles_single (op : File) (m A : String) (F : File) (himp : starImports op = [(m, A)]) :
    Decls.ofFiles op [(m, F)] =
      { types := Stmt.declsList [] op ++ Stmt.declsList [A] F,
        exports := Stmt.exportsList [] op ++ Stmt.exportsList [A] F,
        namespaces := Stmt.nssList [] op ++ [[A]] ++ Stmt.nssList [A] F,
        roots := [[A]] } := by
  rw [ofFiles_eq_foldl, foldl_linkStep_one m A F op _ himp, collect_eq _ _ _ _ (Nat.le_succ _), ofFile_eq]
  simp

theorem flat_decls_scope : ∀ (op : List Stmt), op.all (fun s => !s.isNamespace) = true →
    ∀ d ∈ Stmt.declsList [] op, d.scope = [] := by
  intro op
  induction op with
  | nil => intro _ d hd; simp [Stmt.declsList] at hd
  | cons s r ih =>
    intro h d hd
    simp only [List.all_cons, Bool.and_eq_true] at h
    simp only [Stmt.declsList, List.mem_append] at hd
    rcases hd with hd | hd
    · cases s <;> simp_all [Stmt.decls, Stmt.isNamespace]
    · exact ih h.2 d hd

theorem flat_exports_scope : ∀ (op : List Stmt), op.all (fun s => !s.isNamespace) = true →
    ∀ x ∈ Stmt.exportsList [] op, x.1 = [] := by
  intro op
  induction op with
  | nil => intro _ d hd; simp [Stmt.exportsList] at hd
  | cons s r ih =>
    intro h d hd
    simp only [List.all_cons, Bool.and_eq_true] at h
    simp only [Stmt.exportsList, List.mem_append] at hd
    rcases hd with hd | hd
    · cases s <;> simp_all [Stmt.exports, Stmt.isNamespace]
      obtain ⟨a, b, _, rfl⟩ := hd; rfl
    · exact ih h.2 d hd

theorem flat_nss : ∀ (op : List Stmt), op.all (fun s => !s.isNamespace) = true → Stmt.nssList [] op = [] := by
  intro op
  induction op with
  | nil => intro _; rfl
  | cons s r ih =>
    intro h
    simp only [List.all_cons, Bool.and_eq_true] at h
    simp only [Stmt.nssList, ih h.2, List.append_nil]
    cases s <;> simp_all [Stmt.nss, Stmt.isNamespace]

/-- a module linked into a flat file through its only star import `A` is hosted at `[A]` -/
theorem hosted_ofFiles (op : File) (m A : String) (F : File) (hflat : op.all (fun s => !s.isNamespace) = true)
    (himp : starImports op = [(m, A)]) : Hosted (Decls.ofFiles op [(m, F)]) [A] F := by
  rw [ofFiles_single op m A F himp, flat_nss op hflat]
  have hne : ∀ sc : Scope, ([] : Scope) ≠ [A] ++ sc := by intro sc h; cases h
  refine ⟨?_, ?_, ?_, ?_, Or.inr (by simp), ?_⟩
  · intro sc n
    simp only [Decls.findLocal, List.find?_append]
    have : (Stmt.declsList [] op).find? (fun x => x.scope == [A] ++ sc && x.name == n) = none := by
      apply List.find?_eq_none.2
      intro d hd
      rw [flat_decls_scope op hflat d hd]
      simp
    rw [this, Option.none_or]
    rfl
  · intro sc n
    simp only [List.find?_append]
    have : (Stmt.declsList [] op).find? (fun x => x.scope == [A] ++ sc && x.name == n && x.exported) = none := by
      apply List.find?_eq_none.2
      intro d hd
      rw [flat_decls_scope op hflat d hd]
      simp
    rw [this, Option.none_or]
  · intro sc n
    simp only [List.find?_append]
    have : (Stmt.exportsList [] op).find? (isExportAt ([A] ++ sc) n) = none := by
      apply List.find?_eq_none.2
      intro d hd
      simp only [isExportAt, flat_exports_scope op hflat d hd]
      simp
    rw [this, Option.none_or]
  · intro sc hsc
    cases sc with
    | nil => exact absurd rfl hsc
    | cons a r => simp
  · intro sc hsc
    cases sc with
    | nil => exact absurd rfl hsc
    | cons a r => simp

/-- in that table the name `A` denotes the linked module, from the top level of the file -/
theorem ofFiles_resolveNs (op : File) (m A : String) (F : File) (himp : starImports op = [(m, A)]) :
    (Decls.ofFiles op [(m, F)]).resolveNsAux A (([] : Scope).length + 1) [] = some [A] := by
  rw [ofFiles_single op m A F himp]
  simp [Decls.resolveNsAux]

/-- the flat file's own top-level declarations are found first -/
theorem ofFiles_findLocal_top (op : File) (m A : String) (F : File) (himp : starImports op = [(m, A)])
    {n : String} {d : Decl} (h : (Stmt.declsList [] op).find? (isDeclAt [] n) = some d) :
    (Decls.ofFiles op [(m, F)]).findLocal [] n = some d := by
  rw [ofFiles_single op m A F himp]
  simp only [Decls.findLocal, List.find?_append]
  have : (Stmt.declsList [] op).find? (fun x => x.scope == [] && x.name == n) = some d := h
  rw [this]; rfl

theorem ofFiles_findLocal_top_none (op : File) (m A : String) (F : File) (himp : starImports op = [(m, A)])
    {n : String} (h : (Stmt.declsList [] op).find? (isDeclAt [] n) = none) :
    (Decls.ofFiles op [(m, F)]).findLocal [] n = none := by
  rw [ofFiles_single op m A F himp]
  simp only [Decls.findLocal, List.find?_append]
  have h' : (Stmt.declsList [] op).find? (fun x => x.scope == [] && x.name == n) = none := h
  rw [h', Option.none_or]
  apply List.find?_eq_none.2
  intro d hd
  have hp := declsList_scope F [A] d hd
  simp only [Bool.and_eq_true, beq_iff_eq, not_and]
  intro hs
  rw [hs] at hp
  exact absurd hp (by simp)

end NitroVerif.Ts
