/-
The CONCRETE emitter of the loader, assembled from the models of the other properties:

  `emit_js` (graphql-loader/src/loader.rs) =
      `task.get_root_document()`                                              — the file held under the root name AS SUPPLIED
      `resolve_operation_imports((root, ..), TaskOperationResolver(task))`   — `Model/Imports.lean` (C13) through
                                                                               `Composed.resolveDoc`, started from the
                                                                               NORMALISED root name (`Params.norm`)
      `find_undefined_fragment_spread` (fix 08fd7e5)                          — `Composed.findUndefined`
      `print_js` = `print_js_for_operation_document`                          — statements: `Model/Exports.lean` (C14, the
                                                                               loader never marks a fragment imported);
                                                                               document literals: `Model/FragClosure.lean`
                                                                               + `Model/DocJson.lean` (C12)

The parser (`parse_operation_document` + `resolve_operation_extensions`), the path resolver, the `Nat`-coding of
fragment names, the configuration and the numbering of error messages stay parameters (`Params`).
`Loader.Env.emit` receives the task's files as a lookup FUNCTION (what `TaskOperationResolver` offers); the import
model wants a finite map.  `emitFiles` is the computable emitter on a file list, `emitOfLook` picks any list with the
given lookup function, and `emitOfLook_lookup` shows the choice is immaterial (`resolve_lookup_congr`).
No property statements here.
-/
import NitroVerif.Lemmas.Loader
import NitroVerif.Lemmas.LoaderComposedFuel
import NitroVerif.Lemmas.DocJsonComposed
import NitroVerif.Model.Exports
import NitroVerif.Model.DocJson
namespace NitroVerif.LoaderC
open NitroVerif NitroVerif.Gql NitroVerif.Loader NitroVerif.Composed NitroVerif.FragClosure NitroVerif.Imports
  NitroVerif.C12

set_option linter.unusedSectionVars false

/-! ### the printed module -/

/-- the JavaScript module `print_js` writes: its top-level statements (`Model/Exports.lean`; the constant of
    definition `i` carries the index `i`) and, per definition, the JSON document literal assigned to that constant -/
structure JsModule where
  stmts : Exports.Module
  docs : List Json

def kindOf : OpKind → Exports.Kind
  | .query => .query
  | .mutation => .mutation
  | .subscription => .subscription

/-- what the naming / export decisions read of a definition -/
def expDef (imported : Bool) : ExecDef → Option Exports.Def
  | .op o => some (.op (kindOf o.kind) (o.name.map (·.1.toList)))
  | .frag f => some (.frag f.name.toList imported)
  | .imp _ => none

/-- the resolved document as the CLI's printers see it: the first `nLocal` definitions are the root file's own, the
    rest was appended by `resolve_operation_imports` (their `position.file` differs) -/
def cliFile (nLocal : Nat) (R : List ExecDef) : Exports.File :=
  (R.take nLocal).filterMap (expDef false) ++ (R.drop nLocal).filterMap (expDef true)

/-- … and as the loader's printer sees it (every file it parses has `Pos.file = 0`: nothing looks imported) -/
def loaderFile (R : List ExecDef) : Exports.File := R.filterMap (expDef false)

theorem filterMap_expDef_asLocal (b : Bool) (R : List ExecDef) :
    (R.filterMap (expDef b)).map Exports.Def.asLocal = R.filterMap (expDef false) := by
  induction R with
  | nil => rfl
  | cons d r ih =>
    cases d with
    | op o => simp [expDef, Exports.Def.asLocal, ih]
    | frag f => simp [expDef, Exports.Def.asLocal, ih]
    | imp i =>
      have e : ∀ c, (ExecDef.imp i :: r).filterMap (expDef c) = r.filterMap (expDef c) := by
        intro c; simp [List.filterMap_cons, expDef]
      rw [e, e]; exact ih

theorem cliFile_asLocal (n : Nat) (R : List ExecDef) : (cliFile n R).map Exports.Def.asLocal = loaderFile R := by
  simp only [cliFile, List.map_append, filterMap_expDef_asLocal, loaderFile, ← List.filterMap_append,
    List.take_append_drop]

/-- the document literal of every definition of `l`, printed against the document `R` -/
def docsOf (R : List ExecDef) : List ExecDef → Except RtErr (List Json)
  | [] => .ok []
  | d :: r =>
    match runtimeDefs R d with
    | .error e => .error e
    | .ok ds => match docsOf R r with
      | .ok js => .ok (DocJson.toJson ds :: js)
      | .error e => .error e

/-- `print_js(document, config)`; an error is the printer's `expect("fragment not found")` -/
def moduleOf (cfg : Exports.Config) (R : List ExecDef) : Except RtErr JsModule :=
  match docsOf R R with
  | .ok js => .ok ⟨Exports.js cfg (loaderFile R), js⟩
  | .error e => .error e

theorem docsOf_ok {R : List ExecDef} : ∀ (l : List ExecDef), (∀ d ∈ l, ∃ ds, runtimeDefs R d = .ok ds) →
    ∃ js, docsOf R l = .ok js ∧ js.length = l.length ∧
      ∀ (i : Nat) (d : ExecDef), l[i]? = some d → ∃ ds, runtimeDefs R d = .ok ds ∧ js[i]? = some (DocJson.toJson ds)
  | [], _ => ⟨[], rfl, rfl, fun i d h => by simp at h⟩
  | x :: r, h => by
    obtain ⟨ds, hds⟩ := h x (by simp)
    obtain ⟨js, hjs, hlen, hidx⟩ := docsOf_ok r (fun d hd => h d (by simp [hd]))
    refine ⟨DocJson.toJson ds :: js, by simp [docsOf, hds, hjs], by simp [hlen], ?_⟩
    intro i d hi
    cases i with
    | zero => simp only [List.getElem?_cons_zero, Option.some.injEq] at hi; subst hi; exact ⟨ds, hds, rfl⟩
    | succ i => simp only [List.getElem?_cons_succ] at hi ⊢; exact hidx i d hi

theorem docsOf_error {R : List ExecDef} : ∀ (l : List ExecDef) (e : RtErr), docsOf R l = .error e →
    ∃ d ∈ l, runtimeDefs R d = .error e
  | [], e, h => by simp [docsOf] at h
  | x :: r, e, h => by
    simp only [docsOf] at h
    cases hx : runtimeDefs R x with
    | error e' => rw [hx] at h; injection h with h; subst h; exact ⟨x, by simp, hx⟩
    | ok ds =>
      rw [hx] at h
      cases hr : docsOf R r with
      | ok js => rw [hr] at h; cases h
      | error e' =>
        rw [hr] at h; injection h with h; subst h
        obtain ⟨d, hd, he⟩ := docsOf_error r e' hr
        exact ⟨d, by simp [hd], he⟩

/-- when every written spread is defined the module is printed: one document literal per definition, each the JSON of
    the runtime document of that definition -/
theorem moduleOf_ok (cfg : Exports.Config) {R : List ExecDef} (hs : SpreadsDefined R) :
    ∃ m, moduleOf cfg R = .ok m ∧ m.stmts = Exports.js cfg (loaderFile R) ∧ m.docs.length = R.length ∧
      ∀ (i : Nat) (d : ExecDef), R[i]? = some d → ∃ ds, runtimeDefs R d = .ok ds ∧ m.docs[i]? = some (DocJson.toJson ds) := by
  obtain ⟨js, hjs, hlen, hidx⟩ := docsOf_ok (R := R) R (fun d hd => runtimeDefs_ok_of_spreads hs hd)
  exact ⟨⟨Exports.js cfg (loaderFile R), js⟩, by simp [moduleOf, hjs], rfl, hlen, hidx⟩

/-! ### the emitter -/

/-- what stays abstract -/
structure Params (P S : Type) where
  /-- `parse_operation_document` + `resolve_operation_extensions`: an error number, or the parsed file -/
  parseSrc : S → Except Nat (SrcFile P)
  /-- `resolve_relative_path(from_file, literal)` -/
  res : P → P → P
  /-- `normalize_path`: `resolve_operation_imports` knows the ROOT document by `normalize_path(root_file_name)` (its
      initial `expanded` set), while the task looks its root document up under the name as supplied.  The code resolves
      the root's own literals against the name as supplied; the model resolves them against `norm root`, which is the
      same whenever `res (norm p) r = res p r` — true of `resolve_relative_path`, which normalises its base
      (`Paths.resolve_normalize_base` for the C20 model) -/
  norm : P → P
  /-- `Nat`-coding of fragment names (import lines carry coded names) -/
  code : Name → Nat
  /-- the `CONFIG` cell -/
  cfg : Exports.Config
  /-- numbering of the import resolver's error messages -/
  eImp : ImpErr P P → Nat
  /-- number of `LoaderError::FragmentNotDefined { name }` -/
  eUndef : Name → Nat

variable {P S : Type} [DecidableEq P] (π : Params P S)

/-- the parsed document a task holds for a supplied source (`register_file` only stores sources that parse) -/
def parsedOf (d : Loader.Doc P S) : SrcFile P :=
  match π.parseSrc d.src with
  | .ok f => f
  | .error _ => ⟨[], []⟩

/-- `loaded_files` as the `TaskOperationResolver` presents it -/
def projOf (files : List (P × Loader.Doc P S)) : Project P P := files.map fun e => (e.1, parsedOf π e.2)

/-- `emit_js` after the task lookup, on a task holding `files` -/
def emitFiles (root : P) (files : List (P × Loader.Doc P S)) : EmitRes JsModule :=
  match (projOf π files).lookup root with
  | none => .err 0    -- `get_root_document`: not reached, `Loader.stepCall` traps before calling the emitter
  | some rootFile =>
    -- the root document is looked up under its name as supplied, the import resolver starts from the normalised name
    match resolveDoc π.code π.res (projOf π files) (π.norm root) rootFile with
    | .err e => .err (π.eImp e)
    | .outOfFuel => .trap
    | .ok R =>
      match findUndefined R with
      | some n => .err (π.eUndef n)
      | none =>
        match moduleOf π.cfg R with
        | .ok m => .js m
        | .error _ => .trap

open Classical in
/-- the emitter as `Loader.Env` wants it: a function of the task's lookup function -/
noncomputable def emitOfLook (root : P) (look : P → Option (Loader.Doc P S)) : EmitRes JsModule :=
  if h : ∃ files : List (P × Loader.Doc P S), Loader.lookup files = look then emitFiles π root (Classical.choose h)
  else .err 0

/-- the loader's environment with the concrete emitter -/
noncomputable def concreteEnv : Loader.Env P S JsModule where
  parse s := match π.parseSrc s with
    | .ok f => .ok (f.imports.map (·.rel))
    | .error c => .error c
  resolve := π.res
  emit := emitOfLook π

/-! ### the emitter only reads the lookup function -/

theorem lookup_bridge {K V : Type} [DecidableEq K] (l : List (K × V)) (k : K) : l.lookup k = Loader.lookup l k := by
  induction l with
  | nil => rfl
  | cons e r ih =>
    obtain ⟨a, v⟩ := e
    rw [Loader.lookup_cons, List.lookup_cons]
    by_cases h : a = k
    · subst h; simp
    · have : (k == a) = false := by simpa using fun h' => h h'.symm
      simp [this, h, ih]

theorem lookup_projOf (files : List (P × Loader.Doc P S)) (p : P) :
    (projOf π files).lookup p = (Loader.lookup files p).map (parsedOf π) := by
  rw [lookup_bridge]
  induction files with
  | nil => rfl
  | cons e r ih =>
    obtain ⟨a, d⟩ := e
    simp only [projOf, List.map_cons, Loader.lookup_cons] at ih ⊢
    by_cases h : a = p
    · simp [h]
    · simp [h, ih]

theorem resolveDoc_lookup_congr {κ ρ : Type} [DecidableEq κ] [DecidableEq ρ] (code : Name → Nat) (res : κ → ρ → κ)
    {fs fs' : Project κ ρ} (h : ∀ p, fs.lookup p = fs'.lookup p) (root : κ) (rootFile : SrcFile ρ) :
    resolveDoc code res fs root rootFile = resolveDoc code res fs' root rootFile := by
  have h1 : ∀ p, (absFS code fs).lookup p = (absFS code fs').lookup p := by
    intro p; rw [lookup_absFS, lookup_absFS, h]
  have h2 : defAt fs = defAt fs' := by funext x; simp only [defAt, h]
  simp only [resolveDoc, resolve_lookup_congr res h1, materialise, h2]

theorem emitFiles_ext (root : P) {files files' : List (P × Loader.Doc P S)}
    (h : Loader.lookup files = Loader.lookup files') : emitFiles π root files = emitFiles π root files' := by
  have hl : ∀ p, (projOf π files).lookup p = (projOf π files').lookup p := by
    intro p; rw [lookup_projOf, lookup_projOf, h]
  unfold emitFiles
  rw [hl root]
  cases (projOf π files').lookup root with
  | none => rfl
  | some rootFile => simp only [resolveDoc_lookup_congr π.code π.res hl]

theorem emitOfLook_lookup (root : P) (files : List (P × Loader.Doc P S)) :
    emitOfLook π root (Loader.lookup files) = emitFiles π root files := by
  have hex : ∃ fl : List (P × Loader.Doc P S), Loader.lookup fl = Loader.lookup files := ⟨files, rfl⟩
  unfold emitOfLook
  rw [dif_pos hex]
  exact emitFiles_ext π root (Classical.choose_spec hex)

/-! ### the emitter never traps -/

theorem emitFiles_ne_trap (root : P) (files : List (P × Loader.Doc P S)) : emitFiles π root files ≠ .trap := by
  unfold emitFiles
  cases (projOf π files).lookup root with
  | none => simp
  | some rootFile =>
    simp only
    cases hr : resolveDoc π.code π.res (projOf π files) (π.norm root) rootFile with
    | err e => simp
    | outOfFuel =>
      exfalso
      unfold resolveDoc at hr
      cases hq : resolve π.res (absFS π.code (projOf π files)) (π.norm root) (absFile π.code rootFile) with
      | ok out => rw [hq] at hr; cases hr
      | err e => rw [hq] at hr; cases hr
      | outOfFuel => exact resolve_fuel _ _ _ _ hq
    | ok R =>
      simp only
      cases hu : findUndefined R with
      | some n => simp
      | none =>
        obtain ⟨m, hm, _⟩ := moduleOf_ok π.cfg ((findUndefined_none_iff R).mp hu)
        simp [hm]

theorem emitTotal_concrete : EmitTotal (concreteEnv π) := by
  intro root look
  show emitOfLook π root look ≠ .trap
  unfold emitOfLook
  split
  · exact emitFiles_ne_trap π root _
  · simp

end NitroVerif.LoaderC
