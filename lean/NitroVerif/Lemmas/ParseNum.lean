/-
Numbers of the `Value` sub-language (helper lemmas for Props/C07 `render_parse_value`): `IntegerPart`, `IntValue`,
`FractionalPart`, `ExponentPart`, `FloatValue` of the GENERATED grammar on every text of the lexical grammar
`-?(0|[1-9][0-9]*)` / `… (.[0-9]*)? ([eE][+-]?[0-9]+)?`, and their failure on texts that are not numbers (which lets
`Value` fall through to its later alternatives) and of `IntValue` on a float text.
-/
import NitroVerif.Lemmas.ParseLex
namespace NitroVerif.ValueParse
open NitroVerif.Peg NitroVerif.Gen NitroVerif.Build NitroVerif.TypeParse

def sign (neg : Bool) : List Char := if neg then ['-'] else []

/-- `-?(0|[1-9][0-9]*)` -/
inductive IntText : List Char → Prop where
  | zero (neg : Bool) : IntText (sign neg ++ ['0'])
  | nz (neg : Bool) (d : Char) (ds : List Char) : nzdigit d → (∀ x ∈ ds, digit x) → IntText (sign neg ++ d :: ds)

/-- `[eE][+-]?[0-9]+` -/
inductive ExpText : List Char → Prop where
  | mk (e : Char) (sg : List Char) (d : Char) (ds : List Char) : (e = 'e' ∨ e = 'E') → (sg = [] ∨ sg = ['+'] ∨ sg = ['-']) →
      digit d → (∀ x ∈ ds, digit x) → ExpText (e :: (sg ++ d :: ds))

/-- the three forms of `FloatValue` -/
inductive FloatText : List Char → Prop where
  | fe (ip fd ex : List Char) : IntText ip → (∀ x ∈ fd, digit x) → ExpText ex → FloatText (ip ++ ('.' :: fd ++ ex))
  | f (ip fd : List Char) : IntText ip → (∀ x ∈ fd, digit x) → FloatText (ip ++ '.' :: fd)
  | e (ip ex : List Char) : IntText ip → ExpText ex → FloatText (ip ++ ex)

/-- what may follow a number: not a name character (so not a digit, not `e`) and not `.` -/
def NumEnd (rest : List Char) : Prop := HeadNot (fun d => nameCont d ∨ d = '.') rest

theorem digit_nameCont {d : Char} (h : digit d) : nameCont d := Or.inl (Or.inr (Or.inr h))
theorem nameStart_nameCont {d : Char} (h : nameStart d) : nameCont d := by
  rcases h with h | h
  · rcases h with h | h
    · exact Or.inl (Or.inl h)
    · exact Or.inl (Or.inr (Or.inl h))
  · exact Or.inr h
theorem nzdigit_digit {d : Char} (h : nzdigit d) : digit d := by
  unfold nzdigit at h; unfold digit
  refine ⟨?_, h.2⟩
  exact Char.le_trans (by decide : '0' ≤ '1') h.1

theorem nameStart_not_digit {d : Char} (h : nameStart d) : ¬ digit d := by
  intro hd
  unfold digit at hd
  have h9 : d.val ≤ 57 := hd.2
  rcases h with (⟨h1, _⟩ | ⟨h1, _⟩) | rfl
  · have : (97 : UInt32) ≤ d.val := h1
    exact absurd (UInt32.le_trans this h9) (by decide)
  · have : (65 : UInt32) ≤ d.val := h1
    exact absurd (UInt32.le_trans this h9) (by decide)
  · exact absurd hd.2 (by decide)

theorem numEnd_digit {rest : List Char} (h : NumEnd rest) : HeadNot digit rest :=
  headNot_mono (fun _ hd => Or.inl (digit_nameCont hd)) h

/-! ### IntegerPart -/

theorem integerPart_runs {t : List Char} (ht : IntText t) (p : Nat) (rest : List Char) (hr : HeadNot digit rest) :
    RunsRule gList (t.length + 12) R.IntegerPart .atomic ⟨p, t ++ rest⟩ ⟨p + t.length, rest⟩ [] := by
  -- after the optional sign
  have main : ∀ (q : Nat) (b : List Char), (b = ['0'] ∨ ∃ d ds, b = d :: ds ∧ nzdigit d ∧ ∀ x ∈ ds, digit x) →
      Runs gList (b.length + 8) false (.choice (.str ['0']) (.seq (.call R.ASCII_NONZERO_DIGIT) (.star (.call R.ASCII_DIGIT))))
        .atomic ⟨q, b ++ rest⟩ ⟨q + b.length, rest⟩ [] := by
    intro q b hb
    rcases hb with rfl | ⟨d, ds, rfl, hd, hds⟩
    · exact (runs_choice_l (runs_str (c := ⟨q, ['0'] ++ rest⟩) (by simp [matchStr]))).mono (by simp)
    · have hne : ¬ '0' = d := by
        rintro rfl
        exact absurd hd.1 (by decide)
      have f0 : Fails gList (ds.length + 7) false (.str ['0']) .atomic ⟨q, d :: ds ++ rest⟩ :=
        (fails_str (c := ⟨q, d :: ds ++ rest⟩) (by simp [matchStr, hne])).mono (by omega)
      have h1 : Runs gList (ds.length + 5) false (.call R.ASCII_NONZERO_DIGIT) .atomic ⟨q, d :: (ds ++ rest)⟩
          ⟨q + 1, ds ++ rest⟩ [] := (runs_call (nzdigitL_runs (la := .none) hd)).mono (by omega)
      have h2 : Runs gList (ds.length + 5) false (.star (.call R.ASCII_DIGIT)) .atomic ⟨q + 1, ds ++ rest⟩
          ⟨q + 1 + ds.length, rest⟩ [] := (digits_star (la := .none) ds (q + 1) rest hds hr).mono (by omega)
      have := runs_choice_r f0 (runs_seq_nosk h1 h2)
      refine Runs.mono ?_ (by simp : ds.length + 7 + 1 ≤ (d :: ds).length + 8)
      simpa [Nat.add_assoc, Nat.add_comm 1] using this
  have hbody : Runs gList (t.length + 11) false (.seq (.opt (.str ['-'])) (.choice (.str ['0'])
      (.seq (.call R.ASCII_NONZERO_DIGIT) (.star (.call R.ASCII_DIGIT))))) .atomic ⟨p, t ++ rest⟩ ⟨p + t.length, rest⟩ [] := by
    have split : ∃ neg b, t = sign neg ++ b ∧ (b = ['0'] ∨ ∃ d ds, b = d :: ds ∧ nzdigit d ∧ ∀ x ∈ ds, digit x) := by
      cases ht with
      | zero neg => exact ⟨neg, ['0'], rfl, Or.inl rfl⟩
      | nz neg d ds hd hds => exact ⟨neg, d :: ds, rfl, Or.inr ⟨d, ds, rfl, hd, hds⟩⟩
    obtain ⟨neg, b, rfl, hb⟩ := split
    have hm := main (p + (sign neg).length) b hb
    cases neg with
    | true =>
      have h1 : Runs gList (b.length + 8) false (.opt (.str ['-'])) .atomic ⟨p, '-' :: (b ++ rest)⟩ ⟨p + 1, b ++ rest⟩ [] :=
        (runsL_opt_some (la := .none) (runs_str (c := ⟨p, '-' :: (b ++ rest)⟩) (by simp [matchStr]))).mono (by omega)
      have := runs_seq_nosk h1 (by simpa [sign] using hm)
      refine Runs.mono ?_ (by simp [sign] : b.length + 8 + 2 ≤ (sign true ++ b).length + 11)
      simpa [sign, Nat.add_assoc, Nat.add_comm 1] using this
    | false =>
      have hhead : matchStr ['-'] (b ++ rest) = none := by
        rcases hb with rfl | ⟨d, ds, rfl, hd, _⟩
        · simp [matchStr]
        · have : ¬ '-' = d := by rintro rfl; exact absurd hd.1 (by decide)
          simp [matchStr, this]
      have h1 : Runs gList (b.length + 8) false (.opt (.str ['-'])) .atomic ⟨p, b ++ rest⟩ ⟨p, b ++ rest⟩ [] :=
        (runsL_opt_none (la := .none) (fails_str (c := ⟨p, b ++ rest⟩) hhead)).mono (by omega)
      have := runs_seq_nosk h1 (by simpa [sign] using hm)
      refine Runs.mono ?_ (by simp [sign] : b.length + 8 + 2 ≤ (sign false ++ b).length + 11)
      simpa [sign] using this
  simpa using runsRule_atomic (at_ := .atomic) look_IntegerPart hbody

theorem integerPart_fails {p : Nat} {rest : List Char} (h : HeadNot (fun d => d = '-' ∨ digit d) rest) :
    FailsRule gList 9 R.IntegerPart .atomic ⟨p, rest⟩ := by
  refine failsRule_atomic look_IntegerPart ?_
  have h1 : Runs gList 6 false (.opt (.str ['-'])) .atomic ⟨p, rest⟩ ⟨p, rest⟩ [] :=
    (runsL_opt_none (la := .none) (strL_head_fails fun d r he hd => h d r he (Or.inl hd))).mono (by omega)
  have h2 : Fails gList 6 false (.choice (.str ['0']) (.seq (.call R.ASCII_NONZERO_DIGIT) (.star (.call R.ASCII_DIGIT))))
      .atomic ⟨p, rest⟩ := by
    refine fails_choice ((strL_head_fails (la := .none) fun d r he hd => h d r he (Or.inr (hd ▸ by decide))).mono (by omega : 1 ≤ 5)) ?_
    exact (fails_seq_first (fails_call (nzdigitL_fails (la := .none)
      fun d r he hd => h d r he (Or.inr (nzdigit_digit hd))))).mono (by omega)
  exact failsL_seq_last_noskip (la := .none) (Or.inl rfl) h1 h2

/-! ### the guard `!("." | NameStart)` -/

theorem numGuard_runs {p : Nat} {rest : List Char} (h : NumEnd rest) :
    Runs gList 10 false (.not (.choice (.str ['.']) (.call R.NameStart))) .atomic ⟨p, rest⟩ ⟨p, rest⟩ [] := by
  refine (runsL_not (la := .none) (failsL_choice ((strL_head_fails fun d r he hd => h d r he (Or.inr hd)).mono
    (by omega : 1 ≤ 7)) (failsL_call (nameStartL_fails fun d r he hd => h d r he (Or.inl (nameStart_nameCont hd)))))).mono
    (by omega)

theorem numGuard_fails {p : Nat} {x : Char} {r : List Char} (hx : x = '.' ∨ nameStart x) :
    Fails gList 10 false (.not (.choice (.str ['.']) (.call R.NameStart))) .atomic ⟨p, x :: r⟩ := by
  by_cases hdot : x = '.'
  · subst hdot
    exact (failsL_not (la := .none) (runsL_choice_l (runsL_str (c := ⟨p, '.' :: r⟩) (r := r) (by simp [matchStr])))).mono (by omega)
  · have hs := hx.resolve_left hdot
    have hf : FailsL gList .neg 7 false (.str ['.']) .atomic ⟨p, x :: r⟩ :=
      (failsL_str (c := ⟨p, x :: r⟩) (by simp [matchStr, Ne.symm hdot])).mono (by omega)
    exact (failsL_not (la := .none) (runsL_choice_r hf (runsL_call (nameStartL_runs hs)))).mono (by omega)

/-! ### IntValue -/

theorem intValue_runs {t : List Char} (ht : IntText t) (p : Nat) (rest : List Char) (hr : NumEnd rest) :
    RunsRule gList (t.length + 20) R.IntValue .nonAtomic ⟨p, t ++ rest⟩ ⟨p + t.length, rest⟩
      [Pair.mk R.IntValue p (p + t.length) []] := by
  have h1 := runs_call (sk := false) (integerPart_runs ht p rest (numEnd_digit hr))
  have h2 := numGuard_runs (p := p + t.length) hr
  have hb := runs_seq_nosk (h1.mono (by omega : t.length + 12 + 1 ≤ t.length + 13)) (h2.mono (by omega))
  have := runsRule_atomic (at_ := .nonAtomic) look_IntValue hb
  refine RunsRule.mono ?_ (by omega : t.length + 13 + 2 + 1 ≤ t.length + 20)
  simpa using this

theorem intValue_fails_head {p : Nat} {rest : List Char} (h : HeadNot (fun d => d = '-' ∨ digit d) rest) :
    FailsRule gList 12 R.IntValue .nonAtomic ⟨p, rest⟩ :=
  (failsRule_atomic look_IntValue (fails_seq_first (fails_call (integerPart_fails h)))).mono (by omega)

/-- `IntValue` fails on an integer part that is followed by `.` or a name-start character (a float) -/
theorem intValue_fails_float {t : List Char} (ht : IntText t) (p : Nat) (x : Char) (r : List Char)
    (hx : x = '.' ∨ nameStart x) : FailsRule gList (t.length + 20) R.IntValue .nonAtomic ⟨p, t ++ x :: r⟩ := by
  have hnd : HeadNot digit (x :: r) := by
    intro d r' he hd
    cases he
    rcases hx with rfl | hs
    · exact absurd hd.1 (by decide)
    · exact nameStart_not_digit hs hd
  have h1 := runs_call (sk := false) (integerPart_runs ht p (x :: r) hnd)
  have h2 := numGuard_fails (p := p + t.length) (r := r) hx
  have hb := failsL_seq_last_noskip (la := .none) (Or.inl rfl) (h1.mono (by omega : t.length + 12 + 1 ≤ t.length + 13))
    (h2.mono (by omega))
  exact (failsRule_atomic look_IntValue hb).mono (by omega)

/-! ### FractionalPart, ExponentPart -/

theorem frac_runs (fd : List Char) (hfd : ∀ x ∈ fd, digit x) (p : Nat) (rest : List Char) (hr : HeadNot digit rest) :
    RunsRule gList (fd.length + 8) R.FractionalPart .atomic ⟨p, '.' :: fd ++ rest⟩ ⟨p + (fd.length + 1), rest⟩ [] := by
  have h1 : Runs gList (fd.length + 4) false (.str ['.']) .atomic ⟨p, '.' :: (fd ++ rest)⟩ ⟨p + 1, fd ++ rest⟩ [] :=
    (runs_str (c := ⟨p, '.' :: (fd ++ rest)⟩) (by simp [matchStr])).mono (by omega)
  have h2 := digits_star (la := .none) fd (p + 1) rest hfd hr
  have := runsRule_atomic (at_ := .atomic) look_FractionalPart (runs_seq_nosk h1 h2)
  refine RunsRule.mono ?_ (by omega : fd.length + 4 + 2 + 1 ≤ fd.length + 8)
  simpa [Nat.add_assoc, Nat.add_comm 1] using this

theorem frac_fails {p : Nat} {rest : List Char} (h : HeadNot (· = '.') rest) :
    FailsRule gList 3 R.FractionalPart .atomic ⟨p, rest⟩ :=
  failsRule_atomic look_FractionalPart (fails_seq_first (strL_head_fails h))

theorem exp_runs {ex : List Char} (hex : ExpText ex) (p : Nat) (rest : List Char) (hr : HeadNot digit rest) :
    RunsRule gList (ex.length + 14) R.ExponentPart .atomic ⟨p, ex ++ rest⟩ ⟨p + ex.length, rest⟩ [] := by
  cases hex with
  | mk e sg d ds he hsg hd hds =>
    have hm : matchInsens ['e'] (e :: (sg ++ d :: ds ++ rest)) = some (sg ++ d :: ds ++ rest) := by
      rcases he with rfl | rfl <;> simp [matchInsens] <;> decide
    have h1 : Runs gList (ds.length + 9) false (.insens ['e']) .atomic ⟨p, e :: (sg ++ d :: ds ++ rest)⟩
        ⟨p + 1, sg ++ d :: ds ++ rest⟩ [] :=
      (runsL_insens (la := .none) (c := ⟨p, e :: (sg ++ d :: ds ++ rest)⟩) hm).mono (by omega)
    -- optional sign
    have hd0 : ¬ '+' = d ∧ ¬ '-' = d := by
      constructor <;> (rintro rfl; exact absurd hd.1 (by decide))
    have h2 : Runs gList (ds.length + 9) false (.opt (.choice (.str ['+']) (.str ['-']))) .atomic
        ⟨p + 1, sg ++ d :: ds ++ rest⟩ ⟨p + 1 + sg.length, d :: ds ++ rest⟩ [] := by
      rcases hsg with rfl | rfl | rfl
      · refine (runsL_opt_none (la := .none) (fails_choice (fails_str (c := ⟨p + 1, _⟩) ?_) (fails_str (c := ⟨p + 1, _⟩) ?_))).mono
          (by omega)
        · simp [matchStr, hd0.1]
        · simp [matchStr, hd0.2]
      · exact (runsL_opt_some (la := .none) (runs_choice_l (runs_str (c := ⟨p + 1, '+' :: (d :: ds ++ rest)⟩)
          (by simp [matchStr])))).mono (by omega)
      · refine (runsL_opt_some (la := .none) (runs_choice_r (fails_str (c := ⟨p + 1, '-' :: (d :: ds ++ rest)⟩)
          (by simp [matchStr])) (runs_str (c := ⟨p + 1, '-' :: (d :: ds ++ rest)⟩) (by simp [matchStr])))).mono (by omega)
    -- digits+
    have h3 : Runs gList (ds.length + 9) false (.plus (.call R.ASCII_DIGIT)) .atomic ⟨p + 1 + sg.length, d :: ds ++ rest⟩
        ⟨p + 1 + sg.length + 1 + ds.length, rest⟩ [] := by
      have a := runs_call (sk := false) (digitL_runs (la := .none) (at_ := .atomic) (p := p + 1 + sg.length)
        (r := ds ++ rest) hd)
      have b := digits_star (la := .none) ds (p + 1 + sg.length + 1) rest hds hr
      have : Runs gList _ false (.plus (.call R.ASCII_DIGIT)) .atomic _ _ _ :=
        runsL_plus (la := .none) (runs_seq_nosk (a.mono (by omega : 3 ≤ ds.length + 4)) b)
      exact this.mono (by omega)
    have hb := runs_seq_nosk (h1.mono (by omega : ds.length + 9 ≤ ds.length + 9 + 2)) (runs_seq_nosk h2 h3)
    have := runsRule_atomic (at_ := .atomic) look_ExponentPart hb
    refine RunsRule.mono ?_ (by simp; omega : ds.length + 9 + 2 + 2 + 1 ≤ (e :: (sg ++ d :: ds)).length + 14)
    refine RunsRule.cast this (by simp) ?_ (by simp)
    congr 1; simp; omega

/-- `ExponentPart` fails in front of a character that may follow a number -/
theorem exp_fails {p : Nat} {rest : List Char} (h : NumEnd rest) : FailsRule gList 3 R.ExponentPart .atomic ⟨p, rest⟩ := by
  refine failsRule_atomic look_ExponentPart (fails_seq_first (failsL_insens (la := .none) (c := ⟨p, rest⟩) ?_))
  cases rest with
  | nil => rfl
  | cons d r =>
    have hd := h d r rfl
    have hne : ¬ asciiLower 'e' = asciiLower d := by
      intro he
      have e0 : asciiLower 'e' = 'e' := by decide
      rw [e0] at he
      unfold asciiLower at he
      split at he
      · rename_i hup
        exact hd (Or.inl (Or.inl (Or.inr (Or.inl hup))))
      · subst he
        exact hd (Or.inl (by decide))
    simp [matchInsens, hne]

theorem exp_fails_dot {p : Nat} {r : List Char} : FailsRule gList 3 R.ExponentPart .atomic ⟨p, '.' :: r⟩ :=
  failsRule_atomic look_ExponentPart (fails_seq_first (failsL_insens (la := .none) (c := ⟨p, '.' :: r⟩)
    (by simp [matchInsens]; decide)))

/-! ### FloatValue -/

theorem expText_head {ex : List Char} (h : ExpText ex) : ∃ e r, ex = e :: r ∧ nameStart e := by
  cases h with
  | mk e sg d ds he _ _ _ =>
    refine ⟨e, _, rfl, ?_⟩
    rcases he with rfl | rfl <;> decide

theorem floatValue_runs {t : List Char} (ht : FloatText t) (p : Nat) (rest : List Char) (hr : NumEnd rest) :
    RunsRule gList (t.length + 40) R.FloatValue .nonAtomic ⟨p, t ++ rest⟩ ⟨p + t.length, rest⟩
      [Pair.mk R.FloatValue p (p + t.length) []] := by
  have hrd := numEnd_digit hr
  have guard := fun q => numGuard_runs (p := q) hr
  cases ht with
  | fe ip fd ex hip hfd hex =>
    obtain ⟨e, er, hee, hes⟩ := expText_head hex
    have hnd : HeadNot digit (ex ++ rest) := by
      rw [hee]; intro d r he hd; cases he; exact nameStart_not_digit hes hd
    have hnd' : HeadNot digit ('.' :: fd ++ (ex ++ rest)) := by
      intro d r he hd; cases he; exact absurd hd.1 (by decide)
    have a1 := runs_call (sk := false) (integerPart_runs hip p ('.' :: fd ++ (ex ++ rest)) hnd')
    have a2 := runs_call (sk := false) (frac_runs fd hfd (p + ip.length) (ex ++ rest) hnd)
    have a3 := runs_call (sk := false) (exp_runs hex (p + ip.length + (fd.length + 1)) rest hrd)
    have a4 := guard (p + ip.length + (fd.length + 1) + ex.length)
    let N := (ip ++ ('.' :: fd ++ ex)).length + 16
    have hN : N = (ip ++ ('.' :: fd ++ ex)).length + 16 := rfl
    have hlen : (ip ++ ('.' :: fd ++ ex)).length = ip.length + fd.length + 1 + ex.length := by simp; omega
    have s3 := runs_seq_nosk (a3.mono (by omega : _ ≤ N)) (a4.mono (by omega : _ ≤ N))
    have s2 := runs_seq_nosk (a2.mono (by omega : _ ≤ N + 2)) s3
    have s1 := runs_seq_nosk (a1.mono (by omega : _ ≤ N + 4)) s2
    have := runsRule_atomic (at_ := .nonAtomic) look_FloatValue (runs_choice_l s1)
    refine RunsRule.mono ?_ (by omega : N + 4 + 2 + 1 + 1 ≤ (ip ++ ('.' :: fd ++ ex)).length + 40)
    simpa [Nat.add_assoc, Nat.add_comm 1, Nat.add_left_comm] using this
  | f ip fd hip hfd =>
    have hnd' : HeadNot digit ('.' :: fd ++ rest) := by
      intro d r he hd; cases he; exact absurd hd.1 (by decide)
    have a1 := runs_call (sk := false) (integerPart_runs hip p ('.' :: fd ++ rest) hnd')
    have a2 := runs_call (sk := false) (frac_runs fd hfd (p + ip.length) rest hrd)
    have a3f := fails_call (sk := false) (exp_fails (p := p + ip.length + (fd.length + 1)) hr)
    have a4 := guard (p + ip.length + (fd.length + 1))
    let N := (ip ++ '.' :: fd).length + 16
    have hlen : (ip ++ '.' :: fd).length = ip.length + fd.length + 1 := by simp; omega
    -- first alternative fails at the exponent
    have f3 : Fails gList (N + 1) false (.seq (.call R.ExponentPart) (.not (.choice (.str ['.']) (.call R.NameStart)))) .atomic
        ⟨p + ip.length + (fd.length + 1), rest⟩ := fails_seq_first (a3f.mono (by omega : _ ≤ N))
    have f2 := failsL_seq_last_noskip (la := .none) (Or.inl rfl) (a2.mono (by omega : _ ≤ N + 1)) f3
    have f1 := failsL_seq_last_noskip (la := .none) (Or.inl rfl) (a1.mono (by omega : _ ≤ N + 3)) f2
    -- second alternative
    have s2 := runs_seq_nosk (a2.mono (by omega : _ ≤ N)) (a4.mono (by omega : _ ≤ N))
    have s1 := runs_seq_nosk (a1.mono (by omega : _ ≤ N + 2)) s2
    have alt := runs_choice_r (f1.mono (by omega : N + 3 + 2 ≤ N + 5)) ((runs_choice_l
      (b := .seq (.call R.IntegerPart) (.seq (.call R.ExponentPart) (.not (.choice (.str ['.']) (.call R.NameStart))))) s1).mono
      (by omega : N + 2 + 2 + 1 ≤ N + 5))
    have := runsRule_atomic (at_ := .nonAtomic) look_FloatValue alt
    refine RunsRule.mono ?_ (by omega : N + 5 + 1 + 1 ≤ (ip ++ '.' :: fd).length + 40)
    simpa [Nat.add_assoc, Nat.add_comm 1, Nat.add_left_comm] using this
  | e ip ex hip hex =>
    obtain ⟨e, er, hee, hes⟩ := expText_head hex
    have hnd : HeadNot digit (ex ++ rest) := by
      rw [hee]; intro d r he hd; cases he; exact nameStart_not_digit hes hd
    have hndot : HeadNot (· = '.') (ex ++ rest) := by
      rw [hee]; intro d r he hd; cases he; subst hd; exact absurd hes (by decide)
    have a1 := runs_call (sk := false) (integerPart_runs hip p (ex ++ rest) hnd)
    have a2f := fails_call (sk := false) (frac_fails (p := p + ip.length) hndot)
    have a3 := runs_call (sk := false) (exp_runs hex (p + ip.length) rest hrd)
    have a4 := guard (p + ip.length + ex.length)
    let N := (ip ++ ex).length + 16
    have hlen : (ip ++ ex).length = ip.length + ex.length := by simp
    -- alternatives 1 and 2 fail at the fractional part
    have f1 : Fails gList (N + 2) false (.seq (.call R.IntegerPart) (.seq (.call R.FractionalPart) (.seq (.call R.ExponentPart)
        (.not (.choice (.str ['.']) (.call R.NameStart)))))) .atomic ⟨p, ip ++ (ex ++ rest)⟩ :=
      failsL_seq_last_noskip (la := .none) (Or.inl rfl) (a1.mono (by omega : _ ≤ N)) ((fails_seq_first a2f).mono (by omega))
    have f2 : Fails gList (N + 2) false (.seq (.call R.IntegerPart) (.seq (.call R.FractionalPart)
        (.not (.choice (.str ['.']) (.call R.NameStart))))) .atomic ⟨p, ip ++ (ex ++ rest)⟩ :=
      failsL_seq_last_noskip (la := .none) (Or.inl rfl) (a1.mono (by omega : _ ≤ N)) ((fails_seq_first a2f).mono (by omega))
    have s2 := runs_seq_nosk (a3.mono (by omega : _ ≤ N)) (a4.mono (by omega : _ ≤ N))
    have s1 := runs_seq_nosk (a1.mono (by omega : _ ≤ N + 2)) s2
    have alt := runs_choice_r (f1.mono (by omega : N + 2 ≤ N + 5)) (runs_choice_r (f2.mono (by omega : N + 2 ≤ N + 4)) s1)
    have := runsRule_atomic (at_ := .nonAtomic) look_FloatValue alt
    refine RunsRule.mono ?_ (by omega : N + 5 + 1 + 1 ≤ (ip ++ ex).length + 40)
    simpa [Nat.add_assoc, Nat.add_comm 1, Nat.add_left_comm] using this

theorem floatValue_fails_head {p : Nat} {rest : List Char} (h : HeadNot (fun d => d = '-' ∨ digit d) rest) :
    FailsRule gList 14 R.FloatValue .nonAtomic ⟨p, rest⟩ := by
  have f : ∀ (x : Expr), Fails gList 11 false (.seq (.call R.IntegerPart) x) .atomic ⟨p, rest⟩ := fun x =>
    fails_seq_first (fails_call (integerPart_fails h))
  exact (failsRule_atomic look_FloatValue (fails_choice ((f _).mono (by omega : 11 ≤ 12)) (fails_choice (f _) (f _)))).mono
    (by omega)

end NitroVerif.ValueParse
