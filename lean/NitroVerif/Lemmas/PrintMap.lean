import NitroVerif.Model.PrintMap
/-!
# C06 — printer call sites: the projection of `TSType::print_type` onto the mapped calls

`tySites t` lists, in print order, the `write_for` calls of `print_type t` whose node has a non-builtin position:
one per `TypeVariable` and one per object key that is printed as a raw identifier. `mapped_printTy` shows that this
is exactly the projection of the modelled operation sequence (`mappedOps (printTy t) = tySites t`).
-/
namespace NitroVerif.PrintMap
open NitroVerif.Gql NitroVerif.DeclCfg

/-- the mapped call for a node with text `t`, position `p`, name `n`: nothing when the position is built in -/
def node (t : String) (p : Pos) (n : String) : List POp :=
  if p.builtin then [] else [.writeFor t p (some n)]

mutual
/-- the mapped calls of `print_type`, in order -/
def tySites : TSTy → List POp
  | .var n p => node n p n
  | .func f args => tySites f ++ tySitesList args
  | .strLit _ => []
  | .ns2 _ _ => []
  | .ns3 _ _ _ => []
  | .obj fs => fieldSites fs
  | .arr t => tySites t
  | .roArr t => tySites t
  | .union ts => tySitesList ts
  | .inter ts => tySitesList ts
  | .undefined => []
  | .null => []
  | .never => []
  | .unknown => []
  | .raw _ => []
def tySitesList : List TSTy → List POp
  | [] => []
  | t :: ts => tySites t ++ tySitesList ts
def fieldSites : List TSField → List POp
  | [] => []
  | .mk k kp ty _ _ _ :: r =>
    (if SchemaDecls.isRawIdent k then node k kp k else []) ++ tySites ty ++ fieldSites r
end

theorem typeKind_beq (a b : TypeKind) : (a == b) = decide (a = b) := by
  cases a <;> cases b <;> rfl

/-! ### `mappedOps` is a filter -/

@[simp] theorem mappedOps_nil : mappedOps [] = [] := rfl

@[simp] theorem mappedOps_append (a b : List POp) : mappedOps (a ++ b) = mappedOps a ++ mappedOps b := by
  simp [mappedOps]

@[simp] theorem mappedOps_write (t : String) (r : List POp) : mappedOps (.write t :: r) = mappedOps r := by
  simp [mappedOps, POp.mapped]

@[simp] theorem mappedOps_indent (r : List POp) : mappedOps (.indent :: r) = mappedOps r := by
  simp [mappedOps, POp.mapped]

@[simp] theorem mappedOps_dedent (r : List POp) : mappedOps (.dedent :: r) = mappedOps r := by
  simp [mappedOps, POp.mapped]

@[simp] theorem mappedOps_writeFor (t : String) (p : Pos) (n : String) (r : List POp) :
    mappedOps (.writeFor t p (some n) :: r) = node t p n ++ mappedOps r := by
  unfold node mappedOps
  cases h : p.builtin <;> simp [POp.mapped, h]

theorem mappedOps_writeFor_none (t : String) (p : Pos) (r : List POp) :
    mappedOps (.writeFor t p none :: r) = (if p.builtin then [] else [.writeFor t p none]) ++ mappedOps r := by
  unfold mappedOps
  cases h : p.builtin <;> simp [POp.mapped, h]

theorem mem_mappedOps {op : POp} {ops : List POp} : op ∈ mappedOps ops ↔ op ∈ ops ∧ op.mapped = true := by
  simp [mappedOps]

theorem mappedOps_flatMap {α} (l : List α) (f : α → List POp) :
    mappedOps (l.flatMap f) = l.flatMap (fun a => mappedOps (f a)) := by
  induction l with
  | nil => rfl
  | cons a l ih => simp [List.flatMap_cons, ih]

@[simp] theorem node_builtin (t n : String) : node t bi n = [] := rfl

theorem mem_node {op : POp} {t n : String} {p : Pos} :
    op ∈ node t p n ↔ (p.builtin = false ∧ op = .writeFor t p (some n)) := by
  unfold node
  cases h : p.builtin <;> simp

@[simp] theorem mappedOps_descOps (d : String) : mappedOps (descOps d) = [] := by
  unfold descOps
  simp only [mappedOps_append, mappedOps_write, mappedOps_nil, List.append_nil, List.nil_append]
  rw [mappedOps_flatMap]
  simp

@[simp] theorem mappedOps_optDescOps (d : Option String) : mappedOps (optDescOps d) = [] := by
  cases d <;> simp [optDescOps]

/-! ### the projection of `print_type` -/

mutual
theorem mapped_printTy : ∀ t : TSTy, mappedOps (printTy t) = tySites t
  | .var n p => by simp [printTy, tySites]
  | .func f args => by
    simp [printTy, tySites, mapped_printTy f, mapped_printSep ", " args true]
  | .strLit _ => by simp [printTy, tySites]
  | .ns2 _ _ => by simp [printTy, tySites]
  | .ns3 _ _ _ => by simp [printTy, tySites]
  | .obj fs => by
    simp only [printTy, tySites]
    split
    · rename_i h
      have : fs = [] := by simpa using h
      subst this
      simp [fieldSites]
    · simp [mapped_printFields fs]
  | .arr t => by simp [printTy, tySites, mapped_printTy t]
  | .roArr t => by simp [printTy, tySites, mapped_printTy t]
  | .union ts => by
    simp only [printTy, tySites]
    split
    · rename_i h
      have : ts = [] := by simpa using h
      subst this
      simp [tySitesList]
    · exact mapped_printSep " | " ts true
  | .inter ts => by
    simp only [printTy, tySites]
    split
    · rename_i h
      have : ts = [] := by simpa using h
      subst this
      simp [tySitesList]
    · exact mapped_printSep " & " ts true
  | .undefined => by simp [printTy, tySites]
  | .null => by simp [printTy, tySites]
  | .never => by simp [printTy, tySites]
  | .unknown => by simp [printTy, tySites]
  | .raw _ => by simp [printTy, tySites]
theorem mapped_printSep : ∀ (sep : String) (ts : List TSTy) (first : Bool),
    mappedOps (printSep sep ts first) = tySitesList ts
  | _, [], _ => by simp [printSep, tySitesList]
  | sep, t :: ts, first => by
    simp only [printSep, tySitesList, mappedOps_append, mapped_printTy t, mapped_printSep sep ts false]
    cases first <;> simp
theorem mapped_printFields : ∀ fs : List TSField, mappedOps (printFields fs) = fieldSites fs
  | [] => by simp [printFields, fieldSites]
  | .mk k kp ty ro opt d :: r => by
    simp only [printFields, fieldSites, mappedOps_append, mappedOps_optDescOps, mapped_printTy ty,
      mapped_printFields r, List.nil_append]
    cases ro <;> cases opt <;> cases hk : SchemaDecls.isRawIdent k <;> simp
end

end NitroVerif.PrintMap
