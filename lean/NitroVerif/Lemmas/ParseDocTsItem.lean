/-
Type-system items (helper lemmas for Props/C07Doc): a type definition of any of the six kinds through `TypeDefinition`,
`TypeSystemDefinition`, `TypeSystemDefinitionOrExtension` (every earlier alternative is shown to fail: the optional
description is parsed again for each of them and then their keyword does not match), and the failure of all alternatives
at the end of the input.
-/
import NitroVerif.Lemmas.ParseDocTsDefC
namespace NitroVerif.DocParse
open NitroVerif.Peg NitroVerif.Gen NitroVerif.Gen.Parts NitroVerif.Build NitroVerif.TypeParse NitroVerif.StringParse
open NitroVerif.Gql NitroVerif.ValueParse NitroVerif.Spec.Lex NitroVerif.ParseText

set_option linter.unusedSimpArgs false

theorem look_TypeDefinition : gList.look R.TypeDefinition = some (.normal, .choice (.call R.ScalarTypeDefinition)
    (.choice (.call R.ObjectTypeDefinition) (.choice (.call R.InterfaceTypeDefinition) (.choice (.call R.UnionTypeDefinition)
      (.choice (.call R.EnumTypeDefinition) (.call R.InputObjectTypeDefinition)))))) := rfl
theorem look_TypeSystemDefinition : gList.look R.TypeSystemDefinition = some (.normal,
    .choice (.call R.SchemaDefinition) (.choice (.call R.TypeDefinition) (.call R.DirectiveDefinition))) := rfl
theorem look_TSDOE : gList.look R.TypeSystemDefinitionOrExtension = some (.normal,
    .choice (.call R.TypeSystemDefinition) (.call R.TypeSystemExtension)) := rfl
theorem look_TypeSystemExtension : gList.look R.TypeSystemExtension = some (.normal,
    .choice (.call R.SchemaExtension) (.call R.TypeExtension)) := rfl
theorem look_TypeExtension : gList.look R.TypeExtension = some (.normal, .choice (.call R.ScalarTypeExtension)
    (.choice (.call R.ObjectTypeExtension) (.choice (.call R.InterfaceTypeExtension) (.choice (.call R.UnionTypeExtension)
      (.choice (.call R.EnumTypeExtension) (.call R.InputObjectTypeExtension)))))) := rfl
theorem look_SchemaDefinition : ∃ tl, gList.look R.SchemaDefinition = some (.normal,
    .seq (.opt (.call R.Description)) (.seq (.call R.KEYWORD_schema) tl)) := ⟨_, rfl⟩
theorem look_DirectiveDefinition : ∃ tl, gList.look R.DirectiveDefinition = some (.normal,
    .seq (.opt (.call R.Description)) (.seq (.call R.KEYWORD_directive) tl)) := ⟨_, rfl⟩
theorem look_SchemaExtension : ∃ t1 t2, gList.look R.SchemaExtension = some (.normal,
    .choice (.seq (.call R.KEYWORD_extend) t1) (.seq (.call R.KEYWORD_extend) t2)) := ⟨_, _, rfl⟩
theorem look_ScalarTypeExtension : ∃ t1, gList.look R.ScalarTypeExtension = some (.normal,
    .seq (.call R.KEYWORD_extend) t1) := ⟨_, rfl⟩
theorem look_ObjectTypeExtension : ∃ t1 t2 t3, gList.look R.ObjectTypeExtension = some (.normal,
    .choice (.seq (.call R.KEYWORD_extend) t1) (.choice (.seq (.call R.KEYWORD_extend) t2)
      (.seq (.call R.KEYWORD_extend) t3))) := ⟨_, _, _, rfl⟩
theorem look_InterfaceTypeExtension : ∃ t1 t2 t3, gList.look R.InterfaceTypeExtension = some (.normal,
    .choice (.seq (.call R.KEYWORD_extend) t1) (.choice (.seq (.call R.KEYWORD_extend) t2)
      (.seq (.call R.KEYWORD_extend) t3))) := ⟨_, _, _, rfl⟩
theorem look_UnionTypeExtension : ∃ t1 t2, gList.look R.UnionTypeExtension = some (.normal,
    .choice (.seq (.call R.KEYWORD_extend) t1) (.seq (.call R.KEYWORD_extend) t2)) := ⟨_, _, rfl⟩
theorem look_EnumTypeExtension : ∃ t1 t2, gList.look R.EnumTypeExtension = some (.normal,
    .choice (.seq (.call R.KEYWORD_extend) t1) (.seq (.call R.KEYWORD_extend) t2)) := ⟨_, _, rfl⟩
theorem look_InputObjectTypeExtension : ∃ t1 t2, gList.look R.InputObjectTypeExtension = some (.normal,
    .choice (.seq (.call R.KEYWORD_extend) t1) (.seq (.call R.KEYWORD_extend) t2)) := ⟨_, _, rfl⟩

variable {inp : List Char}

def kindDefRule : TypeKind → RuleId
  | .scalar => R.ScalarTypeDefinition
  | .object => R.ObjectTypeDefinition
  | .interface => R.InterfaceTypeDefinition
  | .union => R.UnionTypeDefinition
  | .enum => R.EnumTypeDefinition
  | .input => R.InputObjectTypeDefinition

/-- the rule of kind `k'` fails on a definition whose keyword is another word -/
theorem kindRule_fails {τ : Trivia} (hτ : ∀ q, Ws (τ q)) (k' : TypeKind) (desc : Option String) (w' : List Char)
    (hw' : validName w') (hne : w' ≠ kindKw k') {p : Nat} {sK : Bool} {bad : Char → Prop}
    (h : HasAt inp p (rOptDesc τ p desc ++ tk τ sK (p + (rOptDesc τ p desc).length) w'))
    (ht : Nxt inp bad sK (p + (rOptDesc τ p desc).length + (tk τ sK (p + (rOptDesc τ p desc).length) w').length)) :
    Fails gList (B (rOptDesc τ p desc).length + 40) true (.call (kindDefRule k')) .nonAtomic (At inp p) := by
  have f : ∀ T, Fails gList (B (rOptDesc τ p desc).length + 30) true
      (.seq (.opt (.call R.Description)) (.seq (.call (kindKwRule k')) T)) .nonAtomic (At inp p) := fun T =>
    descKw_fails hτ (look_kindKw k') (kindKw_valid k') desc w' hw' hne T h ht
  cases k' with
  | scalar => exact (fails_rule look_ScalarTypeDefinition (by decide) (by decide) (f _)).mono (by omega)
  | object =>
    exact (fails_rule look_ObjectTypeDefinition (by decide) (by decide) (fails_choice_K (f _) (f _))).mono (by simp)
  | interface =>
    exact (fails_rule look_InterfaceTypeDefinition (by decide) (by decide) (fails_choice_K (f _) (f _))).mono (by simp)
  | union => exact (fails_rule look_UnionTypeDefinition (by decide) (by decide) (f _)).mono (by omega)
  | «enum» =>
    exact (fails_rule look_EnumTypeDefinition (by decide) (by decide) (fails_choice_K (f _) (f _))).mono (by simp)
  | input =>
    exact (fails_rule look_InputObjectTypeDefinition (by decide) (by decide) (fails_choice_K (f _) (f _))).mono (by simp)

theorem schemaDef_fails_kw {τ : Trivia} (hτ : ∀ q, Ws (τ q)) (desc : Option String) (w' : List Char)
    (hw' : validName w') (hne : w' ≠ kwSchema) {p : Nat} {sK : Bool} {bad : Char → Prop}
    (h : HasAt inp p (rOptDesc τ p desc ++ tk τ sK (p + (rOptDesc τ p desc).length) w'))
    (ht : Nxt inp bad sK (p + (rOptDesc τ p desc).length + (tk τ sK (p + (rOptDesc τ p desc).length) w').length)) :
    Fails gList (B (rOptDesc τ p desc).length + 40) true (.call R.SchemaDefinition) .nonAtomic (At inp p) := by
  obtain ⟨tl, hl⟩ := look_SchemaDefinition
  exact (fails_rule hl (by decide) (by decide)
    (descKw_fails hτ look_KEYWORD_schema kw_words_valid.2.1 desc w' hw' hne tl h ht)).mono (by omega)

/-- a type definition of kind `k`, wrapped into `TypeDefinition`, `TypeSystemDefinition`,
    `TypeSystemDefinitionOrExtension` -/
theorem typeDefWrapK {τ : Trivia} (hτ : ∀ q, Ws (τ q)) (k : TypeKind) (desc : Option String) {p : Nat} {n : Nat} {c' : Cur}
    {prK : Pair} (hrun : RunsK n (.call (kindDefRule k)) (At inp p) c' [prK])
    (h : HasAt inp p (rOptDesc τ p desc ++ tk τ true (p + (rOptDesc τ p desc).length) (kindKw k)))
    (ht : Tok (At inp (p + (rOptDesc τ p desc).length + (tk τ true (p + (rOptDesc τ p desc).length) (kindKw k)).length))) :
    ∃ e1 e2 e3, RunsK (max n (B (rOptDesc τ p desc).length + 40) + 20) (.call R.TypeSystemDefinitionOrExtension) (At inp p) c'
      [.mk R.TypeSystemDefinitionOrExtension p e3 [.mk R.TypeSystemDefinition p e2 [.mk R.TypeDefinition p e1 [prK]]]] := by
  have fk : ∀ k', k ≠ k' → Fails gList (B (rOptDesc τ p desc).length + 40) true (.call (kindDefRule k')) .nonAtomic (At inp p) :=
    fun k' hne => kindRule_fails hτ k' desc (kindKw k) (kindKw_valid k) (kindKw_ne hne.symm) h (nxt_sep ht)
  have fs := schemaDef_fails_kw hτ desc (kindKw k) (kindKw_valid k) (by cases k <;> decide) h (nxt_sep ht)
  have hTD : ∃ e1, RunsK (max n (B (rOptDesc τ p desc).length + 40) + 8) (.call R.TypeDefinition) (At inp p) c'
      [.mk R.TypeDefinition p e1 [prK]] := by
    have body : RunsK (max n (B (rOptDesc τ p desc).length + 40) + 6) (.choice (.call R.ScalarTypeDefinition)
        (.choice (.call R.ObjectTypeDefinition) (.choice (.call R.InterfaceTypeDefinition)
          (.choice (.call R.UnionTypeDefinition) (.choice (.call R.EnumTypeDefinition)
            (.call R.InputObjectTypeDefinition)))))) (At inp p) c' [prK] := by
      cases k with
      | scalar => exact (runsK_choice_l hrun).mono (by omega)
      | object =>
        exact (runsK_choice_r (fk .scalar (by decide)) (runsK_choice_l hrun)).mono (by barith)
      | interface =>
        exact (runsK_choice_r (fk .scalar (by decide)) (runsK_choice_r (fk .object (by decide))
          (runsK_choice_l hrun))).mono (by barith)
      | union =>
        exact (runsK_choice_r (fk .scalar (by decide)) (runsK_choice_r (fk .object (by decide))
          (runsK_choice_r (fk .interface (by decide)) (runsK_choice_l hrun)))).mono (by barith)
      | «enum» =>
        exact (runsK_choice_r (fk .scalar (by decide)) (runsK_choice_r (fk .object (by decide))
          (runsK_choice_r (fk .interface (by decide)) (runsK_choice_r (fk .union (by decide))
            (runsK_choice_l hrun))))).mono (by barith)
      | input =>
        exact (runsK_choice_r (fk .scalar (by decide)) (runsK_choice_r (fk .object (by decide))
          (runsK_choice_r (fk .interface (by decide)) (runsK_choice_r (fk .union (by decide))
            (runsK_choice_r (fk .enum (by decide)) hrun))))).mono (by barith)
    obtain ⟨e1, r⟩ := runsK_rule look_TypeDefinition (by decide) (by decide) body
    exact ⟨e1, r⟩
  obtain ⟨e1, rTD⟩ := hTD
  obtain ⟨e2, rTSD⟩ := runsK_rule look_TypeSystemDefinition (by decide) (by decide)
    (runsK_choice_r fs (runsK_choice_l (b := .call R.DirectiveDefinition) rTD))
  obtain ⟨e3, rI⟩ := runsK_rule look_TSDOE (by decide) (by decide)
    (runsK_choice_l (b := .call R.TypeSystemExtension) rTSD)
  exact ⟨e1, e2, e3, RunsK.cast (rI.mono (by barith)) rfl rfl (by simp [At])⟩

theorem buildItem_typeDef (ctx : Ctx) (fuel : Nat) (p e1 e2 e3 : Nat) (prK : Pair) (td : TypeDef)
    (h : buildTypeDefinition ctx fuel (.mk R.TypeDefinition p e1 [prK]) = .ok td) :
    buildTypeSystemDefinitionOrExtension ctx fuel (.mk R.TypeSystemDefinitionOrExtension p e3
      [.mk R.TypeSystemDefinition p e2 [.mk R.TypeDefinition p e1 [prK]]]) = .ok (.typeDef td) := by
  simp [buildTypeSystemDefinitionOrExtension, onlyChildOf, onlyChild, Pair.children, Pair.rule,
    OC_TypeSystemDefinitionOrExtension, OC_TypeSystemDefinition, h, bind, Except.bind, pure, Except.pure,
    R.TypeSystemDefinition, R.SchemaDefinition, R.TypeDefinition]

/-! ### at the end of the input every alternative fails -/

theorem tsItem_fails_eoi {p : Nat} (h : inp.drop p = []) :
    Fails gList 100 true (.call R.TypeSystemDefinitionOrExtension) .nonAtomic (At inp p) := by
  have hn : ∀ P : Char → Prop, HeadNot P (inp.drop p) := fun P => by rw [h]; exact headNot_nil P
  have htok : Tok (At inp p) := hn _
  have rD := runsK_opt_none (description_fails (hn _)) htok
  -- `Description? ~ KEYWORD_x ~ …`
  have fD : ∀ {r : RuleId} {x : Char} {xs : List Char} (T : Expr),
      gList.look r = some (.atomic, .seq (.str (x :: xs)) (.not (.call R.NameContinue))) →
      Fails gList 30 true (.seq (.opt (.call R.Description)) (.seq (.call r) T)) .nonAtomic (At inp p) := fun T hl =>
    (fails_seq_K rD (fails_seq_1 (kw_fails_head (la := .none) hl (hn _)))).mono (by simp)
  have fE : ∀ (T : Expr), Fails gList 30 true (.seq (.call R.KEYWORD_extend) T) .nonAtomic (At inp p) := fun T =>
    (fails_seq_1 (kw_fails_head (la := .none) look_KEYWORD_extend (hn _))).mono (by omega)
  have k1 : ∀ k, Fails gList 40 true (.call (kindDefRule k)) .nonAtomic (At inp p) := by
    intro k
    cases k with
    | scalar => exact (fails_rule look_ScalarTypeDefinition (by decide) (by decide) (fD _ (look_kindKw .scalar))).mono (by omega)
    | object =>
      exact (fails_rule look_ObjectTypeDefinition (by decide) (by decide)
        (fails_choice_K (fD _ (look_kindKw .object)) (fD _ (look_kindKw .object)))).mono (by simp)
    | interface =>
      exact (fails_rule look_InterfaceTypeDefinition (by decide) (by decide)
        (fails_choice_K (fD _ (look_kindKw .interface)) (fD _ (look_kindKw .interface)))).mono (by simp)
    | union => exact (fails_rule look_UnionTypeDefinition (by decide) (by decide) (fD _ (look_kindKw .union))).mono (by omega)
    | «enum» =>
      exact (fails_rule look_EnumTypeDefinition (by decide) (by decide)
        (fails_choice_K (fD _ (look_kindKw .enum)) (fD _ (look_kindKw .enum)))).mono (by simp)
    | input =>
      exact (fails_rule look_InputObjectTypeDefinition (by decide) (by decide)
        (fails_choice_K (fD _ (look_kindKw .input)) (fD _ (look_kindKw .input)))).mono (by simp)
  have fTD : Fails gList 50 true (.call R.TypeDefinition) .nonAtomic (At inp p) :=
    (fails_rule look_TypeDefinition (by decide) (by decide)
      (fails_choice_K (k1 .scalar) (fails_choice_K (k1 .object) (fails_choice_K (k1 .interface)
        (fails_choice_K (k1 .union) (fails_choice_K (k1 .enum) (k1 .input))))))).mono (by simp [kindDefRule])
  obtain ⟨tlS, hlS⟩ := look_SchemaDefinition
  obtain ⟨tlD, hlD⟩ := look_DirectiveDefinition
  have fSD := fails_rule hlS (by decide) (by decide) (fD tlS look_KEYWORD_schema)
  have fDD := fails_rule hlD (by decide) (by decide) (fD tlD look_KEYWORD_directive)
  have fTSD : Fails gList 60 true (.call R.TypeSystemDefinition) .nonAtomic (At inp p) :=
    (fails_rule look_TypeSystemDefinition (by decide) (by decide)
      (fails_choice_K fSD (fails_choice_K fTD fDD))).mono (by simp)
  -- extensions
  obtain ⟨a1, a2, hSE⟩ := look_SchemaExtension
  obtain ⟨b1, hScE⟩ := look_ScalarTypeExtension
  obtain ⟨c1, c2, c3, hOE⟩ := look_ObjectTypeExtension
  obtain ⟨d1, d2, d3, hIE⟩ := look_InterfaceTypeExtension
  obtain ⟨u1, u2, hUE⟩ := look_UnionTypeExtension
  obtain ⟨v1, v2, hEE⟩ := look_EnumTypeExtension
  obtain ⟨w1, w2, hNE⟩ := look_InputObjectTypeExtension
  have fSE := fails_rule hSE (by decide) (by decide) (fails_choice_K (fE a1) (fE a2))
  have fScE := fails_rule hScE (by decide) (by decide) (fE b1)
  have fOE := fails_rule hOE (by decide) (by decide) (fails_choice_K (fE c1) (fails_choice_K (fE c2) (fE c3)))
  have fIE := fails_rule hIE (by decide) (by decide) (fails_choice_K (fE d1) (fails_choice_K (fE d2) (fE d3)))
  have fUE := fails_rule hUE (by decide) (by decide) (fails_choice_K (fE u1) (fE u2))
  have fEE := fails_rule hEE (by decide) (by decide) (fails_choice_K (fE v1) (fE v2))
  have fNE := fails_rule hNE (by decide) (by decide) (fails_choice_K (fE w1) (fE w2))
  have fTE : Fails gList 50 true (.call R.TypeExtension) .nonAtomic (At inp p) :=
    (fails_rule look_TypeExtension (by decide) (by decide)
      (fails_choice_K fScE (fails_choice_K fOE (fails_choice_K fIE (fails_choice_K fUE (fails_choice_K fEE fNE)))))).mono
      (by simp)
  have fTSE : Fails gList 60 true (.call R.TypeSystemExtension) .nonAtomic (At inp p) :=
    (fails_rule look_TypeSystemExtension (by decide) (by decide) (fails_choice_K fSE fTE)).mono (by simp)
  exact (fails_rule look_TSDOE (by decide) (by decide) (fails_choice_K fTSD fTSE)).mono (by simp)

end NitroVerif.DocParse
