/-
A closed instance of `parse_no_panic` (helper lemmas for Props/C08): `build_type` cannot panic on ANY `Type` pair of ANY
parse tree of the generated grammar. Composition of `run_children_in_shape` (every pair has children in the shape of its
rule), `accepts_sound`, and the kernel-evaluated acceptance of the four `only_child` sites of builder/type.rs.
-/
import NitroVerif.Lemmas.ShapeInv
import NitroVerif.Model.Build
namespace NitroVerif.Shape
open NitroVerif.Peg NitroVerif.Gen NitroVerif.Gen.Parts NitroVerif.Build

/-- what `only_child` + dispatch accepts: exactly one child, of an allowed rule -/
theorem rule_mk (r : RuleId) (s e : Nat) (cs : List Pair) : (Pair.mk r s e cs).rule = r := rfl
theorem children_mk (r : RuleId) (s e : Nat) (cs : List Pair) : (Pair.mk r s e cs).children = cs := rfl

theorem onlyAuto_ok {allowed : List RuleId} {w : List RuleId} (h : (onlyAuto allowed).ok 0 w = true) :
    ∃ x, w = [x] ∧ (allowed = [] ∨ x ∈ allowed) := by
  cases w with
  | nil => simp [Auto.ok, Auto.run, onlyAuto] at h
  | cons x w =>
    by_cases hcnd : allowed = [] ∨ x ∈ allowed
    · cases w with
      | nil => exact ⟨x, rfl, hcnd⟩
      | cons y w => simp [Auto.ok, Auto.run, onlyAuto, hcnd] at h
    · simp [Auto.ok, Auto.run, onlyAuto, hcnd] at h

/-- a pair whose children are in a shape accepted by an `onlyChild` pattern has exactly one child, of an allowed rule -/
theorem only_child_of_shape {allowed : List RuleId} {e : Re} (hacc : accepts (.onlyChild allowed) e = true)
    {cs : List Pair} (hm : Mem e (cs.map Pair.rule)) :
    ∃ c, cs = [c] ∧ (allowed = [] ∨ c.rule ∈ allowed) := by
  have := acceptsA_sound _ _ e hacc _ hm
  obtain ⟨x, hx, ha⟩ := onlyAuto_ok this
  cases cs with
  | nil => simp at hx
  | cons c cs =>
    cases cs with
    | nil => simp only [List.map_cons, List.map_nil, List.cons.injEq, and_true] at hx; exact ⟨c, rfl, hx ▸ ha⟩
    | cons d cs => simp at hx

theorem acc_Type : accepts (.onlyChild OC_Type) (ruleShape gList R.«Type») = true := by decide +kernel
theorem acc_NonNullType : accepts (.onlyChild OC_NonNullType) (ruleShape gList R.NonNullType) = true := by decide +kernel
theorem acc_ListType : accepts (.onlyChild OC_ListType) (ruleShape gList R.ListType) = true := by decide +kernel
theorem acc_NamedType : accepts (.onlyChild OC_NamedType) (ruleShape gList R.NamedType) = true := by decide +kernel

/-- the builder returns a value, or the model's own depth bound was too small — never a Rust panic -/
def NoPanic {α} (r : M α) : Prop := (∃ v, r = .ok v) ∨ r = .error .fuel

theorem buildType_noPanic (ctx : Ctx) : ∀ fuel,
    (∀ p, DeepOk gList p → p.rule = R.«Type» → NoPanic (buildType ctx fuel p)) ∧
    (∀ p, DeepOk gList p → (p.rule = R.NonNullType ∨ p.rule = R.ListType ∨ p.rule = R.NamedType) →
      NoPanic (buildTypeOf ctx fuel p)) := by
  intro fuel
  induction fuel with
  | zero => exact ⟨fun _ _ _ => Or.inr (by simp [buildType]), fun _ _ _ => Or.inr (by simp [buildTypeOf])⟩
  | succ fuel ih =>
    constructor
    · intro p hd hr
      cases hd with
      | mk hm hcs =>
        rename_i r s e cs
        simp only [rule_mk] at hr
        subst hr
        obtain ⟨c, rfl, hc⟩ := only_child_of_shape acc_Type hm
        have hc' : c.rule = R.NonNullType ∨ c.rule = R.ListType ∨ c.rule = R.NamedType := by
          simpa [OC_Type] using hc
        have := ih.2 c (hcs c (List.mem_singleton.mpr rfl)) hc'
        simpa [buildType, onlyChild, children_mk, bind, Except.bind] using this
    · intro p hd hr
      cases hd with
      | mk hm hcs =>
        rename_i r s e cs
        simp only [rule_mk] at hr
        rcases hr with rfl | rfl | rfl
        · obtain ⟨c, rfl, hc⟩ := only_child_of_shape acc_NonNullType hm
          have hc' : c.rule = R.NamedType ∨ c.rule = R.ListType := by simpa [OC_NonNullType] using hc
          have hcr : c.rule = R.NonNullType ∨ c.rule = R.ListType ∨ c.rule = R.NamedType := by
            rcases hc' with h | h
            · exact Or.inr (Or.inr h)
            · exact Or.inr (Or.inl h)
          have := ih.2 c (hcs c (List.mem_singleton.mpr rfl)) hcr
          rcases this with ⟨v, hv⟩ | hv
          · exact Or.inl ⟨.nonNull v, by
              simp [buildTypeOf, rule_mk, children_mk, onlyChildOf, onlyChild, hc, hv, bind, Except.bind]⟩
          · exact Or.inr (by
              simp [buildTypeOf, rule_mk, children_mk, onlyChildOf, onlyChild, hc, hv, bind, Except.bind])
        · obtain ⟨c, rfl, hc⟩ := only_child_of_shape acc_ListType hm
          have hc' : c.rule = R.«Type» := by simpa [OC_ListType] using hc
          have := ih.1 c (hcs c (List.mem_singleton.mpr rfl)) hc'
          rcases this with ⟨v, hv⟩ | hv
          · exact Or.inl ⟨.list v (toPos ctx (.mk R.ListType s e [c])), by
              simp [buildTypeOf, rule_mk, children_mk, R.ListType, R.NonNullType, onlyChild, hv, bind, Except.bind]⟩
          · exact Or.inr (by
              simp [buildTypeOf, rule_mk, children_mk, R.ListType, R.NonNullType, onlyChild, hv, bind, Except.bind])
        · obtain ⟨c, rfl, hc⟩ := only_child_of_shape acc_NamedType hm
          exact Or.inl ⟨.named (asString ctx c) (toPos ctx c), by
            simp [buildTypeOf, rule_mk, children_mk, R.NamedType, R.ListType, R.NonNullType, onlyChildOf, onlyChild,
              OC_NamedType, bind, Except.bind]⟩

end NitroVerif.Shape

namespace NitroVerif.Shape
open NitroVerif.Peg NitroVerif.Gen NitroVerif.Build

theorem mem_flatList {q : Pair} : ∀ {ps : List Pair}, q ∈ flatList ps → ∃ c ∈ ps, q ∈ flat c := by
  intro ps
  induction ps with
  | nil => intro h; simp [flatList] at h
  | cons p ps ih =>
    intro h
    simp only [flatList, List.mem_append] at h
    rcases h with h | h
    · exact ⟨p, List.mem_cons_self .., h⟩
    · obtain ⟨c, hc, hq⟩ := ih h
      exact ⟨c, List.mem_cons_of_mem _ hc, hq⟩

/-- `Deep P` holds at every pair of the tree (`Pairs::flatten`) -/
theorem Deep.sub {P : RuleId → List RuleId → Prop} {p : Pair} (h : Deep P p) : ∀ q ∈ flat p, Deep P q := by
  induction h with
  | mk h1 hcs ih =>
    rename_i r s e cs
    intro q hq
    simp only [flat, List.mem_cons] at hq
    rcases hq with rfl | hq
    · exact .mk h1 hcs
    · obtain ⟨c, hc, hqc⟩ := mem_flatList hq
      exact ih c hc q hqc

end NitroVerif.Shape
