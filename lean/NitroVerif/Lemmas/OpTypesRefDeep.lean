/-
C01/C02 refinement, model side, part 1: `mapM`/`filterMapM` in `Except` as relations, and the structure of
`deep_merge_selection_tree` (`deepMergeGo`): the result has one field per name, in order of first appearance, and the
field of a name is the left fold of `merge_fields` over the fields of that name (`mergeAll`).
-/
import NitroVerif.Lemmas.OpTypes
namespace NitroVerif.OpTypes.Ref
open NitroVerif.Gql NitroVerif.OpTypes

inductive All2 {α β : Type} (R : α → β → Prop) : List α → List β → Prop where
  | nil : All2 R [] []
  | cons {a b as bs} : R a b → All2 R as bs → All2 R (a :: as) (b :: bs)

theorem All2.left {α β : Type} {R : α → β → Prop} : ∀ {l : List α} {r : List β}, All2 R l r →
    ∀ a ∈ l, ∃ b ∈ r, R a b
  | _, _, .nil, _, h => by cases h
  | _, _, .cons hr ht, a, h => by
    rcases List.mem_cons.1 h with rfl | h
    · exact ⟨_, by simp, hr⟩
    · obtain ⟨b, hb, hab⟩ := ht.left a h
      exact ⟨b, List.mem_cons_of_mem _ hb, hab⟩

theorem All2.right {α β : Type} {R : α → β → Prop} : ∀ {l : List α} {r : List β}, All2 R l r →
    ∀ b ∈ r, ∃ a ∈ l, R a b
  | _, _, .nil, _, h => by cases h
  | _, _, .cons hr ht, b, h => by
    rcases List.mem_cons.1 h with rfl | h
    · exact ⟨_, by simp, hr⟩
    · obtain ⟨a, ha, hab⟩ := ht.right b h
      exact ⟨a, List.mem_cons_of_mem _ ha, hab⟩

theorem mapM_all2 {α β ε : Type} {f : α → Except ε β} : ∀ (l : List α) (r : List β),
    l.mapM f = .ok r → All2 (fun a b => f a = .ok b) l r
  | [], r, h => by
    simp only [List.mapM_nil, pure, Except.pure] at h; cases h; exact .nil
  | a :: l, r, h => by
    simp only [List.mapM_cons, bind, Except.bind] at h
    cases hfa : f a with
    | error e => simp [hfa] at h
    | ok b =>
      simp only [hfa] at h
      cases hl : l.mapM f with
      | error e => simp [hl] at h
      | ok bs =>
        simp only [hl, pure, Except.pure] at h; cases h
        exact .cons hfa (mapM_all2 l bs hl)

theorem filterMapM_all2 {α β ε : Type} {f : α → Except ε (Option β)} : ∀ (l : List α) (r : List β),
    l.filterMapM f = .ok r → ∃ rs, All2 (fun a b => f a = .ok b) l rs ∧ r = rs.filterMap id
  | [], r, h => by
    simp only [List.filterMapM_nil, pure, Except.pure] at h; cases h; exact ⟨[], .nil, rfl⟩
  | a :: l, r, h => by
    simp only [List.filterMapM_cons, bind, Except.bind] at h
    cases hfa : f a with
    | error e => simp [hfa] at h
    | ok ob =>
      simp only [hfa] at h
      cases ob with
      | none =>
        simp only at h
        obtain ⟨rs, h1, h2⟩ := filterMapM_all2 l r h
        exact ⟨none :: rs, .cons hfa h1, by simp [h2]⟩
      | some b =>
        simp only at h
        cases hl : l.filterMapM f with
        | error e => simp [hl] at h
        | ok bs =>
          simp only [hl, pure, Except.pure] at h; cases h
          obtain ⟨rs, h1, h2⟩ := filterMapM_all2 l bs hl
          exact ⟨some b :: rs, .cons hfa h1, by simp [h2]⟩

/-! ### `merge_fields` folded over the fields of one name -/

def mergeAll (mt : SelTree → SelTree → Except Panic SelTree) : SField → List SField → Except Panic SField
  | g, [] => .ok g
  | g, f :: fs =>
    match mergeFieldsWith mt g f with
    | .ok r => mergeAll mt r fs
    | .error e => .error e

theorem mergeAll_snoc (mt : SelTree → SelTree → Except Panic SelTree) : ∀ (rest : List SField) (g f m r : SField),
    mergeAll mt g rest = .ok m → mergeFieldsWith mt m f = .ok r → mergeAll mt g (rest ++ [f]) = .ok r
  | [], g, f, m, r, h1, h2 => by
    simp only [mergeAll] at h1; cases h1
    simp [mergeAll, h2]
  | x :: rest, g, f, m, r, h1, h2 => by
    simp only [mergeAll, List.cons_append] at h1 ⊢
    cases hx : mergeFieldsWith mt g x with
    | error e => simp [hx] at h1
    | ok y =>
      simp only [hx] at h1 ⊢
      exact mergeAll_snoc mt rest y f m r h1 h2

def _root_.NitroVerif.OpTypes.SField.isEmpty : SField → Bool
  | .empty _ => true
  | _ => false

theorem mergeFields_cases {mt : SelTree → SelTree → Except Panic SelTree} {g f r : SField}
    (h : mergeFieldsWith mt g f = .ok r) :
    (r = g ∧ f.isEmpty = true) ∨ (r = f ∧ g.isEmpty = true) ∨
    (∃ n t b n' t' b', g = .leaf n t b ∧ f = .leaf n' t' b' ∧ r = g) ∨
    (∃ n l n' r' T, g = .object n l ∧ f = .object n' r' ∧ mt l r' = .ok T ∧ r = .object n T) := by
  cases g with
  | empty n =>
    cases f with
    | empty n' => simp only [mergeFieldsWith] at h; cases h; exact Or.inl ⟨rfl, rfl⟩
    | leaf n' t b => simp only [mergeFieldsWith] at h; cases h; exact Or.inr (Or.inl ⟨rfl, rfl⟩)
    | object n' r' => simp only [mergeFieldsWith] at h; cases h; exact Or.inr (Or.inl ⟨rfl, rfl⟩)
  | leaf n t b =>
    cases f with
    | empty n' => simp only [mergeFieldsWith] at h; cases h; exact Or.inl ⟨rfl, rfl⟩
    | leaf n' t' b' =>
      simp only [mergeFieldsWith] at h; cases h
      exact Or.inr (Or.inr (Or.inl ⟨n, t, b, n', t', b', rfl, rfl, rfl⟩))
    | object n' r' => simp [mergeFieldsWith] at h
  | object n l =>
    cases f with
    | empty n' => simp only [mergeFieldsWith] at h; cases h; exact Or.inl ⟨rfl, rfl⟩
    | leaf n' t' b' => simp [mergeFieldsWith] at h
    | object n' r' =>
      simp only [mergeFieldsWith, bind, Except.bind] at h
      cases hm : mt l r' with
      | error e => simp [hm] at h
      | ok T =>
        simp only [hm] at h; cases h
        exact Or.inr (Or.inr (Or.inr ⟨n, l, n', r', T, rfl, rfl, hm, rfl⟩))

theorem mergeFields_name {mt : SelTree → SelTree → Except Panic SelTree} {g f r : SField}
    (h : mergeFieldsWith mt g f = .ok r) (hn : g.name = f.name) : r.name = g.name := by
  rcases mergeFields_cases h with ⟨rfl, _⟩ | ⟨rfl, _⟩ | ⟨_, _, _, _, _, _, _, _, rfl⟩ | ⟨_, _, _, _, _, rfl, _, _, rfl⟩
  · rfl
  · exact hn.symm
  · rfl
  · rfl

theorem mergeFields_isEmpty {mt : SelTree → SelTree → Except Panic SelTree} {g f r : SField}
    (h : mergeFieldsWith mt g f = .ok r) : r.isEmpty = (g.isEmpty && f.isEmpty) := by
  rcases mergeFields_cases h with ⟨rfl, h1⟩ | ⟨rfl, h1⟩ | ⟨_, _, _, _, _, _, rfl, rfl, rfl⟩ | ⟨_, _, _, _, _, rfl, rfl, _, rfl⟩
  · simp [h1]
  · simp [h1]
  · rfl
  · rfl

/-- `mergeInto` on a list that has a field of the name: the first such field is replaced by the merge -/
theorem mergeInto_spec (mt : SelTree → SelTree → Except Panic SelTree) (f : SField) : ∀ (acc acc' : List SField),
    acc.any (·.name == f.name) = true → mergeInto mt f acc = .ok acc' →
    ∃ pre g post r, acc = pre ++ g :: post ∧ g.name = f.name ∧ mergeFieldsWith mt g f = .ok r ∧
      acc' = pre ++ r :: post
  | [], _, h, _ => by simp at h
  | g :: gs, acc', hany, h => by
    simp only [mergeInto] at h
    by_cases hg : (g.name == f.name) = true
    · simp only [hg, ↓reduceIte, bind, Except.bind] at h
      cases hm : mergeFieldsWith mt g f with
      | error e => simp [hm] at h
      | ok r =>
        simp only [hm] at h; cases h
        exact ⟨[], g, gs, r, rfl, by simpa using hg, hm, rfl⟩
    · have hg' : (g.name == f.name) = false := by simpa using hg
      simp only [hg', Bool.false_eq_true, ↓reduceIte, bind, Except.bind] at h
      simp only [List.any_cons, hg', Bool.false_or] at hany
      cases hr : mergeInto mt f gs with
      | error e => simp [hr] at h
      | ok gs' =>
        simp only [hr] at h; cases h
        obtain ⟨pre, g0, post, r, h1, h2, h3, h4⟩ := mergeInto_spec mt f gs gs' hany hr
        exact ⟨g :: pre, g0, post, r, by simp [h1], h2, h3, by simp [h4]⟩

/-- `A` is the deep merge of the fields `xs` -/
def Repr (mt : SelTree → SelTree → Except Panic SelTree) (A xs : List SField) : Prop :=
  (A.map SField.name).Nodup ∧
  (∀ m ∈ A, ∃ f0 rest, xs.filter (·.name == m.name) = f0 :: rest ∧ mergeAll mt f0 rest = .ok m) ∧
  (∀ x ∈ xs, ∃ m ∈ A, m.name = x.name)

theorem repr_new {mt : SelTree → SelTree → Except Panic SelTree} {A xs : List SField} {f : SField}
    (h : Repr mt A xs) (hnew : A.any (·.name == f.name) = false) : Repr mt (A ++ [f]) (xs ++ [f]) := by
  obtain ⟨hn, hm, hc⟩ := h
  have hnotin : ∀ m ∈ A, m.name ≠ f.name := by
    intro m hmA heq
    have : A.any (·.name == f.name) = true := List.any_eq_true.2 ⟨m, hmA, by simpa using heq⟩
    rw [hnew] at this; cases this
  refine ⟨?_, ?_, ?_⟩
  · simp only [List.map_append, List.map_cons, List.map_nil]
    rw [List.nodup_append]
    refine ⟨hn, by simp, ?_⟩
    intro a ha b hb
    simp only [List.mem_singleton] at hb; subst hb
    obtain ⟨m, hmA, rfl⟩ := List.mem_map.1 ha
    exact hnotin m hmA
  · intro m hmem
    rcases List.mem_append.1 hmem with hmA | hmf
    · obtain ⟨f0, rest, h1, h2⟩ := hm m hmA
      refine ⟨f0, rest, ?_, h2⟩
      have : (f.name == m.name) = false := by
        have := hnotin m hmA; simpa using fun h => this h.symm
      simp [List.filter_append, h1, List.filter_cons, this]
    · simp only [List.mem_singleton] at hmf; subst hmf
      have : xs.filter (·.name == m.name) = [] := by
        rw [List.filter_eq_nil_iff]
        intro x hx hxe
        obtain ⟨m', hm', hname⟩ := hc x hx
        exact hnotin m' hm' (by rw [hname]; simpa using hxe)
      exact ⟨m, [], by simp [List.filter_append, this, List.filter_cons], rfl⟩
  · intro x hx
    rcases List.mem_append.1 hx with hx | hx
    · obtain ⟨m, hmA, hname⟩ := hc x hx
      exact ⟨m, List.mem_append.2 (Or.inl hmA), hname⟩
    · simp only [List.mem_singleton] at hx; subst hx
      exact ⟨x, by simp, rfl⟩

theorem repr_merge {mt : SelTree → SelTree → Except Panic SelTree} {pre post xs : List SField} {g f r : SField}
    (h : Repr mt (pre ++ g :: post) xs) (hgf : g.name = f.name) (hmerge : mergeFieldsWith mt g f = .ok r) :
    Repr mt (pre ++ r :: post) (xs ++ [f]) := by
  obtain ⟨hn, hm, hc⟩ := h
  have hrn : r.name = g.name := mergeFields_name hmerge hgf
  have hnames : (pre ++ r :: post).map SField.name = (pre ++ g :: post).map SField.name := by
    simp [hrn]
  have hother : ∀ m, m ∈ pre ∨ m ∈ post → m.name ≠ g.name := by
    intro m hmem heq
    simp only [List.map_append, List.map_cons] at hn
    rw [List.nodup_append] at hn
    obtain ⟨_, h2, h3⟩ := hn
    rcases hmem with hmp | hmp
    · exact h3 _ (List.mem_map_of_mem hmp) g.name (by simp) heq
    · rw [List.nodup_cons] at h2
      exact h2.1 (heq ▸ List.mem_map_of_mem hmp)
  refine ⟨hnames ▸ hn, ?_, ?_⟩
  · intro m hmem
    rcases List.mem_append.1 hmem with hmp | hmp
    · obtain ⟨f0, rest, h1, h2⟩ := hm m (List.mem_append.2 (Or.inl hmp))
      refine ⟨f0, rest, ?_, h2⟩
      have : (f.name == m.name) = false := by
        have := hother m (Or.inl hmp); rw [hgf] at this; simpa using fun h => this h.symm
      simp [List.filter_append, h1, List.filter_cons, this]
    · rcases List.mem_cons.1 hmp with rfl | hmp
      · obtain ⟨f0, rest, h1, h2⟩ := hm g (by simp)
        refine ⟨f0, rest ++ [f], ?_, mergeAll_snoc mt rest f0 f g m h2 hmerge⟩
        have : (f.name == m.name) = true := by rw [hrn, hgf]; simp
        rw [hrn]
        rw [hgf] at h1
        simp [List.filter_append, h1, hgf]
      · obtain ⟨f0, rest, h1, h2⟩ := hm m (List.mem_append.2 (Or.inr (List.mem_cons_of_mem _ hmp)))
        refine ⟨f0, rest, ?_, h2⟩
        have : (f.name == m.name) = false := by
          have := hother m (Or.inr hmp); rw [hgf] at this; simpa using fun h => this h.symm
        simp [List.filter_append, h1, List.filter_cons, this]
  · intro x hx
    have hmemname : ∀ nm, (∃ m ∈ pre ++ g :: post, m.name = nm) → ∃ m ∈ pre ++ r :: post, m.name = nm := by
      rintro nm ⟨m, hmem, rfl⟩
      rcases List.mem_append.1 hmem with hmp | hmp
      · exact ⟨m, List.mem_append.2 (Or.inl hmp), rfl⟩
      · rcases List.mem_cons.1 hmp with rfl | hmp
        · exact ⟨r, by simp, hrn⟩
        · exact ⟨m, List.mem_append.2 (Or.inr (List.mem_cons_of_mem _ hmp)), rfl⟩
    rcases List.mem_append.1 hx with hx | hx
    · exact hmemname _ (hc x hx)
    · simp only [List.mem_singleton] at hx; subst hx
      exact ⟨r, by simp, by rw [hrn, hgf]⟩

theorem deepMergeGo_repr (mt : SelTree → SelTree → Except Panic SelTree) : ∀ (fs acc xs M : List SField),
    Repr mt acc xs → deepMergeGo mt fs acc = .ok M → Repr mt M (xs ++ fs)
  | [], acc, xs, M, h, hd => by
    simp only [deepMergeGo] at hd; cases hd; simpa using h
  | f :: fs, acc, xs, M, h, hd => by
    simp only [deepMergeGo] at hd
    by_cases hany : acc.any (·.name == f.name) = true
    · simp only [hany, ↓reduceIte, bind, Except.bind] at hd
      cases hmi : mergeInto mt f acc with
      | error e => simp [hmi] at hd
      | ok acc' =>
        simp only [hmi] at hd
        obtain ⟨pre, g, post, r, h1, h2, h3, h4⟩ := mergeInto_spec mt f acc acc' hany hmi
        subst h1; subst h4
        have := deepMergeGo_repr mt fs _ (xs ++ [f]) M (repr_merge h h2 h3) hd
        simpa using this
    · have hany' : acc.any (·.name == f.name) = false := by simpa using hany
      simp only [hany', Bool.false_eq_true, ↓reduceIte] at hd
      have := deepMergeGo_repr mt fs _ (xs ++ [f]) M (repr_new h hany') hd
      simpa using this

/-- **`deep_merge_selection_tree`**: distinct names; the field of each name is the fold of `merge_fields` over the
    input fields of that name, in input order; every input name is present. -/
theorem deepMerge_repr {mt : SelTree → SelTree → Except Panic SelTree} {fs M : List SField}
    (h : deepMergeWith mt fs = .ok M) : Repr mt M fs := by
  have := deepMergeGo_repr mt fs [] [] M ⟨by simp, by simp, by simp⟩ h
  simpa using this

end NitroVerif.OpTypes.Ref
