/-
Helper lemmas about the JSDoc text model (`Model/JsDoc.lean`): where the two characters `*/` can occur.
-/
import NitroVerif.Model.JsDoc
namespace NitroVerif.JsDoc

theorem startsSlash_escape (l : List Char) : startsSlash (escapeClose l) = startsSlash l := by
  cases l with
  | nil => rfl
  | cons c rest =>
    simp only [escapeClose]
    split
    · rename_i h
      simp only [Bool.and_eq_true, beq_iff_eq] at h
      simp [startsSlash, h.1]
    · simp [startsSlash]

theorem hasClose_escape (l : List Char) : hasClose (escapeClose l) = false := by
  induction l with
  | nil => rfl
  | cons c rest ih =>
    simp only [escapeClose]
    split
    · simp [hasClose, startsSlash, ih]
    · rename_i h
      simp only [hasClose, ih, startsSlash_escape, Bool.or_false]
      simpa using h

theorem hasClose_append {a b : List Char} (ha : hasClose a = false) (hb : hasClose b = false)
    (hs : startsSlash b = false) : hasClose (a ++ b) = false := by
  induction a with
  | nil => simpa using hb
  | cons c r ih =>
    simp only [hasClose, Bool.or_eq_false_iff] at ha
    have h1 := ih ha.2
    have h2 : startsSlash (r ++ b) = startsSlash r ∨ (r = [] ∧ startsSlash (r ++ b) = false) := by
      cases r with
      | nil => right; exact ⟨rfl, by simpa using hs⟩
      | cons d r' => left; rfl
    simp only [List.cons_append, hasClose, h1, Bool.or_false]
    rcases h2 with h2 | ⟨hr, h2⟩
    · rw [h2]; exact ha.1
    · rw [h2]; simp

/-- one written comment line: " * " line "\n" -/
def piece (l : List Char) : List Char := [' ', '*', ' '] ++ l ++ ['\n']

theorem hasClose_piece {l : List Char} (h : hasClose l = false) : hasClose (piece l) = false := by
  have h1 : hasClose (l ++ ['\n']) = false := hasClose_append h (by decide) (by decide)
  have e : piece l = ' ' :: '*' :: ' ' :: (l ++ ['\n']) := by simp [piece]
  rw [e]
  simp [hasClose, startsSlash, h1]

theorem startsSlash_piece_append (l r : List Char) : startsSlash (piece l ++ r) = false := by
  simp [piece, startsSlash]

theorem hasClose_pieces (ls : List (List Char)) (tail : List Char)
    (hl : ∀ l ∈ ls, hasClose l = false) (ht : hasClose tail = false) (hs : startsSlash tail = false) :
    hasClose (ls.flatMap piece ++ tail) = false := by
  induction ls with
  | nil => simpa using ht
  | cons l r ih =>
    have hr := ih (fun x hx => hl x (List.mem_cons_of_mem _ hx))
    simp only [List.flatMap_cons, List.append_assoc]
    apply hasClose_append (hasClose_piece (hl l List.mem_cons_self)) hr
    cases r with
    | nil => simpa using hs
    | cons l' r' => simp only [List.flatMap_cons, List.append_assoc]; exact startsSlash_piece_append _ _

end NitroVerif.JsDoc
