import NitroVerif.Lemmas.GqlPrintOwnBase
import NitroVerif.Lemmas.ParseDocType
/-!
C16 over nitrogql's own parser: C07's renderings are FLAT — every rendering function of `Lemmas/ParseDoc*.lean` is
`rToks τ p (c… sep x)` for an explicit list `c… sep x` of (token text, "gap after it is made non-empty") pairs.
This file: types, values, arguments, directives, generic item lists and bracketed lists.
-/
namespace NitroVerif.C16Own
open NitroVerif.Gql NitroVerif.ValueParse NitroVerif.DocParse NitroVerif.TypeParse NitroVerif.StringParse

/-- close `A ++ (B ++ … F off) = A ++ (B ++ … F off')` where the offsets agree by linear arithmetic -/
macro "off_congr" : tactic =>
  `(tactic| simp only [Nat.add_assoc, Nat.add_comm, Nat.add_left_comm, Nat.zero_add, Nat.add_zero])

/-! ### types -/

def cType : Bool → GType → List (List Char × Bool)
  | sep, .named n _ => [(n.toList, sep)]
  | sep, .list t _ => (['['], false) :: (cType false t ++ [([']'], sep)])
  | sep, .nonNull t => cType false t ++ [(['!'], sep)]

theorem flat_type (τ : Trivia) : ∀ (t : GType) (sep : Bool) (p : Nat), rType τ sep p t = rToks τ p (cType sep t) := by
  intro t
  induction t with
  | named n pos => intro sep p; simp [rType, cType, rToks]
  | list t pos ih =>
    intro sep p
    simp only [rType, cType, rToks_cons, rToks_append, rToks_nil, List.append_nil, ih]
  | nonNull t ih =>
    intro sep p
    simp only [rType, cType, rToks_cons, rToks_append, rToks_nil, List.append_nil, ih]

/-! ### values -/

mutual
def cValue : Bool → Value → List (List Char × Bool)
  | sep, .var n _ => [('$' :: n.toList, sep)]
  | sep, .int s _ => [(s.toList, sep)]
  | sep, .float s _ => [(s.toList, sep)]
  | sep, .str s _ => [(quoted s.toList, sep)]
  | sep, .bool b _ => [(if b then kwTrue else kwFalse, sep)]
  | sep, .null _ => [(kwNull, sep)]
  | sep, .enum n _ => [(n.toList, sep)]
  | sep, .list vs _ => (['['], false) :: (cItems vs ++ [([']'], sep)])
  | sep, .obj fs _ => (['{'], false) :: (cFields fs ++ [(['}'], sep)])
/-- the gap after an item is made non-empty iff another item follows -/
def cItems : List Value → List (List Char × Bool)
  | [] => []
  | v :: vs => cValue (!vs.isEmpty) v ++ cItems vs
def cFields : List (Name × Pos × Value) → List (List Char × Bool)
  | [] => []
  | (k, _, v) :: fs => (k.toList, false) :: ([':'], false) :: (cValue (!fs.isEmpty) v ++ cFields fs)
end

theorem tk_eq (τ : Trivia) (sep : Bool) (p : Nat) (s : List Char) : tk τ sep p s = s ++ gapS sep (τ (p + s.length)) := rfl

theorem gapOf_true (t : List Char) : gapOf true t = t := rfl
theorem gapOf_false (t : List Char) : gapOf false t = gapS true t := rfl
theorem gapS_false (t : List Char) : gapS false t = t := rfl

/-- items after the token that ends at `q`: the gap in front of the first one belongs to that token -/
def ItemsFlat (τ : Trivia) (vs : List Value) : Prop := ∀ (q : Nat) (first : Bool), vs ≠ [] →
  itemsBody τ q first vs ++ τ (q + (itemsBody τ q first vs).length) =
    gapOf first (τ q) ++ rToks τ (q + (gapOf first (τ q)).length) (cItems vs)

def FieldsFlat (τ : Trivia) (fs : List (Name × Pos × Value)) : Prop := ∀ (q : Nat) (first : Bool), fs ≠ [] →
  fieldsBody τ q first fs ++ τ (q + (fieldsBody τ q first fs).length) =
    gapOf first (τ q) ++ rToks τ (q + (gapOf first (τ q)).length) (cFields fs)

/-- a bracketed body, from its flat form -/
theorem bracket_flat (τ : Trivia) (o c : Char) (sep : Bool) (p : Nat) (body : List Char) (cs : List (List Char × Bool))
    (h : body ++ τ (p + 1 + body.length) = τ (p + 1) ++ rToks τ (p + 1 + (τ (p + 1)).length) cs) :
    tk τ sep p (o :: (body ++ (τ (p + 1 + body.length) ++ [c]))) = rToks τ p (([o], false) :: (cs ++ [([c], sep)])) := by
  have hlen : body.length + (τ (p + 1 + body.length)).length =
      (τ (p + 1)).length + (rToks τ (p + 1 + (τ (p + 1)).length) cs).length := by
    have := congrArg List.length h
    simpa using this
  have e3 : o :: (body ++ (τ (p + 1 + body.length) ++ [c])) = [o] ++ ((body ++ τ (p + 1 + body.length)) ++ [c]) := by simp
  rw [e3, h]
  simp only [rToks_cons, rToks_append, rToks_nil, tk_eq, gapS_false, List.length_cons, List.length_nil,
    List.length_append, List.append_assoc, List.append_nil, Nat.zero_add, List.cons_append, List.nil_append]
  off_congr

mutual
theorem flat_value (τ : Trivia) : (v : Value) → ∀ (sep : Bool) (p : Nat),
    tk τ sep p (renderV τ p v) = rToks τ p (cValue sep v)
  | .var n _ => fun sep p => by simp [renderV, cValue, rToks]
  | .int s _ => fun sep p => by simp [renderV, cValue, rToks]
  | .float s _ => fun sep p => by simp [renderV, cValue, rToks]
  | .str s _ => fun sep p => by simp [renderV, cValue, rToks]
  | .bool b _ => fun sep p => by simp [renderV, cValue, rToks]
  | .null _ => fun sep p => by simp [renderV, cValue, rToks]
  | .enum n _ => fun sep p => by simp [renderV, cValue, rToks]
  | .list vs _ => fun sep p => by
    simp only [renderV, cValue]
    apply bracket_flat
    cases vs with
    | nil => simp [itemsBody, cItems, rToks]
    | cons v vs' => exact flat_items τ (v :: vs') (p + 1) true (by simp)
  | .obj fs _ => fun sep p => by
    simp only [renderV, cValue]
    apply bracket_flat
    cases fs with
    | nil => simp [fieldsBody, cFields, rToks]
    | cons f fs' => exact flat_fields τ (f :: fs') (p + 1) true (by simp)
theorem flat_items (τ : Trivia) : (vs : List Value) → ItemsFlat τ vs
  | [] => fun _ _ h => absurd rfl h
  | v :: vs => fun q first _ => by
    rw [itemsBody_cons]
    have hv := flat_value τ v
    generalize gapOf first (τ q) = g
    generalize hq1 : q + g.length = q1
    cases vs with
    | nil =>
      have hv1 := hv false q1
      generalize renderV τ q1 v = rv at *
      simp only [cItems, List.isEmpty_nil, Bool.not_true, List.append_nil, itemsBody]
      rw [← hv1, tk_eq, gapS_false]
      subst hq1
      simp only [List.append_assoc, List.length_append]
      off_congr
    | cons v' vs' =>
      have ih := flat_items τ (v' :: vs') (q1 + (renderV τ q1 v).length) false (by simp)
      have hv1 := hv true q1
      generalize renderV τ q1 v = rv at *
      generalize itemsBody τ (q1 + rv.length) false (v' :: vs') = ib at ih ⊢
      have e : q + (g ++ (rv ++ ib)).length = q1 + rv.length + ib.length := by
        simp only [List.length_append]; omega
      rw [e, show (g ++ (rv ++ ib)) ++ τ (q1 + rv.length + ib.length) = g ++ (rv ++ (ib ++ τ (q1 + rv.length + ib.length))) by
        simp, ih]
      rw [show cItems (v :: v' :: vs') = cValue true v ++ cItems (v' :: vs') by simp [cItems]]
      rw [rToks_append, ← hv1, tk_eq, gapOf_false]
      subst hq1
      simp only [List.append_assoc, List.length_append]
      off_congr
theorem flat_fields (τ : Trivia) : (fs : List (Name × Pos × Value)) → FieldsFlat τ fs
  | [] => fun _ _ h => absurd rfl h
  | (k, pos, v) :: fs => fun q first _ => by
    rw [fieldsBody_cons]
    have hv := flat_value τ v
    simp only [fQ3, fQ2, fQ1, fQ0]
    generalize gapOf first (τ q) = g
    generalize hq1 : q + g.length = q1
    generalize hq2 : q1 + k.toList.length = q2
    generalize hq3 : q2 + (τ q2).length + 1 = q3
    generalize hq4 : q3 + (τ q3).length = q4
    cases fs with
    | nil =>
      have hv1 := hv false q4
      generalize renderV τ q4 v = rv at *
      rw [show cFields [(k, pos, v)] = (k.toList, false) :: ([':'], false) :: cValue false v by simp [cFields]]
      simp only [fieldsBody, List.append_nil]
      have e : q + (g ++ (k.toList ++ (τ q2 ++ ':' :: (τ q3 ++ rv)))).length = q4 + rv.length := by
        simp only [List.length_append, List.length_cons]; omega
      rw [e, show (g ++ (k.toList ++ (τ q2 ++ ':' :: (τ q3 ++ rv)))) ++ τ (q4 + rv.length) =
        g ++ (k.toList ++ (τ q2 ++ ':' :: (τ q3 ++ tk τ false q4 rv))) by simp [tk_eq, gapS_false], hv1]
      subst hq4 hq3 hq2 hq1
      simp only [rToks_cons, tk_eq, gapS_false, List.append_assoc, List.length_append, List.length_cons, List.length_nil,
        List.cons_append, List.nil_append, Nat.zero_add]
      off_congr
    | cons f' fs' =>
      have ih := flat_fields τ (f' :: fs') (q4 + (renderV τ q4 v).length) false (by simp)
      have hv1 := hv true q4
      generalize renderV τ q4 v = rv at *
      generalize fieldsBody τ (q4 + rv.length) false (f' :: fs') = fb at ih ⊢
      have e : q + (g ++ (k.toList ++ (τ q2 ++ ':' :: (τ q3 ++ (rv ++ fb))))).length = q4 + rv.length + fb.length := by
        simp only [List.length_append, List.length_cons]; omega
      rw [e, show (g ++ (k.toList ++ (τ q2 ++ ':' :: (τ q3 ++ (rv ++ fb))))) ++ τ (q4 + rv.length + fb.length) =
        g ++ (k.toList ++ (τ q2 ++ ':' :: (τ q3 ++ (rv ++ (fb ++ τ (q4 + rv.length + fb.length)))))) by simp, ih]
      rw [show cFields ((k, pos, v) :: f' :: fs') =
        (k.toList, false) :: ([':'], false) :: (cValue true v ++ cFields (f' :: fs')) by simp [cFields]]
      rw [rToks_cons, rToks_cons, rToks_append, gapOf_false]
      have hv2 : rv ++ gapS true (τ (q4 + rv.length)) = tk τ true q4 rv := rfl
      rw [show rv ++ (gapS true (τ (q4 + rv.length)) ++ rToks τ (q4 + rv.length + (gapS true (τ (q4 + rv.length))).length)
          (cFields (f' :: fs'))) = tk τ true q4 rv ++ rToks τ (q4 + (tk τ true q4 rv).length) (cFields (f' :: fs')) by
        simp [tk_eq, Nat.add_assoc], hv1]
      have t1 : tk τ false q1 k.toList = k.toList ++ τ q2 := by rw [tk_eq, gapS_false, hq2]
      have l1 : q1 + (k.toList ++ τ q2).length + 1 = q3 := by simp only [List.length_append]; omega
      have t2 : tk τ false (q1 + (k.toList ++ τ q2).length) [':'] = ':' :: τ q3 := by
        rw [tk_eq, gapS_false]
        simp only [List.length_cons, List.length_nil, Nat.zero_add]
        rw [l1]; rfl
      have l2 : q1 + (k.toList ++ τ q2).length + (':' :: τ q3).length = q4 := by
        simp only [List.length_append, List.length_cons]; omega
      rw [t1, t2, l2]
      simp only [List.append_assoc, List.cons_append]
end

/-! ### arguments, directives -/

def cArgs (sep : Bool) (args : List Arg) : List (List Char × Bool) := (['('], false) :: (cFields args ++ [([')'], sep)])

theorem flat_args (τ : Trivia) (sep : Bool) (p : Nat) (args : List Arg) :
    tk τ sep p (renderArgs τ p args) = rToks τ p (cArgs sep args) := by
  simp only [renderArgs, cArgs]
  apply bracket_flat
  cases args with
  | nil => simp [fieldsBody, cFields, rToks]
  | cons f fs' => exact flat_fields τ (f :: fs') (p + 1) true (by simp)

def cDir (sep : Bool) (d : Directive) : List (List Char × Bool) :=
  (['@'], false) :: (match d.args with
    | [] => [(d.name.toList, sep)]
    | a :: as => (d.name.toList, false) :: cArgs sep (a :: as))

theorem flat_dir (τ : Trivia) (sep : Bool) (p : Nat) (d : Directive) : rDir τ sep p d = rToks τ p (cDir sep d) := by
  rw [rDir_eq]
  unfold cDir
  cases hd : d.args with
  | nil =>
    simp only [rToks_cons, rToks_nil, List.append_nil, tk_eq, gapS_false, List.length_append, List.length_cons,
      List.length_nil, Nat.zero_add]
    off_congr
  | cons a as =>
    simp only [rToks_cons, dQ]
    rw [flat_args]
    simp only [tk_eq, gapS_false, List.length_append, List.length_cons, List.length_nil, Nat.zero_add, List.append_assoc]
    off_congr

/-! ### lists of items -/

section Items
variable {α : Type} (ci : Bool → α → List (List Char × Bool)) (sepMid sepLast : Bool)

/-- the flat form of `renderItems` -/
def cList : List α → List (List Char × Bool)
  | [] => []
  | a :: r => ci (if r.isEmpty then sepLast else sepMid) a ++ cList r

theorem flat_list (τ : Trivia) (ri : Bool → Nat → α → List Char) (h : ∀ s q a, ri s q a = rToks τ q (ci s a)) :
    ∀ (xs : List α) (p : Nat), renderItems ri sepMid sepLast p xs = rToks τ p (cList ci sepMid sepLast xs) := by
  intro xs
  induction xs with
  | nil => intro p; rfl
  | cons a r ih =>
    intro p
    cases r with
    | nil => simp [renderItems, cList, h]
    | cons b r' =>
      rw [renderItems_cons2, ih, h]
      simp only [cList, List.isEmpty_cons, Bool.false_eq_true, if_false, rToks_append]

/-- … when only the members of the list are known to be flat -/
theorem flat_list_mem (τ : Trivia) (ri : Bool → Nat → α → List Char) :
    ∀ (xs : List α) (_ : ∀ a ∈ xs, ∀ s q, ri s q a = rToks τ q (ci s a)) (p : Nat),
      renderItems ri sepMid sepLast p xs = rToks τ p (cList ci sepMid sepLast xs) := by
  intro xs
  induction xs with
  | nil => intro _ p; rfl
  | cons a r ih =>
    intro h p
    cases r with
    | nil => simp [renderItems, cList, h a (by simp)]
    | cons b r' =>
      rw [renderItems_cons2, ih (fun x hx => h x (by simp [hx])), h a (by simp)]
      simp only [cList, List.isEmpty_cons, Bool.false_eq_true, if_false, rToks_append]

end Items

def cDirs (sep : Bool) (ds : List Directive) : List (List Char × Bool) := cList cDir false sep ds

theorem flat_dirs (τ : Trivia) (sep : Bool) (p : Nat) (ds : List Directive) : rDirs τ sep p ds = rToks τ p (cDirs sep ds) :=
  flat_list cDir false sep τ (rDir τ) (fun s q d => flat_dir τ s q d) ds p

end NitroVerif.C16Own
