/-
The model of `crates/checker/src/common.rs` + `operation_checker/*` as it was BEFORE fix e3584a3 (verbatim copy of
`Model/CheckCommon.lean` and `Model/CheckOp.lean` at /verif commit fc21a0d, namespaces renamed to
`NitroVerif.PreE3584a3.*`): the `"Int"` arm of `scalarAccepts` is `matches!(value, IntValue(_) | NullValue(_))` — every
integer literal is accepted where `Int` is expected. Used ONLY by the kernel-evaluated pre-repair witness
`C03_int_range_prerepair_witness` (Props/C03.lean); no K comparison runs against it (the code it models is gone).
Core Lean only; structurally recursive (kernel-evaluable).
-/
import NitroVerif.Gql.Schema
import NitroVerif.Gen.ErrKinds
namespace NitroVerif.PreE3584a3.CheckCommon
open NitroVerif.Gql

abbrev Diag := ErrKind × Pos

/-- `Type::position()` of the AST: a named type's name, a list type's "[", a non-null type's inner position -/
def typePos : GType → Pos
  | .named _ p => p
  | .list _ p => p
  | .nonNull t => typePos t

/-- strip the outer non-null markers (`check_value` recurses through `Type::NonNull`) -/
def stripNonNull : GType → GType
  | .nonNull t => stripNonNull t
  | t => t

/-- `check_type_compatibility(value_type, expected_type)` (arguments in the code's order) -/
def typeCompat : GType → GType → Bool
  | .nonNull v, .nonNull e => typeCompat v e
  | .nonNull v, e => typeCompat v e
  | .named _ _, .nonNull _ => false
  | .list _ _, .nonNull _ => false
  | .list v _, .list e _ => typeCompat v e
  | .named _ _, .list _ _ => false
  | .list _ _, .named _ _ => false
  | .named v _, .named e _ => e == v

/-- `get_variable_definition` -/
def varDef? (vars : List VarDef) (n : Name) : Option VarDef := vars.find? (·.name == n)

def Value.isNull : Value → Bool
  | .null _ => true
  | _ => false

/-- the built-in scalar names `is_value_compatible_type_def` singles out -/
def isBuiltinScalarName (n : Name) : Bool :=
  n == "Boolean" || n == "Int" || n == "Float" || n == "String" || n == "ID"

/-- `is_value_compatible_type_def` for a scalar definition -/
def scalarAccepts (n : Name) (v : Value) : Bool :=
  if n == "Boolean" then (match v with | .bool .. => true | .null _ => true | _ => false)
  else if n == "Int" then (match v with | .int .. => true | .null _ => true | _ => false)
  else if n == "Float" then (match v with | .float .. => true | .int .. => true | .null _ => true | _ => false)
  else if n == "String" then (match v with | .str .. => true | .null _ => true | _ => false)
  else if n == "ID" then (match v with | .str .. => true | .int .. => true | .null _ => true | _ => false)
  else true

/-- `is_value_compatible_type_def` for every case that does not recurse (everything except an object
    literal against an input-object type): pushed diagnostics and the `is_compatible` flag -/
def leafCompat (v : Value) (td : TypeDef) : List Diag × Bool :=
  match td.kind with
  | .scalar => ([], scalarAccepts td.name v)
  | .object | .interface | .union => ([], false)
  | .enum =>
    match v with
    | .null _ => ([], true)
    | .enum m p => (if td.values.all (·.name != m) then [(ErrKind.UnknownEnumMember, p)] else [], true)
    | _ => ([], false)
  | .input =>
    match v with
    | .null _ => ([], true)
    | _ => ([], false)

/-- result of `check_value` on a value that is not a variable, a list or an object literal, or on any value
    against a named type where no recursion is needed -/
def namedLeaf (S : Schema) (v : Value) (n : Name) (np : Pos) : List Diag :=
  match S.typeDef? n with
  | none => [(ErrKind.TypeSystemError, np)]
  | some td =>
    let r := leafCompat v td
    r.1 ++ (if r.2 then [] else [(ErrKind.TypeMismatch, v.pos)])

def hasNonNullDefault (d : VarDef) : Bool :=
  match d.default with
  | some v => !Value.isNull v
  | none => false

/-- the variable case of `check_value_at` (spec `IsVariableUsageAllowed`): `ld` = the location (argument or
    input field) has a default value -/
def varCheck (vars : Option (List VarDef)) (n : Name) (p : Pos) (t : GType) (ld : Bool) : List Diag :=
  match varDef? (vars.getD []) n with
  | none => [(ErrKind.UnknownVariable, p)]
  | some d =>
    let ok := match t with
      | .nonNull inner =>
        if !d.ty.isNonNull then (hasNonNullDefault d || ld) && typeCompat d.ty inner else typeCompat d.ty t
      | _ => typeCompat d.ty t
    if ok then [] else [(ErrKind.TypeMismatch, p)]

/-- the named type under all list and non-null markers, with the position of its name -/
def baseNamed : GType → Name × Pos
  | .named n p => (n, p)
  | .list t _ => baseNamed t
  | .nonNull t => baseNamed t

/-- per expected input field: diagnostics of the nested `check_value`, whether the field keeps `res` true,
    whether it was counted in `seen_fields` -/
structure FieldOutcome where
  diags : List Diag
  ok : Bool
  seen : Bool

/-- one iteration of the input-object loop of `is_value_compatible_type_def`; `r` = the nested check of the
    value field with the expected field's name, if the literal has one -/
def fieldOutcome (r : Option (List Diag)) (f : InputValueDef) : FieldOutcome :=
  match r with
  | some ds => FieldOutcome.mk ds true true
  | none =>
    if f.ty.isNonNull && f.default.isNone then FieldOutcome.mk [] false false
    else FieldOutcome.mk [] true false

/-- the result of the input-object case: nested diagnostics, then `TypeMismatch` unless every expected field is
    fine and `seen_fields` accounts for every field of the literal (`nFields`) -/
def objResult (outcomes : List FieldOutcome) (nFields : Nat) (p : Pos) : List Diag :=
  let seen := (outcomes.filter (·.seen)).length
  let res := outcomes.all (·.ok) && !(seen < nFields)
  outcomes.flatMap (·.diags) ++ (if res then [] else [(ErrKind.TypeMismatch, p)])

mutual
/-- `check_value_at(definitions, variables, value, expected_type, location_has_default, result)`.
    A value that is neither a variable, `null` nor a list is, through the `Type::NonNull` and `Type::List`
    arms (a single value is accepted for a list type and checked against the item type), finally checked
    against the innermost named type `baseNamed t`. -/
def checkValue (S : Schema) (vars : Option (List VarDef)) : Value → GType → Bool → List Diag
  | .var n p, t, ld => varCheck vars n p t ld
  | .list vs p, t, _ =>
    match stripNonNull t with
    | .list inner _ => checkValueList S vars vs inner
    | .named n np => namedLeaf S (.list vs p) n np
    | .nonNull _ => []
  | .obj fs p, t, _ =>
    match S.typeDef? (baseNamed t).1 with
    | none => [(ErrKind.TypeSystemError, (baseNamed t).2)]
    | some td =>
      if td.kind == .input then
        objResult (td.inputs.map fun f => fieldOutcome (lookupField S vars fs f.name f.ty f.default.isSome) f)
          fs.length p
      else
        let r := leafCompat (.obj fs p) td
        r.1 ++ (if r.2 then [] else [(ErrKind.TypeMismatch, p)])
  | v, t, _ =>
    if Value.isNull v then
      (if t.isNonNull then [(ErrKind.TypeMismatch, v.pos)]
       else match stripNonNull t with
         | .list _ _ => []
         | .named n np => namedLeaf S v n np
         | .nonNull _ => [])
    else namedLeaf S v (baseNamed t).1 (baseNamed t).2
/-- the loop over the elements of a list literal -/
def checkValueList (S : Schema) (vars : Option (List VarDef)) : List Value → GType → List Diag
  | [], _ => []
  | v :: vs, t => checkValue S vars v t false ++ checkValueList S vars vs t
/-- `value.fields.iter().find(|(key, _)| expected_field.name == key.name)` followed by the nested `check_value_at` -/
def lookupField (S : Schema) (vars : Option (List VarDef)) : List (Name × Pos × Value) → Name → GType → Bool → Option (List Diag)
  | [], _, _, _ => none
  | (k, _, v) :: rest, n, t, ld => if n == k then some (checkValue S vars v t ld) else lookupField S vars rest n t ld
end

/-- the uniqueness loop of `check_arguments`: an argument whose name already occurred among the earlier ones -/
def dupArgsAux : List Name → List Arg → List Diag
  | _, [] => []
  | seen, a :: as =>
    (if seen.contains a.1 then [(ErrKind.DuplicatedName, a.2.1)] else []) ++ dupArgsAux (seen ++ [a.1]) as

/-- the per-definition loop of `check_arguments`: for each argument definition the diagnostics it produces and
    whether it was counted in `seen_args` -/
def argOutcomes (S : Schema) (vars : Option (List VarDef)) (parentPos : Pos) (args : List Arg)
    (defs : List InputValueDef) : List (List Diag × Bool) :=
  defs.map fun d =>
    match args.find? (fun a => d.name == a.1) with
    | none =>
      if !d.ty.isNonNull || d.default.isSome then ([], false)
      else ([(ErrKind.RequiredArgumentNotSpecified, parentPos)], false)
    | some a => (checkValue S vars a.2.2 d.ty d.default.isSome, true)

/-- `check_arguments(definitions, variables, parent_pos, …, arguments, arguments_definition, result)`;
    `args = []` is the code's `None` (the grammar has no empty argument list) -/
def checkArguments (S : Schema) (vars : Option (List VarDef)) (parentPos : Pos) (args : List Arg)
    (defs : List InputValueDef) : List Diag :=
  if defs.isEmpty then
    (if args.isEmpty then [] else [(ErrKind.ArgumentsNotNeeded, parentPos)])
  else
    let perDef := argOutcomes S vars parentPos args defs
    let seen := (perDef.filter (·.2)).length
    dupArgsAux [] args ++ perDef.flatMap (·.1) ++
      (if seen < args.length then
        (args.filter fun a => defs.all (fun d => d.name != a.1)).map fun a => (ErrKind.UnknownArgument, a.2.1)
       else [])

/-- the loop of `check_directives` with its `seen_directives` accumulator -/
def checkDirectivesAux (S : Schema) (vars : Option (List VarDef)) (loc : String) : List Name → List Directive → List Diag
  | _, [] => []
  | seen, d :: ds =>
    match S.directiveDef? d.name with
    | none => (ErrKind.UnknownDirective, d.namePos) :: checkDirectivesAux S vars loc seen ds
    | some dd =>
      (if dd.locations.all (· != loc) then [(ErrKind.DirectiveLocationNotAllowed, d.pos)] else []) ++
      (if seen.contains d.name then (if dd.repeatable then [] else [(ErrKind.RepeatedDirective, d.pos)]) else []) ++
      checkArguments S vars d.pos d.args dd.args ++
      checkDirectivesAux S vars loc (if seen.contains d.name then seen else seen ++ [d.name]) ds

/-- `check_directives(definitions, variables, directives, current_position, result)` -/
def checkDirectives (S : Schema) (vars : Option (List VarDef)) (dirs : List Directive) (loc : String) : List Diag :=
  checkDirectivesAux S vars loc [] dirs

/-- `inout_kind_of_type(..).map(is_input_type)`: `none` = unknown type -/
def isInputType? (S : Schema) (n : Name) : Option Bool :=
  (S.kindOf? n).map Schema.isInputKind

end NitroVerif.PreE3584a3.CheckCommon

namespace NitroVerif.PreE3584a3.CheckOp
open NitroVerif.Gql NitroVerif.PreE3584a3.CheckCommon

/-- the `__typename` meta field of `direct_fields_of_output_type` -/
def typenameField : FieldDef := { name := "__typename", ty := .nonNull (.named "String" { builtin := true }) }

/-- `direct_fields_of_output_type`: `none` for scalar / enum / input object -/
def directFields (td : TypeDef) : Option (List FieldDef) :=
  match td.kind with
  | .object | .interface => some (td.fields ++ [typenameField])
  | .union => some [typenameField]
  | _ => none

def fragsOf (D : Doc) : List FragmentDef := D.filterMap fun | .frag f => some f | _ => none
def opsOf (D : Doc) : List OperationDef := D.filterMap fun | .op o => some o | _ => none

/-- `generate_fragment_map(..).get(name)`: collecting into a `HashMap` lets the LAST definition of a name win -/
def fragMap (D : Doc) (n : Name) : Option FragmentDef := (fragsOf D).reverse.find? (·.name == n)

def implementsIface (td : TypeDef) (iface : Name) : Bool := td.implements.any (·.1 == iface)

/-- the interface × union arm of `check_fragment_spread_core`: `possible_types.iter().any(..)` with its
    short-circuit and the `TypeSystemError` pushed for a member that is not an object type -/
def unionMemberImplements (S : Schema) (iface : Name) : List (Name × Pos) → List Diag × Bool
  | [] => ([], false)
  | (m, mp) :: ms =>
    match S.typeDef? m with
    | some o =>
      if o.kind == .object then
        (if implementsIface o iface then ([], true) else unionMemberImplements S iface ms)
      else ([(ErrKind.TypeSystemError, mp)], true)
    | none => ([(ErrKind.TypeSystemError, mp)], true)

/-- the applicability analysis of `check_fragment_spread_core` (everything before its final
    `check_selection_set`): diagnostics, and whether the function goes on to check the selection set -/
def spreadApplicability (S : Schema) (root cond : TypeDef) (spreadPos : Pos) : List Diag × Bool :=
  let never := [(ErrKind.FragmentConditionNeverMatches, spreadPos)]
  match root.kind, cond.kind with
  | .scalar, _ | .enum, _ | .input, _ => ([], false)
  | .object, .object => (if root.name != cond.name then never else [], true)
  | .object, .interface => (if implementsIface root cond.name then [] else never, true)
  | .interface, .object => (if implementsIface cond root.name then [] else never, true)
  | .object, .union => (if cond.members.any (·.1 == root.name) then [] else never, true)
  | .union, .object => (if root.members.any (·.1 == cond.name) then [] else never, true)
  | .interface, .interface =>
    if root.name == cond.name then ([], true)   -- fast path: an interface always matches itself
    else
      (if S.typeNames.any (fun n => match S.typeDef? n with
          | some o => o.kind == .object && implementsIface o root.name && implementsIface o cond.name
          | none => false) then [] else never, true)
  | .interface, .union =>
    let r := unionMemberImplements S root.name cond.members
    (r.1 ++ (if r.2 then [] else never), true)
  | .union, .interface =>
    let r := unionMemberImplements S cond.name root.members
    (r.1 ++ (if r.2 then [] else never), true)
  | .union, .union =>
    (if cond.members.any (fun m2 => root.members.any (fun m1 => m1.1 == m2.1)) then [] else never, true)
  | _, _ => ([], true)

/-- what the walk does at `...Name`: (seen stack, root type, spread) ↦ diagnostics -/
abbrev SpreadHandler := List Name → Option (List VarDef) → TypeDef → Name → Pos → Pos → List Diag

mutual
/-- the loop over the selections of one selection set (`fields` = `direct_fields_of_output_type(root)`) -/
def checkSelections (S : Schema) (H : SpreadHandler) (seen : List Name) (vars : Option (List VarDef))
    (root : TypeDef) (fields : List FieldDef) : List Selection → List Diag
  | [] => []
  | s :: ss => checkSelection S H seen vars root fields s ++ checkSelections S H seen vars root fields ss
/-- `check_selection_field` / `check_fragment_spread` / `check_inline_fragment`; the nested calls of
    `check_selection_set` are written out (`directFields` test + loop) so that the recursion is structural -/
def checkSelection (S : Schema) (H : SpreadHandler) (seen : List Name) (vars : Option (List VarDef))
    (root : TypeDef) (fields : List FieldDef) : Selection → List Diag
  | .field _ name namePos args dirs sel =>
    match fields.find? (·.name == name) with
    | none => [(ErrKind.FieldNotFound, namePos)]
    | some fd =>
      checkDirectives S vars dirs "FIELD" ++
      checkArguments S vars namePos args fd.args ++
      (match S.typeDef? fd.ty.unwrapped with
       | none => [(ErrKind.TypeSystemError, namePos)]
       | some ft =>
         match sel with
         | some ss =>
           (match directFields ft with
            | none => [(ErrKind.SelectionOnInvalidType, namePos)]
            | some ffields => checkSelections S H seen vars ft ffields ss)
         | none => if (directFields ft).isSome then [(ErrKind.MustSpecifySelectionSet, namePos)] else [])
  | .spread name namePos dirs pos =>
    checkDirectives S vars dirs "FRAGMENT_SPREAD" ++ H seen vars root name namePos pos
  | .inline cond dirs ss pos =>
    checkDirectives S vars dirs "INLINE_FRAGMENT" ++
    match cond with
    | none => checkSelections S H seen vars root fields ss
    | some (c, cp) =>
      match S.typeDef? c with
      | none => [(ErrKind.UnknownType, cp)]
      | some ct =>
        let a := spreadApplicability S root ct pos
        a.1 ++ (if a.2 then
          (match directFields ct with
           | none => [(ErrKind.SelectionOnInvalidType, pos)]
           | some cfields => checkSelections S H seen vars ct cfields ss)
          else [])
end

/-- `check_selection_set`; `anchor` stands for `selection_set.position` -/
def checkSelectionSet (S : Schema) (H : SpreadHandler) (seen : List Name) (vars : Option (List VarDef))
    (root : TypeDef) (sels : List Selection) (anchor : Pos) : List Diag :=
  match directFields root with
  | none => [(ErrKind.SelectionOnInvalidType, anchor)]
  | some fields => checkSelections S H seen vars root fields sels

/-- `check_fragment_spread` (+ the part of `check_fragment_spread_core` after the stack check), by fuel -/
def spreadHandler (S : Schema) (D : Doc) : Nat → SpreadHandler
  | 0 => fun _ _ _ _ _ pos => [(ErrKind.RecursingFragmentSpread, pos)]
  | fuel + 1 => fun seen vars root name namePos pos =>
    if seen.contains name then [(ErrKind.RecursingFragmentSpread, pos)]
    else match fragMap D name with
      | none => [(ErrKind.UnknownFragment, namePos)]
      | some f =>
        checkDirectives S vars f.dirs "FRAGMENT_DEFINITION" ++
        match S.typeDef? f.cond with
        | none => []
        | some ct =>
          let a := spreadApplicability S root ct pos
          a.1 ++ (if a.2 then checkSelectionSet S (spreadHandler S D fuel) (seen ++ [name]) vars ct f.sel f.pos else [])

def fuelFor (D : Doc) : Nat := (fragsOf D).length + 1

/-! ### `selection_set_has_more_than_one_fields` (distinct response keys of the root selection set) -/

abbrev KeysHandler := List Name → Name → List Name

mutual
def rootKeys (H : KeysHandler) (seen : List Name) : List Selection → List Name
  | [] => []
  | s :: ss => rootKeysSel H seen s ++ rootKeys H seen ss
def rootKeysSel (H : KeysHandler) (seen : List Name) : Selection → List Name
  | .field (some (a, _)) _ _ _ _ _ => [a]
  | .field none n _ _ _ _ => [n]
  | .spread name _ _ _ => H seen name
  | .inline _ _ ss _ => rootKeys H seen ss
end

def keysHandler (D : Doc) : Nat → KeysHandler
  | 0 => fun _ _ => []
  | fuel + 1 => fun seen name =>
    if seen.contains name then []
    else match fragMap D name with
      | none => []
      | some f => rootKeys (keysHandler D fuel) (seen ++ [name]) f.sel

def dedupNames (xs : List Name) : List Name :=
  xs.foldl (fun acc x => if acc.contains x then acc else acc ++ [x]) []

def hasMoreThanOneField (D : Doc) (sels : List Selection) : Bool :=
  (dedupNames (rootKeys (keysHandler D (fuelFor D)) [] sels)).length > 1

/-! ### fragments used by operations (`fragments_used_by_operations`) -/

mutual
def spreadNamesSel : Selection → List Name
  | .field _ _ _ _ _ (some ss) => spreadNames ss
  | .field _ _ _ _ _ none => []
  | .spread n _ _ _ => [n]
  | .inline _ _ ss _ => spreadNames ss
def spreadNames : List Selection → List Name
  | [] => []
  | s :: ss => spreadNamesSel s ++ spreadNames ss
end

/-- one round: add the fragments spread by the fragments already in the set -/
def usedStep (D : Doc) (acc : List Name) : List Name :=
  dedupNames (acc ++ acc.flatMap fun n => match fragMap D n with | some f => spreadNames f.sel | none => [])

def usedIter (D : Doc) : Nat → List Name → List Name
  | 0, acc => acc
  | fuel + 1, acc => usedIter D fuel (usedStep D acc)

/-- the set the worklist loop of `fragments_used_by_operations` computes: the names reachable from the
    operations' selection sets through spreads (every productive round adds a defined fragment name, so
    `#fragments + 2` rounds reach the fixed point) -/
def usedFragments (D : Doc) : List Name :=
  usedIter D ((fragsOf D).length + 2) (dedupNames ((opsOf D).flatMap fun o => spreadNames o.sel))

/-- `without_variable_checks`: the diagnostics of a check run without variables, minus `UnknownVariable` -/
def withoutVariableChecks (ds : List Diag) : List Diag := ds.filter fun d => d.1 != ErrKind.UnknownVariable

/-! ### definitions -/

/-- `check_variables_definition` with its `seen_variables` accumulator -/
def checkVariablesAux (S : Schema) : List Name → List VarDef → List Diag
  | _, [] => []
  | seen, v :: vs =>
    (if seen.contains v.name then [(ErrKind.DuplicatedVariableName, v.pos)] else []) ++
    checkDirectives S none v.dirs "VARIABLE_DEFINITION" ++
    (match isInputType? S v.ty.unwrapped with
     | none => [(ErrKind.UnknownType, typePos v.ty)]
     | some true => (match v.default with | some d => checkValue S none d v.ty false | none => [])
     | some false => [(ErrKind.NoOutputType, typePos v.ty)]) ++
    checkVariablesAux S (if seen.contains v.name then seen else seen ++ [v.name]) vs

def opLocation : OpKind → String
  | .query => "QUERY" | .mutation => "MUTATION" | .subscription => "SUBSCRIPTION"

/-- there is an explicit schema definition (`!root_types.original_node_ref().builtin`) -/
def hasExplicitSchema (S : Schema) : Bool :=
  match S.schemaDefs with
  | [] => false
  | d :: _ => !d.pos.builtin

/-- `check_operation` -/
def checkOperation (S : Schema) (D : Doc) (op : OperationDef) : List Diag :=
  if hasExplicitSchema S && (S.explicitRoot? op.kind).isNone then [(ErrKind.NoRootType, op.pos)]
  else match S.typeDef? (S.rootName op.kind) with
    | none => [(ErrKind.UnknownType, op.pos)]
    | some root =>
      checkDirectives S (some op.vars) op.dirs (opLocation op.kind) ++
      checkVariablesAux S [] op.vars ++
      (if op.kind == .subscription && hasMoreThanOneField D op.sel
        then [(ErrKind.SubscriptionMustHaveExactlyOneRootField, op.pos)] else []) ++
      checkSelectionSet S (spreadHandler S D (fuelFor D)) [] (some op.vars) root op.sel op.pos

/-- `check_fragment_definition` -/
def checkFragmentDefinition (S : Schema) (D : Doc) (used : Bool) (f : FragmentDef) : List Diag :=
  (if used then [] else withoutVariableChecks (checkDirectives S none f.dirs "FRAGMENT_DEFINITION")) ++
  match S.typeDef? f.cond with
  | none => [(ErrKind.UnknownType, f.condPos)]
  | some t =>
    if (directFields t).isSome then
      (if used then []
       else withoutVariableChecks
         (checkSelectionSet S (spreadHandler S D (fuelFor D)) [f.name] none t f.sel f.pos))
    else [(ErrKind.InvalidFragmentTarget, f.condPos)]

def opHasName (n : Name) : ExecDef → Bool
  | .op o => match o.name with | some (m, _) => m == n | none => false
  | _ => false
def fragHasName (n : Name) : ExecDef → Bool
  | .frag f => f.name == n
  | _ => false

/-- the duplicate-name / lone-anonymous part of one iteration of the main loop; `earlier` = the definitions
    before the current one (`document.definitions.iter().take(idx)`) -/
def defHeader (opNum : Nat) (earlier : List ExecDef) : ExecDef → List Diag
  | .op o =>
    (match o.name with
     | none => if opNum != 1 then [(ErrKind.UnNamedOperationMustBeSingle, o.pos)] else []
     | some (n, np) => if earlier.any (opHasName n) then [(ErrKind.DuplicateOperationName, np)] else [])
  | .frag f => if earlier.any (fragHasName f.name) then [(ErrKind.DuplicateFragmentName, f.namePos)] else []
  | .imp _ => []

/-- `check_operation` / `check_fragment_definition` of one definition -/
def defBody (S : Schema) (D : Doc) : ExecDef → List Diag
  | .op o => checkOperation S D o
  | .frag f => checkFragmentDefinition S D ((usedFragments D).contains f.name) f
  | .imp _ => []

/-- the main loop of `check_operation_document` -/
def checkDefs (S : Schema) (D : Doc) (opNum : Nat) : List ExecDef → List ExecDef → List Diag
  | _, [] => []
  | earlier, d :: rest => defHeader opNum earlier d ++ defBody S D d ++ checkDefs S D opNum (earlier ++ [d]) rest

/-- `check_operation_document(document, context)`; `S` is the resolved type-system document (with built-ins)
    from which `ast_to_type_system` builds the context's `Schema` -/
def checkOp (S : Schema) (D : Doc) : List Diag :=
  checkDefs S D (opsOf D).length [] D

end NitroVerif.PreE3584a3.CheckOp
