/-
C10 ∘ C11 — helper lemmas: the reference sets `Ref_t(T)`, the resolver references and the side condition `DocOK` do not
depend on the ORDER of the definitions of a resolved document with distinct type names.
Helper lemmas only; the property theorems are in `Props/C10Composed.lean`.
-/
import NitroVerif.Lemmas.DeclsComposed
import NitroVerif.Lemmas.Determinism
import NitroVerif.Lemmas.DeclsClosedResolvers
namespace NitroVerif.DeclsComposed
open NitroVerif.Gql NitroVerif.Ts NitroVerif.DeclCfg NitroVerif.SchemaDecls NitroVerif.RefTypes
open NitroVerif.ExtMerge NitroVerif.ExtResolve

theorem typeDefsOf_perm {R R' : TsDoc} (hp : R.Perm R') : (typeDefsOf R).Perm (typeDefsOf R') := hp.filterMap _

/-! Everything below only needs the TYPE DEFINITIONS of the two documents to be permutations of each other
   (`typeDefsOf R ~ typeDefsOf R'`): directive and schema definitions play no part in the declaration semantics. -/

theorem scalarTypes_perm (c : Cfg) {R R' : TsDoc} (hp : (typeDefsOf R).Perm (typeDefsOf R')) :
    (scalarTypes c R).Perm (scalarTypes c R') := by
  rw [scalarTypes_eq, scalarTypes_eq]
  exact hp.filterMap _

theorem mem_bag_perm (c : Cfg) {R R' : TsDoc} (hp : (typeDefsOf R).Perm (typeDefsOf R')) (i : String) :
    i ∈ bag (scalarTypes c R) ↔ i ∈ bag (scalarTypes c R') := by
  unfold bag
  simp only [List.mem_flatMap]
  constructor
  · rintro ⟨p, hp', h⟩; exact ⟨p, (scalarTypes_perm c hp).mem_iff.mp hp', h⟩
  · rintro ⟨p, hp', h⟩; exact ⟨p, (scalarTypes_perm c hp).mem_iff.mpr hp', h⟩

/-- the side condition of the closed forms does not depend on the order of the definitions -/
theorem docOK_perm {c : Cfg} {R R' : TsDoc} (hp : (typeDefsOf R).Perm (typeDefsOf R')) (ok : DocOK c R) : DocOK c R' := by
  have hm : ∀ td, td ∈ typeDefsOf R' ↔ td ∈ typeDefsOf R := fun td => hp.mem_iff.symm
  have hs : ∀ p, p ∈ scalarTypes c R' ↔ p ∈ scalarTypes c R := fun p => (scalarTypes_perm c hp).mem_iff.symm
  have hb : ∀ i, i ∈ bag (scalarTypes c R') ↔ i ∈ bag (scalarTypes c R) := fun i => (mem_bag_perm c hp i).symm
  refine ⟨?_, ?_, ?_, ?_, ?_, ?_, ?_, ?_⟩
  · exact ((hp.map (·.name)).nodup_iff).mp ok.distinct
  · intro a ha; exact ok.names a ((hm a).mp ha)
  · intro a ha; exact ok.notPrelude a ((hm a).mp ha)
  · intro td htd hk f hf
    obtain ⟨td', h1, h2⟩ := ok.fields td ((hm td).mp htd) hk f hf
    exact ⟨td', (hm td').mpr h1, h2⟩
  · intro td htd hk f hf
    obtain ⟨td', h1, h2⟩ := ok.inputs td ((hm td).mp htd) hk f hf
    exact ⟨td', (hm td').mpr h1, h2⟩
  · intro td htd hk m hmm
    obtain ⟨td', h1, h2⟩ := ok.members td ((hm td).mp htd) hk m hmm
    exact ⟨td', (hm td').mpr h1, h2⟩
  · intro i hi; exact ok.bagOK i ((hb i).mp hi)
  · intro p hp' t ht
    obtain ⟨h1, h2⟩ := ok.parses p ((hs p).mp hp') t ht
    exact ⟨h1, fun i hi => (hb i).mpr (h2 i hi)⟩

/-! ### lookups under a permutation -/

section lookups
variable {R R' : TsDoc} (hp : (typeDefsOf R).Perm (typeDefsOf R')) (hd : ((typeDefsOf R).map (·.name)).Nodup)

include hp hd in
theorem typeDef?_perm (n : Name) : (Schema.mk R').typeDef? n = (Schema.mk R).typeDef? n := by
  unfold Schema.typeDef?
  rw [typeDefs_eq, typeDefs_eq]
  exact (Determinism.find?_perm_of_unique _ hp
    (Determinism.filter_length_le_one_of_nodup (·.name) _ hd n)).symm

include hp hd in
theorem scalarType?_perm (c : Cfg) (n : Name) : scalarType? c R' n = scalarType? c R n := by
  unfold scalarType?
  have hnd : ((scalarTypes c R).map (·.1)).Nodup := by
    rw [scalarTypes_eq]
    have hsub : (((typeDefsOf R).filterMap (scalarEntry c)).map (·.1)).Sublist ((typeDefsOf R).map (·.name)) := by
      generalize typeDefsOf R = l
      induction l with
      | nil => exact List.Sublist.refl _
      | cons x r ih =>
        rw [List.filterMap_cons]
        cases hx : scalarEntry c x with
        | none => exact ih.trans (by simp)
        | some p =>
          simp only [List.map_cons]
          rw [scalarEntry_key hx]
          exact ih.cons_cons _
    exact hsub.nodup hd
  rw [(Determinism.find?_perm_of_unique _ (scalarTypes_perm c hp)
    (Determinism.filter_length_le_one_of_nodup (·.1) _ hnd n)).symm]

include hp in
theorem objectImplementers_perm (n : Name) :
    ((Schema.mk R).objectImplementers n).Perm ((Schema.mk R').objectImplementers n) := by
  unfold Schema.objectImplementers
  rw [typeDefs_eq, typeDefs_eq]
  exact (hp.filter _).map _

include hp hd in
theorem possibleTypes_perm (n : Name) : ((Schema.mk R).possibleTypes n).Perm ((Schema.mk R').possibleTypes n) := by
  unfold Schema.possibleTypes
  rw [typeDef?_perm hp hd n]
  cases (Schema.mk R).typeDef? n with
  | none => exact List.Perm.refl _
  | some td =>
    simp only
    cases td.kind <;> first | exact List.Perm.refl _ | exact objectImplementers_perm hp n

theorem any_perm {α : Type} {l l' : List α} (h : l.Perm l') (f : α → Bool) : l.any f = l'.any f := by
  rw [Bool.eq_iff_iff, List.any_eq_true, List.any_eq_true]
  constructor
  · rintro ⟨x, hx, hf⟩; exact ⟨x, h.mem_iff.mp hx, hf⟩
  · rintro ⟨x, hx, hf⟩; exact ⟨x, h.mem_iff.mpr hx, hf⟩

include hp hd in
/-- `Ref_t(T)` with fuel: the same function for both orders -/
theorem refMem_perm (c : Cfg) (t : Target) : ∀ n, refMem c ⟨R'⟩ t n = refMem c ⟨R⟩ t n := by
  intro n
  induction n with
  | zero => funext name v; rfl
  | succ n ih =>
    funext name v
    rw [refMem, refMem, ih, typeDef?_perm hp hd name]
    have hs : scalarType? c (Schema.mk R').items name = scalarType? c (Schema.mk R).items name :=
      scalarType?_perm hp hd c name
    rw [hs]
    have ha : ∀ f : Name → Bool, ((Schema.mk R').possibleTypes name).any f = ((Schema.mk R).possibleTypes name).any f :=
      fun f => (any_perm (possibleTypes_perm hp hd name) f).symm
    simp only [ha]

include hp hd in
theorem Ref_perm (c : Cfg) (t : Target) (name : Name) (v : J) : Ref c ⟨R'⟩ t name v ↔ Ref c ⟨R⟩ t name v := by
  unfold Ref
  simp only [refMem_perm hp hd c t]

include hp hd in
theorem refResolverOut_perm (c : Cfg) : ∀ n, refResolverOut c ⟨R'⟩ n = refResolverOut c ⟨R⟩ n := by
  intro n
  induction n with
  | zero => funext name v; rfl
  | succ n ih =>
    funext name v
    rw [refResolverOut, refResolverOut, ih, typeDef?_perm hp hd name, refMem_perm hp hd, refMem_perm hp hd]
    have ha : ∀ f : Name → Bool, ((Schema.mk R').possibleTypes name).any f = ((Schema.mk R).possibleTypes name).any f :=
      fun f => (any_perm (possibleTypes_perm hp hd name) f).symm
    simp only [ha]

include hp hd in
theorem refArgs_perm (c : Cfg) (n : Nat) (args : List InputValueDef) (v : J) :
    refArgs c ⟨R'⟩ n args v = refArgs c ⟨R⟩ n args v := by
  unfold refArgs
  rw [refMem_perm hp hd]

end lookups

/-! ### the resolved document and the reference merge of C11 denote the same reference sets -/

theorem typeDefsOf_resolved_refMerge {src R : TsDoc} (h : resolve src = .ok R) :
    (typeDefsOf R).Perm (typeDefsOf (refMerge src)) := by
  rw [typeDefsOf_refMerge]; exact typeDefsOf_resolved h

/-- `Ref` over the specification-level merge `refMerge src` (every source definition followed by the components of its
    extensions, document order; no registries, no sorting) = `Ref` over the document the resolver model produces -/
theorem Ref_resolved_eq (c : Cfg) {src R : TsDoc} (h : resolve src = .ok R)
    (hd : ((typeDefsOf R).map (·.name)).Nodup) (t : Target) : Ref c ⟨refMerge src⟩ t = Ref c ⟨R⟩ t := by
  funext name v
  exact propext (Ref_perm (typeDefsOf_resolved_refMerge h) hd c t name v)

theorem refResolverOut_resolved_eq (c : Cfg) {src R : TsDoc} (h : resolve src = .ok R)
    (hd : ((typeDefsOf R).map (·.name)).Nodup) (n : Nat) : refResolverOut c ⟨refMerge src⟩ n = refResolverOut c ⟨R⟩ n :=
  refResolverOut_perm (typeDefsOf_resolved_refMerge h) hd c n

theorem refArgs_resolved_eq (c : Cfg) {src R : TsDoc} (h : resolve src = .ok R)
    (hd : ((typeDefsOf R).map (·.name)).Nodup) (n : Nat) (args : List InputValueDef) (v : J) :
    refArgs c ⟨refMerge src⟩ n args v = refArgs c ⟨R⟩ n args v :=
  refArgs_perm (typeDefsOf_resolved_refMerge h) hd c n args v

end NitroVerif.DeclsComposed
