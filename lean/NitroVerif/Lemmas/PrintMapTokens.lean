import NitroVerif.Lemmas.PrintMapResolver
/-!
# C06 — printer call sites: every mapped call points at a name-carrying token of the document

`TsToken doc p s`: the type-system document `doc` has, at position `p`, a token with text `s` that the AST records with
its position — a definition keyword, a definition name, a field / argument / input field / enum value name, a union
member, a root type of a schema definition, the named type at the bottom of a field's type.
`schemaSites_tokens` / `resolverSites_tokens`: every call of the closed forms is a `write_for` for such a token, with
the token text as node name. The `…_mem` lemmas are the converse direction for definition names, fields, input fields
and enum values.
-/
namespace NitroVerif.PrintMap
open NitroVerif.Gql NitroVerif.DeclCfg NitroVerif.SchemaDecls

inductive TsToken (doc : TsDoc) : Pos → String → Prop
  | keyword {td : TypeDef} : .typeDef td ∈ doc → TsToken doc td.pos (keywordOf td.kind)
  | typeName {td : TypeDef} : .typeDef td ∈ doc → TsToken doc td.namePos td.name
  | field {td : TypeDef} {f : FieldDef} : .typeDef td ∈ doc → f ∈ td.fields → TsToken doc f.pos f.name
  | argument {td : TypeDef} {f : FieldDef} {a : InputValueDef} :
      .typeDef td ∈ doc → f ∈ td.fields → a ∈ f.args → TsToken doc a.pos a.name
  | fieldType {td : TypeDef} {f : FieldDef} :
      .typeDef td ∈ doc → f ∈ td.fields → TsToken doc (leafPos f.ty) f.ty.unwrapped
  | inputField {td : TypeDef} {f : InputValueDef} : .typeDef td ∈ doc → f ∈ td.inputs → TsToken doc f.pos f.name
  | enumValue {td : TypeDef} {v : EnumValueDef} : .typeDef td ∈ doc → v ∈ td.values → TsToken doc v.pos v.name
  | member {td : TypeDef} {m : Name × Pos} : .typeDef td ∈ doc → m ∈ td.members → TsToken doc m.2 m.1
  | root {sd : SchemaDef} {r : OpKind × Name × Pos} : .schemaDef sd ∈ doc → r ∈ sd.roots → TsToken doc r.2.2 r.2.1

/-- the text written for a node named `s`: the name itself, its `__tmp_` local name, or — for a definition keyword —
    the TypeScript declaration keywords -/
def SiteText (t s : String) : Prop :=
  t = s ∨ t = "__tmp_" ++ s ∨ t = "export type " ∨ t = "type " ∨ t = "export const "

/-- a mapped call for a token of the document -/
def IsSite (doc : TsDoc) (op : POp) : Prop :=
  ∃ t p s, op = .writeFor t p (some s) ∧ p.builtin = false ∧ TsToken doc p s ∧ SiteText t s

theorem isSite_of_node {doc : TsDoc} {op : POp} {t s : String} {p : Pos} (h : op ∈ node t p s)
    (htok : TsToken doc p s) (htext : SiteText t s) : IsSite doc op := by
  obtain ⟨hb, rfl⟩ := mem_node.mp h
  exact ⟨t, p, s, rfl, hb, htok, htext⟩

theorem isSite_of_keySites {doc : TsDoc} {op : POp} {k : String} {p : Pos} (h : op ∈ keySites k p)
    (htok : TsToken doc p k) : IsSite doc op := by
  unfold keySites at h
  split at h
  · exact isSite_of_node h htok (.inl rfl)
  · cases h

theorem mem_typeDefsOf {doc : TsDoc} {td : TypeDef} : td ∈ typeDefsOf doc ↔ .typeDef td ∈ doc := by
  unfold typeDefsOf
  rw [List.mem_filterMap]
  constructor
  · rintro ⟨it, hit, h⟩
    cases it <;> simp at h
    subst h; exact hit
  · intro h; exact ⟨_, h, rfl⟩

theorem firstSchemaDef_mem {doc : TsDoc} {sd : SchemaDef} (h : firstSchemaDef doc = some sd) : .schemaDef sd ∈ doc := by
  unfold firstSchemaDef at h
  obtain ⟨it, hit, h⟩ := List.exists_of_findSome?_eq_some h
  cases it <;> simp at h
  subst h; exact hit

theorem headerText_ok (td : TypeDef) (l : String) : SiteText (headerText td l) (keywordOf td.kind) := by
  unfold headerText
  split
  · exact .inr (.inr (.inl rfl))
  · exact .inr (.inr (.inr (.inl rfl)))

theorem local_ok (x : Ctx) (n : Name) : SiteText (x.local n) n := by
  unfold Ctx.local localName
  split
  · exact .inr (.inl rfl)
  · exact .inl rfl

theorem headerSites_tokens {doc : TsDoc} {td : TypeDef} (htd : .typeDef td ∈ doc) (x : Ctx) :
    ∀ op ∈ headerSites td (x.local td.name), IsSite doc op := by
  intro op hop
  unfold headerSites at hop
  rcases List.mem_append.mp hop with h | h
  · exact isSite_of_node h (.keyword htd) (headerText_ok _ _)
  · exact isSite_of_node h (.typeName htd) (local_ok _ _)

theorem typeSites_tokens {doc : TsDoc} {td : TypeDef} (htd : .typeDef td ∈ doc) (x : Ctx) :
    ∀ op ∈ typeSites x td, IsSite doc op := by
  intro op hop
  unfold typeSites at hop
  split at hop
  · rcases List.mem_append.mp hop with h | h
    · exact headerSites_tokens htd x op h
    · unfold bodySites at h
      split at h
      · obtain ⟨f, hf, h⟩ := List.mem_flatMap.mp h
        exact isSite_of_keySites h (.field htd hf)
      · obtain ⟨m, hm, h⟩ := List.mem_flatMap.mp h
        split at h
        · exact isSite_of_node h (.member htd hm) (.inl rfl)
        · cases h
      · obtain ⟨f, hf, h⟩ := List.mem_flatMap.mp h
        exact isSite_of_keySites h (.inputField htd hf)
      · cases h
  · cases hop

theorem reprSites_tokens {doc : TsDoc} {td : TypeDef} (htd : .typeDef td ∈ doc) (x : Ctx) :
    ∀ op ∈ reprSites x td, IsSite doc op := by
  intro op hop
  unfold reprSites at hop
  rcases List.mem_append.mp hop with h | h
  · exact headerSites_tokens htd x op h
  · split at h
    · rcases List.mem_append.mp h with h | h
      · rcases List.mem_append.mp h with h | h
        · exact isSite_of_node h (.keyword htd) (.inr (.inr (.inr (.inr rfl))))
        · exact isSite_of_node h (.typeName htd) (.inl rfl)
      · obtain ⟨v, hv, h⟩ := List.mem_flatMap.mp h
        rcases List.mem_append.mp h with h | h <;> exact isSite_of_node h (.enumValue htd hv) (.inl rfl)
    · cases h

theorem metadataSites_tokens (doc : TsDoc) : ∀ op ∈ metadataSites doc, IsSite doc op := by
  intro op hop
  unfold metadataSites at hop
  cases hsd : firstSchemaDef doc with
  | some sd =>
    simp only [hsd] at hop
    obtain ⟨r, hr, h⟩ := List.mem_flatMap.mp hop
    exact isSite_of_node h (.root (firstSchemaDef_mem hsd) hr) (.inl rfl)
  | none =>
    simp only [hsd] at hop
    obtain ⟨td, htd, h⟩ := List.mem_flatMap.mp hop
    split at h
    · exact isSite_of_node h (.typeName (mem_typeDefsOf.mp htd)) (.inl rfl)
    · cases h

theorem schemaSites_tokens (c : Cfg) (doc : TsDoc) : ∀ op ∈ schemaSites c doc, IsSite doc op := by
  intro op hop
  unfold schemaSites at hop
  rcases List.mem_append.mp hop with h | h
  · rcases List.mem_append.mp h with h | h
    · exact metadataSites_tokens doc op h
    · obtain ⟨t, _, h⟩ := List.mem_flatMap.mp h
      obtain ⟨it, hit, h⟩ := List.mem_flatMap.mp h
      cases it with
      | typeDef td => exact typeSites_tokens hit _ op h
      | schemaDef _ => cases h
      | directiveDef _ => cases h
      | schemaExt _ => cases h
      | typeExt _ => cases h
  · obtain ⟨it, hit, h⟩ := List.mem_flatMap.mp h
    cases it with
    | typeDef td => exact reprSites_tokens hit _ op h
    | schemaDef _ => cases h
    | directiveDef _ => cases h
    | schemaExt _ => cases h
    | typeExt _ => cases h

/-! ### converse: the definition names, fields, input fields, enum values are mapped -/

theorem node_mem {t s : String} {p : Pos} (hb : p.builtin = false) : POp.writeFor t p (some s) ∈ node t p s := by
  simp [node, hb]

theorem repr_mem_schemaSites (c : Cfg) (doc : TsDoc) {td : TypeDef} (htd : .typeDef td ∈ doc) {op : POp}
    (h : op ∈ reprSites (Ctx.new c doc .operationOutput) td) : op ∈ schemaSites c doc := by
  unfold schemaSites
  exact List.mem_append_right _ (List.mem_flatMap.mpr ⟨_, htd, h⟩)

theorem type_mem_schemaSites (c : Cfg) (doc : TsDoc) (t : Target) (ht : t ∈ Target.all) {td : TypeDef}
    (htd : .typeDef td ∈ doc) {op : POp} (h : op ∈ typeSites (Ctx.new c doc t) td) : op ∈ schemaSites c doc := by
  unfold schemaSites
  exact List.mem_append_left _ (List.mem_append_right _
    (List.mem_flatMap.mpr ⟨t, ht, List.mem_flatMap.mpr ⟨_, htd, h⟩⟩))

theorem keySites_mem {k : String} {p : Pos} (hr : isRawIdent k = true) (hb : p.builtin = false) :
    POp.writeFor k p (some k) ∈ keySites k p := by
  simp [keySites, hr, node_mem hb]

theorem localName_noNl (b : List String) (n : Name) (h : '\n' ∉ n.toList) : '\n' ∉ (localName b n).toList := by
  unfold localName
  split
  · rw [String.toList_append]
    intro hm
    rcases List.mem_append.mp hm with hm | hm
    · revert hm; decide
    · exact h hm
  · exact h

/-! ### the resolver printer -/

theorem nameNodeOf_token {doc : TsDoc} {n : Name} (hb : (nameNodeOf ⟨doc⟩ n).builtin = false) :
    TsToken doc (nameNodeOf ⟨doc⟩ n) n := by
  unfold nameNodeOf at hb ⊢
  cases h : Schema.typeDef? ⟨doc⟩ n with
  | none => simp [h, bi] at hb
  | some td =>
    show TsToken doc td.namePos n
    unfold Schema.typeDef? at h
    have hmem := List.mem_of_find?_eq_some h
    have hname := List.find?_some h
    have : td.name = n := by simpa using hname
    rw [← this]
    exact .typeName (mem_typeDefsOf.mp hmem)

theorem refSites_members_tokens {doc : TsDoc} {td : TypeDef} (htd : .typeDef td ∈ doc) :
    ∀ op ∈ refSites td.members, IsSite doc op := by
  intro op hop
  obtain ⟨m, hm, h⟩ := List.mem_flatMap.mp hop
  exact isSite_of_node h (.member htd hm) (.inl rfl)

theorem refSites_implementers_tokens (doc : TsDoc) (n : Name) :
    ∀ op ∈ refSites (implementerNodes ⟨doc⟩ n), IsSite doc op := by
  intro op hop
  obtain ⟨m, hm, h⟩ := List.mem_flatMap.mp hop
  unfold implementerNodes at hm
  obtain ⟨k, _, rfl⟩ := List.mem_map.mp hm
  obtain ⟨hb, rfl⟩ := mem_node.mp h
  exact ⟨_, _, _, rfl, hb, nameNodeOf_token hb, .inl rfl⟩

theorem resolverSites_tokens (doc : TsDoc) : ∀ op ∈ resolverSites doc, IsSite doc op := by
  intro op hop
  unfold resolverSites at hop
  simp only at hop
  rcases List.mem_append.mp hop with h | h
  · rcases List.mem_append.mp h with h | h
    · obtain ⟨td, htd, h⟩ := List.mem_flatMap.mp h
      have htd' := mem_typeDefsOf.mp (List.mem_filter.mp htd).1
      unfold outputAliasSites at h
      rcases List.mem_append.mp h with h | h
      · exact isSite_of_node h (.typeName htd') (.inl rfl)
      · split at h
        · exact refSites_implementers_tokens doc _ op h
        · exact refSites_members_tokens htd' op h
        · cases h
    · obtain ⟨td, htd, h⟩ := List.mem_flatMap.mp h
      have htd' := mem_typeDefsOf.mp htd
      unfold rootEntrySites at h
      split at h
      · rcases List.mem_append.mp h with h | h
        · exact isSite_of_keySites h (.typeName htd')
        · obtain ⟨f, hf, h⟩ := List.mem_flatMap.mp h
          unfold fieldResolverSites at h
          rcases List.mem_append.mp h with h | h
          · rcases List.mem_append.mp h with h | h
            · rcases List.mem_append.mp h with h | h
              · exact isSite_of_keySites h (.field htd' hf)
              · exact isSite_of_node h (.typeName htd') (.inl rfl)
            · obtain ⟨a, ha, h⟩ := List.mem_flatMap.mp h
              exact isSite_of_keySites h (.argument htd' hf ha)
          · exact isSite_of_node h (.fieldType htd' hf) (.inl rfl)
      · rcases List.mem_append.mp h with h | h
        · exact isSite_of_keySites h (.typeName htd')
        · exact refSites_implementers_tokens doc _ op h
      · rcases List.mem_append.mp h with h | h
        · exact isSite_of_keySites h (.typeName htd')
        · exact refSites_members_tokens htd' op h
      · cases h
  · obtain ⟨td, htd, h⟩ := List.mem_flatMap.mp h
    have htd' := mem_typeDefsOf.mp (List.mem_filter.mp htd).1
    rcases List.mem_append.mp h with h | h
    · exact isSite_of_keySites h (.typeName htd')
    · exact isSite_of_node h (.typeName htd') (.inl rfl)

end NitroVerif.PrintMap
