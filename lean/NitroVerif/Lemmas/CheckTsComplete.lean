/-
Helper lemmas for C05, part 4 (completeness direction): conditions under which each part of the checker
pushes no diagnostic.
-/
import NitroVerif.Lemmas.CheckTsValue
import NitroVerif.Lemmas.CheckTsRec
namespace NitroVerif.CheckTs
open NitroVerif.Gql NitroVerif.ValidTs

/-! ### the "seen" loops -/

theorem loopSeen_eq_nil {α β : Type} (name : α → Name) (body : Bool → α → List β) :
    ∀ (xs : List α) (seen : List Name), (xs.map name).Nodup → (∀ x ∈ xs, name x ∉ seen) →
      (∀ x ∈ xs, body false x = []) → loopSeen name body seen xs = [] := by
  intro xs
  induction xs with
  | nil => intro _ _ _ _; rfl
  | cons x r ih =>
    intro seen hnd hseen hb
    simp only [List.map_cons, List.nodup_cons] at hnd
    have hc : seen.contains (name x) = false := contains_eq_false_iff.mpr (hseen x List.mem_cons_self)
    simp only [loopSeen, hc, Bool.false_eq_true, if_false, List.append_eq_nil_iff]
    refine ⟨hb x List.mem_cons_self, ih _ hnd.2 ?_ fun y hy => hb y (List.mem_cons_of_mem _ hy)⟩
    intro y hy hin
    rcases List.mem_cons.mp hin with h | h
    · exact hnd.1 (h ▸ List.mem_map.mpr ⟨y, hy, rfl⟩)
    · exact hseen y (List.mem_cons_of_mem _ hy) h

/-! ### types of fields and input values -/

theorem outputFieldType_eq_nil {S : Schema} {ty : GType} {k : TypeKind}
    (hk : S.kindOf? ty.unwrapped = some k) (ho : k ≠ .input) : checkOutputFieldType S ty = [] := by
  unfold checkOutputFieldType
  rw [hk]
  cases k <;> first | rfl | exact absurd rfl ho

theorem inputValueType_eq_nil {S : Schema} {ty : GType} {k : TypeKind}
    (hk : S.kindOf? ty.unwrapped = some k) (hi : Schema.isInputKind k = true) : checkInputValueType S ty = [] := by
  unfold checkInputValueType
  rw [hk]
  simp [hi]

theorem kindOf_of_known {S : Schema} {n : Name} (h : known S n = true) : ∃ k, S.kindOf? n = some k := by
  unfold known at h
  cases ht : S.typeDef? n with
  | none => rw [ht] at h; simp at h
  | some d => exact ⟨d.kind, kindOf_of_typeDef ht⟩

/-! ### values -/

theorem scalar_ok_conv (n : Name) (v : Value) (h : scalarLeafOk n v = true) : scalarAccepts n v = true := by
  unfold scalarLeafOk at h
  unfold scalarAccepts
  by_cases h1 : n = "Boolean"
  · subst h1; cases v <;> simp_all
  by_cases h2 : n = "Int"
  · subst h2; cases v <;> simp_all [IntLit.intLiteralFitsI32_eq]
  by_cases h3 : n = "Float"
  · subst h3; cases v <;> simp_all
  by_cases h4 : n = "String"
  · subst h4; cases v <;> simp_all
  by_cases h5 : n = "ID"
  · subst h5; cases v <;> simp_all
  simp [h1, h2, h3, h4, h5]

theorem scalar_list_custom_conv (n : Name) (vs : List Value) (p : Pos) (h : builtinScalar n = false) :
    scalarAccepts n (.list vs p) = true := by
  unfold builtinScalar at h
  unfold scalarAccepts
  simp only [Bool.or_eq_false_iff, beq_eq_false_iff_ne, ne_eq] at h
  obtain ⟨⟨⟨⟨h1, h2⟩, h3⟩, h4⟩, h5⟩ := h
  simp [h1, h2, h3, h4, h5]

/-- the type of an input position: defined and of an input kind, also for every field of every input object -/
def InputTypesOk (S : Schema) : Prop :=
  ∀ n td, S.typeDef? n = some td → td.kind = .input →
    ∀ ef ∈ td.inputs, ∃ k, S.kindOf? ef.ty.unwrapped = some k ∧ Schema.isInputKind k = true

theorem checkValueList_eq_nil {S : Schema} : ∀ (vs : List Value) (ty : GType),
    (∀ v ∈ vs, checkValue S v ty = []) → checkValueList S vs ty = [] := by
  intro vs
  induction vs with
  | nil => intro _ _; simp [checkValueList]
  | cons x r ih =>
    intro ty h
    simp only [checkValueList, List.append_eq_nil_iff]
    exact ⟨h x List.mem_cons_self, ih ty fun v hv => h v (List.mem_cons_of_mem _ hv)⟩

theorem valueOkList_true {S : Schema} : ∀ (vs : List Value) (ty : GType), valueOkList S vs ty = true →
    ∀ v ∈ vs, valueOk S v ty = true := by
  intro vs
  induction vs with
  | nil => intro _ _ v hv; cases hv
  | cons x r ih =>
    intro ty h v hv
    simp only [valueOkList, Bool.and_eq_true] at h
    rcases List.mem_cons.mp hv with rfl | hr
    · exact h.1
    · exact ih ty h.2 v hr

theorem fieldsOk_true {S : Schema} {defs : List InputValueDef} : ∀ (fs : List (Name × Pos × Value)),
    fieldsOk S fs defs = true →
    ∀ f ∈ fs, ∃ ef, defs.find? (·.name == f.1) = some ef ∧ valueOk S f.2.2 ef.ty = true := by
  intro fs
  induction fs with
  | nil => intro _ f hf; cases hf
  | cons x r ih =>
    intro h f hf
    obtain ⟨k, q, v⟩ := x
    simp only [fieldsOk, Bool.and_eq_true] at h
    rcases List.mem_cons.mp hf with rfl | hr
    · cases hfind : defs.find? (·.name == k) with
      | none => rw [hfind] at h; simp at h
      | some ef => rw [hfind] at h; exact ⟨ef, rfl, h.1⟩
    · exact ih h.2 f hr

theorem checkValue_complete {S : Schema} (hI : InputsNodup S) (hT : InputTypesOk S) :
    ∀ (n : Nat) (v : Value), v.size ≤ n → ∀ ty k, S.kindOf? ty.unwrapped = some k → Schema.isInputKind k = true →
      valueOk S v ty = true → checkValue S v ty = [] := by
  intro n
  induction n with
  | zero => intro v hv; have := Value.size_pos v; omega
  | succ n ih =>
    intro v hsz ty k hk hik h
    -- the type definition behind the innermost name
    have htd : ∃ td, S.typeDef? ty.unwrapped = some td ∧ td.kind = k := by
      unfold Schema.kindOf? at hk
      cases ht : S.typeDef? ty.unwrapped with
      | none => rw [ht] at hk; simp at hk
      | some td => rw [ht] at hk; exact ⟨td, rfl, by simpa using hk⟩
    obtain ⟨td, ht, hkind⟩ := htd
    have leaf : ∀ (w : Value), leafOk S ty.unwrapped w = true → (∀ e p, w ≠ .enum e p) →
        (match S.typeDef? ty.unwrapped with
          | none => [(ErrKind.TypeSystemError, namedPos ty)]
          | some td =>
            match td.kind with
            | TypeKind.scalar => if scalarAccepts td.name w = true then [] else [(ErrKind.TypeMismatch, w.pos)]
            | _ => [(ErrKind.TypeMismatch, w.pos)]) = [] := by
      intro w hw hne
      unfold leafOk at hw
      rw [ht] at hw ⊢
      dsimp only at hw ⊢
      cases hkk : td.kind <;> rw [hkk] at hw <;> simp only [] at hw ⊢
      case scalar =>
        rw [typeDef?_name ht, scalar_ok_conv _ _ hw]; rfl
      case enum =>
        cases w <;> first | (simp at hw) | exact absurd rfl (hne _ _)
      all_goals (simp at hw)
    cases v with
    | var x p => simp [valueOk] at h
    | int s p =>
      simp only [valueOk] at h
      simp only [checkValue]
      exact leaf _ h (by intro e q hc; cases hc)
    | float s p =>
      simp only [valueOk] at h
      simp only [checkValue]
      exact leaf _ h (by intro e q hc; cases hc)
    | str s p =>
      simp only [valueOk] at h
      simp only [checkValue]
      exact leaf _ h (by intro e q hc; cases hc)
    | bool b p =>
      simp only [valueOk] at h
      simp only [checkValue]
      exact leaf _ h (by intro e q hc; cases hc)
    | null p =>
      simp only [valueOk, Bool.not_eq_true'] at h
      simp only [checkValue, h, Bool.false_eq_true, if_false, stripNN_eq]
      cases hs : ValidTs.stripNN ty with
      | nonNull t => rfl
      | list inner q => rfl
      | named nm q =>
        dsimp only
        have hnm : nm = ty.unwrapped := by
          have := stripNN_unwrapped ty
          rw [hs] at this
          simpa [GType.unwrapped] using this
        rw [hnm, ht]
        dsimp only
        cases hkk : td.kind <;> first | rfl | (rw [hkind] at hkk; rw [hkk] at hik; exact absurd hik (by decide))
    | enum e p =>
      simp only [valueOk] at h
      simp only [checkValue]
      unfold leafOk at h
      rw [ht] at h ⊢
      dsimp only at h ⊢
      cases hkk : td.kind <;> rw [hkk] at h <;> simp only [] at h ⊢
      case scalar => rw [typeDef?_name ht, scalar_ok_conv _ _ h]; rfl
      case enum =>
        have : (td.values.all fun x => x.name != e) = false := by
          obtain ⟨x, hx, hxe⟩ := List.any_eq_true.mp h
          exact List.all_eq_false.mpr ⟨x, hx, by simpa using hxe⟩
        simp [this]
      all_goals (simp at h)
    | list vs p =>
      simp only [valueOk] at h
      simp only [checkValue, stripNN_eq]
      cases hs : ValidTs.stripNN ty with
      | nonNull t => exact absurd hs (stripNN_not_nonNull ty t)
      | list inner q =>
        rw [hs] at h
        dsimp only at h ⊢
        apply checkValueList_eq_nil
        intro v hv
        have hu : inner.unwrapped = ty.unwrapped := by
          have := stripNN_unwrapped ty
          rw [hs] at this
          simpa [GType.unwrapped] using this
        apply ih v _ inner k (by rw [hu]; exact hk) hik (valueOkList_true vs inner h v hv)
        have := size_mem_list vs v hv
        simp only [Value.size] at hsz
        omega
      | named nm q =>
        rw [hs] at h
        dsimp only at h ⊢
        simp only [Bool.and_eq_true, beq_iff_eq, Bool.not_eq_true'] at h
        obtain ⟨hks, hnb⟩ := h
        unfold Schema.kindOf? at hks
        cases ht2 : S.typeDef? nm with
        | none => rw [ht2] at hks; simp at hks
        | some td2 =>
          rw [ht2] at hks
          have hk2 : td2.kind = .scalar := by simpa using hks
          dsimp only
          rw [hk2]
          dsimp only
          rw [typeDef?_name ht2, scalar_list_custom_conv nm [] p hnb]; rfl
    | obj fs p =>
      simp only [valueOk] at h
      simp only [checkValue]
      rw [ht] at h ⊢
      dsimp only at h ⊢
      cases hkk : td.kind <;> rw [hkk] at h <;> simp only [] at h ⊢
      case scalar =>
        unfold leafOk at h
        rw [ht] at h; dsimp only at h; rw [hkk] at h; dsimp only at h
        rw [typeDef?_name ht, scalar_ok_conv _ _ h]; rfl
      case input =>
        simp only [Bool.and_eq_true] at h
        obtain ⟨⟨hkeys, hreq⟩, hfields⟩ := h
        have hknd : (fs.map (·.1)).Nodup := (noDup_iff_nodup _).mp hkeys
        have hdefs : (td.inputs.map (·.name)).Nodup := hI _ td ht hkk
        have hfo := fieldsOk_true fs hfields
        simp only [List.append_eq_nil_iff, List.flatMap_eq_nil_iff]
        refine ⟨?_, ?_⟩
        · intro ef hef
          rw [checkFieldFind_eq]
          cases hfind : fs.find? (fun f => f.1 == ef.name) with
          | none => rfl
          | some f =>
            dsimp only
            have hfm : f ∈ fs := List.mem_of_find?_eq_some hfind
            have hfe : f.1 = ef.name := by simpa using List.find?_some hfind
            obtain ⟨ef', hfind', hok⟩ := hfo f hfm
            have := find?_key_of_nodup (fun (x : InputValueDef) => x.name) td.inputs hdefs ef hef
            simp only [← hfe] at this
            rw [this] at hfind'
            cases hfind'
            obtain ⟨k2, hk2, hik2⟩ := hT _ td ht hkk ef hef
            apply ih f.2.2 _ ef.ty k2 hk2 hik2 hok
            have := size_mem_fields fs f hfm
            simp only [Value.size] at hsz
            omega
        · have hshape : objShapeOk td.inputs fs = true := by
            unfold objShapeOk
            simp only [Bool.and_eq_true, Bool.not_eq_true', decide_eq_false_iff_not, Nat.not_lt]
            refine ⟨?_, ?_⟩
            · rw [List.any_eq_false]
              intro ef hef
              simp only [List.all_eq_true, Bool.or_eq_true, Bool.not_eq_true'] at hreq
              simp only [Bool.and_eq_true, Bool.not_eq_true', not_and, Bool.not_eq_true]
              intro hno
              rcases hreq ef hef with h1 | h1
              · rw [hno] at h1; cases h1
              · exact h1
            · -- every key of the literal names a present definition, keys are distinct
              have hsub : ∀ x ∈ fs.map (·.1), x ∈ (td.inputs.filter fun ef => fs.any (·.1 == ef.name)).map (·.name) := by
                intro x hx
                obtain ⟨f, hf, rfl⟩ := List.mem_map.mp hx
                obtain ⟨ef, hfind, _⟩ := hfo f hf
                refine List.mem_map.mpr ⟨ef, List.mem_filter.mpr ⟨List.mem_of_find?_eq_some hfind, ?_⟩, ?_⟩
                · refine List.any_eq_true.mpr ⟨f, hf, ?_⟩
                  have : ef.name = f.1 := by simpa using List.find?_some hfind
                  simp [this]
                · simpa using List.find?_some hfind
              have := nodup_subset_length _ _ hknd hsub
              simpa using this
          simp [hshape]
      all_goals (unfold leafOk at h; rw [ht] at h; dsimp only at h; rw [hkk] at h; simp at h)

/-! ### arguments and directive applications -/

theorem checkArguments_eq_nil {S : Schema} {pos : Pos} {args : List Arg} {defs : List InputValueDef}
    (hnd : (defs.map (·.name)).Nodup) (hkeys : (args.map (·.1)).Nodup)
    (hargs : ∀ a ∈ args, ∃ ad, defs.find? (·.name == a.1) = some ad ∧ checkValue S a.2.2 ad.ty = [])
    (hreq : ∀ ad ∈ defs, args.any (·.1 == ad.name) = true ∨ requiredArg ad = false) :
    checkArguments S pos args defs = [] := by
  unfold checkArguments
  cases hde : defs.isEmpty with
  | true =>
    have hd : defs = [] := List.isEmpty_iff.mp hde
    subst hd
    cases args with
    | nil => rfl
    | cons a r => obtain ⟨ad, hf, _⟩ := hargs a List.mem_cons_self; simp at hf
  | false =>
    simp only [Bool.false_eq_true, if_false, List.append_eq_nil_iff, List.flatMap_eq_nil_iff]
    refine ⟨⟨?_, ?_⟩, ?_⟩
    · exact loopSeen_eq_nil _ _ args [] hkeys (by intro x _ hin; cases hin) (by intro x _; rfl)
    · intro ad had
      cases hf : args.find? (·.1 == ad.name) with
      | none =>
        dsimp only
        rcases hreq ad had with h | h
        · obtain ⟨a, ha, hae⟩ := List.any_eq_true.mp h
          have := List.find?_eq_none.mp hf a ha
          exact absurd hae this
        · rw [required_eq_requiredArg, h]; rfl
      | some a =>
        dsimp only
        have ham : a ∈ args := List.mem_of_find?_eq_some hf
        have hae : a.1 = ad.name := by simpa using List.find?_some hf
        obtain ⟨ad', hf', hv⟩ := hargs a ham
        have := find?_key_of_nodup (fun (x : InputValueDef) => x.name) defs hnd ad had
        simp only [← hae] at this
        rw [this] at hf'
        cases hf'
        exact hv
    · have hnone : (args.filter fun a => defs.all (·.name != a.1)) = [] := by
        rw [List.filter_eq_nil_iff]
        intro a ha hall
        obtain ⟨ad, hf, _⟩ := hargs a ha
        have hm := List.mem_of_find?_eq_some hf
        have hn : ad.name = a.1 := by simpa using List.find?_some hf
        have := List.all_eq_true.mp hall ad hm
        simp [hn] at this
      rw [hnone]
      split <;> rfl

theorem checkDirectivesAux_eq_nil {S : Schema} {loc : String} :
    ∀ (ds : List Directive) (seen : List Name),
      (∀ d ∈ ds, ∃ df, S.directiveDef? d.name = some df ∧ df.locations.contains loc = true ∧
        checkArguments S d.pos d.args df.args = [] ∧
        (df.repeatable = true ∨ (d.name ∉ seen ∧ (ds.filter (·.name == d.name)).length ≤ 1))) →
      checkDirectivesAux S loc seen ds = [] := by
  intro ds
  induction ds with
  | nil => intro _ _; rfl
  | cons d0 rest ih =>
    intro seen h
    obtain ⟨df0, hdef, hloc, hargs, hrep⟩ := h d0 List.mem_cons_self
    simp only [checkDirectivesAux, List.append_eq_nil_iff]
    refine ⟨?_, ?_⟩
    · unfold checkDirective
      rw [hdef]
      simp only [List.append_eq_nil_iff]
      refine ⟨⟨?_, ?_⟩, hargs⟩
      · have : (df0.locations.all fun x => x != loc) = false := by
          rw [List.all_eq_false]
          exact ⟨loc, List.contains_iff_mem.mp hloc, by simp⟩
        simp [this]
      · rcases hrep with hr | ⟨hns, _⟩
        · simp [hr]
        · have : seen.contains d0.name = false := contains_eq_false_iff.mpr hns
          rw [this]; rfl
    · apply ih
      intro d hd
      obtain ⟨df, hdf, hl, ha, hr⟩ := h d (List.mem_cons_of_mem _ hd)
      refine ⟨df, hdf, hl, ha, ?_⟩
      rcases hr with hr | ⟨hns, hcount⟩
      · exact Or.inl hr
      · right
        have hne : (d0.name == d.name) = false := by
          cases hb : d0.name == d.name with
          | false => rfl
          | true =>
            exfalso
            have hdm : d ∈ rest.filter (·.name == d.name) := List.mem_filter.mpr ⟨hd, by simp⟩
            have hpos : 0 < (rest.filter (·.name == d.name)).length := List.length_pos_of_mem hdm
            simp only [List.filter, hb, List.length_cons] at hcount
            omega
        refine ⟨?_, ?_⟩
        · intro hin
          rw [hdef] at hin
          cases hc : seen.contains d0.name with
          | true => simp only [hc] at hin; exact hns (by simpa using hin)
          | false =>
            simp only [hc] at hin
            rcases List.mem_cons.mp (by simpa using hin) with h1 | h1
            · rw [h1] at hne; simp at hne
            · exact hns h1
        · simpa [List.filter, hne] using hcount

end NitroVerif.CheckTs
