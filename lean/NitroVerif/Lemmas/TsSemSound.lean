/-
Soundness of the executable membership procedure `memG` / `memFuel` (what the O streams evaluate) with respect to
the declarative relation `Mem` (what the theorems speak about): whatever the procedure accepts is a member.
(Completeness for sufficient fuel is not proved; see the OPEN block in Props/C10.lean.)
-/
import NitroVerif.Lemmas.TsSem
namespace NitroVerif.Ts
variable {e : Env}

theorem memRecord_sound {mem : J → Ty → Bool} {P : J → Ty → Prop} (h : ∀ v t, mem v t = true → P v t)
    {fs : List Field} {kvs : List (String × J)} (hm : memRecord mem fs kvs = true) : RecordP P fs kvs := by
  simp only [memRecord, Bool.and_eq_true, List.all_eq_true, Bool.or_eq_true, List.any_eq_true, beq_iff_eq] at hm
  refine ⟨?_, ?_⟩
  · intro f hf hne
    rcases hm.1 f hf with ⟨ho, ha⟩ | hmem
    · exfalso; apply hne; refine ⟨ho, ?_⟩
      cases hx : J.get kvs f.1 <;> simp_all [J.isAbsent]
    · exact h _ _ hmem
  · intro kv hkv
    rcases hm.2 kv hkv with ha | ⟨f, hf, hk⟩
    · left; cases hx : kv.2 <;> simp_all [J.isAbsent]
    · exact Or.inr ⟨f, hf, hk⟩

theorem memG_sound : ∀ n v t, memG e n v t = true → Mem e v t := by
  intro n
  induction n with
  | zero => intro v t h; simp [memG] at h
  | succ n ih =>
    intro v t h
    unfold memG at h
    split at h
    case h_4 => apply Mem.prim; split at h <;> simp_all [primMem, J.isTrue]
    case h_5 => apply Mem.prim; split at h <;> simp_all [primMem, J.isFalse]
    case h_12 s => split at h <;> simp_all [mem_strLit_iff]
    case h_13 fs =>
      split at h
      · exact mem_obj_iff.2 ⟨_, rfl, memRecord_sound (ih) h⟩
      · cases h
    case h_14 t' =>
      split at h
      · rename_i xs
        simp only [List.all_eq_true] at h
        exact mem_arr_iff.2 ⟨xs, rfl, fun x hx => ih _ _ (h x hx)⟩
      · cases h
    case h_15 t' =>
      split at h
      · rename_i xs
        simp only [List.all_eq_true] at h
        exact mem_roArr_iff.2 ⟨xs, rfl, fun x hx => ih _ _ (h x hx)⟩
      · cases h
    case h_16 ts =>
      simp only [List.any_eq_true] at h
      obtain ⟨t, ht, hm⟩ := h
      exact mem_union_iff.2 ⟨t, ht, ih _ _ hm⟩
    case h_17 ts =>
      split at h
      · rename_i fs hv
        split at h
        · exact Mem.interObj _ ts fs n hv (mem_obj_iff.2 ⟨_, rfl, memRecord_sound ih h⟩)
        · cases h
      · rename_i hv
        simp only [List.all_eq_true] at h
        exact Mem.interAll _ ts n hv (fun t ht => ih _ _ (h t ht))
      · cases h
    case h_18 path =>
      split at h
      · rename_i body hb
        exact Mem.alias _ path body hb (ih _ _ h)
      · rename_i hne
        split at h
        · rename_i tag
          have : tag = (Ty.other "abs" path).show := by simpa using h
          subst this
          apply Mem.opaqueTy
          simp only [Ty.isOpaque, beq_self_eq_true, if_true]
          try (split <;> first | rfl | (rename_i body hb; exact absurd hb (hne body)))
        · cases h
    case h_19 f as =>
      split at h
      · rename_i t' ht; exact Mem.hook _ f as t' ht (ih _ _ h)
      · rename_i hn
        split at h
        · rename_i tag
          have : tag = (Ty.app f as).show := by simpa using h
          subst this
          exact Mem.opaqueTy _ (by simp [Ty.isOpaque, hn])
        · cases h
    case h_20 =>
      split at h
      · rename_i tag
        have : tag = t.show := by simpa using h
        subst this
        apply Mem.opaqueTy
        cases t <;> simp_all [Ty.isOpaque]
      · cases h
    all_goals first
      | (apply Mem.prim; cases v <;> simp_all [primMem, J.isStr, J.isNum, J.isBool, J.isNull, J.isAbsent]; done)
      | skip

/-- the entry point used by the drivers -/
theorem memFuel_sound (scope : Scope) (n : Nat) (v : J) (t : Ty) (h : memFuel e scope n v t = true) :
    Mem e v (globalise e.decls scope [] t) :=
  memG_sound n v _ h

end NitroVerif.Ts
