import NitroVerif.Lemmas.GqlPrintLexText
import NitroVerif.Lemmas.PrinterWalk
import NitroVerif.Lemmas.ParseDocBase
/-!
C16 over nitrogql's OWN parser (C07's PEG model), base layer.

C07 renders a document as a sequence of tokens, each followed by the trivia `τ` assigns to the offset where the token
ends (`tk τ sep p s`; `sep`: an empty gap is replaced by one blank). This file has

* `rToks τ p cs` — the rendering of a FLAT list `cs` of (token text, `sep`) pairs (every C07 rendering function is shown to be
  of this form in `GqlPrintOwnFlat*.lean`);
* `gaps T` — the trivia assignment READ OFF a text `T`: at every offset the maximal run of blanks, line feeds and commas;
* `Fits cs ts` — the flat list `cs` agrees with the printer tokens `ts`: same significant tokens in the same order, every
  significant token is a good one (begins with a non-gap character, has no line feed), every layout token consists of
  blanks / line feeds / commas, and wherever `cs` demands a non-empty gap the printer wrote a non-empty layout token;
* `own_render` — the generic theorem: `Fits cs ts` ⇒ the text `JustWriter` writes for `ts` (after any prefix of gap
  characters) IS the rendering of `cs` under the trivia read off that text. The writer's indentation (blanks flushed
  before the first character of a line) is part of the gaps.
-/
namespace NitroVerif.C16Own
open NitroVerif.Gql NitroVerif.GqlPrint NitroVerif.JsTemplate NitroVerif.ValueParse NitroVerif.DocParse
open NitroVerif.StringParse NitroVerif.Spec.Lex

/-! ### the trivia of a text -/

/-- the layout characters of the printer: blank, line feed, comma -/
def isGapC (c : Char) : Bool := c == ' ' || c == '\n' || c == ','

def tw (l : List Char) : List Char := l.takeWhile isGapC
def dw (l : List Char) : List Char := l.dropWhile isGapC

theorem tw_dw (l : List Char) : tw l ++ dw l = l := List.takeWhile_append_dropWhile

/-- the trivia assignment read off a text: the maximal run of layout characters at every offset -/
def gaps (T : List Char) : Trivia := fun q => tw (T.drop q)

theorem isGapC_wsChar {c : Char} (h : isGapC c = true) : wsChar c := by
  simp only [isGapC, Bool.or_eq_true, beq_iff_eq] at h
  rcases h with (rfl | rfl) | rfl
  · exact Or.inr (Or.inr (Or.inl rfl))
  · exact Or.inr (Or.inr (Or.inr (Or.inl rfl)))
  · exact Or.inr (Or.inr (Or.inr (Or.inr (Or.inr rfl))))

theorem tw_mem (l : List Char) : ∀ x ∈ tw l, isGapC x = true := by
  induction l with
  | nil => intro x hx; cases hx
  | cons c cs ih =>
    intro x hx
    simp only [tw, List.takeWhile_cons] at hx
    split at hx
    · rcases List.mem_cons.mp hx with rfl | hx
      · assumption
      · exact ih x hx
    · cases hx

theorem ws_gaps (T : List Char) (q : Nat) : Ws (gaps T q) :=
  ws_of_run fun x hx => isGapC_wsChar (tw_mem _ x hx)

theorem tw_all (w r : List Char) (hw : ∀ x ∈ w, isGapC x = true) : tw (w ++ r) = w ++ tw r := by
  induction w with
  | nil => rfl
  | cons x xs ih =>
    simp only [tw, List.cons_append, List.takeWhile_cons, hw x (by simp), if_true]
    exact congrArg _ (ih fun y hy => hw y (by simp [hy]))

theorem dw_all (w r : List Char) (hw : ∀ x ∈ w, isGapC x = true) : dw (w ++ r) = dw r := by
  induction w with
  | nil => rfl
  | cons x xs ih =>
    simp only [dw, List.cons_append, List.dropWhile_cons, hw x (by simp), if_true]
    exact ih fun y hy => hw y (by simp [hy])

theorem tw_stop (d : Char) (r : List Char) (hd : isGapC d = false) : tw (d :: r) = [] := by
  simp [tw, hd]

theorem dw_stop (d : Char) (r : List Char) (hd : isGapC d = false) : dw (d :: r) = d :: r := by
  simp [dw, hd]

theorem gaps_at (a b : List Char) : gaps (a ++ b) a.length = tw b := by
  simp [gaps]

/-! ### flat renderings -/

/-- tokens one after another, each followed by the gap `τ` gives at its end (made non-empty where the flag says so) -/
def rToks (τ : Trivia) : Nat → List (List Char × Bool) → List Char
  | _, [] => []
  | p, (s, b) :: cs => tk τ b p s ++ rToks τ (p + (tk τ b p s).length) cs

theorem rToks_nil (τ : Trivia) (p : Nat) : rToks τ p [] = [] := rfl
theorem rToks_cons (τ : Trivia) (p : Nat) (s : List Char) (b : Bool) (cs : List (List Char × Bool)) :
    rToks τ p ((s, b) :: cs) = tk τ b p s ++ rToks τ (p + (tk τ b p s).length) cs := rfl

theorem rToks_append (τ : Trivia) (a b : List (List Char × Bool)) : ∀ p,
    rToks τ p (a ++ b) = rToks τ p a ++ rToks τ (p + (rToks τ p a).length) b := by
  induction a with
  | nil => intro p; simp [rToks]
  | cons x xs ih =>
    intro p
    obtain ⟨s, f⟩ := x
    simp only [List.cons_append, rToks, ih, List.append_assoc, List.length_append, Nat.add_assoc]

theorem rToks_one (τ : Trivia) (p : Nat) (s : List Char) (b : Bool) : rToks τ p [(s, b)] = tk τ b p s := by
  simp [rToks]

/-! ### printer tokens against a flat rendering -/

/-- the text of a significant printer token in C07's renderings (a string: the `specEscape` form `quoted`) -/
def chars : Tok → List Char
  | .p s | .name s | .int s | .float s => s.toList
  | .var n => '$' :: n.toList
  | .str v => quoted v.toList
  | .lay _ | .ind | .ded => []

/-- a token text that can stand in a written text: begins with a non-layout character and has no line feed -/
def goodStr : List Char → Bool
  | [] => false
  | d :: r => !isGapC d && (d :: r).all (· != '\n')

/-- … and, for names and numbers, is also a safe chunk for the template writer: no CR, no `$`, not beginning with `{` -/
def goodNm (s : List Char) : Bool :=
  goodStr s && s.all (fun c => c != '\r' && c != '$') && headNotBrace s

theorem goodNm_goodStr {s : List Char} (h : goodNm s = true) : goodStr s = true := by
  simp only [goodNm, Bool.and_eq_true] at h; exact h.1.1

theorem endDollar_of_no_dollar : ∀ (s : List Char) (d : Bool), s ≠ [] → (∀ c ∈ s, c ≠ '$') → endDollar d s = false := by
  intro s
  induction s with
  | nil => intro d h; exact absurd rfl h
  | cons c cs ih =>
    intro d _ hc
    have hcd : (c == '$') = false := by simpa using hc c (by simp)
    cases cs with
    | nil => simp [endDollar, hcd]
    | cons x xs =>
      rw [endDollar, hcd]
      exact ih false (by simp) (fun y hy => hc y (by simp [hy]))

theorem goodNm_goodText {s : List Char} (h : goodNm s = true) : goodText s = true ∧ headNotBrace s = true := by
  simp only [goodNm, Bool.and_eq_true, List.all_eq_true, bne_iff_ne] at h
  obtain ⟨⟨hg, hc⟩, hb⟩ := h
  refine ⟨?_, hb⟩
  have hne : s ≠ [] := by rintro rfl; cases hg
  simp only [goodText, noCR, Bool.and_eq_true, List.all_eq_true, bne_iff_ne, Bool.not_eq_true']
  exact ⟨fun c hc' => (hc c hc').1, endDollar_of_no_dollar s false hne (fun c hc' => (hc c hc').2)⟩

/-- the per-token condition of `Fits` -/
def tokGood : Tok → Bool
  | .p s => goodStr s.toList
  | .name s | .int s | .float s => goodNm s.toList
  | _ => true

/-! ### string literals: where `print_string` writes C07's `specEscape` form

`print_string` escapes `\`, CR, LF by the two-character escapes, every other control character as `\u{…}`, and leaves the
double quote alone; `specEscape` (C07's rendering) uses the seven two-character escapes and writes everything else raw.
They agree exactly on strings that are written in the quoted form (no line feed, or not block-printable), contain no
double quote and no control character other than CR / LF. -/

def charQ (c : Char) : Bool := c != '"' && (!isControl c || c == '\n' || c == '\r')

/-- the string is written in the quoted form, and that form is `specEscape`'s -/
def strQ (s : List Char) : Bool := !useBlock s && s.all charQ

theorem quotedChar_eq (c : Char) (h : charQ c = true) : quotedChar c = specEscapeChar c := by
  simp only [charQ, Bool.and_eq_true, bne_iff_ne, Bool.or_eq_true, Bool.not_eq_true', beq_iff_eq] at h
  obtain ⟨hq, hc⟩ := h
  unfold quotedChar specEscapeChar simpleEscape?
  by_cases h1 : c = '\\'
  · subst h1; rfl
  by_cases h2 : c = '\r'
  · subst h2; rfl
  by_cases h3 : c = '\n'
  · subst h3; rfl
  have hnc : isControl c = false := by
    rcases hc with (hc | hc) | hc
    · exact hc
    · exact absurd hc h3
    · exact absurd hc h2
  have h8 : c ≠ Char.ofNat 8 := by rintro rfl; exact absurd hnc (by decide)
  have h12 : c ≠ Char.ofNat 12 := by rintro rfl; exact absurd hnc (by decide)
  have h9 : c ≠ '\t' := by rintro rfl; exact absurd hnc (by decide)
  simp [h1, h2, h3, hq, hnc, h8, h12, h9]

theorem quotedBody_eq (s : List Char) (h : s.all charQ = true) : quotedBody s = specEscape s := by
  induction s with
  | nil => rfl
  | cons c cs ih =>
    simp only [List.all_cons, Bool.and_eq_true] at h
    simp only [quotedBody, specEscape, List.flatMap_cons, quotedChar_eq c h.1]
    exact congrArg _ (ih h.2)

theorem printString_eq_quoted (s : List Char) (h : strQ s = true) : printString s = quoted s := by
  simp only [strQ, Bool.and_eq_true, Bool.not_eq_true'] at h
  simp only [printString, h.1, Bool.false_eq_true, if_false, printQuoted, quoted, quotedBody_eq s h.2]

/-- every string token is one for which `print_string` writes C07's form -/
def tokQ : Tok → Bool
  | .str v => strQ v.toList
  | _ => true

theorem specEscapeChar_ne_nl (c : Char) : ∀ x ∈ specEscapeChar c, x ≠ '\n' := by
  unfold specEscapeChar simpleEscape?
  intro x hx
  split at hx
  · rename_i e he
    simp only [List.mem_cons, List.mem_nil_iff, or_false] at hx
    rcases hx with rfl | rfl
    · decide
    · rintro rfl
      split at he <;> first | (cases he; done) | skip
      all_goals (repeat' (split at he)) <;> cases he
  · rename_i he
    simp only [List.mem_cons, List.mem_nil_iff, or_false] at hx
    subst hx
    rintro rfl
    simp at he

theorem goodStr_quoted (s : List Char) : goodStr (quoted s) = true := by
  simp only [quoted, goodStr, Bool.and_eq_true, Bool.not_eq_true', List.all_eq_true, bne_iff_ne]
  refine ⟨by decide, ?_⟩
  intro x hx
  simp only [List.mem_cons, List.mem_append, List.mem_nil_iff, or_false] at hx
  rcases hx with rfl | hx | rfl
  · decide
  · simp only [specEscape, List.mem_flatMap] at hx
    obtain ⟨c, _, hc⟩ := hx
    exact specEscapeChar_ne_nl c x hc
  · decide

/-- the next thing the printer writes (before any significant token) is a non-empty layout token -/
def gapNext : List Tok → Bool
  | [] => false
  | .lay s :: ts => if s.toList = [] then gapNext ts else true
  | .ind :: ts => gapNext ts
  | .ded :: ts => gapNext ts
  | _ :: _ => false

/-- the flat rendering `cs` agrees with the printer tokens `ts` (see the header) -/
def Fits : List (List Char × Bool) → List Tok → Prop
  | cs, [] => cs = []
  | cs, .lay s :: ts => s.toList.all isGapC = true ∧ Fits cs ts
  | cs, .ind :: ts => Fits cs ts
  | cs, .ded :: ts => Fits cs ts
  | cs, .var n :: ts => goodNm n.toList = true ∧
      ((∃ b cs', cs = ('$' :: n.toList, b) :: cs' ∧ (b = true → gapNext ts = true) ∧ Fits cs' ts) ∨
       (∃ b cs', cs = (['$'], false) :: (n.toList, b) :: cs' ∧ (b = true → gapNext ts = true) ∧ Fits cs' ts))
  | cs, t :: ts => tokGood t = true ∧
      ∃ b cs', cs = (chars t, b) :: cs' ∧ (b = true → gapNext ts = true) ∧ Fits cs' ts

theorem fits_nil : Fits [] [] := rfl
theorem fits_lay {cs ts} (s : String) (hs : s.toList.all isGapC = true) (h : Fits cs ts) : Fits cs (.lay s :: ts) := by
  simp only [Fits]; exact ⟨hs, h⟩
theorem fits_sp {cs ts} (h : Fits cs ts) : Fits cs (sp :: ts) := fits_lay " " (by decide) h
theorem fits_nl {cs ts} (h : Fits cs ts) : Fits cs (nl :: ts) := fits_lay "\n" (by decide) h
theorem fits_ind {cs ts} (h : Fits cs ts) : Fits cs (.ind :: ts) := by simp only [Fits]; exact h
theorem fits_ded {cs ts} (h : Fits cs ts) : Fits cs (.ded :: ts) := by simp only [Fits]; exact h

theorem fits_p {cs ts} (s : String) (b : Bool) (hg : goodStr s.toList = true) (hb : b = true → gapNext ts = true)
    (h : Fits cs ts) : Fits ((s.toList, b) :: cs) (.p s :: ts) := by
  simp only [Fits, chars]; exact ⟨hg, b, cs, rfl, hb, h⟩
theorem fits_name {cs ts} (s : String) (b : Bool) (hg : goodNm s.toList = true) (hb : b = true → gapNext ts = true)
    (h : Fits cs ts) : Fits ((s.toList, b) :: cs) (.name s :: ts) := by
  simp only [Fits, chars]; exact ⟨hg, b, cs, rfl, hb, h⟩
theorem fits_int {cs ts} (s : String) (b : Bool) (hg : goodNm s.toList = true) (hb : b = true → gapNext ts = true)
    (h : Fits cs ts) : Fits ((s.toList, b) :: cs) (.int s :: ts) := by
  simp only [Fits, chars]; exact ⟨hg, b, cs, rfl, hb, h⟩
theorem fits_float {cs ts} (s : String) (b : Bool) (hg : goodNm s.toList = true) (hb : b = true → gapNext ts = true)
    (h : Fits cs ts) : Fits ((s.toList, b) :: cs) (.float s :: ts) := by
  simp only [Fits, chars]; exact ⟨hg, b, cs, rfl, hb, h⟩
theorem fits_str {cs ts} (v : String) (b : Bool)
    (hb : b = true → gapNext ts = true) (h : Fits cs ts) : Fits ((quoted v.toList, b) :: cs) (.str v :: ts) := by
  simp only [Fits, chars]; exact ⟨rfl, b, cs, rfl, hb, h⟩
/-- a variable as ONE token (`$name` in a value) -/
theorem fits_var {cs ts} (n : String) (b : Bool) (hg : goodNm n.toList = true) (hb : b = true → gapNext ts = true)
    (h : Fits cs ts) : Fits (('$' :: n.toList, b) :: cs) (.var n :: ts) := by
  simp only [Fits]; exact ⟨hg, Or.inl ⟨b, cs, rfl, hb, h⟩⟩
/-- a variable as TWO tokens (`$`, `name` in a variable definition; the printer writes nothing between them) -/
theorem fits_var2 {cs ts} (n : String) (b : Bool) (hg : goodNm n.toList = true) (hb : b = true → gapNext ts = true)
    (h : Fits cs ts) : Fits ((['$'], false) :: (n.toList, b) :: cs) (.var n :: ts) := by
  simp only [Fits]; exact ⟨hg, Or.inr ⟨b, cs, rfl, hb, h⟩⟩

theorem gapNext_append {a : List Tok} (b : List Tok) (h : gapNext a = true) : gapNext (a ++ b) = true := by
  induction a with
  | nil => cases h
  | cons t ts ih =>
    cases t with
    | lay s =>
      simp only [gapNext, List.cons_append] at h ⊢
      split
      · rename_i he; rw [if_pos he] at h; exact ih h
      · rfl
    | ind => exact ih h
    | ded => exact ih h
    | p s => cases h
    | name s => cases h
    | var s => cases h
    | int s => cases h
    | float s => cases h
    | str s => cases h

/-! ### the writer on one token -/

def W (st : WSt) (ts : List Tok) : List Char := runOps false st (ops ts)

theorem goodStr_ne_nl {s : List Char} (h : goodStr s = true) : ∀ x ∈ s, x ≠ '\n' := by
  cases s with
  | nil => cases h
  | cons d r =>
    simp only [goodStr, Bool.and_eq_true, List.all_eq_true, bne_iff_ne] at h
    exact h.2

theorem goodStr_head {s : List Char} (h : goodStr s = true) : ∃ d r, s = d :: r ∧ isGapC d = false := by
  cases s with
  | nil => cases h
  | cons d r =>
    simp only [goodStr, Bool.and_eq_true, Bool.not_eq_true'] at h
    exact ⟨d, r, rfl, h.1⟩

theorem pre_gap (k : Nat) (fl : Bool) : ∀ x ∈ GqlPrint.pre k fl, isGapC x = true := by
  intro x hx
  unfold GqlPrint.pre GqlPrint.spaces at hx
  split at hx
  · rw [(List.mem_replicate.mp hx).2]; rfl
  · cases hx

/-- one chunk without line feed -/
theorem W_write (st : WSt) (c : List Char) (rest : List WOp) (hc : ∀ x ∈ c, x ≠ '\n') (hne : c ≠ []) :
    runOps false st (.write c :: rest) = GqlPrint.pre st.indent st.flag ++ c ++ runOps false ⟨st.indent, false⟩ rest := by
  obtain ⟨k, fl⟩ := st
  rw [C16.runOps_write, C16.writeChars_plain k c hc hne]

theorem W_sig (st : WSt) (t : Tok) (ts : List Tok) (c : List Char) (hops : t.ops = [.write c]) (hg : goodStr c = true) :
    W st (t :: ts) = GqlPrint.pre st.indent st.flag ++ c ++ W ⟨st.indent, false⟩ ts := by
  unfold W
  rw [C16.ops_cons, hops]
  exact W_write st c _ (goodStr_ne_nl hg) (by obtain ⟨d, r, rfl, _⟩ := goodStr_head hg; simp)

theorem W_var (st : WSt) (n : String) (ts : List Tok) (hg : goodStr n.toList = true) :
    W st (.var n :: ts) = GqlPrint.pre st.indent st.flag ++ '$' :: (n.toList ++ W ⟨st.indent, false⟩ ts) := by
  unfold W
  rw [C16.ops_cons]
  simp only [Tok.ops, List.cons_append, List.nil_append]
  rw [W_write st ['$'] _ (by simp) (by simp),
    W_write ⟨st.indent, false⟩ n.toList _ (goodStr_ne_nl hg) (by obtain ⟨d, r, h, _⟩ := goodStr_head hg; simp [h])]
  simp [GqlPrint.pre]

theorem writeChars_gap (s : List Char) (hs : ∀ c ∈ s, isGapC c = true) : ∀ (st : WSt) (d : Bool),
    ∀ x ∈ (writeChars false st d s).1, isGapC x = true := by
  induction s with
  | nil => intro st d x hx; simp [writeChars] at hx
  | cons c cs ih =>
    intro st d x hx
    have hcs : ∀ y ∈ cs, isGapC y = true := fun y hy => hs y (by simp [hy])
    simp only [writeChars] at hx
    split at hx
    · simp only [List.mem_cons] at hx
      rcases hx with rfl | hx
      · rfl
      · exact ih hcs _ _ x hx
    · simp only [Bool.false_eq_true, if_false, List.mem_append, List.mem_cons, List.mem_nil_iff, or_false] at hx
      rcases hx with (hx | rfl) | hx
      · split at hx
        · rw [(List.mem_replicate.mp hx).2]; rfl
        · simp at hx
      · exact hs x (by simp)
      · exact ih hcs _ _ x hx

theorem writeChars_ne_nil (st : WSt) (d : Bool) (x : Char) (xs : List Char) :
    (writeChars false st d (x :: xs)).1 ≠ [] := by
  simp only [writeChars]
  split <;> simp

theorem W_lay (st : WSt) (s : String) (ts : List Tok) :
    W st (.lay s :: ts) = (writeChars false st false s.toList).1 ++ W (writeChars false st false s.toList).2 ts := by
  unfold W
  rw [C16.ops_cons]
  rfl

theorem W_ind (st : WSt) (ts : List Tok) : W st (.ind :: ts) = W { st with indent := st.indent + 2 } ts := by
  unfold W; rw [C16.ops_cons]; rfl
theorem W_ded (st : WSt) (ts : List Tok) : W st (.ded :: ts) = W { st with indent := st.indent - 2 } ts := by
  unfold W; rw [C16.ops_cons]; rfl

/-- after a non-empty layout token the written text begins with a layout character -/
theorem tw_ne_nil_of_gapNext : ∀ (ts : List Tok) (cs : List (List Char × Bool)) (st : WSt), Fits cs ts →
    gapNext ts = true → tw (W st ts) ≠ [] := by
  intro ts
  induction ts with
  | nil => intro cs st _ h; cases h
  | cons t ts ih =>
    intro cs st hf hg
    cases t with
    | lay s =>
      simp only [Fits] at hf
      simp only [gapNext] at hg
      rw [W_lay]
      have hall : ∀ x ∈ (writeChars false st false s.toList).1, isGapC x = true :=
        writeChars_gap _ (fun c hc => List.all_eq_true.mp hf.1 c hc) _ _
      rw [tw_all _ _ hall]
      cases hs : s.toList with
      | nil =>
        rw [hs] at hg
        simp only [if_true] at hg
        simp only [C16.writeChars_nil, List.nil_append]
        exact ih cs st hf.2 hg
      | cons x xs =>
        intro h
        exact writeChars_ne_nil st false x xs (List.append_eq_nil_iff.mp h).1
    | ind => rw [W_ind]; exact ih cs _ (by simpa only [Fits] using hf) (by simpa only [gapNext] using hg)
    | ded => rw [W_ded]; exact ih cs _ (by simpa only [Fits] using hf) (by simpa only [gapNext] using hg)
    | p s => simp [gapNext] at hg
    | name s => simp [gapNext] at hg
    | var s => simp [gapNext] at hg
    | int s => simp [gapNext] at hg
    | float s => simp [gapNext] at hg
    | str s => simp [gapNext] at hg

theorem gapS_of {b : Bool} {t : List Char} (h : b = true → t ≠ []) : gapS b t = t := by
  cases b with
  | false => rfl
  | true => simp [gapS, sepOf, h rfl]

/-- one significant token of the walk: `W = ind ++ c ++ W'` -/
theorem step_sig (pre0 ind c W' : List Char) (b : Bool) (cs : List (List Char × Bool))
    (hind : ∀ x ∈ ind, isGapC x = true) (hg : goodStr c = true) (hb : b = true → tw W' ≠ [])
    (ih : rToks (gaps ((pre0 ++ ind ++ c) ++ W')) ((pre0 ++ ind ++ c).length + (tw W').length) cs = dw W') :
    rToks (gaps (pre0 ++ (ind ++ c ++ W'))) (pre0.length + (tw (ind ++ c ++ W')).length) ((c, b) :: cs) =
      dw (ind ++ c ++ W') := by
  obtain ⟨d, r, rfl, hd⟩ := goodStr_head hg
  have e1 : tw (ind ++ (d :: r) ++ W') = ind := by
    rw [List.append_assoc, tw_all _ _ hind]
    simp [tw_stop d _ hd]
  have e2 : dw (ind ++ (d :: r) ++ W') = (d :: r) ++ W' := by
    rw [List.append_assoc, dw_all _ _ hind]
    exact dw_stop d _ hd
  have e3 : pre0 ++ (ind ++ (d :: r) ++ W') = (pre0 ++ ind ++ (d :: r)) ++ W' := by simp
  rw [e1, e2, e3, rToks_cons]
  have e4 : gaps ((pre0 ++ ind ++ (d :: r)) ++ W') (pre0.length + ind.length + (d :: r).length) = tw W' := by
    have := gaps_at (pre0 ++ ind ++ (d :: r)) W'
    simpa [Nat.add_assoc] using this
  have e5 : tk (gaps ((pre0 ++ ind ++ (d :: r)) ++ W')) b (pre0.length + ind.length) (d :: r) = (d :: r) ++ tw W' := by
    unfold tk
    rw [e4, gapS_of hb]
  rw [e5]
  have e6 : pre0.length + ind.length + ((d :: r) ++ tw W').length = (pre0 ++ ind ++ (d :: r)).length + (tw W').length := by
    simp only [List.length_append]; omega
  rw [e6, ih, List.append_assoc, tw_dw]

/-- **the generic theorem**, general form: from any writer state, after any prefix `pre0` -/
theorem own_render_gen : ∀ (ts : List Tok) (cs : List (List Char × Bool)) (st : WSt) (pre0 : List Char), Fits cs ts →
    (∀ t ∈ ts, tokQ t = true) →
    rToks (gaps (pre0 ++ W st ts)) (pre0.length + (tw (W st ts)).length) cs = dw (W st ts) := by
  intro ts
  induction ts with
  | nil =>
    intro cs st pre0 hf _
    simp only [Fits] at hf
    subst hf
    rfl
  | cons t ts ih =>
    intro cs st pre0 hf hq
    have hq' : ∀ t ∈ ts, tokQ t = true := fun x hx => hq x (List.mem_cons_of_mem _ hx)
    have ih := fun cs st pre0 hf => ih cs st pre0 hf hq'
    have sig : ∀ (c : List Char), t.ops = [.write c] → chars t = c →
        goodStr (chars t) = true →
        (tokGood t = true ∧ ∃ b cs', cs = (chars t, b) :: cs' ∧ (b = true → gapNext ts = true) ∧ Fits cs' ts) →
        rToks (gaps (pre0 ++ W st (t :: ts))) (pre0.length + (tw (W st (t :: ts))).length) cs = dw (W st (t :: ts)) := by
      intro c hops hch hg ⟨_, b, cs', hcs, hb, hf'⟩
      rw [hch] at hg hcs
      subst hcs
      rw [W_sig st t ts c hops hg]
      exact step_sig pre0 _ c _ b cs' (pre_gap _ _) hg (fun hbt => tw_ne_nil_of_gapNext ts cs' _ hf' (hb hbt))
        (ih cs' _ _ hf')
    cases t with
    | lay s =>
      simp only [Fits] at hf
      rw [W_lay]
      have hall : ∀ x ∈ (writeChars false st false s.toList).1, isGapC x = true :=
        writeChars_gap _ (fun c hc => List.all_eq_true.mp hf.1 c hc) _ _
      rw [tw_all _ _ hall, dw_all _ _ hall]
      have := ih cs (writeChars false st false s.toList).2 (pre0 ++ (writeChars false st false s.toList).1) hf.2
      simp only [List.append_assoc, List.length_append, Nat.add_assoc] at this ⊢
      exact this
    | ind => rw [W_ind]; exact ih cs _ pre0 (by simpa only [Fits] using hf)
    | ded => rw [W_ded]; exact ih cs _ pre0 (by simpa only [Fits] using hf)
    | p s =>
      have hf' := by simpa only [Fits] using hf
      exact sig s.toList rfl rfl hf'.1 hf'
    | name s =>
      have hf' := by simpa only [Fits] using hf
      exact sig s.toList rfl rfl (goodNm_goodStr hf'.1) hf'
    | int s =>
      have hf' := by simpa only [Fits] using hf
      exact sig s.toList rfl rfl (goodNm_goodStr hf'.1) hf'
    | float s =>
      have hf' := by simpa only [Fits] using hf
      exact sig s.toList rfl rfl (goodNm_goodStr hf'.1) hf'
    | str s =>
      have e : printString s.toList = quoted s.toList := printString_eq_quoted _ (hq (.str s) (List.mem_cons_self ..))
      exact sig (quoted s.toList) (by simp only [Tok.ops, e]) rfl (goodStr_quoted _) (by simpa only [Fits] using hf)
    | var n =>
      simp only [Fits] at hf
      obtain ⟨hgn, h⟩ := hf
      have hg := goodNm_goodStr hgn
      rcases h with h | h
      · obtain ⟨b, cs', rfl, hb, hf'⟩ := h
        have hg' : goodStr ('$' :: n.toList) = true := by
          have := goodStr_ne_nl hg
          simp only [goodStr, Bool.and_eq_true, List.all_eq_true, bne_iff_ne]
          refine ⟨by decide, ?_⟩
          intro x hx
          rcases List.mem_cons.mp hx with rfl | hx
          · decide
          · exact this x hx
        rw [W_var st n ts hg]
        have := step_sig pre0 (GqlPrint.pre st.indent st.flag) ('$' :: n.toList) (W ⟨st.indent, false⟩ ts) b cs' (pre_gap _ _) hg'
          (fun hbt => tw_ne_nil_of_gapNext ts cs' _ hf' (hb hbt)) (ih cs' _ _ hf')
        simpa using this
      · obtain ⟨b, cs', rfl, hb, hf'⟩ := h
        rw [W_var st n ts hg]
        obtain ⟨d, r, hn, hd⟩ := goodStr_head hg
        -- first `$` (followed by the name: empty gap), then the name
        have h2 := step_sig (pre0 ++ GqlPrint.pre st.indent st.flag ++ ['$']) [] n.toList (W ⟨st.indent, false⟩ ts) b cs'
          (by simp) hg (fun hbt => tw_ne_nil_of_gapNext ts cs' _ hf' (hb hbt))
          (by simpa using ih cs' ⟨st.indent, false⟩ (pre0 ++ GqlPrint.pre st.indent st.flag ++ ['$'] ++ n.toList) hf')
        have h1 := step_sig pre0 (GqlPrint.pre st.indent st.flag) ['$'] (n.toList ++ W ⟨st.indent, false⟩ ts) false
          ((n.toList, b) :: cs') (pre_gap _ _) (by decide) (by simp)
          (by
            have e : tw (n.toList ++ W ⟨st.indent, false⟩ ts) = [] := by rw [hn]; exact tw_stop d _ hd
            have e' : dw (n.toList ++ W ⟨st.indent, false⟩ ts) = n.toList ++ W ⟨st.indent, false⟩ ts := by
              rw [hn]; exact dw_stop d _ hd
            rw [e, e']
            simpa [e, e'] using h2)
        simpa using h1

/-- every name / number / variable token of a fitting token list is a safe chunk for the template writer -/
theorem nameOK_of_fits : ∀ (ts : List Tok) (cs : List (List Char × Bool)), Fits cs ts → ∀ t ∈ ts, t.nameOK = true := by
  intro ts
  induction ts with
  | nil => intro cs _ t ht; cases ht
  | cons x xs ih =>
    intro cs hf t ht
    rcases List.mem_cons.mp ht with rfl | ht'
    · cases t with
      | name s => have hf' := by simpa only [Fits] using hf
                  exact (goodNm_goodText hf'.1).1
      | int s => have hf' := by simpa only [Fits] using hf
                 exact (goodNm_goodText hf'.1).1
      | float s => have hf' := by simpa only [Fits] using hf
                   exact (goodNm_goodText hf'.1).1
      | var n =>
        simp only [Fits] at hf
        have := goodNm_goodText hf.1
        simp [Tok.nameOK, this.1, this.2]
      | _ => rfl
    · cases x with
      | lay s => simp only [Fits] at hf; exact ih cs hf.2 t ht'
      | ind => simp only [Fits] at hf; exact ih cs hf t ht'
      | ded => simp only [Fits] at hf; exact ih cs hf t ht'
      | var n =>
        simp only [Fits] at hf
        rcases hf.2 with ⟨b, cs', _, _, h'⟩ | ⟨b, cs', _, _, h'⟩ <;> exact ih cs' h' t ht'
      | p s => have hf' := by simpa only [Fits] using hf
               obtain ⟨_, b, cs', _, _, h'⟩ := hf'; exact ih cs' h' t ht'
      | name s => have hf' := by simpa only [Fits] using hf
                  obtain ⟨_, b, cs', _, _, h'⟩ := hf'; exact ih cs' h' t ht'
      | int s => have hf' := by simpa only [Fits] using hf
                 obtain ⟨_, b, cs', _, _, h'⟩ := hf'; exact ih cs' h' t ht'
      | float s => have hf' := by simpa only [Fits] using hf
                   obtain ⟨_, b, cs', _, _, h'⟩ := hf'; exact ih cs' h' t ht'
      | str s => have hf' := by simpa only [Fits] using hf
                 obtain ⟨_, b, cs', _, _, h'⟩ := hf'; exact ih cs' h' t ht'

/-- **`own_render`**: if the flat rendering `cs` fits the printer tokens `ts`, then the text `JustWriter` writes for `ts`,
    after any prefix `pre0` of layout characters, is the leading trivia followed by the rendering of `cs` under the
    trivia assignment read off that very text. -/
theorem own_render (ts : List Tok) (cs : List (List Char × Bool)) (pre0 : List Char)
    (hpre : ∀ x ∈ pre0, isGapC x = true) (hf : Fits cs ts) (hq : ∀ t ∈ ts, tokQ t = true) :
    gaps (pre0 ++ text ts) 0 ++ rToks (gaps (pre0 ++ text ts)) (gaps (pre0 ++ text ts) 0).length cs = pre0 ++ text ts := by
  have h := own_render_gen ts cs {} pre0 hf hq
  have e0 : gaps (pre0 ++ text ts) 0 = pre0 ++ tw (W {} ts) := by
    simp only [gaps, List.drop_zero]
    exact tw_all _ _ hpre
  have eT : text ts = W {} ts := rfl
  rw [e0, eT, List.length_append, h, List.append_assoc, tw_dw]

end NitroVerif.C16Own
