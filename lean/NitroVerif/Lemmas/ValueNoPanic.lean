/-
More closed instances of `parse_no_panic` (helper lemmas for Props/C08): the value / argument / directive builders
(builder/value.rs, builder/directives.rs, builder/base.rs) cannot hit a MATCHER or DISPATCH panic on any pair tree the
grammar produces; what remains possible in the model are the text-dependent sites (`TextPanic`).
-/
import NitroVerif.Lemmas.TypeNoPanic
namespace NitroVerif.Shape
open NitroVerif.Peg NitroVerif.Gen NitroVerif.Gen.Parts NitroVerif.Build

/-- panic sites that depend on the TEXT of a pair, not on the rules of its children (plus the model's depth bound) -/
def TextPanic : Panic → Prop
  | .unknownOperationType | .unknownEscape | .hexParse | .invalidCharCode | .splitAt | .emptyChar | .fuel => True
  | _ => False

/-- the computation cannot end in a matcher / dispatch panic -/
def Safe {α} (r : M α) : Prop := ∀ e, r = .error e → TextPanic e

theorem Safe.ok {α} (a : α) : Safe (.ok a : M α) := by intro e h; cases h
theorem Safe.pure {α} (a : α) : Safe (pure a : M α) := Safe.ok a
theorem Safe.err {α} {e : Panic} (h : TextPanic e) : Safe (.error e : M α) := by intro e' h'; cases h'; exact h

theorem Safe.bind {α β} {m : M α} {f : α → M β} (hm : Safe m) (hf : ∀ a, m = .ok a → Safe (f a)) : Safe (m >>= f) := by
  intro e h
  cases hm' : m with
  | error e' =>
    rw [hm'] at h
    have h2 : (Except.error e' : M β) = .error e := h
    cases h2
    exact hm _ hm'
  | ok a =>
    rw [hm'] at h
    exact hf a hm' e h

theorem Safe.map {α β} {m : M α} {f : α → β} (hm : Safe m) : Safe (f <$> m) := by
  intro e h
  cases hm' : m with
  | error e' =>
    rw [hm'] at h
    have h2 : (Except.error e' : M β) = .error e := h
    cases h2
    exact hm _ hm'
  | ok a =>
    rw [hm'] at h
    have h2 : (Except.ok (f a) : M β) = .error e := h
    cases h2

theorem Safe.mapM {α β} {f : α → M β} : ∀ {l : List α}, (∀ x ∈ l, Safe (f x)) → Safe (l.mapM f) := by
  intro l
  induction l with
  | nil => intro _; simp only [List.mapM_nil]; exact Safe.pure _
  | cons x l ih =>
    intro h
    simp only [List.mapM_cons]
    refine Safe.bind (h x (List.mem_cons_self ..)) fun b _ => ?_
    refine Safe.bind (ih fun y hy => h y (List.mem_cons_of_mem _ hy)) fun bs _ => Safe.pure _

/-! ### what the accepted shapes give -/

theorem allAuto_run (r : RuleId) : ∀ (w : List RuleId), (allAuto r).ok 0 w = true → ∀ x ∈ w, x = r := by
  intro w
  induction w with
  | nil => intro _ x hx; cases hx
  | cons a w ih =>
    intro h x hx
    by_cases har : a = r
    · have h' : (allAuto r).ok 0 w = true := by simpa [Auto.ok, Auto.run, allAuto, har] using h
      rcases List.mem_cons.mp hx with rfl | hx
      · exact har
      · exact ih h' x hx
    · simp [Auto.ok, Auto.run, allAuto, har] at h

theorem all_children_of_shape {r : RuleId} {e : Re} (hacc : accepts (.allChildren r) e = true) {cs : List Pair}
    (hm : Mem e (cs.map Pair.rule)) : ∀ c ∈ cs, c.rule = r := by
  have := acceptsA_sound _ _ e hacc _ hm
  intro c hc
  exact allAuto_run r _ this c.rule (List.mem_map_of_mem hc)

theorem allChildren_ok {r : RuleId} {p : Pair} (h : ∀ c ∈ p.children, c.rule = r) : allChildren r p = .ok p.children := by
  have : ∀ cs : List Pair, (∀ c ∈ cs, c.rule = r) → allChildrenGo r cs = .ok () := by
    intro cs
    induction cs with
    | nil => intro _; rfl
    | cons c cs ih =>
      intro hcs
      simp [allChildrenGo, hcs c (List.mem_cons_self ..), ih fun d hd => hcs d (List.mem_cons_of_mem _ hd)]
  simp [allChildren, this _ h, bind, Except.bind]

/-- what a successful `parts!` returns: one entry per item, required ones present, every returned pair of the
    item's rule and one of the children -/
def ResOk : List Item → List (Option Pair) → List Pair → Prop
  | [], [], _ => True
  | .req r :: is, some p :: l, cs => p.rule = r ∧ p ∈ cs ∧ ResOk is l cs
  | .opt r :: is, o :: l, cs => (∀ p, o = some p → p.rule = r ∧ p ∈ cs) ∧ ResOk is l cs
  | _, _, _ => False

theorem matchParts_resOk (cs : List Pair) : ∀ (items : List Item) (cs' : List Pair) (l : List (Option Pair)),
    (∀ p ∈ cs', p ∈ cs) → matchParts items cs' = .ok l → ResOk items l cs := by
  intro items
  induction items with
  | nil => intro cs' l _ h; cases cs' <;> simp [matchParts] at h <;> subst h <;> trivial
  | cons it items ih =>
    intro cs' l hsub h
    cases it with
    | req r =>
      cases cs' with
      | nil => simp [matchParts] at h
      | cons c cs' =>
        simp only [matchParts] at h
        split at h
        · rename_i hc
          cases hm : matchParts items cs' with
          | error e => simp [hm, Except.map] at h
          | ok l' =>
            simp only [hm, Except.map, Except.ok.injEq] at h
            subst h
            exact ⟨hc, hsub c (List.mem_cons_self ..), ih cs' l' (fun p hp => hsub p (List.mem_cons_of_mem _ hp)) hm⟩
        · cases h
    | opt r =>
      cases cs' with
      | nil =>
        simp only [matchParts] at h
        cases hm : matchParts items [] with
        | error e => simp [hm, Except.map] at h
        | ok l' =>
          simp only [hm, Except.map, Except.ok.injEq] at h
          subst h
          exact ⟨fun p hp => (by cases hp), ih [] l' (fun p hp => (by cases hp)) hm⟩
      | cons c cs' =>
        simp only [matchParts] at h
        split at h
        · rename_i hc
          cases hm : matchParts items cs' with
          | error e => simp [hm, Except.map] at h
          | ok l' =>
            simp only [hm, Except.map, Except.ok.injEq] at h
            subst h
            exact ⟨fun p hp => (by cases hp; exact ⟨hc, hsub c (List.mem_cons_self ..)⟩),
              ih cs' l' (fun p hp => hsub p (List.mem_cons_of_mem _ hp)) hm⟩
        · cases hm : matchParts items (c :: cs') with
          | error e => simp [hm, Except.map] at h
          | ok l' =>
            simp only [hm, Except.map, Except.ok.injEq] at h
            subst h
            exact ⟨fun p hp => (by cases hp), ih (c :: cs') l' hsub hm⟩

/-- a pair whose children are in a shape accepted by a `parts` pattern: `matchParts` succeeds with a well-formed result -/
theorem parts_of_shape {items : List Item} {e : Re} (hacc : accepts (.parts items) e = true) {cs : List Pair}
    (hm : Mem e (cs.map Pair.rule)) : ∃ l, matchParts items cs = .ok l ∧ ResOk items l cs := by
  have h1 := acceptsA_sound _ _ e hacc _ hm
  have h2 := matchParts_ok items cs items.length
  rw [h1] at h2
  cases hmp : matchParts items cs with
  | error e => simp [hmp, Except.isOk, Except.toBool] at h2
  | ok l => exact ⟨l, rfl, matchParts_resOk cs items cs l (fun p hp => hp) hmp⟩

end NitroVerif.Shape
