/-
More closed instances of `parse_no_panic` (helper lemmas for Props/C08): the value / argument / directive builders
(builder/value.rs, builder/directives.rs, builder/base.rs) cannot hit a MATCHER or DISPATCH panic on any pair tree the
grammar produces; what remains possible in the model are the text-dependent sites (`TextPanic`).
-/
import NitroVerif.Lemmas.ParseMoreStrLoop
import NitroVerif.Lemmas.TypeNoPanic
namespace NitroVerif.Shape
open NitroVerif.Peg NitroVerif.Gen NitroVerif.Gen.Parts NitroVerif.Build

/-- panic sites that depend on the TEXT of a pair, not on the rules of its children (plus the model's depth bound) -/
def TextPanic : Panic → Prop
  | .unknownOperationType | .unknownEscape | .hexParse | .invalidCharCode | .splitAt | .emptyChar | .fuel => True
  | _ => False

/-- the computation cannot end in a matcher / dispatch panic -/
def Safe {α} (r : M α) : Prop := ∀ e, r = .error e → TextPanic e

theorem Safe.ok {α} (a : α) : Safe (.ok a : M α) := by intro e h; cases h
theorem Safe.pure {α} (a : α) : Safe (pure a : M α) := Safe.ok a
theorem Safe.err {α} {e : Panic} (h : TextPanic e) : Safe (.error e : M α) := by intro e' h'; cases h'; exact h

theorem Safe.bind {α β} {m : M α} {f : α → M β} (hm : Safe m) (hf : ∀ a, m = .ok a → Safe (f a)) : Safe (m >>= f) := by
  intro e h
  cases hm' : m with
  | error e' =>
    rw [hm'] at h
    have h2 : (Except.error e' : M β) = .error e := h
    cases h2
    exact hm _ hm'
  | ok a =>
    rw [hm'] at h
    exact hf a hm' e h

theorem Safe.map {α β} {m : M α} {f : α → β} (hm : Safe m) : Safe (f <$> m) := by
  intro e h
  cases hm' : m with
  | error e' =>
    rw [hm'] at h
    have h2 : (Except.error e' : M β) = .error e := h
    cases h2
    exact hm _ hm'
  | ok a =>
    rw [hm'] at h
    have h2 : (Except.ok (f a) : M β) = .error e := h
    cases h2

theorem Safe.mapM {α β} {f : α → M β} : ∀ {l : List α}, (∀ x ∈ l, Safe (f x)) → Safe (l.mapM f) := by
  intro l
  induction l with
  | nil => intro _; simp only [List.mapM_nil]; exact Safe.pure _
  | cons x l ih =>
    intro h
    simp only [List.mapM_cons]
    refine Safe.bind (h x (List.mem_cons_self ..)) fun b _ => ?_
    refine Safe.bind (ih fun y hy => h y (List.mem_cons_of_mem _ hy)) fun bs _ => Safe.pure _

/-! ### what the accepted shapes give -/

theorem allAuto_run (r : RuleId) : ∀ (w : List RuleId), (allAuto r).ok 0 w = true → ∀ x ∈ w, x = r := by
  intro w
  induction w with
  | nil => intro _ x hx; cases hx
  | cons a w ih =>
    intro h x hx
    by_cases har : a = r
    · have h' : (allAuto r).ok 0 w = true := by simpa [Auto.ok, Auto.run, allAuto, har] using h
      rcases List.mem_cons.mp hx with rfl | hx
      · exact har
      · exact ih h' x hx
    · simp [Auto.ok, Auto.run, allAuto, har] at h

theorem all_children_of_shape {r : RuleId} {e : Re} (hacc : accepts (.allChildren r) e = true) {cs : List Pair}
    (hm : Mem e (cs.map Pair.rule)) : ∀ c ∈ cs, c.rule = r := by
  have := acceptsA_sound _ _ e hacc _ hm
  intro c hc
  exact allAuto_run r _ this c.rule (List.mem_map_of_mem hc)

theorem allChildren_ok {r : RuleId} {p : Pair} (h : ∀ c ∈ p.children, c.rule = r) : allChildren r p = .ok p.children := by
  have : ∀ cs : List Pair, (∀ c ∈ cs, c.rule = r) → allChildrenGo r cs = .ok () := by
    intro cs
    induction cs with
    | nil => intro _; rfl
    | cons c cs ih =>
      intro hcs
      simp [allChildrenGo, hcs c (List.mem_cons_self ..), ih fun d hd => hcs d (List.mem_cons_of_mem _ hd)]
  simp [allChildren, this _ h, bind, Except.bind]

/-- what a successful `parts!` returns: one entry per item, required ones present, every returned pair of the
    item's rule and one of the children -/
def ResOk : List Item → List (Option Pair) → List Pair → Prop
  | [], [], _ => True
  | .req r :: is, some p :: l, cs => p.rule = r ∧ p ∈ cs ∧ ResOk is l cs
  | .opt r :: is, o :: l, cs => (∀ p, o = some p → p.rule = r ∧ p ∈ cs) ∧ ResOk is l cs
  | _, _, _ => False

theorem matchParts_resOk (cs : List Pair) : ∀ (items : List Item) (cs' : List Pair) (l : List (Option Pair)),
    (∀ p ∈ cs', p ∈ cs) → matchParts items cs' = .ok l → ResOk items l cs := by
  intro items
  induction items with
  | nil => intro cs' l _ h; cases cs' <;> simp [matchParts] at h <;> subst h <;> trivial
  | cons it items ih =>
    intro cs' l hsub h
    cases it with
    | req r =>
      cases cs' with
      | nil => simp [matchParts] at h
      | cons c cs' =>
        simp only [matchParts] at h
        split at h
        · rename_i hc
          cases hm : matchParts items cs' with
          | error e => simp [hm, Except.map] at h
          | ok l' =>
            simp only [hm, Except.map, Except.ok.injEq] at h
            subst h
            exact ⟨hc, hsub c (List.mem_cons_self ..), ih cs' l' (fun p hp => hsub p (List.mem_cons_of_mem _ hp)) hm⟩
        · cases h
    | opt r =>
      cases cs' with
      | nil =>
        simp only [matchParts] at h
        cases hm : matchParts items [] with
        | error e => simp [hm, Except.map] at h
        | ok l' =>
          simp only [hm, Except.map, Except.ok.injEq] at h
          subst h
          exact ⟨fun p hp => (by cases hp), ih [] l' (fun p hp => (by cases hp)) hm⟩
      | cons c cs' =>
        simp only [matchParts] at h
        split at h
        · rename_i hc
          cases hm : matchParts items cs' with
          | error e => simp [hm, Except.map] at h
          | ok l' =>
            simp only [hm, Except.map, Except.ok.injEq] at h
            subst h
            exact ⟨fun p hp => (by cases hp; exact ⟨hc, hsub c (List.mem_cons_self ..)⟩),
              ih cs' l' (fun p hp => hsub p (List.mem_cons_of_mem _ hp)) hm⟩
        · cases hm : matchParts items (c :: cs') with
          | error e => simp [hm, Except.map] at h
          | ok l' =>
            simp only [hm, Except.map, Except.ok.injEq] at h
            subst h
            exact ⟨fun p hp => (by cases hp), ih (c :: cs') l' hsub hm⟩

/-- a pair whose children are in a shape accepted by a `parts` pattern: `matchParts` succeeds with a well-formed result -/
theorem parts_of_shape {items : List Item} {e : Re} (hacc : accepts (.parts items) e = true) {cs : List Pair}
    (hm : Mem e (cs.map Pair.rule)) : ∃ l, matchParts items cs = .ok l ∧ ResOk items l cs := by
  have h1 := acceptsA_sound _ _ e hacc _ hm
  have h2 := matchParts_ok items cs items.length
  rw [h1] at h2
  cases hmp : matchParts items cs with
  | error e => simp [hmp, Except.isOk, Except.toBool] at h2
  | ok l => exact ⟨l, rfl, matchParts_resOk cs items cs l (fun p hp => hp) hmp⟩

end NitroVerif.Shape

namespace NitroVerif.Shape
open NitroVerif.Peg NitroVerif.Gen NitroVerif.Gen.Parts NitroVerif.Build

/-! ### acceptance of the sites of value.rs / base.rs / directives.rs, evaluated by the kernel -/

theorem acc_Value : accepts (.onlyChild OC_Value) (ruleShape gList R.Value) = true := by decide +kernel
theorem acc_Variable : accepts (.onlyChild OC_Variable) (ruleShape gList R.Variable) = true := by decide +kernel
theorem acc_BooleanValue : accepts (.onlyChild OC_BooleanValue) (ruleShape gList R.BooleanValue) = true := by decide +kernel
theorem acc_ListValue : accepts (.allChildren AC_ListValue) (ruleShape gList R.ListValue) = true := by decide +kernel
theorem acc_ObjectValue : accepts (.allChildren AC_ObjectValue) (ruleShape gList R.ObjectValue) = true := by decide +kernel
theorem acc_ObjectField : accepts (.parts P_ObjectField) (ruleShape gList R.ObjectField) = true := by decide +kernel
theorem acc_StringValue : accepts (.onlyChild OC_StringValue) (ruleShape gList R.StringValue) = true := by decide +kernel
theorem acc_NormalStringValue : accepts (.allChildren AC_NormalStringValue) (ruleShape gList R.NormalStringValue) = true := by
  decide +kernel
theorem acc_StringCharacter : accepts (.onlyChild OC_StringCharacter) (ruleShape gList R.StringCharacter) = true := by
  decide +kernel
theorem acc_EscapedUnicodeBrace :
    accepts (.onlyChild OC_EscapedUnicodeBrace) (ruleShape gList R.EscapedUnicodeBrace) = true := by decide +kernel
theorem acc_Arguments : accepts (.allChildren AC_Arguments) (ruleShape gList R.Arguments) = true := by decide +kernel
theorem acc_Argument : accepts (.parts P_Argument) (ruleShape gList R.Argument) = true := by decide +kernel
theorem acc_Directives : accepts (.allChildren AC_Directives) (ruleShape gList R.Directives) = true := by decide +kernel
theorem acc_Directive : accepts (.parts P_Directive) (ruleShape gList R.Directive) = true := by decide +kernel

theorem deep_parts {p : Pair} (hd : DeepOk gList p) :
    Mem (ruleShape gList p.rule) (p.children.map Pair.rule) ∧ ∀ c ∈ p.children, DeepOk gList c := by
  cases hd with
  | mk h1 h2 => exact ⟨h1, h2⟩

/-- `only_child()` + dispatch on a pair whose rule has an accepted `onlyChild` site -/
theorem onlyChildOf_of_shape {allowed : List RuleId} (site : String) {p : Pair}
    (hacc : accepts (.onlyChild allowed) (ruleShape gList p.rule) = true) (hd : DeepOk gList p) :
    ∃ c, (allowed = [] ∨ c.rule ∈ allowed) ∧ DeepOk gList c ∧ onlyChildOf allowed site p = .ok c := by
  obtain ⟨hm, hcs⟩ := deep_parts hd
  obtain ⟨c, hc, ha⟩ := only_child_of_shape hacc hm
  refine ⟨c, ha, hcs c (by simp [hc]), ?_⟩
  simp [onlyChildOf, onlyChild, hc, ha, bind, Except.bind]

theorem allChildren_of_shape {r : RuleId} {p : Pair}
    (hacc : accepts (.allChildren r) (ruleShape gList p.rule) = true) (hd : DeepOk gList p) :
    allChildren r p = .ok p.children ∧ ∀ c ∈ p.children, c.rule = r ∧ DeepOk gList c := by
  obtain ⟨hm, hcs⟩ := deep_parts hd
  have h := all_children_of_shape hacc hm
  exact ⟨allChildren_ok h, fun c hc => ⟨h c hc, hcs c hc⟩⟩

/-! ### strings -/

theorem hexDigits_cases (digits : List Char) :
    (∃ n, hexDigitsU32 digits = .ok n) ∨ hexDigitsU32 digits = .error .hexParse := by
  unfold hexDigitsU32
  by_cases h : digits.isEmpty = true
  · simp [h]
  · simp only [h]
    cases hexFold digits 0 with
    | none => simp
    | some n => by_cases hn : n < 4294967296 <;> simp [hn]

theorem parseHex_cases (s : List Char) : (∃ n, parseHexU32 s = .ok n) ∨ parseHexU32 s = .error .hexParse := by
  unfold parseHexU32
  exact hexDigits_cases _

theorem safe_parseHex (s : List Char) : Safe (parseHexU32 s) := by
  intro e h
  rcases parseHex_cases s with ⟨n, hn⟩ | hn
  · rw [hn] at h; cases h
  · rw [hn] at h; cases h; trivial

theorem safe_charFromU32 (n : Nat) : Safe (charFromU32 n) := by
  intro e h
  unfold charFromU32 at h
  split at h
  · cases h
  · cases h; trivial

theorem safe_escapedChar (s : List Char) : Safe (escapedChar s) := by
  intro e h
  unfold escapedChar at h
  repeat' split at h
  all_goals first
    | (cases h; trivial)
    | cases h

theorem safe_decodeChar (ctx : Ctx) (sc : Pair) (hd : DeepOk gList sc) (hr : sc.rule = R.StringCharacter) :
    Safe (decodeChar ctx sc) := by
  obtain ⟨ch, hch, hdch, hoc⟩ := onlyChildOf_of_shape "StringCharacter" (hr ▸ acc_StringCharacter) hd
  unfold decodeChar
  rw [hoc]
  simp only [bind, Except.bind]
  split
  · rename_i h1
    obtain ⟨d, _, _, hod⟩ := onlyChildOf_of_shape "EscapedUnicodeBrace" (h1 ▸ acc_EscapedUnicodeBrace) hdch
    rw [hod]
    exact Safe.bind (safe_parseHex _) fun n _ => safe_charFromU32 n
  · split
    · split
      · exact Safe.err trivial
      · exact Safe.bind (safe_parseHex _) fun n _ => safe_charFromU32 n
    · split
      · exact safe_escapedChar _
      · split
        · split
          · exact Safe.ok _
          · exact Safe.err trivial
        · rename_i h1 h2 h3 h4
          have : ch.rule ∈ OC_StringCharacter := by
            rcases hch with h | h
            · simp [OC_StringCharacter] at h
            · exact h
          simp [OC_StringCharacter, h1, h2, h3, h4] at this

theorem safe_unicode4Code (ctx : Ctx) (ch : Pair) : Safe (unicode4Code ctx ch) := by
  unfold unicode4Code
  dsimp only
  split
  · exact Safe.err trivial
  · exact safe_parseHex _

theorem safe_trailingSurrogate (ctx : Ctx) (ch : Pair) : Safe (trailingSurrogate ctx ch) := by
  by_cases hr : ch.rule = R.EscapedUnicode4
  · cases hc : unicode4Code ctx ch with
    | error e => rw [trailingSurrogate_err ctx hr hc]; exact Safe.err (safe_unicode4Code ctx ch e hc)
    | ok c => rw [trailingSurrogate_u4 ctx hr hc]; exact Safe.ok _
  · rw [trailingSurrogate_other ctx hr]; exact Safe.ok _

/-- the loop of `build_string_value` (fix fff8e9c: surrogate pairs) cannot end in a matcher / dispatch panic -/
theorem safe_decodeChars (ctx : Ctx) : ∀ (l : List Pair), (∀ sc ∈ l, sc.rule = R.StringCharacter ∧ DeepOk gList sc) →
    ∀ skip, Safe (decodeChars ctx skip l) := by
  intro l
  induction l with
  | nil => intro _ skip; rw [decodeChars_nil]; exact Safe.ok _
  | cons sc rest ih =>
    intro h skip
    have ih' := ih fun x hx => h x (List.mem_cons_of_mem _ hx)
    cases skip with
    | true => rw [decodeChars_skip]; exact ih' false
    | false =>
      obtain ⟨hr, hd⟩ := h sc (List.mem_cons_self ..)
      obtain ⟨ch, hch, hdch, hoc⟩ := onlyChildOf_of_shape "StringCharacter" (hr ▸ acc_StringCharacter) hd
      by_cases hu : ch.rule = R.EscapedUnicode4
      · cases hcode : unicode4Code ctx ch with
        | error e => rw [decodeChars_err_code ctx rest hoc hu hcode]; exact Safe.err (safe_unicode4Code ctx ch e hcode)
        | ok code =>
          have hpeek : Safe (peekTrailing ctx rest) := by
            cases rest with
            | nil => rw [peekTrailing_nil]; exact Safe.ok _
            | cons sc2 r2 =>
              obtain ⟨hr2, hd2⟩ := h sc2 (List.mem_cons_of_mem _ (List.mem_cons_self ..))
              obtain ⟨ch2, _, _, hoc2⟩ := onlyChildOf_of_shape "StringCharacter" (hr2 ▸ acc_StringCharacter) hd2
              rw [peekTrailing_cons ctx r2 (onlyChild_of_onlyChildOf hoc2)]
              exact safe_trailingSurrogate ctx ch2
          cases hpk : peekTrailing ctx rest with
          | error e => rw [decodeChars_err_peek ctx rest hoc hu hcode hpk]; exact Safe.err (hpeek e hpk)
          | ok tr =>
            rw [decodeChars_u4 ctx rest hoc hu hcode hpk]
            cases tr with
            | none => exact Safe.bind (safe_charFromU32 _) fun c _ => Safe.map (ih' false)
            | some t =>
              show Safe (if isLeadSurrogate code = true then _ else _)
              by_cases hl : isLeadSurrogate code = true
              · rw [if_pos hl]
                exact Safe.bind (safe_charFromU32 _) fun c _ => Safe.map (ih' true)
              · rw [if_neg hl]
                exact Safe.bind (safe_charFromU32 _) fun c _ => Safe.map (ih' false)
      · rw [decodeChars_other ctx rest hoc hu]
        exact Safe.bind (safe_decodeChar ctx sc hd hr) fun c _ => Safe.map (ih' false)

theorem safe_stringValueChars (ctx : Ctx) (p : Pair) (hd : DeepOk gList p) (hr : p.rule = R.StringValue) :
    Safe (stringValueChars ctx p) := by
  obtain ⟨c, hc, hdc, hoc⟩ := onlyChildOf_of_shape "StringValue" (hr ▸ acc_StringValue) hd
  unfold stringValueChars
  rw [hoc]
  simp only [bind, Except.bind]
  split
  · exact Safe.ok _
  · split
    · split
      · exact Safe.err trivial
      · exact Safe.ok _
    · split
      · rename_i h1 h2 h3
        obtain ⟨_, hall⟩ := allChildren_of_shape (h3 ▸ acc_NormalStringValue) hdc
        refine Safe.bind (safe_decodeChars ctx _ hall false) fun cs _ => Safe.ok _
      · rename_i h1 h2 h3
        have : c.rule ∈ OC_StringValue := by
          rcases hc with h | h
          · simp [OC_StringValue] at h
          · exact h
        simp [OC_StringValue, h1, h2, h3] at this

theorem safe_buildStringValue (ctx : Ctx) (p : Pair) (hd : DeepOk gList p) (hr : p.rule = R.StringValue) :
    Safe (buildStringValue ctx p) := by
  unfold buildStringValue
  exact Safe.bind (safe_stringValueChars ctx p hd hr) fun ⟨cs, pos⟩ _ => Safe.ok _

theorem safe_buildVariable (ctx : Ctx) (p : Pair) (hd : DeepOk gList p) (hr : p.rule = R.Variable) :
    Safe (buildVariable ctx p) := by
  obtain ⟨c, _, _, hoc⟩ := onlyChildOf_of_shape "Variable" (hr ▸ acc_Variable) hd
  unfold buildVariable
  rw [hoc]
  exact Safe.ok _

end NitroVerif.Shape

namespace NitroVerif.Shape
open NitroVerif.Peg NitroVerif.Gen NitroVerif.Gen.Parts NitroVerif.Build

theorem resOk_req_req {a b : RuleId} {l : List (Option Pair)} {cs : List Pair} (h : ResOk [.req a, .req b] l cs) :
    ∃ p q, l = [some p, some q] ∧ p.rule = a ∧ q.rule = b ∧ p ∈ cs ∧ q ∈ cs := by
  rcases l with _ | ⟨o1, _ | ⟨o2, _ | ⟨o3, l⟩⟩⟩
  · simp [ResOk] at h
  · cases o1 <;> simp [ResOk] at h
  · cases o1 <;> cases o2 <;> simp [ResOk] at h
    rename_i p q
    exact ⟨p, q, rfl, h.1, h.2.2.1, h.2.1, h.2.2.2⟩
  · cases o1 <;> cases o2 <;> simp [ResOk] at h

theorem resOk_req_opt {a b : RuleId} {l : List (Option Pair)} {cs : List Pair} (h : ResOk [.req a, .opt b] l cs) :
    ∃ p o, l = [some p, o] ∧ p.rule = a ∧ p ∈ cs ∧ ∀ q, o = some q → q.rule = b ∧ q ∈ cs := by
  rcases l with _ | ⟨o1, _ | ⟨o2, _ | ⟨o3, l⟩⟩⟩
  · simp [ResOk] at h
  · cases o1 <;> simp [ResOk] at h
  · cases o1 <;> simp [ResOk] at h
    rename_i p
    exact ⟨p, o2, rfl, h.1, h.2.1, h.2.2⟩
  · cases o1 <;> simp [ResOk] at h

theorem safe_buildValue (ctx : Ctx) : ∀ fuel p, DeepOk gList p → p.rule = R.Value → Safe (buildValue ctx fuel p) := by
  intro fuel
  induction fuel with
  | zero => intro p _ _; simp only [buildValue]; exact Safe.err trivial
  | succ fuel ih =>
    intro p hd hr
    obtain ⟨c, hc, hdc, hoc⟩ := onlyChildOf_of_shape "Value" (hr ▸ acc_Value) hd
    simp only [buildValue]
    rw [hoc]
    simp only [bind, Except.bind]
    split
    · rename_i h1
      exact Safe.bind (safe_buildVariable ctx c hdc h1) fun ⟨n, vp⟩ _ => Safe.ok _
    · split
      · exact Safe.ok _
      · split
        · exact Safe.ok _
        · split
          · rename_i h1
            exact Safe.bind (safe_buildStringValue ctx c hdc h1) fun ⟨s, sp⟩ _ => Safe.ok _
          · split
            · rename_i h1
              obtain ⟨kw, hkw, _, hok⟩ := onlyChildOf_of_shape "BooleanValue" (h1 ▸ acc_BooleanValue) hdc
              rw [hok]
              dsimp only
              split
              · exact Safe.ok _
              · split
                · exact Safe.ok _
                · rename_i k1 k2
                  rcases hkw with h | h
                  · simp [OC_BooleanValue] at h
                  · simp [OC_BooleanValue, k1, k2] at h
            · split
              · exact Safe.ok _
              · split
                · exact Safe.ok _
                · split
                  · rename_i h1
                    obtain ⟨hall, hcs⟩ := allChildren_of_shape (h1 ▸ acc_ListValue) hdc
                    rw [hall]
                    dsimp only
                    refine Safe.bind (Safe.mapM fun v hv => ?_) fun vs _ => Safe.ok _
                    exact ih v (hcs v hv).2 (hcs v hv).1
                  · split
                    · rename_i h1
                      obtain ⟨hall, hcs⟩ := allChildren_of_shape (h1 ▸ acc_ObjectValue) hdc
                      rw [hall]
                      dsimp only
                      refine Safe.bind (Safe.mapM fun f hf => ?_) fun fs _ => Safe.ok _
                      obtain ⟨hfr, hfd⟩ := hcs f hf
                      obtain ⟨hm, hfcs⟩ := deep_parts hfd
                      have hfr' : f.rule = R.ObjectField := hfr
                      obtain ⟨l, hl, hres⟩ := parts_of_shape (hfr' ▸ acc_ObjectField) hm
                      obtain ⟨n, v, rfl, _, hvr, _, hvm⟩ := resOk_req_req hres
                      try dsimp only
                      rw [hl]
                      simp only [get2]
                      exact Safe.bind (ih v (hfcs v hvm) hvr) fun v' _ => Safe.ok _
                    · rename_i h1 h2 h3 h4 h5 h6 h7 h8 h9
                      rcases hc with h | h
                      · simp [OC_Value] at h
                      · simp [OC_Value, h1, h2, h3, h4, h5, h6, h7, h8, h9] at h

theorem safe_buildArguments (ctx : Ctx) (fuel : Nat) (p : Pair) (hd : DeepOk gList p) (hr : p.rule = R.Arguments) :
    Safe (buildArguments ctx fuel p) := by
  obtain ⟨hall, hcs⟩ := allChildren_of_shape (hr ▸ acc_Arguments) hd
  unfold buildArguments
  rw [hall]
  simp only [bind, Except.bind]
  refine Safe.mapM fun a ha => ?_
  obtain ⟨har, had⟩ := hcs a ha
  obtain ⟨hm, hacs⟩ := deep_parts had
  have har' : a.rule = R.Argument := har
  obtain ⟨l, hl, hres⟩ := parts_of_shape (har' ▸ acc_Argument) hm
  obtain ⟨n, v, rfl, _, hvr, _, hvm⟩ := resOk_req_req hres
  try dsimp only
  rw [hl]
  simp only [get2]
  exact Safe.bind (safe_buildValue ctx fuel v (hacs v hvm) hvr) fun v' _ => Safe.ok _

theorem safe_buildDirectives (ctx : Ctx) (fuel : Nat) (p : Pair) (hd : DeepOk gList p) (hr : p.rule = R.Directives) :
    Safe (buildDirectives ctx fuel p) := by
  obtain ⟨hall, hcs⟩ := allChildren_of_shape (hr ▸ acc_Directives) hd
  unfold buildDirectives
  rw [hall]
  simp only [bind, Except.bind]
  refine Safe.mapM fun d hdm => ?_
  obtain ⟨hdr, hdd⟩ := hcs d hdm
  obtain ⟨hm, hdcs⟩ := deep_parts hdd
  have hdr' : d.rule = R.Directive := hdr
  obtain ⟨l, hl, hres⟩ := parts_of_shape (hdr' ▸ acc_Directive) hm
  obtain ⟨n, o, rfl, _, _, ho⟩ := resOk_req_opt hres
  try dsimp only
  rw [hl]
  try dsimp only
  cases o with
  | none => simp only [optArgs]; exact Safe.ok _
  | some a =>
    obtain ⟨har, ham⟩ := ho a rfl
    simp only [optArgs]
    exact Safe.bind (safe_buildArguments ctx fuel a (hdcs a ham) har) fun args _ => Safe.ok _

end NitroVerif.Shape
