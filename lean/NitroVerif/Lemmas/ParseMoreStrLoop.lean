/-
The loop of `build_string_value` over the characters of a normal string (fix fff8e9c: a surrogate pair `\uHHHH\uLLLL` is one
supplementary character), unfolded clause by clause (helper lemmas for Props/C07 `string_decode_general` and Props/C08
`parse_no_panic`). `Build.decodeChars ctx skip l`: `skip = true` — the head of `l` is the trailing surrogate that
`characters.next()` already consumed. Plus the arithmetic of a pair: its code is always a scalar value.
-/
import NitroVerif.Model.Build
namespace NitroVerif.Build
open NitroVerif.Peg NitroVerif.Gen NitroVerif.Gen.Parts NitroVerif

theorem onlyChild_of_onlyChildOf {allowed : List RuleId} {site : String} {p c : Pair}
    (h : onlyChildOf allowed site p = .ok c) : onlyChild p = .ok c := by
  unfold onlyChildOf at h
  cases ho : onlyChild p with
  | error e => rw [ho] at h; cases h
  | ok c' =>
    rw [ho] at h
    have h' : (if allowed.isEmpty || allowed.contains c'.rule then (Except.ok c' : M Pair)
        else .error (.unexpectedRule site c'.rule)) = .ok c := h
    split at h'
    · cases h'; rfl
    · cases h'

/-- what the loop does after a `\uXXXX` escape with code `code`, given what it peeked -/
def u4Arm (ctx : Ctx) (code : Nat) (rest : List Pair) : Option Nat → M (List Char)
  | some t =>
    if isLeadSurrogate code then do
      let c ← charFromU32 (surrogatePairCode code t)
      (c :: ·) <$> decodeChars ctx true rest
    else do
      let c ← charFromU32 code
      (c :: ·) <$> decodeChars ctx false rest
  | none => do
    let c ← charFromU32 code
    (c :: ·) <$> decodeChars ctx false rest

theorem decodeChars_nil (ctx : Ctx) (skip : Bool) : decodeChars ctx skip [] = .ok [] := by
  cases skip <;> rw [decodeChars]

theorem decodeChars_skip (ctx : Ctx) (sc : Pair) (rest : List Pair) :
    decodeChars ctx true (sc :: rest) = decodeChars ctx false rest := by rw [decodeChars]

theorem decodeChars_err_child (ctx : Ctx) {sc : Pair} (rest : List Pair) {e : Panic}
    (hoc : onlyChildOf OC_StringCharacter "StringCharacter" sc = .error e) :
    decodeChars ctx false (sc :: rest) = .error e := by
  rw [decodeChars, hoc]; rfl

theorem decodeChars_other (ctx : Ctx) {sc : Pair} (rest : List Pair) {ch : Pair}
    (hoc : onlyChildOf OC_StringCharacter "StringCharacter" sc = .ok ch) (hne : ch.rule ≠ R.EscapedUnicode4) :
    decodeChars ctx false (sc :: rest) = (do let c ← decodeChar ctx sc; (c :: ·) <$> decodeChars ctx false rest) := by
  rw [decodeChars, hoc]
  show (if ch.rule = R.EscapedUnicode4 then _ else _) = _
  rw [if_neg hne]

theorem decodeChars_u4 (ctx : Ctx) {sc : Pair} (rest : List Pair) {ch : Pair} {code : Nat} {tr : Option Nat}
    (hoc : onlyChildOf OC_StringCharacter "StringCharacter" sc = .ok ch) (hr : ch.rule = R.EscapedUnicode4)
    (hcode : unicode4Code ctx ch = .ok code) (hpk : peekTrailing ctx rest = .ok tr) :
    decodeChars ctx false (sc :: rest) = u4Arm ctx code rest tr := by
  rw [decodeChars, hoc]
  show (if ch.rule = R.EscapedUnicode4 then _ else _) = _
  rw [if_pos hr, hcode]
  show (peekTrailing ctx rest >>= _) = _
  rw [hpk]
  cases tr <;> rfl

theorem decodeChars_err_code (ctx : Ctx) {sc : Pair} (rest : List Pair) {ch : Pair} {e : Panic}
    (hoc : onlyChildOf OC_StringCharacter "StringCharacter" sc = .ok ch) (hr : ch.rule = R.EscapedUnicode4)
    (hcode : unicode4Code ctx ch = .error e) : decodeChars ctx false (sc :: rest) = .error e := by
  rw [decodeChars, hoc]
  show (if ch.rule = R.EscapedUnicode4 then _ else _) = _
  rw [if_pos hr, hcode]
  rfl

theorem decodeChars_err_peek (ctx : Ctx) {sc : Pair} (rest : List Pair) {ch : Pair} {code : Nat} {e : Panic}
    (hoc : onlyChildOf OC_StringCharacter "StringCharacter" sc = .ok ch) (hr : ch.rule = R.EscapedUnicode4)
    (hcode : unicode4Code ctx ch = .ok code) (hpk : peekTrailing ctx rest = .error e) :
    decodeChars ctx false (sc :: rest) = .error e := by
  rw [decodeChars, hoc]
  show (if ch.rule = R.EscapedUnicode4 then _ else _) = _
  rw [if_pos hr, hcode]
  show (peekTrailing ctx rest >>= _) = _
  rw [hpk]
  rfl

theorem peekTrailing_nil (ctx : Ctx) : peekTrailing ctx [] = .ok none := rfl

theorem peekTrailing_cons (ctx : Ctx) {sc : Pair} (rest : List Pair) {ch : Pair} (h : onlyChild sc = .ok ch) :
    peekTrailing ctx (sc :: rest) = trailingSurrogate ctx ch := by
  rw [peekTrailing, h]; rfl

theorem peekTrailing_err (ctx : Ctx) {sc : Pair} (rest : List Pair) {e : Panic} (h : onlyChild sc = .error e) :
    peekTrailing ctx (sc :: rest) = .error e := by
  rw [peekTrailing, h]; rfl

theorem trailingSurrogate_other (ctx : Ctx) {ch : Pair} (h : ch.rule ≠ R.EscapedUnicode4) :
    trailingSurrogate ctx ch = .ok none := by
  rw [trailingSurrogate, if_pos h]

theorem trailingSurrogate_u4 (ctx : Ctx) {ch : Pair} {c : Nat} (h : ch.rule = R.EscapedUnicode4)
    (hc : unicode4Code ctx ch = .ok c) :
    trailingSurrogate ctx ch = .ok (if isTrailSurrogate c then some c else none) := by
  rw [trailingSurrogate, if_neg (by simpa using h), hc]; rfl

theorem trailingSurrogate_err (ctx : Ctx) {ch : Pair} {e : Panic} (h : ch.rule = R.EscapedUnicode4)
    (hc : unicode4Code ctx ch = .error e) : trailingSurrogate ctx ch = .error e := by
  rw [trailingSurrogate, if_neg (by simpa using h), hc]; rfl

/-! ### the arithmetic of a surrogate pair -/

theorem isLead_iff {n : Nat} : isLeadSurrogate n = true ↔ 0xD800 ≤ n ∧ n ≤ 0xDBFF := by
  simp [isLeadSurrogate]
theorem isTrail_iff {n : Nat} : isTrailSurrogate n = true ↔ 0xDC00 ≤ n ∧ n ≤ 0xDFFF := by
  simp [isTrailSurrogate]

theorem surrogatePairCode_eq (a b : Nat) : surrogatePairCode a b = 0x10000 + (a - 0xD800) * 0x400 + (b - 0xDC00) := by
  unfold surrogatePairCode
  rw [Nat.shiftLeft_eq]

/-- the code of a leading and a trailing surrogate is a supplementary scalar value: `char::from_u32(..).expect(..)` in the
    pair arm of `build_string_value` cannot fail -/
theorem surrogatePair_valid {a b : Nat} (ha : isLeadSurrogate a = true) (hb : isTrailSurrogate b = true) :
    validScalar (surrogatePairCode a b) = true ∧ 0x10000 ≤ surrogatePairCode a b ∧ surrogatePairCode a b ≤ 0x10FFFF := by
  rw [isLead_iff] at ha
  rw [isTrail_iff] at hb
  rw [surrogatePairCode_eq]
  refine ⟨?_, by omega, by omega⟩
  simp only [validScalar, Bool.or_eq_true, decide_eq_true_eq, Bool.and_eq_true]
  omega

theorem lead_not_valid {n : Nat} (h : isLeadSurrogate n = true) : validScalar n = false := by
  rw [isLead_iff] at h
  simp only [validScalar, Bool.or_eq_false_iff, decide_eq_false_iff_not, Bool.and_eq_false_imp, decide_eq_true_eq]
  omega

theorem trail_not_valid {n : Nat} (h : isTrailSurrogate n = true) : validScalar n = false := by
  rw [isTrail_iff] at h
  simp only [validScalar, Bool.or_eq_false_iff, decide_eq_false_iff_not, Bool.and_eq_false_imp, decide_eq_true_eq]
  omega

theorem valid_or_surrogate {n : Nat} (h1 : isLeadSurrogate n = false) (h2 : isTrailSurrogate n = false)
    (h3 : n ≤ 0x10FFFF) : validScalar n = true := by
  simp only [isLeadSurrogate, isTrailSurrogate, Bool.and_eq_false_imp, decide_eq_true_eq, decide_eq_false_iff_not] at h1 h2
  simp only [validScalar, Bool.or_eq_true, decide_eq_true_eq, Bool.and_eq_true]
  omega

end NitroVerif.Build
