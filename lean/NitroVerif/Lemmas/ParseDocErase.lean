/-
The documents returned by the round trip differ from the given ones only in positions (helper lemmas for Props/C07Doc):
`erasePos (wpDoc …) = erasePos doc`, with the position-erasing functions of `Spec/ReadDoc.lean`.
-/
import NitroVerif.Lemmas.ParseDocExec
import NitroVerif.Spec.ReadDoc
namespace NitroVerif.DocParse
open NitroVerif.Peg NitroVerif.Gen NitroVerif.Build NitroVerif.TypeParse NitroVerif.StringParse
open NitroVerif.Gql NitroVerif.ValueParse NitroVerif.ReadDoc

set_option linter.unusedSimpArgs false

theorem mapItems_map {α β γ : Type} (ri : Bool → Nat → α → List Char) (sm sl : Bool) (f : Bool → Nat → α → β)
    (g : β → γ) (g' : α → γ) (h : ∀ s p a, g (f s p a) = g' a) : ∀ (as : List α) (p : Nat),
    (mapItems ri sm sl f p as).map g = as.map g' := by
  intro as
  induction as with
  | nil => intro p; rfl
  | cons a r ih =>
    intro p
    cases r with
    | nil => simp [mapItems, h]
    | cons b r => simp only [mapItems, List.map_cons, h, ih]

theorem eraseDir_withPosD (τ : Trivia) (inp : List Char) (q : Nat) (d : Directive) :
    eraseDir (withPosD τ inp q d) = eraseDir d := by
  simp [eraseDir, withPosD, eraseArgs, withPosFs_erase]

theorem erase_wpDirs (τ : Trivia) (inp : List Char) (sep : Bool) (p : Nat) (ds : List Directive) :
    (wpDirs τ inp sep p ds).map eraseDir = ds.map eraseDir :=
  mapItems_map _ _ _ _ eraseDir eraseDir (fun _ q d => eraseDir_withPosD τ inp q d) ds p

theorem erase_wpAlias (inp : List Char) (p : Nat) (al : Option (Name × Pos)) :
    eraseOptName (wpAlias inp p al) = eraseOptName al := by
  cases al with
  | none => rfl
  | some a => rfl

theorem erase_wpCond (τ : Trivia) (inp : List Char) (p : Nat) (c : Option (Name × Pos)) :
    eraseOptName (wpCond τ inp p c) = eraseOptName c := by
  cases c with
  | none => rfl
  | some a => rfl

mutual
theorem erase_wpSel (τ : Trivia) (inp : List Char) : (s : Selection) → ∀ sep p,
    eraseSel (wpSel τ inp sep p s) = eraseSel s
  | .field al n np args dirs none => fun sep p => by
    simp [wpSel, wpField, eraseSel, erase_wpAlias, erase_wpDirs, eraseArgs, withPosFs_erase]
  | .field al n np args dirs (some ss) => fun sep p => by
    simp [wpSel, wpField, eraseSel, erase_wpAlias, erase_wpDirs, eraseArgs, withPosFs_erase, erase_wpSels τ inp ss]
  | .spread n np dirs pos => fun sep p => by simp [wpSel, eraseSel, erase_wpDirs]
  | .inline c dirs ss pos => fun sep p => by
    simp [wpSel, eraseSel, erase_wpCond, erase_wpDirs, erase_wpSels τ inp ss]
theorem erase_wpSels (τ : Trivia) (inp : List Char) : (ss : List Selection) → ∀ p,
    eraseSels (wpSels τ inp p ss) = eraseSels ss
  | [] => fun p => by simp [wpSels, eraseSels]
  | [s] => fun p => by simp [wpSels, eraseSels, erase_wpSel τ inp s]
  | s :: t :: r => fun p => by
    simp [wpSels, eraseSels, erase_wpSel τ inp s, erase_wpSels τ inp (t :: r)]
end

theorem erase_wpType (τ : Trivia) (inp : List Char) (t : GType) : ∀ p, (wpType τ inp p t).erasePos = t.erasePos := by
  induction t with
  | named n pos => intro p; simp [wpType, GType.erasePos]
  | list t pos ih => intro p; simp [wpType, GType.erasePos, ih]
  | nonNull t ih => intro p; simp [wpType, GType.erasePos, ih]

theorem erase_wpVarDef (τ : Trivia) (inp : List Char) (sep : Bool) (p : Nat) (v : VarDef) :
    eraseVarDef (wpVarDef τ inp sep p v) = eraseVarDef v := by
  cases hd : v.default with
  | none => simp [eraseVarDef, wpVarDef, erase_wpType, erase_wpDirs, hd, wpOptDefault]
  | some d => simp [eraseVarDef, wpVarDef, erase_wpType, erase_wpDirs, hd, wpOptDefault, withPosV_erase]

theorem erase_wpVarDefs (τ : Trivia) (inp : List Char) (p : Nat) (vs : List VarDef) :
    (wpVarDefs τ inp p vs).map eraseVarDef = vs.map eraseVarDef :=
  mapItems_map _ _ _ _ eraseVarDef eraseVarDef (fun s q v => erase_wpVarDef τ inp s q v) vs p

theorem erase_wpOp (τ : Trivia) (inp : List Char) (p : Nat) (o : OperationDef) : eraseOp (wpOp τ inp p o) = eraseOp o := by
  cases hn : o.name with
  | none => simp [eraseOp, wpOp, erase_wpVarDefs, erase_wpDirs, erase_wpSels, hn, eraseOptName]
  | some a => simp [eraseOp, wpOp, erase_wpVarDefs, erase_wpDirs, erase_wpSels, hn, eraseOptName]

theorem erase_wpOpShort (τ : Trivia) (inp : List Char) (p : Nat) (o : OperationDef) (h : isPlain o = true) :
    eraseOp (wpOpShort τ inp p o) = eraseOp o := by
  simp only [isPlain, Bool.and_eq_true, beq_iff_eq, Option.isNone_iff_eq_none, List.isEmpty_iff] at h
  obtain ⟨⟨⟨hk, hn⟩, hv⟩, hd⟩ := h
  have hk' : o.kind = .query := by
    cases hkk : o.kind with
    | query => rfl
    | mutation => rw [hkk] at hk; exact absurd hk (by decide)
    | subscription => rw [hkk] at hk; exact absurd hk (by decide)
  simp [eraseOp, wpOpShort, erase_wpSels, hk', hn, hv, hd, eraseOptName]

theorem erase_wpFrag (τ : Trivia) (inp : List Char) (p : Nat) (f : FragmentDef) :
    eraseFrag (wpFrag τ inp p f) = eraseFrag f := by
  simp [eraseFrag, wpFrag, erase_wpDirs, erase_wpSels]

theorem erase_wpDef (τ : Trivia) (inp : List Char) (sh : Nat → Bool) (sep : Bool) (p : Nat) (d : ExecDef) :
    eraseDef (wpDef τ inp sh sep p d) = eraseDef d := by
  cases d with
  | op o =>
    simp only [wpDef]
    split
    · rename_i hc
      simp only [Bool.and_eq_true] at hc
      simp [eraseDef, erase_wpOpShort τ inp p o hc.2]
    · simp [eraseDef, erase_wpOp]
  | frag f => simp [wpDef, eraseDef, erase_wpFrag]
  | imp i => rfl

/-- the document returned by the round trip is the given one up to positions -/
theorem erase_wpDoc (τ : Trivia) (sh : Nat → Bool) (inp : List Char) (doc : List ExecDef) :
    erasePos (wpDoc τ sh inp doc) = erasePos doc :=
  mapItems_map _ _ _ _ eraseDef eraseDef (fun s q d => erase_wpDef τ inp sh s q d) doc _

end NitroVerif.DocParse
