/-
The defect the refinement proof found (repaired in /repo dda35cd): the witness document

    query($v: Boolean!) { a: a @skip(if: $v) { x }   a { y } }

is spec-valid (both fields are `a` with the same arguments), but the PRE-REPAIR printer (`implTreeOld`) put every aliased
field — also `a: a` — into `Others` and the unaliased `a` into `Obj` of ONE `__SelectionSet`, so the two sub-selections were
never merged: for v = false the key `a` got the intersection of `{x} | null` and `{y} | null`, for v = true the intersection
with `a?: never`.  Helper lemmas for the kernel-checked counterexample in Props/C01.lean, the repaired model's type, and the
value with a repeated record key.
-/
import NitroVerif.Lemmas.OpTypesRefWitness
namespace NitroVerif.OpTypes.Ref.Cex
open NitroVerif.Gql NitroVerif.Ts NitroVerif.Exec NitroVerif.OpTypes NitroVerif.OpTypes.W

def selY : List Selection := [.field none "y" {} [] [] none]

/-- `{ a: a @skip(if: $v) { x }  a { y } }` -/
def selAA : List Selection :=
  [.field (some ("a", {})) "a" {} [] [skipV] (some selX), .field none "a" {} [] [] (some selY)]

/-- the response for v = true: `{ a: { y: "s" } }` -/
def respY : J := .obj [("y", .str "s")]
def resp : J := .obj [("a", respY)]

def oQuery : Ty := .other "abs" ["Schema", "__OperationOutput", "Query"]
def oA : Ty := .other "abs" ["Schema", "__OperationOutput", "A"]
def sset : Ty := .other "abs" ["Schema", "__SelectionSet"]
def objX : List Field := [("x", false, false, tInt)]
def objY : List Field := [("y", false, false, tStr)]
def tyX : Ty := .union [.app sset [oA, .obj objX, .obj []], .prim "null"]
def tyY : Ty := .union [.app sset [oA, .obj objY, .obj []], .prim "null"]
def br1 : Ty := .app sset [oQuery, .obj [("a", false, false, tyY)], .obj [("a", false, false, tyX)]]
def br2 : Ty := .app sset [oQuery, .obj [("a", false, false, tyY)], .obj [("a", false, true, .prim "never")]]
/-- the (closed) result type the PRE-REPAIR printer emitted -/
def ty : Ty := .union [br1, br2]

theorem tree_ty : ((implTreeOld W.S W.noFrags 16 16 (.nonNull (.named "Query" {})) selAA).toOption.map
    fun t => W.close (toTs "Schema" t)) = some ty := by rfl

def objXY' : List Field := [("x", false, false, tInt), ("y", false, false, tStr)]
def tyXY : Ty := .union [.app sset [oA, .obj objXY', .obj []], .prim "null"]
/-- the (closed) result type the REPAIRED printer emits: `a: a {x}` and `a {y}` are merged -/
def tyNew : Ty :=
  .union [.app sset [oQuery, .obj [("a", false, false, tyXY)], .obj []],
          .app sset [oQuery, .obj [("a", false, false, tyY)], .obj []]]

theorem tree_tyNew : ((implTree W.S W.noFrags 16 16 (.nonNull (.named "Query" {})) selAA).toOption.map
    fun t => W.close (toTs "Schema" t)) = some tyNew := by rfl

theorem resp_mem_new : Mem W.env resp tyNew := by
  apply memG_sound 12; decide +kernel

set_option maxRecDepth 16384 in
theorem hook1 : W.env.appHook W.env.decls sset [oQuery, .obj [("a", false, false, tyY)], .obj [("a", false, false, tyX)]]
    = some (.obj [("a", false, false, .inter [tyY, tyX])]) := by rfl

set_option maxRecDepth 16384 in
theorem hook2 : W.env.appHook W.env.decls sset
    [oQuery, .obj [("a", false, false, tyY)], .obj [("a", false, true, .prim "never")]]
    = some (.obj [("a", false, false, .inter [tyY, .prim "never"])]) := by rfl

set_option maxRecDepth 16384 in
theorem hookX : W.env.appHook W.env.decls sset [oA, .obj objX, .obj []] = some (.obj objX) := by rfl

/-- an intersection whose first member is a union is never read as a record -/
theorem objView_inter_union (e : Env) (us : List Ty) (t2 : Ty) : ∀ n fs, objView e n (.inter [.union us, t2]) ≠ .isObj fs
  | 0, fs => by simp [objView]
  | n + 1, fs => by
    have h1 : objView e n (.union us) = .notObj ∨ objView e n (.union us) = .outOfFuel := by
      cases n <;> simp [objView]
    simp only [objView, List.foldl_cons, List.foldl_nil]
    rcases h1 with h1 | h1 <;> rw [h1] <;> cases objView e n t2 <;> simp [ObjView.merge]

theorem mem_inter_all {e : Env} {v : J} {ts : List Ty} (hno : ∀ n fs, objView e n (.inter ts) ≠ .isObj fs)
    (h : Mem e v (.inter ts)) : ∀ t ∈ ts, Mem e v t := by
  cases h with
  | interObj _ _ fs n ho _ => exact absurd ho (hno n fs)
  | interAll _ _ n _ hall => exact hall
  | opaqueTy _ ho => simp [Ty.isOpaque] at ho

/-- `{ y: "s" }` is not a value of `__SelectionSet<A, {x}, {}> | null` -/
theorem respY_not_tyX : ¬ Mem W.env respY tyX := by
  intro h
  simp only [tyX, mem_union_iff] at h
  obtain ⟨t, ht, hm⟩ := h
  simp only [List.mem_cons, List.mem_nil_iff, or_false] at ht
  rcases ht with rfl | rfl
  · rw [mem_hook_iff hookX, mem_obj_iff] at hm
    obtain ⟨kvs, hk, _, h2⟩ := hm
    simp only [respY, J.obj.injEq] at hk; subst hk
    rcases h2 ("y", .str "s") (by simp) with h | ⟨f, hf, hfk⟩
    · cases h
    · simp only [objX, List.mem_singleton] at hf; subst hf
      exact absurd hfk (by decide)
  · rw [mem_null_iff] at hm; cases hm

/-- the response of the witness document for v = true is NOT a member of the type the printer emits -/
theorem resp_not_mem : ¬ Mem W.env resp ty := by
  intro h
  simp only [ty, mem_union_iff] at h
  obtain ⟨t, ht, hm⟩ := h
  simp only [List.mem_cons, List.mem_nil_iff, or_false] at ht
  have hget : J.get [("a", respY)] "a" = respY := by rfl
  rcases ht with rfl | rfl
  · rw [br1, mem_hook_iff hook1, mem_obj_iff] at hm
    obtain ⟨kvs, hk, h1, _⟩ := hm
    simp only [resp, J.obj.injEq] at hk; subst hk
    have ha := h1 ("a", false, false, .inter [tyY, tyX]) (by simp) (by simp)
    simp only [hget] at ha
    exact respY_not_tyX (mem_inter_all (objView_inter_union _ _ _) ha tyX (by simp))
  · rw [br2, mem_hook_iff hook2, mem_obj_iff] at hm
    obtain ⟨kvs, hk, h1, _⟩ := hm
    simp only [resp, J.obj.injEq] at hk; subst hk
    have ha := h1 ("a", false, false, .inter [tyY, .prim "never"]) (by simp) (by simp)
    simp only [hget] at ha
    exact mem_never_iff.1 (mem_inter_all (objView_inter_union _ _ _) ha (.prim "never") (by simp))

/-! ### a value with a repeated record key (why ⊇ needs `JWf`) -/

/-- `{ x: 1, y: <absent>, y: "s" }` — not a JSON value a parser produces -/
def dup : J := .obj [("x", .num), ("y", .absent), ("y", .str "s")]

theorem cf_true (σ : Sigma) (h : σ "v" = true) :
    collectFields W.ctx σ "A" (W.selX ++ W.selYskip) = some [("x", [⟨"x", none⟩])] := by
  simp [collectFields, collectGo, W.ctx, W.selX, W.selYskip, W.skipV, included, selDirs, dirIf, addField, h]

theorem cf_false (σ : Sigma) (h : σ "v" = false) :
    collectFields W.ctx σ "A" (W.selX ++ W.selYskip) = some [("x", [⟨"x", none⟩]), ("y", [⟨"y", none⟩])] := by
  simp [collectFields, collectGo, W.ctx, W.selX, W.selYskip, W.skipV, included, selDirs, dirIf, addField, h]

theorem dup_mem : Mem W.env dup W.newTy := by
  apply memG_sound 8; decide +kernel

theorem dup_not_refLocal : ¬ RefLocal W.ctx "A" (W.selX ++ W.selYskip) dup := by
  rintro ⟨n, hn⟩
  cases n with
  | zero => exact hn
  | succ n =>
    obtain ⟨σ, g, hg, Rb, _, hs⟩ := hn
    cases hσ : σ "v" with
    | true =>
      rw [cf_true σ hσ] at hg; cases hg
      simp [setOkB, dup, J.isAbsent] at hs
    | false =>
      rw [cf_false σ hσ] at hg; cases hg
      have hf : fieldOk W.ctx Rb "A" [⟨"y", none⟩]
          (J.get [("x", J.num), ("y", J.absent), ("y", J.str "s")] "y") = false := by rfl
      simp [setOkB, dup, hf] at hs

theorem dup_not_wf : ¬ JWf dup := by
  simp [JWf, dup]

end NitroVerif.OpTypes.Ref.Cex
