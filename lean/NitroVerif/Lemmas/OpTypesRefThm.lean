/-
C01/C02 refinement: assembly.  `implTree … = .ok T` ⇒ `RelTree` (Lemmas/OpTypesRefMain.lean) ⇒ the tree is well formed and
`DenTree T` is CompleteValue with nested objects in `RefLocal` (Lemmas/OpTypesRefAdeq.lean) ⇒ with `toTs_denotation`
(Lemmas/OpTypesDen.lean) the printed type admits exactly those values.
-/
import NitroVerif.Lemmas.OpTypesRefMain
import NitroVerif.Lemmas.OpTypesRefAdeq
namespace NitroVerif.OpTypes.Ref
open NitroVerif.Gql NitroVerif.Ts NitroVerif.Exec NitroVerif.OpTypes

theorem pEq_sb1 (c : Ctx) (ss : List Selection) : PEq c (Sb1 ss) ss := fun _ _ _ => pu_sb1

theorem impl_denotes {c : Ctx} {e : Env} {r : Refs} {orig : Name → Option (List Field)} (H : Hyp c e r orig)
    (hnd : TypeNamesNodup c.S) {mfuel fuel : Nat} {ty : GType} {ss : List Selection} {T : SelTree}
    (h : implTree c.S c.F mfuel fuel ty ss = .ok T) (hC : ∀ d, Coh c d (Sb1 ss) ty.unwrapped) :
    (∀ v, CompP c (RefLocal c) ss ty false v → Mem e v (treeTs r T false)) ∧
    (∀ D, FuelOk c D ss → ∀ v, JWf v → Mem e v (treeTs r T false) → CompP c (RefLocal c) ss ty false v) := by
  have hrel := (impl_rel c mfuel hnd fuel).1 ty ss T h hC
  have hwf := rel_wfTree H T ty _ hrel
  have hden := fun v => den_tree H.envOk T false v hwf
  obtain ⟨h1, h2⟩ := adeq_tree H T ty (Sb1 ss) ss false hrel (pEq_sb1 c ss) (hC _)
  refine ⟨fun v hv => (hden v).2 (h1 v hv), fun D hf v hw hm => ?_⟩
  exact compP_mono (fun o s x hx => ⟨_, hx⟩) _ _ _ (h2 D hf v hw ((hden v).1 hm))

/-- CompleteValue at a non-null composite root type: some possible object type executes the selection set -/
theorem compP_root {c : Ctx} {R : Name → List Selection → J → Prop} {ss : List Selection} {root : Name} {p : Pos}
    {v : J} (hcomp : c.S.isComposite root = true) (hobj : ∀ o s x, R o s x → x ≠ .null) :
    CompP c R ss (.nonNull (.named root p)) false v ↔ ∃ o ∈ c.S.possibleTypes root, R o ss v := by
  simp only [CompP, ↓reduceIte, NamedP, hcomp]
  constructor
  · exact fun h => h.2
  · rintro ⟨o, ho, hr⟩; exact ⟨hobj _ _ _ hr, o, ho, hr⟩

theorem refLocal_not_null {c : Ctx} {o : Name} {s : List Selection} {x : J} (h : RefLocal c o s x) : x ≠ .null := by
  obtain ⟨_, _, _, kvs, rfl, _⟩ := refLocal_unfold h
  intro h; cases h

theorem implTree_root_composite {S : Schema} {F : Frags} {mfuel fuel : Nat} {root : Name} {p : Pos}
    {ss : List Selection} {T : SelTree} (h : implTree S F mfuel fuel (.nonNull (.named root p)) ss = .ok T) :
    S.isComposite root = true := by
  cases fuel with
  | zero => simp [implTree] at h
  | succ fuel =>
    rw [implTree_succ] at h
    simp only [wrapTree, bind, Except.bind] at h
    cases hm : mkBranches S F mfuel fuel ss root with
    | error e => simp [hm] at h
    | ok bs =>
      simp only [mkBranches, branchConds, bind, Except.bind] at hm
      cases hpo : parentObjects S root with
      | error e => simp [hpo] at hm
      | ok objs => exact (parentObjects_spec hpo).1

end NitroVerif.OpTypes.Ref
