/-
The O(1) tables the compiled driver uses (`Build.Ctx.ofInput`: position table, array-backed text) agree with the
definitions the theorems talk about (`Build.Ctx.spec`: `Peg.lineCol`, `Peg.slice`). Helper lemmas for Props/C07.
-/
import NitroVerif.Model.Build
import NitroVerif.Lemmas.SpanInv
namespace NitroVerif.Build
open NitroVerif.Peg

theorem ofInput_text (inp : List Char) (s e : Nat) :
    (Ctx.ofInput inp).text s e = (Ctx.spec inp).text s e := by
  simp [Ctx.ofInput, Ctx.spec, slice]

theorem table_prefix (r : List Char) : ∀ (l c : Nat) (acc : Array (Nat × Nat)) (i : Nat), i < acc.size →
    (lineColTableFrom r l c acc)[i]? = acc[i]? := by
  induction r with
  | nil => intro l c acc i hi; simp [lineColTableFrom, Array.getElem?_push, Nat.ne_of_lt hi]
  | cons ch r ih =>
    intro l c acc i hi
    simp only [lineColTableFrom]
    split
    · rw [ih _ _ _ i (by simp; omega)]; simp [Array.getElem?_push, Nat.ne_of_lt hi]
    · rw [ih _ _ _ i (by simp; omega)]; simp [Array.getElem?_push, Nat.ne_of_lt hi]

theorem table_from (r : List Char) : ∀ (l c : Nat) (acc : Array (Nat × Nat)) (o : Nat), o ≤ r.length →
    (lineColTableFrom r l c acc)[acc.size + o]? = some (lineColFrom r o l c) := by
  induction r with
  | nil =>
    intro l c acc o ho
    have : o = 0 := by simpa using ho
    subst this
    simp [lineColTableFrom, lineColFrom]
  | cons ch r ih =>
    intro l c acc o ho
    cases o with
    | zero =>
      simp only [lineColTableFrom, lineColFrom, Nat.add_zero]
      split
      · rw [table_prefix _ _ _ _ acc.size (by simp)]; simp
      · rw [table_prefix _ _ _ _ acc.size (by simp)]; simp
    | succ o =>
      have ho' : o ≤ r.length := by simpa using ho
      simp only [lineColTableFrom, lineColFrom]
      split
      · have := ih (l + 1) 0 (acc.push (l, c)) o ho'
        simp only [Array.size_push] at this
        rw [show acc.size + (o + 1) = acc.size + 1 + o by omega]
        exact this
      · have := ih l (c + 1) (acc.push (l, c)) o ho'
        simp only [Array.size_push] at this
        rw [show acc.size + (o + 1) = acc.size + 1 + o by omega]
        exact this

theorem ofInput_pos (inp : List Char) (o : Nat) (h : o ≤ inp.length) :
    (Ctx.ofInput inp).pos o = (Ctx.spec inp).pos o := by
  have := table_from inp 0 0 #[] o h
  simp only [Array.size_empty, Nat.zero_add] at this
  simp [Ctx.ofInput, Ctx.spec, lineColTable, this, lineCol]

/-- every pair of a well-formed forest, at any depth (`Pairs::flatten` order), lies inside the forest's range -/
theorem spanOk_flat_bounds {lo hi : Nat} {ps : List Pair} (h : SpanOk lo hi ps) :
    ∀ p ∈ flatList ps, lo ≤ p.start ∧ p.start ≤ p.stop ∧ p.stop ≤ hi := by
  induction h with
  | nil _ => intro p hp; simp [flatList] at hp
  | cons h1 hc hr ih1 ih2 =>
    rename_i lo hi r s e cs ps
    have hse := hc.le
    have heh := hr.le
    intro p hp
    simp only [flatList, flat, List.cons_append, List.mem_cons, List.mem_append] at hp
    rcases hp with rfl | hp | hp
    · exact ⟨h1, hse, heh⟩
    · obtain ⟨a, b, c⟩ := ih1 p hp
      exact ⟨by omega, b, by omega⟩
    · obtain ⟨a, b, c⟩ := ih2 p hp
      exact ⟨by omega, b, c⟩

end NitroVerif.Build
