/-
Helper lemmas for C17 (determinism): association lists observed through `get`, permutations, sorting.
Core Lean only.
-/
import NitroVerif.Model.Determinism
namespace NitroVerif.Determinism

variable {K V : Type}

/-! ### `getLast` / `getFirst` are determined by membership when keys are distinct -/

theorem NoDupKeys.perm {l₁ l₂ : List (K × V)} (h : l₁.Perm l₂) (nd : NoDupKeys l₁) : NoDupKeys l₂ :=
  (h.map Prod.fst).nodup_iff.mp nd

theorem NoDupKeys.tail {a : K × V} {l : List (K × V)} (nd : NoDupKeys (a :: l)) : NoDupKeys l := by
  unfold NoDupKeys at *
  simp only [List.map_cons, List.nodup_cons] at nd
  exact nd.2

theorem NoDupKeys.head_not_mem {a : K × V} {l : List (K × V)} (nd : NoDupKeys (a :: l)) (v : V) : (a.1, v) ∉ l := by
  unfold NoDupKeys at nd
  simp only [List.map_cons, List.nodup_cons, List.mem_map, not_exists, not_and] at nd
  intro hm
  exact nd.1 (a.1, v) hm rfl

theorem getLast_none_of_not_mem [BEq K] [LawfulBEq K] (l : List (K × V)) (k : K)
    (h : ∀ v, (k, v) ∉ l) : getLast l k = none := by
  induction l with
  | nil => rfl
  | cons a rest ih =>
    obtain ⟨k', v'⟩ := a
    have hr : getLast rest k = none := ih fun v hm => h v (List.mem_cons_of_mem _ hm)
    have hne : (k' == k) = false := by
      apply Bool.eq_false_iff.mpr
      intro he
      have : k' = k := eq_of_beq he
      subst this
      exact h v' (List.mem_cons_self)
    simp [getLast, hr, hne]

theorem getLast_of_mem [BEq K] [LawfulBEq K] (l : List (K × V)) (k : K) (v : V)
    (nd : NoDupKeys l) (h : (k, v) ∈ l) : getLast l k = some v := by
  induction l with
  | nil => cases h
  | cons a rest ih =>
    obtain ⟨k', v'⟩ := a
    rcases List.mem_cons.mp h with heq | hm
    · cases heq
      have hr : getLast rest k = none := getLast_none_of_not_mem rest k fun w => nd.head_not_mem w
      simp [getLast, hr]
    · simp [getLast, ih nd.tail hm]

/-- the generic lemma: a map written from a key-distinct sequence answers `get` the same way whatever the order
    of the writes -/
theorem getLast_perm [BEq K] [LawfulBEq K] {l₁ l₂ : List (K × V)} (h : l₁.Perm l₂) (nd : NoDupKeys l₁) (k : K) :
    getLast l₁ k = getLast l₂ k := by
  by_cases hk : ∃ v, (k, v) ∈ l₁
  · obtain ⟨v, hv⟩ := hk
    rw [getLast_of_mem l₁ k v nd hv, getLast_of_mem l₂ k v (nd.perm h) (h.mem_iff.mp hv)]
  · have h1 : ∀ v, (k, v) ∉ l₁ := fun v hm => hk ⟨v, hm⟩
    have h2 : ∀ v, (k, v) ∉ l₂ := fun v hm => hk ⟨v, h.mem_iff.mpr hm⟩
    rw [getLast_none_of_not_mem l₁ k h1, getLast_none_of_not_mem l₂ k h2]

theorem getLast_append [BEq K] (b l : List (K × V)) (k : K) :
    getLast (b ++ l) k = match getLast l k with | some w => some w | none => getLast b k := by
  induction b with
  | nil =>
    simp only [List.nil_append]
    cases getLast l k <;> simp [getLast]
  | cons a rest ih =>
    obtain ⟨k', v'⟩ := a
    simp only [List.cons_append, getLast, ih]
    cases getLast l k <;> rfl

/-- extending ANY map by a key-distinct sequence of writes is independent of the order of those writes -/
theorem getLast_append_perm [BEq K] [LawfulBEq K] (b : List (K × V)) {l₁ l₂ : List (K × V)} (h : l₁.Perm l₂)
    (nd : NoDupKeys l₁) (k : K) : getLast (b ++ l₁) k = getLast (b ++ l₂) k := by
  rw [getLast_append, getLast_append, getLast_perm h nd k]

theorem lookup_none_of_not_mem [BEq K] [LawfulBEq K] (l : List (K × V)) (k : K)
    (h : ∀ v, (k, v) ∉ l) : l.lookup k = none := by
  induction l with
  | nil => rfl
  | cons a rest ih =>
    obtain ⟨k', v'⟩ := a
    have hne : (k == k') = false := by
      apply Bool.eq_false_iff.mpr
      intro he
      have : k = k' := eq_of_beq he
      subst this
      exact h v' (List.mem_cons_self)
    simp only [List.lookup, hne]
    exact ih fun v hm => h v (List.mem_cons_of_mem _ hm)

theorem lookup_of_mem [BEq K] [LawfulBEq K] (l : List (K × V)) (k : K) (v : V)
    (nd : NoDupKeys l) (h : (k, v) ∈ l) : l.lookup k = some v := by
  induction l with
  | nil => cases h
  | cons a rest ih =>
    obtain ⟨k', v'⟩ := a
    rcases List.mem_cons.mp h with heq | hm
    · cases heq
      simp [List.lookup]
    · have hne : (k == k') = false := by
        apply Bool.eq_false_iff.mpr
        intro he
        have : k = k' := eq_of_beq he
        subst this
        exact nd.head_not_mem v hm
      simp only [List.lookup, hne]
      exact ih nd.tail hm

theorem getFirst_perm [BEq K] [LawfulBEq K] {l₁ l₂ : List (K × V)} (h : l₁.Perm l₂) (nd : NoDupKeys l₁) (k : K) :
    getFirst l₁ k = getFirst l₂ k := by
  unfold getFirst
  by_cases hk : ∃ v, (k, v) ∈ l₁
  · obtain ⟨v, hv⟩ := hk
    rw [lookup_of_mem l₁ k v nd hv, lookup_of_mem l₂ k v (nd.perm h) (h.mem_iff.mp hv)]
  · have h1 : ∀ v, (k, v) ∉ l₁ := fun v hm => hk ⟨v, hm⟩
    have h2 : ∀ v, (k, v) ∉ l₂ := fun v hm => hk ⟨v, h.mem_iff.mpr hm⟩
    rw [lookup_none_of_not_mem l₁ k h1, lookup_none_of_not_mem l₂ k h2]

/-- with distinct keys the two write disciplines (`insert` = last wins, `or_insert` = first wins) agree -/
theorem getLast_eq_getFirst [BEq K] [LawfulBEq K] (l : List (K × V)) (nd : NoDupKeys l) (k : K) :
    getLast l k = getFirst l k := by
  unfold getFirst
  by_cases hk : ∃ v, (k, v) ∈ l
  · obtain ⟨v, hv⟩ := hk
    rw [getLast_of_mem l k v nd hv, lookup_of_mem l k v nd hv]
  · have h1 : ∀ v, (k, v) ∉ l := fun v hm => hk ⟨v, hm⟩
    rw [getLast_none_of_not_mem l k h1, lookup_none_of_not_mem l k h1]

/-- when the written value is a function of the key, `get` has a closed form and duplicates are harmless -/
theorem getLast_map_fn [BEq K] [LawfulBEq K] (g : K → V) (ks : List K) (k : K) :
    getLast (ks.map fun n => (n, g n)) k = if ks.contains k then some (g k) else none := by
  induction ks with
  | nil => rfl
  | cons a rest ih =>
    simp only [List.map_cons, getLast, List.contains_cons]
    rw [ih]
    cases hr : rest.contains k
    · simp only [Bool.or_false, Bool.false_eq_true, if_false]
      by_cases ha : a = k
      · subst ha
        simp
      · have h1 : (a == k) = false := beq_eq_false_iff_ne.mpr ha
        have h2 : (k == a) = false := beq_eq_false_iff_ne.mpr (Ne.symm ha)
        simp [h1, h2]
    · simp

/-! ### key-distinctness is preserved by the transformations used at the sites -/

theorem noDupKeys_filterMap {E : Type} (parse : E → Option V) (it : List (K × E)) (nd : NoDupKeys it) :
    NoDupKeys (it.filterMap fun ke => (parse ke.2).map fun v => (ke.1, v)) := by
  induction it with
  | nil => simp [NoDupKeys]
  | cons a rest ih =>
    obtain ⟨k, e⟩ := a
    have ndr := ih nd.tail
    cases hp : parse e with
    | none => simpa [List.filterMap_cons, hp] using ndr
    | some v =>
      simp only [List.filterMap_cons, hp, Option.map_some]
      unfold NoDupKeys at *
      simp only [List.map_cons, List.nodup_cons]
      refine ⟨?_, ndr⟩
      intro hm
      simp only [List.mem_map, List.mem_filterMap] at hm
      obtain ⟨⟨k2, v2⟩, ⟨⟨k3, e3⟩, hmem, hq⟩, hk⟩ := hm
      simp only [List.map_cons, List.nodup_cons, List.mem_map, not_exists, not_and] at nd
      cases hq3 : parse e3 with
      | none => simp [hq3] at hq
      | some w =>
        simp only [hq3, Option.map_some, Option.some.injEq, Prod.mk.injEq] at hq
        have : k3 = k := by rw [hq.1]; exact hk
        subst this
        exact nd.1 (k3, e3) hmem rfl

/-! ### sorted lists with the same elements are equal -/

theorem eq_of_perm_of_sorted_on {α : Type} (le : α → α → Prop) :
    ∀ (l₁ l₂ : List α), (∀ a ∈ l₁, ∀ b ∈ l₁, le a b → le b a → a = b) →
      l₁.Perm l₂ → l₁.Pairwise le → l₂.Pairwise le → l₁ = l₂ := by
  intro l₁
  induction l₁ with
  | nil => intro l₂ _ h _ _; exact h.symm.eq_nil.symm ▸ rfl
  | cons a t₁ ih =>
    intro l₂ antisymm h s₁ s₂
    cases l₂ with
    | nil => exact absurd h.eq_nil (by simp)
    | cons b t₂ =>
      have s₁' := List.pairwise_cons.mp s₁
      have s₂' := List.pairwise_cons.mp s₂
      have hab : a = b := by
        have ha : a ∈ b :: t₂ := h.mem_iff.mp List.mem_cons_self
        have hb : b ∈ a :: t₁ := h.mem_iff.mpr List.mem_cons_self
        rcases List.mem_cons.mp ha with rfl | ha'
        · rfl
        · rcases List.mem_cons.mp hb with heq | hb'
          · exact heq.symm
          · exact antisymm a List.mem_cons_self b hb (s₁'.1 b hb') (s₂'.1 a ha')
      subst hab
      rw [ih t₂ (fun x hx y hy => antisymm x (List.mem_cons_of_mem _ hx) y (List.mem_cons_of_mem _ hy))
        (List.Perm.cons_inv h) s₁'.2 s₂'.2]

theorem eq_of_key_eq {l : List (K × V)} (nd : NoDupKeys l) {a b : K × V} (ha : a ∈ l) (hb : b ∈ l)
    (h : a.1 = b.1) : a = b := by
  induction l with
  | nil => cases ha
  | cons c rest ih =>
    rcases List.mem_cons.mp ha with rfl | ha'
    · rcases List.mem_cons.mp hb with rfl | hb'
      · rfl
      · exact absurd (by rw [h]; exact hb') (nd.head_not_mem b.2)
    · rcases List.mem_cons.mp hb with rfl | hb'
      · exact absurd (by rw [← h]; exact ha') (nd.head_not_mem a.2)
      · exact ih nd.tail ha' hb'

/-! ### `find?` with a predicate that singles out at most one element -/

theorem find?_perm_of_unique {α : Type} (p : α → Bool) {l₁ l₂ : List α} (h : l₁.Perm l₂)
    (uniq : (l₁.filter p).length ≤ 1) : l₁.find? p = l₂.find? p := by
  have hf : (l₁.filter p).Perm (l₂.filter p) := h.filter p
  have e : ∀ l : List α, l.find? p = (l.filter p).head? := fun _ => List.head?_filter.symm
  rw [e, e]
  match h1 : l₁.filter p, h2 : l₂.filter p with
  | [], [] => rfl
  | [], b :: _ => rw [h1, h2] at hf; exact absurd hf.symm.eq_nil (by simp)
  | a :: _, [] => rw [h1, h2] at hf; exact absurd hf.eq_nil (by simp)
  | a :: t, b :: t' =>
    rw [h1] at uniq
    have ht : t = [] := by
      cases t with
      | nil => rfl
      | cons _ _ => simp at uniq
    subst ht
    rw [h1, h2] at hf
    have hl := hf.length_eq
    have ht' : t' = [] := by
      cases t' with
      | nil => rfl
      | cons _ _ => simp at hl
    subst ht'
    have hm : a ∈ [b] := hf.mem_iff.mp List.mem_cons_self
    have hab : a = b := by simpa using hm
    subst hab
    rfl

theorem filter_length_le_one_of_nodup {α β : Type} [BEq β] [LawfulBEq β] (f : α → β) (l : List α)
    (nd : (l.map f).Nodup) (n : β) : (l.filter fun x => f x == n).length ≤ 1 := by
  induction l with
  | nil => simp
  | cons a rest ih =>
    simp only [List.map_cons, List.nodup_cons] at nd
    by_cases ha : (f a == n) = true
    · have hn : f a = n := eq_of_beq ha
      have hr : rest.filter (fun x => f x == n) = [] := by
        rw [List.filter_eq_nil_iff]
        intro x hx hfx
        have : f x = n := eq_of_beq hfx
        exact nd.1 (List.mem_map.mpr ⟨x, hx, by rw [this, hn]⟩)
      simp [ha, hr]
    · have ha' : (f a == n) = false := by simpa using ha
      simp only [List.filter_cons, ha', Bool.false_eq_true, if_false]
      exact ih nd.2

open NitroVerif.Gql in
theorem defMapTypes_keys (items : TsDoc) :
    (defMapTypes items).map Prod.fst = (Schema.mk items).typeDefs.map (·.name) := by
  unfold defMapTypes Schema.typeDefs
  induction items with
  | nil => rfl
  | cons a rest ih =>
    cases a <;> simp_all

/-! ### loader `get_required_files` -/

section required
variable {P : Type} [BEq P] [LawfulBEq P]

theorem mem_requiredStep (keys acc imps : List P) (p : P) :
    p ∈ requiredStep keys acc imps ↔ p ∈ acc ∨ (p ∈ imps ∧ p ∉ keys) := by
  unfold requiredStep
  induction imps generalizing acc with
  | nil => simp
  | cons q rest ih =>
    simp only [List.foldl_cons]
    rw [ih]
    by_cases hq : (keys.contains q || acc.contains q) = true
    · simp only [hq, if_true, List.mem_cons]
      constructor
      · rintro (h | ⟨h, hk⟩)
        · exact Or.inl h
        · exact Or.inr ⟨Or.inr h, hk⟩
      · rintro (h | ⟨h | h, hk⟩)
        · exact Or.inl h
        · subst h
          simp only [Bool.or_eq_true, List.contains_iff_mem] at hq
          rcases hq with hq | hq
          · exact absurd hq hk
          · exact Or.inl hq
        · exact Or.inr ⟨h, hk⟩
    · have hq' : (keys.contains q || acc.contains q) = false := by simpa using hq
      simp only [hq', Bool.false_eq_true, if_false, List.mem_append, List.mem_cons, List.not_mem_nil, or_false]
      simp only [Bool.or_eq_false_iff, List.contains_eq_mem, decide_eq_false_iff_not] at hq'
      constructor
      · rintro ((h | h) | ⟨h, hk⟩)
        · exact Or.inl h
        · subst h; exact Or.inr ⟨Or.inl rfl, hq'.1⟩
        · exact Or.inr ⟨Or.inr h, hk⟩
      · rintro (h | ⟨h | h, hk⟩)
        · exact Or.inl (Or.inl h)
        · subst h; exact Or.inl (Or.inr rfl)
        · exact Or.inr ⟨h, hk⟩

theorem nodup_requiredStep (keys acc imps : List P) (nd : acc.Nodup) : (requiredStep keys acc imps).Nodup := by
  unfold requiredStep
  induction imps generalizing acc with
  | nil => simpa using nd
  | cons q rest ih =>
    simp only [List.foldl_cons]
    apply ih
    by_cases hq : (keys.contains q || acc.contains q) = true
    · simp only [hq, if_true]
      exact nd
    · have hq' : (keys.contains q || acc.contains q) = false := by simpa using hq
      simp only [hq', Bool.false_eq_true, if_false]
      simp only [Bool.or_eq_false_iff, List.contains_eq_mem, decide_eq_false_iff_not] at hq'
      rw [List.nodup_append]
      refine ⟨nd, by simp, ?_⟩
      intro a ha b hb
      simp at hb
      subst hb
      intro h
      subst h
      exact hq'.2 ha

theorem mem_foldl_requiredStep (keys : List P) (it : List (P × List P)) (acc : List P) (p : P) :
    p ∈ it.foldl (fun acc fi => requiredStep keys acc fi.2) acc ↔
      p ∈ acc ∨ (p ∉ keys ∧ ∃ fi ∈ it, p ∈ fi.2) := by
  induction it generalizing acc with
  | nil => simp
  | cons a rest ih =>
    simp only [List.foldl_cons]
    rw [ih, mem_requiredStep]
    constructor
    · rintro ((h | ⟨h, hk⟩) | ⟨hk, fi, hfi, hp⟩)
      · exact Or.inl h
      · exact Or.inr ⟨hk, a, List.mem_cons_self, h⟩
      · exact Or.inr ⟨hk, fi, List.mem_cons_of_mem _ hfi, hp⟩
    · rintro (h | ⟨hk, fi, hfi, hp⟩)
      · exact Or.inl (Or.inl h)
      · rcases List.mem_cons.mp hfi with rfl | hfi'
        · exact Or.inl (Or.inr ⟨hp, hk⟩)
        · exact Or.inr ⟨hk, fi, hfi', hp⟩

theorem nodup_foldl_requiredStep (keys : List P) (it : List (P × List P)) (acc : List P) (nd : acc.Nodup) :
    (it.foldl (fun acc fi => requiredStep keys acc fi.2) acc).Nodup := by
  induction it generalizing acc with
  | nil => simpa using nd
  | cons a rest ih =>
    simp only [List.foldl_cons]
    exact ih _ (nodup_requiredStep keys acc a.2 nd)

end required

/-! ### documents -/

section docs
open NitroVerif.Gql

theorem typeDefs_perm {items₁ items₂ : TsDoc} (h : items₁.Perm items₂) :
    (Schema.mk items₁).typeDefs.Perm (Schema.mk items₂).typeDefs := h.filterMap _

theorem directiveDefs_perm {items₁ items₂ : TsDoc} (h : items₁.Perm items₂) :
    (Schema.mk items₁).directiveDefs.Perm (Schema.mk items₂).directiveDefs := h.filterMap _

theorem declNamed_decls (items : TsDoc) (a : Name) :
    declNamed (decls items) a = ((Schema.mk items).typeDef? a).map (declOf (Schema.mk items)) := by
  unfold declNamed decls Schema.typeDef?
  rw [List.find?_map]
  rfl

end docs

end NitroVerif.Determinism
