/-
C15: the operation checker model (`Model/CheckOp.lean`, `checkOp`) returns the same diagnostics on two document views
that agree on the lookups.
-/
import NitroVerif.Lemmas.RoutesCheckValue
namespace NitroVerif.Bridge
open NitroVerif NitroVerif.Gql NitroVerif.SchemaIR NitroVerif.AstSchema NitroVerif.CheckCommon NitroVerif.CheckOp

/-! ### what an operation document may contain (the documented exemptions) -/

/-- the name is not one of the `__*` introspection names -/
def nameOk (n : Name) : Bool := !isIntrospectionName n

mutual
/-- a selection names no `__*` type in a type condition and uses no `@nitrogql_ts_type` directive -/
def selOk : Selection → Bool
  | .field _ _ _ _ dirs (some ss) => dirsOk dirs && selsOk ss
  | .field _ _ _ _ dirs none => dirsOk dirs
  | .spread _ _ dirs _ => dirsOk dirs
  | .inline (some (c, _)) dirs ss _ => dirsOk dirs && nameOk c && selsOk ss
  | .inline none dirs ss _ => dirsOk dirs && selsOk ss
def selsOk : List Selection → Bool
  | [] => true
  | s :: ss => selOk s && selsOk ss
end

def varsOk (vs : List VarDef) : Bool := vs.all fun v => dirsOk v.dirs && nameOk v.ty.unwrapped

def fragOk (f : FragmentDef) : Bool := dirsOk f.dirs && nameOk f.cond && selsOk f.sel

def defOk : ExecDef → Bool
  | .op o => dirsOk o.dirs && varsOk o.vars && selsOk o.sel
  | .frag f => fragOk f
  | .imp _ => true

/-- the operation document names no `__*` introspection type (variable types, type conditions) and uses no
    `@nitrogql_ts_type` directive — the two documented exemptions of the property -/
def docOk (D : Doc) : Bool := D.all defOk

/-! ### definitions found in a view -/

def Found (S : Gql.Schema) (td : TypeDef) : Prop := ∃ n, S.typeDef? n = some td

/-- field definitions whose types can be looked up alike and whose argument types are resolvable -/
def FieldsOk (S : Gql.Schema) (fields : List FieldDef) : Prop :=
  ∀ f ∈ fields, isIntrospectionName f.ty.unwrapped = false ∧ ArgsOk S f.args

variable {S₁ S₂ : Gql.Schema}

theorem agree_name (hA : Agree S₁ S₂) {n : Name} (hn : isIntrospectionName n = false) :
    (S₁.typeDef? n = none ∧ S₂.typeDef? n = none) ∨
    ∃ td₁ td₂, S₁.typeDef? n = some td₁ ∧ S₂.typeDef? n = some td₂ ∧ tv td₁ = tv td₂ :=
  option_map_eq_cases (hA.types n hn)

theorem typenameField_ok (S : Gql.Schema) :
    isIntrospectionName typenameField.ty.unwrapped = false ∧ ArgsOk S typenameField.args := by
  refine ⟨by decide, ?_⟩
  intro a ha
  simp [typenameField] at ha

theorem directFields_rel (hC : Closed S₁) {a b : TypeDef} (h : tv a = tv b) (hf : Found S₁ a) :
    (directFields a = none ∧ directFields b = none) ∨
    ∃ f₁ f₂, directFields a = some f₁ ∧ directFields b = some f₂ ∧ f₁.map fv = f₂.map fv ∧ FieldsOk S₁ f₁ := by
  obtain ⟨n, hn⟩ := hf
  have hk := tv_kind h
  have hok : FieldsOk S₁ (a.fields ++ [typenameField]) := by
    intro f hfm
    rcases List.mem_append.mp hfm with hfm | hfm
    · exact hC.fields n a hn f hfm
    · have : f = typenameField := by simpa using hfm
      subst this
      exact typenameField_ok S₁
  unfold directFields
  rw [← hk]
  cases hk1 : a.kind with
  | object =>
    refine Or.inr ⟨_, _, rfl, rfl, ?_, hok⟩
    simp only [List.map_append, tv_fields h (Or.inl hk1)]
  | interface =>
    refine Or.inr ⟨_, _, rfl, rfl, ?_, hok⟩
    simp only [List.map_append, tv_fields h (Or.inr hk1)]
  | union =>
    refine Or.inr ⟨_, _, rfl, rfl, rfl, ?_⟩
    intro f hfm
    have : f = typenameField := by simpa using hfm
    subst this
    exact typenameField_ok S₁
  | scalar => exact Or.inl ⟨rfl, rfl⟩
  | enum => exact Or.inl ⟨rfl, rfl⟩
  | input => exact Or.inl ⟨rfl, rfl⟩

theorem directFields_isSome_congr {a b : TypeDef} (h : tv a = tv b) :
    (directFields a).isSome = (directFields b).isSome := by
  have hk := tv_kind h
  unfold directFields
  rw [← hk]
  cases a.kind <;> rfl

/-! ### applicability of a fragment -/

theorem implementsIface_congr {a b : TypeDef} (h : tv a = tv b) (hk : a.kind = .object ∨ a.kind = .interface)
    (i : Name) : implementsIface a i = implementsIface b i := by
  unfold implementsIface
  exact any_congr_view (v := (·.1)) (tv_implements h hk) (fun x _ y _ hxy => by simp only [hxy])

theorem membersAny_congr {a b : TypeDef} (h : tv a = tv b) (hk : a.kind = .union) (p : Name → Bool) :
    a.members.any (fun m => p m.1) = b.members.any (fun m => p m.1) :=
  any_congr_view (v := (·.1)) (tv_members h hk) (fun x _ y _ hxy => by simp only [hxy])

theorem unionMemberImplements_congr (hA : Agree S₁ S₂) (iface : Name) :
    ∀ (ms₁ ms₂ : List (Name × Pos)), ms₁.map (·.1) = ms₂.map (·.1) →
      (∀ m ∈ ms₁, isIntrospectionName m.1 = false ∧ ∃ o, S₁.typeDef? m.1 = some o ∧ o.kind = .object) →
      unionMemberImplements S₁ iface ms₁ = unionMemberImplements S₂ iface ms₂
  | [], [], _, _ => rfl
  | [], _ :: _, h, _ => by simp at h
  | _ :: _, [], h, _ => by simp at h
  | (m, mp) :: r₁, (m', mp') :: r₂, h, hok => by
    simp only [List.map_cons, List.cons.injEq] at h
    obtain ⟨hm, hr⟩ := h
    have hm' : m = m' := hm
    subst hm'
    obtain ⟨hni, o, ho, hobj⟩ := hok (m, mp) (by simp)
    have ih := unionMemberImplements_congr hA iface r₁ r₂ hr (fun x hx => hok x (by simp [hx]))
    rcases agree_name hA hni with ⟨h1, _⟩ | ⟨o₁, o₂, h1, h2, ht⟩
    · simp [ho] at h1
    · have : o = o₁ := by simpa [ho] using h1
      subst this
      have hk2 : o₂.kind = .object := (tv_kind ht) ▸ hobj
      have hbeq : (TypeKind.object == TypeKind.object) = true := rfl
      simp only [unionMemberImplements, ho, h2, hobj, hk2, implementsIface_congr ht (Or.inl hobj) iface, ih, hbeq,
        if_true]

theorem spreadApplicability_congr (hA : Agree S₁ S₂) (hC : Closed S₁) {root₁ root₂ cond₁ cond₂ : TypeDef}
    (hr : tv root₁ = tv root₂) (hc : tv cond₁ = tv cond₂) (hfr : Found S₁ root₁) (hfc : Found S₁ cond₁) (pos : Pos) :
    spreadApplicability S₁ root₁ cond₁ pos = spreadApplicability S₂ root₂ cond₂ pos := by
  have hkr := tv_kind hr
  have hkc := tv_kind hc
  have hnr := tv_name hr
  have hnc := tv_name hc
  obtain ⟨nr, hnr1⟩ := hfr
  obtain ⟨nc, hnc1⟩ := hfc
  unfold spreadApplicability
  rw [← hkr, ← hkc, ← hnr, ← hnc]
  cases hk1 : root₁.kind <;> cases hk2 : cond₁.kind <;> simp only
  -- object, interface
  · rw [implementsIface_congr hr (Or.inl hk1)]
  -- object, union
  · rw [membersAny_congr hc hk2 (fun m => m == root₁.name)]
  -- interface, object
  · rw [implementsIface_congr hc (Or.inl hk2)]
  -- interface, interface
  · have key := hA.ifaceBoth root₁.name cond₁.name
    unfold ifaceBoth at key
    split
    · rfl
    · exact congrArg (fun b : Bool =>
        ((if b = true then [] else [(ErrKind.FragmentConditionNeverMatches, pos)] : List Diag), true)) key
  -- interface, union
  · rw [unionMemberImplements_congr hA root₁.name cond₁.members cond₂.members (tv_members hc hk2)
      (hC.members nc cond₁ hnc1)]
  -- union, object
  · rw [membersAny_congr hr hk1 (fun m => m == cond₁.name)]
  -- union, interface
  · rw [unionMemberImplements_congr hA cond₁.name root₁.members root₂.members (tv_members hr hk1)
      (hC.members nr root₁ hnr1)]
  -- union, union
  · have h1 : ∀ m2 : Name × Pos, root₁.members.any (fun m1 => m1.1 == m2.1) = root₂.members.any (fun m1 => m1.1 == m2.1) :=
      fun m2 => membersAny_congr hr hk1 (fun m => m == m2.1)
    simp only [h1]
    rw [membersAny_congr hc hk2 (fun m => root₂.members.any (fun m1 => m1.1 == m))]

/-! ### the walk -/

/-- two spread handlers that agree on related root types -/
def HRel (S₁ : Gql.Schema) (H₁ H₂ : SpreadHandler) : Prop :=
  ∀ seen vars (root₁ root₂ : TypeDef) name np pos, tv root₁ = tv root₂ → Found S₁ root₁ →
    H₁ seen vars root₁ name np pos = H₂ seen vars root₂ name np pos

theorem find_field_rel {f₁ f₂ : List FieldDef} (h : f₁.map fv = f₂.map fv) (name : Name) :
    (f₁.find? (·.name == name) = none ∧ f₂.find? (·.name == name) = none) ∨
    ∃ a b, f₁.find? (·.name == name) = some a ∧ f₂.find? (·.name == name) = some b ∧ fv a = fv b :=
  option_map_eq_cases (find?_congr_view h (fun a _ b _ hab => by simp only [fv_name hab]))

mutual
theorem checkSelections_congr (hA : Agree S₁ S₂) (hC : Closed S₁) {H₁ H₂ : SpreadHandler} (hH : HRel S₁ H₁ H₂) :
    ∀ (ss : List Selection) (seen : List Name) (vars : Option (List VarDef)) (root₁ root₂ : TypeDef)
      (f₁ f₂ : List FieldDef), tv root₁ = tv root₂ → Found S₁ root₁ → f₁.map fv = f₂.map fv → FieldsOk S₁ f₁ →
      selsOk ss = true →
      checkSelections S₁ H₁ seen vars root₁ f₁ ss = checkSelections S₂ H₂ seen vars root₂ f₂ ss
  | [], _, _, _, _, _, _, _, _, _, _, _ => by simp only [checkSelections]
  | s :: ss, seen, vars, root₁, root₂, f₁, f₂, hr, hfr, hf, hok, hs => by
    simp only [selsOk, Bool.and_eq_true] at hs
    simp only [checkSelections]
    rw [checkSelection_congr hA hC hH s seen vars root₁ root₂ f₁ f₂ hr hfr hf hok hs.1,
      checkSelections_congr hA hC hH ss seen vars root₁ root₂ f₁ f₂ hr hfr hf hok hs.2]
theorem checkSelection_congr (hA : Agree S₁ S₂) (hC : Closed S₁) {H₁ H₂ : SpreadHandler} (hH : HRel S₁ H₁ H₂) :
    ∀ (s : Selection) (seen : List Name) (vars : Option (List VarDef)) (root₁ root₂ : TypeDef)
      (f₁ f₂ : List FieldDef), tv root₁ = tv root₂ → Found S₁ root₁ → f₁.map fv = f₂.map fv → FieldsOk S₁ f₁ →
      selOk s = true →
      checkSelection S₁ H₁ seen vars root₁ f₁ s = checkSelection S₂ H₂ seen vars root₂ f₂ s
  | .field al name np args dirs (some ss), seen, vars, root₁, root₂, f₁, f₂, hr, hfr, hf, hok, hs => by
    simp only [selOk, Bool.and_eq_true] at hs
    simp only [checkSelection]
    rcases find_field_rel hf name with ⟨h1, h2⟩ | ⟨a, b, h1, h2, hab⟩
    · simp only [h1, h2]
    · simp only [h1, h2]
      have ha := hok a (List.mem_of_find?_eq_some h1)
      rw [checkDirectives_congr hA hC vars dirs "FIELD" hs.1,
        checkArguments_congr hA hC vars np args (fv_args hab) ha.2, ← convType_unwrapped (fv_ty hab)]
      congr 1
      rcases agree_name hA ha.1 with ⟨e1, e2⟩ | ⟨t₁, t₂, e1, e2, ht⟩
      · simp only [e1, e2]
      · simp only [e1, e2]
        rcases directFields_rel hC ht ⟨_, e1⟩ with ⟨d1, d2⟩ | ⟨g₁, g₂, d1, d2, hg, hgok⟩
        · simp only [d1, d2]
        · simp only [d1, d2]
          exact checkSelections_congr hA hC hH ss seen vars t₁ t₂ g₁ g₂ ht ⟨_, e1⟩ hg hgok hs.2
  | .field al name np args dirs none, seen, vars, root₁, root₂, f₁, f₂, hr, hfr, hf, hok, hs => by
    simp only [selOk] at hs
    simp only [checkSelection]
    rcases find_field_rel hf name with ⟨h1, h2⟩ | ⟨a, b, h1, h2, hab⟩
    · simp only [h1, h2]
    · simp only [h1, h2]
      have ha := hok a (List.mem_of_find?_eq_some h1)
      rw [checkDirectives_congr hA hC vars dirs "FIELD" hs,
        checkArguments_congr hA hC vars np args (fv_args hab) ha.2, ← convType_unwrapped (fv_ty hab)]
      congr 1
      rcases agree_name hA ha.1 with ⟨e1, e2⟩ | ⟨t₁, t₂, e1, e2, ht⟩
      · simp only [e1, e2]
      · simp only [e1, e2, directFields_isSome_congr ht]
  | .spread name np dirs pos, seen, vars, root₁, root₂, f₁, f₂, hr, hfr, hf, hok, hs => by
    simp only [selOk] at hs
    simp only [checkSelection]
    rw [checkDirectives_congr hA hC vars dirs "FRAGMENT_SPREAD" hs, hH seen vars root₁ root₂ name np pos hr hfr]
  | .inline none dirs ss pos, seen, vars, root₁, root₂, f₁, f₂, hr, hfr, hf, hok, hs => by
    simp only [selOk, Bool.and_eq_true] at hs
    simp only [checkSelection]
    rw [checkDirectives_congr hA hC vars dirs "INLINE_FRAGMENT" hs.1,
      checkSelections_congr hA hC hH ss seen vars root₁ root₂ f₁ f₂ hr hfr hf hok hs.2]
  | .inline (some (c, cp)) dirs ss pos, seen, vars, root₁, root₂, f₁, f₂, hr, hfr, hf, hok, hs => by
    simp only [selOk, Bool.and_eq_true, nameOk, Bool.not_eq_true'] at hs
    simp only [checkSelection]
    rw [checkDirectives_congr hA hC vars dirs "INLINE_FRAGMENT" hs.1.1]
    congr 1
    rcases agree_name hA hs.1.2 with ⟨e1, e2⟩ | ⟨t₁, t₂, e1, e2, ht⟩
    · simp only [e1, e2]
    · simp only [e1, e2]
      rw [spreadApplicability_congr hA hC hr ht hfr ⟨_, e1⟩ pos]
      congr 1
      split
      · rcases directFields_rel hC ht ⟨_, e1⟩ with ⟨d1, d2⟩ | ⟨g₁, g₂, d1, d2, hg, hgok⟩
        · simp only [d1, d2]
        · simp only [d1, d2]
          exact checkSelections_congr hA hC hH ss seen vars t₁ t₂ g₁ g₂ ht ⟨_, e1⟩ hg hgok hs.2
      · rfl
end

theorem checkSelectionSet_congr (hA : Agree S₁ S₂) (hC : Closed S₁) {H₁ H₂ : SpreadHandler} (hH : HRel S₁ H₁ H₂)
    (seen : List Name) (vars : Option (List VarDef)) {root₁ root₂ : TypeDef} (hr : tv root₁ = tv root₂)
    (hfr : Found S₁ root₁) (ss : List Selection) (hs : selsOk ss = true) (anchor : Pos) :
    checkSelectionSet S₁ H₁ seen vars root₁ ss anchor = checkSelectionSet S₂ H₂ seen vars root₂ ss anchor := by
  unfold checkSelectionSet
  rcases directFields_rel hC hr hfr with ⟨d1, d2⟩ | ⟨g₁, g₂, d1, d2, hg, hgok⟩
  · simp only [d1, d2]
  · simp only [d1, d2]
    exact checkSelections_congr hA hC hH ss seen vars root₁ root₂ g₁ g₂ hr hfr hg hgok hs

/-! ### fragments -/

theorem fragMap_mem {D : Doc} {n : Name} {f : FragmentDef} (h : fragMap D n = some f) : f ∈ CheckOp.fragsOf D := by
  have := List.mem_of_find?_eq_some h
  simpa using this

theorem fragsOf_ok {D : Doc} (hD : docOk D = true) {f : FragmentDef} (hf : f ∈ CheckOp.fragsOf D) : fragOk f = true := by
  simp only [CheckOp.fragsOf, List.mem_filterMap] at hf
  obtain ⟨d, hd, hdf⟩ := hf
  have := List.all_eq_true.mp hD d hd
  cases d <;> simp at hdf
  subst hdf
  exact this

theorem spreadHandler_congr (hA : Agree S₁ S₂) (hC : Closed S₁) (D : Doc) (hD : docOk D = true) :
    ∀ fuel, HRel S₁ (spreadHandler S₁ D fuel) (spreadHandler S₂ D fuel)
  | 0 => by intro seen vars r₁ r₂ name np pos _ _; rfl
  | fuel + 1 => by
    intro seen vars r₁ r₂ name np pos hr hfr
    simp only [spreadHandler]
    split
    · rfl
    · cases hf : fragMap D name with
      | none => rfl
      | some f =>
        have hfo := fragsOf_ok hD (fragMap_mem hf)
        simp only [fragOk, Bool.and_eq_true, nameOk, Bool.not_eq_true'] at hfo
        simp only
        rw [checkDirectives_congr hA hC vars f.dirs "FRAGMENT_DEFINITION" hfo.1.1]
        congr 1
        rcases agree_name hA hfo.1.2 with ⟨e1, e2⟩ | ⟨t₁, t₂, e1, e2, ht⟩
        · simp only [e1, e2]
        · simp only [e1, e2]
          rw [spreadApplicability_congr hA hC hr ht hfr ⟨_, e1⟩ pos]
          congr 1
          split
          · exact checkSelectionSet_congr hA hC (spreadHandler_congr hA hC D hD fuel) _ vars ht ⟨_, e1⟩ f.sel hfo.2 f.pos
          · rfl

/-! ### definitions -/

theorem isInputType?_congr (hA : Agree S₁ S₂) {n : Name} (hn : isIntrospectionName n = false) :
    isInputType? S₁ n = isInputType? S₂ n := by
  unfold isInputType? Schema.kindOf?
  rcases agree_name hA hn with ⟨e1, e2⟩ | ⟨t₁, t₂, e1, e2, ht⟩
  · simp only [e1, e2]
  · simp only [e1, e2, Option.map_some, tv_kind ht]

theorem checkVariablesAux_congr (hA : Agree S₁ S₂) (hC : Closed S₁) :
    ∀ (vs : List VarDef) (seen : List Name), varsOk vs = true →
      checkVariablesAux S₁ seen vs = checkVariablesAux S₂ seen vs
  | [], _, _ => by simp only [checkVariablesAux]
  | v :: vs, seen, h => by
    simp only [varsOk, List.all_cons, Bool.and_eq_true] at h
    have ih := fun seen' => checkVariablesAux_congr hA hC vs seen' h.2
    simp only [nameOk, Bool.not_eq_true'] at h
    simp only [checkVariablesAux]
    rw [checkDirectives_congr hA hC none v.dirs "VARIABLE_DEFINITION" h.1.1, ih, ← isInputType?_congr hA h.1.2]
    congr 2
    cases hi : isInputType? S₁ v.ty.unwrapped with
    | none => rfl
    | some b =>
      cases b with
      | false => rfl
      | true =>
        cases hd : v.default with
        | none => rfl
        | some d =>
          simp only
          apply checkValue_congr hA hC none d v.ty v.ty false rfl
          refine ⟨h.1.2, ?_⟩
          simp only [isInputType?, Schema.kindOf?] at hi
          cases ht : S₁.typeDef? v.ty.unwrapped with
          | none => simp [ht] at hi
          | some t => rfl

/-- the root type definition `check_operation` checks an operation of kind `k` against (`none` = the operation is
    rejected with `NoRootType` or `UnknownType`) -/
def rootDef? (S : Gql.Schema) (k : OpKind) : Option TypeDef :=
  if hasExplicitSchema S && (S.explicitRoot? k).isNone then none else S.typeDef? (S.rootName k)

/-- `check_operation` after the root type has been found -/
def opBody (S : Gql.Schema) (D : Doc) (op : OperationDef) (root : TypeDef) : List Diag :=
  checkDirectives S (some op.vars) op.dirs (opLocation op.kind) ++
  checkVariablesAux S [] op.vars ++
  (if op.kind == .subscription && hasMoreThanOneField D op.sel
    then [(ErrKind.SubscriptionMustHaveExactlyOneRootField, op.pos)] else []) ++
  checkSelectionSet S (spreadHandler S D (fuelFor D)) [] (some op.vars) root op.sel op.pos

theorem checkOperation_some {S : Gql.Schema} {D : Doc} {op : OperationDef} {root : TypeDef}
    (h : rootDef? S op.kind = some root) : checkOperation S D op = opBody S D op root := by
  unfold rootDef? at h
  unfold checkOperation
  split at h
  · cases h
  · rename_i hc
    simp only [hc, Bool.false_eq_true, if_false, h, opBody]

theorem checkOperation_none {S : Gql.Schema} {D : Doc} {op : OperationDef} (h : rootDef? S op.kind = none) :
    checkOperation S D op = [(ErrKind.NoRootType, op.pos)] ∨ checkOperation S D op = [(ErrKind.UnknownType, op.pos)] := by
  unfold rootDef? at h
  unfold checkOperation
  split at h
  · rename_i hc
    left; simp only [hc, if_true]
  · rename_i hc
    right; simp only [hc, Bool.false_eq_true, if_false, h]

/-- `Agree` + the root type definitions -/
structure AgreeRoots (S₁ S₂ : Gql.Schema) : Prop extends Agree S₁ S₂ where
  roots : ∀ k, (rootDef? S₁ k).map tv = (rootDef? S₂ k).map tv

/-- the two ways an operation without a root type is rejected count as one -/
def normRoot (d : Diag) : Diag := if d.1 = ErrKind.NoRootType then (ErrKind.UnknownType, d.2) else d

theorem opBody_congr (hA : Agree S₁ S₂) (hC : Closed S₁) (D : Doc) (hD : docOk D = true) (op : OperationDef)
    (ho : defOk (.op op) = true) {r₁ r₂ : TypeDef} (hr : tv r₁ = tv r₂) (hf : Found S₁ r₁) :
    opBody S₁ D op r₁ = opBody S₂ D op r₂ := by
  simp only [defOk, Bool.and_eq_true] at ho
  unfold opBody
  rw [checkDirectives_congr hA hC _ op.dirs _ ho.1.1, checkVariablesAux_congr hA hC op.vars [] ho.1.2,
    checkSelectionSet_congr hA hC (spreadHandler_congr hA hC D hD _) [] _ hr hf op.sel ho.2 op.pos]

theorem rootDef?_found {S : Gql.Schema} {k : OpKind} {r : TypeDef} (h : rootDef? S k = some r) : Found S r := by
  unfold rootDef? at h
  split at h
  · cases h
  · exact ⟨_, h⟩

theorem checkOperation_congr_norm (hA : AgreeRoots S₁ S₂) (hC : Closed S₁) (D : Doc) (hD : docOk D = true)
    (op : OperationDef) (ho : defOk (.op op) = true) :
    (checkOperation S₁ D op).map normRoot = (checkOperation S₂ D op).map normRoot := by
  rcases option_map_eq_cases (hA.roots op.kind) with ⟨h1, h2⟩ | ⟨r₁, r₂, h1, h2, hr⟩
  · rcases checkOperation_none (D := D) h1 with e1 | e1 <;> rcases checkOperation_none (D := D) h2 with e2 | e2 <;>
      simp [e1, e2, normRoot]
  · rw [checkOperation_some h1, checkOperation_some h2,
      opBody_congr hA.toAgree hC D hD op ho hr (rootDef?_found h1)]

theorem checkOperation_congr_exact (hA : AgreeRoots S₁ S₂) (hC : Closed S₁) (D : Doc) (hD : docOk D = true)
    (op : OperationDef) (ho : defOk (.op op) = true) (hroot : (rootDef? S₁ op.kind).isSome = true) :
    checkOperation S₁ D op = checkOperation S₂ D op := by
  rcases option_map_eq_cases (hA.roots op.kind) with ⟨h1, _⟩ | ⟨r₁, r₂, h1, h2, hr⟩
  · simp [h1] at hroot
  · rw [checkOperation_some h1, checkOperation_some h2,
      opBody_congr hA.toAgree hC D hD op ho hr (rootDef?_found h1)]

theorem checkFragmentDefinition_congr (hA : Agree S₁ S₂) (hC : Closed S₁) (D : Doc) (hD : docOk D = true)
    (used : Bool) (f : FragmentDef) (hf : fragOk f = true) :
    checkFragmentDefinition S₁ D used f = checkFragmentDefinition S₂ D used f := by
  simp only [fragOk, Bool.and_eq_true, nameOk, Bool.not_eq_true'] at hf
  unfold checkFragmentDefinition
  rw [checkDirectives_congr hA hC none f.dirs "FRAGMENT_DEFINITION" hf.1.1]
  congr 1
  rcases agree_name hA hf.1.2 with ⟨e1, e2⟩ | ⟨t₁, t₂, e1, e2, ht⟩
  · simp only [e1, e2]
  · simp only [e1, e2, directFields_isSome_congr ht]
    rw [checkSelectionSet_congr hA hC (spreadHandler_congr hA hC D hD _) [f.name] none ht ⟨_, e1⟩ f.sel hf.2 f.pos]

/-- per-definition agreement lifts to the main loop, under any renaming `g` of diagnostics -/
theorem checkDefs_map_congr (g : Diag → Diag) (D : Doc) (opNum : Nat) :
    ∀ (rest earlier : List ExecDef), (∀ d ∈ rest, (defBody S₁ D d).map g = (defBody S₂ D d).map g) →
      (checkDefs S₁ D opNum earlier rest).map g = (checkDefs S₂ D opNum earlier rest).map g
  | [], _, _ => by simp only [checkDefs]
  | d :: rest, earlier, h => by
    simp only [checkDefs, List.map_append]
    rw [h d (by simp), checkDefs_map_congr g D opNum rest (earlier ++ [d]) (fun x hx => h x (by simp [hx]))]

/-- **the operation checker on two agreeing views**: the same diagnostics, `NoRootType` and `UnknownType` of a
    rejected operation kind counted as one -/
theorem checkOp_congr_norm (hA : AgreeRoots S₁ S₂) (hC : Closed S₁) (D : Doc) (hD : docOk D = true) :
    (checkOp S₁ D).map normRoot = (checkOp S₂ D).map normRoot := by
  unfold checkOp
  apply checkDefs_map_congr
  intro d hd
  have hok := List.all_eq_true.mp hD d hd
  cases d with
  | op o => exact checkOperation_congr_norm hA hC D hD o hok
  | frag f => simp only [defBody]; rw [checkFragmentDefinition_congr hA.toAgree hC D hD _ f hok]
  | imp i => rfl

/-- exactly the same diagnostics when every operation of the document has a root type -/
theorem checkOp_congr_exact (hA : AgreeRoots S₁ S₂) (hC : Closed S₁) (D : Doc) (hD : docOk D = true)
    (hroots : ∀ o ∈ opsOf D, (rootDef? S₁ o.kind).isSome = true) : checkOp S₁ D = checkOp S₂ D := by
  have := checkDefs_map_congr (S₁ := S₁) (S₂ := S₂) id D (opsOf D).length D [] (by
    intro d hd
    have hok := List.all_eq_true.mp hD d hd
    simp only [List.map_id]
    cases d with
    | op o =>
      refine checkOperation_congr_exact hA hC D hD o hok (hroots o ?_)
      simp only [opsOf, List.mem_filterMap]
      exact ⟨.op o, hd, rfl⟩
    | frag f => simp only [defBody]; rw [checkFragmentDefinition_congr hA.toAgree hC D hD _ f hok]
    | imp i => rfl)
  simpa [checkOp] using this

theorem map_normRoot_eq_nil (l : List Diag) : l.map normRoot = [] ↔ l = [] := by simp

end NitroVerif.Bridge
