import NitroVerif.Lemmas.JsonText
/-!
# C12, text level — number tokens are read back whatever follows them (if it cannot continue a number)

`number_append`: if `number r = some (r, [])` (the text `r` is ONE number token, RFC 8259 §6) and the text behind it does not
begin with a character that could continue a number (a digit, `.`, `e`, `E`), then `number (r ++ rest) = some (r, rest)`.
-/
namespace NitroVerif.JsonText
open NitroVerif

/-- could `c` continue a number token? -/
def numCont (c : Char) : Bool := isDigit c || c = '.' || c = 'e' || c = 'E'

/-- the text behind a value does not continue a number token -/
def Delim (rest : List Char) : Prop := ∀ c r, rest = c :: r → numCont c = false

theorem delim_nil : Delim [] := by intro c r h; cases h

theorem delim_cons {c : Char} {r : List Char} (h : numCont c = false) : Delim (c :: r) := by
  intro c' r' e; cases e; exact h

theorem digits_append (s rest : List Char) (hd : Delim rest) :
    digits (s ++ rest) = ((digits s).1, (digits s).2 ++ rest) := by
  induction s with
  | nil =>
    cases rest with
    | nil => simp [digits]
    | cons c r =>
      have := hd c r rfl
      simp [numCont] at this
      simp [digits, this.1.1.1]
  | cons c s ih =>
    by_cases h : isDigit c = true
    · simp [digits, h, ih]
    · simp [digits, h]

theorem intPart_append {s i r : List Char} (rest : List Char) (hd : Delim rest) (h : intPart s = some (i, r)) :
    intPart (s ++ rest) = some (i, r ++ rest) := by
  cases s with
  | nil => simp [intPart] at h
  | cons c cs =>
    simp only [intPart] at h
    simp only [List.cons_append, intPart]
    split at h
    · rename_i h0; simp only [Option.some.injEq, Prod.mk.injEq] at h; simp [h0, ← h.1, ← h.2]
    · rename_i h0
      split at h
      · rename_i h1
        simp only [Option.some.injEq, Prod.mk.injEq] at h
        simp [h0, h1, digits_append cs rest hd, ← h.1, ← h.2]
      · cases h

theorem fracPart_append {s x r : List Char} (rest : List Char) (hd : Delim rest) (h : fracPart s = some (x, r)) :
    fracPart (s ++ rest) = some (x, r ++ rest) := by
  cases s with
  | nil =>
    simp only [fracPart, Option.some.injEq, Prod.mk.injEq] at h
    rw [← h.1, ← h.2]
    cases rest with
    | nil => simp [fracPart]
    | cons c r' =>
      have := hd c r' rfl
      simp [numCont] at this
      simp [fracPart, this.1.1.2]
  | cons c cs =>
    simp only [fracPart] at h
    simp only [List.cons_append, fracPart]
    split at h
    · rename_i h0
      split at h
      · cases h
      · rename_i h1
        simp only [Option.some.injEq, Prod.mk.injEq] at h
        simp [h0, digits_append cs rest hd, h1, ← h.1, ← h.2]
    · rename_i h0
      simp only [Option.some.injEq, Prod.mk.injEq] at h
      simp [h0, ← h.1, ← h.2]

theorem expDigits_append {pre s x r : List Char} (rest : List Char) (hd : Delim rest)
    (h : expDigits pre s = some (x, r)) : expDigits pre (s ++ rest) = some (x, r ++ rest) := by
  unfold expDigits at h ⊢
  split at h
  · cases h
  · rename_i h1
    simp only [Option.some.injEq, Prod.mk.injEq] at h
    simp [digits_append s rest hd, h1, ← h.1, ← h.2]

theorem expPart_append {s x r : List Char} (rest : List Char) (hd : Delim rest) (h : expPart s = some (x, r)) :
    expPart (s ++ rest) = some (x, r ++ rest) := by
  cases s with
  | nil =>
    simp only [expPart, Option.some.injEq, Prod.mk.injEq] at h
    rw [← h.1, ← h.2]
    cases rest with
    | nil => simp [expPart]
    | cons c r' =>
      have := hd c r' rfl
      simp [numCont] at this
      simp [expPart, this.1.2, this.2]
  | cons c cs =>
    simp only [expPart] at h
    simp only [List.cons_append, expPart]
    split at h
    · rename_i h0
      cases cs with
      | nil => simp at h
      | cons d ds =>
        simp only at h
        simp only [List.cons_append, h0, if_true]
        split at h
        · rename_i h1
          simp only [h1, if_true]
          exact expDigits_append rest hd h
        · rename_i h1
          simp only [h1, if_false]
          exact expDigits_append (s := d :: ds) rest hd h
    · rename_i h0
      simp only [Option.some.injEq, Prod.mk.injEq] at h
      simp [h0, ← h.1, ← h.2]

/-- a number token followed by a text that cannot continue it is read as that token, leaving that text -/
theorem number_append {s raw r : List Char} (rest : List Char) (hd : Delim rest) (h : number s = some (raw, r)) :
    number (s ++ rest) = some (raw, r ++ rest) := by
  cases s with
  | nil => simp [number, intPart] at h
  | cons c cs =>
    unfold number at h ⊢
    by_cases hc : c = '-'
    · simp only [hc, if_true, List.cons_append] at h ⊢
      cases hi : intPart cs with
      | none => simp [hi] at h
      | some p1 =>
        obtain ⟨i, r1⟩ := p1
        simp only [hi] at h
        rw [intPart_append rest hd hi]
        cases hf : fracPart r1 with
        | none => simp [hf] at h
        | some p2 =>
          obtain ⟨x, r2⟩ := p2
          simp only [hf] at h
          simp only [fracPart_append rest hd hf]
          cases he : expPart r2 with
          | none => simp [he] at h
          | some p3 =>
            obtain ⟨e, r3⟩ := p3
            simp only [he, Option.some.injEq, Prod.mk.injEq] at h
            simp only [expPart_append rest hd he]
            simp [← h.1, ← h.2]
    · simp only [hc, if_false, List.cons_append] at h ⊢
      cases hi : intPart (c :: cs) with
      | none => simp [hi] at h
      | some p1 =>
        obtain ⟨i, r1⟩ := p1
        simp only [hi] at h
        have := intPart_append rest hd hi
        simp only [List.cons_append] at this
        rw [this]
        cases hf : fracPart r1 with
        | none => simp [hf] at h
        | some p2 =>
          obtain ⟨x, r2⟩ := p2
          simp only [hf] at h
          simp only [fracPart_append rest hd hf]
          cases he : expPart r2 with
          | none => simp [he] at h
          | some p3 =>
            obtain ⟨e, r3⟩ := p3
            simp only [he, Option.some.injEq, Prod.mk.injEq] at h
            simp only [expPart_append rest hd he]
            simp [← h.1, ← h.2]

/-- a number token begins with `-` or a digit -/
theorem number_head {s raw r : List Char} (h : number s = some (raw, r)) :
    ∃ c cs, s = c :: cs ∧ (c = '-' ∨ isDigit c = true) := by
  cases s with
  | nil => simp [number, intPart] at h
  | cons c cs =>
    refine ⟨c, cs, rfl, ?_⟩
    by_cases hc : c = '-'
    · exact Or.inl hc
    · right
      unfold number at h
      simp only [hc, if_false] at h
      cases hi : intPart (c :: cs) with
      | none => simp [hi] at h
      | some p =>
        simp only [intPart] at hi
        split at hi
        · rename_i h0; subst h0; rfl
        · split at hi
          · assumption
          · cases hi

end NitroVerif.JsonText
