/-
The PEG interpreter emits only child sequences in the computed shape (helper lemmas for Props/C08):
* `MemInv`: whatever `eval` / `doSkip` / `starRest` / `callRule` return (outside lookahead), the rules of the returned
  top-level pairs are a word of `exprShape` / `skipShape` / `callShape` — for EVERY depth bound of the shape
  computation (a shape that ran out of fuel is `top`);
* `DeepInv`: every pair in the returned trees has children in `ruleShape` of its rule (`Deep`).
Both are inductions on the interpreter's depth bound using only the inversion lemmas of `Lemmas/PegInv.lean`.
-/
import NitroVerif.Lemmas.PegInv
import NitroVerif.Lemmas.Shape
namespace NitroVerif.Shape
open NitroVerif.Peg

/-! ### closure of `Mem` under the smart constructors -/

theorem mem_eps_inv {w : List RuleId} (h : Mem .eps w) : w = [] := by cases h; rfl

theorem mem_mkSeq {a b : Re} {u v : List RuleId} (ha : Mem a u) (hb : Mem b v) : Mem (mkSeq a b) (u ++ v) := by
  unfold mkSeq
  split
  · have := mem_eps_inv ha; subst this; simpa using hb
  · have := mem_eps_inv hb; subst this; simpa using ha
  · exact .seq ha hb

theorem mem_mkAlt_l {a b : Re} {u : List RuleId} (h : Mem a u) : Mem (mkAlt a b) u := by
  unfold mkAlt; split
  · exact h
  · exact .altL h

theorem mem_mkAlt_r {a b : Re} {u : List RuleId} (h : Mem b u) : Mem (mkAlt a b) u := by
  unfold mkAlt; split
  · rename_i hab; exact hab ▸ h
  · exact .altR h

theorem mem_star_append {a : Re} {u v : List RuleId} (hu : Mem (.star a) u) (hv : Mem (.star a) v) :
    Mem (.star a) (u ++ v) := by
  generalize he : Re.star a = e at hu
  induction hu with
  | starNil => cases he; simpa using hv
  | starCons h1 _ _ ih2 =>
    cases he
    rw [List.append_assoc]
    exact .starCons h1 (ih2 rfl)
  | eps => cases he
  | sym => cases he
  | seq => cases he
  | altL => cases he
  | altR => cases he
  | top => cases he

theorem mem_mkStar_nil (a : Re) : Mem (mkStar a) [] := by
  unfold mkStar; split
  · exact .eps
  · exact .starNil
  · exact .starNil

theorem mem_mkStar_cons {a : Re} {u v : List RuleId} (hu : Mem a u) (hv : Mem (mkStar a) v) :
    Mem (mkStar a) (u ++ v) := by
  unfold mkStar at hv ⊢
  split at hv
  · have h1 := mem_eps_inv hu; have h2 := mem_eps_inv hv; subst h1 h2; exact .eps
  · exact mem_star_append hu hv
  · exact .starCons hu hv

/-! ### the children of every pair are in the shape of its rule -/

/-- `P` holds of (rule, rules of the children) for the pair and, recursively, for all pairs below it -/
inductive Deep (P : RuleId → List RuleId → Prop) : Pair → Prop where
  | mk {r s e cs} : P r (cs.map Pair.rule) → (∀ c ∈ cs, Deep P c) → Deep P (.mk r s e cs)

theorem Deep.mono {P Q : RuleId → List RuleId → Prop} (hpq : ∀ r w, P r w → Q r w) :
    ∀ {p : Pair}, Deep P p → Deep Q p := by
  intro p h
  induction h with
  | mk h1 _ ih => exact .mk (hpq _ _ h1) ih

/-- every pair of the tree has children in the shape of its rule -/
abbrev DeepOk (g : G) : Pair → Prop := Deep (fun r w => Mem (ruleShape g r) w)

structure MemInv (g : G) (fuel : Nat) : Prop where
  ev : ∀ F sk e at_ tr c tr' c' ps, eval g fuel sk e at_ .none tr c = (tr', .ok c' ps) →
    Mem (exprShape g F sk at_ e) (ps.map Pair.rule)
  sk : ∀ F sk at_ tr c tr' c' ps, doSkip g fuel sk at_ .none tr c = (tr', .ok c' ps) →
    Mem (skipShape g F sk at_) (ps.map Pair.rule)
  sr : ∀ F a at_ tr c tr' c' ps, starRest g fuel a at_ .none tr c = (tr', .ok c' ps) →
    Mem (mkStar (mkSeq (skipShape g F true at_) (exprShape g F true at_ a))) (ps.map Pair.rule)
  cr : ∀ F r at_ tr c tr' c' ps, callRule g fuel r at_ .none tr c = (tr', .ok c' ps) →
    Mem (callShape g F r at_) (ps.map Pair.rule)

theorem memInv (g : G) : ∀ fuel, MemInv g fuel := by
  intro fuel
  induction fuel with
  | zero =>
    exact ⟨fun _ _ _ _ _ _ _ _ _ h => by simp [eval_zero] at h, fun _ _ _ _ _ _ _ _ h => by simp [doSkip_zero] at h,
      fun _ _ _ _ _ _ _ _ h => by simp [starRest_zero] at h, fun _ _ _ _ _ _ _ _ h => by simp [callRule_zero] at h⟩
  | succ fuel ih =>
    refine ⟨?_, ?_, ?_, ?_⟩
    · -- eval
      intro F sk e at_ tr c tr' c' ps h
      cases F with
      | zero => simp only [exprShape]; exact .top _
      | succ F =>
        cases e with
        | str s => obtain ⟨_, rfl⟩ := eval_str_ok g h; simp only [exprShape, List.map_nil]; exact .eps
        | insens s => obtain ⟨_, rfl⟩ := eval_insens_ok g h; simp only [exprShape, List.map_nil]; exact .eps
        | range lo hi => obtain ⟨_, rfl⟩ := eval_range_ok g h; simp only [exprShape, List.map_nil]; exact .eps
        | any => obtain ⟨_, rfl⟩ := eval_any_ok g h; simp only [exprShape, List.map_nil]; exact .eps
        | soi => obtain ⟨_, rfl⟩ := eval_soi_ok g h; simp only [exprShape, List.map_nil]; exact .eps
        | eoi => obtain ⟨_, rfl⟩ := eval_eoi_ok g h; simp only [exprShape, List.map_nil]; exact .eps
        | seq a b =>
          obtain ⟨tr1, c1, p1, tr2, c2, p2, p3, h1, h2, h3, rfl⟩ := eval_seq_ok g h
          simp only [exprShape, List.map_append, List.append_assoc]
          exact mem_mkSeq (ih.ev F _ _ _ _ _ _ _ _ h1) (mem_mkSeq (ih.sk F _ _ _ _ _ _ _ h2) (ih.ev F _ _ _ _ _ _ _ _ h3))
        | choice a b =>
          simp only [exprShape]
          rcases eval_choice_ok g h with h1 | ⟨tr1, _, h2⟩
          · exact mem_mkAlt_l (ih.ev F _ _ _ _ _ _ _ _ h1)
          · exact mem_mkAlt_r (ih.ev F _ _ _ _ _ _ _ _ h2)
        | opt a =>
          simp only [exprShape]
          rcases eval_opt_ok g h with h1 | ⟨_, rfl⟩
          · exact mem_mkAlt_l (ih.ev F _ _ _ _ _ _ _ _ h1)
          · exact mem_mkAlt_r .eps
        | star a =>
          cases sk with
          | true =>
            simp only [exprShape, if_true]
            rcases eval_star_sk_ok g h with ⟨tr1, c1, p1, p2, h1, h2, rfl⟩ | ⟨_, rfl⟩
            · rw [List.map_append]
              exact mem_mkAlt_l (mem_mkSeq (ih.ev F _ _ _ _ _ _ _ _ h1) (ih.sr F _ _ _ _ _ _ _ h2))
            · exact mem_mkAlt_r .eps
          | false =>
            simp only [exprShape, Bool.false_eq_true, if_false]
            rcases eval_star_nosk_ok g h with ⟨tr1, c1, p1, p2, h1, h2, rfl⟩ | ⟨_, rfl⟩
            · rw [List.map_append]
              have hs := ih.ev (F + 1) _ _ _ _ _ _ _ _ h2
              simp only [exprShape, Bool.false_eq_true, if_false] at hs
              exact mem_mkStar_cons (ih.ev F _ _ _ _ _ _ _ _ h1) hs
            · exact mem_mkStar_nil _
        | plus a =>
          rw [eval_plus] at h
          simp only [exprShape]
          exact ih.ev F _ _ _ _ _ _ _ _ h
        | rep n a =>
          rw [eval_rep] at h
          simp only [exprShape]
          exact ih.ev F _ _ _ _ _ _ _ _ h
        | not a => obtain ⟨_, rfl⟩ := eval_not_ok g h; simp only [exprShape, List.map_nil]; exact .eps
        | and a => obtain ⟨_, rfl⟩ := eval_and_ok g h; simp only [exprShape, List.map_nil]; exact .eps
        | call r =>
          rw [eval_call] at h
          simp only [exprShape]
          exact ih.cr F _ _ _ _ _ _ _ h
    · -- doSkip
      intro F sk at_ tr c tr' c' ps h
      cases F with
      | zero => simp only [skipShape]; exact .top _
      | succ F =>
        rcases doSkip_ok g h with ⟨hsk, hat, e, he, h1⟩ | ⟨_, rfl⟩
        · subst hsk hat
          simp only [skipShape, and_self, if_true, he]
          exact ih.ev F _ _ _ _ _ _ _ _ h1
        · simp only [skipShape]
          split
          · split
            · -- the shape of skip contains ε: it is a star / sequence of stars; use the generic fact below
              rename_i e he
              -- ps = [] : need Mem (exprShape g F false at_ e) []; e is one of the skip expressions
              unfold G.skipExpr at he
              cases F with
              | zero => simp only [exprShape]; exact .top _
              | succ F =>
                split at he
                · cases he
                · cases he; simp only [exprShape, Bool.false_eq_true, if_false]; exact mem_mkStar_nil _
                · cases he; simp only [exprShape, Bool.false_eq_true, if_false]; exact mem_mkStar_nil _
                · cases he
                  simp only [exprShape]
                  cases F with
                  | zero =>
                    simp only [exprShape, skipShape]
                    exact (by simpa using mem_mkSeq (Mem.top []) (mem_mkSeq (Mem.top []) (Mem.top [])))
                  | succ F =>
                    simp only [exprShape, Bool.false_eq_true, if_false]
                    have h0 : Mem (skipShape g (F + 1) false at_) [] := by simp [skipShape]; exact .eps
                    exact (by simpa using mem_mkSeq (mem_mkStar_nil _) (mem_mkSeq h0 (mem_mkStar_nil _)))
            · exact .eps
          · exact .eps
    · -- starRest
      intro F a at_ tr c tr' c' ps h
      rcases starRest_ok g h with ⟨tr1, c1, p1, tr2, c2, p2, p3, h1, h2, h3, rfl⟩ | ⟨_, rfl⟩
      · simp only [List.map_append, List.append_assoc]
        rw [← List.append_assoc]
        exact mem_mkStar_cons (mem_mkSeq (ih.sk F _ _ _ _ _ _ _ h1) (ih.ev F _ _ _ _ _ _ _ _ h2)) (ih.sr F _ _ _ _ _ _ _ h3)
      · exact mem_mkStar_nil _
    · -- callRule
      intro F r at_ tr c tr' c' ps h
      cases F with
      | zero => simp only [callShape]; exact .top _
      | succ F =>
        obtain ⟨kind, body, tr0, tr1, ps0, hl, hb, hps⟩ := callRule_ok g h
        have hbody := ih.ev F _ _ _ _ _ _ _ _ hb
        simp only [callShape, hl]
        cases kind with
        | silent =>
          simp only [if_true] at hps
          subst hps
          by_cases hs : g.ws = some r ∨ g.cm = some r
          · simpa [bodyCfg, hs] using hbody
          · simpa [bodyCfg, hs] using hbody
        | normal =>
          simp only [reduceCtorEq, if_false, true_and] at hps
          by_cases hat : at_ = .atomic
          · subst hat
            by_cases hs : g.ws = some r ∨ g.cm = some r
            · simp [bodyCfg, hs] at hps hbody ⊢; subst hps; exact hbody
            · simp [bodyCfg, hs] at hps hbody ⊢; subst hps; exact hbody
          · by_cases hs : g.ws = some r ∨ g.cm = some r
            · simp [bodyCfg, hs, hat] at hps ⊢; subst hps; exact .sym r
            · simp [bodyCfg, hs, hat] at hps ⊢; subst hps; exact .sym r
        | atomic =>
          simp only [reduceCtorEq, if_false, true_and] at hps
          by_cases hat : at_ = .atomic
          · subst hat
            simp [bodyCfg] at hps hbody ⊢; subst hps; exact hbody
          · simp [bodyCfg, hat] at hps ⊢; subst hps; exact .sym r
        | compound =>
          simp [bodyCfg] at hps ⊢; subst hps; exact .sym r
        | nonAtomic =>
          simp [bodyCfg] at hps ⊢; subst hps; exact .sym r

end NitroVerif.Shape

namespace NitroVerif.Shape
open NitroVerif.Peg

/-- the children of a pair emitted for rule `r` are in `ruleShape g r` -/
theorem emitted_in_ruleShape (g : G) {fuel r kind body at_ tr0 c tr1 c' ps0}
    (hl : g.look r = some (kind, body))
    (hb : eval g fuel (bodyCfg (decide (g.ws = some r ∨ g.cm = some r)) kind at_).1 body
        (bodyCfg (decide (g.ws = some r ∨ g.cm = some r)) kind at_).2.1 .none tr0 c = (tr1, .ok c' ps0))
    (hk : kind ≠ .silent) (hseen : (bodyCfg (decide (g.ws = some r ∨ g.cm = some r)) kind at_).2.2 ≠ .atomic) :
    Mem (ruleShape g r) (ps0.map Pair.rule) := by
  have hbody := fun F => (memInv g fuel).ev F _ _ _ _ _ _ _ _ hb
  simp only [ruleShape, hl]
  cases kind with
  | silent => exact absurd rfl hk
  | normal =>
    by_cases hs : g.ws = some r ∨ g.cm = some r
    · simpa [bodyCfg, hs] using hbody shapeFuel
    · simp only [bodyCfg, hs, decide_false, Bool.false_eq_true, if_false] at hseen hbody ⊢
      cases at_ with
      | atomic => exact absurd rfl hseen
      | nonAtomic => exact mem_mkAlt_l (hbody shapeFuel)
      | compound => exact mem_mkAlt_r (hbody shapeFuel)
  | atomic => simpa [bodyCfg] using hbody shapeFuel
  | compound => simpa [bodyCfg] using hbody shapeFuel
  | nonAtomic => simpa [bodyCfg] using hbody shapeFuel

structure DeepInv (g : G) (fuel : Nat) : Prop where
  ev : ∀ sk e at_ tr c tr' c' ps, eval g fuel sk e at_ .none tr c = (tr', .ok c' ps) → ∀ p ∈ ps, DeepOk g p
  sk : ∀ sk at_ tr c tr' c' ps, doSkip g fuel sk at_ .none tr c = (tr', .ok c' ps) → ∀ p ∈ ps, DeepOk g p
  sr : ∀ a at_ tr c tr' c' ps, starRest g fuel a at_ .none tr c = (tr', .ok c' ps) → ∀ p ∈ ps, DeepOk g p
  cr : ∀ r at_ tr c tr' c' ps, callRule g fuel r at_ .none tr c = (tr', .ok c' ps) → ∀ p ∈ ps, DeepOk g p

theorem deepInv (g : G) : ∀ fuel, DeepInv g fuel := by
  intro fuel
  induction fuel with
  | zero =>
    exact ⟨fun _ _ _ _ _ _ _ _ h => by simp [eval_zero] at h, fun _ _ _ _ _ _ _ h => by simp [doSkip_zero] at h,
      fun _ _ _ _ _ _ _ h => by simp [starRest_zero] at h, fun _ _ _ _ _ _ _ h => by simp [callRule_zero] at h⟩
  | succ fuel ih =>
    have app2 : ∀ {p1 p2 : List Pair}, (∀ p ∈ p1, DeepOk g p) → (∀ p ∈ p2, DeepOk g p) → ∀ p ∈ p1 ++ p2, DeepOk g p := by
      intro p1 p2 h1 h2 p hp
      rcases List.mem_append.mp hp with h | h
      · exact h1 p h
      · exact h2 p h
    have nil : ∀ p ∈ ([] : List Pair), DeepOk g p := fun p hp => by cases hp
    refine ⟨?_, ?_, ?_, ?_⟩
    · intro sk e at_ tr c tr' c' ps h
      cases e with
      | str s => obtain ⟨_, rfl⟩ := eval_str_ok g h; exact nil
      | insens s => obtain ⟨_, rfl⟩ := eval_insens_ok g h; exact nil
      | range lo hi => obtain ⟨_, rfl⟩ := eval_range_ok g h; exact nil
      | any => obtain ⟨_, rfl⟩ := eval_any_ok g h; exact nil
      | soi => obtain ⟨_, rfl⟩ := eval_soi_ok g h; exact nil
      | eoi => obtain ⟨_, rfl⟩ := eval_eoi_ok g h; exact nil
      | seq a b =>
        obtain ⟨tr1, c1, p1, tr2, c2, p2, p3, h1, h2, h3, rfl⟩ := eval_seq_ok g h
        exact app2 (app2 (ih.ev _ _ _ _ _ _ _ _ h1) (ih.sk _ _ _ _ _ _ _ h2)) (ih.ev _ _ _ _ _ _ _ _ h3)
      | choice a b =>
        rcases eval_choice_ok g h with h1 | ⟨tr1, _, h2⟩
        · exact ih.ev _ _ _ _ _ _ _ _ h1
        · exact ih.ev _ _ _ _ _ _ _ _ h2
      | opt a =>
        rcases eval_opt_ok g h with h1 | ⟨_, rfl⟩
        · exact ih.ev _ _ _ _ _ _ _ _ h1
        · exact nil
      | star a =>
        cases sk with
        | true =>
          rcases eval_star_sk_ok g h with ⟨tr1, c1, p1, p2, h1, h2, rfl⟩ | ⟨_, rfl⟩
          · exact app2 (ih.ev _ _ _ _ _ _ _ _ h1) (ih.sr _ _ _ _ _ _ _ h2)
          · exact nil
        | false =>
          rcases eval_star_nosk_ok g h with ⟨tr1, c1, p1, p2, h1, h2, rfl⟩ | ⟨_, rfl⟩
          · exact app2 (ih.ev _ _ _ _ _ _ _ _ h1) (ih.ev _ _ _ _ _ _ _ _ h2)
          · exact nil
      | plus a => rw [eval_plus] at h; exact ih.ev _ _ _ _ _ _ _ _ h
      | rep n a => rw [eval_rep] at h; exact ih.ev _ _ _ _ _ _ _ _ h
      | not a => obtain ⟨_, rfl⟩ := eval_not_ok g h; exact nil
      | and a => obtain ⟨_, rfl⟩ := eval_and_ok g h; exact nil
      | call r => rw [eval_call] at h; exact ih.cr _ _ _ _ _ _ _ h
    · intro sk at_ tr c tr' c' ps h
      rcases doSkip_ok g h with ⟨_, _, e, _, h1⟩ | ⟨_, rfl⟩
      · exact ih.ev _ _ _ _ _ _ _ _ h1
      · exact nil
    · intro a at_ tr c tr' c' ps h
      rcases starRest_ok g h with ⟨tr1, c1, p1, tr2, c2, p2, p3, h1, h2, h3, rfl⟩ | ⟨_, rfl⟩
      · exact app2 (app2 (ih.sk _ _ _ _ _ _ _ h1) (ih.ev _ _ _ _ _ _ _ _ h2)) (ih.sr _ _ _ _ _ _ _ h3)
      · exact nil
    · intro r at_ tr c tr' c' ps h
      obtain ⟨kind, body, tr0, tr1, ps0, hl, hb, hps⟩ := callRule_ok g h
      have hdeep := ih.ev _ _ _ _ _ _ _ _ hb
      by_cases hk : kind = .silent
      · simp only [hk, if_true] at hps; subst hps; exact hdeep
      · simp only [hk, if_false, true_and] at hps
        by_cases hseen : (bodyCfg (decide (g.ws = some r ∨ g.cm = some r)) kind at_).2.2 = .atomic
        · simp only [hseen, ne_eq, not_true_eq_false, if_false] at hps; subst hps; exact hdeep
        · simp only [ne_eq, hseen, not_false_eq_true, if_true] at hps
          subst hps
          intro p hp
          have : p = Pair.mk r c.pos c'.pos ps0 := by simpa using hp
          subst this
          exact .mk (emitted_in_ruleShape g hl hb hk hseen) hdeep

/-- `run_children_in_shape` for the entry point: every pair of a successful parse, at any depth, has children
    in the shape of its rule -/
theorem parse_deepOk (g : G) (fuel : Nat) (r : RuleId) (input : List Char) (ps : List Pair)
    (h : Peg.parse g fuel r input = .pairs ps) : ∀ p ∈ ps, DeepOk g p := by
  unfold Peg.parse runTr at h
  rcases hc : callRule g fuel r .nonAtomic .none {} ⟨0, input⟩ with ⟨tr, o⟩
  rw [hc] at h
  cases o with
  | ok c' ps' =>
    simp only [ParseResult.pairs.injEq] at h
    subst h
    exact (deepInv g fuel).cr _ _ _ _ _ _ _ hc
  | fail => simp at h
  | oof => simp at h

end NitroVerif.Shape
