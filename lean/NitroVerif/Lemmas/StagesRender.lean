/-
C08 (stages after parsing), part: rendering a diagnostic.  Exactly when `print_positioned_error` panics.

C18 proves `message_for_line` total (`messageForLine_isSome`: `skip_chars` splits at a character boundary inside the
line for EVERY source text and every line / column, also outside the text) and `print_positioned_error` total when the
file indices are inside the store.  Here the converse: the ONLY panic of the function is the index `files[position.file]`
(main position or a note, when not built-in) outside the file store.
-/
import NitroVerif.Lemmas.Cli
namespace NitroVerif.Cli

theorem renderExtras_none_iff (files : List (List Char × List Char)) : ∀ (ex : List (Pos × List Char)),
    renderExtras files ex = none ↔ ∃ q ∈ ex, q.1.builtin = false ∧ files.length ≤ q.1.file := by
  intro ex
  induction ex with
  | nil => simp [renderExtras]
  | cons q rest ih =>
    obtain ⟨p, m⟩ := q
    simp only [renderExtras]
    cases hb : p.builtin with
    | true =>
      simp only [if_true, ih, List.mem_cons, exists_eq_or_imp, hb, Bool.true_eq_false, false_and, false_or]
    | false =>
      simp only [Bool.false_eq_true, if_false, List.mem_cons, exists_eq_or_imp, hb, true_and]
      by_cases hf : p.file < files.length
      · have hget : files[p.file]? = some files[p.file] := by simp [hf]
        rw [hget]
        have hm := messageForLine_isSome files[p.file].1 files[p.file].2 p m true
        cases hx : renderExtras files rest with
        | none =>
          simp only []
          constructor
          · intro _; exact Or.inr (ih.mp hx)
          · intro _; trivial
        | some tail =>
          simp only []
          cases hml : messageForLine files[p.file].1 files[p.file].2 p m true with
          | none => rw [hml] at hm; cases hm
          | some t =>
            simp only [Option.map_some]
            constructor
            · intro h; cases h
            · rintro (h | h)
              · omega
              · rw [← ih, hx] at h; cases h
      · have hget : files[p.file]? = none := by simp; omega
        rw [hget]
        constructor
        · intro _; exact Or.inl (by omega)
        · intro _; cases renderExtras files rest <;> rfl

/-- **Exactly when `print_positioned_error` panics**: never for an error without position or with a built-in
    position; otherwise exactly when the file index of the main position, or of a note that is not built-in, is
    outside the file store.  Whatever the source texts, lines and columns are. -/
theorem printPositioned_none_iff (files : List (List Char × List Char)) (msg : List Char) (pos : Option Pos)
    (extras : List (Pos × List Char)) :
    printPositioned files msg pos extras = none ↔
      ∃ p, pos = some p ∧ p.builtin = false ∧
        (files.length ≤ p.file ∨ ∃ q ∈ extras, q.1.builtin = false ∧ files.length ≤ q.1.file) := by
  unfold printPositioned
  cases pos with
  | none => simp
  | some p =>
    simp only [Option.some.injEq, exists_eq_left']
    cases hb : p.builtin with
    | true => simp
    | false =>
      simp only [Bool.false_eq_true, if_false, true_and]
      by_cases hf : p.file < files.length
      · have hget : files[p.file]? = some files[p.file] := by simp [hf]
        rw [hget]
        simp only []
        have hm := messageForLine_isSome files[p.file].1 files[p.file].2 p msg false
        cases hml : messageForLine files[p.file].1 files[p.file].2 p msg false with
        | none => rw [hml] at hm; cases hm
        | some a =>
          cases hx : renderExtras files extras with
          | none =>
            simp only []
            constructor
            · intro _; exact Or.inr ((renderExtras_none_iff files extras).mp hx)
            · intro _; trivial
          | some b =>
            simp only []
            constructor
            · intro h; cases h
            · rintro (h | h)
              · omega
              · rw [← renderExtras_none_iff, hx] at h; cases h
      · have hget : files[p.file]? = none := by simp; omega
        rw [hget]
        simp only []
        exact ⟨fun _ => Or.inl (by omega), fun _ => trivial⟩

end NitroVerif.Cli
