/-
C01/C02, second stage, fuels (part 1): reachability through a document without fragment cycles, and the counting device.

  `Rch F L n`        the spread `...n` is reachable from the selection list `L` (through sub-selections, inline fragments
                     and the bodies of spread fragments)
  `acyclic`          a fragment whose body fits some nesting bound (`fitsS`) does not reach itself
  `Sub ss0 ss`       `ss` is `ss0` or a selection set nested in it (through fields and inline fragments, not spreads)
  `pool g D excl`    the total weight `g` of the fragment definitions of `D` whose name is not excluded; entering a
                     fragment (excluding its name) frees its weight, and the weights of everything fit into `docSize`
-/
import NitroVerif.Lemmas.StagesGenA
namespace NitroVerif.OpTypes.Closed
open NitroVerif.Gql NitroVerif.OpTypes NitroVerif.OpTypes.Ref

/-! ### reachability of spreads -/

inductive Rch (F : FragMap) : List Selection → Name → Prop where
  | here {L nm np ds p} : Selection.spread nm np ds p ∈ L → Rch F L nm
  | spread {L nm np ds p f n} : Selection.spread nm np ds p ∈ L → F nm = some f → Rch F f.sel n → Rch F L n
  | field {L a nme p args ds ss n} : Selection.field a nme p args ds (some ss) ∈ L → Rch F ss n → Rch F L n
  | inline {L c ds ss p n} : Selection.inline c ds ss p ∈ L → Rch F ss n → Rch F L n

theorem rch_mono {F : FragMap} {L L' : List Selection} {n : Name} (hsub : ∀ s ∈ L, s ∈ L') (h : Rch F L n) :
    Rch F L' n := by
  cases h with
  | here hm => exact .here (hsub _ hm)
  | spread hm hf hr => exact .spread (hsub _ hm) hf hr
  | field hm hr => exact .field (hsub _ hm) hr
  | inline hm hr => exact .inline (hsub _ hm) hr

theorem rch_append {F : FragMap} {a b : List Selection} {n : Name} (h : Rch F (a ++ b) n) : Rch F a n ∨ Rch F b n := by
  cases h with
  | here hm =>
    rcases List.mem_append.1 hm with h | h
    · exact Or.inl (.here h)
    · exact Or.inr (.here h)
  | spread hm hf hr =>
    rcases List.mem_append.1 hm with h | h
    · exact Or.inl (.spread h hf hr)
    · exact Or.inr (.spread h hf hr)
  | field hm hr =>
    rcases List.mem_append.1 hm with h | h
    · exact Or.inl (.field h hr)
    · exact Or.inr (.field h hr)
  | inline hm hr =>
    rcases List.mem_append.1 hm with h | h
    · exact Or.inl (.inline h hr)
    · exact Or.inr (.inline h hr)

theorem fitsS_le {F : FragMap} {D D' : Nat} (h : D ≤ D') {s : Selection} (hs : fitsS F D s = true) :
    fitsS F D' s = true := Stages.fitsS_mono h hs

/-- whatever a fitting list reaches is a defined fragment whose body fits a strictly smaller bound -/
theorem fits_rch {F : FragMap} {L : List Selection} {n : Name} (h : Rch F L n) :
    ∀ {R : Nat}, (∀ s ∈ L, fitsS F R s = true) → ∃ f R', F n = some f ∧ R' < R ∧ ∀ s ∈ f.sel, fitsS F R' s = true := by
  induction h with
  | @here L nm np ds p hm =>
    intro R hfit
    have := hfit _ hm
    cases R with
    | zero => simp [fitsS] at this
    | succ R' =>
      simp only [fitsS] at this
      cases hF : F nm with
      | none => simp [hF] at this
      | some f =>
        simp only [hF] at this
        exact ⟨f, R', rfl, Nat.lt_succ_self _, fun s hs => List.all_eq_true.1 this s hs⟩
  | @spread L nm np ds p f n hm hf _ ih =>
    intro R hfit
    have := hfit _ hm
    cases R with
    | zero => simp [fitsS] at this
    | succ R' =>
      simp only [fitsS, hf] at this
      obtain ⟨g, R'', h1, h2, h3⟩ := ih (R := R') (fun s hs => List.all_eq_true.1 this s hs)
      exact ⟨g, R'', h1, by omega, h3⟩
  | @field L a nme p args ds ss n hm _ ih =>
    intro R hfit
    have := hfit _ hm
    cases R with
    | zero => simp [fitsS] at this
    | succ R' =>
      simp only [fitsS] at this
      obtain ⟨g, R'', h1, h2, h3⟩ := ih (R := R') (fun s hs => List.all_eq_true.1 this s hs)
      exact ⟨g, R'', h1, by omega, h3⟩
  | @inline L c ds ss p n hm _ ih =>
    intro R hfit
    have := hfit _ hm
    cases R with
    | zero => simp [fitsS] at this
    | succ R' =>
      simp only [fitsS] at this
      obtain ⟨g, R'', h1, h2, h3⟩ := ih (R := R') (fun s hs => List.all_eq_true.1 this s hs)
      exact ⟨g, R'', h1, by omega, h3⟩

/-- **no fragment cycle**: the body of a fragment that fits some nesting bound does not reach the fragment's own name -/
theorem acyclic {F : FragMap} {n : Name} {f : FragmentDef} (hF : F n = some f) :
    ∀ (R : Nat), (∀ s ∈ f.sel, fitsS F R s = true) → ¬ Rch F f.sel n := by
  intro R
  induction R using Nat.strongRecOn with
  | _ R ih =>
    intro hfit hr
    obtain ⟨g, R', h1, h2, h3⟩ := fits_rch hr hfit
    rw [hF] at h1; cases h1
    exact ih R' h2 h3 hr

/-! ### nested selection sets -/

inductive Sub : List Selection → List Selection → Prop where
  | refl {ss} : Sub ss ss
  | field {ss0 ss a nme p args ds ss'} : Sub ss0 ss → Selection.field a nme p args ds (some ss') ∈ ss → Sub ss0 ss'
  | inline {ss0 ss c ds ss' p} : Sub ss0 ss → Selection.inline c ds ss' p ∈ ss → Sub ss0 ss'

theorem sub_rch {F : FragMap} {ss0 ss : List Selection} (h : Sub ss0 ss) {n : Name} (hr : Rch F ss n) : Rch F ss0 n := by
  induction h with
  | refl => exact hr
  | field _ hm ih => exact ih (.field hm hr)
  | inline _ hm ih => exact ih (.inline hm hr)

theorem sub_fits {F : FragMap} {R : Nat} {ss0 ss : List Selection} (h : Sub ss0 ss)
    (hfit : ∀ s ∈ ss0, fitsS F R s = true) : ∀ s ∈ ss, fitsS F R s = true := by
  induction h with
  | refl => exact hfit
  | @field ss a nme p args ds ss' _ hm ih =>
    have := ih _ hm
    cases R with
    | zero => simp [fitsS] at this
    | succ R' =>
      simp only [fitsS] at this
      exact fun s hs => fitsS_le (Nat.le_succ _) (List.all_eq_true.1 this s hs)
  | @inline ss c ds ss' p _ hm ih =>
    have := ih _ hm
    cases R with
    | zero => simp [fitsS] at this
    | succ R' =>
      simp only [fitsS] at this
      exact fun s hs => fitsS_le (Nat.le_succ _) (List.all_eq_true.1 this s hs)

theorem selSize_mem_le {s : Selection} : ∀ {L : List Selection}, s ∈ L → selSize s ≤ selSizeList L
  | [], h => by cases h
  | x :: L, h => by
    simp only [selSizeList]
    rcases List.mem_cons.1 h with rfl | h
    · omega
    · have := selSize_mem_le h; omega

theorem sub_size {ss0 ss : List Selection} (h : Sub ss0 ss) : selSizeList ss ≤ selSizeList ss0 := by
  induction h with
  | refl => exact Nat.le_refl _
  | field _ hm ih => have := selSize_mem_le hm; simp only [selSize] at this; omega
  | inline _ hm ih => have := selSize_mem_le hm; simp only [selSize] at this; omega

/-! ### the size of a document -/

/-- contribution of one definition to `docSize` -/
def dsz : ExecDef → Nat
  | .op o => selSizeList o.sel + 1
  | .frag f => selSizeList f.sel + 1
  | .imp _ => 0

def tot : Doc → Nat
  | [] => 0
  | x :: D => dsz x + tot D

theorem docSize_eq (D : Doc) : docSize D = tot D := by
  have key : ∀ (f : Nat → ExecDef → Nat), (∀ n o, f n (.op o) = n + selSizeList o.sel + 1) →
      (∀ n fr, f n (.frag fr) = n + selSizeList fr.sel + 1) → (∀ n i, f n (.imp i) = n) →
      ∀ (D : Doc) (n : Nat), D.foldl f n = n + tot D := by
    intro f h1 h2 h3 D
    induction D with
    | nil => intro n; rfl
    | cons x D ih =>
      intro n
      rw [List.foldl_cons, ih]
      cases x with
      | op o => rw [h1]; simp only [tot, dsz]; omega
      | frag fr => rw [h2]; simp only [tot, dsz]; omega
      | imp i => rw [h3]; simp only [tot, dsz]; omega
  unfold docSize
  refine (key _ ?_ ?_ ?_ D 0).trans (by omega) <;> intros <;> rfl

/-- total weight `g` of the fragment definitions whose name is not excluded -/
def pool (g : FragmentDef → Nat) : Doc → (Name → Bool) → Nat
  | [], _ => 0
  | .frag f :: D, excl => (if excl f.name then 0 else g f) + pool g D excl
  | _ :: D, excl => pool g D excl

theorem pool_le_tot {g : FragmentDef → Nat} (hg : ∀ f, g f ≤ selSizeList f.sel + 1) (excl : Name → Bool) :
    ∀ (D : Doc), pool g D excl ≤ tot D
  | [] => Nat.le_refl _
  | .frag f :: D => by
    have := pool_le_tot hg excl D
    have := hg f
    simp only [pool, tot, dsz]
    split <;> omega
  | .op o :: D => by have := pool_le_tot hg excl D; simp only [pool, tot, dsz]; omega
  | .imp i :: D => by have := pool_le_tot hg excl D; simp only [pool, tot, dsz]; omega

/-- the weight of an operation, or of an excluded fragment, is on top of the pool -/
theorem pool_add_le_tot {g : FragmentDef → Nat} (hg : ∀ f, g f ≤ selSizeList f.sel + 1) (excl : Name → Bool)
    {x : ExecDef} (hx : match x with | .frag f => excl f.name = true | .op _ => True | .imp _ => False) :
    ∀ {D : Doc}, x ∈ D → pool g D excl + dsz x ≤ tot D
  | [], h => by cases h
  | y :: D, h => by
    rcases List.mem_cons.1 h with rfl | h
    · have h1 := pool_le_tot hg excl D
      cases x with
      | frag f => simp only at hx; simp only [pool, hx, if_true, tot]; omega
      | op o => simp only [pool, tot]; omega
      | imp i => cases hx
    · have ih := pool_add_le_tot hg excl hx h
      cases y with
      | frag f =>
        have := hg f
        have e : dsz (.frag f) = selSizeList f.sel + 1 := rfl
        simp only [pool, tot, e]; split <;> omega
      | op o => simp only [pool, tot]; omega
      | imp i => simp only [pool, tot]; omega

/-- excluding one more name frees the weight of a definition of that name -/
theorem pool_exclude {g : FragmentDef → Nat} {excl excl' : Name → Bool} {f : FragmentDef}
    (hne : excl f.name = false) (he : ∀ m, excl' m = (excl m || m == f.name)) :
    ∀ {D : Doc}, ExecDef.frag f ∈ D → pool g D excl' + g f ≤ pool g D excl
  | [], h => by cases h
  | y :: D, h => by
    have mono : ∀ (D : Doc), pool g D excl' ≤ pool g D excl := by
      intro D
      induction D with
      | nil => exact Nat.le_refl _
      | cons z D ih =>
        cases z with
        | frag f' =>
          simp only [pool, he]
          cases excl f'.name <;> cases (f'.name == f.name) <;> simp <;> omega
        | op o => simpa only [pool] using ih
        | imp i => simpa only [pool] using ih
    rcases List.mem_cons.1 h with rfl | h
    · have := mono D
      simp only [pool, he, hne, beq_self_eq_true, Bool.or_true, if_true, Bool.false_eq_true, if_false]
      omega
    · have ih := pool_exclude (g := g) hne he h
      cases y with
      | frag f' =>
        simp only [pool, he]
        cases excl f'.name <;> cases (f'.name == f.name) <;> simp <;> omega
      | op o => simpa only [pool] using ih
      | imp i => simpa only [pool] using ih

end NitroVerif.OpTypes.Closed
