import NitroVerif.Lemmas.GqlPrintOwnLeadDefs
import NitroVerif.Lemmas.ParseDocTsExtD
/-!
C16 over nitrogql's own parser, second stage: union, object and interface type EXTENSIONS whose member / `implements`
lists are written with the leading separator. Copies of C07's `ParseDocTsExtC.lean` / `ParseDocTsExtD.lean` over the
renderings of this namespace.
-/
namespace NitroVerif.DocParseL
open NitroVerif.Peg NitroVerif.Gen NitroVerif.Gen.Parts NitroVerif.Build NitroVerif.TypeParse NitroVerif.StringParse
open NitroVerif.Gql NitroVerif.ValueParse NitroVerif.Spec.Lex NitroVerif.ParseText NitroVerif.DocParse

set_option linter.unusedSimpArgs false
set_option linter.unusedVariables false

variable {inp : List Char}

/-! ### union -/

def rUnionExtM (τ : Trivia) (sep : Bool) (p : Nat) (t : TypeDef) : List Char :=
  let tH := rExtHead τ false p (kindKw .union) t.name
  let tD := rDirs τ false (p + tH.length) t.dirs
  let tE := tk τ false (p + tH.length + tD.length) ['=']
  tH ++ (tD ++ (tE ++ rNamesL τ '|' sep (p + tH.length + tD.length + tE.length) t.members))

def wpUnionExtM (τ : Trivia) (inp : List Char) (sep : Bool) (p : Nat) (t : TypeDef) : TypeDef :=
  let tH := rExtHead τ false p (kindKw .union) t.name
  let tD := rDirs τ false (p + tH.length) t.dirs
  let tE := tk τ false (p + tH.length + tD.length) ['=']
  { kind := .union, name := t.name, namePos := posAt inp (ehOffN τ p (kindKw .union)),
    dirs := wpDirs τ inp false (p + tH.length) t.dirs,
    members := wpNamesL τ inp '|' sep (p + tH.length + tD.length + tE.length) t.members,
    pos := posAt inp p }

theorem p_unionExt_nodup : (P_UnionTypeExtension.map itemRule).Nodup := by decide

theorem unionExtMT (τ : Trivia) (hτ : ∀ q, Ws (τ q)) (t : TypeDef) (hname : validName t.name.toList)
    (hdirs : WFDirs t.dirs) (hmem : t.members ≠ []) (hmv : ∀ x ∈ t.members, validName x.1.toList) {sep : Bool} {p : Nat}
    (h : HasAt inp p (rUnionExtM τ sep p t)) (hn : Nxt inp tdBad sep (p + (rUnionExtM τ sep p t).length)) :
    KindExtOk inp R.UnionTypeExtension p (rUnionExtM τ sep p t) (wpUnionExtM τ inp sep p t) := by
  unfold KindExtOk
  simp only [rUnionExtM, wpUnionExtM] at h hn ⊢
  generalize hH : rExtHead τ false p (kindKw .union) t.name = tH at *
  generalize hD : rDirs τ false (p + tH.length) t.dirs = tD at *
  generalize hE : tk τ false (p + tH.length + tD.length) ['='] = tE at *
  generalize hM : rNamesL τ '|' sep (p + tH.length + tD.length + tE.length) t.members = tM at *
  have hlen : p + (tH ++ (tD ++ (tE ++ tM))).length = p + tH.length + tD.length + tE.length + tM.length := by
    simp only [List.length_append]; omega
  rw [hlen] at hn ⊢
  have g0 : HasAt inp p tH := h.left
  have g1 : HasAt inp (p + tH.length) tD := h.right.left
  have g2 : HasAt inp (p + tH.length + tD.length) tE := h.right.right.left
  have g3 : HasAt inp (p + tH.length + tD.length + tE.length) tM := h.right.right.right
  have hdE : Hd (· = '=') tE := hE ▸ hd_tk (hd_cons _ rfl)
  obtain ⟨m, ms, hms⟩ : ∃ m ms, t.members = m :: ms := by
    cases hh : t.members with
    | nil => exact absurd hh hmem
    | cons m ms => exact ⟨m, ms, rfl⟩
  rw [hms] at hM hmv
  have hdM : Hd (· = '|') tM := by
    rw [← hM]; simp only [rNamesL]
    exact Hd.append (hd_tk (P := (· = '|')) (hd_cons [] rfl)) _
  have n2 : Nxt inp (fun c => c = '@' ∨ c = '(') false (p + tH.length + tD.length) :=
    Nxt.of_hd g2 hdE (by rintro c rfl; decide)
  have n1 : Nxt inp (fun _ => False) false (p + tH.length) :=
    Nxt.rest g1 n2 (hD ▸ hd_rDirs τ false _ t.dirs) (P := (· = '@')) (by rintro c rfl; decide) (fun c hc => hc.elim)
      (fun _ _ => rfl)
  obtain ⟨hrun, _, hnm⟩ := extHeadK hτ (look_kindKw .union) (kindKw_valid .union) t.name hname
    (hH ▸ g0) (by rw [hH]; exact n1)
  rw [hH] at hrun
  obtain ⟨oD, rD, hokD, _, hbD⟩ := optDirsT τ hτ t.dirs hdirs (bad := fun c => c = '@' ∨ c = '(') (Or.inr rfl)
    (Or.inl rfl) (hD ▸ g1) (by rw [hD]; exact n2)
  rw [hD] at rD hbD
  have rE := strT hτ ['='] (hE ▸ g2) (by rw [hE]; exact tok_of_hd g3 hdM (by rintro d rfl; decide))
  rw [hE] at rE
  obtain ⟨prM, rM, hokM, hbM⟩ := membersT τ hτ m ms hmv (bad := tdBad) (Or.inr (Or.inr (Or.inr (Or.inr (Or.inl rfl)))))
    (hM ▸ g3) (by rw [hM]; exact hn)
  rw [hM] at rM
  obtain ⟨e, rR⟩ := runsK_rule look_UnionTypeExtension' (by decide) (by decide)
    (runsK_choice_l (hrun _ _ _ _ (runsK_seq rD (runsK_seq rE rM))))
  have hlH : 1 ≤ tH.length := hH ▸ (hd_rExtHead τ false p _ t.name).length_pos
  have hlE := hdE.length_pos
  refine ⟨_, rR.mono (by barith), ?_, ?_⟩
  · refine pairOk_mk (by decide) (by decide) ?_
    simp only [cleanL_append, cleanL_cons, cleanL_nil, and_true]
    exact ⟨cleanP_of (by decide) (by decide) trivial, cleanP_of (by decide) (by decide) trivial,
      cleanP_of (by decide) (by decide) trivial, clean_opt (fun x hx => (hokD x hx).clean), trivial, hokM.clean⟩
  · intro fuel hf e'
    have hf' : tH.length + (tD.length + (tE.length + tM.length)) ≤ fuel := by simpa using hf
    have hch : [Pair.mk R.KEYWORD_extend p (p + kwExtend.length) []] ++ ([Pair.mk (kindKwRule .union) (ehOffK τ p) (ehOffK τ p + (kindKw .union).length) []] ++
          ([Pair.mk R.Name (ehOffN τ p (kindKw .union)) (ehOffN τ p (kindKw .union) + t.name.toList.length) []] ++
            (oD.toList ++ ([] ++ [prM])))) =
        slotPairs [some (Pair.mk R.KEYWORD_extend p (p + kwExtend.length) []), some (Pair.mk R.KEYWORD_union (ehOffK τ p) (ehOffK τ p + (kindKw .union).length) []),
          some (Pair.mk R.Name (ehOffN τ p (kindKw .union))
            (ehOffN τ p (kindKw .union) + t.name.toList.length) []), oD, some prM] := by
      simp [slotPairs, kindKwRule]
    rw [hch]
    have hm := matchParts_slots P_UnionTypeExtension _ p_unionExt_nodup
      (show slotsOk P_UnionTypeExtension [some (Pair.mk R.KEYWORD_extend p (p + kwExtend.length) []), some (Pair.mk R.KEYWORD_union (ehOffK τ p)
          (ehOffK τ p + (kindKw .union).length) []), some (Pair.mk R.Name (ehOffN τ p (kindKw .union))
            (ehOffN τ p (kindKw .union) + t.name.toList.length) []), oD, some prM] from
        ⟨⟨_, rfl, rfl⟩, ⟨_, rfl, rfl⟩, ⟨_, rfl, rfl⟩, fun x hx => (hokD x hx).rule,
          (fun x hx => by cases hx; exact hokM.rule), trivial⟩)
    have hname' := hnm.slice
    rw [hms]
    simp only [show kwExtend.length = 6 from rfl] at hm
    simp [buildTypeExtension, onlyChildOf, onlyChild, Pair.children, OC_TypeExtension, Pair.rule, hm,
      hbD fuel (by omega), hbM, asString_spec', toPos_spec', Pair.start, Pair.stop,
      hname', At, bind, Except.bind, R.ScalarTypeExtension, R.ObjectTypeExtension, R.InterfaceTypeExtension,
      R.UnionTypeExtension]




/-- an object (`kw = type`) or interface type definition -/
def rObjExt (τ : Trivia) (kw : List Char) (sep : Bool) (p : Nat) (t : TypeDef) : List Char :=
  let tH := rExtHead τ (!t.implements.isEmpty || (sep && t.fields.isEmpty && t.dirs.isEmpty)) p kw t.name
  let tI := rOptImpl τ (sep && t.fields.isEmpty && t.dirs.isEmpty) (p + tH.length) t.implements
  let tD := rDirs τ (sep && t.fields.isEmpty) (p + tH.length + tI.length) t.dirs
  tH ++ (tI ++ (tD ++ rOptFields τ sep (p + tH.length + tI.length + tD.length) t.fields))

def wpObjExt (τ : Trivia) (inp : List Char) (k : TypeKind) (kw : List Char) (sep : Bool) (p : Nat) (t : TypeDef) : TypeDef :=
  let tH := rExtHead τ (!t.implements.isEmpty || (sep && t.fields.isEmpty && t.dirs.isEmpty)) p kw t.name
  let tI := rOptImpl τ (sep && t.fields.isEmpty && t.dirs.isEmpty) (p + tH.length) t.implements
  let tD := rDirs τ (sep && t.fields.isEmpty) (p + tH.length + tI.length) t.dirs
  { kind := k, name := t.name, namePos := posAt inp (ehOffN τ p kw),
    implements := wpNames τ inp '&' (sep && t.fields.isEmpty && t.dirs.isEmpty)
      (implOff τ (p + tH.length)) t.implements,
    dirs := wpDirs τ inp (sep && t.fields.isEmpty) (p + tH.length + tI.length) t.dirs,
    fields := wpFieldDefs τ inp (p + tH.length + tI.length + tD.length +
      (tk τ false (p + tH.length + tI.length + tD.length) ['{']).length) t.fields,
    pos := posAt inp p }

theorem p_objectExt_nodup : (P_ObjectTypeExtension.map itemRule).Nodup := by decide
theorem p_interfaceExt_nodup : (P_InterfaceTypeExtension.map itemRule).Nodup := by decide

/-- the pieces shared by the two kinds: head, implements, directives in continuation form, and the end of the text -/
theorem objExtPartsK (τ : Trivia) (hτ : ∀ q, Ws (τ q)) {r : RuleId} {kw : List Char}
    (hl : gList.look r = some (.atomic, .seq (.str kw) (.not (.call R.NameContinue)))) (hkw : validName kw)
    (t : TypeDef) (hname : validName t.name.toList) (himpl : ∀ x ∈ t.implements, validName x.1.toList)
    (hdirs : WFDirs t.dirs) (hne : t.implements ≠ [] ∨ t.dirs ≠ [] ∨ t.fields ≠ []) {sep : Bool} {p : Nat}
    (h : HasAt inp p (rObjExt τ kw sep p t)) (hn : Nxt inp tdBad sep (p + (rObjExt τ kw sep p t).length)) :
    ∃ (oI oD : Option Pair) (p3 : Nat), p3 ≤ p + (rObjExt τ kw sep p t).length ∧ 1 ≤ p3 - p ∧
      HasAt inp p3 (rOptFields τ sep p3 t.fields) ∧ p3 + (rOptFields τ sep p3 t.fields).length = p + (rObjExt τ kw sep p t).length ∧
      (t.fields = [] → Tok (At inp p3) ∧ HeadNot (· = '{') (inp.drop p3)) ∧
      (∀ (T : Expr) (nT : Nat) (cE : Cur) (psT : List Pair), RunsK nT T (At inp p3) cE psT →
        RunsK (max nT (B (p3 - p) + 60) + 10)
          (.seq (.call R.KEYWORD_extend) (.seq (.call r) (.seq (.call R.Name) (.seq (.opt (.call R.ImplementsInterfaces))
            (.seq (.opt (.call R.Directives)) T))))) (At inp p) cE
          (slotPairs [some (Pair.mk R.KEYWORD_extend p (p + kwExtend.length) []), some (.mk r (ehOffK τ p) (ehOffK τ p + kw.length) []),
            some (.mk R.Name (ehOffN τ p kw) (ehOffN τ p kw + t.name.toList.length) []), oI, oD] ++ psT)) ∧
      (∀ (T : Expr) (nT : Nat), Fails gList nT true T .nonAtomic (At inp p3) →
        Fails gList (max nT (B (p3 - p) + 60) + 10) true
          (.seq (.call R.KEYWORD_extend) (.seq (.call r) (.seq (.call R.Name) (.seq (.opt (.call R.ImplementsInterfaces))
            (.seq (.opt (.call R.Directives)) T))))) .nonAtomic (At inp p)) ∧
      (t.dirs ≠ [] → ∃ prD, oD = some prD ∧ ∀ (T : Expr) (nT : Nat) (cE : Cur) (psT : List Pair), RunsK nT T (At inp p3) cE psT →
        RunsK (max nT (B (p3 - p) + 60) + 10)
          (.seq (.call R.KEYWORD_extend) (.seq (.call r) (.seq (.call R.Name) (.seq (.opt (.call R.ImplementsInterfaces))
            (.seq (.call R.Directives) T))))) (At inp p) cE
          (slotPairs [some (Pair.mk R.KEYWORD_extend p (p + kwExtend.length) []), some (.mk r (ehOffK τ p) (ehOffK τ p + kw.length) []),
            some (.mk R.Name (ehOffN τ p kw) (ehOffN τ p kw + t.name.toList.length) []), oI, oD] ++ psT)) ∧
      HasAt inp (ehOffN τ p kw) t.name.toList ∧
      (∀ x ∈ oI, x.rule = R.ImplementsInterfaces ∧ CleanP x) ∧ (∀ x ∈ oD, x.rule = R.Directives ∧ CleanP x) ∧
      (∀ fuel, p3 - p ≤ fuel → optImplements (Ctx.spec inp) oI = .ok (wpObjExt τ inp .object kw sep p t).implements ∧
        optDirs (Ctx.spec inp) fuel oD = .ok (wpObjExt τ inp .object kw sep p t).dirs) ∧
      (wpObjExt τ inp .object kw sep p t).fields = wpFieldDefs τ inp (p3 + (tk τ false p3 ['{']).length) t.fields := by
  simp only [rObjExt, wpObjExt] at h hn ⊢
  generalize hsN : (!t.implements.isEmpty || (sep && t.fields.isEmpty && t.dirs.isEmpty)) = sN at *
  generalize hsI : (sep && t.fields.isEmpty && t.dirs.isEmpty) = sI at *
  generalize hsD : (sep && t.fields.isEmpty) = sD at *
  generalize hH : rExtHead τ sN p kw t.name = tH at *
  generalize hI : rOptImpl τ sI (p + tH.length) t.implements = tI at *
  generalize hD : rDirs τ sD (p + tH.length + tI.length) t.dirs = tD at *
  generalize hF : rOptFields τ sep (p + tH.length + tI.length + tD.length) t.fields = tF at *
  have hlen : p + (tH ++ (tI ++ (tD ++ tF))).length = p + tH.length + tI.length + tD.length + tF.length := by
    simp only [List.length_append]; omega
  rw [hlen] at hn ⊢
  have g0 : HasAt inp p tH := h.left
  have g1 : HasAt inp (p + tH.length) tI := h.right.left
  have g2 : HasAt inp (p + tH.length + tI.length) tD := h.right.right.left
  have g3 : HasAt inp (p + tH.length + tI.length + tD.length) tF := h.right.right.right
  have hlH : 1 ≤ tH.length := hH ▸ (hd_rExtHead τ sN p _ t.name).length_pos
  -- what follows the directives / the interfaces / the name
  have n3 : Nxt inp (fun c => c = '@' ∨ c = '(' ∨ c = '&' ∨ (t.implements = [] ∧ t.dirs = [] ∧ c = 'i')) sD
      (p + tH.length + tI.length + tD.length) := by
    refine Nxt.rest' g3 hn (hF ▸ hd_rOptFields τ sep _ t.fields) (P := (· = '{')) ?_ ?_ ?_
    · rintro c rfl
      refine ⟨by decide, ?_, by decide⟩
      rintro (h | h | h | ⟨_, _, h⟩) <;> exact absurd h (by decide)
    · intro ht c hc
      have hf0 : t.fields = [] := rOptFields_eq_nil (hF.trans ht)
      rcases hc with h | h | h | ⟨h1, h2, _⟩
      · exact Or.inl h
      · exact Or.inr (Or.inl h)
      · exact Or.inr (Or.inr (Or.inr (Or.inl h)))
      · rcases hne with h' | h' | h'
        · exact absurd h1 h'
        · exact absurd h2 h'
        · exact absurd hf0 h'
    · intro ht hs
      have : t.fields = [] := rOptFields_eq_nil (hF.trans ht)
      rw [← hsD, this] at hs
      simpa using hs
  have n2 : Nxt inp (fun c => c = '&' ∨ (t.implements = [] ∧ c = 'i')) sI (p + tH.length + tI.length) := by
    refine Nxt.rest' g2 n3 (hD ▸ hd_rDirs τ sD _ t.dirs) (P := (· = '@')) ?_ ?_ ?_
    · rintro c rfl
      refine ⟨by decide, ?_, by decide⟩
      rintro (h | ⟨_, h⟩) <;> exact absurd h (by decide)
    · intro ht c hc
      have hd0 : t.dirs = [] := rDirs_eq_nil (hD.trans ht)
      rcases hc with h | ⟨h1, h2⟩
      · exact Or.inr (Or.inr (Or.inl h))
      · exact Or.inr (Or.inr (Or.inr ⟨h1, hd0, h2⟩))
    · intro ht hs
      have hd0 : t.dirs = [] := rDirs_eq_nil (hD.trans ht)
      rw [← hsI, hd0] at hs
      simpa using hs
  have n1 : Nxt inp (fun _ => False) sN (p + tH.length) := by
    cases him : t.implements with
    | nil =>
      have htI : tI = [] := by rw [← hI, him]; rfl
      have hsn : sN = sI := by rw [← hsN, him]; simp
      subst htI
      rw [hsn]
      have : Nxt inp (fun c => c = '&' ∨ (t.implements = [] ∧ c = 'i')) sI (p + tH.length) := by simpa using n2
      exact ⟨this.tok, fun _ _ _ h => h, this.glue⟩
    | cons n ns =>
      have hsn : sN = true := by rw [← hsN, him]; simp
      rw [hsn]
      have hdI : Hd (· = 'i') tI := by
        rw [← hI, him]
        exact Hd.append (hd_tk (P := (· = 'i')) (hd_cons _ rfl)) _
      exact Nxt.of_hd_sep g1 hdI (by rintro c rfl; exact ⟨by decide, id⟩)
  obtain ⟨hrun, hfail, hnm⟩ := extHeadK hτ hl hkw t.name hname (hH ▸ g0) (by rw [hH]; exact n1)
  rw [hH] at hrun hfail
  obtain ⟨oI, rI, hokI, hbI⟩ := optImplT τ hτ t.implements himpl
    (bad := fun c => c = '&' ∨ (t.implements = [] ∧ c = 'i')) (Or.inl rfl) (fun h0 => Or.inr ⟨h0, rfl⟩)
    (hI ▸ g1) (by rw [hI]; exact n2)
  rw [hI] at rI
  -- the directives: optional form, and — if there are any — the plain form with the same pair
  have hdirsK : ∃ oD : Option Pair,
      RunsK (B tD.length + 21) (.opt (.call R.Directives)) (At inp (p + tH.length + tI.length))
        (At inp (p + tH.length + tI.length + tD.length)) oD.toList ∧
      (∀ x ∈ oD, PairOk R.Directives (p + tH.length + tI.length) x) ∧
      (∀ fuel, tD.length ≤ fuel → optDirs (Ctx.spec inp) fuel oD = .ok (wpDirs τ inp sD (p + tH.length + tI.length) t.dirs)) ∧
      (t.dirs ≠ [] → ∃ prD, oD = some prD ∧ RunsK (B tD.length + 21) (.call R.Directives) (At inp (p + tH.length + tI.length))
        (At inp (p + tH.length + tI.length + tD.length)) [prD]) := by
    by_cases hd : t.dirs = []
    · obtain ⟨oD, rD, hokD, _, hbD⟩ := optDirsT τ hτ t.dirs hdirs
        (bad := fun c => c = '@' ∨ c = '(' ∨ c = '&' ∨ (t.implements = [] ∧ t.dirs = [] ∧ c = 'i')) (Or.inr (Or.inl rfl))
        (Or.inl rfl) (hD ▸ g2) (by rw [hD]; exact n3)
      rw [hD] at rD hbD
      exact ⟨oD, rD, hokD, hbD, fun h => absurd hd h⟩
    · obtain ⟨prD, rD', hokD', hbD'⟩ := dirsT τ hτ t.dirs hd hdirs
        (bad := fun c => c = '@' ∨ c = '(' ∨ c = '&' ∨ (t.implements = [] ∧ t.dirs = [] ∧ c = 'i')) (Or.inr (Or.inl rfl))
        (Or.inl rfl) (hD ▸ g2) (by rw [hD]; exact n3)
      rw [hD] at rD' hbD'
      refine ⟨some prD, (runsK_opt_some rD').mono (by omega), ?_, ?_, fun _ => ⟨prD, rfl, rD'.mono (by omega)⟩⟩
      · intro x hx; cases hx; exact hokD'
      · intro fuel hf; simpa [optDirs] using hbD' fuel hf
  obtain ⟨oD, rD, hokD, hbD, hreq⟩ := hdirsK
  refine ⟨oI, oD, p + tH.length + tI.length + tD.length, by omega, by omega, hF ▸ g3, by rw [hF], ?_, ?_, ?_, ?_,
    hnm, fun x hx => ⟨(hokI x hx).rule, (hokI x hx).clean⟩, fun x hx => ⟨(hokD x hx).rule, (hokD x hx).clean⟩,
    ?_, rfl⟩
  · intro hf0
    have htF : tF = [] := by rw [← hF, hf0]; rfl
    subst htF
    have hn' : Nxt inp tdBad sep (p + tH.length + tI.length + tD.length) := by simpa using hn
    exact ⟨hn'.tok, headNot_mono (fun c (hc : c = '{') => Or.inr (Or.inr (Or.inl hc))) hn'.ok⟩
  · intro T nT cE psT hT
    have := hrun _ _ _ _ (runsK_seq rI (runsK_seq rD hT))
    refine RunsK.cast (this.mono ?_) rfl rfl (by simp [slotPairs])
    have e : p + tH.length + tI.length + tD.length - p = tH.length + tI.length + tD.length := by omega
    rw [e]; barith
  · intro T nT hT
    refine (hfail _ _ (fails_seq_K rI (fails_seq_K rD hT))).mono ?_
    have e : p + tH.length + tI.length + tD.length - p = tH.length + tI.length + tD.length := by omega
    rw [e]; barith
  · intro hd
    obtain ⟨prD, hoD, rD'⟩ := hreq hd
    refine ⟨prD, hoD, ?_⟩
    intro T nT cE psT hT
    have := hrun _ _ _ _ (runsK_seq rI (runsK_seq rD' hT))
    refine RunsK.cast (this.mono ?_) rfl rfl (by simp [slotPairs, hoD])
    have e : p + tH.length + tI.length + tD.length - p = tH.length + tI.length + tD.length := by omega
    rw [e]; barith
  · intro fuel hf
    exact ⟨hbI, hbD fuel (by omega)⟩


theorem slotPairs5e_nil (a b c d e : Option Pair) : slotPairs [a, b, c, d, e] ++ [] = slotPairs [a, b, c, d, e, none] := by
  simp [slotPairs]
theorem slotPairs5e_one (a b c d e : Option Pair) (x : Pair) :
    slotPairs [a, b, c, d, e] ++ [x] = slotPairs [a, b, c, d, e, some x] := by
  simp [slotPairs]

/-- object type definitions: fields, or (without fields) at least one directive -/
theorem objExtT (τ : Trivia) (hτ : ∀ q, Ws (τ q)) (t : TypeDef) (hname : validName t.name.toList)
    (himpl : ∀ x ∈ t.implements, validName x.1.toList) (hdirs : WFDirs t.dirs) (hfields : ∀ f ∈ t.fields, WFFieldDef f)
    (hne : t.dirs ≠ [] ∨ t.fields ≠ []) {sep : Bool} {p : Nat} (h : HasAt inp p (rObjExt τ (kindKw .object) sep p t))
    (hn : Nxt inp tdBad sep (p + (rObjExt τ (kindKw .object) sep p t).length)) :
    KindExtOk inp R.ObjectTypeExtension p (rObjExt τ (kindKw .object) sep p t)
      (wpObjExt τ inp .object (kindKw .object) sep p t) := by
  unfold KindExtOk
  obtain ⟨oI, oD, p3, hp3, hp31, gF, hpe, hnof, hrun, hfail, hreq, hnm, hokI, hokD, hb, hfe⟩ :=
    objExtPartsK τ hτ (look_kindKw .object) (kindKw_valid .object) t hname himpl hdirs (Or.inr hne) h hn
  generalize hL : (rObjExt τ (kindKw .object) sep p t).length = L at *
  have hname' := hnm.slice
  cases hfs : t.fields with
  | nil =>
    have hd : t.dirs ≠ [] := hne.resolve_right (fun h => h hfs)
    obtain ⟨htok, hbr⟩ := hnof hfs
    obtain ⟨prD, hoD, hrun2⟩ := hreq hd
    have hp3e : p3 = p + L := by rw [hfs] at hpe; simpa [rOptFields] using hpe
    have f1 := hfail _ _ (fieldsDef_fails hbr)
    have r2 := hrun2 _ _ _ _ (notBraceK htok hbr)
    obtain ⟨e, rR⟩ := runsK_rule look_ObjectTypeExtension' (by decide) (by decide) (runsK_choice_r f1 (runsK_choice_l r2))
    rw [slotPairs5e_nil] at rR
    refine ⟨_, RunsK.cast (rR.mono ?_) rfl (by rw [hp3e]) rfl, ?_, ?_⟩
    · rw [hp3e]
      have : p + L - p = L := by omega
      rw [this]; barith
    · refine pairOk_mk (by decide) (by decide) ?_
      simp only [slotPairs, cleanL_append, cleanL_cons, cleanL_nil, and_true, Option.toList_some, Option.toList_none]
      exact ⟨cleanP_of (by decide) (by decide) trivial, cleanP_of (by decide) (by decide) trivial,
        cleanP_of (by decide) (by decide) trivial, clean_opt (fun x hx => (hokI x hx).2),
        clean_opt (fun x hx => (hokD x hx).2)⟩
    · intro fuel hf e'
      obtain ⟨hbI, hbD⟩ := hb fuel (by omega)
      have hm := matchParts_slots P_ObjectTypeExtension _ p_objectExt_nodup
        (show slotsOk P_ObjectTypeExtension [some (Pair.mk R.KEYWORD_extend p (p + kwExtend.length) []), some (Pair.mk (kindKwRule .object) (ehOffK τ p)
            (ehOffK τ p + (kindKw .object).length) []), some (Pair.mk R.Name (ehOffN τ p (kindKw .object))
              (ehOffN τ p (kindKw .object) + t.name.toList.length) []), oI, oD, none] from
          ⟨⟨_, rfl, rfl⟩, ⟨_, rfl, rfl⟩, ⟨_, rfl, rfl⟩, fun x hx => (hokI x hx).1, fun x hx => (hokD x hx).1,
            (fun x hx => by cases hx), trivial⟩)
      simp only [wpObjExt] at hbI hbD hfe ⊢
      simp only [show kwExtend.length = 6 from rfl] at hm
      simp [buildTypeExtension, onlyChildOf, onlyChild, Pair.children, OC_TypeExtension, Pair.rule, hm, hbI, hbD,
        hfs, optFields, wpFieldDefs, mapItems, asString_spec', toPos_spec', Pair.start, Pair.stop, hname', At, bind,
        Except.bind, R.ScalarTypeExtension, R.ObjectTypeExtension]
  | cons a r =>
    rw [hfs] at gF hpe hfields hfe
    have htokE : Tok (At inp (p3 + (rOptFields τ sep p3 (a :: r)).length)) := by rw [hpe]; exact hn.tok
    obtain ⟨prF, rF, hokF, hbF⟩ := fieldsT τ hτ a r hfields gF htokE
    have r1 := hrun _ _ _ _ rF
    obtain ⟨e, rR⟩ := runsK_rule look_ObjectTypeExtension' (by decide) (by decide) (runsK_choice_l r1)
    rw [slotPairs5e_one] at rR
    have hlF : (rOptFields τ sep p3 (a :: r)).length = p + L - p3 := by omega
    have hlF1 := (hd_rBraced (rFieldDef τ) true τ '{' '}' sep p3 (a :: r)).length_pos
    simp only [rOptFields] at hlF
    have e1 : B (rBraced (rFieldDef τ) true τ '{' '}' sep p3 (a :: r)).length + 45 ≤ B L + 45 := by simp only [B]; omega
    have e2 : B (p3 - p) + 60 ≤ B L := by simp only [B]; omega
    refine ⟨_, RunsK.cast (rR.mono ?_) rfl (by rw [hpe]) rfl, ?_, ?_⟩
    · simp only [rOptFields]; omega
    · refine pairOk_mk (by decide) (by decide) ?_
      simp only [slotPairs, cleanL_append, cleanL_cons, cleanL_nil, and_true, Option.toList_some, Option.toList_none]
      exact ⟨cleanP_of (by decide) (by decide) trivial, cleanP_of (by decide) (by decide) trivial,
        cleanP_of (by decide) (by decide) trivial, clean_opt (fun x hx => (hokI x hx).2),
        clean_opt (fun x hx => (hokD x hx).2), hokF.clean⟩
    · intro fuel hf e'
      obtain ⟨hbI, hbD⟩ := hb fuel (by omega)
      have hbF' := hbF fuel (by omega)
      have hm := matchParts_slots P_ObjectTypeExtension _ p_objectExt_nodup
        (show slotsOk P_ObjectTypeExtension [some (Pair.mk R.KEYWORD_extend p (p + kwExtend.length) []), some (Pair.mk (kindKwRule .object) (ehOffK τ p)
            (ehOffK τ p + (kindKw .object).length) []), some (Pair.mk R.Name (ehOffN τ p (kindKw .object))
              (ehOffN τ p (kindKw .object) + t.name.toList.length) []), oI, oD, some prF] from
          ⟨⟨_, rfl, rfl⟩, ⟨_, rfl, rfl⟩, ⟨_, rfl, rfl⟩, fun x hx => (hokI x hx).1, fun x hx => (hokD x hx).1,
            (fun x hx => by cases hx; exact hokF.rule), trivial⟩)
      simp only [wpObjExt] at hbI hbD hfe ⊢
      simp [hfs] at hfe hbI hbD
      simp only [show kwExtend.length = 6 from rfl] at hm
      simp [buildTypeExtension, onlyChildOf, onlyChild, Pair.children, OC_TypeExtension, Pair.rule, hm, hbI, hbD,
        hbF', hfe, hfs, asString_spec', toPos_spec', Pair.start, Pair.stop, hname', At, bind,
        Except.bind, R.ScalarTypeExtension, R.ObjectTypeExtension]

/-- interface type definitions (not the bare `interface I`, which must not be followed by a word beginning with `i`) -/
theorem ifaceExtT (τ : Trivia) (hτ : ∀ q, Ws (τ q)) (t : TypeDef) (hname : validName t.name.toList)
    (himpl : ∀ x ∈ t.implements, validName x.1.toList) (hdirs : WFDirs t.dirs) (hfields : ∀ f ∈ t.fields, WFFieldDef f)
    (hne : t.implements ≠ [] ∨ t.dirs ≠ [] ∨ t.fields ≠ []) {sep : Bool} {p : Nat} (h : HasAt inp p (rObjExt τ (kindKw .interface) sep p t))
    (hn : Nxt inp tdBad sep (p + (rObjExt τ (kindKw .interface) sep p t).length)) :
    KindExtOk inp R.InterfaceTypeExtension p (rObjExt τ (kindKw .interface) sep p t)
      (wpObjExt τ inp .interface (kindKw .interface) sep p t) := by
  unfold KindExtOk
  obtain ⟨oI, oD, p3, hp3, hp31, gF, hpe, hnof, hrun, hfail, hreq, hnm, hokI, hokD, hb, hfe⟩ :=
    objExtPartsK τ hτ (look_kindKw .interface) (kindKw_valid .interface) t hname himpl hdirs hne h hn
  generalize hL : (rObjExt τ (kindKw .interface) sep p t).length = L at *
  have hname' := hnm.slice
  cases hfs : t.fields with
  | nil =>
    obtain ⟨htok, hbr⟩ := hnof hfs
    have hrun2 := hrun
    have hp3e : p3 = p + L := by rw [hfs] at hpe; simpa [rOptFields] using hpe
    have f1 := hfail _ _ (fieldsDef_fails hbr)
    have r2 := hrun2 _ _ _ _ (notBraceK htok hbr)
    obtain ⟨e, rR⟩ := runsK_rule look_InterfaceTypeExtension' (by decide) (by decide) (runsK_choice_r f1 (runsK_choice_l r2))
    rw [slotPairs5e_nil] at rR
    refine ⟨_, RunsK.cast (rR.mono ?_) rfl (by rw [hp3e]) rfl, ?_, ?_⟩
    · rw [hp3e]
      have : p + L - p = L := by omega
      rw [this]; barith
    · refine pairOk_mk (by decide) (by decide) ?_
      simp only [slotPairs, cleanL_append, cleanL_cons, cleanL_nil, and_true, Option.toList_some, Option.toList_none]
      exact ⟨cleanP_of (by decide) (by decide) trivial, cleanP_of (by decide) (by decide) trivial,
        cleanP_of (by decide) (by decide) trivial, clean_opt (fun x hx => (hokI x hx).2),
        clean_opt (fun x hx => (hokD x hx).2)⟩
    · intro fuel hf e'
      obtain ⟨hbI, hbD⟩ := hb fuel (by omega)
      have hm := matchParts_slots P_InterfaceTypeExtension _ p_interfaceExt_nodup
        (show slotsOk P_InterfaceTypeExtension [some (Pair.mk R.KEYWORD_extend p (p + kwExtend.length) []), some (Pair.mk (kindKwRule .interface) (ehOffK τ p)
            (ehOffK τ p + (kindKw .interface).length) []), some (Pair.mk R.Name (ehOffN τ p (kindKw .interface))
              (ehOffN τ p (kindKw .interface) + t.name.toList.length) []), oI, oD, none] from
          ⟨⟨_, rfl, rfl⟩, ⟨_, rfl, rfl⟩, ⟨_, rfl, rfl⟩, fun x hx => (hokI x hx).1, fun x hx => (hokD x hx).1,
            (fun x hx => by cases hx), trivial⟩)
      simp only [wpObjExt] at hbI hbD hfe ⊢
      simp only [show kwExtend.length = 6 from rfl] at hm
      simp [buildTypeExtension, onlyChildOf, onlyChild, Pair.children, OC_TypeExtension, Pair.rule, hm, hbI, hbD,
        hfs, optFields, wpFieldDefs, mapItems, asString_spec', toPos_spec', Pair.start, Pair.stop, hname', At, bind,
        Except.bind, R.ScalarTypeExtension, R.ObjectTypeExtension, R.InterfaceTypeExtension]
  | cons a r =>
    rw [hfs] at gF hpe hfields hfe
    have htokE : Tok (At inp (p3 + (rOptFields τ sep p3 (a :: r)).length)) := by rw [hpe]; exact hn.tok
    obtain ⟨prF, rF, hokF, hbF⟩ := fieldsT τ hτ a r hfields gF htokE
    have r1 := hrun _ _ _ _ rF
    obtain ⟨e, rR⟩ := runsK_rule look_InterfaceTypeExtension' (by decide) (by decide) (runsK_choice_l r1)
    rw [slotPairs5e_one] at rR
    have hlF : (rOptFields τ sep p3 (a :: r)).length = p + L - p3 := by omega
    have hlF1 := (hd_rBraced (rFieldDef τ) true τ '{' '}' sep p3 (a :: r)).length_pos
    simp only [rOptFields] at hlF
    have e1 : B (rBraced (rFieldDef τ) true τ '{' '}' sep p3 (a :: r)).length + 45 ≤ B L + 45 := by simp only [B]; omega
    have e2 : B (p3 - p) + 60 ≤ B L := by simp only [B]; omega
    refine ⟨_, RunsK.cast (rR.mono ?_) rfl (by rw [hpe]) rfl, ?_, ?_⟩
    · simp only [rOptFields]; omega
    · refine pairOk_mk (by decide) (by decide) ?_
      simp only [slotPairs, cleanL_append, cleanL_cons, cleanL_nil, and_true, Option.toList_some, Option.toList_none]
      exact ⟨cleanP_of (by decide) (by decide) trivial, cleanP_of (by decide) (by decide) trivial,
        cleanP_of (by decide) (by decide) trivial, clean_opt (fun x hx => (hokI x hx).2),
        clean_opt (fun x hx => (hokD x hx).2), hokF.clean⟩
    · intro fuel hf e'
      obtain ⟨hbI, hbD⟩ := hb fuel (by omega)
      have hbF' := hbF fuel (by omega)
      have hm := matchParts_slots P_InterfaceTypeExtension _ p_interfaceExt_nodup
        (show slotsOk P_InterfaceTypeExtension [some (Pair.mk R.KEYWORD_extend p (p + kwExtend.length) []), some (Pair.mk (kindKwRule .interface) (ehOffK τ p)
            (ehOffK τ p + (kindKw .interface).length) []), some (Pair.mk R.Name (ehOffN τ p (kindKw .interface))
              (ehOffN τ p (kindKw .interface) + t.name.toList.length) []), oI, oD, some prF] from
          ⟨⟨_, rfl, rfl⟩, ⟨_, rfl, rfl⟩, ⟨_, rfl, rfl⟩, fun x hx => (hokI x hx).1, fun x hx => (hokD x hx).1,
            (fun x hx => by cases hx; exact hokF.rule), trivial⟩)
      simp only [wpObjExt] at hbI hbD hfe ⊢
      simp [hfs] at hfe hbI hbD
      simp only [show kwExtend.length = 6 from rfl] at hm
      simp [buildTypeExtension, onlyChildOf, onlyChild, Pair.children, OC_TypeExtension, Pair.rule, hm, hbI, hbD,
        hbF', hfe, hfs, asString_spec', toPos_spec', Pair.start, Pair.stop, hname', At, bind,
        Except.bind, R.ScalarTypeExtension, R.ObjectTypeExtension, R.InterfaceTypeExtension]


theorem runsK_of_opt {n : Nat} {a : Expr} {c c' : Cur} {ps : List Pair} (h : RunsK n (.opt a) c c' ps) (hne : ps ≠ []) :
    RunsK n a c c' ps := by
  obtain ⟨c1, h1, h2⟩ := h
  refine ⟨c1, ?_, h2⟩
  intro tr
  obtain ⟨tr', h'⟩ := h1 tr
  refine ⟨tr', fun f hf => ?_⟩
  have := h' (f + 1) (by omega)
  simp only [eval] at this
  split at this
  · simp only [Prod.mk.injEq, Out.ok.injEq] at this
    exact absurd this.2.2.symm hne
  · exact this

/-! ### union, directives only -/

def rUnionExtD (τ : Trivia) (sep : Bool) (p : Nat) (t : TypeDef) : List Char :=
  let tH := rExtHead τ false p (kindKw .union) t.name
  tH ++ rDirs τ sep (p + tH.length) t.dirs

def wpUnionExtD (τ : Trivia) (inp : List Char) (sep : Bool) (p : Nat) (t : TypeDef) : TypeDef :=
  let tH := rExtHead τ false p (kindKw .union) t.name
  { kind := .union, name := t.name, namePos := posAt inp (ehOffN τ p (kindKw .union)),
    dirs := wpDirs τ inp sep (p + tH.length) t.dirs, pos := posAt inp p }

theorem unionExtDT (τ : Trivia) (hτ : ∀ q, Ws (τ q)) (t : TypeDef) (hname : validName t.name.toList)
    (hdirs : WFDirs t.dirs) (hd : t.dirs ≠ []) {sep : Bool} {p : Nat} (h : HasAt inp p (rUnionExtD τ sep p t))
    (hn : Nxt inp tdBad sep (p + (rUnionExtD τ sep p t).length)) :
    KindExtOk inp R.UnionTypeExtension p (rUnionExtD τ sep p t) (wpUnionExtD τ inp sep p t) := by
  unfold KindExtOk
  simp only [rUnionExtD, wpUnionExtD] at h hn ⊢
  generalize hH : rExtHead τ false p (kindKw .union) t.name = tH at *
  generalize hD : rDirs τ sep (p + tH.length) t.dirs = tD at *
  have hlen : p + (tH ++ tD).length = p + tH.length + tD.length := by simp only [List.length_append]; omega
  rw [hlen] at hn ⊢
  have g0 : HasAt inp p tH := h.left
  have g1 : HasAt inp (p + tH.length) tD := h.right
  have n1 : Nxt inp (fun _ => False) false (p + tH.length) := by
    refine Nxt.rest g1 hn (hD ▸ hd_rDirs τ sep _ t.dirs) (P := (· = '@')) (by rintro c rfl; decide) (fun c hc => hc.elim) ?_
    intro ht _
    exact absurd (rDirs_eq_nil (hD.trans ht)) hd
  obtain ⟨hrun, hfail, hnm⟩ := extHeadK hτ (look_kindKw .union) (kindKw_valid .union) t.name hname
    (hH ▸ g0) (by rw [hH]; exact n1)
  rw [hH] at hrun hfail
  obtain ⟨prD, rD, hokD, hbD⟩ := dirsT τ hτ t.dirs hd hdirs (bad := tdBad) (Or.inr (Or.inl rfl)) (Or.inl rfl)
    (hD ▸ g1) (by rw [hD]; exact hn)
  rw [hD] at rD hbD
  have hnotEq : HeadNot (· = '=') (inp.drop (p + tH.length + tD.length)) :=
    headNot_mono (fun c (hc : c = '=') => Or.inr (Or.inr (Or.inr (Or.inr (Or.inr hc))))) hn.ok
  have f1 := hfail _ _ (fails_seq_K (runsK_opt_some rD) (fails_seq_1 (b := .call R.UnionMemberTypes) (str_fails (xs := []) hnotEq)))
  have r2 := hrun _ _ _ _ rD
  obtain ⟨e, rR⟩ := runsK_rule look_UnionTypeExtension' (by decide) (by decide) (runsK_choice_r f1 r2)
  have hlH : 1 ≤ tH.length := hH ▸ (hd_rExtHead τ false p _ t.name).length_pos
  refine ⟨_, rR.mono (by barith), ?_, ?_⟩
  · refine pairOk_mk (by decide) (by decide) ?_
    simp only [cleanL_append, cleanL_cons, cleanL_nil, and_true]
    exact ⟨cleanP_of (by decide) (by decide) trivial, cleanP_of (by decide) (by decide) trivial,
      cleanP_of (by decide) (by decide) trivial, hokD.clean⟩
  · intro fuel hf e'
    have hf' : tH.length + tD.length ≤ fuel := by simpa using hf
    have hch : [Pair.mk R.KEYWORD_extend p (p + kwExtend.length) []] ++
          ([Pair.mk (kindKwRule .union) (ehOffK τ p) (ehOffK τ p + (kindKw .union).length) []] ++
          ([Pair.mk R.Name (ehOffN τ p (kindKw .union)) (ehOffN τ p (kindKw .union) + t.name.toList.length) []] ++
            [prD])) =
        slotPairs [some (Pair.mk R.KEYWORD_extend p (p + kwExtend.length) []),
          some (Pair.mk R.KEYWORD_union (ehOffK τ p) (ehOffK τ p + (kindKw .union).length) []),
          some (Pair.mk R.Name (ehOffN τ p (kindKw .union))
            (ehOffN τ p (kindKw .union) + t.name.toList.length) []), some prD, none] := by simp [slotPairs, kindKwRule]
    rw [hch]
    have hm := matchParts_slots P_UnionTypeExtension _ p_unionExt_nodup
      (show slotsOk P_UnionTypeExtension [some (Pair.mk R.KEYWORD_extend p (p + kwExtend.length) []),
          some (Pair.mk R.KEYWORD_union (ehOffK τ p) (ehOffK τ p + (kindKw .union).length) []),
          some (Pair.mk R.Name (ehOffN τ p (kindKw .union))
            (ehOffN τ p (kindKw .union) + t.name.toList.length) []), some prD, none] from
        ⟨⟨_, rfl, rfl⟩, ⟨_, rfl, rfl⟩, ⟨_, rfl, rfl⟩, (fun x hx => by cases hx; exact hokD.rule),
          (fun x hx => by cases hx), trivial⟩)
    have hname' := hnm.slice
    simp only [show kwExtend.length = 6 from rfl] at hm
    simp [buildTypeExtension, onlyChildOf, onlyChild, Pair.children, OC_TypeExtension, Pair.rule, hm, optDirs,
      hbD fuel (by omega), namedTypeIdents, asString_spec', toPos_spec', Pair.start, Pair.stop, hname', At, bind,
      Except.bind, R.ScalarTypeExtension, R.ObjectTypeExtension, R.InterfaceTypeExtension, R.UnionTypeExtension]

/-- a union type extension: `= members` (with optional directives), or directives only -/
def rUnionExt (τ : Trivia) (sep : Bool) (p : Nat) (t : TypeDef) : List Char :=
  if t.members.isEmpty then rUnionExtD τ sep p t else rUnionExtM τ sep p t

def wpUnionExt (τ : Trivia) (inp : List Char) (sep : Bool) (p : Nat) (t : TypeDef) : TypeDef :=
  if t.members.isEmpty then wpUnionExtD τ inp sep p t else wpUnionExtM τ inp sep p t

theorem unionExtT (τ : Trivia) (hτ : ∀ q, Ws (τ q)) (t : TypeDef) (hname : validName t.name.toList)
    (hdirs : WFDirs t.dirs) (hne : t.members ≠ [] ∨ t.dirs ≠ []) (hmv : ∀ x ∈ t.members, validName x.1.toList)
    {sep : Bool} {p : Nat} (h : HasAt inp p (rUnionExt τ sep p t))
    (hn : Nxt inp tdBad sep (p + (rUnionExt τ sep p t).length)) :
    KindExtOk inp R.UnionTypeExtension p (rUnionExt τ sep p t) (wpUnionExt τ inp sep p t) := by
  simp only [rUnionExt, wpUnionExt] at h hn ⊢
  by_cases hm : t.members = []
  · have hd : t.dirs ≠ [] := hne.resolve_left (fun h => h hm)
    simp only [hm, List.isEmpty_nil, if_true] at h hn ⊢
    exact unionExtDT τ hτ t hname hdirs hd h hn
  · have hme : t.members.isEmpty = false := by
      cases hh : t.members with
      | nil => exact absurd hh hm
      | cons a r => rfl
    simp only [hme, Bool.false_eq_true, if_false] at h hn ⊢
    exact unionExtMT τ hτ t hname hdirs hm hmv h hn

/-! ### object, interfaces only -/

theorem objExtImplT (τ : Trivia) (hτ : ∀ q, Ws (τ q)) (t : TypeDef) (hname : validName t.name.toList)
    (himpl : ∀ x ∈ t.implements, validName x.1.toList) (hi : t.implements ≠ []) (hd : t.dirs = []) (hf : t.fields = [])
    {sep : Bool} {p : Nat} (h : HasAt inp p (rObjExt τ (kindKw .object) sep p t))
    (hn : Nxt inp tdBad sep (p + (rObjExt τ (kindKw .object) sep p t).length)) :
    KindExtOk inp R.ObjectTypeExtension p (rObjExt τ (kindKw .object) sep p t)
      (wpObjExt τ inp .object (kindKw .object) sep p t) := by
  unfold KindExtOk
  obtain ⟨m, ms, hms⟩ : ∃ m ms, t.implements = m :: ms := by
    cases hh : t.implements with
    | nil => exact absurd hh hi
    | cons m ms => exact ⟨m, ms, rfl⟩
  have hsN : (!t.implements.isEmpty || (sep && t.fields.isEmpty && t.dirs.isEmpty)) = true := by simp [hms]
  have hsI : (sep && t.fields.isEmpty && t.dirs.isEmpty) = sep := by simp [hd, hf]
  have hsN' : (!t.implements.isEmpty || sep) = true := by simp [hms]
  simp only [rObjExt, wpObjExt, hsN, hsI, hsN'] at h hn ⊢
  rw [hd, hf] at h hn ⊢
  simp only [rDirs, wpDirs, renderItems, mapItems, rOptFields, wpFieldDefs, List.length_nil, Nat.add_zero,
    List.append_nil] at h hn ⊢
  generalize hH : rExtHead τ true p (kindKw .object) t.name = tH at *
  generalize hI : rOptImpl τ sep (p + tH.length) t.implements = tI at *
  have hlen : p + (tH ++ tI).length = p + tH.length + tI.length := by simp only [List.length_append]; omega
  rw [hlen] at hn ⊢
  have g0 : HasAt inp p tH := h.left
  have g1 : HasAt inp (p + tH.length) tI := h.right
  have hdI : Hd (· = 'i') tI := by
    rw [← hI, hms]
    exact Hd.append (hd_tk (P := (· = 'i')) (hd_cons _ rfl)) _
  have n1 : Nxt inp (fun _ => False) true (p + tH.length) :=
    Nxt.of_hd_sep g1 hdI (by rintro c rfl; exact ⟨by decide, id⟩)
  obtain ⟨hrun, hfail, hnm⟩ := extHeadK hτ (look_kindKw .object) (kindKw_valid .object) t.name hname
    (hH ▸ g0) (by rw [hH]; exact n1)
  rw [hH] at hrun hfail
  obtain ⟨oI, rI, hokI, hbI⟩ := optImplT τ hτ t.implements himpl (bad := tdBad)
    (Or.inr (Or.inr (Or.inr (Or.inl rfl)))) (fun h0 => absurd h0 hi) (hI ▸ g1) (by rw [hI]; exact hn)
  rw [hI] at rI
  obtain ⟨prI, hoI⟩ : ∃ prI, oI = some prI := by
    cases oI with
    | some x => exact ⟨x, rfl⟩
    | none =>
      rw [hms] at hbI
      simp [optImplements, wpNames] at hbI
  subst hoI
  have hokI' := hokI prI rfl
  have rI' : RunsK (B tI.length + 50) (.call R.ImplementsInterfaces) (At inp (p + tH.length))
      (At inp (p + tH.length + tI.length)) [prI] := runsK_of_opt rI (by simp)
  have hbr : HeadNot (· = '{') (inp.drop (p + tH.length + tI.length)) :=
    headNot_mono (fun c (hc : c = '{') => Or.inr (Or.inr (Or.inl hc))) hn.ok
  have hat : HeadNot (· = '@') (inp.drop (p + tH.length + tI.length)) :=
    headNot_mono (fun c (hc : c = '@') => Or.inl hc) hn.ok
  have rDn : RunsK 30 (.opt (.call R.Directives)) (At inp (p + tH.length + tI.length))
      (At inp (p + tH.length + tI.length)) [] := (runsK_opt_none (directives_fails hat) hn.tok).mono (by simp)
  have f1 := hfail _ _ (fails_seq_K rI (fails_seq_K rDn (fieldsDef_fails hbr)))
  have f2 := hfail _ _ (fails_seq_K rI (fails_seq_1 (b := .not (.str ['{'])) (directives_fails hat)))
  have r3 := hrun _ _ _ _ (runsK_seq rI' (notBraceK hn.tok hbr))
  obtain ⟨e, rR⟩ := runsK_rule look_ObjectTypeExtension' (by decide) (by decide)
    (runsK_choice_r f1 (runsK_choice_r f2 r3))
  have hlH : 1 ≤ tH.length := hH ▸ (hd_rExtHead τ true p _ t.name).length_pos
  refine ⟨_, rR.mono (by barith), ?_, ?_⟩
  · refine pairOk_mk (by decide) (by decide) ?_
    simp only [cleanL_append, cleanL_cons, cleanL_nil, and_true]
    exact ⟨cleanP_of (by decide) (by decide) trivial, cleanP_of (by decide) (by decide) trivial,
      cleanP_of (by decide) (by decide) trivial, hokI'.clean⟩
  · intro fuel hf' e'
    have hch : [Pair.mk R.KEYWORD_extend p (p + kwExtend.length) []] ++
          ([Pair.mk (kindKwRule .object) (ehOffK τ p) (ehOffK τ p + (kindKw .object).length) []] ++
          ([Pair.mk R.Name (ehOffN τ p (kindKw .object)) (ehOffN τ p (kindKw .object) + t.name.toList.length) []] ++
            ([prI] ++ []))) =
        slotPairs [some (Pair.mk R.KEYWORD_extend p (p + kwExtend.length) []),
          some (Pair.mk R.KEYWORD_type (ehOffK τ p) (ehOffK τ p + (kindKw .object).length) []),
          some (Pair.mk R.Name (ehOffN τ p (kindKw .object))
            (ehOffN τ p (kindKw .object) + t.name.toList.length) []), some prI, none, none] := by
      simp [slotPairs, kindKwRule]
    rw [hch]
    have hm := matchParts_slots P_ObjectTypeExtension _ p_objectExt_nodup
      (show slotsOk P_ObjectTypeExtension [some (Pair.mk R.KEYWORD_extend p (p + kwExtend.length) []),
          some (Pair.mk R.KEYWORD_type (ehOffK τ p) (ehOffK τ p + (kindKw .object).length) []),
          some (Pair.mk R.Name (ehOffN τ p (kindKw .object))
            (ehOffN τ p (kindKw .object) + t.name.toList.length) []), some prI, none, none] from
        ⟨⟨_, rfl, rfl⟩, ⟨_, rfl, rfl⟩, ⟨_, rfl, rfl⟩, (fun x hx => by cases hx; exact hokI'.rule),
          (fun x hx => by cases hx), (fun x hx => by cases hx), trivial⟩)
    have hname' := hnm.slice
    simp only [show kwExtend.length = 6 from rfl] at hm
    simp [buildTypeExtension, onlyChildOf, onlyChild, Pair.children, OC_TypeExtension, Pair.rule, hm, hbI, optDirs,
      optFields, asString_spec', toPos_spec', Pair.start, Pair.stop, hname', At, bind, Except.bind,
      R.ScalarTypeExtension, R.ObjectTypeExtension]

/-- object type extensions: fields, directives or interfaces -/
theorem objExtAllT (τ : Trivia) (hτ : ∀ q, Ws (τ q)) (t : TypeDef) (hname : validName t.name.toList)
    (himpl : ∀ x ∈ t.implements, validName x.1.toList) (hdirs : WFDirs t.dirs) (hfields : ∀ f ∈ t.fields, WFFieldDef f)
    (hne : t.implements ≠ [] ∨ t.dirs ≠ [] ∨ t.fields ≠ []) {sep : Bool} {p : Nat}
    (h : HasAt inp p (rObjExt τ (kindKw .object) sep p t))
    (hn : Nxt inp tdBad sep (p + (rObjExt τ (kindKw .object) sep p t).length)) :
    KindExtOk inp R.ObjectTypeExtension p (rObjExt τ (kindKw .object) sep p t)
      (wpObjExt τ inp .object (kindKw .object) sep p t) := by
  by_cases hd : t.dirs = []
  · by_cases hf : t.fields = []
    · have hi : t.implements ≠ [] := by
        rcases hne with h | h | h
        · exact h
        · exact absurd hd h
        · exact absurd hf h
      exact objExtImplT τ hτ t hname himpl hi hd hf h hn
    · exact objExtT τ hτ t hname himpl hdirs hfields (Or.inr hf) h hn
  · exact objExtT τ hτ t hname himpl hdirs hfields (Or.inl hd) h hn


end NitroVerif.DocParseL
