/-
Type definitions II (helper lemmas for Props/C07Doc): input object, object, interface and union type definitions.
-/
import NitroVerif.Lemmas.ParseDocTsDefA
namespace NitroVerif.DocParse
open NitroVerif.Peg NitroVerif.Gen NitroVerif.Gen.Parts NitroVerif.Build NitroVerif.TypeParse NitroVerif.StringParse
open NitroVerif.Gql NitroVerif.ValueParse NitroVerif.Spec.Lex NitroVerif.ParseText

set_option linter.unusedSimpArgs false

theorem look_ObjectTypeDefinition : gList.look R.ObjectTypeDefinition = some (.normal, .choice
    (.seq (.opt (.call R.Description)) (.seq (.call R.KEYWORD_type) (.seq (.call R.Name)
      (.seq (.opt (.call R.ImplementsInterfaces)) (.seq (.opt (.call R.Directives)) (.call R.FieldsDefinition))))))
    (.seq (.opt (.call R.Description)) (.seq (.call R.KEYWORD_type) (.seq (.call R.Name)
      (.seq (.opt (.call R.ImplementsInterfaces)) (.seq (.call R.Directives) (.not (.str ['{'])))))))) := rfl
theorem look_InterfaceTypeDefinition : gList.look R.InterfaceTypeDefinition = some (.normal, .choice
    (.seq (.opt (.call R.Description)) (.seq (.call R.KEYWORD_interface) (.seq (.call R.Name)
      (.seq (.opt (.call R.ImplementsInterfaces)) (.seq (.opt (.call R.Directives)) (.call R.FieldsDefinition))))))
    (.seq (.opt (.call R.Description)) (.seq (.call R.KEYWORD_interface) (.seq (.call R.Name)
      (.seq (.opt (.call R.ImplementsInterfaces)) (.seq (.opt (.call R.Directives)) (.not (.str ['{'])))))))) := rfl
theorem look_UnionTypeDefinition : gList.look R.UnionTypeDefinition = some (.normal,
    .seq (.opt (.call R.Description)) (.seq (.call R.KEYWORD_union) (.seq (.call R.Name)
      (.seq (.opt (.call R.Directives)) (.seq (.str ['=']) (.opt (.call R.UnionMemberTypes))))))) := rfl

variable {inp : List Char}

/-! ### input object -/

def rInputDef (τ : Trivia) (sep : Bool) (p : Nat) (t : TypeDef) : List Char :=
  let tH := rDefHead τ (sep && t.inputs.isEmpty && t.dirs.isEmpty) p t.desc (kindKw .input) t.name
  let tD := rDirs τ (sep && t.inputs.isEmpty) (p + tH.length) t.dirs
  tH ++ (tD ++ rOptInputs τ sep (p + tH.length + tD.length) t.inputs)

def wpInputDef (τ : Trivia) (inp : List Char) (sep : Bool) (p : Nat) (t : TypeDef) : TypeDef :=
  let tH := rDefHead τ (sep && t.inputs.isEmpty && t.dirs.isEmpty) p t.desc (kindKw .input) t.name
  let tD := rDirs τ (sep && t.inputs.isEmpty) (p + tH.length) t.dirs
  { kind := .input, desc := t.desc, name := t.name, namePos := posAt inp (dhOffN τ p t.desc (kindKw .input)),
    dirs := wpDirs τ inp (sep && t.inputs.isEmpty) (p + tH.length) t.dirs,
    inputs := wpIVDs τ inp (p + tH.length + tD.length + (tk τ false (p + tH.length + tD.length) ['{']).length) t.inputs,
    pos := posAt inp (dhOffK τ p t.desc) }

theorem p_input_nodup : (P_InputObjectTypeDefinition.map itemRule).Nodup := by decide

theorem rOptInputs_eq_nil {τ : Trivia} {sep : Bool} {p : Nat} {vs : List InputValueDef}
    (h : rOptInputs τ sep p vs = []) : vs = [] := by
  cases vs with
  | nil => rfl
  | cons v vs => exact absurd h (hd_rBraced _ _ τ '{' '}' sep p _).ne_nil

theorem inputDefT (τ : Trivia) (hτ : ∀ q, Ws (τ q)) (t : TypeDef) (hname : validName t.name.toList)
    (hdirs : WFDirs t.dirs) (hvals : ∀ v ∈ t.inputs, WFIVD v) {sep : Bool} {p : Nat}
    (h : HasAt inp p (rInputDef τ sep p t)) (hn : Nxt inp tdBad sep (p + (rInputDef τ sep p t).length)) :
    KindDefOk inp R.InputObjectTypeDefinition p (rInputDef τ sep p t) (wpInputDef τ inp sep p t) := by
  unfold KindDefOk
  simp only [rInputDef, wpInputDef] at h hn ⊢
  generalize hsN : (sep && t.inputs.isEmpty && t.dirs.isEmpty) = sN at *
  generalize hsD : (sep && t.inputs.isEmpty) = sD at *
  generalize hH : rDefHead τ sN p t.desc (kindKw .input) t.name = tH at *
  generalize hD : rDirs τ sD (p + tH.length) t.dirs = tD at *
  generalize hV : rOptInputs τ sep (p + tH.length + tD.length) t.inputs = tV at *
  have hlen : p + (tH ++ (tD ++ tV)).length = p + tH.length + tD.length + tV.length := by
    simp only [List.length_append]; omega
  rw [hlen] at hn ⊢
  have g0 : HasAt inp p tH := h.left
  have g1 : HasAt inp (p + tH.length) tD := h.right.left
  have g2 : HasAt inp (p + tH.length + tD.length) tV := h.right.right
  have n2 : Nxt inp (fun c => c = '@' ∨ c = '(') sD (p + tH.length + tD.length) := by
    refine Nxt.rest g2 hn (hV ▸ hd_rOptInputs τ sep _ t.inputs) (P := (· = '{')) (by rintro c rfl; decide)
      (fun c hc => hc.elim Or.inl (fun h => Or.inr (Or.inl h))) ?_
    intro ht hs
    have : t.inputs = [] := rOptInputs_eq_nil (hV.trans ht)
    rw [← hsD, this] at hs
    simpa using hs
  have n1 : Nxt inp (fun _ => False) sN (p + tH.length) := by
    refine Nxt.rest g1 n2 (hD ▸ hd_rDirs τ sD _ t.dirs) (P := (· = '@')) (by rintro c rfl; decide) (fun c hc => hc.elim) ?_
    intro ht hs
    have : t.dirs = [] := rDirs_eq_nil (hD.trans ht)
    rw [← hsN, this] at hs
    simpa using hs
  obtain ⟨oS, hrun, hfail, hokS, hbS, hnm⟩ := defHeadK hτ (look_kindKw .input) (kindKw_valid .input) t.desc t.name hname
    (hH ▸ g0) (by rw [hH]; exact n1)
  rw [hH] at hrun hfail
  obtain ⟨oD, rD, hokD, _, hbD⟩ := optDirsT τ hτ t.dirs hdirs (bad := fun c => c = '@' ∨ c = '(') (Or.inr rfl)
    (Or.inl rfl) (hD ▸ g1) (by rw [hD]; exact n2)
  rw [hD] at rD hbD
  have hlH : 1 ≤ tH.length := hH ▸ (hd_rDefHead τ sN p t.desc _ t.name (kindKw_valid .input)).length_pos
  have hname' := hnm.slice
  cases hvs : t.inputs with
  | nil =>
    have htV : tV = [] := by rw [← hV, hvs]; rfl
    subst htV
    simp only [List.length_nil, Nat.add_zero] at hn ⊢
    have hbr : HeadNot (· = '{') (inp.drop (p + tH.length + tD.length)) :=
      headNot_mono (fun c (hc : c = '{') => Or.inr (Or.inr (Or.inl hc))) hn.ok
    have f1 := hfail _ _ (fails_seq_K rD (inputFields_fails hbr))
    have r2 := hrun _ _ _ _ (runsK_seq rD (notBraceK hn.tok hbr))
    obtain ⟨e, rR⟩ := runsK_rule look_InputObjectTypeDefinition (by decide) (by decide) (runsK_choice_r f1 r2)
    refine ⟨_, rR.mono (by barith), ?_, ?_⟩
    · refine pairOk_mk (by decide) (by decide) ?_
      simp only [cleanL_append, cleanL_cons, cleanL_nil, and_true]
      exact ⟨clean_opt (fun x hx => (hokS x hx).2), cleanP_of (by decide) (by decide) trivial,
        cleanP_of (by decide) (by decide) trivial, clean_opt (fun x hx => (hokD x hx).clean)⟩
    · intro fuel hf e'
      have hf' : tH.length + tD.length ≤ fuel := by simpa using hf
      have hch : oS.toList ++ ([Pair.mk (kindKwRule .input) (dhOffK τ p t.desc) (dhOffK τ p t.desc + (kindKw .input).length) []] ++
            ([Pair.mk R.Name (dhOffN τ p t.desc (kindKw .input)) (dhOffN τ p t.desc (kindKw .input) + t.name.toList.length) []] ++
              (oD.toList ++ []))) =
          slotPairs [oS, some (Pair.mk R.KEYWORD_input (dhOffK τ p t.desc) (dhOffK τ p t.desc + (kindKw .input).length) []),
            some (Pair.mk R.Name (dhOffN τ p t.desc (kindKw .input))
              (dhOffN τ p t.desc (kindKw .input) + t.name.toList.length) []), oD, none] := by simp [slotPairs, kindKwRule]
      rw [hch]
      have hm := matchParts_slots P_InputObjectTypeDefinition _ p_input_nodup
        (show slotsOk P_InputObjectTypeDefinition [oS, some (Pair.mk R.KEYWORD_input (dhOffK τ p t.desc)
            (dhOffK τ p t.desc + (kindKw .input).length) []), some (Pair.mk R.Name (dhOffN τ p t.desc (kindKw .input))
              (dhOffN τ p t.desc (kindKw .input) + t.name.toList.length) []), oD, none] from
          ⟨fun x hx => (hokS x hx).1, ⟨_, rfl, rfl⟩, ⟨_, rfl, rfl⟩, fun x hx => (hokD x hx).rule,
            (fun x hx => by cases hx), trivial⟩)
      simp [buildTypeDefinition, onlyChildOf, onlyChild, Pair.children, OC_TypeDefinition, Pair.rule, hm, hbS,
        hbD fuel (by omega), optInputFields, wpIVDs, mapItems, asString_spec', toPos_spec', Pair.start, Pair.stop,
        hname', At, bind, Except.bind, R.ScalarTypeDefinition, R.ObjectTypeDefinition, R.InterfaceTypeDefinition,
        R.UnionTypeDefinition, R.EnumTypeDefinition, R.InputObjectTypeDefinition]
  | cons a r =>
    rw [hvs] at hV hvals
    obtain ⟨prV, rV, hokV, hbV⟩ := inputFieldsT τ hτ a r hvals (hV ▸ g2) (by rw [hV]; exact hn.tok)
    rw [hV] at rV hbV
    have r1 := hrun _ _ _ _ (runsK_seq rD rV)
    obtain ⟨e, rR⟩ := runsK_rule look_InputObjectTypeDefinition (by decide) (by decide) (runsK_choice_l r1)
    refine ⟨_, rR.mono (by barith), ?_, ?_⟩
    · refine pairOk_mk (by decide) (by decide) ?_
      simp only [cleanL_append, cleanL_cons, cleanL_nil, and_true]
      exact ⟨clean_opt (fun x hx => (hokS x hx).2), cleanP_of (by decide) (by decide) trivial,
        cleanP_of (by decide) (by decide) trivial, clean_opt (fun x hx => (hokD x hx).clean), hokV.clean⟩
    · intro fuel hf e'
      have hf' : tH.length + (tD.length + tV.length) ≤ fuel := by simpa using hf
      have hch : oS.toList ++ ([Pair.mk (kindKwRule .input) (dhOffK τ p t.desc) (dhOffK τ p t.desc + (kindKw .input).length) []] ++
            ([Pair.mk R.Name (dhOffN τ p t.desc (kindKw .input)) (dhOffN τ p t.desc (kindKw .input) + t.name.toList.length) []] ++
              (oD.toList ++ [prV]))) =
          slotPairs [oS, some (Pair.mk R.KEYWORD_input (dhOffK τ p t.desc) (dhOffK τ p t.desc + (kindKw .input).length) []),
            some (Pair.mk R.Name (dhOffN τ p t.desc (kindKw .input))
              (dhOffN τ p t.desc (kindKw .input) + t.name.toList.length) []), oD, some prV] := by
        simp [slotPairs, kindKwRule]
      rw [hch]
      have hm := matchParts_slots P_InputObjectTypeDefinition _ p_input_nodup
        (show slotsOk P_InputObjectTypeDefinition [oS, some (Pair.mk R.KEYWORD_input (dhOffK τ p t.desc)
            (dhOffK τ p t.desc + (kindKw .input).length) []), some (Pair.mk R.Name (dhOffN τ p t.desc (kindKw .input))
              (dhOffN τ p t.desc (kindKw .input) + t.name.toList.length) []), oD, some prV] from
          ⟨fun x hx => (hokS x hx).1, ⟨_, rfl, rfl⟩, ⟨_, rfl, rfl⟩, fun x hx => (hokD x hx).rule,
            (fun x hx => by cases hx; exact hokV.rule), trivial⟩)
      simp [buildTypeDefinition, onlyChildOf, onlyChild, Pair.children, OC_TypeDefinition, Pair.rule, hm, hbS,
        hbD fuel (by omega), hbV fuel (by omega), asString_spec', toPos_spec', Pair.start, Pair.stop,
        hname', At, bind, Except.bind, R.ScalarTypeDefinition, R.ObjectTypeDefinition, R.InterfaceTypeDefinition,
        R.UnionTypeDefinition, R.EnumTypeDefinition, R.InputObjectTypeDefinition]

/-! ### union -/

def rUnionDef (τ : Trivia) (sep : Bool) (p : Nat) (t : TypeDef) : List Char :=
  let tH := rDefHead τ false p t.desc (kindKw .union) t.name
  let tD := rDirs τ false (p + tH.length) t.dirs
  let tE := tk τ false (p + tH.length + tD.length) ['=']
  tH ++ (tD ++ (tE ++ rNames τ '|' sep (p + tH.length + tD.length + tE.length) t.members))

def wpUnionDef (τ : Trivia) (inp : List Char) (sep : Bool) (p : Nat) (t : TypeDef) : TypeDef :=
  let tH := rDefHead τ false p t.desc (kindKw .union) t.name
  let tD := rDirs τ false (p + tH.length) t.dirs
  let tE := tk τ false (p + tH.length + tD.length) ['=']
  { kind := .union, desc := t.desc, name := t.name, namePos := posAt inp (dhOffN τ p t.desc (kindKw .union)),
    dirs := wpDirs τ inp false (p + tH.length) t.dirs,
    members := wpNames τ inp '|' sep (p + tH.length + tD.length + tE.length) t.members,
    pos := posAt inp (dhOffK τ p t.desc) }

theorem p_union_nodup : (P_UnionTypeDefinition.map itemRule).Nodup := by decide

theorem unionDefT (τ : Trivia) (hτ : ∀ q, Ws (τ q)) (t : TypeDef) (hname : validName t.name.toList)
    (hdirs : WFDirs t.dirs) (hmem : t.members ≠ []) (hmv : ∀ x ∈ t.members, validName x.1.toList) {sep : Bool} {p : Nat}
    (h : HasAt inp p (rUnionDef τ sep p t)) (hn : Nxt inp tdBad sep (p + (rUnionDef τ sep p t).length)) :
    KindDefOk inp R.UnionTypeDefinition p (rUnionDef τ sep p t) (wpUnionDef τ inp sep p t) := by
  unfold KindDefOk
  simp only [rUnionDef, wpUnionDef] at h hn ⊢
  generalize hH : rDefHead τ false p t.desc (kindKw .union) t.name = tH at *
  generalize hD : rDirs τ false (p + tH.length) t.dirs = tD at *
  generalize hE : tk τ false (p + tH.length + tD.length) ['='] = tE at *
  generalize hM : rNames τ '|' sep (p + tH.length + tD.length + tE.length) t.members = tM at *
  have hlen : p + (tH ++ (tD ++ (tE ++ tM))).length = p + tH.length + tD.length + tE.length + tM.length := by
    simp only [List.length_append]; omega
  rw [hlen] at hn ⊢
  have g0 : HasAt inp p tH := h.left
  have g1 : HasAt inp (p + tH.length) tD := h.right.left
  have g2 : HasAt inp (p + tH.length + tD.length) tE := h.right.right.left
  have g3 : HasAt inp (p + tH.length + tD.length + tE.length) tM := h.right.right.right
  have hdE : Hd (· = '=') tE := hE ▸ hd_tk (hd_cons _ rfl)
  obtain ⟨m, ms, hms⟩ : ∃ m ms, t.members = m :: ms := by
    cases hh : t.members with
    | nil => exact absurd hh hmem
    | cons m ms => exact ⟨m, ms, rfl⟩
  rw [hms] at hM hmv
  have hdM : Hd nameStart tM := by
    rw [← hM]; simp only [rNames]
    exact Hd.append (hd_tk (hd_of_validName (hmv m (List.mem_cons_self ..)))) _
  have n2 : Nxt inp (fun c => c = '@' ∨ c = '(') false (p + tH.length + tD.length) :=
    Nxt.of_hd g2 hdE (by rintro c rfl; decide)
  have n1 : Nxt inp (fun _ => False) false (p + tH.length) :=
    Nxt.rest g1 n2 (hD ▸ hd_rDirs τ false _ t.dirs) (P := (· = '@')) (by rintro c rfl; decide) (fun c hc => hc.elim)
      (fun _ _ => rfl)
  obtain ⟨oS, hrun, _, hokS, hbS, hnm⟩ := defHeadK hτ (look_kindKw .union) (kindKw_valid .union) t.desc t.name hname
    (hH ▸ g0) (by rw [hH]; exact n1)
  rw [hH] at hrun
  obtain ⟨oD, rD, hokD, _, hbD⟩ := optDirsT τ hτ t.dirs hdirs (bad := fun c => c = '@' ∨ c = '(') (Or.inr rfl)
    (Or.inl rfl) (hD ▸ g1) (by rw [hD]; exact n2)
  rw [hD] at rD hbD
  have rE := strT hτ ['='] (hE ▸ g2) (by rw [hE]; exact tok_of_hd g3 hdM (fun d => nameStart_not_trivia))
  rw [hE] at rE
  obtain ⟨prM, rM, hokM, hbM⟩ := membersT τ hτ m ms hmv (bad := tdBad) (Or.inr (Or.inr (Or.inr (Or.inr (Or.inl rfl)))))
    (hM ▸ g3) (by rw [hM]; exact hn)
  rw [hM] at rM
  obtain ⟨e, rR⟩ := runsK_rule look_UnionTypeDefinition (by decide) (by decide)
    (hrun _ _ _ _ (runsK_seq rD (runsK_seq rE (runsK_opt_some rM))))
  have hlH : 1 ≤ tH.length := hH ▸ (hd_rDefHead τ false p t.desc _ t.name (kindKw_valid .union)).length_pos
  have hlE := hdE.length_pos
  refine ⟨_, rR.mono (by barith), ?_, ?_⟩
  · refine pairOk_mk (by decide) (by decide) ?_
    simp only [cleanL_append, cleanL_cons, cleanL_nil, and_true]
    exact ⟨clean_opt (fun x hx => (hokS x hx).2), cleanP_of (by decide) (by decide) trivial,
      cleanP_of (by decide) (by decide) trivial, clean_opt (fun x hx => (hokD x hx).clean), trivial, hokM.clean⟩
  · intro fuel hf e'
    have hf' : tH.length + (tD.length + (tE.length + tM.length)) ≤ fuel := by simpa using hf
    have hch : oS.toList ++ ([Pair.mk (kindKwRule .union) (dhOffK τ p t.desc) (dhOffK τ p t.desc + (kindKw .union).length) []] ++
          ([Pair.mk R.Name (dhOffN τ p t.desc (kindKw .union)) (dhOffN τ p t.desc (kindKw .union) + t.name.toList.length) []] ++
            (oD.toList ++ ([] ++ [prM])))) =
        slotPairs [oS, some (Pair.mk R.KEYWORD_union (dhOffK τ p t.desc) (dhOffK τ p t.desc + (kindKw .union).length) []),
          some (Pair.mk R.Name (dhOffN τ p t.desc (kindKw .union))
            (dhOffN τ p t.desc (kindKw .union) + t.name.toList.length) []), oD, some prM] := by
      simp [slotPairs, kindKwRule]
    rw [hch]
    have hm := matchParts_slots P_UnionTypeDefinition _ p_union_nodup
      (show slotsOk P_UnionTypeDefinition [oS, some (Pair.mk R.KEYWORD_union (dhOffK τ p t.desc)
          (dhOffK τ p t.desc + (kindKw .union).length) []), some (Pair.mk R.Name (dhOffN τ p t.desc (kindKw .union))
            (dhOffN τ p t.desc (kindKw .union) + t.name.toList.length) []), oD, some prM] from
        ⟨fun x hx => (hokS x hx).1, ⟨_, rfl, rfl⟩, ⟨_, rfl, rfl⟩, fun x hx => (hokD x hx).rule,
          (fun x hx => by cases hx; exact hokM.rule), trivial⟩)
    have hname' := hnm.slice
    rw [hms]
    simp [buildTypeDefinition, onlyChildOf, onlyChild, Pair.children, OC_TypeDefinition, Pair.rule, hm, hbS,
      hbD fuel (by omega), hbM, asString_spec', toPos_spec', Pair.start, Pair.stop,
      hname', At, bind, Except.bind, R.ScalarTypeDefinition, R.ObjectTypeDefinition, R.InterfaceTypeDefinition,
      R.UnionTypeDefinition]

end NitroVerif.DocParse
