import NitroVerif.Lemmas.CheckOpValues3
/-! Typed values and variable usages of an accepted document (`typedValues_ok`, `opVarUses_ok`). -/
namespace NitroVerif.CheckOp
open NitroVerif.Gql NitroVerif.CheckCommon NitroVerif.Valid

/-- with unique argument names every argument is the one `check_arguments` matches with its definition -/
theorem find?_arg_of_nodup : ∀ (args : List Arg), nodupB (args.map (·.1)) = true → ∀ a ∈ args, ∀ n, n = a.1 →
    args.find? (fun x => n == x.1) = some a := by
  intro args
  induction args with
  | nil => intro _ a h; cases h
  | cons x xs ih =>
    intro hnd a ha n hn
    simp only [List.map_cons] at hnd
    obtain ⟨hx, hnd'⟩ := (nodupB_cons_iff _ _).mp hnd
    rw [List.find?_cons]
    rcases List.mem_cons.mp ha with rfl | ha
    · simp [hn]
    · have hne : n ≠ x.1 := by
        rintro h; exact hx (h ▸ hn ▸ List.mem_map.mpr ⟨a, ha, rfl⟩)
      have h1 : (n == x.1) = false := beq_eq_false_iff_ne.mpr hne
      simp only [h1]
      exact ih hnd' a ha n hn

/-- every typed value of a checked argument list was checked against the type the reference validator expects -/
theorem typedValues_of_site {S : Schema} {A : ErrKind → Bool} (hA : Admissible A) (hU : uniqueArgNamesB S = true)
    {vars : Option (List VarDef)} {pos : Pos} {site : ArgSite}
    (hq : Quiet A (checkArguments S vars pos site.args site.defs)) :
    ∀ tv ∈ typedValuesOf [site], ValOK S vars A tv.value tv.ty tv.locDefault := by
  intro tv htv
  simp only [typedValuesOf, List.flatMap_cons, List.flatMap_nil, List.append_nil, List.mem_filterMap] at htv
  obtain ⟨a, ha, hd⟩ := htv
  cases hfd : site.defs.find? (·.name == a.1) with
  | none => simp [hfd] at hd
  | some d =>
    simp only [hfd, Option.map_some, Option.some.injEq] at hd
    subst hd
    have hdm := List.mem_of_find?_eq_some hfd
    have hdn : d.name = a.1 := by simpa using List.find?_some hfd
    have hnd := (checkArguments_names hA hq).1
    have hfind := find?_arg_of_nodup site.args hnd a ha d.name hdn
    have := (checkArguments_quiet hA hq).2 d hdm a hfind
    exact checkValue_ok hA hU _ _ (Nat.le_refl _) _ _ this

theorem typedValuesOf_mem {sites : List ArgSite} {tv : TypedValue} (h : tv ∈ typedValuesOf sites) :
    ∃ site ∈ sites, tv ∈ typedValuesOf [site] := by
  simp only [typedValuesOf, List.mem_flatMap] at h ⊢
  obtain ⟨site, hs, htv⟩ := h
  exact ⟨site, hs, site, by simp, htv⟩

/-- scan lemma: the default values of an accepted variable list were checked -/
theorem checkVariablesAux_defaults {S : Schema} :
    ∀ (vs : List VarDef) (seen : List Name), checkVariablesAux S seen vs = [] →
      ∀ v ∈ vs, ∀ d, v.default = some d → checkValue S none d v.ty false = [] := by
  intro vs
  induction vs with
  | nil => intro _ _ v hv; cases hv
  | cons w vs ih =>
    intro seen h v hv d hd
    simp only [checkVariablesAux] at h
    obtain ⟨h1, h4⟩ := append_eq_nil' h
    obtain ⟨_, h3⟩ := append_eq_nil' h1
    rcases List.mem_cons.mp hv with rfl | hv
    · cases hk : isInputType? S v.ty.unwrapped with
      | none => simp [hk] at h3
      | some b =>
        cases b with
        | false => simp [hk] at h3
        | true => simpa [hk, hd] using h3
    · exact ih _ h4 v hv d hd

/-- **Every typed value of the document** (argument values and variable defaults) is a valid literal for its
    position: no 5.6.x issue -/
theorem typedValues_ok {S : Schema} {D : Doc} (hS : SchemaValid S) (h : checkOp S D = []) :
    ∀ tv ∈ typedValues S D, valueIssues S tv.value tv.ty = [] := by
  have hU := schemaValid_uniqueArgs hS
  intro tv htv
  simp only [typedValues, List.mem_append] at htv
  rcases htv with htv | htv
  · obtain ⟨site, hs, htv'⟩ := typedValuesOf_mem htv
    obtain ⟨A, vars, pos, hA, hq⟩ := argSites_checked hS h site hs
    exact (typedValues_of_site hA hU hq tv htv').1
  · simp only [List.mem_flatMap, List.mem_filterMap] at htv
    obtain ⟨o, ho, v, hv, hd⟩ := htv
    cases hdv : v.default with
    | none => simp [hdv] at hd
    | some d =>
      simp only [hdv, Option.map_some, Option.some.injEq] at hd
      subst hd
      rw [ops_eq] at ho
      obtain ⟨_, hvars, _, _⟩ := accepted_op h ho
      have := checkVariablesAux_defaults o.vars [] hvars v hv d hdv
      exact (checkValue_ok admissible_none hU _ _ (Nat.le_refl _) _ _ (quiet_none_iff.mpr this)).1

theorem valueRule_of_ok {S : Schema} {D : Doc} (tag : String)
    (h : ∀ tv ∈ typedValues S D, valueIssues S tv.value tv.ty = []) : valueRule tag S D = true := by
  unfold valueRule
  rw [List.all_eq_true]
  intro tv htv
  simp [h tv htv]

/-- **Every argument list in the scope of an operation** (its own selection sets and directives, and those of the
    fragments it reaches) was checked with no diagnostic, with the operation's variables in scope — or with no
    variable in scope at all (directives of variable definitions) -/
theorem op_argSites_checked {S : Schema} {D : Doc} (hS : SchemaValid S) (h : checkOp S D = [])
    {o : OperationDef} (ho : o ∈ opsOf D) :
    ∀ site ∈ fieldArgSites S (opCtxs S D o) ++ dirArgSites S (opDirSites S D o),
      ∃ vars pos, (vars = some o.vars ∨ vars = none) ∧
        Quiet allowNone (checkArguments S vars pos site.args site.defs) := by
  have hN := schemaValid_noReserved hS
  obtain ⟨hodirs, hovars, _, hoq⟩ := accepted_op h ho
  -- directive lists in scope
  have hdirs : ∀ ds ∈ opDirSites S D o, ∃ vars, (vars = some o.vars ∨ vars = none) ∧ DirFacts S allowNone vars ds := by
    intro ds hds
    simp only [opDirSites, List.mem_append] at hds
    rcases hds with (hds | hds) | hds
    · simp only [defDirSites, List.mem_cons, List.mem_map] at hds
      rcases hds with rfl | ⟨v, hv, rfl⟩
      · rw [opLocation_eq]
        exact ⟨some o.vars, Or.inl rfl, dirFacts_of_quiet admissible_none (quiet_none_iff.mpr hodirs)⟩
      · exact ⟨none, Or.inr rfl,
          dirFacts_of_quiet admissible_none (quiet_none_iff.mpr (checkVariablesAux_dirs o.vars [] hovars v hv))⟩
    · simp only [List.mem_flatMap] at hds
      obtain ⟨n, hn, hds⟩ := hds
      have hr := reachable_sound (accepted_nodup h) hn
      obtain ⟨_, _, f, hm, _, _, hd, _⟩ := reach_walked admissible_none hN (accepted_condsDefined h) hoq hr
      rw [frag?_eq_fragMap (accepted_nodup h), hm] at hds
      simp only [defDirSites, List.mem_singleton] at hds
      subst hds
      exact ⟨some o.vars, Or.inl rfl, dirFacts_of_quiet admissible_none hd⟩
    · simp only [ctxDirSites, List.mem_map] at hds
      obtain ⟨ps, hps, rfl⟩ := hds
      obtain ⟨k, seen, hl⟩ := op_scope_visited h hN ho ps hps
      obtain ⟨p, s⟩ := ps
      cases p with
      | none => exact absurd hl (by simp [LocalFact])
      | some t =>
        simp only [LocalFact] at hl
        obtain ⟨root, fields, _, _, hl⟩ := hl
        cases s with
        | field al name namePos args dirs sel =>
          obtain ⟨_, _, hq, _⟩ := hl
          exact ⟨some o.vars, Or.inl rfl, dirFacts_of_quiet admissible_none hq⟩
        | spread name namePos dirs pos => exact ⟨some o.vars, Or.inl rfl, dirFacts_of_quiet admissible_none hl.1⟩
        | inline cond dirs ss pos => exact ⟨some o.vars, Or.inl rfl, dirFacts_of_quiet admissible_none hl.1⟩
  intro site hs
  rcases List.mem_append.mp hs with hs | hs
  · simp only [fieldArgSites, List.mem_filterMap] at hs
    obtain ⟨ps, hps, hsite⟩ := hs
    obtain ⟨k, seen, hl⟩ := op_scope_visited h hN ho ps hps
    obtain ⟨p, s⟩ := ps
    cases p with
    | none => exact absurd hl (by simp [LocalFact])
    | some t =>
      cases s with
      | spread => simp at hsite
      | inline => simp at hsite
      | field al name namePos args dirs sel =>
        simp only [LocalFact] at hl
        obtain ⟨root, fields, hn, hf, fd, hfd, _, hq, _⟩ := hl
        simp only [fieldDef?_eq_find hN hn hf, hfd, Option.map_some, Option.some.injEq] at hsite
        subst hsite
        exact ⟨some o.vars, namePos, Or.inl rfl, hq⟩
  · simp only [dirArgSites, List.mem_flatMap, List.mem_filterMap] at hs
    obtain ⟨ds, hds, d, hd, hsite⟩ := hs
    obtain ⟨vars, hvars, hfacts, _⟩ := hdirs ds hds
    obtain ⟨dd, hdd, _, hq⟩ := hfacts d hd
    simp only [hdd, Option.map_some, Option.some.injEq] at hsite
    subst hsite
    exact ⟨vars, d.pos, hvars, hq⟩

/-- every variable usage in the scope of an operation refers to a variable the operation defines, and is allowed -/
theorem opVarUses_ok {S : Schema} {D : Doc} (hS : SchemaValid S) (h : checkOp S D = [])
    {o : OperationDef} (ho : o ∈ opsOf D) :
    ∀ u ∈ opVarUses S D o, ∃ vd, o.vars.find? (·.name == u.name) = some vd ∧ usageAllowed vd u = true := by
  intro u hu
  simp only [opVarUses, List.mem_flatMap] at hu
  obtain ⟨tv, htv, hu⟩ := hu
  obtain ⟨site, hs, htv'⟩ := typedValuesOf_mem htv
  obtain ⟨vars, pos, hvars, hq⟩ := op_argSites_checked hS h ho site hs
  obtain ⟨_, huses⟩ := typedValues_of_site admissible_none (schemaValid_uniqueArgs hS) hq tv htv'
  obtain ⟨vd, hvd, hal⟩ := huses rfl u hu
  rcases hvars with rfl | rfl
  · exact ⟨vd, hvd, hal⟩
  · simp [varDef?] at hvd

end NitroVerif.CheckOp
