import NitroVerif.Lemmas.CheckOpCompleteApply
/-!
Completeness of the reference validator's closure computations (C04): `Valid.closure next fuel acc` is closed under
`next` as soon as the fuel exceeds the number of elements of a universe `U` (containing everything `next` can
produce) that are not yet in `acc` — every round that does not already have a closed set adds an element of `U`.
Hence `reachable` / `reachableFlat` contain the start set and are closed under "spreads of a reached fragment".
-/
namespace NitroVerif.CheckOp
open NitroVerif.Gql NitroVerif.CheckCommon NitroVerif.Valid

/-- the number of elements of the universe `U` that are not in `acc` -/
def unseenIn (U acc : List Name) : Nat := (U.filter fun x => !acc.contains x).length

theorem unseenIn_le (U acc : List Name) : unseenIn U acc ≤ U.length := List.length_filter_le _ _

/-- a bigger set leaves fewer unseen elements; strictly fewer when it has a new element of the universe -/
theorem unseenIn_lt {U acc acc' : List Name} (hsub : ∀ x ∈ acc, x ∈ acc') {y : Name} (hyU : y ∈ U)
    (hy : y ∉ acc) (hy' : y ∈ acc') : unseenIn U acc' < unseenIn U acc := by
  unfold unseenIn
  apply filter_length_strict
  · intro x hx
    simp only [Bool.not_eq_true', List.contains_eq_mem, decide_eq_false_iff_not] at hx ⊢
    exact fun h => hx (hsub x h)
  · exact ⟨y, hyU, by simpa using hy, by simpa using hy'⟩

theorem mem_dedup_iff {x : Name} {xs : List Name} : x ∈ Valid.dedup xs ↔ x ∈ xs :=
  ⟨mem_dedup, fun h => mem_foldl_dedup_of xs [] (Or.inr h)⟩

theorem mem_dedupNames_iff {x : Name} {xs : List Name} : x ∈ dedupNames xs ↔ x ∈ xs :=
  ⟨mem_dedupNames, fun h => mem_foldl_dedup_of xs [] (Or.inr h)⟩

def ClosedUnder (next : Name → List Name) (acc : List Name) : Prop := ∀ x ∈ acc, ∀ y ∈ next x, y ∈ acc

theorem mem_closureStep {next : Name → List Name} {acc : List Name} {x : Name} :
    x ∈ Valid.dedup (acc ++ acc.flatMap next) ↔ x ∈ acc ∨ ∃ a ∈ acc, x ∈ next a := by
  rw [mem_dedup_iff, List.mem_append, List.mem_flatMap]

/-- a closed set is a fixed point (as a set) of the closure iteration -/
theorem closure_of_closed (next : Name → List Name) : ∀ (fuel : Nat) (acc : List Name), ClosedUnder next acc →
    ∀ x, x ∈ Valid.closure next fuel acc ↔ x ∈ acc := by
  intro fuel
  induction fuel with
  | zero => intro acc _ x; rfl
  | succ fuel ih =>
    intro acc hcl x
    have hsame : ∀ z, z ∈ Valid.dedup (acc ++ acc.flatMap next) ↔ z ∈ acc := by
      intro z
      rw [mem_closureStep]
      constructor
      · rintro (h | ⟨a, ha, h⟩)
        · exact h
        · exact hcl a ha z h
      · exact Or.inl
    have hcl' : ClosedUnder next (Valid.dedup (acc ++ acc.flatMap next)) := by
      intro a ha y hy
      exact (hsame y).mpr (hcl a ((hsame a).mp ha) y hy)
    simp only [Valid.closure]
    rw [ih _ hcl', hsame]

/-- **Closure lemma.** -/
theorem closure_closed (next : Name → List Name) (U : List Name) (hU : ∀ x y, y ∈ next x → y ∈ U) :
    ∀ (fuel : Nat) (acc : List Name), unseenIn U acc < fuel →
      (∀ x ∈ acc, x ∈ Valid.closure next fuel acc) ∧ ClosedUnder next (Valid.closure next fuel acc) := by
  intro fuel
  induction fuel with
  | zero => intro acc h; exact absurd h (Nat.not_lt_zero _)
  | succ fuel ih =>
    intro acc hlt
    simp only [Valid.closure]
    have hsub : ∀ x ∈ acc, x ∈ Valid.dedup (acc ++ acc.flatMap next) := fun x hx => mem_closureStep.mpr (Or.inl hx)
    by_cases hcl : ClosedUnder next acc
    · have hsame : ∀ z, z ∈ Valid.dedup (acc ++ acc.flatMap next) ↔ z ∈ acc := by
        intro z
        rw [mem_closureStep]
        constructor
        · rintro (h | ⟨a, ha, h⟩)
          · exact h
          · exact hcl a ha z h
        · exact Or.inl
      have hcl' : ClosedUnder next (Valid.dedup (acc ++ acc.flatMap next)) := by
        intro a ha y hy
        exact (hsame y).mpr (hcl a ((hsame a).mp ha) y hy)
      have hmem := closure_of_closed next fuel _ hcl'
      refine ⟨fun x hx => (hmem x).mpr (hsub x hx), ?_⟩
      intro a ha y hy
      exact (hmem y).mpr (hcl' a ((hmem a).mp ha) y hy)
    · unfold ClosedUnder at hcl
      obtain ⟨x, hx⟩ := Classical.not_forall.mp hcl
      obtain ⟨hxa, hx⟩ := Classical.not_imp.mp hx
      obtain ⟨y, hy⟩ := Classical.not_forall.mp hx
      obtain ⟨hyn, hya⟩ := Classical.not_imp.mp hy
      have hlt' : unseenIn U (Valid.dedup (acc ++ acc.flatMap next)) < unseenIn U acc :=
        unseenIn_lt hsub (hU x y hyn) hya (mem_closureStep.mpr (Or.inr ⟨x, hxa, hyn⟩))
      obtain ⟨h1, h2⟩ := ih (Valid.dedup (acc ++ acc.flatMap next)) (by omega)
      exact ⟨fun z hz => h1 z (hsub z hz), h2⟩

/-! ### the two instances -/

/-- every spread inside a fragment definition names a fragment the document defines -/
def SpreadsDefined (D : Doc) : Prop := ∀ f ∈ fragsOf D, ∀ n ∈ spreadNames f.sel, n ∈ fragNamesOf D

theorem spreadsFlat_sub (n : Name) : ∀ (k : Nat) (ss : List Selection), Selection.sizeList ss ≤ k →
    n ∈ spreadsFlat ss → n ∈ spreadNames ss := by
  intro k
  induction k with
  | zero =>
    intro ss hsz hn
    cases ss with
    | nil => simp [spreadsFlat] at hn
    | cons s ss => have := Selection.one_le_size s; simp [Selection.sizeList] at hsz; omega
  | succ k ih =>
    intro ss
    induction ss with
    | nil => intro _ hn; simp [spreadsFlat] at hn
    | cons s ss ihs =>
      intro hsz hn
      have hs1 := Selection.one_le_size s
      simp only [Selection.sizeList] at hsz
      simp only [spreadsFlat, List.mem_append] at hn
      rw [spreadNames_cons, List.mem_append]
      rcases hn with hn | hn
      · left
        cases s with
        | field => simp [spreadsFlatSel] at hn
        | spread name namePos dirs pos => simpa [spreadsFlatSel, spreadNamesSel] using hn
        | inline cond dirs ss' pos =>
          have hss : Selection.sizeList ss' ≤ k := by simp [Selection.size] at hsz; omega
          simp only [spreadsFlatSel] at hn
          simp only [spreadNamesSel]
          exact ih ss' hss hn
      · exact Or.inr (ihs (by omega) hn)

theorem frag?_mem_frags {D : Doc} {n : Name} {f : FragmentDef} (h : Valid.frag? D n = some f) : f ∈ fragsOf D := by
  unfold Valid.frag? at h
  rw [frags_eq] at h
  exact List.mem_of_find?_eq_some h

section
variable {D : Doc} (hnd : nodupB (fragNamesOf D) = true) (hSD : SpreadsDefined D)
include hnd hSD

theorem reachable_facts (ss : List Selection) :
    (∀ n ∈ spreadNames ss, n ∈ Valid.reachable D ss) ∧
    (∀ m g n, m ∈ Valid.reachable D ss → fragMap D m = some g → n ∈ spreadNames g.sel → n ∈ Valid.reachable D ss) := by
  have hU : ∀ x y, y ∈ (fun n => match Valid.frag? D n with | some f => Valid.spreadsDeep f.sel | none => []) x →
      y ∈ fragNamesOf D := by
    intro x y hy
    simp only at hy
    cases hf : Valid.frag? D x with
    | none => simp [hf] at hy
    | some f =>
      simp only [hf, spreadsDeep_eq'] at hy
      exact hSD f (frag?_mem_frags hf) y hy
  obtain ⟨h1, h2⟩ := closure_closed _ (fragNamesOf D) hU (Valid.reachFuel D) (Valid.dedup (Valid.spreadsDeep ss)) (by
    have := unseenIn_le (fragNamesOf D) (Valid.dedup (Valid.spreadsDeep ss))
    have hlen : (fragNamesOf D).length = (fragsOf D).length := by simp [fragNamesOf]
    simp only [Valid.reachFuel, frags_eq]
    omega)
  refine ⟨?_, ?_⟩
  · intro n hn
    exact h1 n (mem_dedup_iff.mpr (by rw [spreadsDeep_eq']; exact hn))
  · intro m g n hm hg hn
    refine h2 m hm n ?_
    simp only [frag?_eq_fragMap hnd, hg, spreadsDeep_eq']
    exact hn

theorem reachableFlat_facts (ss : List Selection) :
    (∀ n ∈ spreadsFlat ss, n ∈ Valid.reachableFlat D ss) ∧
    (∀ m g n, m ∈ Valid.reachableFlat D ss → fragMap D m = some g → n ∈ spreadsFlat g.sel → n ∈ Valid.reachableFlat D ss) := by
  have hU : ∀ x y, y ∈ (fun n => match Valid.frag? D n with | some f => spreadsFlat f.sel | none => []) x →
      y ∈ fragNamesOf D := by
    intro x y hy
    simp only at hy
    cases hf : Valid.frag? D x with
    | none => simp [hf] at hy
    | some f =>
      simp only [hf] at hy
      exact hSD f (frag?_mem_frags hf) y (spreadsFlat_sub y _ _ (Nat.le_refl _) hy)
  obtain ⟨h1, h2⟩ := closure_closed _ (fragNamesOf D) hU (Valid.reachFuel D) (Valid.dedup (spreadsFlat ss)) (by
    have := unseenIn_le (fragNamesOf D) (Valid.dedup (spreadsFlat ss))
    have hlen : (fragNamesOf D).length = (fragsOf D).length := by simp [fragNamesOf]
    simp only [Valid.reachFuel, frags_eq]
    omega)
  refine ⟨?_, ?_⟩
  · intro n hn
    exact h1 n (mem_dedup_iff.mpr hn)
  · intro m g n hm hg hn
    refine h2 m hm n ?_
    simp only [frag?_eq_fragMap hnd, hg]
    exact hn
end

end NitroVerif.CheckOp
