/-
C01/C02, second stage, fuels (part 4): the nesting bound of a document without fragment cycles is at most its size.

`fitsS F R s` for SOME `R` (what a quiet operation check yields) implies `fitsS F (sdS s + pool …) s`: along every path
through the expanded selection, the selections are distinct selections of the document — within one definition the path
descends syntactically (`sdS`), and it never re-enters a fragment (`acyclic`), so every fragment body contributes its
height at most once (`pool`).  Hence every definition fits `docSize D`, and a validity verdict `selOkB` obtained at any
bound holds at every bound the selection fits.
-/
import NitroVerif.Lemmas.OpTypesClosedBoolVars
namespace NitroVerif.OpTypes.Closed
open NitroVerif.Gql NitroVerif.OpTypes NitroVerif.OpTypes.Ref

mutual
/-- syntactic height of a selection (a spread counts one) -/
def sdS : Selection → Nat
  | .field _ _ _ _ _ none => 1
  | .field _ _ _ _ _ (some ss) => 1 + sdL ss
  | .spread .. => 1
  | .inline _ _ ss _ => 1 + sdL ss
def sdL : List Selection → Nat
  | [] => 0
  | s :: r => max (sdS s) (sdL r)
end

theorem sdS_le_sdL {s : Selection} : ∀ {L : List Selection}, s ∈ L → sdS s ≤ sdL L
  | [], h => by cases h
  | x :: L, h => by
    simp only [sdL]
    rcases List.mem_cons.1 h with rfl | h
    · omega
    · have := sdS_le_sdL h; omega

mutual
theorem sdS_le : ∀ (s : Selection), sdS s ≤ selSize s
  | .field _ _ _ _ _ none => by simp [sdS, selSize]
  | .field _ _ _ _ _ (some ss) => by have := sdL_le ss; simp only [sdS, selSize]; omega
  | .spread .. => by simp [sdS, selSize]
  | .inline _ _ ss _ => by have := sdL_le ss; simp only [sdS, selSize]; omega
theorem sdL_le : ∀ (L : List Selection), sdL L ≤ selSizeList L
  | [] => by simp [sdL, selSizeList]
  | s :: r => by have := sdS_le s; have := sdL_le r; simp only [sdL, selSizeList]; omega
end

/-- weight of a fragment body in the pool: its height, plus one for the spread that enters it -/
def heightW (f : FragmentDef) : Nat := sdL f.sel + 1

theorem heightW_le (f : FragmentDef) : heightW f ≤ selSizeList f.sel + 1 := by
  have := sdL_le f.sel; unfold heightW; omega

theorem rch_single {F : FragMap} {s : Selection} {L : List Selection} (hs : s ∈ L) {n : Name} (h : Rch F [s] n) :
    Rch F L n :=
  rch_mono (fun x hx => by simp only [List.mem_singleton] at hx; subst hx; exact hs) h

/-- **a selection that fits some bound fits its own height plus the heights of the fragment bodies it may still enter** -/
theorem fits_explicit (D : Doc) : ∀ (R : Nat) (s : Selection) (excl : Name → Bool),
    fitsS (OpTypes.fragsOf D) R s = true → (∀ nm, excl nm = true → ¬ Rch (OpTypes.fragsOf D) [s] nm) →
    fitsS (OpTypes.fragsOf D) (sdS s + pool heightW D excl) s = true
  | 0, _, _, h, _ => by simp [fitsS] at h
  | R' + 1, s, excl, h, hav => by
    have members : ∀ (ss : List Selection), (∀ s' ∈ ss, fitsS (OpTypes.fragsOf D) R' s' = true) →
        (∀ s' ∈ ss, ∀ nm, excl nm = true → ¬ Rch (OpTypes.fragsOf D) [s'] nm) →
        ss.all (fitsS (OpTypes.fragsOf D) (sdL ss + pool heightW D excl)) = true := by
      intro ss hfit hav'
      rw [List.all_eq_true]
      intro s' hs'
      have := fits_explicit D R' s' excl (hfit s' hs') (hav' s' hs')
      exact fitsS_le (by have := sdS_le_sdL hs'; omega) this
    cases s with
    | field a nme p args ds sub =>
      cases sub with
      | none =>
        rw [show sdS (.field a nme p args ds none) + pool heightW D excl = pool heightW D excl + 1 by
          simp only [sdS]; omega]
        simp [fitsS]
      | some ss =>
        simp only [fitsS] at h
        rw [show sdS (.field a nme p args ds (some ss)) + pool heightW D excl = (sdL ss + pool heightW D excl) + 1 by
          simp only [sdS]; omega]
        simp only [fitsS]
        exact members ss (fun s' hs' => List.all_eq_true.1 h s' hs')
          (fun s' hs' nm hx hr => hav nm hx (.field List.mem_cons_self (rch_single hs' hr)))
    | inline c ds ss p =>
      simp only [fitsS] at h
      rw [show sdS (.inline c ds ss p) + pool heightW D excl = (sdL ss + pool heightW D excl) + 1 by
        simp only [sdS]; omega]
      simp only [fitsS]
      exact members ss (fun s' hs' => List.all_eq_true.1 h s' hs')
        (fun s' hs' nm hx hr => hav nm hx (.inline List.mem_cons_self (rch_single hs' hr)))
    | spread m np ds p =>
      simp only [fitsS] at h
      cases hF : OpTypes.fragsOf D m with
      | none => simp [hF] at h
      | some f =>
        simp only [hF] at h
        obtain ⟨hfD, hfn⟩ := fragsOf_mem hF
        have hfit' : ∀ s' ∈ f.sel, fitsS (OpTypes.fragsOf D) R' s' = true := fun s' hs' => List.all_eq_true.1 h s' hs'
        have hexm : excl f.name = false := by
          cases hx : excl f.name with
          | false => rfl
          | true => rw [hfn] at hx; exact absurd (Rch.here List.mem_cons_self) (hav m hx)
        have hpool := pool_exclude (g := heightW) (excl := excl) (excl' := fun n => excl n || n == f.name) (f := f)
          hexm (fun _ => rfl) hfD
        rw [show sdS (.spread m np ds p) + pool heightW D excl = pool heightW D excl + 1 by simp only [sdS]; omega]
        simp only [fitsS, hF]
        rw [List.all_eq_true]
        intro s' hs'
        have := fits_explicit D R' s' (fun n => excl n || n == f.name) (hfit' s' hs') (by
          intro nm hx hr
          simp only [Bool.or_eq_true, beq_iff_eq] at hx
          rcases hx with hx | rfl
          · exact hav nm hx (.spread List.mem_cons_self hF (rch_single hs' hr))
          · exact acyclic (by rw [hfn]; exact hF) R' hfit' (rch_single hs' hr))
        refine fitsS_le ?_ this
        have h1 := sdS_le_sdL hs'
        have hb : heightW f = sdL f.sel + 1 := rfl
        omega

/-- **every definition of a document without fragment cycles fits the size of the document** -/
theorem fitsDoc_docSize {D : Doc} {R : Nat} (hfit : FitsDoc D R) (hself : FragsSelf D) : FitsDoc D (docSize D) := by
  intro x hx s hs
  rw [docSize_eq]
  cases x with
  | imp i => cases hs
  | op o =>
    have h1 := fits_explicit D R s (fun _ => false) (hfit _ hx s hs) (fun _ h => by cases h)
    have h2 := pool_add_le_tot heightW_le (fun _ => false) (x := .op o) trivial hx
    have h3 : sdS s ≤ selSizeList o.sel := Nat.le_trans (sdS_le_sdL hs) (sdL_le _)
    have e : dsz (.op o) = selSizeList o.sel + 1 := rfl
    exact fitsS_le (by omega) h1
  | frag f =>
    have h1 := fits_explicit D R s (fun m => m == f.name) (hfit _ hx s hs) (by
      intro nm hnm hr
      have : nm = f.name := by simpa using hnm
      subst this
      exact acyclic (hself f hx) R (hfit _ hx) (rch_single hs hr))
    have h2 := pool_add_le_tot heightW_le (fun m => m == f.name) (x := .frag f) (by simp) hx
    have h3 : sdS s ≤ selSizeList f.sel := Nat.le_trans (sdS_le_sdL hs) (sdL_le _)
    have e : dsz (.frag f) = selSizeList f.sel + 1 := rfl
    exact fitsS_le (by omega) h1

/-! ### a validity verdict does not depend on the bound it was obtained at -/

theorem selOkB_down {S : Schema} {F : FragMap} : ∀ (D' Dp : Nat) (o : Name) (s : Selection),
    selOkB S F Dp o s = true → fitsS F D' s = true → selOkB S F D' o s = true
  | 0, _, _, _, _, h => by simp [fitsS] at h
  | _ + 1, 0, _, _, h, _ => by simp [selOkB] at h
  | D' + 1, Dp + 1, o, s, h, hf => by
    have hl : ∀ (o' : Name) (ss : List Selection), ss.all (selOkB S F Dp o') = true → ss.all (fitsS F D') = true →
        ss.all (selOkB S F D' o') = true := by
      intro o' ss h1 h2
      rw [List.all_eq_true] at h1 h2 ⊢
      exact fun x hx => selOkB_down D' Dp o' x (h1 x hx) (h2 x hx)
    cases s with
    | field a n p args ds sub =>
      simp only [selOkB, Bool.and_eq_true, Bool.or_eq_true] at h ⊢
      refine ⟨h.1, ?_⟩
      rcases h.2 with h2 | h2
      · exact Or.inl h2
      · right
        cases hfd : S.field? o n with
        | none => simp [hfd] at h2
        | some fd =>
          simp only [hfd] at h2 ⊢
          cases sub with
          | none => rfl
          | some ss' =>
            simp only [fitsS] at hf
            simp only [Bool.and_eq_true, List.all_eq_true] at h2 ⊢
            exact ⟨h2.1, fun o' ho' => List.all_eq_true.mp (hl o' ss' (List.all_eq_true.mpr (h2.2 o' ho')) hf)⟩
    | spread nm np ds p =>
      simp only [selOkB, Bool.and_eq_true] at h ⊢
      refine ⟨h.1, ?_⟩
      cases hF : F nm with
      | none => simp [hF] at h
      | some fd =>
        simp only [fitsS, hF] at hf
        simp only [hF, Bool.and_eq_true, Bool.or_eq_true] at h ⊢
        refine ⟨h.2.1, ?_⟩
        rcases h.2.2 with h3 | h3
        · exact Or.inl h3
        · exact Or.inr (hl o fd.sel h3 hf)
    | inline cond ds ss' p =>
      simp only [fitsS] at hf
      simp only [selOkB, Bool.and_eq_true, Bool.or_eq_true] at h ⊢
      refine ⟨h.1, ?_⟩
      rcases h.2 with h3 | h3
      · exact Or.inl h3
      · exact Or.inr (hl o ss' h3 hf)

end NitroVerif.OpTypes.Closed
