/-
Where the declarations of the generated schema declaration file (`Model/SchemaDecls.lean`) sit in its declaration
table: the alias of a schema type printed in the namespace of target `t` is THE declaration that the type's local
name resolves to inside that namespace.
-/
import NitroVerif.Model.SchemaDecls
import NitroVerif.Lemmas.DeclsResolve
namespace NitroVerif.SchemaDecls
open NitroVerif.Gql NitroVerif.Ts NitroVerif.DeclCfg

theorem declsList_append (sc : Scope) (a b : List Stmt) :
    Stmt.declsList sc (a ++ b) = Stmt.declsList sc a ++ Stmt.declsList sc b := by
  induction a with
  | nil => simp [Stmt.declsList]
  | cons s r ih => simp [Stmt.declsList, ih]

theorem decls_exportType (sc : Scope) (sn ln : String) (ty : Ty) :
    Stmt.declsList sc (exportType sn ln ty) = [⟨sc, ln, sn == ln, [], ty⟩] := by
  unfold exportType
  split <;> rename_i h <;> simp [Stmt.declsList, Stmt.decls, h]

theorem decls_descStmts (sc : Scope) (d : Option String) : Stmt.declsList sc (descStmts d) = [] := by
  cases d <;> simp [descStmts, Stmt.declsList, Stmt.decls]

/-- the declarations one `print_type` contributes: none, or the alias under the type's local name -/
theorem decls_printType (x : Ctx) (sc : Scope) (td : TypeDef) (ss : List Stmt) (h : printType x td = .ok ss) :
    (body x td = .ok none ∧ Stmt.declsList sc ss = []) ∨
    (∃ ty, body x td = .ok (some ty) ∧
      Stmt.declsList sc ss = [⟨sc, x.local td.name, td.name == x.local td.name, [], ty⟩]) := by
  unfold printType at h
  split at h
  · cases h
  · rename_i hb; cases h; exact Or.inl ⟨hb, rfl⟩
  · rename_i ty hb; cases h
    exact Or.inr ⟨ty, hb, by rw [declsList_append, decls_descStmts, decls_exportType]; rfl⟩

/-- the test `findLocal` performs -/
def isDecl (sc : Scope) (n : String) (d : Decl) : Bool := d.scope == sc && d.name == n

theorem find_namespaceBody (x : Ctx) (sc : Scope) (td : TypeDef) (ty : Ty) (hb : body x td = .ok (some ty)) :
    ∀ (tds : List TypeDef) (ss : List Stmt), namespaceBody x tds = .ok ss → td ∈ tds →
      (∀ a ∈ tds, x.local a.name = x.local td.name → a = td) →
      (Stmt.declsList sc ss).find? (isDecl sc (x.local td.name))
        = some ⟨sc, x.local td.name, td.name == x.local td.name, [], ty⟩ := by
  intro tds
  induction tds with
  | nil => intro ss _ hm; cases hm
  | cons a rest ih =>
    intro ss h hm hinj
    simp only [namespaceBody] at h
    split at h
    · cases h
    · rename_i s1 h1
      split at h
      · cases h
      · rename_i r hr
        cases h
        rw [declsList_append, List.find?_append]
        by_cases hat : a = td
        · subst hat
          rcases decls_printType x sc a s1 h1 with ⟨hn, _⟩ | ⟨ty', hb', hd⟩
          · rw [hb] at hn; cases hn
          · rw [hb] at hb'; cases hb'
            rw [hd]; simp [isDecl]
        · have hne : x.local a.name ≠ x.local td.name := fun e => hat (hinj a List.mem_cons_self e)
          have hm' : td ∈ rest := by
            rcases List.mem_cons.1 hm with e | e
            · exact absurd e.symm hat
            · exact e
          have h1' : (Stmt.declsList sc s1).find? (isDecl sc (x.local td.name)) = none := by
            rcases decls_printType x sc a s1 h1 with ⟨_, hd⟩ | ⟨ty', _, hd⟩
            · rw [hd]; rfl
            · rw [hd]; simp [isDecl, hne]
          rw [h1', Option.none_or]
          exact ih r hr hm' (fun b hb' => hinj b (List.mem_cons_of_mem _ hb'))

theorem scope_namespaceBody (x : Ctx) (sc : Scope) : ∀ (tds : List TypeDef) (ss : List Stmt),
    namespaceBody x tds = .ok ss → ∀ d ∈ Stmt.declsList sc ss, d.scope = sc := by
  intro tds
  induction tds with
  | nil => intro ss h d hd; simp [namespaceBody] at h; subst h; simp [Stmt.declsList] at hd
  | cons a rest ih =>
    intro ss h d hd
    simp only [namespaceBody] at h
    split at h
    · cases h
    · rename_i s1 h1
      split at h
      · cases h
      · rename_i r hr
        cases h
        rw [declsList_append, List.mem_append] at hd
        rcases hd with hd | hd
        · rcases decls_printType x sc a s1 h1 with ⟨_, e⟩ | ⟨ty', _, e⟩
          · rw [e] at hd; cases hd
          · rw [e] at hd; simp at hd; subst hd; rfl
        · exact ih r hr d hd

theorem Target.name_inj (a b : Target) (h : a.name = b.name) : a = b := by
  cases a <;> cases b <;> first | rfl | (exact absurd h (by decide))

theorem find_namespaces (c : Cfg) (doc : TsDoc) (t : Target) (td : TypeDef) (ty : Ty)
    (hb : body (Ctx.new c doc t) td = .ok (some ty)) (hm : td ∈ typeDefsOf doc)
    (hinj : ∀ a ∈ typeDefsOf doc, (Ctx.new c doc t).local a.name = (Ctx.new c doc t).local td.name → a = td) :
    ∀ (ts : List Target) (ss : List Stmt), namespaces c doc ts = .ok ss → t ∈ ts →
      (Stmt.declsList [] ss).find? (isDecl [t.name] ((Ctx.new c doc t).local td.name))
        = some ⟨[t.name], (Ctx.new c doc t).local td.name, td.name == (Ctx.new c doc t).local td.name, [], ty⟩ := by
  intro ts
  induction ts with
  | nil => intro ss _ h; cases h
  | cons t0 rest ih =>
    intro ss h hmem
    simp only [namespaces] at h
    split at h
    · cases h
    · rename_i body0 hb0
      split at h
      · cases h
      · rename_i r hr
        cases h
        simp only [Stmt.declsList, Stmt.decls, List.nil_append, List.find?_append]
        by_cases ht : t0 = t
        · subst ht
          rw [find_namespaceBody _ [t0.name] td ty hb _ _ hb0 hm hinj]; rfl
        · have hskip : (Stmt.declsList [t0.name] body0).find? (isDecl [t.name] ((Ctx.new c doc t).local td.name)) = none := by
            apply List.find?_eq_none.2
            intro d hd
            have := scope_namespaceBody _ [t0.name] _ _ hb0 d hd
            simp only [isDecl, this, Bool.and_eq_true, beq_iff_eq, not_and]
            intro e
            exact absurd (Target.name_inj _ _ (by simpa using e)) ht
          rw [hskip, Option.none_or]
          apply ih r hr
          rcases List.mem_cons.1 hmem with e | e
          · exact absurd e.symm ht
          · exact e

end NitroVerif.SchemaDecls
