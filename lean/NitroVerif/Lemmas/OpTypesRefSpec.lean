/-
C01/C02 refinement, specification side, part 2: the one-level check `setOkB` of Spec/Exec.lean at the level of
propositions (`CompP`, `FieldOkP`, `SetOkP`; `setOk_iff`), monotonicity of `RefLocalN` in the depth index.
-/
import NitroVerif.Lemmas.OpTypesRefFlat
namespace NitroVerif.OpTypes.Ref
open NitroVerif.Gql NitroVerif.Ts NitroVerif.Exec

theorem J.isNull_iff (v : J) : v.isNull = true ↔ v = .null := by cases v <;> simp [J.isNull]
theorem J.isAbsent_iff (v : J) : v.isAbsent = true ↔ v = .absent := by cases v <;> simp [J.isAbsent]
theorem J.beq_str_iff (v : J) (s : String) : (v == J.str s) = true ↔ v = .str s := by
  cases v <;> simp [BEq.beq, J.beq]

/-- CompleteValue for a named type, with a propositional test for nested objects -/
def NamedP (c : Ctx) (R : Name → List Selection → J → Prop) (sub : List Selection) (n : Name) (v : J) : Prop :=
  if c.S.isComposite n = true then ∃ o ∈ c.S.possibleTypes n, R o sub v else leafOk c n v = true

/-- CompleteValue; `nn` = "the position is non-null" -/
def CompP (c : Ctx) (R : Name → List Selection → J → Prop) (sub : List Selection) : GType → Bool → J → Prop
  | .nonNull t, _, v => CompP c R sub t true v
  | .named n _, nn, v => if nn = true then v ≠ .null ∧ NamedP c R sub n v else v = .null ∨ NamedP c R sub n v
  | .list t _, nn, v => (nn = false ∧ v = .null) ∨ ∃ xs, v = .arr xs ∧ ∀ x ∈ xs, CompP c R sub t false x

theorem namedP_mono {c : Ctx} {R R' : Name → List Selection → J → Prop} (hR : ∀ o s x, R o s x → R' o s x)
    {sub : List Selection} {n : Name} {v : J} (h : NamedP c R sub n v) : NamedP c R' sub n v := by
  unfold NamedP at h ⊢
  split
  · rename_i hc; rw [if_pos hc] at h
    obtain ⟨o, ho, hr⟩ := h; exact ⟨o, ho, hR _ _ _ hr⟩
  · rename_i hc; rw [if_neg hc] at h; exact h

theorem compP_mono {c : Ctx} {R R' : Name → List Selection → J → Prop} (hR : ∀ o s x, R o s x → R' o s x)
    {sub : List Selection} : ∀ (ty : GType) (nn : Bool) (v : J), CompP c R sub ty nn v → CompP c R' sub ty nn v
  | .nonNull t, _, v, h => by simp only [CompP] at h ⊢; exact compP_mono hR t true v h
  | .named n _, nn, v, h => by
    simp only [CompP] at h ⊢
    split
    · rename_i hn; rw [if_pos hn] at h; exact ⟨h.1, namedP_mono hR h.2⟩
    · rename_i hn; rw [if_neg hn] at h; exact h.imp id (namedP_mono hR)
  | .list t _, nn, v, h => by
    simp only [CompP] at h ⊢
    rcases h with h | ⟨xs, rfl, hx⟩
    · exact Or.inl h
    · exact Or.inr ⟨xs, rfl, fun x hxm => compP_mono hR t false x (hx x hxm)⟩

theorem namedOk_iff (c : Ctx) (Rb : Name → List Selection → J → Bool) (sub : List Selection) (n : Name) (v : J) :
    namedOk c Rb sub n v = true ↔ NamedP c (fun o s x => Rb o s x = true) sub n v := by
  unfold namedOk NamedP
  split <;> simp [List.any_eq_true]

theorem completeB_iff (c : Ctx) (Rb : Name → List Selection → J → Bool) (sub : List Selection) (ty : GType) :
    (∀ v, completeB c Rb sub ty v = true ↔ CompP c (fun o s x => Rb o s x = true) sub ty false v) ∧
    (∀ v, (!v.isNull && completeNN c Rb sub ty v) = true ↔ CompP c (fun o s x => Rb o s x = true) sub ty true v) := by
  induction ty with
  | named n p =>
    constructor
    · intro v
      simp only [completeB, CompP, Bool.or_eq_true, J.isNull_iff, namedOk_iff, Bool.false_eq_true, ↓reduceIte]
    · intro v
      simp only [completeNN, CompP, Bool.and_eq_true, Bool.not_eq_true', namedOk_iff, ↓reduceIte]
      have : v.isNull = false ↔ v ≠ .null := by cases v <;> simp [J.isNull]
      rw [this]
  | list t p ih =>
    have hall : ∀ xs : List J, xs.all (completeB c Rb sub t) = true ↔
        ∀ x ∈ xs, CompP c (fun o s x => Rb o s x = true) sub t false x := by
      intro xs; simp only [List.all_eq_true]
      exact ⟨fun h x hx => (ih.1 x).1 (h x hx), fun h x hx => (ih.1 x).2 (h x hx)⟩
    constructor
    · intro v
      simp only [completeB, CompP, Bool.or_eq_true, J.isNull_iff, true_and]
      constructor
      · rintro (h | h)
        · exact Or.inl h
        · cases v with
          | arr xs => exact Or.inr ⟨xs, rfl, (hall xs).1 (by simpa using h)⟩
          | _ => simp at h
      · rintro (h | ⟨xs, rfl, h⟩)
        · exact Or.inl h
        · exact Or.inr (by simpa using (hall xs).2 h)
    · intro v
      simp only [completeNN, CompP, Bool.true_eq_false, false_and, false_or, Bool.and_eq_true, Bool.not_eq_true']
      constructor
      · rintro ⟨_, h⟩
        cases v with
        | arr xs => exact ⟨xs, rfl, (hall xs).1 (by simpa using h)⟩
        | _ => simp at h
      · rintro ⟨xs, rfl, h⟩
        exact ⟨rfl, by simpa using (hall xs).2 h⟩
  | nonNull t ih =>
    constructor
    · intro v; simp only [completeB, CompP]; exact ih.2 v
    · intro v; simp only [completeNN, CompP]; exact ih.2 v

/-- ExecuteField for one response key -/
def FieldOkP (c : Ctx) (R : Name → List Selection → J → Prop) (obj : Name) (fs : List CField) (x : J) : Prop :=
  ∃ f rest, fs = f :: rest ∧
    if (f.name == "__typename") = true then x = .str obj
    else ∃ fd, c.S.field? obj f.name = some fd ∧ CompP c R (mergedSub fs) fd.ty false x

theorem fieldOk_iff (c : Ctx) (Rb : Name → List Selection → J → Bool) (obj : Name) (fs : List CField) (x : J) :
    fieldOk c Rb obj fs x = true ↔ FieldOkP c (fun o s x => Rb o s x = true) obj fs x := by
  cases fs with
  | nil => simp [fieldOk, FieldOkP]
  | cons f rest =>
    simp only [fieldOk, FieldOkP]
    constructor
    · intro h
      refine ⟨f, rest, rfl, ?_⟩
      split at h
      · rename_i ht; rw [if_pos ht]; exact (J.beq_str_iff _ _).1 h
      · rename_i ht; rw [if_neg ht]
        split at h
        · rename_i fd hfd; exact ⟨fd, hfd, ((completeB_iff c Rb _ fd.ty).1 x).1 h⟩
        · cases h
    · rintro ⟨f', rest', hf, h⟩
      cases hf
      split
      · rename_i ht; rw [if_pos ht] at h; exact (J.beq_str_iff _ _).2 h
      · rename_i ht; rw [if_neg ht] at h
        obtain ⟨fd, hfd, hc⟩ := h
        simp only [hfd]
        exact ((completeB_iff c Rb _ fd.ty).1 x).2 hc

theorem fieldOkP_mono {c : Ctx} {R R' : Name → List Selection → J → Prop} (hR : ∀ o s x, R o s x → R' o s x)
    {obj : Name} {fs : List CField} {x : J} (h : FieldOkP c R obj fs x) : FieldOkP c R' obj fs x := by
  obtain ⟨f, rest, hfs, h⟩ := h
  refine ⟨f, rest, hfs, ?_⟩
  split
  · rename_i ht; rw [if_pos ht] at h; exact h
  · rename_i ht; rw [if_neg ht] at h
    obtain ⟨fd, hfd, hc⟩ := h
    exact ⟨fd, hfd, compP_mono hR _ _ _ hc⟩

/-- ExecuteSelectionSet, one level -/
def SetOkP (c : Ctx) (R : Name → List Selection → J → Prop) (obj : Name) (g : Groups) (v : J) : Prop :=
  ∃ kvs, v = .obj kvs ∧ (∀ e ∈ g, FieldOkP c R obj e.2 (J.get kvs e.1)) ∧
    ∀ kv ∈ kvs, kv.2 = .absent ∨ ∃ e ∈ g, e.1 = kv.1

theorem setOkB_iff (c : Ctx) (Rb : Name → List Selection → J → Bool) (obj : Name) (g : Groups) (v : J) :
    setOkB c Rb obj g v = true ↔ SetOkP c (fun o s x => Rb o s x = true) obj g v := by
  cases v with
  | obj kvs =>
    simp only [setOkB, SetOkP, J.obj.injEq, exists_eq_left', Bool.and_eq_true, List.all_eq_true, Bool.or_eq_true,
      J.isAbsent_iff, List.any_eq_true, beq_iff_eq, fieldOk_iff]
  | _ => simp [setOkB, SetOkP]

theorem setOkP_mono {c : Ctx} {R R' : Name → List Selection → J → Prop} (hR : ∀ o s x, R o s x → R' o s x)
    {obj : Name} {g : Groups} {v : J} (h : SetOkP c R obj g v) : SetOkP c R' obj g v := by
  obtain ⟨kvs, hv, h1, h2⟩ := h
  exact ⟨kvs, hv, fun e he => fieldOkP_mono hR (h1 e he), h2⟩

theorem setOk_iff (c : Ctx) (R : Name → List Selection → J → Prop) (obj : Name) (g : Groups) (v : J) :
    SetOk c R obj g v ↔ SetOkP c R obj g v := by
  constructor
  · rintro ⟨Rb, hRb, hs⟩
    exact setOkP_mono hRb ((setOkB_iff c Rb obj g v).1 hs)
  · intro h
    classical
    refine ⟨fun o s x => decide (R o s x), fun o s x hx => by simpa using hx, ?_⟩
    rw [setOkB_iff]
    exact setOkP_mono (fun o s x hx => by simpa using hx) h

theorem refLocalN_succ_iff (c : Ctx) (n : Nat) (obj : Name) (ss : List Selection) (v : J) :
    RefLocalN c (n + 1) obj ss v ↔
      ∃ σ : Sigma, ∃ g, collectFields c σ obj ss = some g ∧ SetOkP c (RefLocalN c n) obj g v := by
  simp only [RefLocalN, setOk_iff]

theorem refLocalN_mono (c : Ctx) : ∀ (n m : Nat), n ≤ m → ∀ obj ss v, RefLocalN c n obj ss v → RefLocalN c m obj ss v
  | 0, _, _, _, _, _, h => by cases h
  | n + 1, 0, hnm, _, _, _, _ => by omega
  | n + 1, m + 1, hnm, obj, ss, v, h => by
    rw [refLocalN_succ_iff] at h ⊢
    obtain ⟨σ, g, hg, hs⟩ := h
    exact ⟨σ, g, hg, setOkP_mono (refLocalN_mono c n m (by omega)) hs⟩

/-- one level of `RefLocal`, unfolded -/
theorem refLocal_unfold {c : Ctx} {obj : Name} {ss : List Selection} {v : J} (h : RefLocal c obj ss v) :
    ∃ σ : Sigma, ∃ g, collectFields c σ obj ss = some g ∧ SetOkP c (RefLocal c) obj g v := by
  obtain ⟨n, hn⟩ := h
  cases n with
  | zero => cases hn
  | succ n =>
    rw [refLocalN_succ_iff] at hn
    obtain ⟨σ, g, hg, hs⟩ := hn
    exact ⟨σ, g, hg, setOkP_mono (fun o s x hx => ⟨n, hx⟩) hs⟩

end NitroVerif.OpTypes.Ref
