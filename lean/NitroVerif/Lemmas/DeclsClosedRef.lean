/-
The reference specification `Ref_t(T)` (`Spec/RefTypes.lean`, executable with fuel) read as propositions:
more fuel never hurts, and per kind `Ref` unfolds into the clause of the property statement with `Ref` itself at
the leaves (records through `RecordSpec`, wrappers through `Conf`). Used by the closed forms of C10 and C09.
-/
import NitroVerif.Spec.RefTypes
import NitroVerif.Lemmas.DeclsClosedMem
namespace NitroVerif.RefTypes
open NitroVerif.Gql NitroVerif.Ts NitroVerif.DeclCfg

/-! ### wrappers -/

theorem isNull_iff {v : J} : v.isNull = true ↔ v = .null := by cases v <;> simp [J.isNull]
theorem isAbsent_iff {v : J} : v.isAbsent = true ↔ v = .absent := by cases v <;> simp [J.isAbsent]

theorem confCore_sound {leaf : Name → J → Bool} {R : Name → J → Prop} (h : ∀ n x, leaf n x = true → R n x) :
    ∀ (ty : GType) (v : J), confCore leaf ty v = true → ConfCore R ty v := by
  intro ty
  induction ty with
  | named n p => intro v hv; exact h n v hv
  | nonNull t ih => intro v hv; exact ih v hv
  | list t p ih =>
    intro v hv
    cases v with
    | arr xs =>
      simp only [confCore, List.all_eq_true, Bool.or_eq_true, Bool.and_eq_true, Bool.not_eq_true'] at hv
      refine ⟨xs, rfl, fun x hx => ?_⟩
      rcases hv x hx with ⟨h1, h2⟩ | h2
      · exact Or.inl ⟨h1, isNull_iff.1 h2⟩
      · exact Or.inr (ih x h2)
    | _ => simp [confCore] at hv

theorem conf_sound {leaf : Name → J → Bool} {R : Name → J → Prop} (h : ∀ n x, leaf n x = true → R n x)
    (ty : GType) (v : J) (hv : conf leaf ty v = true) : Conf R ty v := by
  simp only [conf, Bool.or_eq_true, Bool.and_eq_true, Bool.not_eq_true'] at hv
  rcases hv with ⟨h1, h2⟩ | h2
  · exact Or.inl ⟨h1, isNull_iff.1 h2⟩
  · exact Or.inr (confCore_sound h ty v h2)

theorem confCore_mono {l1 l2 : Name → J → Bool} (h : ∀ n x, l1 n x = true → l2 n x = true) :
    ∀ (ty : GType) (v : J), confCore l1 ty v = true → confCore l2 ty v = true := by
  intro ty
  induction ty with
  | named n p => intro v hv; exact h n v hv
  | nonNull t ih => intro v hv; exact ih v hv
  | list t p ih =>
    intro v hv
    cases v with
    | arr xs =>
      simp only [confCore, List.all_eq_true, Bool.or_eq_true] at hv ⊢
      intro x hx
      rcases hv x hx with h1 | h2
      · exact Or.inl h1
      · exact Or.inr (ih x h2)
    | _ => simp [confCore] at hv

theorem conf_mono {l1 l2 : Name → J → Bool} (h : ∀ n x, l1 n x = true → l2 n x = true)
    (ty : GType) (v : J) (hv : conf l1 ty v = true) : conf l2 ty v = true := by
  simp only [conf, Bool.or_eq_true] at hv ⊢
  rcases hv with h1 | h2
  · exact Or.inl h1
  · exact Or.inr (confCore_mono h ty v h2)

/-- completeness of the executable wrapper test for a monotone family of leaf tests -/
theorem confCore_complete {leaf : Nat → Name → J → Bool}
    (mono : ∀ k n x, leaf k n x = true → leaf (k + 1) n x = true) :
    ∀ (ty : GType) (v : J), ConfCore (fun n x => ∃ k, leaf k n x = true) ty v →
      ∃ k, confCore (leaf k) ty v = true := by
  intro ty
  induction ty with
  | named n p => intro v hv; exact hv
  | nonNull t ih => intro v hv; exact ih v hv
  | list t p ih =>
    rintro v ⟨xs, rfl, hx⟩
    have : ∀ x ∈ xs, ∃ k, ((!t.isNonNull && x.isNull) || confCore (leaf k) t x) = true := by
      intro x hxs
      rcases hx x hxs with ⟨h1, rfl⟩ | h2
      · exact ⟨0, by simp [h1, J.isNull]⟩
      · obtain ⟨k, hk⟩ := ih x h2
        exact ⟨k, by simp [hk]⟩
    obtain ⟨k, hk⟩ := exists_common_fuel xs
      (fun x k => ((!t.isNonNull && x.isNull) || confCore (leaf k) t x) = true)
      (fun x k hk => by
        simp only [Bool.or_eq_true] at hk ⊢
        rcases hk with h1 | h2
        · exact Or.inl h1
        · exact Or.inr (confCore_mono (mono k) t x h2)) this
    exact ⟨k, by simpa [confCore, List.all_eq_true] using hk⟩

theorem conf_iff_exists {leaf : Nat → Name → J → Bool}
    (mono : ∀ k n x, leaf k n x = true → leaf (k + 1) n x = true) (ty : GType) (v : J) :
    (∃ k, conf (leaf k) ty v = true) ↔ Conf (fun n x => ∃ k, leaf k n x = true) ty v := by
  constructor
  · rintro ⟨k, hk⟩
    exact conf_sound (fun n x h => ⟨k, h⟩) ty v hk
  · rintro (⟨h1, rfl⟩ | h2)
    · exact ⟨0, by simp [conf, h1, J.isNull]⟩
    · obtain ⟨k, hk⟩ := confCore_complete mono ty v h2
      exact ⟨k, by simp [conf, hk]⟩

/-! ### records -/

theorem recordMem_iff (fields : List (String × Bool × (J → Bool))) (kvs : List (String × J)) :
    recordMem fields kvs = true ↔
      RecordSpec (fields.map fun f => (f.1, f.2.1, fun x => f.2.2 x = true)) kvs := by
  simp only [recordMem, RecordSpec, Bool.and_eq_true, List.all_eq_true, Bool.or_eq_true, List.any_eq_true,
    beq_iff_eq, List.mem_map, isAbsent_iff]
  constructor
  · rintro ⟨h1, h2⟩
    refine ⟨?_, ?_⟩
    · rintro f ⟨g, hg, rfl⟩; exact h1 g hg
    · intro kv hkv
      rcases h2 kv hkv with h | ⟨g, hg, hk⟩
      · exact Or.inl h
      · exact Or.inr ⟨_, ⟨g, hg, rfl⟩, hk⟩
  · rintro ⟨h1, h2⟩
    refine ⟨fun g hg => h1 _ ⟨g, hg, rfl⟩, ?_⟩
    intro kv hkv
    rcases h2 kv hkv with h | ⟨f, ⟨g, hg, rfl⟩, hk⟩
    · exact Or.inl h
    · exact Or.inr ⟨g, hg, hk⟩

/-- records whose field tests come from a monotone family: some fuel accepts the record iff the record satisfies
    the propositional reading with "some fuel accepts" at every field -/
theorem exists_recordMem_iff {α : Type} (l : List α) (key : α → String) (opt : α → Bool)
    (test : Nat → α → J → Bool) (mono : ∀ k a x, test k a x = true → test (k + 1) a x = true)
    (kvs : List (String × J)) :
    (∃ k, recordMem (l.map fun a => (key a, opt a, test k a)) kvs = true) ↔
      RecordSpec (l.map fun a => (key a, opt a, fun x => ∃ k, test k a x = true)) kvs := by
  constructor
  · rintro ⟨k, hk⟩
    rw [recordMem_iff] at hk
    obtain ⟨h1, h2⟩ := hk
    refine ⟨?_, ?_⟩
    · intro f hf
      obtain ⟨a, ha, rfl⟩ := List.mem_map.1 hf
      rcases h1 (key a, opt a, fun x => test k a x = true)
        (List.mem_map.2 ⟨_, List.mem_map.2 ⟨a, ha, rfl⟩, rfl⟩) with h | h
      · exact Or.inl h
      · exact Or.inr ⟨k, h⟩
    · intro kv hkv
      rcases h2 kv hkv with h | ⟨f, hf, hk'⟩
      · exact Or.inl h
      · obtain ⟨g, hg, rfl⟩ := List.mem_map.1 hf
        obtain ⟨a, ha, rfl⟩ := List.mem_map.1 hg
        exact Or.inr ⟨_, List.mem_map.2 ⟨a, ha, rfl⟩, hk'⟩
  · rintro ⟨h1, h2⟩
    have hex : ∀ a ∈ l, ∃ k, (opt a = true ∧ J.get kvs (key a) = .absent) ∨ test k a (J.get kvs (key a)) = true := by
      intro a ha
      rcases h1 _ (List.mem_map.2 ⟨a, ha, rfl⟩) with h | ⟨k, h⟩
      · exact ⟨0, Or.inl h⟩
      · exact ⟨k, Or.inr h⟩
    obtain ⟨k, hk⟩ := exists_common_fuel l
      (fun a k => (opt a = true ∧ J.get kvs (key a) = .absent) ∨ test k a (J.get kvs (key a)) = true)
      (fun a k h => by
        rcases h with h | h
        · exact Or.inl h
        · exact Or.inr (mono k a _ h)) hex
    refine ⟨k, (recordMem_iff _ _).2 ⟨?_, ?_⟩⟩
    · intro f hf
      obtain ⟨g, hg, rfl⟩ := List.mem_map.1 hf
      obtain ⟨a, ha, rfl⟩ := List.mem_map.1 hg
      exact hk a ha
    · intro kv hkv
      rcases h2 kv hkv with h | ⟨f, hf, hk'⟩
      · exact Or.inl h
      · obtain ⟨a, ha, rfl⟩ := List.mem_map.1 hf
        exact Or.inr ⟨_, List.mem_map.2 ⟨_, List.mem_map.2 ⟨a, ha, rfl⟩, rfl⟩, hk'⟩

theorem recordMem_map_mono {α : Type} (l : List α) (g1 g2 : α → String × Bool × (J → Bool))
    (hkey : ∀ a ∈ l, (g1 a).1 = (g2 a).1) (hopt : ∀ a ∈ l, (g1 a).2.1 = (g2 a).2.1)
    (h : ∀ a ∈ l, ∀ x, (g1 a).2.2 x = true → (g2 a).2.2 x = true) (kvs : List (String × J))
    (hm : recordMem (l.map g1) kvs = true) : recordMem (l.map g2) kvs = true := by
  simp only [recordMem, Bool.and_eq_true, List.all_eq_true, Bool.or_eq_true, List.any_eq_true, List.mem_map] at hm ⊢
  refine ⟨?_, ?_⟩
  · rintro f ⟨a, ha, rfl⟩
    rcases hm.1 _ ⟨a, ha, rfl⟩ with h1 | h1
    · left; rw [← hkey a ha, ← hopt a ha]; exact h1
    · right; rw [← hkey a ha]; exact h a ha _ h1
  · intro kv hkv
    rcases hm.2 kv hkv with h1 | ⟨f, ⟨a, ha, rfl⟩, hk⟩
    · exact Or.inl h1
    · exact Or.inr ⟨_, ⟨a, ha, rfl⟩, by rw [← hkey a ha]; exact hk⟩

/-- pointwise equivalent field sets give the same record set -/
theorem recordSpec_congr {α : Type} (l : List α) (key : α → String) (opt : α → Bool) (P Q : α → J → Prop)
    (h : ∀ a ∈ l, ∀ x, P a x ↔ Q a x) (kvs : List (String × J)) :
    RecordSpec (l.map fun a => (key a, opt a, P a)) kvs ↔ RecordSpec (l.map fun a => (key a, opt a, Q a)) kvs := by
  simp only [RecordSpec, List.mem_map]
  constructor
  · rintro ⟨h1, h2⟩
    refine ⟨?_, ?_⟩
    · rintro f ⟨a, ha, rfl⟩
      rcases h1 _ ⟨a, ha, rfl⟩ with h' | h'
      · exact Or.inl h'
      · exact Or.inr ((h a ha _).1 h')
    · intro kv hkv
      rcases h2 kv hkv with h' | ⟨f, ⟨a, ha, rfl⟩, hk⟩
      · exact Or.inl h'
      · exact Or.inr ⟨_, ⟨a, ha, rfl⟩, hk⟩
  · rintro ⟨h1, h2⟩
    refine ⟨?_, ?_⟩
    · rintro f ⟨a, ha, rfl⟩
      rcases h1 _ ⟨a, ha, rfl⟩ with h' | h'
      · exact Or.inl h'
      · exact Or.inr ((h a ha _).2 h')
    · intro kv hkv
      rcases h2 kv hkv with h' | ⟨f, ⟨a, ha, rfl⟩, hk⟩
      · exact Or.inl h'
      · exact Or.inr ⟨_, ⟨a, ha, rfl⟩, hk⟩

/-! ### `refMem`: one equation per kind -/

variable (c : Cfg) (s : Schema) (t : Target)

/-- the test for the `__typename` key -/
def typenameTest (name : Name) (x : J) : Bool := match x with | .str y => y == name | _ => false

theorem typenameTest_iff {name : Name} {x : J} : typenameTest name x = true ↔ x = .str name := by
  cases x <;> simp [typenameTest]

/-- the field list of an object type's reference record, indexed by `none` (= `__typename`) and the fields -/
def objField (leaf : Name → J → Bool) (name : Name) : Option FieldDef → String × Bool × (J → Bool)
  | none => ("__typename", false, typenameTest name)
  | some f => (f.name, false, conf leaf f.ty)

theorem refMem_unknown {n : Nat} {name : Name} {v : J} (h : s.typeDef? name = none) :
    refMem c s t n name v = false := by
  cases n <;> simp [refMem, h]

theorem refMem_unfit {n : Nat} {name : Name} {v : J} {td : TypeDef} (h : s.typeDef? name = some td)
    (hk : kindFits td.kind t = false) : refMem c s t n name v = false := by
  cases n <;> simp [refMem, h, hk]

theorem refMem_scalar {n : Nat} {name : Name} {v : J} {td : TypeDef} (h : s.typeDef? name = some td)
    (hk : td.kind = .scalar) :
    refMem c s t (n + 1) name v =
      match scalarType? c s.items name with
      | some sc => memG Env.empty (n + 1) v (c.parseOf (sc.getType t))
      | none => false := by
  simp only [refMem, h, hk, kindFits]
  rfl

theorem refMem_enum {n : Nat} {name : Name} {v : J} {td : TypeDef} (h : s.typeDef? name = some td)
    (hk : td.kind = .enum) :
    refMem c s t (n + 1) name v = true ↔ ∃ x ∈ td.values, v = .str x.name := by
  simp only [refMem, h, hk, kindFits]
  cases v <;> simp
  constructor
  · rintro ⟨x, hx, rfl⟩; exact ⟨x, hx, rfl⟩
  · rintro ⟨x, hx, rfl⟩; exact ⟨x, hx, rfl⟩

theorem refMem_object {n : Nat} {name : Name} {td : TypeDef} (h : s.typeDef? name = some td)
    (hk : td.kind = .object) (ht : t.isOutput = true) (kvs : List (String × J)) :
    refMem c s t (n + 1) name (.obj kvs) =
      recordMem ((none :: td.fields.map some).map (objField (refMem c s t n) td.name)) kvs := by
  simp only [refMem, h, hk, kindFits, ht, List.map_cons, List.map_map]
  rfl

theorem refMem_object_notObj {n : Nat} {name : Name} {td : TypeDef} {v : J} (h : s.typeDef? name = some td)
    (hk : td.kind = .object) (hv : ∀ kvs, v ≠ .obj kvs) : refMem c s t n name v = false := by
  cases n with
  | zero => simp [refMem]
  | succ n =>
    simp only [refMem, h, hk]
    cases v with
    | obj kvs => exact absurd rfl (hv kvs)
    | _ => simp

theorem refMem_input {n : Nat} {name : Name} {td : TypeDef} (h : s.typeDef? name = some td)
    (hk : td.kind = .input) (ht : t.isInput = true) (kvs : List (String × J)) :
    refMem c s t (n + 1) name (.obj kvs) =
      recordMem (td.inputs.map fun f =>
        (f.name, c.optionalInput && !f.ty.isNonNull, conf (refMem c s t n) f.ty)) kvs := by
  simp only [refMem, h, hk, kindFits, ht]
  rfl

theorem refMem_input_notObj {n : Nat} {name : Name} {td : TypeDef} {v : J} (h : s.typeDef? name = some td)
    (hk : td.kind = .input) (hv : ∀ kvs, v ≠ .obj kvs) : refMem c s t n name v = false := by
  cases n with
  | zero => simp [refMem]
  | succ n =>
    simp only [refMem, h, hk]
    cases v with
    | obj kvs => exact absurd rfl (hv kvs)
    | _ => simp

theorem refMem_abstract {n : Nat} {name : Name} {v : J} {td : TypeDef} (h : s.typeDef? name = some td)
    (hk : td.kind = .interface ∨ td.kind = .union) (ht : t.isOutput = true) :
    refMem c s t (n + 1) name v = (s.possibleTypes name).any fun o => refMem c s t n o v := by
  rcases hk with hk | hk <;> simp only [refMem, h, hk, kindFits, ht] <;> rfl

/-! ### more fuel never hurts -/

theorem refMem_succ : ∀ (n : Nat) (name : Name) (v : J),
    refMem c s t n name v = true → refMem c s t (n + 1) name v = true := by
  intro n
  induction n with
  | zero => intro name v h; simp [refMem] at h
  | succ n ih =>
    intro name v h
    cases htd : s.typeDef? name with
    | none => rw [refMem_unknown c s t htd] at h; cases h
    | some td =>
      cases hfit : kindFits td.kind t with
      | false => rw [refMem_unfit c s t htd hfit] at h; cases h
      | true =>
        cases hk : td.kind with
        | scalar =>
          rw [refMem_scalar c s t htd hk] at h ⊢
          split at h
          · exact memG_succ _ _ _ h
          · cases h
        | «enum» =>
          exact (refMem_enum c s t htd hk).2 ((refMem_enum c s t htd hk).1 h)
        | object =>
          have ht : t.isOutput = true := by simpa [kindFits, hk] using hfit
          cases v with
          | obj kvs =>
            rw [refMem_object c s t htd hk ht] at h ⊢
            refine recordMem_map_mono _ _ _ ?_ ?_ ?_ kvs h
            · intro a _; cases a <;> rfl
            · intro a _; cases a <;> rfl
            · intro a _ x hx
              cases a with
              | none => exact hx
              | some f => exact conf_mono ih f.ty x hx
          | _ => rw [refMem_object_notObj c s t htd hk (by intro kvs; simp)] at h; cases h
        | input =>
          have ht : t.isInput = true := by simpa [kindFits, hk] using hfit
          cases v with
          | obj kvs =>
            rw [refMem_input c s t htd hk ht] at h ⊢
            exact recordMem_map_mono _
              (fun f : InputValueDef => (f.name, c.optionalInput && !f.ty.isNonNull, conf (refMem c s t n) f.ty))
              (fun f : InputValueDef => (f.name, c.optionalInput && !f.ty.isNonNull, conf (refMem c s t (n + 1)) f.ty))
              (fun _ _ => rfl) (fun _ _ => rfl) (fun a _ x hx => conf_mono ih a.ty x hx) kvs h
          | _ => rw [refMem_input_notObj c s t htd hk (by intro kvs; simp)] at h; cases h
        | interface =>
          have ht : t.isOutput = true := by simpa [kindFits, hk] using hfit
          rw [refMem_abstract c s t htd (Or.inl hk) ht] at h ⊢
          simp only [List.any_eq_true] at h ⊢
          obtain ⟨o, ho, hm⟩ := h
          exact ⟨o, ho, ih _ _ hm⟩
        | union =>
          have ht : t.isOutput = true := by simpa [kindFits, hk] using hfit
          rw [refMem_abstract c s t htd (Or.inr hk) ht] at h ⊢
          simp only [List.any_eq_true] at h ⊢
          obtain ⟨o, ho, hm⟩ := h
          exact ⟨o, ho, ih _ _ hm⟩

theorem refMem_le {n m : Nat} {name : Name} {v : J} (h : refMem c s t n name v = true) (hle : n ≤ m) :
    refMem c s t m name v = true :=
  mono_le (P := fun k => refMem c s t k name v = true) (fun k hk => refMem_succ c s t k name v hk) h hle

/-! ### `Ref`, kind by kind, with `Ref` at the leaves -/

theorem Ref_succ_iff {name : Name} {v : J} : Ref c s t name v ↔ ∃ n, refMem c s t (n + 1) name v = true := by
  constructor
  · rintro ⟨n, hn⟩; exact ⟨n, refMem_succ c s t n name v hn⟩
  · rintro ⟨n, hn⟩; exact ⟨n + 1, hn⟩

theorem Ref_unknown {name : Name} {v : J} (h : s.typeDef? name = none) : ¬ Ref c s t name v := by
  rintro ⟨n, hn⟩; rw [refMem_unknown c s t h] at hn; cases hn

theorem Ref_unfit {name : Name} {v : J} {td : TypeDef} (h : s.typeDef? name = some td)
    (hk : kindFits td.kind t = false) : ¬ Ref c s t name v := by
  rintro ⟨n, hn⟩; rw [refMem_unfit c s t h hk] at hn; cases hn

/-- SCALAR: the configured text of the target, read in the empty declaration environment -/
theorem Ref_scalar {name : Name} {v : J} {td : TypeDef} (h : s.typeDef? name = some td) (hk : td.kind = .scalar) :
    Ref c s t name v ↔
      ∃ sc, scalarType? c s.items name = some sc ∧ Mem Env.empty v (c.parseOf (sc.getType t)) := by
  rw [Ref_succ_iff]
  constructor
  · rintro ⟨n, hn⟩
    rw [refMem_scalar c s t h hk] at hn
    split at hn
    · rename_i sc hsc; exact ⟨sc, hsc, memG_sound _ _ _ hn⟩
    · cases hn
  · rintro ⟨sc, hsc, hm⟩
    obtain ⟨n, hn⟩ := memG_complete hm
    refine ⟨n, ?_⟩
    rw [refMem_scalar c s t h hk, hsc]
    exact memG_succ _ _ _ hn

theorem Ref_enum {name : Name} {v : J} {td : TypeDef} (h : s.typeDef? name = some td) (hk : td.kind = .enum) :
    Ref c s t name v ↔ ∃ x ∈ td.values, v = .str x.name := by
  rw [Ref_succ_iff]
  constructor
  · rintro ⟨n, hn⟩; exact (refMem_enum c s t h hk).1 hn
  · intro hx; exact ⟨0, (refMem_enum c s t h hk).2 hx⟩

theorem exists_conf_refMem_iff (ty : GType) (x : J) :
    (∃ k, conf (refMem c s t k) ty x = true) ↔ Conf (Ref c s t) ty x :=
  conf_iff_exists (leaf := refMem c s t) (fun k n x h => refMem_succ c s t k n x h) ty x

/-- OBJECT (output targets): `__typename` + every field, wrapper-exact over `Ref`, exact keys -/
theorem Ref_object {name : Name} {v : J} {td : TypeDef} (h : s.typeDef? name = some td) (hk : td.kind = .object)
    (ht : t.isOutput = true) :
    Ref c s t name v ↔
      ∃ kvs, v = .obj kvs ∧
        RecordSpec (("__typename", false, fun x => x = .str td.name)
          :: td.fields.map fun f => (f.name, false, Conf (Ref c s t) f.ty)) kvs := by
  rw [Ref_succ_iff]
  have key : ∀ kvs, (∃ n, refMem c s t (n + 1) name (.obj kvs) = true) ↔
      RecordSpec (("__typename", false, fun x => x = .str td.name)
          :: td.fields.map fun f => (f.name, false, Conf (Ref c s t) f.ty)) kvs := by
    intro kvs
    have e1 : ∀ n, refMem c s t (n + 1) name (.obj kvs) =
        recordMem ((none :: td.fields.map some).map fun a =>
          ((match a with | none => "__typename" | some f => f.name : String), false,
            (match a with | none => typenameTest td.name | some f => conf (refMem c s t n) f.ty : J → Bool))) kvs := by
      intro n
      rw [refMem_object c s t h hk ht]
      congr 1
      apply List.map_congr_left
      intro a _; cases a <;> rfl
    simp only [e1]
    rw [exists_recordMem_iff (none :: td.fields.map some)
      (fun a => match a with | none => "__typename" | some f => f.name) (fun _ => false)
      (fun n a => match a with | none => typenameTest td.name | some f => conf (refMem c s t n) f.ty)
      (fun k a x hx => by
        cases a with
        | none => exact hx
        | some f => exact conf_mono (fun n x h => refMem_succ c s t k n x h) f.ty x hx)]
    rw [recordSpec_congr (none :: td.fields.map some) _ _ _
      (fun a => match a with | none => (fun x => x = .str td.name) | some f => Conf (Ref c s t) f.ty)
      (fun a _ x => by
        cases a with
        | none => simp [typenameTest_iff]
        | some f => exact exists_conf_refMem_iff c s t f.ty x)]
    simp only [List.map_cons, List.map_map]
    rfl
  constructor
  · rintro ⟨n, hn⟩
    cases v with
    | obj kvs => exact ⟨kvs, rfl, (key kvs).1 ⟨n, hn⟩⟩
    | _ => rw [refMem_object_notObj c s t h hk (by intro kvs; simp)] at hn; cases hn
  · rintro ⟨kvs, rfl, hr⟩
    exact (key kvs).2 hr

/-- INPUT OBJECT (input targets): a conforming value for every field, optional iff nullable and the option is on -/
theorem Ref_input {name : Name} {v : J} {td : TypeDef} (h : s.typeDef? name = some td) (hk : td.kind = .input)
    (ht : t.isInput = true) :
    Ref c s t name v ↔
      ∃ kvs, v = .obj kvs ∧
        RecordSpec (td.inputs.map fun f => (f.name, c.optionalInput && !f.ty.isNonNull, Conf (Ref c s t) f.ty)) kvs := by
  rw [Ref_succ_iff]
  have key : ∀ kvs, (∃ n, refMem c s t (n + 1) name (.obj kvs) = true) ↔
      RecordSpec (td.inputs.map fun f => (f.name, c.optionalInput && !f.ty.isNonNull, Conf (Ref c s t) f.ty)) kvs := by
    intro kvs
    simp only [refMem_input c s t h hk ht]
    rw [exists_recordMem_iff td.inputs (fun f => f.name) (fun f => c.optionalInput && !f.ty.isNonNull)
      (fun n f => conf (refMem c s t n) f.ty)
      (fun k f x hx => conf_mono (fun n x h => refMem_succ c s t k n x h) f.ty x hx)]
    exact recordSpec_congr td.inputs _ _ _ _ (fun f _ x => exists_conf_refMem_iff c s t f.ty x) kvs
  constructor
  · rintro ⟨n, hn⟩
    cases v with
    | obj kvs => exact ⟨kvs, rfl, (key kvs).1 ⟨n, hn⟩⟩
    | _ => rw [refMem_input_notObj c s t h hk (by intro kvs; simp)] at hn; cases hn
  · rintro ⟨kvs, rfl, hr⟩
    exact (key kvs).2 hr

/-- INTERFACE / UNION (output targets): the union over the possible object types -/
theorem Ref_abstract {name : Name} {v : J} {td : TypeDef} (h : s.typeDef? name = some td)
    (hk : td.kind = .interface ∨ td.kind = .union) (ht : t.isOutput = true) :
    Ref c s t name v ↔ ∃ o ∈ s.possibleTypes name, Ref c s t o v := by
  rw [Ref_succ_iff]
  simp only [refMem_abstract c s t h hk ht, List.any_eq_true]
  constructor
  · rintro ⟨n, o, ho, hm⟩; exact ⟨o, ho, n, hm⟩
  · rintro ⟨o, ho, n, hm⟩; exact ⟨n, o, ho, hm⟩

end NitroVerif.RefTypes
