/-
C18 composed (helper lemmas): an import-resolution error names an existing `#import` line (its path literal), or an
existing target identifier of such a line — of the root document or of a document of the resolver map.

Invariant of `resolve_operation_extensions` (`Imports.resolveExt`): every import it returns carries the index of one
of the raw lines, and every identifier it returns sits at its (line, column) in the raw lines.
-/
import NitroVerif.Lemmas.CliComposedDiags
namespace NitroVerif.CliComposed
open NitroVerif NitroVerif.Gql NitroVerif.Cli

section ext
variable {ρ : Type} [DecidableEq ρ]
open Imports

/-- the identifier sits at its (line, column) in the raw lines -/
def IdOk (L : List (RawImport ρ)) (id : Ident) : Prop :=
  ∃ raw, L[id.line]? = some raw ∧ raw.targets[id.col]? = some (.name id.name)

def TgtOk (L : List (RawImport ρ)) : Targets → Prop
  | .wildcard => True
  | .specific ids => ∀ id ∈ ids, IdOk L id

def ImpOk (L : List (RawImport ρ)) (imp : Import ρ) : Prop := imp.line < L.length ∧ TgtOk L imp.targets

theorem foldTargets_ok (L : List (RawImport ρ)) (line : Nat) (raw : RawImport ρ) (hraw : L[line]? = some raw) :
    ∀ (ts pre : List RawTarget) (acc : Targets) (t' : Targets), raw.targets = pre ++ ts → TgtOk L acc →
      foldTargets line acc pre.length ts = .ok t' → TgtOk L t' := by
  intro ts
  induction ts with
  | nil => intro pre acc t' _ hacc h; simp only [foldTargets] at h; cases h; exact hacc
  | cons t ts ih =>
    intro pre acc t' hsplit hacc h
    have hsplit' : raw.targets = (pre ++ [t]) ++ ts := by simp [hsplit]
    have hlen : (pre ++ [t]).length = pre.length + 1 := by simp
    cases acc with
    | wildcard => cases t <;> simp only [foldTargets] at h <;> cases h
    | specific ids =>
      cases t with
      | wildcard =>
        simp only [foldTargets] at h
        split at h
        · rw [← hlen] at h
          exact ih _ .wildcard _ hsplit' trivial h
        · cases h
      | name n =>
        simp only [foldTargets] at h
        rw [← hlen] at h
        refine ih _ _ _ hsplit' ?_ h
        intro id hid
        rcases List.mem_append.mp hid with hid | hid
        · exact hacc id hid
        · simp at hid
          subst hid
          refine ⟨raw, hraw, ?_⟩
          simp only
          rw [hsplit]
          simp

theorem mem_eraseP_of {α : Type} {p : α → Bool} {l : List α} {x : α} (h : x ∈ l.eraseP p) : x ∈ l :=
  (List.eraseP_subset) h

theorem extStep_ok (L : List (RawImport ρ)) (line : Nat) (raw : RawImport ρ) (hraw : L[line]? = some raw)
    (acc acc' : List (Import ρ)) (hacc : ∀ imp ∈ acc, ImpOk L imp) (h : extStep acc line raw = .ok acc') :
    ∀ imp ∈ acc', ImpOk L imp := by
  have hlt : line < L.length := by
    rcases Nat.lt_or_ge line L.length with h | h
    · exact h
    · rw [List.getElem?_eq_none h] at hraw; cases hraw
  unfold extStep at h
  simp only at h
  split at h
  · rename_i t hf
    cases h
    intro imp himp
    rcases List.mem_append.mp himp with himp | himp
    · exact hacc imp (mem_eraseP_of himp)
    · simp at himp
      subst himp
      refine ⟨hlt, ?_⟩
      simp only
      refine foldTargets_ok L line raw hraw raw.targets [] _ t rfl ?_ hf
      cases hfind : acc.find? (fun i => i.rel = raw.rel) with
      | none => intro id hid; cases hid
      | some e0 => exact (hacc e0 (List.mem_of_find?_eq_some hfind)).2
  · cases h

theorem extLoop_ok (L : List (RawImport ρ)) : ∀ (raws pre : List (RawImport ρ)) (acc imps : List (Import ρ)),
    L = pre ++ raws → (∀ imp ∈ acc, ImpOk L imp) → extLoop acc pre.length raws = .ok imps →
    ∀ imp ∈ imps, ImpOk L imp := by
  intro raws
  induction raws with
  | nil => intro pre acc imps _ hacc h; simp only [extLoop] at h; cases h; exact hacc
  | cons raw raws ih =>
    intro pre acc imps hL hacc h
    simp only [extLoop] at h
    cases hs : extStep acc pre.length raw with
    | error e => rw [hs] at h; cases h
    | ok acc' =>
      rw [hs] at h
      simp only at h
      have hraw : L[pre.length]? = some raw := by rw [hL]; simp
      have hacc' := extStep_ok L pre.length raw hraw acc acc' hacc hs
      have hL' : L = (pre ++ [raw]) ++ raws := by simp [hL]
      have : (pre ++ [raw]).length = pre.length + 1 := by simp
      rw [← this] at h
      exact ih _ _ _ hL' hacc' h

/-- every import `resolve_operation_extensions` returns carries the index of a raw line, and its identifiers sit at
    their places -/
theorem resolveExt_ok (L : List (RawImport ρ)) (imps : List (Import ρ)) (h : resolveExt L = .ok imps) :
    ∀ imp ∈ imps, ImpOk L imp :=
  extLoop_ok L L [] [] imps rfl (fun _ h => by cases h) h

end ext

/-! ### back to the documents -/

section docs
variable {Text κ : Type} [DecidableEq κ]

theorem fileOf_imports_ok (code : Name → Nat) (D : Doc) :
    ∀ imp ∈ (fileOf code D).imports, ImpOk (rawLines code D) imp := by
  intro imp himp
  unfold fileOf at himp
  simp only at himp
  cases h : extOf code D with
  | ok imps => rw [h] at himp; exact resolveExt_ok _ imps h imp himp
  | error e => rw [h] at himp; cases himp

theorem rawLines_get (code : Name → Nat) (D : Doc) (l : Nat) (raw : Imports.RawImport String)
    (h : (rawLines code D)[l]? = some raw) : ∃ i, (importsOf D)[l]? = some i ∧ raw = rawImport code i := by
  unfold rawLines at h
  rw [List.getElem?_map] at h
  cases hi : (importsOf D)[l]? with
  | none => rw [hi] at h; cases h
  | some i => rw [hi] at h; cases h; exact ⟨i, rfl, rfl⟩

theorem lookup_map_snd {α β γ : Type} [BEq α] (f : β → γ) (l : List (α × β)) (k : α) :
    (l.map fun p => (p.1, f p.2)).lookup k = (l.lookup k).map f := by
  induction l with
  | nil => rfl
  | cons a l ih =>
    obtain ⟨a1, a2⟩ := a
    simp only [List.map_cons, List.lookup]
    split <;> simp [ih]

/-- the import lines the resolver sees for a file are those of the document `docAt` returns -/
theorem specImportsOf_docAt (E : Env Text κ) (P : Project Text κ) (v : OpView Text κ) (q : κ)
    (imp : Imports.Import String)
    (h : imp ∈ Imports.Spec.importsOf (opFs E P) v.input.path (fileOf E.code v.doc) q) :
    ∃ D, docAt (opDocs E P) v.input.path v.doc q = some D ∧ imp ∈ (fileOf E.code D).imports := by
  unfold Imports.Spec.importsOf at h
  unfold docAt
  by_cases hq : q = v.input.path
  · simp only [hq, if_true] at h ⊢
    exact ⟨_, rfl, h⟩
  · simp only [hq, if_false] at h ⊢
    unfold opFs at h
    rw [lookup_map_snd] at h
    cases hl : (opDocs E P).lookup q with
    | none => rw [hl] at h; simp at h
    | some D => rw [hl] at h; exact ⟨D, rfl, h⟩

/-- **an import error names an existing place**: `FileNotFound` the path literal of an existing `#import` line,
    `FragmentNotFound` an existing target identifier — of the document `docAt` returns for the file in which the
    chain broke -/
theorem impErr_place (E : Env Text κ) (P : Project Text κ) (v : OpView Text κ) (e : Imports.ImpErr κ String)
    (h : impOf E P v = .err e) :
    ∃ q D i, docAt (opDocs E P) v.input.path v.doc q = some D ∧ i ∈ importsOf D ∧
      (impErrPos E (opDocs E P) v.input.path v.doc e = E.pathPos i ∨
       impErrPos E (opDocs E P) v.input.path v.doc e ∈ i.positions) := by
  have hj := Imports.resolve_err _ _ _ _ h
  cases hj with
  | dangling hreach himp hlook =>
    rename_i q imp
    obtain ⟨D, hD, himpD⟩ := specImportsOf_docAt E P v q imp himp
    have hok := fileOf_imports_ok E.code D imp himpD
    have hlt : imp.line < (importsOf D).length := by
      have := hok.1; simpa [rawLines] using this
    refine ⟨q, D, (importsOf D)[imp.line], hD, List.getElem_mem _, Or.inl ?_⟩
    simp only [impErrPos, hD]
    simp [hlt]
  | missing hreach himp hlook hmiss =>
    rename_i q imp f id
    obtain ⟨D, hD, himpD⟩ := specImportsOf_docAt E P v q imp himp
    have hok := fileOf_imports_ok E.code D imp himpD
    have hid : IdOk (rawLines E.code D) id := by
      have hm := hok.2
      cases ht : imp.targets with
      | wildcard => rw [ht] at hmiss; simp [Imports.missingTarget] at hmiss
      | specific ids =>
        rw [ht] at hmiss hm
        simp only [Imports.missingTarget] at hmiss
        exact hm id (List.mem_of_find?_eq_some hmiss)
    obtain ⟨raw, hraw, hcol⟩ := hid
    obtain ⟨i, hi, rfl⟩ := rawLines_get E.code D id.line raw hraw
    simp only [rawImport] at hcol
    rw [List.getElem?_map] at hcol
    cases htg : i.targets[id.col]? with
    | none => rw [htg] at hcol; cases hcol
    | some tg =>
      rw [htg] at hcol
      simp only [Option.map_some, Option.some.injEq] at hcol
      cases tg with
      | none => simp [rawTarget] at hcol
      | some np =>
        obtain ⟨n, p⟩ := np
        refine ⟨q, D, i, hD, List.mem_of_getElem? hi, Or.inr ?_⟩
        simp only [impErrPos, hD, hi, htg]
        unfold ImportDef.positions
        refine List.mem_cons_of_mem _ (List.mem_flatMap.mpr ⟨some (n, p), List.mem_of_getElem? htg, ?_⟩)
        simp [optNamePos]

end docs

end NitroVerif.CliComposed
