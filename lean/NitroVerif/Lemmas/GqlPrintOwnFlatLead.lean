import NitroVerif.Lemmas.GqlPrintOwnFlatTs
import NitroVerif.Lemmas.GqlPrintOwnLeadErase
/-!
C16 over nitrogql's own parser, second stage: the renderings WITH leading separators (`NitroVerif.DocParseL`) are flat too —
`rToks τ p (c… true …)`, the same flat lists the printer's tokens fit (`Lemmas/GqlPrintOwnFitsTs.lean`).
-/
namespace NitroVerif.C16Own
open NitroVerif.Gql NitroVerif.ValueParse NitroVerif.DocParse NitroVerif.TypeParse NitroVerif.StringParse

theorem flatL_names (τ : Trivia) (c : Char) (sep : Bool) (p : Nat) (ns : List (Name × Pos)) :
    DocParseL.rNamesL τ c sep p ns = rToks τ p (cNamesLd true c sep ns) := by
  cases ns with
  | nil => rfl
  | cons n rest =>
    simp only [DocParseL.rNamesL, cNamesLd, if_true, flat_names, List.cons_append, List.nil_append, rToks_cons]

theorem flatL_optImpl (τ : Trivia) (sep : Bool) (p : Nat) (ns : List (Name × Pos)) :
    DocParseL.rOptImpl τ sep p ns = rToks τ p (cOptImpl true sep ns) := by
  cases ns with
  | nil => rfl
  | cons n rest => simp only [DocParseL.rOptImpl, cOptImpl, flatL_names, rToks_cons]

theorem flatL_unionDef (τ : Trivia) (sep : Bool) (p : Nat) (t : TypeDef) :
    DocParseL.rUnionDef τ sep p t = rToks τ p (cUnionDef true sep t) := by
  simp only [DocParseL.rUnionDef, cUnionDef, flat_defHead, flat_dirs, flatL_names, rToks_append, rToks_cons]

theorem flatL_objDef (τ : Trivia) (kw : List Char) (sep : Bool) (p : Nat) (t : TypeDef) :
    DocParseL.rObjDef τ kw sep p t = rToks τ p (cObjDef true kw sep t) := by
  simp only [DocParseL.rObjDef, cObjDef, flat_defHead, flatL_optImpl, flat_dirs, flat_optFields, rToks_append]

theorem flatL_typeDefAny (τ : Trivia) (sep : Bool) (p : Nat) (t : TypeDef) :
    DocParseL.rTypeDefAny τ sep p t = rToks τ p (cTypeDefAny true sep t) := by
  unfold DocParseL.rTypeDefAny cTypeDefAny
  cases t.kind <;> simp only [flat_scalarDef, flatL_objDef, flatL_unionDef, flat_enumDef, flat_inputDef]

theorem flatL_unionExtM (τ : Trivia) (sep : Bool) (p : Nat) (t : TypeDef) :
    DocParseL.rUnionExtM τ sep p t = rToks τ p (cUnionExtM true sep t) := by
  simp only [DocParseL.rUnionExtM, cUnionExtM, flat_extHead, flat_dirs, flatL_names, rToks_append, rToks_cons]

theorem flatL_unionExtD (τ : Trivia) (sep : Bool) (p : Nat) (t : TypeDef) :
    DocParseL.rUnionExtD τ sep p t = rToks τ p (cUnionExtD sep t) := by
  simp only [DocParseL.rUnionExtD, cUnionExtD, flat_extHead, flat_dirs, rToks_append]

theorem flatL_unionExt (τ : Trivia) (sep : Bool) (p : Nat) (t : TypeDef) :
    DocParseL.rUnionExt τ sep p t = rToks τ p (cUnionExt true sep t) := by
  unfold DocParseL.rUnionExt cUnionExt
  split <;> simp only [flatL_unionExtD, flatL_unionExtM]

theorem flatL_objExt (τ : Trivia) (kw : List Char) (sep : Bool) (p : Nat) (t : TypeDef) :
    DocParseL.rObjExt τ kw sep p t = rToks τ p (cObjExt true kw sep t) := by
  simp only [DocParseL.rObjExt, cObjExt, flat_extHead, flatL_optImpl, flat_dirs, flat_optFields, rToks_append]

theorem flatL_typeExtAny (τ : Trivia) (sep : Bool) (p : Nat) (t : TypeDef) :
    DocParseL.rTypeExtAny τ sep p t = rToks τ p (cTypeExtAny true sep t) := by
  unfold DocParseL.rTypeExtAny cTypeExtAny
  cases t.kind <;> simp only [flat_scalarExt, flatL_objExt, flatL_unionExt, flat_enumExt, flat_inputExt]

theorem flatL_directiveDef (τ : Trivia) (sep : Bool) (p : Nat) (d : DirectiveDef) :
    DocParseL.rDirectiveDef τ sep p d = rToks τ p (cDirectiveDef true sep d) := by
  simp only [DocParseL.rDirectiveDef, cDirectiveDef, flat_optDesc, flat_optArgsDef, flat_optRep, flatL_names, rToks_append,
    rToks_cons]

theorem flatL_tsItem (τ : Trivia) (sep : Bool) (p : Nat) (it : TsItem) :
    DocParseL.rTsItem τ sep p it = rToks τ p (cTsItem true sep it) := by
  cases it <;> simp only [DocParseL.rTsItem, cTsItem, flatL_typeDefAny, flat_schemaDef, flatL_directiveDef, flat_schemaExt,
    flatL_typeExtAny]

theorem flatL_tsDoc (τ : Trivia) (doc : List TsItem) :
    DocParseL.rTsDoc τ doc = τ 0 ++ rToks τ (τ 0).length (cTsDoc true doc) := by
  simp only [DocParseL.rTsDoc, cTsDoc,
    flat_list (cTsItem true) true false τ (DocParseL.rTsItem τ) (fun s q a => flatL_tsItem τ s q a)]

end NitroVerif.C16Own
