/-
Helper lemmas for C12 (part 1): the reference reader inverts the JSON model, node kind by node kind.
-/
import NitroVerif.Model.DocJson
import NitroVerif.Spec.ReadDoc
namespace NitroVerif.C12
open NitroVerif NitroVerif.Gql NitroVerif.DocJson NitroVerif.ReadDoc

theorem rd_nameJ (n : Name) : rd (nameJ n) = .node (.name n) := by
  simp [nameJ, kind, rd, rdFields, assemble, req, fld, asStr]

theorem rd_varJ (n : Name) : rd (varJ n) = .node (.value (.var n Pos.none)) := by
  simp [varJ, kind, rd, rdFields, rd_nameJ, assemble, req, fld, asStr, asName]

theorem rd_typeJ (t : GType) : rd (typeJ t) = .node (.type t.erasePos) := by
  induction t with
  | named n p => simp [typeJ, kind, rd, rdFields, rd_nameJ, assemble, req, fld, asStr, asName, GType.erasePos]
  | list t p ih => simp [typeJ, kind, rd, rdFields, ih, assemble, req, fld, asStr, asType, GType.erasePos]
  | nonNull t ih => simp [typeJ, kind, rd, rdFields, ih, assemble, req, fld, asStr, asType, GType.erasePos]

theorem collect_map {α : Type} (p : R → Option α) (g : α → R) (h : ∀ x, p (g x) = some x) (l : List α) :
    collect p (l.map g) = some l := by
  induction l with
  | nil => rfl
  | cons a l ih => simp [collect, h, ih]

theorem collect_map2 {α β : Type} (p : R → Option α) (g : β → R) (e : β → α) (h : ∀ x, p (g x) = some (e x))
    (l : List β) : collect p (l.map g) = some (l.map e) := by
  induction l with
  | nil => rfl
  | cons a l ih => simp [collect, h, ih]

theorem rdList_map {α : Type} (f : α → Json) (g : α → R) (l : List α) (h : ∀ x ∈ l, rd (f x) = g x) :
    rdList (l.map f) = l.map g := by
  induction l with
  | nil => rfl
  | cons a l ih =>
    simp only [List.map_cons, rdList]
    rw [h a (by simp), ih (fun x hx => h x (by simp [hx]))]

mutual
theorem rd_valueJ : (v : Value) → rd (valueJ v) = .node (.value v.erasePos)
  | .var n p => by simp [valueJ, rd_varJ, Value.erasePos]
  | .bool b p => by simp [valueJ, kind, rd, rdFields, assemble, req, fld, asStr, asBool, Value.erasePos]
  | .int s p => by simp [valueJ, kind, rd, rdFields, assemble, req, fld, asStr, Value.erasePos]
  | .float s p => by simp [valueJ, kind, rd, rdFields, assemble, req, fld, asStr, Value.erasePos]
  | .str s p => by simp [valueJ, kind, rd, rdFields, assemble, req, fld, asStr, Value.erasePos]
  | .null p => by simp [valueJ, kind, rd, rdFields, assemble, req, fld, asStr, Value.erasePos]
  | .enum s p => by simp [valueJ, kind, rd, rdFields, assemble, req, fld, asStr, Value.erasePos]
  | .list vs p => by
    have h := rd_valuesJ vs
    simp [valueJ, kind, rd, rdFields, h, assemble, req, reqList, fld, asStr, Value.erasePos,
      collect_map asValue (fun v => R.node (.value v)) (fun _ => rfl)]
  | .obj fs p => by
    have h := rd_fieldsJ fs
    simp [valueJ, kind, rd, rdFields, h, assemble, req, reqList, fld, asStr, Value.erasePos,
      collect_map asObjField (fun a => R.node (.objField a)) (fun _ => rfl)]
theorem rd_valuesJ : (vs : List Value) →
    rdList (valuesJ vs) = (Value.erasePosList vs).map (fun v => R.node (.value v))
  | [] => by simp [valuesJ, rdList, Value.erasePosList]
  | v :: vs => by simp [valuesJ, rdList, Value.erasePosList, rd_valueJ v, rd_valuesJ vs]
theorem rd_fieldsJ : (fs : List (Name × Pos × Value)) →
    rdList (fieldsJ fs) = (Value.erasePosFields fs).map (fun a => R.node (.objField a))
  | [] => by simp [fieldsJ, rdList, Value.erasePosFields]
  | (k, p, v) :: fs => by
    simp [fieldsJ, rdList, Value.erasePosFields, rd_valueJ v, rd_fieldsJ fs, kind, rd, rdFields, rd_nameJ, assemble,
      req, fld, asStr, asName, asValue]
end

theorem rd_argJ (a : Arg) : rd (argJ a) = .node (.arg (a.1, Pos.none, a.2.2.erasePos)) := by
  obtain ⟨n, p, v⟩ := a
  simp [argJ, kind, rd, rdFields, rd_nameJ, rd_valueJ, assemble, req, fld, asStr, asName, asValue]

theorem eraseArgs_eq (as : List Arg) : eraseArgs as = as.map fun a => (a.1, Pos.none, a.2.2.erasePos) := by
  induction as with
  | nil => simp [eraseArgs, Value.erasePosFields]
  | cons a as ih =>
    obtain ⟨n, p, v⟩ := a
    simp only [eraseArgs] at ih
    simp [eraseArgs, Value.erasePosFields, ih]

theorem rd_argsJ (as : List Arg) : rdList (as.map argJ) = (eraseArgs as).map (fun a => R.node (.arg a)) := by
  rw [eraseArgs_eq, List.map_map]
  exact rdList_map _ _ _ (fun a _ => rd_argJ a)

theorem rd_dirJ (d : Directive) : rd (dirJ d) = .node (.dir (eraseDir d)) := by
  simp [dirJ, kind, rd, rdFields, rd_nameJ, rd_argsJ, assemble, req, optList, fld, asStr, asName, eraseDir,
    collect_map asArg (fun a => R.node (.arg a)) (fun _ => rfl)]

theorem rd_dirsJ (ds : List Directive) : rdList (ds.map dirJ) = (ds.map eraseDir).map (fun d => R.node (.dir d)) := by
  rw [List.map_map]
  exact rdList_map _ _ _ (fun d _ => rd_dirJ d)


/-! collected readings of printed lists -/

theorem collect_rd_args (as : List Arg) : collect asArg (rdList (as.map argJ)) = some (eraseArgs as) := by
  rw [rd_argsJ]; exact collect_map asArg (fun a => R.node (.arg a)) (fun _ => rfl) _

theorem collect_rd_dirs (ds : List Directive) : collect asDir (rdList (ds.map dirJ)) = some (ds.map eraseDir) := by
  rw [rd_dirsJ]; exact collect_map asDir (fun d => R.node (.dir d)) (fun _ => rfl) _

theorem selSetKV_ne (js : List Json) (h : js ≠ []) : selSetKV js = [("selectionSet", selSetJ js)] := by
  cases js with
  | nil => exact absurd rfl h
  | cons a l => rfl

theorem selsJ_ne (ss : List Selection) (h : ss.isEmpty = false) : selsJ ss ≠ [] := by
  cases ss with
  | nil => simp at h
  | cons a l => simp [selsJ]

theorem rd_selSetJ (ss : List Selection) (es : List Selection)
    (h : rdList (selsJ ss) = es.map (fun s => R.node (.sel s))) :
    rd (selSetJ (selsJ ss)) = .node (.selSet es) := by
  simp [selSetJ, kind, rd, rdFields, h, assemble, req, reqList, fld, asStr,
    collect_map asSel (fun s => R.node (.sel s)) (fun _ => rfl)]

mutual
theorem rd_selJ : (s : Selection) → selOk s = true → rd (selJ s) = .node (.sel (eraseSel s))
  | .field al n p args dirs (some ss), h => by
    simp only [selOk, Bool.and_eq_true, Bool.not_eq_true'] at h
    have h1 := rd_selSetJ ss _ (rd_selsJ ss h.2)
    have h2 := selSetKV_ne _ (selsJ_ne ss h.1)
    cases al with
    | none =>
      simp [selJ, h1, h2, optNameKV, eraseSel, eraseOptName, kind, rd, rdFields, rd_nameJ, collect_rd_args, collect_rd_dirs,
        assemble, req, opt, optList, fld, asStr, asName, asSelSet, withNone]
    | some a =>
      obtain ⟨a, q⟩ := a
      simp [selJ, h1, h2, optNameKV, eraseSel, eraseOptName, kind, rd, rdFields, rd_nameJ, collect_rd_args, collect_rd_dirs,
        assemble, req, opt, optList, fld, asStr, asName, asSelSet, withNone]
  | .field al n p args dirs none, _ => by
    cases al with
    | none =>
      simp [selJ, optNameKV, eraseSel, eraseOptName, kind, rd, rdFields, rd_nameJ, collect_rd_args, collect_rd_dirs,
        assemble, req, opt, optList, fld, asStr, asName, withNone]
    | some a =>
      obtain ⟨a, q⟩ := a
      simp [selJ, optNameKV, eraseSel, eraseOptName, kind, rd, rdFields, rd_nameJ, collect_rd_args, collect_rd_dirs,
        assemble, req, opt, optList, fld, asStr, asName, withNone]
  | .spread n p dirs q, _ => by
    simp [selJ, eraseSel, kind, rd, rdFields, rd_nameJ, collect_rd_dirs, assemble, req, optList, fld, asStr, asName]
  | .inline c dirs ss q, h => by
    simp only [selOk, Bool.and_eq_true, Bool.not_eq_true'] at h
    have h1 := rd_selSetJ ss _ (rd_selsJ ss h.2)
    have h2 := selSetKV_ne _ (selsJ_ne ss h.1)
    cases c with
    | none =>
      simp [selJ, h1, h2, optCondKV, eraseSel, eraseOptName, kind, rd, rdFields, collect_rd_dirs, assemble, req, opt,
        optList, fld, asStr, asSelSet, withNone]
    | some a =>
      obtain ⟨a, q⟩ := a
      simp [selJ, h1, h2, optCondKV, condJ, eraseSel, eraseOptName, kind, rd, rdFields, rd_nameJ, collect_rd_dirs, assemble,
        req, opt, optList, fld, asStr, asName, asSelSet, asNamedType, withNone]
theorem rd_selsJ : (ss : List Selection) → selsOk ss = true →
    rdList (selsJ ss) = (eraseSels ss).map (fun s => R.node (.sel s))
  | [], _ => by simp [selsJ, rdList, eraseSels]
  | s :: r, h => by
    simp only [selsOk, Bool.and_eq_true] at h
    simp [selsJ, rdList, eraseSels, rd_selJ s h.1, rd_selsJ r h.2]
end

theorem rd_selSet_of_ok (ss : List Selection) (h : selsOk ss = true) :
    rd (selSetJ (selsJ ss)) = .node (.selSet (eraseSels ss)) :=
  rd_selSetJ ss _ (rd_selsJ ss h)

theorem rd_varDefJ (v : VarDef) : rd (varDefJ v) = .node (.varDef (eraseVarDef v)) := by
  obtain ⟨n, p, t, d, ds⟩ := v
  cases d with
  | none =>
    simp [varDefJ, optDefaultKV, eraseVarDef, kind, rd, rdFields, rd_varJ, rd_typeJ, collect_rd_dirs, assemble, req, opt,
      optList, fld, asStr, asVariable, asType]
  | some dv =>
    simp [varDefJ, optDefaultKV, eraseVarDef, kind, rd, rdFields, rd_varJ, rd_typeJ, rd_valueJ, collect_rd_dirs, assemble,
      req, opt, optList, fld, asStr, asVariable, asType, asValue]

theorem collect_rd_varDefs (vs : List VarDef) :
    collect asVarDef (rdList (vs.map varDefJ)) = some (vs.map eraseVarDef) := by
  rw [rdList_map varDefJ (fun v => R.node (.varDef (eraseVarDef v))) vs (fun v _ => rd_varDefJ v)]
  exact collect_map2 asVarDef _ eraseVarDef (fun _ => rfl) _

theorem opKindOf_asStr (k : OpKind) : opKindOf k.asStr = some k := by
  cases k <;> simp [opKindOf, OpKind.asStr]

theorem rd_opJ (o : OperationDef) (h : defOk (.op o) = true) : rd (opJ o) = .node (.defn (.op (eraseOp o))) := by
  obtain ⟨k, nm, vs, ds, ss, p⟩ := o
  simp only [defOk, Bool.and_eq_true, Bool.not_eq_true'] at h
  have h1 := rd_selSet_of_ok ss h.2
  have h2 := selSetKV_ne _ (selsJ_ne ss h.1)
  cases nm with
  | none =>
    simp [opJ, h1, h2, optNameKV, eraseOp, eraseOptName, kind, rd, rdFields, collect_rd_dirs, collect_rd_varDefs,
      opKindOf_asStr, assemble, req, opt, optList, fld, asStr, asSelSet, withNone]
  | some a =>
    obtain ⟨a, q⟩ := a
    simp [opJ, h1, h2, optNameKV, eraseOp, eraseOptName, kind, rd, rdFields, rd_nameJ, collect_rd_dirs, collect_rd_varDefs,
      opKindOf_asStr, assemble, req, opt, optList, fld, asStr, asName, asSelSet, withNone]

theorem rd_fragJ (f : FragmentDef) (h : defOk (.frag f) = true) : rd (fragJ f) = .node (.defn (.frag (eraseFrag f))) := by
  obtain ⟨n, np, c, cp, ds, ss, p⟩ := f
  simp only [defOk, Bool.and_eq_true, Bool.not_eq_true'] at h
  have h1 := rd_selSet_of_ok ss h.2
  have h2 := selSetKV_ne _ (selsJ_ne ss h.1)
  simp [fragJ, h1, h2, condJ, eraseFrag, kind, rd, rdFields, rd_nameJ, collect_rd_dirs, assemble, req, optList, fld, asStr,
    asName, asNamedType, asSelSet]

theorem rd_defsJ (defs : List ExecDef) (h : Resolved defs) :
    rdList (defsJ defs) = (erasePos defs).map (fun d => R.node (.defn d)) := by
  induction defs with
  | nil => simp [defsJ, rdList, erasePos]
  | cons d r ih =>
    have hd : defOk d = true := h d (by simp)
    have hr : Resolved r := fun x hx => h x (by simp [hx])
    have ih := ih hr
    simp only [defsJ, erasePos] at ih ⊢
    cases d with
    | op o => simp [defJ, rdList, rd_opJ o hd, ih, eraseDef]
    | frag f => simp [defJ, rdList, rd_fragJ f hd, ih, eraseDef]
    | imp i => simp [defOk] at hd

theorem readDoc_toJson (defs : List ExecDef) (h : Resolved defs) : readDoc (toJson defs) = some (erasePos defs) := by
  simp [readDoc, toJson, kind, rd, rdFields, rd_defsJ defs h, assemble, req, reqList, fld, asStr,
    collect_map asDef (fun d => R.node (.defn d)) (fun _ => rfl)]

end NitroVerif.C12
