import NitroVerif.Lemmas.JsonTextRound
import NitroVerif.Model.DocJson
/-!
# C12, text level — the shape of the trees the document printer builds

`shape t`: no JSON number anywhere (graphql-js keeps `IntValue` / `FloatValue` literals as STRINGS), every member name is one
of the seventeen names of `vocab` (the member names of graphql-js AST nodes the printer writes), and the member names of each
object are pairwise distinct. `shape_toJson`: every `DocJson.toJson defs` has this shape — for every list of definitions.

Consequences: `good key (toJson defs)` for every `key` that accepts `vocab` (RFC 8259: any name; ECMA-262: any name but
`__proto__`, which is not in `vocab`); and since no object repeats a name, "first occurrence" (`Json.get?`), "last occurrence"
(what `JSON.parse` and an object literal keep) and "reject duplicates" readers all see the same members.
-/
namespace NitroVerif.JsonText
open NitroVerif NitroVerif.Gql NitroVerif.DocJson

/-- the member names the document printer writes -/
def vocab : List String :=
  ["kind", "value", "name", "type", "values", "fields", "arguments", "alias", "directives", "selectionSet",
   "selections", "typeCondition", "variable", "defaultValue", "operation", "variableDefinitions", "definitions"]

/-- the member names of one object: all in `vocab`, pairwise distinct -/
def keysOk (ks : List String) : Bool := ks.all (fun k => vocab.contains k) && decide ks.Nodup

mutual
def shape : Json → Bool
  | .num _ => false
  | .arr xs => shapeList xs
  | .obj kvs => keysOk (kvs.map (·.1)) && shapeFields kvs
  | _ => true
def shapeList : List Json → Bool
  | [] => true
  | x :: xs => shape x && shapeList xs
def shapeFields : List (String × Json) → Bool
  | [] => true
  | (_, v) :: r => shape v && shapeFields r
end

theorem shapeList_iff (xs : List Json) : shapeList xs = true ↔ ∀ x ∈ xs, shape x = true := by
  induction xs with
  | nil => simp [shapeList]
  | cons x xs ih => simp [shapeList, ih]

theorem shapeList_map {α : Type} (f : α → Json) (l : List α) (h : ∀ a, shape (f a) = true) :
    shapeList (l.map f) = true := by
  rw [shapeList_iff]; intro x hx; obtain ⟨a, _, rfl⟩ := List.mem_map.mp hx; exact h a

/-! ## `shape` implies `good` -/

mutual
theorem good_of_shape (key : List Char → Bool) (hk : ∀ k ∈ vocab, key k.toList = true) :
    (t : Json) → shape t = true → good key t = true
  | .null, _ => rfl
  | .bool _, _ => rfl
  | .num _, h => by simp [shape] at h
  | .str _, _ => rfl
  | .arr xs, h => by simp only [shape] at h; simp only [good]; exact goodList_of_shape key hk xs h
  | .obj kvs, h => by
    simp only [shape, Bool.and_eq_true, keysOk] at h
    simp only [good]
    exact goodFields_of_shape key hk kvs (by simpa using h.1.1) h.2
theorem goodList_of_shape (key : List Char → Bool) (hk : ∀ k ∈ vocab, key k.toList = true) :
    (xs : List Json) → shapeList xs = true → goodList key xs = true
  | [], _ => rfl
  | x :: xs, h => by
    simp only [shapeList, Bool.and_eq_true] at h
    simp only [goodList, Bool.and_eq_true]
    exact ⟨good_of_shape key hk x h.1, goodList_of_shape key hk xs h.2⟩
theorem goodFields_of_shape (key : List Char → Bool) (hk : ∀ k ∈ vocab, key k.toList = true) :
    (kvs : List (String × Json)) → (∀ kv ∈ kvs, kv.1 ∈ vocab) → shapeFields kvs = true → goodFields key kvs = true
  | [], _, _ => rfl
  | (k, v) :: r, hm, h => by
    simp only [shapeFields, Bool.and_eq_true] at h
    simp only [goodFields, Bool.and_eq_true]
    exact ⟨⟨hk k (hm (k, v) (by simp)), good_of_shape key hk v h.1⟩,
      goodFields_of_shape key hk r (fun kv hkv => hm kv (by simp [hkv])) h.2⟩
end

/-! ## the document printer -/

theorem shape_nameJ (n : Name) : shape (nameJ n) = true := by
  simp [nameJ, kind, shape, shapeFields, keysOk, vocab]

theorem shape_varJ (n : Name) : shape (varJ n) = true := by
  simp [varJ, kind, shape, shapeFields, keysOk, vocab, shape_nameJ]

theorem shape_typeJ : (t : GType) → shape (typeJ t) = true
  | .named n _ => by simp [typeJ, kind, shape, shapeFields, keysOk, vocab, shape_nameJ]
  | .list t _ => by simp [typeJ, kind, shape, shapeFields, keysOk, vocab, shape_typeJ t]
  | .nonNull t => by simp [typeJ, kind, shape, shapeFields, keysOk, vocab, shape_typeJ t]

mutual
theorem shape_valueJ : (v : Value) → shape (valueJ v) = true
  | .var n _ => by simp [valueJ, shape_varJ]
  | .bool _ _ => by simp [valueJ, kind, shape, shapeFields, keysOk, vocab]
  | .int _ _ => by simp [valueJ, kind, shape, shapeFields, keysOk, vocab]
  | .float _ _ => by simp [valueJ, kind, shape, shapeFields, keysOk, vocab]
  | .str _ _ => by simp [valueJ, kind, shape, shapeFields, keysOk, vocab]
  | .null _ => by simp [valueJ, kind, shape, shapeFields, keysOk, vocab]
  | .enum _ _ => by simp [valueJ, kind, shape, shapeFields, keysOk, vocab]
  | .list vs _ => by simp [valueJ, kind, shape, shapeFields, keysOk, vocab, shape_valuesJ vs]
  | .obj fs _ => by simp [valueJ, kind, shape, shapeFields, keysOk, vocab, shape_fieldsJ fs]
theorem shape_valuesJ : (vs : List Value) → shapeList (valuesJ vs) = true
  | [] => by simp [valuesJ, shapeList]
  | v :: vs => by simp [valuesJ, shapeList, shape_valueJ v, shape_valuesJ vs]
theorem shape_fieldsJ : (fs : List (Name × Pos × Value)) → shapeList (fieldsJ fs) = true
  | [] => by simp [fieldsJ, shapeList]
  | (k, _, v) :: r => by
    simp [fieldsJ, shapeList, kind, shape, shapeFields, keysOk, vocab, shape_nameJ, shape_valueJ v, shape_fieldsJ r]
end

theorem shape_argJ (a : Arg) : shape (argJ a) = true := by
  obtain ⟨n, p, v⟩ := a
  simp [argJ, kind, shape, shapeFields, keysOk, vocab, shape_nameJ, shape_valueJ]

theorem shape_dirJ (d : Directive) : shape (dirJ d) = true := by
  simp [dirJ, kind, shape, shapeFields, keysOk, vocab, shape_nameJ, shapeList_map argJ _ shape_argJ]

theorem shape_args (l : List Arg) : shapeList (l.map argJ) = true := shapeList_map argJ _ shape_argJ
theorem shape_dirs (l : List Directive) : shapeList (l.map dirJ) = true := shapeList_map dirJ _ shape_dirJ

theorem shape_condJ (n : Name) : shape (condJ n) = true := by
  simp [condJ, kind, shape, shapeFields, keysOk, vocab, shape_nameJ]

theorem shape_selSetJ (sels : List Json) (h : shapeList sels = true) : shape (selSetJ sels) = true := by
  simp [selSetJ, kind, shape, shapeFields, keysOk, vocab, h]

theorem selSetKV_cases (sels : List Json) : selSetKV sels = [] ∨ selSetKV sels = [("selectionSet", selSetJ sels)] := by
  cases sels <;> simp [selSetKV]

mutual
theorem shape_selJ : (s : Selection) → shape (selJ s) = true
  | .field al n _ args dirs (some ss) => by
    have h := shape_selSetJ _ (shape_selsJ ss)
    cases al with
    | none =>
      rcases selSetKV_cases (selsJ ss) with hs | hs <;>
        simp [selJ, hs, optNameKV, kind, shape, shapeFields, keysOk, vocab, shape_nameJ, shape_args, shape_dirs, h]
    | some a =>
      obtain ⟨a, q⟩ := a
      rcases selSetKV_cases (selsJ ss) with hs | hs <;>
        simp [selJ, hs, optNameKV, kind, shape, shapeFields, keysOk, vocab, shape_nameJ, shape_args, shape_dirs, h]
  | .field al n _ args dirs none => by
    cases al with
    | none => simp [selJ, optNameKV, kind, shape, shapeFields, keysOk, vocab, shape_nameJ, shape_args, shape_dirs]
    | some a =>
      obtain ⟨a, q⟩ := a
      simp [selJ, optNameKV, kind, shape, shapeFields, keysOk, vocab, shape_nameJ, shape_args, shape_dirs]
  | .spread n _ dirs _ => by
    simp [selJ, kind, shape, shapeFields, keysOk, vocab, shape_nameJ, shape_dirs]
  | .inline c dirs ss _ => by
    have h := shape_selSetJ _ (shape_selsJ ss)
    cases c with
    | none =>
      rcases selSetKV_cases (selsJ ss) with hs | hs <;>
        simp [selJ, hs, optCondKV, kind, shape, shapeFields, keysOk, vocab, shape_dirs, h]
    | some a =>
      obtain ⟨a, q⟩ := a
      rcases selSetKV_cases (selsJ ss) with hs | hs <;>
        simp [selJ, hs, optCondKV, kind, shape, shapeFields, keysOk, vocab, shape_condJ, shape_dirs, h]
theorem shape_selsJ : (ss : List Selection) → shapeList (selsJ ss) = true
  | [] => by simp [selsJ, shapeList]
  | s :: r => by simp [selsJ, shapeList, shape_selJ s, shape_selsJ r]
end

theorem shape_varDefJ (v : VarDef) : shape (varDefJ v) = true := by
  cases hd : v.default <;>
    simp [varDefJ, hd, optDefaultKV, kind, shape, shapeFields, keysOk, vocab, shape_varJ, shape_typeJ, shape_valueJ,
      shape_dirs]

theorem shape_opJ (o : OperationDef) : shape (opJ o) = true := by
  have h := shape_selSetJ _ (shape_selsJ o.sel)
  have hv : shapeList (o.vars.map varDefJ) = true := shapeList_map varDefJ _ shape_varDefJ
  cases hn : o.name with
  | none =>
    rcases selSetKV_cases (selsJ o.sel) with hs | hs <;>
      simp [opJ, hn, hs, optNameKV, kind, shape, shapeFields, keysOk, vocab, hv, shape_dirs, h]
  | some a =>
    obtain ⟨a, q⟩ := a
    rcases selSetKV_cases (selsJ o.sel) with hs | hs <;>
      simp [opJ, hn, hs, optNameKV, kind, shape, shapeFields, keysOk, vocab, shape_nameJ, hv, shape_dirs, h]

theorem shape_fragJ (f : FragmentDef) : shape (fragJ f) = true := by
  have h := shape_selSetJ _ (shape_selsJ f.sel)
  rcases selSetKV_cases (selsJ f.sel) with hs | hs <;>
    simp [fragJ, hs, kind, shape, shapeFields, keysOk, vocab, shape_nameJ, shape_condJ, shape_dirs, h]

theorem shape_defsJ (defs : List ExecDef) : shapeList (defsJ defs) = true := by
  rw [shapeList_iff]
  intro x hx
  simp only [defsJ, List.mem_filterMap] at hx
  obtain ⟨d, _, hd⟩ := hx
  cases d with
  | op o => simp only [defJ, Option.some.injEq] at hd; subst hd; exact shape_opJ o
  | frag f => simp only [defJ, Option.some.injEq] at hd; subst hd; exact shape_fragJ f
  | imp i => simp [defJ] at hd

/-- every document the printer builds: no numbers, member names from `vocab`, pairwise distinct in each object -/
theorem shape_toJson (defs : List ExecDef) : shape (toJson defs) = true := by
  simp [toJson, kind, shape, shapeFields, keysOk, vocab, shape_defsJ]

theorem rfc_key_vocab : ∀ k ∈ vocab, rfc8259.key k.toList = true := by intro k _; rfl

theorem js_key_vocab : ∀ k ∈ vocab, JsLit.lex.key k.toList = true := by decide

end NitroVerif.JsonText
