/-
The `Type` sub-language with ARBITRARY trivia between its tokens (helper lemmas for Props/C07Doc): `[ Int ! ] !` etc.
(`Lemmas/TypeRoundTrip.lean` covers the canonical rendering only.) The real retry structure is followed: `NonNullType`
is tried first and fails on a type that is not followed by `!` — for a list type only after the whole list has been
parsed once.
-/
import NitroVerif.Lemmas.ParseDocDirs
namespace NitroVerif.DocParse
open NitroVerif.Peg NitroVerif.Gen NitroVerif.Gen.Parts NitroVerif.Build NitroVerif.TypeParse NitroVerif.StringParse
open NitroVerif.Gql NitroVerif.ValueParse NitroVerif.Spec.Lex

set_option linter.unusedSimpArgs false

variable {inp : List Char}

/-- a type, every token followed by its gap -/
def rType (τ : Trivia) : Bool → Nat → GType → List Char
  | sep, p, .named n _ => tk τ sep p n.toList
  | sep, p, .list t _ =>
    let tO := tk τ false p ['[']
    let tI := rType τ false (p + tO.length) t
    tO ++ (tI ++ tk τ sep (p + tO.length + tI.length) [']'])
  | sep, p, .nonNull t =>
    let tI := rType τ false p t
    tI ++ tk τ sep (p + tI.length) ['!']

/-- the type with the positions of its tokens -/
def wpType (τ : Trivia) (inp : List Char) : Nat → GType → GType
  | p, .named n _ => .named n (posAt inp p)
  | p, .list t _ => .list (wpType τ inp (p + (tk τ false p ['[']).length) t) (posAt inp p)
  | p, .nonNull t => .nonNull (wpType τ inp p t)

theorem hd_rType (τ : Trivia) (sep : Bool) (p : Nat) (t : GType) (hwf : WF t) :
    Hd (fun d => nameStart d ∨ d = '[') (rType τ sep p t) := by
  induction t generalizing sep p with
  | named n pos => exact (hd_tk (hd_of_validName (show validName n.toList from hwf))).mono (fun _ h => Or.inl h)
  | list t pos _ =>
    simp only [rType]
    exact Hd.append (hd_tk (P := fun d => nameStart d ∨ d = '[') (hd_cons [] (Or.inr rfl))) _
  | nonNull t ih =>
    simp only [rType]
    exact (ih false p hwf.1).append _

def InnerOk (τ : Trivia) (inp : List Char) (t : GType) : Prop := ∀ (sep : Bool) (p : Nat) (bad : Char → Prop),
  HasAt inp p (rType τ sep p t) → Nxt inp bad sep (p + (rType τ sep p t).length) →
  ∃ pr, RunsK (B (rType τ sep p t).length + 5) (.call (innerRule t)) (At inp p)
      (At inp (p + (rType τ sep p t).length)) [pr] ∧ PairOk (innerRule t) p pr ∧
    ∀ fuel, (rType τ sep p t).length ≤ fuel → buildTypeOf (Ctx.spec inp) fuel pr = .ok (wpType τ inp p t)

/-- the round-trip statement for the `Type` rule; what follows must not begin with `!` -/
def TypeOk (τ : Trivia) (inp : List Char) (t : GType) : Prop := ∀ (sep : Bool) (p : Nat) (bad : Char → Prop), bad '!' →
  HasAt inp p (rType τ sep p t) → Nxt inp bad sep (p + (rType τ sep p t).length) →
  ∃ pr, RunsK (B (rType τ sep p t).length + 20) (.call R.«Type») (At inp p)
      (At inp (p + (rType τ sep p t).length)) [pr] ∧ PairOk R.«Type» p pr ∧
    ∀ fuel, (rType τ sep p t).length + 1 ≤ fuel → buildType (Ctx.spec inp) fuel pr = .ok (wpType τ inp p t)

theorem namedType_fails_at {p : Nat} (h : HeadNot nameStart (inp.drop p)) :
    Fails gList 12 true (.call R.NamedType) .nonAtomic (At inp p) := fails_call (namedType_fails h)

theorem listType_fails_at {p : Nat} (h : HeadNot (· = '[') (inp.drop p)) :
    Fails gList 4 true (.call R.ListType) .nonAtomic (At inp p) := fails_call (listType_fails h)

theorem inner_named (τ : Trivia) (hτ : ∀ q, Ws (τ q)) (n : Name) (pos : Pos) (hn : validName n.toList) :
    InnerOk τ inp (.named n pos) := by
  intro sep p bad h hnx
  simp only [rType] at h hnx ⊢
  have r := runsKE_rule look_NamedType (by decide) (by decide) (nameT hτ hn h hnx)
  refine ⟨_, r.toK.mono (by omega), ?_, ?_⟩
  · exact pairOk_mk (r := R.NamedType) (by decide) (by decide) ⟨cleanP_of (by decide) (by decide) trivial, trivial⟩
  intro fuel hf
  obtain ⟨f, rfl⟩ : ∃ f, fuel = f + 1 := ⟨fuel - 1, by
    have := (hd_tk (τ := τ) (sep := sep) (p := p) (hd_of_validName hn)).length_pos; omega⟩
  have hs := (h.left : HasAt inp p n.toList).slice
  simp [buildTypeOf, innerRule, At, Pair.rule, onlyChildOf, onlyChild, Pair.children, OC_NamedType, asString_spec',
    toPos_spec', Pair.start, Pair.stop, hs, wpType, bind, Except.bind, R.NamedType, R.NonNullType, R.ListType]

theorem inner_list (τ : Trivia) (hτ : ∀ q, Ws (τ q)) (t : GType) (pos : Pos) (hwf : WF t) (ih : TypeOk τ inp t) :
    InnerOk τ inp (.list t pos) := by
  intro sep p bad h hnx
  simp only [rType] at h hnx ⊢
  generalize hO : tk τ false p ['['] = tO at *
  generalize hI : rType τ false (p + tO.length) t = tI at *
  generalize hC : tk τ sep (p + tO.length + tI.length) [']'] = tC at *
  have hlen : p + (tO ++ (tI ++ tC)).length = p + tO.length + tI.length + tC.length := by
    simp only [List.length_append]; omega
  rw [hlen] at hnx ⊢
  have g0 : HasAt inp p tO := h.left
  have g1 : HasAt inp (p + tO.length) tI := h.right.left
  have g2 : HasAt inp (p + tO.length + tI.length) tC := h.right.right
  have hdC : Hd (· = ']') tC := hC ▸ hd_tk (hd_cons _ rfl)
  have hlO : 1 ≤ tO.length := by rw [← hO]; simp [tk]
  have hlC : 1 ≤ tC.length := hdC.length_pos
  have hTokI : Tok (At inp (p + tO.length)) := tok_of_hd g1 (hI ▸ hd_rType τ false _ t hwf) (by
    rintro c (hc | rfl)
    · exact nameStart_not_trivia hc
    · decide)
  have r0 := strT hτ ['['] (hO ▸ g0) (by rw [hO]; exact hTokI)
  obtain ⟨prT, rT, hokT, hbT⟩ := ih false (p + tO.length) (· = '!') rfl (hI ▸ g1)
    (by rw [hI]; exact Nxt.of_hd g2 hdC (by rintro c rfl; decide))
  have r2 := strT hτ [']'] (hC ▸ g2) (by rw [hC]; exact hnx.tok)
  rw [hO] at r0
  rw [hI] at rT hbT
  rw [hC] at r2
  obtain ⟨e, rL⟩ := runsK_rule look_ListType (by decide) (by decide) (runsK_seq r0 (runsK_seq rT r2))
  refine ⟨_, rL.mono (by barith), ?_, ?_⟩
  · exact pairOk_mk (r := R.ListType) (by decide) (by decide) (by simp [CleanL, hokT.clean])
  intro fuel hf
  obtain ⟨f, rfl⟩ : ∃ f, fuel = f + 1 := ⟨fuel - 1, by simp only [List.length_append] at hf; omega⟩
  have hb := hbT f (by simp only [List.length_append] at hf; omega)
  simp [buildTypeOf, innerRule, At, Pair.rule, onlyChild, Pair.children, toPos_spec', Pair.start, hb, wpType,
    bind, Except.bind, R.NonNullType, R.ListType, hO]

theorem bang_fails_at {p : Nat} (h : HeadNot (· = '!') (inp.drop p)) :
    Fails gList 1 true (.str ['!']) .nonAtomic (At inp p) := str_fails h

/-- `NonNullType` on the text of a type `t'` followed by `!` -/
theorem inner_nonNull (τ : Trivia) (hτ : ∀ q, Ws (τ q)) (t : GType) (hwf : WF (.nonNull t)) (ih : InnerOk τ inp t) :
    InnerOk τ inp (.nonNull t) := by
  intro sep p bad h hnx
  simp only [rType] at h hnx ⊢
  generalize hI : rType τ false p t = tI at *
  generalize hC : tk τ sep (p + tI.length) ['!'] = tC at *
  have hlen : p + (tI ++ tC).length = p + tI.length + tC.length := by simp only [List.length_append]; omega
  rw [hlen] at hnx ⊢
  have g1 : HasAt inp p tI := h.left
  have g2 : HasAt inp (p + tI.length) tC := h.right
  have hdC : Hd (· = '!') tC := hC ▸ hd_tk (hd_cons _ rfl)
  have hlC : 1 ≤ tC.length := hdC.length_pos
  obtain ⟨prI, rI, hokI, hbI⟩ := ih false p (fun _ => False) (hI ▸ g1)
    (by rw [hI]; exact Nxt.of_hd g2 hdC (by rintro c rfl; decide))
  have r2 := strT hτ ['!'] (hC ▸ g2) (by rw [hC]; exact hnx.tok)
  rw [hI] at rI hbI
  rw [hC] at r2
  have hbuild : ∀ e, ∀ fuel, tI.length + tC.length ≤ fuel →
      buildTypeOf (Ctx.spec inp) fuel (.mk R.NonNullType p e [prI]) = .ok (wpType τ inp p (.nonNull t)) := by
    intro e fuel hf
    obtain ⟨f, rfl⟩ : ∃ f, fuel = f + 1 := ⟨fuel - 1, by omega⟩
    have hb := hbI f (by omega)
    have hr : prI.rule = R.NamedType ∨ prI.rule = R.ListType := by
      rw [hokI.rule]
      cases t with
      | named => exact Or.inl rfl
      | list => exact Or.inr rfl
      | nonNull t' => simp [WF, GType.isNonNull] at hwf
    cases prI with
    | mk r s e' cs =>
      simp only [Pair.rule] at hr
      rcases hr with rfl | rfl <;>
        simp [buildTypeOf, Pair.rule, onlyChildOf, onlyChild, Pair.children, OC_NonNullType, hb, wpType, bind,
          Except.bind, R.NamedType, R.NonNullType, R.ListType]
  cases t with
  | named n pos =>
    obtain ⟨e, rN⟩ := runsK_rule look_NonNullType (by decide) (by decide)
      (runsK_choice_l (b := .seq (.call R.ListType) (.str ['!'])) (runsK_seq rI r2))
    refine ⟨_, rN.mono (by barith), ?_, ?_⟩
    · exact pairOk_mk (r := R.NonNullType) (by decide) (by decide) (by simp [CleanL, hokI.clean])
    intro fuel hf
    simpa [At, innerRule] using hbuild e fuel (by simpa using hf)
  | list t' pos =>
    have hhd : Hd (· = '[') tI := by
      rw [← hI]; simp only [rType]
      exact Hd.append (hd_tk (P := (· = '[')) (hd_cons [] rfl)) _
    have fA : Fails gList 14 true (.seq (.call R.NamedType) (.str ['!'])) .nonAtomic (At inp p) :=
      (fails_seq_1 (namedType_fails_at (headNot_of_hd g1 hhd (by rintro c rfl; decide)))).mono (by omega)
    obtain ⟨e, rN⟩ := runsK_rule look_NonNullType (by decide) (by decide) (runsK_choice_r fA (runsK_seq rI r2))
    refine ⟨_, rN.mono (by barith), ?_, ?_⟩
    · exact pairOk_mk (r := R.NonNullType) (by decide) (by decide) (by simp [CleanL, hokI.clean])
    intro fuel hf
    simpa [At, innerRule] using hbuild e fuel (by simpa using hf)
  | nonNull t' => simp [WF, GType.isNonNull] at hwf

theorem buildType_of_inner (τ : Trivia) (t : GType) (p e : Nat) (prI : Pair) (fuel n : Nat)
    (hb : ∀ fuel, n ≤ fuel → buildTypeOf (Ctx.spec inp) fuel prI = .ok (wpType τ inp p t)) (hf : n + 1 ≤ fuel) :
    buildType (Ctx.spec inp) fuel (.mk R.«Type» p e [prI]) = .ok (wpType τ inp p t) := by
  obtain ⟨f, rfl⟩ : ∃ f, fuel = f + 1 := ⟨fuel - 1, by omega⟩
  simp [buildType, onlyChild, Pair.children, hb f (by omega), bind, Except.bind]

theorem type_named (τ : Trivia) (hτ : ∀ q, Ws (τ q)) (n : Name) (pos : Pos) (hn : validName n.toList)
    (hin : InnerOk τ inp (.named n pos)) : TypeOk τ inp (.named n pos) := by
  intro sep p bad hbad h hnx
  obtain ⟨prI, rI, hokI, hbI⟩ := hin sep p bad h hnx
  have hend := headNot_mono (fun d (hd : d = '!') => hd ▸ hbad) hnx.ok
  -- `NonNullType` fails: `NamedType "!"` at the missing `!`, `ListType "!"` at the name
  have hhd : Hd nameStart (rType τ sep p (.named n pos)) := hd_tk (hd_of_validName hn)
  have fA := fails_seq_K rI (bang_fails_at hend)
  have fB : Fails gList 6 true (.seq (.call R.ListType) (.str ['!'])) .nonAtomic (At inp p) :=
    (fails_seq_1 (listType_fails_at (headNot_of_hd h hhd (fun d hd => (nameStart_not_punct hd).2.2.2.2.2.2.2.2.2.2.1)))).mono
      (by omega)
  have fN := fails_rule look_NonNullType (by decide) (by decide) (fails_choice_K fA fB)
  obtain ⟨e, rT⟩ := runsK_rule look_Type (by decide) (by decide)
    (runsK_choice_r fN (runsK_choice_l (b := .call R.ListType) rI))
  have hl := hhd.length_pos
  refine ⟨_, rT.mono (by barith), pairOk_mk (by decide) (by decide) ⟨hokI.clean, trivial⟩, ?_⟩
  intro fuel hf
  simpa [At] using buildType_of_inner τ (.named n pos) p e prI fuel _ hbI hf

theorem type_list (τ : Trivia) (hτ : ∀ q, Ws (τ q)) (t : GType) (pos : Pos)
    (hin : InnerOk τ inp (.list t pos)) : TypeOk τ inp (.list t pos) := by
  intro sep p bad hbad h hnx
  obtain ⟨prI, rI, hokI, hbI⟩ := hin sep p bad h hnx
  have hend := headNot_mono (fun d (hd : d = '!') => hd ▸ hbad) hnx.ok
  have hhd : Hd (· = '[') (rType τ sep p (.list t pos)) := by
    simp only [rType]
    exact Hd.append (hd_tk (P := (· = '[')) (hd_cons [] rfl)) _
  have hns : HeadNot nameStart (inp.drop p) := headNot_of_hd h hhd (by rintro c rfl; decide)
  have fA : Fails gList 14 true (.seq (.call R.NamedType) (.str ['!'])) .nonAtomic (At inp p) :=
    (fails_seq_1 (namedType_fails_at hns)).mono (by omega)
  have fB := fails_seq_K rI (bang_fails_at hend)
  have fN := fails_rule look_NonNullType (by decide) (by decide) (fails_choice_K fA fB)
  obtain ⟨e, rT⟩ := runsK_rule look_Type (by decide) (by decide)
    (runsK_choice_r fN (runsK_choice_r (namedType_fails_at hns) rI))
  have hl := hhd.length_pos
  refine ⟨_, rT.mono (by barith), pairOk_mk (by decide) (by decide) ⟨hokI.clean, trivial⟩, ?_⟩
  intro fuel hf
  simpa [At] using buildType_of_inner τ (.list t pos) p e prI fuel _ hbI hf

theorem type_nonNull (τ : Trivia) (t : GType) (hin : InnerOk τ inp (.nonNull t)) : TypeOk τ inp (.nonNull t) := by
  intro sep p bad _ h hnx
  obtain ⟨prI, rI, hokI, hbI⟩ := hin sep p bad h hnx
  obtain ⟨e, rT⟩ := runsK_rule look_Type (by decide) (by decide)
    (runsK_choice_l (b := .choice (.call R.NamedType) (.call R.ListType)) rI)
  refine ⟨_, rT.mono (by omega), pairOk_mk (by decide) (by decide) ⟨hokI.clean, trivial⟩, ?_⟩
  intro fuel hf
  simpa [At] using buildType_of_inner τ (.nonNull t) p e prI fuel _ hbI hf

/-- every well-formed type satisfies both statements -/
theorem type_all (τ : Trivia) (hτ : ∀ q, Ws (τ q)) : ∀ (t : GType), WF t → InnerOk τ inp t ∧ TypeOk τ inp t := by
  intro t
  induction t with
  | named n pos =>
    intro hwf
    have hin := inner_named (inp := inp) τ hτ n pos hwf
    exact ⟨hin, type_named τ hτ n pos hwf hin⟩
  | list t pos ih =>
    intro hwf
    have hin := inner_list τ hτ t pos hwf (ih hwf).2
    exact ⟨hin, type_list τ hτ t pos hin⟩
  | nonNull t ih =>
    intro hwf
    have hin := inner_nonNull τ hτ t hwf (ih hwf.1).1
    exact ⟨hin, type_nonNull τ t hin⟩

end NitroVerif.DocParse
