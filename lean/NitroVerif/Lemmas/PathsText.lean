import NitroVerif.Lemmas.Paths
/-! Text-level lemmas for C20: `componentsL (renderL l) = l` on the canonical lists the model produces. -/
namespace NitroVerif.Paths

def NoSlash (s : List Char) : Prop := '/' ∉ s

theorem splitSlashGo_cons_ne (c : Char) (r cur : List Char) (hc : c ≠ '/') :
    splitSlashGo (c :: r) cur = splitSlashGo r (c :: cur) := by
  rw [splitSlashGo]
  · intro h; exact hc h

theorem splitSlashGo_cons_slash (r cur : List Char) :
    splitSlashGo ('/' :: r) cur = cur.reverse :: splitSlashGo r [] := by
  rw [splitSlashGo]

theorem splitSlashGo_noSlash (a cur : List Char) (h : NoSlash a) :
    splitSlashGo a cur = [cur.reverse ++ a] := by
  induction a generalizing cur with
  | nil => simp [splitSlashGo]
  | cons c r ih =>
    have hc : c ≠ '/' := by intro e; apply h; simp [e]
    have hr : NoSlash r := by intro m; apply h; simp [m]
    rw [splitSlashGo_cons_ne c r cur hc, ih _ hr]; simp

theorem splitSlashGo_seg (a r cur : List Char) (h : NoSlash a) :
    splitSlashGo (a ++ '/' :: r) cur = (cur.reverse ++ a) :: splitSlashGo r [] := by
  induction a generalizing cur with
  | nil => simp [splitSlashGo_cons_slash]
  | cons c t ih =>
    have hc : c ≠ '/' := by intro e; apply h; simp [e]
    have ht : NoSlash t := by intro m; apply h; simp [m]
    show splitSlashGo (c :: (t ++ '/' :: r)) cur = _
    rw [splitSlashGo_cons_ne c _ cur hc, ih _ ht]; simp

/-- splitting the '/'-join of slash-free segments gives the segments back -/
theorem splitSlash_joinSlash (ss : List (List Char)) (hne : ss ≠ []) (h : ∀ s ∈ ss, NoSlash s) :
    splitSlash (joinSlash ss) = ss := by
  induction ss with
  | nil => exact absurd rfl hne
  | cons a rest ih =>
    cases rest with
    | nil => simp [joinSlash, splitSlash, splitSlashGo_noSlash a [] (h a (by simp))]
    | cons b rest' =>
      have ha := h a (by simp)
      have hrest : ∀ s ∈ b :: rest', NoSlash s := fun s hs => h s (by simp [hs])
      have := ih (by simp) hrest
      unfold splitSlash at *
      simp only [joinSlash]
      rw [splitSlashGo_seg a _ [] ha, this]
      simp

/-- a legal path segment: non-empty, no '/', not "." and not ".." -/
def GoodSeg (s : List Char) : Prop := s ≠ [] ∧ NoSlash s ∧ s ≠ ['.'] ∧ s ≠ ['.', '.']

/-- all components are normal with legal segment text -/
def GoodNormals (l : P) : Prop := ∀ c ∈ l, ∃ s : String, c = .normal s ∧ GoodSeg s.toList

theorem goodNormals_cons {c : Comp} {l : P} : GoodNormals (c :: l) ↔ (∃ s : String, c = .normal s ∧ GoodSeg s.toList) ∧ GoodNormals l := by
  simp [GoodNormals]

theorem segsToComps_goodNormals (keep : Bool) (ns : P) (h : GoodNormals ns) (hk : keep = false) :
    segsToComps keep (ns.map compTextL) = ns := by
  subst hk
  induction ns with
  | nil => simp [segsToComps]
  | cons c r ih =>
    obtain ⟨⟨s, rfl, hne, _, hd, hdd⟩, hr⟩ := goodNormals_cons.mp h
    simp only [List.map_cons, compTextL, segsToComps, hne, hd, hdd, if_false, ih hr, String.ofList_toList]

theorem noSlash_compTextL_goodNormals (ns : P) (h : GoodNormals ns) : ∀ s ∈ ns.map compTextL, NoSlash s := by
  intro s hs
  simp only [List.mem_map] at hs
  obtain ⟨c, hc, rfl⟩ := hs
  obtain ⟨t, rfl, _, hns, _⟩ := h c hc
  exact hns

end NitroVerif.Paths

namespace NitroVerif.Paths

theorem splitSlashGo_noSlash_mem (cs cur : List Char) (hcur : NoSlash cur) :
    ∀ seg ∈ splitSlashGo cs cur, NoSlash seg := by
  induction cs generalizing cur with
  | nil => intro seg h; simp [splitSlashGo] at h; subst h; intro m; exact hcur (by simpa using m)
  | cons c r ih =>
    by_cases hc : c = '/'
    · subst hc
      rw [splitSlashGo_cons_slash]
      intro seg h
      simp only [List.mem_cons] at h
      rcases h with rfl | h
      · intro m; exact hcur (by simpa using m)
      · exact ih [] (by simp [NoSlash]) seg h
    · rw [splitSlashGo_cons_ne c r cur hc]
      exact ih (c :: cur) (by intro m; simp at m; rcases m with m | m; exact hc m.symm; exact hcur m)

/-- every normal component has legal segment text -/
def CompsGood (l : P) : Prop := ∀ c ∈ l, ∀ s : String, c = .normal s → GoodSeg s.toList

theorem segsToComps_good (keep : Bool) (segs : List (List Char)) (h : ∀ s ∈ segs, NoSlash s) :
    CompsGood (segsToComps keep segs) := by
  induction segs generalizing keep with
  | nil => intro c hc; simp [segsToComps] at hc
  | cons seg rest ih =>
    have hrest : ∀ s ∈ rest, NoSlash s := fun s hs => h s (by simp [hs])
    unfold segsToComps
    split
    · exact ih _ hrest
    · split
      · split
        · intro c hc s hs; simp only [List.mem_cons] at hc
          rcases hc with rfl | hc
          · cases hs
          · exact ih _ hrest c hc s hs
        · exact ih _ hrest
      · split
        · intro c hc s hs; simp only [List.mem_cons] at hc
          rcases hc with rfl | hc
          · cases hs
          · exact ih _ hrest c hc s hs
        · next h1 h2 h3 =>
          intro c hc s hs; simp only [List.mem_cons] at hc
          rcases hc with rfl | hc
          · injection hs with hs; subst hs
            simp only [String.toList_ofList]
            exact ⟨h1, h seg (by simp), h2, h3⟩
          · exact ih _ hrest c hc s hs

theorem componentsL_good (cs : List Char) : CompsGood (componentsL cs) := by
  have hs : ∀ s ∈ splitSlash cs, NoSlash s := splitSlashGo_noSlash_mem cs [] (by simp [NoSlash])
  unfold componentsL
  split
  · intro c hc s hcs; simp only [List.mem_cons] at hc
    rcases hc with rfl | hc
    · cases hcs
    · exact segsToComps_good _ _ hs c hc s hcs
  · exact segsToComps_good _ _ hs

theorem mem_foldl_normStep (p s : P) : ∀ c ∈ p.foldl normStep s, c ∈ s ∨ c ∈ p := by
  induction p generalizing s with
  | nil => intro c h; exact Or.inl h
  | cons x r ih =>
    intro c h
    rcases ih (normStep s x) c h with h | h
    · cases x with
      | cur => exact Or.inl h
      | root => simp [normStep] at h; subst h; exact Or.inr (by simp)
      | parent => exact Or.inl ((List.dropLast_sublist s).subset h)
      | normal n =>
        simp only [normStep, List.mem_append, List.mem_singleton] at h
        rcases h with h | h
        · exact Or.inl h
        · exact Or.inr (by simp [h])
    · exact Or.inr (by simp [h])

theorem mem_normalize (p : P) : ∀ c ∈ normalize p, c ∈ p := by
  intro c h
  rcases mem_foldl_normStep p [] c h with h | h
  · cases h
  · exact h

theorem goodNormals_of (l : P) (hn : Normals l) (hg : CompsGood l) : GoodNormals l := by
  intro c hc
  have := hn c hc
  cases c with
  | normal s => exact ⟨s, rfl, hg _ hc s rfl⟩
  | _ => exact absurd this (by simp [IsNormal])

end NitroVerif.Paths
