import NitroVerif.Lemmas.CheckOpSites
/-! `check_fragment_spread_core`'s applicability analysis implies the specification's "possible types overlap". -/
namespace NitroVerif.CheckOp
open NitroVerif.Gql NitroVerif.CheckCommon NitroVerif.Valid

theorem possibleTypes_object {S : Schema} {n : Name} {td : TypeDef} (h : S.typeDef? n = some td)
    (hk : td.kind = .object) : S.possibleTypes n = [td.name] := by simp [Schema.possibleTypes, h, hk]
theorem possibleTypes_union {S : Schema} {n : Name} {td : TypeDef} (h : S.typeDef? n = some td)
    (hk : td.kind = .union) : S.possibleTypes n = td.members.map (·.1) := by simp [Schema.possibleTypes, h, hk]
theorem possibleTypes_interface {S : Schema} {n : Name} {td : TypeDef} (h : S.typeDef? n = some td)
    (hk : td.kind = .interface) : S.possibleTypes n = S.objectImplementers n := by simp [Schema.possibleTypes, h, hk]

theorem mem_objectImplementers {S : Schema} {o : TypeDef} {i : Name} (hm : o ∈ S.typeDefs) (hk : o.kind = .object)
    (hi : implementsIface o i = true) : o.name ∈ S.objectImplementers i := by
  unfold Schema.objectImplementers
  refine List.mem_map.mpr ⟨o, List.mem_filter.mpr ⟨hm, ?_⟩, rfl⟩
  simp only [hk, beq_self_eq_true, Bool.true_and]
  exact hi

theorem kind_beq_object {k : TypeKind} : (k == TypeKind.object) = true → k = .object := by
  cases k <;> decide

theorem or_finish {a X : Bool} (h : X = true) : (a || X) = true := by simp [h]

theorem isComposite_of_kind {S : Schema} {n : Name} {td : TypeDef} (h : S.typeDef? n = some td) :
    S.isComposite n = (match td.kind with | .object | .interface | .union => true | _ => false) := by
  simp only [Schema.isComposite, Schema.kindOf?, h, Option.map_some]
  cases td.kind <;> rfl

/-- the interface × union arm: a quiet, successful search found a member that is an object implementing the interface -/
theorem unionMemberImplements_found {S : Schema} {A : ErrKind → Bool} (hA : Admissible A) {iface : Name} :
    ∀ (ms : List (Name × Pos)), Quiet A (unionMemberImplements S iface ms).1 → (unionMemberImplements S iface ms).2 = true →
      ∃ m ∈ ms, ∃ o, S.typeDef? m.1 = some o ∧ o.kind = .object ∧ implementsIface o iface = true := by
  intro ms
  induction ms with
  | nil => intro _ h; simp [unionMemberImplements] at h
  | cons m ms ih =>
    obtain ⟨mn, mp⟩ := m
    intro hq hr
    simp only [unionMemberImplements] at hq hr
    have hk := hA _ (by decide : ErrKind.TypeSystemError ≠ ErrKind.UnknownVariable)
    cases ho : S.typeDef? mn with
    | none => simp only [ho] at hq; rw [quiet_single, hk] at hq; cases hq
    | some o =>
      simp only [ho] at hq hr
      cases hobj : (o.kind == TypeKind.object) with
      | false => simp only [hobj, Bool.false_eq_true, if_false] at hq; rw [quiet_single, hk] at hq; cases hq
      | true =>
        simp only [hobj, if_true] at hq hr
        cases hi : implementsIface o iface with
        | true => exact ⟨(mn, mp), by simp, o, ho, kind_beq_object hobj, hi⟩
        | false =>
          simp only [hi, Bool.false_eq_true, if_false] at hq hr
          obtain ⟨m', hm', rest⟩ := ih hq hr
          exact ⟨m', List.mem_cons_of_mem _ hm', rest⟩

theorem quiet_never {A : ErrKind → Bool} (hA : Admissible A) {b : Bool} {pos : Pos}
    (h : Quiet A (if b then [] else [(ErrKind.FragmentConditionNeverMatches, pos)])) : b = true := by
  cases b with
  | true => rfl
  | false =>
    have hk := hA _ (by decide : ErrKind.FragmentConditionNeverMatches ≠ ErrKind.UnknownVariable)
    simp only [Bool.false_eq_true, if_false] at h
    rw [quiet_single, hk] at h; cases h

theorem any_contains_of_common {a b : List Name} {x : Name} (ha : x ∈ a) (hb : x ∈ b) :
    (a.any fun t => b.contains t) = true :=
  List.any_eq_true.mpr ⟨x, ha, by simpa using hb⟩

/-- **Applicability lemma.** A quiet applicability analysis between existing types implies that the possible
    types of scope and condition overlap (spec 5.5.2.3), or one of the two is not composite. -/
theorem applicability_canApply {S : Schema} {A : ErrKind → Bool} (hA : Admissible A) {t c : Name} {root ct : TypeDef}
    {pos : Pos} (ht : S.typeDef? t = some root) (hc : S.typeDef? c = some ct)
    (hq : Quiet A (spreadApplicability S root ct pos).1) : canApply S t c = true := by
  have htn := typeDef?_name ht
  have hcn := typeDef?_name hc
  have hrm := typeDef?_mem ht
  have hcm := typeDef?_mem hc
  unfold canApply
  rw [isComposite_of_kind ht, isComposite_of_kind hc]
  unfold spreadApplicability at hq
  cases hrk : root.kind <;> cases hck : ct.kind <;> simp only [hrk, hck] at hq ⊢ <;> try (simp; done)
  · -- object, object
    have : (root.name != ct.name) = false := by
      cases hne : (root.name != ct.name) with
      | false => rfl
      | true =>
        have hk := hA _ (by decide : ErrKind.FragmentConditionNeverMatches ≠ ErrKind.UnknownVariable)
        simp only [hne, if_true] at hq
        rw [quiet_single, hk] at hq; cases hq
    have : root.name = ct.name := by simpa using this
    have : t = c := by rw [← htn, ← hcn, this]
    simp [this]
  · -- object, interface
    have hi := quiet_never hA hq
    have := any_contains_of_common (a := S.possibleTypes t) (b := S.possibleTypes c) (x := root.name)
      (by rw [possibleTypes_object ht hrk]; simp)
      (by rw [possibleTypes_interface hc hck, ← hcn]; exact mem_objectImplementers hrm hrk hi)
    exact or_finish this
  · -- object, union
    have hi := quiet_never hA hq
    obtain ⟨m, hm, hmn⟩ := List.any_eq_true.mp hi
    have := any_contains_of_common (a := S.possibleTypes t) (b := S.possibleTypes c) (x := root.name)
      (by rw [possibleTypes_object ht hrk]; simp)
      (by rw [possibleTypes_union hc hck]; exact List.mem_map.mpr ⟨m, hm, by simpa using hmn⟩)
    exact or_finish this
  · -- interface, object
    have hi := quiet_never hA hq
    have := any_contains_of_common (a := S.possibleTypes t) (b := S.possibleTypes c) (x := ct.name)
      (by rw [possibleTypes_interface ht hrk, ← htn]; exact mem_objectImplementers hcm hck hi)
      (by rw [possibleTypes_object hc hck]; simp)
    exact or_finish this
  · -- interface, interface
    by_cases hsame : root.name = ct.name
    · have : t = c := by rw [← htn, ← hcn, hsame]
      simp [this]
    · have hne : (root.name == ct.name) = false := by simpa using hsame
      simp only [hne, Bool.false_eq_true, if_false] at hq
      have hi := quiet_never hA hq
      obtain ⟨n, _, hn⟩ := List.any_eq_true.mp hi
      cases ho : S.typeDef? n with
      | none => simp [ho] at hn
      | some o =>
        simp only [ho, Bool.and_eq_true] at hn
        obtain ⟨⟨hok', hi1⟩, hi2⟩ := hn
        have hok := kind_beq_object hok'
        have hom := typeDef?_mem ho
        have := any_contains_of_common (a := S.possibleTypes t) (b := S.possibleTypes c) (x := o.name)
          (by rw [possibleTypes_interface ht hrk, ← htn]; exact mem_objectImplementers hom hok hi1)
          (by rw [possibleTypes_interface hc hck, ← hcn]; exact mem_objectImplementers hom hok hi2)
        exact or_finish this
  · -- interface, union
    rw [quiet_append] at hq
    have hr := quiet_never hA hq.2
    obtain ⟨m, hm, o, ho, hok, hi⟩ := unionMemberImplements_found hA _ hq.1 hr
    have hon := typeDef?_name ho
    have := any_contains_of_common (a := S.possibleTypes t) (b := S.possibleTypes c) (x := m.1)
      (by rw [possibleTypes_interface ht hrk, ← htn, ← hon]; exact mem_objectImplementers (typeDef?_mem ho) hok hi)
      (by rw [possibleTypes_union hc hck]; exact List.mem_map.mpr ⟨m, hm, rfl⟩)
    exact or_finish this
  · -- union, object
    have hi := quiet_never hA hq
    obtain ⟨m, hm, hmn⟩ := List.any_eq_true.mp hi
    have := any_contains_of_common (a := S.possibleTypes t) (b := S.possibleTypes c) (x := ct.name)
      (by rw [possibleTypes_union ht hrk]; exact List.mem_map.mpr ⟨m, hm, by simpa using hmn⟩)
      (by rw [possibleTypes_object hc hck]; simp)
    exact or_finish this
  · -- union, interface
    rw [quiet_append] at hq
    have hr := quiet_never hA hq.2
    obtain ⟨m, hm, o, ho, hok, hi⟩ := unionMemberImplements_found hA _ hq.1 hr
    have hon := typeDef?_name ho
    have := any_contains_of_common (a := S.possibleTypes t) (b := S.possibleTypes c) (x := m.1)
      (by rw [possibleTypes_union ht hrk]; exact List.mem_map.mpr ⟨m, hm, rfl⟩)
      (by rw [possibleTypes_interface hc hck, ← hcn, ← hon]; exact mem_objectImplementers (typeDef?_mem ho) hok hi)
    exact or_finish this
  · -- union, union
    have hi := quiet_never hA hq
    obtain ⟨m2, hm2, h2⟩ := List.any_eq_true.mp hi
    obtain ⟨m1, hm1, h12⟩ := List.any_eq_true.mp h2
    have h12' : m1.1 = m2.1 := by simpa using h12
    have := any_contains_of_common (a := S.possibleTypes t) (b := S.possibleTypes c) (x := m1.1)
      (by rw [possibleTypes_union ht hrk]; exact List.mem_map.mpr ⟨m1, hm1, rfl⟩)
      (by rw [possibleTypes_union hc hck]; exact List.mem_map.mpr ⟨m2, hm2, h12'.symm⟩)
    exact or_finish this

theorem quiet_flatMap {A : ErrKind → Bool} {α} {l : List α} {f : α → List Diag} :
    Quiet A (l.flatMap f) ↔ ∀ x ∈ l, Quiet A (f x) := by
  constructor
  · intro h x hx d hd; exact h d (List.mem_flatMap.mpr ⟨x, hx, hd⟩)
  · intro h d hd
    obtain ⟨x, hx, hd⟩ := List.mem_flatMap.mp hd
    exact h x hx d hd

/-- what a quiet `check_arguments` run establishes -/
theorem checkArguments_quiet {S : Schema} {A : ErrKind → Bool} (hA : Admissible A)
    {vars : Option (List VarDef)} {pos : Pos} {args : List Arg} {defs : List InputValueDef}
    (h : Quiet A (checkArguments S vars pos args defs)) :
    (∀ d ∈ defs, (d.ty.isNonNull && d.default.isNone) = true → args.any (·.1 == d.name) = true) ∧
    (∀ d ∈ defs, ∀ a, args.find? (fun a => d.name == a.1) = some a →
      Quiet A (checkValue S vars a.2.2 d.ty d.default.isSome)) := by
  unfold checkArguments at h
  cases hde : defs.isEmpty with
  | true =>
    have : defs = [] := by simpa using hde
    subst this
    exact ⟨(by intro d hd; cases hd), (by intro d hd; cases hd)⟩
  | false =>
    simp only [hde, Bool.false_eq_true, if_false] at h
    rw [quiet_append, quiet_append] at h
    unfold argOutcomes at h
    have h1 := quiet_flatMap.mp h.1.2
    refine ⟨?_, ?_⟩
    · intro d hd hreq
      have := h1 _ (List.mem_map.mpr ⟨d, hd, rfl⟩)
      cases hf : args.find? (fun a => d.name == a.1) with
      | some a =>
        have hm := List.mem_of_find?_eq_some hf
        have hp := List.find?_some hf
        have hp' : d.name = a.1 := by simpa using hp
        exact List.any_eq_true.mpr ⟨a, hm, by simp [hp']⟩
      | none =>
        simp only [hf] at this
        have hreq' : (!d.ty.isNonNull || d.default.isSome) = false := by
          simp only [Bool.and_eq_true] at hreq
          cases hq : d.default <;> simp_all
        simp only [hreq', Bool.false_eq_true, if_false] at this
        have hk := hA _ (by decide : ErrKind.RequiredArgumentNotSpecified ≠ ErrKind.UnknownVariable)
        rw [quiet_single, hk] at this; cases this
    · intro d hd a hf
      have := h1 _ (List.mem_map.mpr ⟨d, hd, rfl⟩)
      simpa only [hf] using this

end NitroVerif.CheckOp
