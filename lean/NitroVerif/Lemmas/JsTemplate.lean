import NitroVerif.Model.JsTemplate
import NitroVerif.Spec.Cook
/-!
Helper lemmas for C16: the template-literal escaping of `JsStringWriter` against the cooking spec.
-/
namespace NitroVerif.JsTemplate
open NitroVerif.Cook

/-- the cooking state that corresponds to the writer's `dollar_flag` -/
def stOf (d : Bool) : St := if d then .dollar else .normal

theorem run_escChar (d : Bool) (c : Char) (hc : c ≠ '\r') (rest : List Char) :
    run (stOf d) (escChar d c ++ rest) = (run (stOf (c == '$')) rest).map (c :: ·) := by
  unfold escChar
  by_cases h1 : c = '\\'
  · subst h1
    cases d <;> simp [stOf, run, step, stepNormal, stepBs, isDecimalDigit, LS, PS] <;> rfl
  · by_cases h2 : c = '$'
    · subst h2
      cases d <;> simp [stOf, run, step, stepNormal] <;> rfl
    · by_cases h3 : c = '`'
      · subst h3
        cases d <;> simp [stOf, run, step, stepNormal, stepBs, isDecimalDigit, LS, PS] <;> rfl
      · by_cases h4 : c = '{'
        · subst h4
          cases d <;> simp [stOf, run, step, stepNormal, stepBs, isDecimalDigit, LS, PS] <;> rfl
        · have hd : (c == '$') = false := by simpa using h2
          cases d <;> simp [stOf, run, step, stepNormal, h1, h2, h3, h4, hc, hd]

theorem run_jsGo (s : List Char) : ∀ (d : Bool), (∀ c ∈ s, c ≠ '\r') →
    run (stOf d) (jsGo d s) = some s := by
  induction s with
  | nil => intro d _; cases d <;> simp [jsGo, run, finish, stOf]
  | cons c cs ih =>
    intro d h
    have hc : c ≠ '\r' := h c (by simp)
    have hcs : ∀ x ∈ cs, x ≠ '\r' := fun x hx => h x (by simp [hx])
    rw [jsGo, run_escChar d c hc, ih _ hcs]
    rfl

theorem unbroken_escChar (d : Bool) (c : Char) (rest : List Char) :
    unbroken false d (escChar d c ++ rest) = unbroken false (c == '$') rest := by
  unfold escChar
  by_cases h1 : c = '\\'
  · subst h1; simp [unbroken]
  · by_cases h2 : c = '$'
    · subst h2; simp [unbroken]
    · by_cases h3 : c = '`'
      · subst h3; simp [unbroken]
      · by_cases h4 : c = '{'
        · subst h4; cases d <;> simp [unbroken]
        · simp [unbroken, h1, h2, h3, h4]

theorem unbroken_jsGo (s : List Char) : ∀ d, unbroken false d (jsGo d s) = true := by
  induction s with
  | nil => intro d; simp [jsGo, unbroken]
  | cons c cs ih => intro d; rw [jsGo, unbroken_escChar, ih]

end NitroVerif.JsTemplate
