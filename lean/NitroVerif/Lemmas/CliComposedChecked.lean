/-
C18 composed (helper lemmas): a schema document the schema check ACCEPTS is harmless for the operation checker's
position reports (`SchemaQ`, any `Q`) — argument / input-field types are defined (C05 `knownTypeRefs`) and union members
are object types (C05 `unionMembersObjects`, which needs the built-in-position type definitions to be pairwise
distinct) — and the resolved schema of the composed model has that last property when the parser never stamps a
position built-in.
-/
import NitroVerif.Lemmas.CliComposedLocated
import NitroVerif.Props.C05
namespace NitroVerif.CliComposed
open NitroVerif NitroVerif.Gql NitroVerif.Cli NitroVerif.CheckTs NitroVerif.ValidTs

theorem typeDef?_mem_typeDefs {T : TsDoc} {n : Name} {td : TypeDef} (h : Schema.typeDef? ⟨T⟩ n = some td) :
    td ∈ ValidTs.typeDefs T := List.mem_of_find?_eq_some h

/-- an accepted schema document (built-in-position type definitions pairwise distinct) has no fault the operation
    checker could report at a schema position -/
theorem schemaQ_of_checked (T : TsDoc) (h : checkSchema T = []) (hb : builtinTypeNamesDistinct T = true)
    (Q : Gql.Pos → Prop) : SchemaQ ⟨T⟩ Q := by
  have hk := C05_sound_knownTypeRefs T h
  have hu := C05_sound_unionMembersObjects T hb h
  simp only [knownTypeRefs, Bool.and_eq_true, List.all_eq_true] at hk
  obtain ⟨hkt, hki⟩ := hk
  have hknown : ∀ v ∈ inputValues T, TOk (⟨T⟩ : Schema) Q v.ty := fun v hv => tOk_of_isSome (hki v hv)
  refine ⟨?_, ?_, ?_, ?_⟩
  · intro n td hn hkind f hf
    apply hknown
    unfold inputValues
    refine List.mem_append_right _ (List.mem_flatMap.mpr ⟨td, typeDef?_mem_typeDefs hn, ?_⟩)
    simp [inputsOfT, hkind, hf]
  · intro n td hn hkind fd hfd a ha
    apply hknown
    unfold inputValues argLists
    refine List.mem_append_left _ (List.mem_flatten.mpr ⟨fd.args, List.mem_append_left _ ?_, ha⟩)
    refine List.mem_flatMap.mpr ⟨td, typeDef?_mem_typeDefs hn, List.mem_map.mpr ⟨fd, ?_, rfl⟩⟩
    rcases hkind with hkind | hkind <;> simp [fieldsOfT, isObjOrIface, hkind, hfd]
  · intro n dd hn a ha
    apply hknown
    unfold inputValues argLists
    refine List.mem_append_left _ (List.mem_flatten.mpr ⟨dd.args, List.mem_append_right _ ?_, ha⟩)
    exact List.mem_map.mpr ⟨dd, List.mem_of_find?_eq_some hn, rfl⟩
  · intro n td hn hkind m hm
    left
    have htd := typeDef?_mem_typeDefs hn
    have hmm : m ∈ membersOfT td := by simp [membersOfT, hkind, hm]
    have hmk : known ⟨T⟩ m.1 = true := ((hkt td htd).2 m hmm)
    simp only [Holds_unionMembersObjects, unionMembersObjects, List.all_eq_true] at hu
    have hmo := hu td htd m hmm
    unfold known at hmk
    cases hq : Schema.typeDef? ⟨T⟩ m.1 with
    | none => rw [hq] at hmk; cases hmk
    | some o =>
      refine ⟨o, rfl, ?_⟩
      simp only [Schema.kindOf?, hq, Option.map_some] at hmo
      cases hko : o.kind <;> first | rfl | (rw [hko] at hmo; exact absurd hmo (by decide))

/-! ### the built-in-position type definitions of the resolved schema are the five built-in scalars -/

/-- names of the type definitions whose name sits at a built-in position -/
def bn (l : List TypeDef) : List Name := (l.filter fun t => t.namePos.builtin).map (·.name)

theorem builtinNames_eq_bn (T : TsDoc) : builtinNames (typeIdents T) = bn (ValidTs.typeDefs T) := by
  unfold builtinNames typeIdents bn
  rw [List.filter_map, List.map_map]
  rfl

theorem bn_append (a b : List TypeDef) : bn (a ++ b) = bn a ++ bn b := by simp [bn]

theorem bn_perm {a b : List TypeDef} (h : a.Perm b) : (bn a).Perm (bn b) := (h.filter _).map _

theorem bn_map_refType (doc : TsDoc) (l : List TypeDef) : bn (l.map (ExtMerge.refType doc)) = bn l := by
  induction l with
  | nil => rfl
  | cons t l ih =>
    simp only [List.map_cons, bn, List.filter_cons] at ih ⊢
    have h1 : (ExtMerge.refType doc t).namePos = t.namePos := rfl
    have h2 : (ExtMerge.refType doc t).name = t.name := rfl
    rw [h1]
    split <;> simp [h2, ih]

theorem bn_flatMap {α : Type} (l : List α) (f : α → List TypeDef) : bn (l.flatMap f) = l.flatMap fun x => bn (f x) := by
  induction l with
  | nil => rfl
  | cons x l ih => simp [List.flatMap_cons, bn_append, ih]

theorem bn_eq_nil {l : List TypeDef} (h : ∀ t ∈ l, t.namePos.builtin = false) : bn l = [] := by
  unfold bn
  rw [List.map_eq_nil_iff, List.filter_eq_nil_iff]
  intro t ht
  simp [h t ht]

theorem typeDefs_of_typeItems (l : List TypeDef) :
    Schema.typeDefs ⟨l.map TsItem.typeDef⟩ = l := by
  unfold Schema.typeDefs
  induction l with
  | nil => rfl
  | cons t l ih => simp only [List.map_cons, List.filterMap_cons]; simp only at ih; rw [ih]

theorem builtins_bn :
    (ExtResolve.kindOrder.flatMap fun k => bn (ExtMerge.typeDefs k CliSchema.builtins)).Nodup := by decide

section
variable {Text κ : Type} [DecidableEq κ] {E : Env Text κ} {P : Project Text κ}

/-- the user part of the merged schema document -/
theorem mergedSchema_split (E : Env Text κ) (P : Project Text κ) :
    mergedSchema E P = (schemaParses E P).flatMap docOf ++ CliSchema.builtins := rfl

theorem user_typeDefs_not_builtin (hp : ParserStamps E) (k : TypeKind) :
    ∀ t ∈ ExtMerge.typeDefs k ((schemaParses E P).flatMap docOf), t.namePos.builtin = false := by
  intro t ht
  have hmem := (ExtResolve.mem_typeDefs.mp ht).1
  obtain ⟨r, hr, hit⟩ := List.mem_flatMap.mp hmem
  obtain ⟨i, txt, _, rfl⟩ := (mem_schemaParses E P r).mp hr
  cases hq : E.parseTs i txt with
  | error e => rw [hq] at hit; simp [docOf] at hit
  | ok T =>
    rw [hq] at hit
    simp only [docOf] at hit
    have hpos : t.namePos ∈ TsDoc.positions T :=
      List.mem_flatMap.mpr ⟨_, hit, by simp [TsItem.positions, TypeDef.positions]⟩
    exact (hp.ts i txt T hq _ hpos).2

/-- **in the composed model the built-in-position type definitions of the resolved schema are pairwise distinct**
    (they are the five scalars of `generate_builtins()`): the parser never stamps a position built-in, and
    `resolve_schema_extensions` keeps names and name positions -/
theorem resolvedSchema_builtinsDistinct (hp : ParserStamps E) :
    builtinTypeNamesDistinct (resolvedSchema E P) = true := by
  unfold builtinTypeNamesDistinct
  rw [noDup_iff_nodup, builtinNames_eq_bn]
  unfold resolvedSchema
  cases hq : ExtResolve.resolve (mergedSchema E P) with
  | error e => simp [ValidTs.typeDefs, Schema.typeDefs, bn]
  | ok out =>
    simp only
    obtain ⟨_, _, ss, ts, rfl, hss, hts⟩ := ExtResolve.resolve_ok _ out hq
    -- the type definitions of the output
    have hdir : Schema.typeDefs ⟨(ExtResolve.dirsOf (mergedSchema E P)).map TsItem.directiveDef⟩ = [] := by
      unfold Schema.typeDefs
      rw [List.filterMap_eq_nil_iff]
      intro it hit
      obtain ⟨d, _, rfl⟩ := List.mem_map.mp hit
      rfl
    have hssn : Schema.typeDefs ⟨ss⟩ = [] := by
      unfold Schema.typeDefs
      rw [List.filterMap_eq_nil_iff]
      intro it hit
      have := hss.mem_iff.mp hit
      unfold ExtResolve.schemaRef at this
      obtain ⟨s, _, rfl⟩ := List.mem_map.mp this
      rfl
    have htsp : (Schema.typeDefs ⟨ts⟩).Perm (ExtResolve.kindOrder.flatMap fun k =>
        (ExtMerge.typeDefs k (mergedSchema E P)).map (ExtMerge.refType (mergedSchema E P))) := by
      have h1 : (Schema.typeDefs ⟨ts⟩).Perm
          (Schema.typeDefs ⟨ExtResolve.kindOrder.flatMap (ExtResolve.kindRef (mergedSchema E P))⟩) := by
        unfold Schema.typeDefs
        exact hts.filterMap _
      refine h1.trans (List.Perm.of_eq ?_)
      unfold Schema.typeDefs
      simp only
      rw [List.filterMap_flatMap]
      congr 1
      funext k
      unfold ExtResolve.kindRef
      rw [List.filterMap_map]
      simp only [Function.comp_def]
      induction ExtMerge.typeDefs k (mergedSchema E P) with
      | nil => rfl
      | cons t l ih => simp only [List.filterMap_cons, List.map_cons, ih]
    have hall : ValidTs.typeDefs ((ExtResolve.dirsOf (mergedSchema E P)).map TsItem.directiveDef ++ ss ++ ts) =
        Schema.typeDefs ⟨ts⟩ := by
      unfold ValidTs.typeDefs Schema.typeDefs at *
      simp only [List.filterMap_append]
      simp only at hdir hssn
      rw [hdir, hssn]
      rfl
    rw [hall]
    refine (bn_perm htsp).nodup_iff.mpr ?_
    rw [bn_flatMap]
    have heach : ∀ k, bn ((ExtMerge.typeDefs k (mergedSchema E P)).map (ExtMerge.refType (mergedSchema E P))) =
        bn (ExtMerge.typeDefs k CliSchema.builtins) := by
      intro k
      rw [bn_map_refType, mergedSchema_split, ExtResolve.typeDefs_append, bn_append,
        bn_eq_nil (user_typeDefs_not_builtin hp k), List.nil_append]
    simp only [heach]
    exact builtins_bn

/-- hence, in the composed model, a schema the schema check accepts has no fault the operation checker could report
    at a schema position — no side condition left -/
theorem schemaQ_of_checked_composed (hp : ParserStamps E) (h : checkSchema (resolvedSchema E P) = [])
    (Q : Gql.Pos → Prop) : SchemaQ ⟨resolvedSchema E P⟩ Q :=
  schemaQ_of_checked _ h (resolvedSchema_builtinsDistinct hp) Q

end

end NitroVerif.CliComposed
