/-
The builder's value of a normal string literal is the value the GraphQL specification assigns to it (helper lemmas for
Props/C07 `string_decode_general`): for every literal body (a list of `SItem`s) whose items all decode (`SItem.decode`, what
`build_string_value` computes) and whose unescaped characters are SourceCharacters, the reference semantics
`GqlString.decodeStringLiteral` (spec §2.9.4, written independently for C16) returns the same characters.
A `\uXXXX` escape in the surrogate range does not decode in the builder (`char::from_u32` fails; the repaired parser reports
it as a syntax error), so surrogate PAIRS — which the specification reads as one supplementary character — are outside this
agreement: see `string_decode_surrogate_pair_counterexample` in Props/C07.
-/
import NitroVerif.Lemmas.ParseMoreStrBuild
import NitroVerif.Spec.GqlString
namespace NitroVerif.StringParse
open NitroVerif.Peg NitroVerif.Gen NitroVerif.Build NitroVerif.TypeParse NitroVerif.GqlString

theorem hexVal_eq (c : Char) : hexVal c = hexDigitVal c := rfl

theorem hexDigit_val {d : Char} (h : hexDigit d) : ∃ v, hexDigitVal d = some v := by
  unfold hexDigitVal
  rcases h with h | h | h
  · exact ⟨_, if_pos h⟩
  · by_cases h1 : '0' ≤ d ∧ d ≤ '9'
    · exact ⟨_, if_pos h1⟩
    · exact ⟨_, by rw [if_neg h1, if_pos h]⟩
  · by_cases h1 : '0' ≤ d ∧ d ≤ '9'
    · exact ⟨_, if_pos h1⟩
    · by_cases h2 : 'a' ≤ d ∧ d ≤ 'f'
      · exact ⟨_, by rw [if_neg h1, if_pos h2]⟩
      · exact ⟨_, by rw [if_neg h1, if_neg h2, if_pos h]⟩

theorem hexDigit_ne {d : Char} (h : hexDigit d) : d ≠ '+' ∧ d ≠ '{' ∧ d ≠ '}' := by
  refine ⟨?_, ?_, ?_⟩ <;> (rintro rfl; exact absurd h (by decide))

theorem hexFold_ge : ∀ (ds : List Char) (acc n : Nat), hexFold ds acc = some n → acc ≤ n := by
  intro ds
  induction ds with
  | nil => intro acc n h; simp [hexFold] at h; omega
  | cons d ds ih =>
    intro acc n h
    simp only [hexFold] at h
    cases hd : hexDigitVal d with
    | none => simp [hd] at h
    | some v =>
      rw [hd] at h
      have := ih _ _ h
      omega

theorem codePoint_valid {n : Nat} (h : validScalar n = true) : codePoint n = some (Char.ofNat n) ∧ isHighSurrogate n = false := by
  simp only [validScalar, Bool.or_eq_true, decide_eq_true_eq, Bool.and_eq_true] at h
  constructor
  · unfold codePoint
    split
    · rfl
    · rename_i hc
      exfalso
      apply hc
      simp [isSurrogate]
      omega
  · simp [isHighSurrogate]
    omega

theorem parseHex_eq {ds : List Char} (hne : ∀ d r, ds = d :: r → d ≠ '+') : parseHexU32 ds = hexDigitsU32 ds := by
  unfold parseHexU32
  split
  · rename_i r
    exact absurd rfl (hne '+' r rfl)
  · rfl

theorem parseHex_of {ds : List Char} {n : Nat} (h : parseHexU32 ds = .ok n) (hne : ∀ d r, ds = d :: r → d ≠ '+') :
    hexFold ds 0 = some n := by
  rw [parseHex_eq hne] at h
  unfold hexDigitsU32 at h
  by_cases he : ds.isEmpty = true
  · rw [if_pos he] at h; cases h
  · rw [if_neg he] at h
    cases hf : hexFold ds 0 with
    | none => rw [hf] at h; cases h
    | some m =>
      rw [hf] at h
      dsimp only at h
      by_cases hm : m < 4294967296
      · rw [if_pos hm] at h; cases h; rfl
      · rw [if_neg hm] at h; cases h

/-- the digits of `\u{…}` under the reference state machine -/
theorem ubrace_run : ∀ (ds : List Char) (acc : Nat) (any : Bool) (rest : List Char) (n : Nat), (∀ x ∈ ds, hexDigit x) →
    hexFold ds acc = some n → n ≤ 0x10FFFF →
    quotedRun (.ubrace acc any) (ds ++ '}' :: rest) = quotedRun (.ubrace n (any || !ds.isEmpty)) ('}' :: rest) := by
  intro ds
  induction ds with
  | nil =>
    intro acc any rest n _ h _
    simp only [hexFold, Option.some.injEq] at h
    subst h
    simp
  | cons d ds ih =>
    intro acc any rest n hds h hn
    obtain ⟨v, hv⟩ := hexDigit_val (hds d (List.mem_cons_self ..))
    have hd := hexDigit_ne (hds d (List.mem_cons_self ..))
    simp only [hexFold, hv] at h
    have hge := hexFold_ge _ _ _ h
    have := ih (acc * 16 + v) true rest n (fun x hx => hds x (List.mem_cons_of_mem _ hx)) h hn
    have hR : (any || !(d :: ds).isEmpty) = true := by simp
    have hR' : (true || !ds.isEmpty) = true := by simp
    rw [hR]
    rw [hR'] at this
    generalize quotedRun (.ubrace n true) ('}' :: rest) = R at this ⊢
    have hle : acc * 16 + v ≤ 1114111 := by omega
    simp only [List.cons_append, quotedRun, step, hd.2.2, if_false, hexVal_eq, hv, hle, if_true, List.nil_append]
    simpa using this

/-- one item under the reference state machine -/
theorem quotedRun_item (it : SItem) (hok : it.Ok) (hsrc : ∀ c, it = .plain c → sourceChar c = true) {ch : Char}
    (hd : it.decode = .ok ch) (rest : List Char) :
    quotedRun .normal (it.text ++ rest) = (quotedRun .normal rest).map (ch :: ·) := by
  cases it with
  | plain c =>
    obtain ⟨h1, h2, h3, h4⟩ := hok
    simp only [SItem.decode, Except.ok.injEq] at hd
    subst hd
    have hs := hsrc c rfl
    simp [SItem.text, quotedRun, step, h1, h2, h3, h4, hs]
  | esc e =>
    have hmem : [e] ∈ escLetters := hok
    simp only [escLetters, List.mem_cons, List.cons.injEq, and_true, List.not_mem_nil, or_false] at hmem
    rcases hmem with rfl | rfl | rfl | rfl | rfl | rfl | rfl | rfl <;>
      (simp only [SItem.decode, escapedChar, Except.ok.injEq] at hd; subst hd;
       simp [SItem.text, quotedRun, step, escaped]; try rfl)
  | u4 a b c d =>
    obtain ⟨ha, hb, hc, hdd⟩ := hok
    obtain ⟨va, hva⟩ := hexDigit_val ha
    obtain ⟨vb, hvb⟩ := hexDigit_val hb
    obtain ⟨vc, hvc⟩ := hexDigit_val hc
    obtain ⟨vd, hvd⟩ := hexDigit_val hdd
    simp only [SItem.decode, bind, Except.bind] at hd
    cases hp : parseHexU32 [a, b, c, d] with
    | error e => simp [hp] at hd
    | ok n =>
      rw [hp] at hd
      dsimp only at hd
      have hv : validScalar n = true := by
        by_cases hv : validScalar n = true
        · exact hv
        · simp [charFromU32, hv] at hd
      have hch : ch = Char.ofNat n := by
        simp [charFromU32, hv] at hd; exact hd.symm
      have hf := parseHex_of hp (fun x r he => by cases he; exact (hexDigit_ne ha).1)
      simp only [hexFold, hva, hvb, hvc, hvd, Option.some.injEq, Nat.zero_mul, Nat.zero_add] at hf
      subst hf
      obtain ⟨hcp, hhi⟩ := codePoint_valid hv
      have han := (hexDigit_ne ha).2.1
      simp only [SItem.text, List.cons_append, List.nil_append, quotedRun, step]
      simp [han, hexVal_eq, hva, hvb, hvc, hvd, finishU4, hhi, hcp, hch]
      rfl
  | ubrace ds =>
    obtain ⟨hne, hds⟩ := hok
    simp only [SItem.decode, bind, Except.bind] at hd
    cases hp : parseHexU32 ds with
    | error e => simp [hp] at hd
    | ok n =>
      rw [hp] at hd
      dsimp only at hd
      have hv : validScalar n = true := by
        by_cases hv : validScalar n = true
        · exact hv
        · simp [charFromU32, hv] at hd
      have hch : ch = Char.ofNat n := by
        simp [charFromU32, hv] at hd; exact hd.symm
      have hf := parseHex_of hp (fun x r he => (hexDigit_ne (hds x (he ▸ List.mem_cons_self ..))).1)
      obtain ⟨hcp, _⟩ := codePoint_valid hv
      have hn : n ≤ 0x10FFFF := by
        simp only [validScalar, Bool.or_eq_true, decide_eq_true_eq, Bool.and_eq_true] at hv
        omega
      have hrun := ubrace_run ds 0 false rest n hds hf hn
      have hnn : ds.isEmpty = false := by cases ds <;> simp_all
      have e : SItem.text (.ubrace ds) ++ rest = '\\' :: 'u' :: '{' :: (ds ++ '}' :: rest) := by simp [SItem.text]
      rw [e]
      simp only [quotedRun, step]
      simp [hrun, hnn, quotedRun, step, hcp, hch]
      rfl

/-- the reference semantics on the whole literal -/
theorem quotedRun_lit : ∀ (its : List SItem), AllOk its → (∀ c, SItem.plain c ∈ its → sourceChar c = true) →
    ∀ (s : List Char), its.mapM SItem.decode = .ok s → quotedRun .normal (litText its ++ ['"']) = some s := by
  intro its
  induction its with
  | nil =>
    intro _ _ s h
    simp only [List.mapM_nil, pure, Except.pure, Except.ok.injEq] at h
    subst h
    simp [litText, quotedRun, step]
  | cons it its ih =>
    intro hok hsrc s h
    simp only [List.mapM_cons, bind, Except.bind] at h
    cases hx : it.decode with
    | error e => simp [hx] at h
    | ok c =>
      rw [hx] at h
      cases hxs : its.mapM SItem.decode with
      | error e => simp [hxs] at h
      | ok cs =>
        rw [hxs] at h
        simp only [pure, Except.pure, Except.ok.injEq] at h
        subst h
        have h1 := quotedRun_item it (hok it (List.mem_cons_self ..))
          (fun c' he => hsrc c' (he ▸ List.mem_cons_self ..)) hx (litText its ++ ['"'])
        have h2 := ih (fun x hx' => hok x (List.mem_cons_of_mem _ hx'))
          (fun c' hc' => hsrc c' (List.mem_cons_of_mem _ hc')) cs hxs
        rw [litText_cons, List.append_assoc, h1, h2]
        rfl

/-- `decodeStringLiteral` on `"` items `"` -/
theorem decodeStringLiteral_lit (its : List SItem) (hok : AllOk its)
    (hsrc : ∀ c, SItem.plain c ∈ its → sourceChar c = true) (s : List Char) (h : its.mapM SItem.decode = .ok s) :
    decodeStringLiteral ('"' :: (litText its ++ ['"'])) = some s := by
  have hq := quotedRun_lit its hok hsrc s h
  cases its with
  | nil =>
    simp only [litText, List.flatMap_nil, List.nil_append] at hq ⊢
    simp only [decodeStringLiteral]
    exact hq
  | cons it its =>
    obtain ⟨d0, r0, ht0, hd0⟩ := text_head it (hok it (List.mem_cons_self ..))
    rw [litText_cons, ht0] at hq ⊢
    simp only [List.cons_append] at hq ⊢
    unfold decodeStringLiteral
    split
    · rename_i rest he
      simp only [List.cons.injEq, true_and] at he
      exact absurd he.1 hd0
    · rename_i rest hne he
      simp only [List.cons.injEq, true_and] at he
      subst he
      exact hq
    · rename_i h1 h2
      exact absurd rfl (h2 _)

end NitroVerif.StringParse
