/-
The builder's value of a normal string literal is the value the GraphQL specification assigns to it (helper lemmas for
Props/C07 `string_decode_general`): for every literal body (a list of `SItem`s) whose items all decode (`SItem.decode`, what
`build_string_value` computes) and whose unescaped characters are SourceCharacters, the reference semantics
`GqlString.decodeStringLiteral` (spec §2.9.4, written independently for C16) returns the same characters.
Since fix fff8e9c the builder reads a surrogate PAIR `\uHHHH\uLLLL` as one supplementary character, like the specification;
`spec_items` follows the validation loop (`scanItems`), the builder loop (`decodeItems`) and the reference state machine
(`GqlString.quotedRun`, states `.normal` / `.needLow`) in lock-step over the items: the validation accepts iff the
specification assigns a value, and then the builder returns that value.
-/
import NitroVerif.Lemmas.ParseMoreStrBuild
import NitroVerif.Spec.GqlString
namespace NitroVerif.StringParse
open NitroVerif.Peg NitroVerif.Gen NitroVerif.Build NitroVerif.TypeParse NitroVerif.GqlString

theorem hexVal_eq (c : Char) : hexVal c = hexDigitVal c := rfl

theorem hexDigit_val {d : Char} (h : hexDigit d) : ∃ v, hexDigitVal d = some v := by
  unfold hexDigitVal
  rcases h with h | h | h
  · exact ⟨_, if_pos h⟩
  · by_cases h1 : '0' ≤ d ∧ d ≤ '9'
    · exact ⟨_, if_pos h1⟩
    · exact ⟨_, by rw [if_neg h1, if_pos h]⟩
  · by_cases h1 : '0' ≤ d ∧ d ≤ '9'
    · exact ⟨_, if_pos h1⟩
    · by_cases h2 : 'a' ≤ d ∧ d ≤ 'f'
      · exact ⟨_, by rw [if_neg h1, if_pos h2]⟩
      · exact ⟨_, by rw [if_neg h1, if_neg h2, if_pos h]⟩

theorem hexDigit_ne {d : Char} (h : hexDigit d) : d ≠ '+' ∧ d ≠ '{' ∧ d ≠ '}' := by
  refine ⟨?_, ?_, ?_⟩ <;> (rintro rfl; exact absurd h (by decide))

theorem hexFold_ge : ∀ (ds : List Char) (acc n : Nat), hexFold ds acc = some n → acc ≤ n := by
  intro ds
  induction ds with
  | nil => intro acc n h; simp [hexFold] at h; omega
  | cons d ds ih =>
    intro acc n h
    simp only [hexFold] at h
    cases hd : hexDigitVal d with
    | none => simp [hd] at h
    | some v =>
      rw [hd] at h
      have := ih _ _ h
      omega

theorem codePoint_valid {n : Nat} (h : validScalar n = true) : codePoint n = some (Char.ofNat n) ∧ isHighSurrogate n = false := by
  simp only [validScalar, Bool.or_eq_true, decide_eq_true_eq, Bool.and_eq_true] at h
  constructor
  · unfold codePoint
    split
    · rfl
    · rename_i hc
      exfalso
      apply hc
      simp [isSurrogate]
      omega
  · simp [isHighSurrogate]
    omega

theorem parseHex_eq {ds : List Char} (hne : ∀ d r, ds = d :: r → d ≠ '+') : parseHexU32 ds = hexDigitsU32 ds := by
  unfold parseHexU32
  split
  · rename_i r
    exact absurd rfl (hne '+' r rfl)
  · rfl

theorem parseHex_of {ds : List Char} {n : Nat} (h : parseHexU32 ds = .ok n) (hne : ∀ d r, ds = d :: r → d ≠ '+') :
    hexFold ds 0 = some n := by
  rw [parseHex_eq hne] at h
  unfold hexDigitsU32 at h
  by_cases he : ds.isEmpty = true
  · rw [if_pos he] at h; cases h
  · rw [if_neg he] at h
    cases hf : hexFold ds 0 with
    | none => rw [hf] at h; cases h
    | some m =>
      rw [hf] at h
      dsimp only at h
      by_cases hm : m < 4294967296
      · rw [if_pos hm] at h; cases h; rfl
      · rw [if_neg hm] at h; cases h

/-- the digits of `\u{…}` under the reference state machine -/
theorem ubrace_run : ∀ (ds : List Char) (acc : Nat) (any : Bool) (rest : List Char) (n : Nat), (∀ x ∈ ds, hexDigit x) →
    hexFold ds acc = some n → n ≤ 0x10FFFF →
    quotedRun (.ubrace acc any) (ds ++ '}' :: rest) = quotedRun (.ubrace n (any || !ds.isEmpty)) ('}' :: rest) := by
  intro ds
  induction ds with
  | nil =>
    intro acc any rest n _ h _
    simp only [hexFold, Option.some.injEq] at h
    subst h
    simp
  | cons d ds ih =>
    intro acc any rest n hds h hn
    obtain ⟨v, hv⟩ := hexDigit_val (hds d (List.mem_cons_self ..))
    have hd := hexDigit_ne (hds d (List.mem_cons_self ..))
    simp only [hexFold, hv] at h
    have hge := hexFold_ge _ _ _ h
    have := ih (acc * 16 + v) true rest n (fun x hx => hds x (List.mem_cons_of_mem _ hx)) h hn
    have hR : (any || !(d :: ds).isEmpty) = true := by simp
    have hR' : (true || !ds.isEmpty) = true := by simp
    rw [hR]
    rw [hR'] at this
    generalize quotedRun (.ubrace n true) ('}' :: rest) = R at this ⊢
    have hle : acc * 16 + v ≤ 1114111 := by omega
    simp only [List.cons_append, quotedRun, step, hd.2.2, if_false, hexVal_eq, hv, hle, if_true, List.nil_append]
    simpa using this

/-- one item under the reference state machine -/
theorem quotedRun_item (it : SItem) (hok : it.Ok) (hsrc : ∀ c, it = .plain c → sourceChar c = true) {ch : Char}
    (hd : it.decode = .ok ch) (rest : List Char) :
    quotedRun .normal (it.text ++ rest) = (quotedRun .normal rest).map (ch :: ·) := by
  cases it with
  | plain c =>
    obtain ⟨h1, h2, h3, h4⟩ := hok
    simp only [SItem.decode, Except.ok.injEq] at hd
    subst hd
    have hs := hsrc c rfl
    simp [SItem.text, quotedRun, step, h1, h2, h3, h4, hs]
  | esc e =>
    have hmem : [e] ∈ escLetters := hok
    simp only [escLetters, List.mem_cons, List.cons.injEq, and_true, List.not_mem_nil, or_false] at hmem
    rcases hmem with rfl | rfl | rfl | rfl | rfl | rfl | rfl | rfl <;>
      (simp only [SItem.decode, escapedChar, Except.ok.injEq] at hd; subst hd;
       simp [SItem.text, quotedRun, step, escaped]; try rfl)
  | u4 a b c d =>
    obtain ⟨ha, hb, hc, hdd⟩ := hok
    obtain ⟨va, hva⟩ := hexDigit_val ha
    obtain ⟨vb, hvb⟩ := hexDigit_val hb
    obtain ⟨vc, hvc⟩ := hexDigit_val hc
    obtain ⟨vd, hvd⟩ := hexDigit_val hdd
    simp only [SItem.decode, bind, Except.bind] at hd
    cases hp : parseHexU32 [a, b, c, d] with
    | error e => simp [hp] at hd
    | ok n =>
      rw [hp] at hd
      dsimp only at hd
      have hv : validScalar n = true := by
        by_cases hv : validScalar n = true
        · exact hv
        · simp [charFromU32, hv] at hd
      have hch : ch = Char.ofNat n := by
        simp [charFromU32, hv] at hd; exact hd.symm
      have hf := parseHex_of hp (fun x r he => by cases he; exact (hexDigit_ne ha).1)
      simp only [hexFold, hva, hvb, hvc, hvd, Option.some.injEq, Nat.zero_mul, Nat.zero_add] at hf
      subst hf
      obtain ⟨hcp, hhi⟩ := codePoint_valid hv
      have han := (hexDigit_ne ha).2.1
      simp only [SItem.text, List.cons_append, List.nil_append, quotedRun, step]
      simp [han, hexVal_eq, hva, hvb, hvc, hvd, finishU4, hhi, hcp, hch]
      rfl
  | ubrace ds =>
    obtain ⟨hne, hds⟩ := hok
    simp only [SItem.decode, bind, Except.bind] at hd
    cases hp : parseHexU32 ds with
    | error e => simp [hp] at hd
    | ok n =>
      rw [hp] at hd
      dsimp only at hd
      have hv : validScalar n = true := by
        by_cases hv : validScalar n = true
        · exact hv
        · simp [charFromU32, hv] at hd
      have hch : ch = Char.ofNat n := by
        simp [charFromU32, hv] at hd; exact hd.symm
      have hf := parseHex_of hp (fun x r he => (hexDigit_ne (hds x (he ▸ List.mem_cons_self ..))).1)
      obtain ⟨hcp, _⟩ := codePoint_valid hv
      have hn : n ≤ 0x10FFFF := by
        simp only [validScalar, Bool.or_eq_true, decide_eq_true_eq, Bool.and_eq_true] at hv
        omega
      have hrun := ubrace_run ds 0 false rest n hds hf hn
      have hnn : ds.isEmpty = false := by cases ds <;> simp_all
      have e : SItem.text (.ubrace ds) ++ rest = '\\' :: 'u' :: '{' :: (ds ++ '}' :: rest) := by simp [SItem.text]
      rw [e]
      simp only [quotedRun, step]
      simp [hrun, hnn, quotedRun, step, hcp, hch]
      rfl

/-! ### the three loops in lock-step -/

theorem isLead_high {n : Nat} : isHighSurrogate n = isLeadSurrogate n := by
  simp [isHighSurrogate, isLeadSurrogate, Bool.decide_and]
theorem isTrail_low {n : Nat} : isLowSurrogate n = isTrailSurrogate n := by
  simp [isLowSurrogate, isTrailSurrogate, Bool.decide_and]

/-- the digits of a `\uXXXX` escape always parse -/
theorem parseHex_u4 {a b c d : Char} (ha : hexDigit a) (hb : hexDigit b) (hc : hexDigit c) (hd : hexDigit d) :
    ∃ va vb vc vd, hexDigitVal a = some va ∧ hexDigitVal b = some vb ∧ hexDigitVal c = some vc ∧ hexDigitVal d = some vd ∧
      parseHexU32 [a, b, c, d] = .ok (((va * 16 + vb) * 16 + vc) * 16 + vd) ∧ ((va * 16 + vb) * 16 + vc) * 16 + vd ≤ 0xFFFF := by
  have bound : ∀ {x : Char} {v : Nat}, hexDigitVal x = some v → v < 16 := by
    intro x v h
    unfold hexDigitVal at h
    split at h
    · rename_i h1; cases h
      have := h1.1; have := h1.2
      have h2 : x.toNat ≤ '9'.toNat := h1.2
      have h3 : '0'.toNat ≤ x.toNat := h1.1
      simp at h2 h3; omega
    · split at h
      · rename_i _ h1; cases h
        have h2 : x.toNat ≤ 'f'.toNat := h1.2
        have h3 : 'a'.toNat ≤ x.toNat := h1.1
        simp at h2 h3; omega
      · split at h
        · rename_i _ _ h1; cases h
          have h2 : x.toNat ≤ 'F'.toNat := h1.2
          have h3 : 'A'.toNat ≤ x.toNat := h1.1
          simp at h2 h3; omega
        · cases h
  obtain ⟨va, hva⟩ := hexDigit_val ha
  obtain ⟨vb, hvb⟩ := hexDigit_val hb
  obtain ⟨vc, hvc⟩ := hexDigit_val hc
  obtain ⟨vd, hvd⟩ := hexDigit_val hd
  have ba := bound hva; have bb := bound hvb; have bc := bound hvc; have bd := bound hvd
  refine ⟨va, vb, vc, vd, hva, hvb, hvc, hvd, ?_, by omega⟩
  rw [parseHex_eq (fun x r he => by cases he; exact (hexDigit_ne ha).1)]
  have hlt : ((va * 16 + vb) * 16 + vc) * 16 + vd < 4294967296 := by omega
  simp [hexDigitsU32, hexFold, hva, hvb, hvc, hvd, hlt]

/-- a `\uXXXX` escape under the reference state machine, in the state `.normal` (`hi = none`) or after a leading
    surrogate (`.needLow h`, `hi = some h`) -/
theorem quotedRun_u4 {a b c d : Char} (ha : hexDigit a) (hb : hexDigit b) (hc : hexDigit c) (hd : hexDigit d) {n : Nat}
    (hp : parseHexU32 [a, b, c, d] = .ok n) (hi : Option Nat) (rest : List Char) :
    quotedRun (match hi with | none => .normal | some h => .needLow h) ((SItem.u4 a b c d).text ++ rest) =
      (match finishU4 n hi with
       | .go out st' => (quotedRun st' rest).map (out ++ ·)
       | _ => none) := by
  obtain ⟨va, vb, vc, vd, hva, hvb, hvc, hvd, hp', _⟩ := parseHex_u4 ha hb hc hd
  rw [hp'] at hp
  cases hp
  have han := (hexDigit_ne ha).2.1
  have hfin : ∀ m, finishU4 m hi ≠ .close := by
    intro m
    unfold finishU4
    cases hi <;> dsimp only <;> repeat' split
    all_goals simp
  cases hi with
  | none =>
    simp only [SItem.text, List.cons_append, List.nil_append, quotedRun, step]
    simp [han, hexVal_eq, hva, hvb, hvc, hvd]
    cases hf : finishU4 (((va * 16 + vb) * 16 + vc) * 16 + vd) none with
    | fail => rfl
    | close => exact absurd hf (hfin _)
    | go out st' => simp
  | some h =>
    simp only [SItem.text, List.cons_append, List.nil_append, quotedRun, step]
    simp [han, hexVal_eq, hva, hvb, hvc, hvd]
    cases hf : finishU4 (((va * 16 + vb) * 16 + vc) * 16 + vd) (some h) with
    | fail => rfl
    | close => exact absurd hf (hfin _)
    | go out st' => simp

/-- after a leading surrogate anything but a `\uXXXX` escape has no value -/
theorem quotedRun_needLow_other (it : SItem) (hok : it.Ok) (hnu : ∀ x y z w, it ≠ .u4 x y z w) (h : Nat) (rest : List Char) :
    quotedRun (.needLow h) (it.text ++ rest) = none := by
  cases it with
  | u4 x y z w => exact absurd rfl (hnu x y z w)
  | plain c =>
    obtain ⟨_, h2, _, _⟩ := hok
    simp [SItem.text, quotedRun, step, h2]
  | esc e =>
    have hmem : [e] ∈ escLetters := hok
    simp only [escLetters, List.mem_cons, List.cons.injEq, and_true, List.not_mem_nil, or_false] at hmem
    rcases hmem with rfl | rfl | rfl | rfl | rfl | rfl | rfl | rfl <;> simp [SItem.text, quotedRun, step, escaped]
  | ubrace ds => simp [SItem.text, quotedRun, step]

theorem quotedRun_needLow_end (h : Nat) : quotedRun (.needLow h) ['"'] = none := by
  simp [quotedRun, step]

/-- the digits of a `\u{…}` escape whose value exceeds U+10FFFF have no value -/
theorem ubrace_run_big : ∀ (ds : List Char) (acc : Nat) (any : Bool) (rest : List Char) (n : Nat), (∀ x ∈ ds, hexDigit x) →
    hexFold ds acc = some n → acc ≤ 0x10FFFF → 0x10FFFF < n →
    quotedRun (.ubrace acc any) (ds ++ '}' :: rest) = none := by
  intro ds
  induction ds with
  | nil =>
    intro acc any rest n _ h ha hn
    simp only [hexFold, Option.some.injEq] at h
    omega
  | cons d ds ih =>
    intro acc any rest n hds h ha hn
    obtain ⟨v, hv⟩ := hexDigit_val (hds d (List.mem_cons_self ..))
    have hd := hexDigit_ne (hds d (List.mem_cons_self ..))
    simp only [hexFold, hv] at h
    by_cases hle : acc * 16 + v ≤ 1114111
    · have := ih (acc * 16 + v) true rest n (fun x hx => hds x (List.mem_cons_of_mem _ hx)) h hle hn
      simp only [List.cons_append, quotedRun, step, hd.2.2, if_false, hexVal_eq, hv, hle, if_true, List.nil_append]
      simpa using this
    · simp only [List.cons_append, quotedRun, step, hd.2.2, if_false, hexVal_eq, hv, hle]

theorem hexFold_some : ∀ (ds : List Char) (acc : Nat), (∀ x ∈ ds, hexDigit x) → ∃ n, hexFold ds acc = some n := by
  intro ds
  induction ds with
  | nil => intro acc _; exact ⟨acc, rfl⟩
  | cons d ds ih =>
    intro acc h
    obtain ⟨v, hv⟩ := hexDigit_val (h d (List.mem_cons_self ..))
    obtain ⟨n, hn⟩ := ih (acc * 16 + v) fun x hx => h x (List.mem_cons_of_mem _ hx)
    exact ⟨n, by simp [hexFold, hv, hn]⟩

/-- a `\u{…}` escape that the validation rejects has no value under the reference state machine -/
theorem quotedRun_ubrace_bad (ds : List Char) (hne : ds ≠ []) (hds : ∀ x ∈ ds, hexDigit x)
    (hb : escapeDenotesChar ds = false) (rest : List Char) :
    quotedRun .normal ((SItem.ubrace ds).text ++ rest) = none := by
  obtain ⟨n, hf⟩ := hexFold_some ds 0 hds
  have hnn : ds.isEmpty = false := by cases ds <;> simp_all
  have e : SItem.text (.ubrace ds) ++ rest = '\\' :: 'u' :: '{' :: (ds ++ '}' :: rest) := by simp [SItem.text]
  rw [e]
  by_cases hbig : 0x10FFFF < n
  · have := ubrace_run_big ds 0 false rest n hds hf (by omega) hbig
    simp [quotedRun, step, this]
  · have hrun := ubrace_run ds 0 false rest n hds hf (by omega)
    have hp : parseHexU32 ds = .ok n := by
      rw [parseHex_eq (fun x r he => (hexDigit_ne (hds x (by rw [he]; exact List.mem_cons_self ..))).1)]
      have hlt : n < 4294967296 := by omega
      simp [hexDigitsU32, hnn, hf, hlt]
    have hv : validScalar n = false := by
      simpa [escapeDenotesChar, hp] using hb
    have hcp : codePoint n = none := by
      simp only [validScalar, Bool.or_eq_false_iff, decide_eq_false_iff_not, Bool.and_eq_false_imp, decide_eq_true_eq] at hv
      unfold codePoint
      rw [if_neg]
      simp [isSurrogate]
      omega
    simp [quotedRun, step, hrun, hnn, hcp]

theorem peekItem_ok (its : List SItem) (hok : AllOk its) : ∃ tr, peekItem its = .ok tr := by
  cases its with
  | nil => exact ⟨none, rfl⟩
  | cons it rest =>
    cases it with
    | u4 a b c d =>
      obtain ⟨ha, hb, hc, hd⟩ := hok _ (List.mem_cons_self ..)
      obtain ⟨va, vb, vc, vd, _, _, _, _, hp, _⟩ := parseHex_u4 ha hb hc hd
      exact ⟨if isTrailSurrogate (((va * 16 + vb) * 16 + vc) * 16 + vd) then some (((va * 16 + vb) * 16 + vc) * 16 + vd) else none,
        by rw [peekItem, hp]; rfl⟩
    | plain c => exact ⟨none, rfl⟩
    | esc e => exact ⟨none, rfl⟩
    | ubrace ds => exact ⟨none, rfl⟩

theorem decodeItems_u4 {a b c d : Char} {n : Nat} {tr : Option Nat} (rest : List SItem)
    (hp : parseHexU32 [a, b, c, d] = .ok n) (hq : peekItem rest = .ok tr) :
    decodeItems false (.u4 a b c d :: rest) = u4ArmI (fun sk => decodeItems sk rest) n tr := by
  rw [decodeItems, hp]
  show (peekItem rest >>= _) = _
  rw [hq]
  rfl

theorem pairChar_spec {h t : Nat} (hh : isLeadSurrogate h = true) (ht : isTrailSurrogate t = true) :
    codePoint (0x10000 + (h - 0xD800) * 0x400 + (t - 0xDC00)) = some (Char.ofNat (surrogatePairCode h t)) := by
  rw [← surrogatePairCode_eq]
  exact (codePoint_valid (surrogatePair_valid hh ht).1).1

/-- the validation loop, the builder loop and the reference state machine in lock-step over the items of a literal body:
    (A) nothing pending / state `.normal`; (B) a leading surrogate `h` is pending / state `.needLow h` -/
theorem spec_items : ∀ (its : List SItem), AllOk its → (∀ c, SItem.plain c ∈ its → sourceChar c = true) → ∀ (p : Nat),
    ((scanItems none its p = none → ∃ s, decodeItems false its = .ok s ∧ quotedRun .normal (litText its ++ ['"']) = some s) ∧
     (scanItems none its p ≠ none → quotedRun .normal (litText its ++ ['"']) = none)) ∧
    (∀ (l h : Nat), isLeadSurrogate h = true →
      (scanItems (some l) its p = none → ∃ t s, peekItem its = .ok (some t) ∧ isTrailSurrogate t = true ∧
        decodeItems true its = .ok s ∧
        quotedRun (.needLow h) (litText its ++ ['"']) = some (Char.ofNat (surrogatePairCode h t) :: s)) ∧
      (scanItems (some l) its p ≠ none → quotedRun (.needLow h) (litText its ++ ['"']) = none)) := by
  intro its
  induction its with
  | nil =>
    intro _ _ p
    refine ⟨⟨fun _ => ⟨[], rfl, by simp [litText, quotedRun, step]⟩, fun h => absurd rfl h⟩, fun l h _ => ⟨fun hs => ?_, fun _ => ?_⟩⟩
    · simp [scanItems] at hs
    · simpa [litText] using quotedRun_needLow_end h
  | cons it its ih =>
    intro hok hsrc p
    have hoks : AllOk its := fun x hx => hok x (List.mem_cons_of_mem _ hx)
    have hsrcs : ∀ c, SItem.plain c ∈ its → sourceChar c = true := fun c hc => hsrc c (List.mem_cons_of_mem _ hc)
    have hit := hok it (List.mem_cons_self ..)
    have hA : ∀ q, _ := fun q => (ih hoks hsrcs q).1
    have hB : ∀ q, _ := fun q => (ih hoks hsrcs q).2
    rw [litText_cons, List.append_assoc]
    -- an item that is not a `\uXXXX` escape and decodes, in state `.normal`
    have plainStep : ∀ (ch : Char) (q : Nat), (∀ x y z w, it ≠ .u4 x y z w) → it.decode = .ok ch →
        (scanItems none its q = none → ∃ s, decodeItems false (it :: its) = .ok s ∧
          quotedRun .normal (it.text ++ (litText its ++ ['"'])) = some s) ∧
        (scanItems none its q ≠ none → quotedRun .normal (it.text ++ (litText its ++ ['"'])) = none) := by
      intro ch q hnu hd
      have hq := quotedRun_item it hit (fun c he => hsrc c (he ▸ List.mem_cons_self ..)) hd (litText its ++ ['"'])
      refine ⟨fun hs => ?_, fun hs => ?_⟩
      · obtain ⟨s, h1, h2⟩ := (hA q).1 hs
        exact ⟨ch :: s, by rw [decodeItems_other it its hnu, hd, h1]; rfl, by rw [hq, h2]; rfl⟩
      · rw [hq, (hA q).2 hs]; rfl
    cases it with
    | plain c =>
      refine ⟨?_, fun l h hh => ⟨fun hs => by simp [scanItems] at hs, fun _ =>
        quotedRun_needLow_other _ hit (fun _ _ _ _ e => nomatch e) h _⟩⟩
      simpa [scanItems] using plainStep c (p + 1) (fun _ _ _ _ e => nomatch e) rfl
    | esc e =>
      obtain ⟨ch, hch⟩ := escaped_ok (show [e] ∈ escLetters from hit)
      refine ⟨?_, fun l h hh => ⟨fun hs => by simp [scanItems] at hs, fun _ =>
        quotedRun_needLow_other _ hit (fun _ _ _ _ e => nomatch e) h _⟩⟩
      simpa [scanItems] using plainStep ch (p + 2) (fun _ _ _ _ e => nomatch e) hch
    | ubrace ds =>
      refine ⟨?_, fun l h hh => ⟨fun hs => by simp [scanItems] at hs, fun _ =>
        quotedRun_needLow_other _ hit (fun _ _ _ _ e => nomatch e) h _⟩⟩
      by_cases hb : escapeDenotesChar ds = true
      · have hdec : ∃ ch, (SItem.ubrace ds).decode = .ok ch := by
          simp only [SItem.decode]
          unfold escapeDenotesChar at hb
          cases hp : parseHexU32 ds with
          | error e => simp [hp] at hb
          | ok n =>
            simp only [hp] at hb
            exact ⟨Char.ofNat n, by simp [bind, Except.bind, charFromU32, hb]⟩
        obtain ⟨ch, hch⟩ := hdec
        simpa [scanItems, hb] using plainStep ch (p + (ds.length + 4)) (fun _ _ _ _ e => nomatch e) hch
      · have hb' : escapeDenotesChar ds = false := by simpa using hb
        refine ⟨fun hs => by simp [scanItems, hb'] at hs, fun _ => quotedRun_ubrace_bad ds hit.1 hit.2 hb' _⟩
    | u4 a b c d =>
      obtain ⟨ha, hb, hc, hd⟩ := hit
      obtain ⟨va, vb, vc, vd, _, _, _, _, hp, hle⟩ := parseHex_u4 ha hb hc hd
      generalize hn : ((va * 16 + vb) * 16 + vc) * 16 + vd = n at hp hle
      have hx : hexOk [a, b, c, d] = some n := by simp [hexOk, hp]
      obtain ⟨tr, htr⟩ := peekItem_ok its hoks
      refine ⟨?_, fun l h hh => ?_⟩
      · -- state `.normal`
        have hq := quotedRun_u4 ha hb hc hd hp none (litText its ++ ['"'])
        simp only at hq
        by_cases hl : isLeadSurrogate n = true
        · have hfin : finishU4 n none = .go [] (.needLow n) := by simp [finishU4, isLead_high, hl]
          rw [hfin] at hq
          dsimp only at hq
          simp only [scanItems, hx, hl, if_true]
          obtain ⟨b1, b2⟩ := hB (p + 6) p n hl
          refine ⟨fun hs => ?_, fun hs => ?_⟩
          · obtain ⟨t, s, hpk, ht, hdec, hrun⟩ := b1 hs
            refine ⟨Char.ofNat (surrogatePairCode n t) :: s, ?_, by rw [hq, hrun]; rfl⟩
            have hcc : charFromU32 (surrogatePairCode n t) = .ok (Char.ofNat (surrogatePairCode n t)) := by
              simp [charFromU32, (surrogatePair_valid hl ht).1]
            rw [decodeItems_u4 its hp hpk]
            show (if isLeadSurrogate n = true then _ else _) = _
            rw [if_pos hl]
            show (charFromU32 (surrogatePairCode n t) >>= fun c => (c :: ·) <$> decodeItems true its) = _
            rw [hcc, hdec]
            rfl
          · rw [hq, b2 hs]; rfl
        · have hl' : isLeadSurrogate n = false := by simpa using hl
          by_cases hv : validScalar n = true
          · obtain ⟨hcp, hhi⟩ := codePoint_valid hv
            have hfin : finishU4 n none = .go [Char.ofNat n] .normal := by simp [finishU4, hhi, hcp]
            rw [hfin] at hq
            dsimp only at hq
            simp only [scanItems, hx, hl', hv, if_true, Bool.false_eq_true, if_false]
            refine ⟨fun hs => ?_, fun hs => ?_⟩
            · obtain ⟨s, h1, h2⟩ := (hA (p + 6)).1 hs
              refine ⟨Char.ofNat n :: s, ?_, by rw [hq, h2]; rfl⟩
              have hcc : charFromU32 n = .ok (Char.ofNat n) := by simp [charFromU32, hv]
              rw [decodeItems_u4 its hp htr]
              cases tr with
              | none =>
                show (charFromU32 n >>= fun c => (c :: ·) <$> decodeItems false its) = _
                rw [hcc, h1]
                rfl
              | some t =>
                show (if isLeadSurrogate n = true then _ else _) = _
                rw [if_neg hl]
                show (charFromU32 n >>= fun c => (c :: ·) <$> decodeItems false its) = _
                rw [hcc, h1]
                rfl
            · rw [hq, (hA (p + 6)).2 hs]; rfl
          · have hv' : validScalar n = false := by simpa using hv
            have hcp : codePoint n = none := by
              simp only [validScalar, Bool.or_eq_false_iff, decide_eq_false_iff_not, Bool.and_eq_false_imp,
                decide_eq_true_eq] at hv'
              unfold codePoint
              rw [if_neg]
              simp [isSurrogate]
              omega
            have hfin : finishU4 n none = .fail := by simp [finishU4, isLead_high, hl', hcp]
            rw [hfin] at hq
            dsimp only at hq
            simp only [scanItems, hx, hl', hv', Bool.false_eq_true, if_false]
            exact ⟨fun hs => (by cases hs), fun _ => hq⟩
      · -- a lead `h` is pending: state `.needLow h`
        have hq := quotedRun_u4 ha hb hc hd hp (some h) (litText its ++ ['"'])
        simp only at hq
        by_cases ht : isTrailSurrogate n = true
        · have hfin : finishU4 n (some h) = .go [Char.ofNat (surrogatePairCode h n)] .normal := by
            simp [finishU4, isTrail_low, ht, pairChar_spec hh ht]
          rw [hfin] at hq
          dsimp only at hq
          simp only [scanItems, hx, ht, if_true]
          refine ⟨fun hs => ?_, fun hs => ?_⟩
          · obtain ⟨s, h1, h2⟩ := (hA (p + 6)).1 hs
            refine ⟨n, s, by rw [peekItem, hp]; show Except.ok (if isTrailSurrogate n = true then some n else none) = _; rw [if_pos ht],
              ht, by rw [decodeItems]; exact h1,
              by rw [hq, h2]; rfl⟩
          · rw [hq, (hA (p + 6)).2 hs]; rfl
        · have ht' : isTrailSurrogate n = false := by simpa using ht
          have hfin : finishU4 n (some h) = .fail := by simp [finishU4, isTrail_low, ht']
          rw [hfin] at hq
          dsimp only at hq
          simp only [scanItems, hx, ht', Bool.false_eq_true, if_false]
          exact ⟨fun hs => (by cases hs), fun _ => hq⟩

/-- `decodeStringLiteral` on `"` items `"` is the reference state machine on the body -/
theorem decodeStringLiteral_lit_eq (its : List SItem) (hok : AllOk its) :
    decodeStringLiteral ('"' :: (litText its ++ ['"'])) = quotedRun .normal (litText its ++ ['"']) := by
  cases its with
  | nil => rfl
  | cons it its =>
    obtain ⟨d0, r0, ht0, hd0⟩ := text_head it (hok it (List.mem_cons_self ..))
    rw [litText_cons, ht0]
    simp only [List.cons_append]
    unfold decodeStringLiteral
    split
    · rename_i rest he
      simp only [List.cons.injEq, true_and] at he
      exact absurd he.1 hd0
    · rename_i rest hne he
      simp only [List.cons.injEq, true_and] at he
      subst he
      rfl
    · rename_i h1 h2
      exact absurd rfl (h2 _)

end NitroVerif.StringParse
