/-
Type extensions I (helper lemmas for Props/C07Doc): an extension of any of the six kinds through `TypeExtension`,
`TypeSystemExtension`, `TypeSystemDefinitionOrExtension` (all earlier alternatives are shown to fail on a text that begins
with `extend`), and scalar type extensions.
-/
import NitroVerif.Lemmas.ParseDocTsSchema
namespace NitroVerif.DocParse
open NitroVerif.Peg NitroVerif.Gen NitroVerif.Gen.Parts NitroVerif.Build NitroVerif.TypeParse NitroVerif.StringParse
open NitroVerif.Gql NitroVerif.ValueParse NitroVerif.Spec.Lex NitroVerif.ParseText

set_option linter.unusedSimpArgs false

theorem look_ScalarTypeExtension' : gList.look R.ScalarTypeExtension = some (.normal, .seq (.call R.KEYWORD_extend)
    (.seq (.call R.KEYWORD_scalar) (.seq (.call R.Name) (.opt (.call R.Directives))))) := rfl
theorem look_ObjectTypeExtension' : gList.look R.ObjectTypeExtension = some (.normal, .choice
    (.seq (.call R.KEYWORD_extend) (.seq (.call R.KEYWORD_type) (.seq (.call R.Name)
      (.seq (.opt (.call R.ImplementsInterfaces)) (.seq (.opt (.call R.Directives)) (.call R.FieldsDefinition))))))
    (.choice (.seq (.call R.KEYWORD_extend) (.seq (.call R.KEYWORD_type) (.seq (.call R.Name)
      (.seq (.opt (.call R.ImplementsInterfaces)) (.seq (.call R.Directives) (.not (.str ['{'])))))))
    (.seq (.call R.KEYWORD_extend) (.seq (.call R.KEYWORD_type) (.seq (.call R.Name)
      (.seq (.call R.ImplementsInterfaces) (.not (.str ['{'])))))))) := rfl
theorem look_InterfaceTypeExtension' : gList.look R.InterfaceTypeExtension = some (.normal, .choice
    (.seq (.call R.KEYWORD_extend) (.seq (.call R.KEYWORD_interface) (.seq (.call R.Name)
      (.seq (.opt (.call R.ImplementsInterfaces)) (.seq (.opt (.call R.Directives)) (.call R.FieldsDefinition))))))
    (.choice (.seq (.call R.KEYWORD_extend) (.seq (.call R.KEYWORD_interface) (.seq (.call R.Name)
      (.seq (.opt (.call R.ImplementsInterfaces)) (.seq (.opt (.call R.Directives)) (.not (.str ['{'])))))))
    (.seq (.call R.KEYWORD_extend) (.seq (.call R.KEYWORD_interface) (.seq (.call R.Name)
      (.seq (.call R.ImplementsInterfaces) (.not (.str ['{'])))))))) := rfl
theorem look_UnionTypeExtension' : gList.look R.UnionTypeExtension = some (.normal, .choice
    (.seq (.call R.KEYWORD_extend) (.seq (.call R.KEYWORD_union) (.seq (.call R.Name)
      (.seq (.opt (.call R.Directives)) (.seq (.str ['=']) (.call R.UnionMemberTypes))))))
    (.seq (.call R.KEYWORD_extend) (.seq (.call R.KEYWORD_union) (.seq (.call R.Name) (.call R.Directives))))) := rfl
theorem look_EnumTypeExtension' : gList.look R.EnumTypeExtension = some (.normal, .choice
    (.seq (.call R.KEYWORD_extend) (.seq (.call R.KEYWORD_enum) (.seq (.call R.Name)
      (.seq (.opt (.call R.Directives)) (.call R.EnumValuesDefinition)))))
    (.seq (.call R.KEYWORD_extend) (.seq (.call R.KEYWORD_enum) (.seq (.call R.Name)
      (.seq (.opt (.call R.Directives)) (.not (.str ['{']))))))) := rfl
theorem look_InputObjectTypeExtension' : gList.look R.InputObjectTypeExtension = some (.normal, .choice
    (.seq (.call R.KEYWORD_extend) (.seq (.call R.KEYWORD_input) (.seq (.call R.Name)
      (.seq (.opt (.call R.Directives)) (.call R.InputFieldsDefinition)))))
    (.seq (.call R.KEYWORD_extend) (.seq (.call R.KEYWORD_input) (.seq (.call R.Name)
      (.seq (.opt (.call R.Directives)) (.not (.str ['{']))))))) := rfl
theorem look_SchemaExtension' : gList.look R.SchemaExtension = some (.normal, .choice
    (.seq (.call R.KEYWORD_extend) (.seq (.call R.KEYWORD_schema) (.seq (.opt (.call R.Directives))
      (.call R.RootOperationTypeDefinitions))))
    (.seq (.call R.KEYWORD_extend) (.seq (.call R.KEYWORD_schema) (.seq (.call R.Directives) (.not (.str ['{'])))))) := rfl

variable {inp : List Char}

def kindExtRule : TypeKind → RuleId
  | .scalar => R.ScalarTypeExtension
  | .object => R.ObjectTypeExtension
  | .interface => R.InterfaceTypeExtension
  | .union => R.UnionTypeExtension
  | .enum => R.EnumTypeExtension
  | .input => R.InputObjectTypeExtension

theorem directiveDef_fails_kw {τ : Trivia} (hτ : ∀ q, Ws (τ q)) (desc : Option String) (w' : List Char)
    (hw' : validName w') (hne : w' ≠ kwDirective) {p : Nat} {sK : Bool} {bad : Char → Prop}
    (h : HasAt inp p (rOptDesc τ p desc ++ tk τ sK (p + (rOptDesc τ p desc).length) w'))
    (ht : Nxt inp bad sK (p + (rOptDesc τ p desc).length + (tk τ sK (p + (rOptDesc τ p desc).length) w').length)) :
    Fails gList (B (rOptDesc τ p desc).length + 40) true (.call R.DirectiveDefinition) .nonAtomic (At inp p) := by
  obtain ⟨tl, hl⟩ := look_DirectiveDefinition
  exact (fails_rule hl (by decide) (by decide)
    (descKw_fails hτ look_KEYWORD_directive kw_words_valid.2.2 desc w' hw' hne tl h ht)).mono (by omega)

/-- `TypeDefinition` fails on a text whose keyword (after the optional description) is none of the six -/
theorem typeDefinition_fails_kw {τ : Trivia} (hτ : ∀ q, Ws (τ q)) (desc : Option String) (w' : List Char)
    (hw' : validName w') (hne : ∀ k, w' ≠ kindKw k) {p : Nat} {sK : Bool} {bad : Char → Prop}
    (h : HasAt inp p (rOptDesc τ p desc ++ tk τ sK (p + (rOptDesc τ p desc).length) w'))
    (ht : Nxt inp bad sK (p + (rOptDesc τ p desc).length + (tk τ sK (p + (rOptDesc τ p desc).length) w').length)) :
    Fails gList (B (rOptDesc τ p desc).length + 50) true (.call R.TypeDefinition) .nonAtomic (At inp p) := by
  have k1 : ∀ k, Fails gList (B (rOptDesc τ p desc).length + 40) true (.call (kindDefRule k)) .nonAtomic (At inp p) :=
    fun k => kindRule_fails hτ k desc w' hw' (hne k) h ht
  exact (fails_rule look_TypeDefinition (by decide) (by decide)
    (fails_choice_K (k1 .scalar) (fails_choice_K (k1 .object) (fails_choice_K (k1 .interface)
      (fails_choice_K (k1 .union) (fails_choice_K (k1 .enum) (k1 .input))))))).mono (by simp [kindDefRule])

/-- `TypeSystemDefinition` fails on a text that begins with the word `extend` -/
theorem tsd_fails_extend {τ : Trivia} (hτ : ∀ q, Ws (τ q)) {p : Nat} (h : HasAt inp p (tk τ true p kwExtend))
    (ht : Tok (At inp (p + (tk τ true p kwExtend).length))) :
    Fails gList 170 true (.call R.TypeSystemDefinition) .nonAtomic (At inp p) := by
  have h' : HasAt inp p (rOptDesc τ p none ++ tk τ true (p + (rOptDesc τ p none).length) kwExtend) := by
    simpa [rOptDesc] using h
  have ht' : Nxt inp (fun _ => False) true
      (p + (rOptDesc τ p none).length + (tk τ true (p + (rOptDesc τ p none).length) kwExtend).length) := by
    have := nxt_sep ht
    simpa [rOptDesc] using this
  have f1 := schemaDef_fails_kw hτ none kwExtend kw_words_valid.1 (by decide) h' ht'
  have f2 := typeDefinition_fails_kw hτ none kwExtend kw_words_valid.1 (by intro k; cases k <;> decide) h' ht'
  have f3 := directiveDef_fails_kw hτ none kwExtend kw_words_valid.1 (by decide) h' ht'
  refine (fails_rule look_TypeSystemDefinition (by decide) (by decide)
    (fails_choice_K f1 (fails_choice_K f2 f3))).mono ?_
  simp [rOptDesc, B]

/-- the extension rule of kind `k'` fails on an extension whose keyword is another word -/
theorem kindExtRule_fails {τ : Trivia} (hτ : ∀ q, Ws (τ q)) (k' : TypeKind) (w' : List Char)
    (hw' : validName w') (hne : w' ≠ kindKw k') {p : Nat}
    (h : HasAt inp p (tk τ true p kwExtend ++ tk τ true (p + (tk τ true p kwExtend).length) w'))
    (ht : Tok (At inp (p + (tk τ true p kwExtend).length + (tk τ true (p + (tk τ true p kwExtend).length) w').length))) :
    Fails gList (B (tk τ true p kwExtend).length + 40) true (.call (kindExtRule k')) .nonAtomic (At inp p) := by
  have f : ∀ T, Fails gList (B (tk τ true p kwExtend).length + 30) true
      (.seq (.call R.KEYWORD_extend) (.seq (.call (kindKwRule k')) T)) .nonAtomic (At inp p) := fun T =>
    extKw_fails hτ (look_kindKw k') (kindKw_valid k') w' hw' hne T h ht
  cases k' with
  | scalar => exact (fails_rule look_ScalarTypeExtension' (by decide) (by decide) (f _)).mono (by omega)
  | object =>
    exact (fails_rule look_ObjectTypeExtension' (by decide) (by decide)
      (fails_choice_K (f _) (fails_choice_K (f _) (f _)))).mono (by simp)
  | interface =>
    exact (fails_rule look_InterfaceTypeExtension' (by decide) (by decide)
      (fails_choice_K (f _) (fails_choice_K (f _) (f _)))).mono (by simp)
  | union =>
    exact (fails_rule look_UnionTypeExtension' (by decide) (by decide) (fails_choice_K (f _) (f _))).mono (by simp)
  | «enum» =>
    exact (fails_rule look_EnumTypeExtension' (by decide) (by decide) (fails_choice_K (f _) (f _))).mono (by simp)
  | input =>
    exact (fails_rule look_InputObjectTypeExtension' (by decide) (by decide) (fails_choice_K (f _) (f _))).mono (by simp)

theorem schemaExt_fails_kw {τ : Trivia} (hτ : ∀ q, Ws (τ q)) (w' : List Char)
    (hw' : validName w') (hne : w' ≠ kwSchema) {p : Nat}
    (h : HasAt inp p (tk τ true p kwExtend ++ tk τ true (p + (tk τ true p kwExtend).length) w'))
    (ht : Tok (At inp (p + (tk τ true p kwExtend).length + (tk τ true (p + (tk τ true p kwExtend).length) w').length))) :
    Fails gList (B (tk τ true p kwExtend).length + 40) true (.call R.SchemaExtension) .nonAtomic (At inp p) := by
  have f : ∀ T, Fails gList (B (tk τ true p kwExtend).length + 30) true
      (.seq (.call R.KEYWORD_extend) (.seq (.call R.KEYWORD_schema) T)) .nonAtomic (At inp p) := fun T =>
    extKw_fails hτ look_KEYWORD_schema kw_words_valid.2.1 w' hw' hne T h ht
  exact (fails_rule look_SchemaExtension' (by decide) (by decide) (fails_choice_K (f _) (f _))).mono (by simp)

/-- a type extension of kind `k`, wrapped into `TypeExtension`, `TypeSystemExtension`,
    `TypeSystemDefinitionOrExtension` -/
theorem typeExtWrapK {τ : Trivia} (hτ : ∀ q, Ws (τ q)) (k : TypeKind) {p : Nat} {n : Nat} {c' : Cur}
    {prK : Pair} (hrun : RunsK n (.call (kindExtRule k)) (At inp p) c' [prK])
    (h : HasAt inp p (tk τ true p kwExtend ++ tk τ true (p + (tk τ true p kwExtend).length) (kindKw k)))
    (ht : Tok (At inp (p + (tk τ true p kwExtend).length +
      (tk τ true (p + (tk τ true p kwExtend).length) (kindKw k)).length))) :
    ∃ e1 e2 e3, RunsK (max n (B (tk τ true p kwExtend).length + 40) + 20) (.call R.TypeSystemDefinitionOrExtension)
      (At inp p) c'
      [.mk R.TypeSystemDefinitionOrExtension p e3 [.mk R.TypeSystemExtension p e2 [.mk R.TypeExtension p e1 [prK]]]] := by
  have fk : ∀ k', k ≠ k' → Fails gList (B (tk τ true p kwExtend).length + 40) true (.call (kindExtRule k')) .nonAtomic
      (At inp p) :=
    fun k' hne => kindExtRule_fails hτ k' (kindKw k) (kindKw_valid k) (kindKw_ne hne.symm) h ht
  have fs := schemaExt_fails_kw hτ (kindKw k) (kindKw_valid k) (by cases k <;> decide) h ht
  have hdK : Hd nameStart (tk τ true (p + (tk τ true p kwExtend).length) (kindKw k)) :=
    hd_tk (hd_of_validName (kindKw_valid k))
  have fd := tsd_fails_extend hτ h.left (tok_of_hd h.right hdK (fun d => nameStart_not_trivia))
  have hTE : ∃ e1, RunsK (max n (B (tk τ true p kwExtend).length + 40) + 8) (.call R.TypeExtension) (At inp p) c'
      [.mk R.TypeExtension p e1 [prK]] := by
    have body : RunsK (max n (B (tk τ true p kwExtend).length + 40) + 6) (.choice (.call R.ScalarTypeExtension)
        (.choice (.call R.ObjectTypeExtension) (.choice (.call R.InterfaceTypeExtension)
          (.choice (.call R.UnionTypeExtension) (.choice (.call R.EnumTypeExtension)
            (.call R.InputObjectTypeExtension)))))) (At inp p) c' [prK] := by
      cases k with
      | scalar => exact (runsK_choice_l hrun).mono (by omega)
      | object =>
        exact (runsK_choice_r (fk .scalar (by decide)) (runsK_choice_l hrun)).mono (by barith)
      | interface =>
        exact (runsK_choice_r (fk .scalar (by decide)) (runsK_choice_r (fk .object (by decide))
          (runsK_choice_l hrun))).mono (by barith)
      | union =>
        exact (runsK_choice_r (fk .scalar (by decide)) (runsK_choice_r (fk .object (by decide))
          (runsK_choice_r (fk .interface (by decide)) (runsK_choice_l hrun)))).mono (by barith)
      | «enum» =>
        exact (runsK_choice_r (fk .scalar (by decide)) (runsK_choice_r (fk .object (by decide))
          (runsK_choice_r (fk .interface (by decide)) (runsK_choice_r (fk .union (by decide))
            (runsK_choice_l hrun))))).mono (by barith)
      | input =>
        exact (runsK_choice_r (fk .scalar (by decide)) (runsK_choice_r (fk .object (by decide))
          (runsK_choice_r (fk .interface (by decide)) (runsK_choice_r (fk .union (by decide))
            (runsK_choice_r (fk .enum (by decide)) hrun))))).mono (by barith)
    obtain ⟨e1, r⟩ := runsK_rule look_TypeExtension (by decide) (by decide) body
    exact ⟨e1, r⟩
  obtain ⟨e1, rTE⟩ := hTE
  obtain ⟨e2, rTSE⟩ := runsK_rule look_TypeSystemExtension (by decide) (by decide) (runsK_choice_r fs rTE)
  obtain ⟨e3, rI⟩ := runsK_rule look_TSDOE (by decide) (by decide) (runsK_choice_r fd rTSE)
  have hl : 1 ≤ (tk τ true p kwExtend).length := (hd_tk (P := nameStart) (hd_of_validName kw_words_valid.1)).length_pos
  exact ⟨e1, e2, e3, RunsK.cast (rI.mono (by barith)) rfl rfl (by simp [At])⟩

theorem buildItem_typeExt (ctx : Ctx) (fuel : Nat) (p e1 e2 e3 : Nat) (prK : Pair) (td : TypeDef)
    (h : buildTypeExtension ctx fuel (.mk R.TypeExtension p e1 [prK]) = .ok td) :
    buildTypeSystemDefinitionOrExtension ctx fuel (.mk R.TypeSystemDefinitionOrExtension p e3
      [.mk R.TypeSystemExtension p e2 [.mk R.TypeExtension p e1 [prK]]]) = .ok (.typeExt td) := by
  simp [buildTypeSystemDefinitionOrExtension, onlyChildOf, onlyChild, Pair.children, Pair.rule,
    OC_TypeSystemDefinitionOrExtension, OC_TypeSystemExtension, h, bind, Except.bind, pure, Except.pure,
    R.TypeSystemDefinition, R.TypeSystemExtension, R.SchemaExtension, R.TypeExtension]

/-- the round-trip statement for one kind of type extension: the rule of the kind, and `build_type_extension` -/
def KindExtOk (inp : List Char) (rule : RuleId) (p : Nat) (t : List Char) (td : TypeDef) : Prop :=
  ∃ pr, RunsK (B t.length + 80) (.call rule) (At inp p) (At inp (p + t.length)) [pr] ∧ PairOk rule p pr ∧
    ∀ fuel, t.length ≤ fuel → ∀ e, buildTypeExtension (Ctx.spec inp) fuel (.mk R.TypeExtension p e [pr]) = .ok td

theorem tsItem_of_ext {τ : Trivia} (hτ : ∀ q, Ws (τ q)) (k : TypeKind) {p : Nat} {t : List Char}
    {td : TypeDef} (hk : KindExtOk inp (kindExtRule k) p t td)
    (h : HasAt inp p (tk τ true p kwExtend ++ tk τ true (p + (tk τ true p kwExtend).length) (kindKw k)))
    (ht : Tok (At inp (p + (tk τ true p kwExtend).length +
      (tk τ true (p + (tk τ true p kwExtend).length) (kindKw k)).length)))
    (hlen : (tk τ true p kwExtend).length ≤ t.length) : TsItemOk inp p t (.typeExt td) := by
  obtain ⟨prK, hrun, hok, hb⟩ := hk
  obtain ⟨e1, e2, e3, hr⟩ := typeExtWrapK hτ k hrun h ht
  refine ⟨_, hr.mono (by barith), ?_, fun fuel hf => buildItem_typeExt _ fuel p e1 e2 e3 prK td (hb fuel hf e1)⟩
  exact pairOk_mk (by decide) (by decide) ⟨cleanP_of (by decide) (by decide)
    ⟨cleanP_of (by decide) (by decide) ⟨hok.clean, trivial⟩, trivial⟩, trivial⟩

theorem extHead_prefix {τ : Trivia} {sN : Bool} {p : Nat} {kw : List Char} {name : Name}
    {Rr : List Char} (hname : validName name.toList) (h : HasAt inp p (rExtHead τ sN p kw name ++ Rr)) :
    HasAt inp p (tk τ true p kwExtend ++ tk τ true (p + (tk τ true p kwExtend).length) kw) ∧
      Tok (At inp (p + (tk τ true p kwExtend).length + (tk τ true (p + (tk τ true p kwExtend).length) kw).length)) := by
  have h0 := h.left
  simp only [rExtHead] at h0
  refine ⟨hasAt_append.mpr ⟨h0.left, h0.right.left⟩, ?_⟩
  exact tok_of_hd h0.right.right (hd_tk (hd_of_validName hname)) (fun d => nameStart_not_trivia)

theorem hd_rExtHead (τ : Trivia) (sN : Bool) (p : Nat) (kw : List Char) (name : Name) :
    Hd (fun d => nameStart d ∨ d = '"') (rExtHead τ sN p kw name) := by
  simp only [rExtHead]
  exact Hd.append (hd_tk (P := fun d => nameStart d ∨ d = '"')
    ((hd_of_validName kw_words_valid.1).mono (fun _ h => Or.inl h))) _

/-! ### scalar -/

def rScalarExt (τ : Trivia) (sep : Bool) (p : Nat) (t : TypeDef) : List Char :=
  let tH := rExtHead τ (sep && t.dirs.isEmpty) p (kindKw .scalar) t.name
  tH ++ rDirs τ sep (p + tH.length) t.dirs

def wpScalarExt (τ : Trivia) (inp : List Char) (sep : Bool) (p : Nat) (t : TypeDef) : TypeDef :=
  let tH := rExtHead τ (sep && t.dirs.isEmpty) p (kindKw .scalar) t.name
  { kind := .scalar, name := t.name, namePos := posAt inp (ehOffN τ p (kindKw .scalar)),
    dirs := wpDirs τ inp sep (p + tH.length) t.dirs, pos := posAt inp p }

theorem p_scalarExt_nodup : (P_ScalarTypeExtension.map itemRule).Nodup := by decide

theorem scalarExtT (τ : Trivia) (hτ : ∀ q, Ws (τ q)) (t : TypeDef) (hname : validName t.name.toList)
    (hdirs : WFDirs t.dirs) {sep : Bool} {p : Nat} (h : HasAt inp p (rScalarExt τ sep p t))
    (hn : Nxt inp tdBad sep (p + (rScalarExt τ sep p t).length)) :
    KindExtOk inp R.ScalarTypeExtension p (rScalarExt τ sep p t) (wpScalarExt τ inp sep p t) := by
  unfold KindExtOk
  simp only [rScalarExt, wpScalarExt] at h hn ⊢
  generalize hsN : (sep && t.dirs.isEmpty) = sN at *
  generalize hH : rExtHead τ sN p (kindKw .scalar) t.name = tH at *
  generalize hD : rDirs τ sep (p + tH.length) t.dirs = tD at *
  have hlen : p + (tH ++ tD).length = p + tH.length + tD.length := by simp only [List.length_append]; omega
  rw [hlen] at hn ⊢
  have g0 : HasAt inp p tH := h.left
  have g1 : HasAt inp (p + tH.length) tD := h.right
  have n1 : Nxt inp (fun _ => False) sN (p + tH.length) := by
    refine Nxt.rest g1 hn (hD ▸ hd_rDirs τ sep _ t.dirs) (P := (· = '@')) (by rintro c rfl; decide) (fun c hc => hc.elim) ?_
    intro ht hs
    have : t.dirs = [] := rDirs_eq_nil (hD.trans ht)
    rw [← hsN, this] at hs
    simpa using hs
  obtain ⟨hrun, _, hnm⟩ := extHeadK hτ (look_kindKw .scalar) (kindKw_valid .scalar) t.name hname
    (hH ▸ g0) (by rw [hH]; exact n1)
  rw [hH] at hrun
  obtain ⟨oD, rD, hokD, _, hbD⟩ := optDirsT τ hτ t.dirs hdirs (bad := tdBad) (Or.inr (Or.inl rfl)) (Or.inl rfl)
    (hD ▸ g1) (by rw [hD]; exact hn)
  rw [hD] at rD hbD
  obtain ⟨e, rR⟩ := runsK_rule look_ScalarTypeExtension' (by decide) (by decide) (hrun _ _ _ _ rD)
  have hlH : 1 ≤ tH.length := hH ▸ (hd_rExtHead τ sN p _ t.name).length_pos
  refine ⟨_, rR.mono (by barith), ?_, ?_⟩
  · refine pairOk_mk (by decide) (by decide) ?_
    simp only [cleanL_append, cleanL_cons, cleanL_nil, and_true]
    exact ⟨cleanP_of (by decide) (by decide) trivial, cleanP_of (by decide) (by decide) trivial,
      cleanP_of (by decide) (by decide) trivial, clean_opt (fun x hx => (hokD x hx).clean)⟩
  · intro fuel hf e'
    have hf' : tH.length + tD.length ≤ fuel := by simpa using hf
    have hch : [Pair.mk R.KEYWORD_extend p (p + kwExtend.length) []] ++
          ([Pair.mk (kindKwRule .scalar) (ehOffK τ p) (ehOffK τ p + (kindKw .scalar).length) []] ++
          ([Pair.mk R.Name (ehOffN τ p (kindKw .scalar)) (ehOffN τ p (kindKw .scalar) + t.name.toList.length) []] ++
            oD.toList)) =
        slotPairs [some (Pair.mk R.KEYWORD_extend p (p + kwExtend.length) []),
          some (Pair.mk R.KEYWORD_scalar (ehOffK τ p) (ehOffK τ p + (kindKw .scalar).length) []),
          some (Pair.mk R.Name (ehOffN τ p (kindKw .scalar))
            (ehOffN τ p (kindKw .scalar) + t.name.toList.length) []), oD] := by simp [slotPairs, kindKwRule]
    rw [hch]
    have hm := matchParts_slots P_ScalarTypeExtension _ p_scalarExt_nodup
      (show slotsOk P_ScalarTypeExtension [some (Pair.mk R.KEYWORD_extend p (p + kwExtend.length) []),
          some (Pair.mk R.KEYWORD_scalar (ehOffK τ p) (ehOffK τ p + (kindKw .scalar).length) []),
          some (Pair.mk R.Name (ehOffN τ p (kindKw .scalar))
            (ehOffN τ p (kindKw .scalar) + t.name.toList.length) []), oD] from
        ⟨⟨_, rfl, rfl⟩, ⟨_, rfl, rfl⟩, ⟨_, rfl, rfl⟩, fun x hx => (hokD x hx).rule, trivial⟩)
    have hname' := hnm.slice
    simp only [show kwExtend.length = 6 from rfl] at hm
    simp [buildTypeExtension, onlyChildOf, onlyChild, Pair.children, OC_TypeExtension, Pair.rule, hm,
      hbD fuel (by omega), asString_spec', toPos_spec', Pair.start, Pair.stop, hname', At, bind, Except.bind,
      R.ScalarTypeExtension]

end NitroVerif.DocParse
