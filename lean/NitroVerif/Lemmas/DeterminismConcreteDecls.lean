/-
Helper lemmas for C17 (concrete part 3a): the schema declaration file model `SchemaDecls.schemaFile c doc` under a
permutation of the definitions of `doc`. Definitions of the equivalence on emitted files (`DeclFileEquiv`) and the
structure lemmas (the file is prelude ++ one namespace per target ++ representatives, each a concatenation of
per-definition blocks in document order).
Core Lean only.
-/
import NitroVerif.Lemmas.DeterminismConcreteOp
import NitroVerif.Model.SchemaDecls
namespace NitroVerif.DeterminismDecls
open NitroVerif.Gql NitroVerif.Ts NitroVerif.DeclCfg NitroVerif.SchemaDecls
open NitroVerif.Determinism (NoDupTypeNames NoDupDirectiveNames find?_perm_of_unique filter_length_le_one_of_nodup
  typeDefs_perm eq_of_perm_of_length_le_one)

/-! ### the equivalence on emitted files -/

/-- pointwise relation of two lists of the same length -/
def RelList {α β : Type} (R : α → β → Prop) : List α → List β → Prop
  | [], [] => True
  | a :: as, b :: bs => R a b ∧ RelList R as bs
  | _, _ => False

/-- two TypeScript types that differ at most in the order of the members of the (outermost) union, or in the order
    of the fields of the (outermost) object type -/
inductive TyEquiv : Ty → Ty → Prop
  | refl (t : Ty) : TyEquiv t t
  | union {ts ts' : List Ty} : ts.Perm ts' → TyEquiv (.union ts) (.union ts')
  | obj {fs fs' : List Field} : fs.Perm fs' → TyEquiv (.obj fs) (.obj fs')

/-- two statements that are equal, or `type` aliases of the same name/export/parameters with equivalent bodies -/
inductive StmtEquiv : Stmt → Stmt → Prop
  | refl (s : Stmt) : StmtEquiv s s
  | type (e : Bool) (n : String) (ps : List (String × Option Ty)) {t t' : Ty} :
      TyEquiv t t' → StmtEquiv (.type e n ps t) (.type e n ps t')

/-- a block = the statements emitted for ONE type definition (doc comment, alias, `export type { … }`) -/
abbrev Block := List Stmt

def BlockEquiv (b b' : Block) : Prop := RelList StmtEquiv b b'

/-- the same blocks up to their order and up to `BlockEquiv` -/
def BlocksEquiv (bs bs' : List Block) : Prop := ∃ g, bs.Perm g ∧ RelList BlockEquiv g bs'

/-- the three statements of `print_prelude`, given the `__nitrogql_schema` metadata type -/
def preludeWith (m : Ty) : List Stmt :=
  [.type true "__nitrogql_schema" [] m,
   .rawType false "__Beautify" beautifyText,
   .rawType true "__SelectionSet" selectionSetText]

def nsStmt (p : String × List Block) : Stmt := .namespace true p.1 p.2.flatten

/-- **The equivalence on emitted schema declaration files.** Both files consist of the prelude (metadata type up to
    field order), the same namespaces in the same order — the body of each being the same per-definition blocks up
    to their order and the order of union members — and the same representative blocks up to their order. -/
def DeclFileEquiv (f f' : File) : Prop :=
  ∃ (m m' : Ty) (nss nss' : List (String × List Block)) (reps reps' : List Block),
    f = preludeWith m ++ nss.map nsStmt ++ reps.flatten ∧
    f' = preludeWith m' ++ nss'.map nsStmt ++ reps'.flatten ∧
    TyEquiv m m' ∧
    RelList (fun a b => a.1 = b.1 ∧ BlocksEquiv a.2 b.2) nss nss' ∧
    reps.Perm reps'

theorem relList_refl {α : Type} {R : α → α → Prop} (hr : ∀ a, R a a) : ∀ l, RelList R l l
  | [] => trivial
  | a :: l => ⟨hr a, relList_refl hr l⟩

theorem relList_map {α β γ : Type} {R : β → γ → Prop} (f : α → β) (g : α → γ) :
    ∀ l : List α, (∀ a ∈ l, R (f a) (g a)) → RelList R (l.map f) (l.map g)
  | [], _ => trivial
  | a :: l, h => ⟨h a List.mem_cons_self, relList_map f g l fun x hx => h x (List.mem_cons_of_mem _ hx)⟩

theorem relList_append {α β : Type} {R : α → β → Prop} : ∀ {a a' : List α} {b b' : List β},
    RelList R a b → RelList R a' b' → RelList R (a ++ a') (b ++ b')
  | [], _, [], _, _, h => h
  | _ :: _, _, _ :: _, _, ⟨h1, h2⟩, h => ⟨h1, relList_append h2 h⟩
  | [], _, _ :: _, _, h, _ => h.elim
  | _ :: _, _, [], _, h, _ => h.elim

theorem blockEquiv_refl (b : Block) : BlockEquiv b b := relList_refl StmtEquiv.refl b

/-! ### `ts_union` of a permuted list -/

theorem tsUnion_perm {l l' : List Ty} (h : l.Perm l') : TyEquiv (tsUnion l) (tsUnion l') := by
  match l, l', h with
  | [], [], _ => exact .refl _
  | [], _ :: _, h => exact absurd h.symm.eq_nil (by simp)
  | _ :: _, [], h => exact absurd h.eq_nil (by simp)
  | [a], [b], h =>
    have : a = b := by simpa using h
    subst this
    exact .refl _
  | [a], _ :: _ :: _, h => exact absurd h.length_eq (by simp)
  | _ :: _ :: _, [b], h => exact absurd h.length_eq (by simp)
  | a :: a' :: as, b :: b' :: bs, h => exact .union h

/-! ### the context of a permuted document -/

theorem typeDefsOf_eq (doc : TsDoc) : typeDefsOf doc = (Schema.mk doc).typeDefs := rfl

theorem scalarTypes_keys_sublist (c : Cfg) (doc : TsDoc) :
    ((scalarTypes c doc).map (·.1)).Sublist ((Schema.mk doc).typeDefs.map (·.name)) := by
  unfold scalarTypes Schema.typeDefs
  induction doc with
  | nil => exact List.Sublist.slnil
  | cons it doc ih =>
    cases it with
    | typeDef t =>
      simp only [List.filterMap_cons, List.map_cons]
      split
      · exact ih.cons _
      · rename_i p hp
        have : p.1 = t.name := by
          split at hp
          · split at hp
            · simp only [Option.some.injEq] at hp; rw [← hp]
            · cases hp
          · cases hp
        simp only [List.map_cons, this]
        exact ih.cons_cons _
    | _ => simpa [List.filterMap_cons] using ih

theorem scalarTypes_perm {T T' : TsDoc} (c : Cfg) (h : T.Perm T') : (scalarTypes c T).Perm (scalarTypes c T') :=
  h.filterMap _

theorem scalarTypes_find_perm {T T' : TsDoc} (c : Cfg) (h : T.Perm T') (nd : NoDupTypeNames T) (n : Name) :
    (scalarTypes c T).find? (·.1 == n) = (scalarTypes c T').find? (·.1 == n) :=
  find?_perm_of_unique _ (scalarTypes_perm c h)
    (filter_length_le_one_of_nodup (fun p : Name × ScalarCfg => p.1) _
      ((scalarTypes_keys_sublist c T).nodup nd) n)

theorem bag_mem_perm {T T' : TsDoc} (c : Cfg) (h : T.Perm T') (s : String) :
    s ∈ DeclCfg.bag (scalarTypes c T) ↔ s ∈ DeclCfg.bag (scalarTypes c T') :=
  ((scalarTypes_perm c h).flatMap_right _).mem_iff

theorem local_perm {T T' : TsDoc} (c : Cfg) (h : T.Perm T') (t t' : Target) :
    (Ctx.new c T t).local = (Ctx.new c T' t').local := by
  funext n
  have : (DeclCfg.bag (scalarTypes c T)).contains n = (DeclCfg.bag (scalarTypes c T')).contains n := by
    rw [Bool.eq_iff_iff, List.contains_iff_mem, List.contains_iff_mem]
    exact bag_mem_perm c h n
  show DeclCfg.localName (DeclCfg.bag (scalarTypes c T)) n = DeclCfg.localName (DeclCfg.bag (scalarTypes c T')) n
  unfold DeclCfg.localName
  rw [this]

theorem leaf_perm {T T' : TsDoc} (c : Cfg) (h : T.Perm T') (t t' : Target) :
    (Ctx.new c T t).leaf = (Ctx.new c T' t').leaf := by
  funext n
  simp only [Ctx.leaf, local_perm c h t t']

/-! ### one definition -/

/-- relation of two results of `print_type` for the same definition -/
def PrintRel : Except String Block → Except String Block → Prop
  | .ok b, .ok b' => BlockEquiv b b'
  | .error e, .error e' => e = e'
  | _, _ => False

/-- relation of two alias bodies for the same definition -/
def BodyRel : Except String (Option Ty) → Except String (Option Ty) → Prop
  | .ok (some t), .ok (some t') => TyEquiv t t'
  | .ok none, .ok none => True
  | .error e, .error e' => e = e'
  | _, _ => False

theorem bodyRel_refl : ∀ r, BodyRel r r
  | .ok (some t) => TyEquiv.refl t
  | .ok none => trivial
  | .error _ => rfl

theorem objectImplementers_perm' {T T' : TsDoc} (h : T.Perm T') (n : Name) :
    ((Schema.mk T).objectImplementers n).Perm ((Schema.mk T').objectImplementers n) :=
  ((typeDefs_perm h).filter _).map _

theorem body_perm {T T' : TsDoc} (c : Cfg) (h : T.Perm T') (nd : NoDupTypeNames T) (t : Target) (td : TypeDef) :
    BodyRel (body (Ctx.new c T t) td) (body (Ctx.new c T' t) td) := by
  unfold body
  cases hk : td.kind with
  | scalar =>
    simp only
    have : (Ctx.new c T t).scalarTypes.find? (·.1 == td.name) = (Ctx.new c T' t).scalarTypes.find? (·.1 == td.name) :=
      scalarTypes_find_perm c h nd td.name
    rw [this]
    exact bodyRel_refl _
  | object =>
    simp only [objectBody, leaf_perm c h t t]
    exact bodyRel_refl _
  | interface =>
    simp only [interfaceBody, leaf_perm c h t t]
    show BodyRel (.ok (if t.isInput then none else _)) (.ok (if t.isInput then none else _))
    cases t.isInput
    · exact tsUnion_perm ((objectImplementers_perm' h td.name).map _)
    · trivial
  | union =>
    simp only [unionBody, leaf_perm c h t t]
    exact bodyRel_refl _
  | enum => exact bodyRel_refl _
  | input =>
    simp only [inputBody, leaf_perm c h t t]
    exact bodyRel_refl _

theorem exportType_equiv (a b : String) {ty ty' : Ty} (h : TyEquiv ty ty') :
    BlockEquiv (exportType a b ty) (exportType a b ty') := by
  unfold exportType
  split
  · exact ⟨.type _ _ _ h, trivial⟩
  · exact ⟨.type _ _ _ h, .refl _, trivial⟩

theorem printType_perm {T T' : TsDoc} (c : Cfg) (h : T.Perm T') (nd : NoDupTypeNames T) (t : Target) (td : TypeDef) :
    PrintRel (printType (Ctx.new c T t) td) (printType (Ctx.new c T' t) td) := by
  have hb := body_perm c h nd t td
  unfold printType
  rw [local_perm c h t t]
  match h1 : body (Ctx.new c T t) td, h2 : body (Ctx.new c T' t) td with
  | .ok (some ty), .ok (some ty') =>
    rw [h1, h2] at hb
    exact relList_append (blockEquiv_refl _) (exportType_equiv _ _ hb)
  | .ok none, .ok none => exact blockEquiv_refl []
  | .error e, .error e' => rw [h1, h2] at hb; exact hb
  | .ok (some _), .ok none => rw [h1, h2] at hb; exact hb.elim
  | .ok none, .ok (some _) => rw [h1, h2] at hb; exact hb.elim
  | .ok (some _), .error _ => rw [h1, h2] at hb; exact hb.elim
  | .ok none, .error _ => rw [h1, h2] at hb; exact hb.elim
  | .error _, .ok (some _) => rw [h1, h2] at hb; exact hb.elim
  | .error _, .ok none => rw [h1, h2] at hb; exact hb.elim

/-! ### the file is a concatenation of per-definition blocks -/

/-- the block `print_type` emits for one definition (empty when it fails) -/
def blockOf (x : Ctx) (td : TypeDef) : Block :=
  match printType x td with
  | .ok b => b
  | .error _ => []

/-- `print_type` succeeds for every definition of the list -/
def OkAt (x : Ctx) (tds : List TypeDef) : Prop := ∀ td ∈ tds, ∃ b, printType x td = .ok b

theorem namespaceBody_ok (x : Ctx) (tds : List TypeDef) (h : OkAt x tds) :
    namespaceBody x tds = .ok (tds.map (blockOf x)).flatten := by
  induction tds with
  | nil => rfl
  | cons td tds ih =>
    obtain ⟨b, hb⟩ := h td List.mem_cons_self
    have ih' := ih fun y hy => h y (List.mem_cons_of_mem _ hy)
    simp only [namespaceBody, hb, ih', List.map_cons, List.flatten_cons, blockOf]

theorem namespaceBody_err (x : Ctx) (tds : List TypeDef) (h : ¬ OkAt x tds) :
    ∃ e, namespaceBody x tds = .error e ∧ ∃ td ∈ tds, printType x td = .error e := by
  induction tds with
  | nil => exact absurd (fun td htd => nomatch htd) h
  | cons td tds ih =>
    cases hp : printType x td with
    | error e => exact ⟨e, by simp only [namespaceBody, hp], td, List.mem_cons_self, hp⟩
    | ok b =>
      have : ¬ OkAt x tds := fun hh => h fun y hy => by
        rcases List.mem_cons.mp hy with rfl | hy'
        · exact ⟨b, hp⟩
        · exact hh y hy'
      obtain ⟨e, he, y, hy, hye⟩ := ih this
      exact ⟨e, by simp only [namespaceBody, hp, he], y, List.mem_cons_of_mem _ hy, hye⟩

/-- `print_type` succeeds for every definition in every namespace -/
def AllOk (c : Cfg) (doc : TsDoc) (ts : List Target) : Prop := ∀ t ∈ ts, OkAt (Ctx.new c doc t) (typeDefsOf doc)

/-- the blocks of one namespace -/
def nsBlocks (c : Cfg) (doc : TsDoc) (t : Target) : String × List Block :=
  (t.name, (typeDefsOf doc).map (blockOf (Ctx.new c doc t)))

theorem namespaces_ok (c : Cfg) (doc : TsDoc) (ts : List Target) (h : AllOk c doc ts) :
    namespaces c doc ts = .ok (ts.map fun t => nsStmt (nsBlocks c doc t)) := by
  induction ts with
  | nil => rfl
  | cons t ts ih =>
    have h1 := namespaceBody_ok _ _ (h t List.mem_cons_self)
    have ih' := ih fun y hy => h y (List.mem_cons_of_mem _ hy)
    simp only [namespaces, h1, ih', List.map_cons, nsStmt, nsBlocks]

theorem namespaces_err (c : Cfg) (doc : TsDoc) (ts : List Target) (h : ¬ AllOk c doc ts) :
    ∃ e, namespaces c doc ts = .error e ∧
      ∃ t ∈ ts, ∃ td ∈ typeDefsOf doc, printType (Ctx.new c doc t) td = .error e := by
  induction ts with
  | nil => exact absurd (fun t ht => nomatch ht) h
  | cons t ts ih =>
    by_cases h1 : OkAt (Ctx.new c doc t) (typeDefsOf doc)
    · have : ¬ AllOk c doc ts := fun hh => h fun y hy => by
        rcases List.mem_cons.mp hy with rfl | hy'
        · exact h1
        · exact hh y hy'
      obtain ⟨e, he, y, hy, rest⟩ := ih this
      exact ⟨e, by simp only [namespaces, namespaceBody_ok _ _ h1, he], y, List.mem_cons_of_mem _ hy, rest⟩
    · obtain ⟨e, he, td, htd, hp⟩ := namespaceBody_err _ _ h1
      exact ⟨e, by simp only [namespaces, he], t, List.mem_cons_self, td, htd, hp⟩

/-- the representative blocks -/
def repBlocks (c : Cfg) (doc : TsDoc) : List Block :=
  (typeDefsOf doc).map (representative (Ctx.new c doc .operationOutput))

theorem schemaFile_ok (c : Cfg) (doc : TsDoc) (h : AllOk c doc Target.all) :
    schemaFile c doc = .ok (preludeWith (schemaMetadata doc) ++ (Target.all.map (nsBlocks c doc)).map nsStmt ++
      (repBlocks c doc).flatten) := by
  unfold schemaFile
  rw [namespaces_ok c doc _ h]
  simp only [prelude, preludeWith, repBlocks, List.map_map, List.flatMap_def, Function.comp_def]

theorem schemaFile_err (c : Cfg) (doc : TsDoc) (h : ¬ AllOk c doc Target.all) :
    ∃ e, schemaFile c doc = .error e ∧
      ∃ t ∈ Target.all, ∃ td ∈ typeDefsOf doc, printType (Ctx.new c doc t) td = .error e := by
  obtain ⟨e, he, rest⟩ := namespaces_err c doc _ h
  exact ⟨e, by unfold schemaFile; simp only [he], rest⟩

/-! ### permuting the document -/

theorem okAt_perm {T T' : TsDoc} (c : Cfg) (h : T.Perm T') (nd : NoDupTypeNames T) (t : Target)
    (hok : OkAt (Ctx.new c T t) (typeDefsOf T)) : OkAt (Ctx.new c T' t) (typeDefsOf T') := by
  intro td htd
  have htd' : td ∈ typeDefsOf T := (typeDefs_perm h).mem_iff.mpr htd
  obtain ⟨b, hb⟩ := hok td htd'
  have hr := printType_perm c h nd t td
  rw [hb] at hr
  cases hp : printType (Ctx.new c T' t) td with
  | ok b' => exact ⟨b', rfl⟩
  | error e => rw [hp] at hr; exact hr.elim

theorem blockOf_equiv {T T' : TsDoc} (c : Cfg) (h : T.Perm T') (nd : NoDupTypeNames T) (t : Target) (td : TypeDef) :
    BlockEquiv (blockOf (Ctx.new c T t) td) (blockOf (Ctx.new c T' t) td) := by
  have hr := printType_perm c h nd t td
  unfold blockOf
  match h1 : printType (Ctx.new c T t) td, h2 : printType (Ctx.new c T' t) td with
  | .ok b, .ok b' => rw [h1, h2] at hr; exact hr
  | .error _, .error _ => exact blockEquiv_refl []
  | .ok _, .error _ => rw [h1, h2] at hr; exact hr.elim
  | .error _, .ok _ => rw [h1, h2] at hr; exact hr.elim

theorem representative_perm {T T' : TsDoc} (c : Cfg) (h : T.Perm T') (td : TypeDef) :
    representative (Ctx.new c T .operationOutput) td = representative (Ctx.new c T' .operationOutput) td := by
  unfold representative
  rw [local_perm c h .operationOutput .operationOutput]
  rfl

/-- `get_schema_metadata_type` as a function of the first schema definition and the type definitions -/
def metaOf (sd? : Option SchemaDef) (tds : List TypeDef) : Ty :=
  match sd? with
  | some sd => .obj (sd.roots.map fun (k, n, _) => (k.asStr, false, false, .ref n))
  | none =>
    .obj (tds.filterMap fun td =>
      if td.kind == .object then
        if td.name == "Query" then some ("query", false, false, .ref td.name)
        else if td.name == "Mutation" then some ("mutation", false, false, .ref td.name)
        else if td.name == "Subscription" then some ("subscription", false, false, .ref td.name)
        else none
      else none)

theorem schemaMetadata_eq (doc : TsDoc) :
    schemaMetadata doc = metaOf (Schema.mk doc).schemaDefs.head? (typeDefsOf doc) := by
  unfold schemaMetadata metaOf Schema.schemaDefs
  rw [List.head?_filterMap]
  rfl

theorem schemaMetadata_perm {T T' : TsDoc} (h : T.Perm T') (one : (Schema.mk T).schemaDefs.length ≤ 1) :
    TyEquiv (schemaMetadata T) (schemaMetadata T') := by
  have he : (Schema.mk T).schemaDefs = (Schema.mk T').schemaDefs := eq_of_perm_of_length_le_one (h.filterMap _) one
  rw [schemaMetadata_eq, schemaMetadata_eq, he]
  unfold metaOf
  cases (Schema.mk T').schemaDefs.head? with
  | some sd => exact .refl _
  | none => exact .obj ((typeDefs_perm h).filterMap _)

/-- **the emitted files of two orders are `DeclFileEquiv`** (when printing succeeds) -/
theorem schemaFile_perm_ok {T T' : TsDoc} (c : Cfg) (h : T.Perm T') (nd : NoDupTypeNames T)
    (one : (Schema.mk T).schemaDefs.length ≤ 1) (hok : AllOk c T Target.all) :
    ∃ f f', schemaFile c T = .ok f ∧ schemaFile c T' = .ok f' ∧ DeclFileEquiv f f' := by
  have hok' : AllOk c T' Target.all := fun t ht => okAt_perm c h nd t (hok t ht)
  refine ⟨_, _, schemaFile_ok c T hok, schemaFile_ok c T' hok', ?_⟩
  refine ⟨_, _, _, _, _, _, rfl, rfl, schemaMetadata_perm h one, ?_, ?_⟩
  · apply relList_map
    intro t _
    refine ⟨rfl, (typeDefsOf T').map (blockOf (Ctx.new c T t)), (typeDefs_perm h).map _, ?_⟩
    exact relList_map _ _ _ fun td _ => blockOf_equiv c h nd t td
  · unfold repBlocks
    rw [show representative (Ctx.new c T .operationOutput) = representative (Ctx.new c T' .operationOutput) from
      funext fun td => representative_perm c h td]
    exact (typeDefs_perm h).map _

end NitroVerif.DeterminismDecls
