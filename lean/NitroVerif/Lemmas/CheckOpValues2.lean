import NitroVerif.Lemmas.CheckOpValues
import NitroVerif.Lemmas.IntLit
namespace NitroVerif.CheckOp
open NitroVerif.Gql NitroVerif.CheckCommon NitroVerif.Valid

/-- for a list or object literal a scalar type is compatible exactly when it is a custom scalar -/
theorem scalarAccepts_list (n : Name) (vs : List Value) (p : Pos) :
    scalarAccepts n (.list vs p) = !isBuiltinScalar n := by
  unfold scalarAccepts isBuiltinScalar
  by_cases h1 : n = "Boolean" <;> by_cases h2 : n = "Int" <;> by_cases h3 : n = "Float" <;>
    by_cases h4 : n = "String" <;> by_cases h5 : n = "ID" <;> simp [h1, h2, h3, h4, h5]

theorem scalarAccepts_obj (n : Name) (fs : List (Name × Pos × Value)) (p : Pos) :
    scalarAccepts n (.obj fs p) = !isBuiltinScalar n := by
  unfold scalarAccepts isBuiltinScalar
  by_cases h1 : n = "Boolean" <;> by_cases h2 : n = "Int" <;> by_cases h3 : n = "Float" <;>
    by_cases h4 : n = "String" <;> by_cases h5 : n = "ID" <;> simp [h1, h2, h3, h4, h5]

/-- a quiet `namedLeaf` finds the type -/
theorem namedLeaf_quiet {A : ErrKind → Bool} (hA : Admissible A) {S : Schema} {v : Value} {n : Name} {np : Pos}
    (h : Quiet A (namedLeaf S v n np)) :
    ∃ td, S.typeDef? n = some td ∧ Quiet A (leafCompat v td).1 ∧ (leafCompat v td).2 = true := by
  unfold namedLeaf at h
  cases ht : S.typeDef? n with
  | none =>
    simp only [ht] at h
    have hk := hA _ (by decide : ErrKind.TypeSystemError ≠ ErrKind.UnknownVariable)
    rw [quiet_single, hk] at h; cases h
  | some td =>
    simp only [ht] at h
    rw [quiet_append] at h
    have hk := hA _ (by decide : ErrKind.TypeMismatch ≠ ErrKind.UnknownVariable)
    exact ⟨td, rfl, h.1, quiet_ite hk h.2⟩

/-- a list or object literal against a non-input named type: compatible only with a custom scalar -/
theorem nonleaf_custom_scalar {td : TypeDef} {v : Value}
    (hv : (∃ vs p, v = .list vs p) ∨ (∃ fs p, v = .obj fs p)) (hni : td.kind ≠ .input ∨ ∃ vs p, v = .list vs p)
    (h : (leafCompat v td).2 = true) : td.kind = .scalar ∧ isBuiltinScalar td.name = false := by
  unfold leafCompat at h
  cases hk : td.kind with
  | scalar =>
    simp only [hk] at h
    rcases hv with ⟨vs, p, rfl⟩ | ⟨fs, p, rfl⟩
    · rw [scalarAccepts_list] at h; exact ⟨rfl, by simpa using h⟩
    · rw [scalarAccepts_obj] at h; exact ⟨rfl, by simpa using h⟩
  | object => simp [hk] at h
  | interface => simp [hk] at h
  | union => simp [hk] at h
  | enum => rcases hv with ⟨vs, p, rfl⟩ | ⟨fs, p, rfl⟩ <;> simp [hk] at h
  | input =>
    rcases hni with hni | ⟨vs, p, rfl⟩
    · exact absurd hk hni
    · simp [hk] at h

/-- the five leaf literals -/
def Value.isLeafLit : Value → Bool
  | .int .. | .float .. | .str .. | .bool .. | .enum .. => true
  | _ => false

theorem scalar_table : ∀ (n : Name) (v : Value), Value.isLeafLit v = true →
    scalarAccepts n v =
      (if n == "Int" then (match v with | .int s _ => SpecInt.intTextInRange s | _ => false)
       else if n == "Float" then (match v with | .int .. => true | .float .. => true | _ => false)
       else if n == "String" then (match v with | .str .. => true | _ => false)
       else if n == "Boolean" then (match v with | .bool .. => true | _ => false)
       else if n == "ID" then (match v with | .str .. => true | .int .. => true | _ => false)
       else true) := by
  intro n v hv
  unfold scalarAccepts
  by_cases h1 : n = "Boolean" <;> by_cases h2 : n = "Int" <;> by_cases h3 : n = "Float" <;>
    by_cases h4 : n = "String" <;> by_cases h5 : n = "ID" <;>
    cases v <;> simp [Value.isLeafLit] at hv <;> simp_all [IntLit.intLiteralFitsI32_eq]

/-- a leaf literal accepted by `namedLeaf` is coercible to the named type (spec input coercion) -/
theorem leaf_coercible {A : ErrKind → Bool} (hA : Admissible A) {S : Schema} {v : Value} {n : Name} {np : Pos}
    (hv : Value.isLeafLit v = true) (h : Quiet A (namedLeaf S v n np)) : leafCoercible S v n = true := by
  obtain ⟨td, ht, hq, hc⟩ := namedLeaf_quiet hA h
  have hname := typeDef?_name ht
  unfold leafCoercible
  simp only [ht]
  unfold leafCompat at hq hc
  cases hk : td.kind with
  | scalar =>
    simp only [hk] at hc ⊢
    rw [hname, scalar_table n v hv] at hc
    exact hc
  | object => simp [hk] at hc
  | interface => simp [hk] at hc
  | union => simp [hk] at hc
  | input => cases v <;> simp [Value.isLeafLit] at hv <;> simp [hk] at hc
  | enum =>
    simp only [hk] at hc hq ⊢
    cases v <;> simp [Value.isLeafLit] at hv <;> try (simp at hc; done)
    rename_i m p
    simp only at hq ⊢
    cases hall : td.values.all (·.name != m) with
    | true =>
      simp only [hall, if_true] at hq
      have hk' := hA _ (by decide : ErrKind.UnknownEnumMember ≠ ErrKind.UnknownVariable)
      rw [quiet_single, hk'] at hq; cases hq
    | false =>
      obtain ⟨x, hx, hxm⟩ : ∃ x ∈ td.values, ¬ ((x.name != m) = true) := by simpa [List.all_eq_true] using hall
      exact List.any_eq_true.mpr ⟨x, hx, by simpa using hxm⟩

end NitroVerif.CheckOp
