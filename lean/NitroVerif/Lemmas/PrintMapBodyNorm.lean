import NitroVerif.Lemmas.PrintMapBodyText
import NitroVerif.Model.VarTypes
/-!
# C06 — the printer-level types and the syntax trees of the C01 / C09 models are the same types

The models of C01 (`OpTypes.toTs`) and C09 (`VarTypes.varsTsL`) give the types of the operation declaration file in
print→parse NORMAL FORM: `print_type` writes no parentheses around a union inside a union, so `A | B | null` reads back as ONE
union. `norm` is that normalisation on syntax trees (members that are unions are spliced; a union of one member is the
member, of none is `never`).
* `layout_norm` — normalising does not change the layout text;
* `norm_erase_treeTy` — `norm (erase (treeTy ns T nn)) = OpTypes.treeTs (Refs.ofNs ns) T nn`: the type the printer builds for a
  selection tree IS the type of the C01 model;
* `norm_erase_varsTy` — the same for the Variables type and the C09 model.
-/
namespace NitroVerif.PrintMap
open NitroVerif.Gql NitroVerif.DeclCfg
open NitroVerif.Ts (Ty Field)

/-! ### joinSep -/

theorem joinSep_cons (sep a : String) (X : List String) :
    joinSep sep (a :: X) = if X.isEmpty then a else a ++ sep ++ joinSep sep X := by
  cases X <;> rfl

theorem joinSep_append (sep : String) : ∀ (A B : List String), A ≠ [] →
    joinSep sep (A ++ B) = if B.isEmpty then joinSep sep A else joinSep sep A ++ sep ++ joinSep sep B
  | [], _, h => absurd rfl h
  | [a], B, _ => by
    cases B <;> simp [joinSep_cons, joinSep]
  | a :: b :: A, B, _ => by
    have ih := joinSep_append sep (b :: A) B (by simp)
    rw [List.cons_append, List.cons_append, joinSep_cons_cons, ← List.cons_append, ih, joinSep_cons_cons]
    split <;> simp [String.append_assoc]

theorem layoutList_append (a b : List Ty) : layoutList (a ++ b) = layoutList a ++ layoutList b := by
  induction a with
  | nil => rfl
  | cons t a ih => simp [layoutList, ih]

theorem layoutList_isEmpty (a : List Ty) : (layoutList a).isEmpty = a.isEmpty := by cases a <;> rfl

theorem layoutList_ne_nil {a : List Ty} (h : a ≠ []) : layoutList a ≠ [] := by
  cases a with
  | nil => exact absurd rfl h
  | cons t a => simp [layoutList]

/-! ### normal form -/

def isUnion : Ty → Bool
  | .union _ => true
  | _ => false

/-- the members a type contributes to an enclosing union -/
def members : Ty → List Ty
  | .union us => us
  | t => [t]

def flattenU : List Ty → List Ty
  | [] => []
  | t :: r => members t ++ flattenU r

/-- `ts_union` on syntax trees (= `OpTypes.tsUnion` = `SchemaDecls.tsUnion`) -/
def mkUnion : List Ty → Ty
  | [] => .prim "never"
  | [t] => t
  | ts => .union ts

mutual
/-- print→parse normal form: nested unions are spliced -/
def norm : Ty → Ty
  | .app f as => .app (norm f) (normList as)
  | .obj fs => .obj (normFields fs)
  | .arr t => .arr (norm t)
  | .roArr t => .roArr (norm t)
  | .union ts => mkUnion (flattenU (normList ts))
  | .inter ts => .inter (normList ts)
  | .prim s => .prim s
  | .ref n => .ref n
  | .qref p => .qref p
  | .strLit s => .strLit s
  | .numLit s => .numLit s
  | .fn ps r => .fn ps r
  | .index t k => .index t k
  | .tuple ts => .tuple ts
  | .other tag ps => .other tag ps
def normList : List Ty → List Ty
  | [] => []
  | t :: ts => norm t :: normList ts
def normFields : List Field → List Field
  | [] => []
  | (k, ro, opt, t) :: r => (k, ro, opt, norm t) :: normFields r
end

/-- a union in normal form has members, none of which is a union -/
def Good : Ty → Prop
  | .union us => us ≠ [] ∧ ∀ u ∈ us, isUnion u = false
  | _ => True

theorem good_of_not_union {t : Ty} (h : isUnion t = false) : Good t := by
  cases t <;> first | trivial | (simp [isUnion] at h)

theorem members_not_union {t : Ty} (h : Good t) : ∀ u ∈ members t, isUnion u = false := by
  cases t <;> simp_all [members, Good, isUnion]

theorem members_ne_nil {t : Ty} (h : Good t) : members t ≠ [] := by
  cases t <;> simp_all [members, Good]

theorem flattenU_not_union : ∀ {L : List Ty}, (∀ t ∈ L, Good t) → ∀ u ∈ flattenU L, isUnion u = false
  | [], _, u, hu => by cases hu
  | t :: r, h, u, hu => by
    simp only [flattenU, List.mem_append] at hu
    rcases hu with hu | hu
    · exact members_not_union (h t (by simp)) u hu
    · exact flattenU_not_union (fun x hx => h x (by simp [hx])) u hu

theorem flattenU_isEmpty : ∀ {L : List Ty}, (∀ t ∈ L, Good t) → (flattenU L).isEmpty = L.isEmpty
  | [], _ => rfl
  | t :: r, h => by
    have := members_ne_nil (h t (by simp))
    cases hm : members t with
    | nil => exact absurd hm this
    | cons a b => simp [flattenU, hm]

theorem good_mkUnion {X : List Ty} (h : ∀ u ∈ X, isUnion u = false) : Good (mkUnion X) := by
  match X, h with
  | [], _ => trivial
  | [t], h => exact good_of_not_union (h t (by simp))
  | a :: b :: r, h => exact ⟨by simp, h⟩

mutual
theorem good_norm : ∀ t : Ty, Good (norm t)
  | .app _ _ => trivial
  | .obj _ => trivial
  | .arr _ => trivial
  | .roArr _ => trivial
  | .union ts => by
    simp only [norm]
    exact good_mkUnion (flattenU_not_union (good_normList ts))
  | .inter _ => trivial
  | .prim _ => trivial
  | .ref _ => trivial
  | .qref _ => trivial
  | .strLit _ => trivial
  | .numLit _ => trivial
  | .fn _ _ => trivial
  | .index _ _ => trivial
  | .tuple _ => trivial
  | .other _ _ => trivial
theorem good_normList : ∀ ts : List Ty, ∀ t ∈ normList ts, Good t
  | [], _, h => by cases h
  | t :: ts, u, h => by
    simp only [normList, List.mem_cons] at h
    rcases h with rfl | h
    · exact good_norm t
    · exact good_normList ts u h
end

theorem normList_isEmpty (ts : List Ty) : (normList ts).isEmpty = ts.isEmpty := by cases ts <;> rfl
theorem normFields_isEmpty (fs : List Field) : (normFields fs).isEmpty = fs.isEmpty := by
  cases fs with
  | nil => rfl
  | cons f r => obtain ⟨k, ro, opt, t⟩ := f; rfl

/-! ### normalising keeps the text -/

theorem layout_members {t : Ty} (h : Good t) : joinSep " | " (layoutList (members t)) = layoutTy t := by
  cases t <;> try (simp [members, layoutList, joinSep])
  case union us =>
    have : us ≠ [] := h.1
    cases us with
    | nil => exact absurd rfl this
    | cons a b => simp [layoutTy]

theorem layout_flattenU : ∀ {L : List Ty}, (∀ t ∈ L, Good t) →
    joinSep " | " (layoutList (flattenU L)) = joinSep " | " (layoutList L)
  | [], _ => rfl
  | t :: r, h => by
    have ht := h t (by simp)
    have hr : ∀ x ∈ r, Good x := fun x hx => h x (by simp [hx])
    have ih := layout_flattenU hr
    simp only [flattenU, layoutList_append, layoutList]
    rw [joinSep_append _ _ _ (layoutList_ne_nil (members_ne_nil ht)), joinSep_cons, layout_members ht, ih,
      layoutList_isEmpty, layoutList_isEmpty, flattenU_isEmpty hr]

theorem layout_mkUnion (X : List Ty) :
    layoutTy (mkUnion X) = if X.isEmpty then "never" else joinSep " | " (layoutList X) := by
  match X with
  | [] => simp [mkUnion, layoutTy]
  | [t] => simp [mkUnion, layoutList, joinSep]
  | a :: b :: r => simp [mkUnion, layoutTy]

mutual
theorem layout_norm : ∀ t : Ty, layoutTy (norm t) = layoutTy t
  | .app f as => by simp [norm, layoutTy, layout_norm f, layout_normList as]
  | .obj fs => by simp [norm, layoutTy, normFields_isEmpty, layout_normFields fs]
  | .arr t => by simp [norm, layoutTy, layout_norm t]
  | .roArr t => by simp [norm, layoutTy, layout_norm t]
  | .union ts => by
    have hg := good_normList ts
    simp only [norm, layout_mkUnion, flattenU_isEmpty hg, normList_isEmpty, layout_flattenU hg, layout_normList ts, layoutTy]
  | .inter ts => by simp [norm, layoutTy, normList_isEmpty, layout_normList ts]
  | .prim _ => rfl
  | .ref _ => rfl
  | .qref _ => rfl
  | .strLit _ => rfl
  | .numLit _ => rfl
  | .fn _ _ => rfl
  | .index _ _ => rfl
  | .tuple _ => rfl
  | .other _ _ => rfl
theorem layout_normList : ∀ ts : List Ty, layoutList (normList ts) = layoutList ts
  | [] => rfl
  | t :: ts => by simp [normList, layoutList, layout_norm t, layout_normList ts]
theorem layout_normFields : ∀ fs : List Field, layoutFields (normFields fs) = layoutFields fs
  | [] => rfl
  | (k, ro, opt, t) :: r => by simp [normFields, layoutFields, layout_norm t, layout_normFields r]
end

/-- the text of the call sequence of a string-built type is the layout of its normal form -/
theorem rawText_printTy_norm (t : TSTy) (h : t.simple = true) : rawText (printTy t) = layoutTy (norm (erase t)) := by
  rw [layout_norm, rawText_printTy t h]

/-! ### the selection-set type of the printer is the type of the C01 model -/

theorem mkUnion_eq_opTypes (l : List Ty) : mkUnion l = OpTypes.tsUnion l := by
  match l with
  | [] => rfl
  | [_] => rfl
  | _ :: _ :: _ => rfl

theorem erase_tsUnion (l : List TSTy) : erase (tsUnion l) = mkUnion (eraseList l) := by
  match l with
  | [] => rfl
  | [_] => rfl
  | _ :: _ :: _ => rfl

theorem flattenU_of_not_union : ∀ {L : List Ty}, (∀ t ∈ L, isUnion t = false) → flattenU L = L
  | [], _ => rfl
  | t :: r, h => by
    have ht : members t = [t] := by
      have := h t (by simp)
      cases t <;> simp_all [members, isUnion]
    have ih := flattenU_of_not_union (L := r) (fun x hx => h x (List.mem_cons_of_mem _ hx))
    simp [flattenU, ht, ih]

/-- normal form of `Union[X, null]` when `X` normalises to `x`: `OpTypes.orNull x` -/
theorem norm_orNull {x : Ty} (hx : Good x) :
    mkUnion (flattenU [x, .prim "null"]) = OpTypes.orNull x := by
  cases x <;> try rfl
  case union us =>
    obtain ⟨hne, _⟩ := hx
    simp only [flattenU, members, List.append_nil, OpTypes.orNull]
    match us, hne with
    | [a], _ => rfl
    | a :: b :: r, _ => rfl

mutual
theorem norm_erase_leafCore (ns : String) : ∀ t : GType,
    norm (erase (tsOfTypeImpl (outLeaf ns) t).1) = OpTypes.leafCore (OpTypes.Refs.ofNs ns).out t
  | .named n p => rfl
  | .list t _ => by
    have ih := norm_erase_leafTs ns t
    simp only [tsOfType] at ih
    simp only [tsOfTypeImpl, OpTypes.leafCore]
    split at ih <;> simp_all [erase, norm]
  | .nonNull t => by simpa [tsOfTypeImpl, OpTypes.leafCore] using norm_erase_leafCore ns t
theorem norm_erase_leafTs (ns : String) : ∀ t : GType,
    norm (erase (tsOfType (outLeaf ns) t)) = OpTypes.leafTs (OpTypes.Refs.ofNs ns).out t
  | .named n p => rfl
  | .list t _ => by
    have ih := norm_erase_leafTs ns t
    simp only [tsOfType] at ih
    simp only [tsOfType, tsOfTypeImpl, OpTypes.leafTs]
    split at ih <;>
      simp_all [erase, eraseList, norm, normList, flattenU, members, mkUnion, OpTypes.orNull]
  | .nonNull t => by
    have ih := norm_erase_leafCore ns t
    simpa [tsOfType, tsOfTypeImpl, OpTypes.leafTs] using ih
end

theorem branchTs_not_union (r : OpTypes.Refs) : ∀ bs : List OpTypes.Branch, ∀ t ∈ OpTypes.branchesTs r bs, isUnion t = false
  | [], _, h => by cases h
  | .mk _ _ _ _ :: bs, t, h => by
    simp only [OpTypes.branchesTs, List.mem_cons] at h
    rcases h with rfl | h
    · rfl
    · exact branchTs_not_union r bs t h

theorem good_opTypes_tsUnion (r : OpTypes.Refs) (bs : List OpTypes.Branch) : Good (OpTypes.tsUnion (OpTypes.branchesTs r bs)) := by
  rw [← mkUnion_eq_opTypes]
  exact good_mkUnion (branchTs_not_union r bs)

mutual
theorem norm_erase_treeTy (ns : String) : ∀ (t : OpTypes.SelTree) (nn : Bool),
    norm (erase (treeTy ns t nn)) = OpTypes.treeTs (OpTypes.Refs.ofNs ns) t nn
  | .nonNull t, _ => by simpa [treeTy, OpTypes.treeTs] using norm_erase_treeTy ns t true
  | .list t, nn => by
    have ih := norm_erase_treeTy ns t false
    cases nn
    · simp [treeTy, OpTypes.treeTs, tsUnion, erase, eraseList, norm, normList, ih, flattenU, members, mkUnion,
        OpTypes.orNull]
    · simp [treeTy, OpTypes.treeTs, erase, norm, ih]
  | .object bs, nn => by
    have ih := norm_erase_branchesTy ns bs
    have hb : norm (erase (tsUnion (branchesTy ns bs))) = OpTypes.tsUnion (OpTypes.branchesTs (OpTypes.Refs.ofNs ns) bs) := by
      rw [← mkUnion_eq_opTypes]
      match hbs : branchesTy ns bs, ih with
      | [], ih => simp [eraseList, normList] at ih; simp [tsUnion, erase, norm, ih, mkUnion]
      | [b], ih => simp [eraseList, normList] at ih; simp [tsUnion, ← ih, mkUnion]
      | a :: b :: r, ih =>
        simp only [tsUnion, erase, norm, ih]
        rw [flattenU_of_not_union (branchTs_not_union _ bs)]
    cases nn
    · simp only [treeTy, OpTypes.treeTs, Bool.false_eq_true, if_false]
      rw [show tsUnion [tsUnion (branchesTy ns bs), TSTy.null] = TSTy.union [tsUnion (branchesTy ns bs), TSTy.null] from rfl]
      simp only [erase, eraseList, norm, normList, hb]
      exact norm_orNull (good_opTypes_tsUnion _ bs)
    · simpa [treeTy, OpTypes.treeTs] using hb
theorem norm_erase_branchesTy (ns : String) : ∀ bs : List OpTypes.Branch,
    normList (eraseList (branchesTy ns bs)) = OpTypes.branchesTs (OpTypes.Refs.ofNs ns) bs
  | [] => rfl
  | b :: bs => by
    simp [branchesTy, eraseList, normList, OpTypes.branchesTs, norm_erase_branchTy ns b, norm_erase_branchesTy ns bs]
theorem norm_erase_branchTy (ns : String) : ∀ b : OpTypes.Branch,
    norm (erase (branchTy ns b)) = OpTypes.branchTs (OpTypes.Refs.ofNs ns) b
  | .mk tn _ un al => by
    simp [branchTy, erase, eraseList, norm, normList, OpTypes.branchTs, OpTypes.Refs.ofNs, Target.name,
      norm_erase_fieldsTy ns tn un, norm_erase_fieldsTy ns tn al]
theorem norm_erase_fieldsTy (ns : String) (parent : Name) : ∀ fs : List OpTypes.SField,
    normFields (eraseFields (fieldsTy ns parent fs)) = OpTypes.fieldsTs (OpTypes.Refs.ofNs ns) parent fs
  | [] => rfl
  | .empty n :: fs => by
    simp [fieldsTy, fieldTy, eraseFields, normFields, OpTypes.fieldsTs, OpTypes.fieldTs, erase, norm,
      norm_erase_fieldsTy ns parent fs]
  | .leaf n ty isTn :: fs => by
    cases isTn <;>
      simp [fieldsTy, fieldTy, eraseFields, normFields, OpTypes.fieldsTs, OpTypes.fieldTs, erase, norm,
        norm_erase_fieldsTy ns parent fs, norm_erase_leafTs ns ty]
  | .object n sel :: fs => by
    simp [fieldsTy, fieldTy, eraseFields, normFields, OpTypes.fieldsTs, OpTypes.fieldTs,
      norm_erase_fieldsTy ns parent fs, norm_erase_treeTy ns sel false]
end

/-- the selection-set type the printer builds, normalised, is `OpTypes.toTs` -/
theorem norm_erase_toTs (ns : String) (t : OpTypes.SelTree) : norm (erase (treeTy ns t false)) = OpTypes.toTs ns t :=
  norm_erase_treeTy ns t false

/-! ### the Variables type of the printer is the type of the C09 model -/

/-- how the C09 model refers to an input type: `NS.__OperationInput.<name>` -/
def inRef (ns : String) (n : Name) : Ty := .qref [ns, Target.operationInput.name, n]

theorem tsCore_not_union (leaf : Name → Ty) (hl : ∀ n, isUnion (leaf n) = false) (ro : Bool) :
    ∀ t : GType, isUnion (SchemaDecls.tsCore leaf ro t) = false
  | .named n _ => hl n
  | .list t _ => by simp only [SchemaDecls.tsCore]; cases ro <;> rfl
  | .nonNull t => by simpa [SchemaDecls.tsCore] using tsCore_not_union leaf hl ro t

theorem members_of_not_union {x : Ty} (h : isUnion x = false) : members x = [x] := by
  cases x <;> simp_all [members, isUnion]

theorem members_prim (s : String) : members (.prim s) = [.prim s] := rfl
theorem members_union (us : List Ty) : members (.union us) = us := rfl

theorem mkUnion_pair {x y : Ty} (hx : isUnion x = false) (hy : isUnion y = false) :
    mkUnion (flattenU [x, y]) = .union [x, y] := by
  rw [flattenU_of_not_union (L := [x, y]) (by intro t ht; simp at ht; rcases ht with rfl | rfl <;> assumption)]
  rfl

theorem norm_erase_tsCore (ns : String) : ∀ t : GType,
    norm (erase (tsOfTypeImpl (inLeaf ns) t).1) = SchemaDecls.tsCore (inRef ns) false t ∧
    (tsOfTypeImpl (inLeaf ns) t).2 = !t.isNonNull
  | .named n p => ⟨rfl, rfl⟩
  | .list t _ => by
    obtain ⟨ih1, ih2⟩ := norm_erase_tsCore ns t
    refine ⟨?_, rfl⟩
    have hc := tsCore_not_union (inRef ns) (fun _ => rfl) false t
    simp only [tsOfTypeImpl, SchemaDecls.tsCore]
    cases hn : t.isNonNull
    · simp only [hn, Bool.not_false] at ih2
      simp only [ih2, if_true, erase, eraseList, norm, normList, ih1, Bool.false_eq_true, if_false]
      rw [mkUnion_pair hc rfl]
    · simp only [hn, Bool.not_true] at ih2
      simp [ih2, erase, norm, ih1]
  | .nonNull t => by
    obtain ⟨ih1, _⟩ := norm_erase_tsCore ns t
    exact ⟨by simpa [tsOfTypeImpl, SchemaDecls.tsCore] using ih1, rfl⟩

theorem norm_erase_varField (ns : String) (oi : Bool) (d : VarDef) :
    normFields (eraseFields [varField ns oi d]) = [VarTypes.varFieldL (inRef ns) oi d] := by
  obtain ⟨h1, h2⟩ := norm_erase_tsCore ns d.ty
  have hc := tsCore_not_union (inRef ns) (fun _ => rfl) false d.ty
  simp only [varField, VarTypes.varFieldL, SchemaDecls.optFieldTy, SchemaDecls.tsOf, tsOfType]
  cases hn : d.ty.isNonNull <;> cases oi
  all_goals simp only [hn, Bool.not_false, Bool.not_true] at h2
  all_goals
    simp [h2, tsUnion, eraseFields, normFields, erase, eraseList, norm, normList, h1, flattenU, members_of_not_union hc,
      members_prim, members_union, mkUnion]

/-- the Variables type the printer builds, normalised, is the type of the C09 model (`VarTypes.varsTsL`) -/
theorem norm_erase_varsTy (ns : String) (oi : Bool) (vars : List VarDef) :
    norm (erase (varsTy ns oi vars)) = VarTypes.varsTsL (inRef ns) oi vars := by
  simp only [varsTy, VarTypes.varsTsL, erase, norm]
  congr 1
  induction vars with
  | nil => rfl
  | cons d r ih =>
    have h := norm_erase_varField ns oi d
    simp only [List.map_cons]
    cases hv : varField ns oi d with
    | mk k kp ty ro opt desc =>
      simp only [hv, eraseFields, normFields] at h ⊢
      simp only [List.cons.injEq, and_true] at h
      rw [h, ih]

/-- with the default namespace this is C09's `varsTs` -/
theorem norm_erase_varsTy_default (c : Cfg) (vars : List VarDef) :
    norm (erase (varsTy VarTypes.schemaNs c.optionalInput vars)) = VarTypes.varsTs c vars :=
  norm_erase_varsTy _ _ _

end NitroVerif.PrintMap
