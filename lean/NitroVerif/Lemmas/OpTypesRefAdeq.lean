/-
C01/C02 refinement: adequacy of the invariant — a tree related (`RelTree`) to the set of selection sets collected from
`ss` denotes (`DenTree`) exactly CompleteValue of `ss` with nested objects in `RefLocal`.
-/
import NitroVerif.Lemmas.OpTypesRefRel
import NitroVerif.Lemmas.OpTypesRefFuel
namespace NitroVerif.OpTypes.Ref
open NitroVerif.Gql NitroVerif.Ts NitroVerif.Exec

/-! ### small facts -/

theorem denFields_iff {e : Env} {r : Refs} {orig : Name → Option (List Field)} (p : Name) (keep : Name → Bool)
    (kvs : List (String × J)) : ∀ (fs : List SField),
    DenFields e r orig p keep fs kvs ↔ ∀ f ∈ fs, keep f.name = true → DenField e r orig p f (J.get kvs f.name)
  | [] => by simp [DenFields]
  | f :: fs => by simp only [DenFields, List.forall_mem_cons, denFields_iff p keep kvs fs]

theorem denBranches_iff {e : Env} {r : Refs} {orig : Name → Option (List Field)} (v : J) : ∀ (bs : List Branch),
    DenBranches e r orig bs v ↔ ∃ b ∈ bs, DenBranch e r orig b v
  | [] => by simp [DenBranches]
  | b :: bs => by simp only [DenBranches, List.mem_cons, exists_eq_or_imp, denBranches_iff v bs]

theorem groups_unique : ∀ {g : Groups}, (g.map (·.1)).Nodup → ∀ {k : Name} {fs fs' : List CField},
    (k, fs) ∈ g → (k, fs') ∈ g → fs = fs'
  | e0 :: g, hn, k, fs, fs', h1, h2 => by
    simp only [List.map_cons, List.nodup_cons] at hn
    rcases List.mem_cons.1 h1 with h1 | h1 <;> rcases List.mem_cons.1 h2 with h2 | h2
    · rw [← h1] at h2; cases h2; rfl
    · exact absurd (by rw [← h1]; exact List.mem_map_of_mem (f := (·.1)) h2) hn.1
    · exact absurd (by rw [← h2]; exact List.mem_map_of_mem (f := (·.1)) h1) hn.1
    · exact groups_unique hn.2 h1 h2

theorem inG_iff_mem {g : Groups} (hw : GroupsWF g) {k : Name} {fs : List CField} (h : (k, fs) ∈ g) (f : CField) :
    InG g k f ↔ f ∈ fs := by
  constructor
  · rintro ⟨fs', h', hf⟩; rw [groups_unique hw.1 h h']; exact hf
  · intro hf; exact ⟨fs, h, hf⟩

theorem inFlat_mergedSub {S : Schema} {F : Name → Option FragmentDef} {o : Name} {inc : Inc} {t : FT} :
    ∀ (fs : List CField), InFlat S F o inc [] (mergedSub fs) t ↔ ∃ f ∈ fs, ∃ s, f.sub = some s ∧ InFlat S F o inc [] s t
  | [] => by simp [mergedSub, inFlat_nil]
  | f :: fs => by
    have ih := inFlat_mergedSub (S := S) (F := F) (o := o) (inc := inc) (t := t) fs
    simp only [mergedSub, List.flatMap_cons] at ih ⊢
    rw [inFlat_append, ih]
    simp only [List.mem_cons, exists_eq_or_imp]
    cases hs : f.sub with
    | none => simp [inFlat_nil]
    | some s => simp

section
variable {c : Ctx}

/-- what `ss` and `Sb` have to do with each other -/
def PEq (c : Ctx) (Sb : SSet) (ss : List Selection) : Prop :=
  ∀ o inc t, PU c Sb o inc t ↔ InFlat c.S c.F o inc [] ss t

/-- the sub-selections collected under a response key are those of the group of that key -/
theorem subSet_merged {Sb : SSet} {ss : List Selection} {σ : Sigma} {tn : Name} {g : Groups}
    (hpe : PEq c Sb ss) (hg : collectFields c σ tn ss = some g) {k : Name} {fs : List CField} (hk : (k, fs) ∈ g) :
    PEq c (SubSet c Sb tn (included σ) k) (mergedSub fs) := by
  obtain ⟨hw, hin⟩ := collectFields_spec c σ tn hg
  intro o' inc' t'
  rw [inFlat_mergedSub]
  simp only [PU, SubSet]
  constructor
  · rintro ⟨s, ⟨t, ⟨s0, hs0, ht⟩, hkey, hsub⟩, hin'⟩
    have ht' : InFlat c.S c.F tn (included σ) [] ss t := (hpe tn _ t).1 ⟨s0, hs0, ht⟩
    obtain ⟨k', al, nm, sub⟩ := t
    simp only at hkey hsub; subst hkey; subst hsub
    have : InG g k' ⟨nm, some s⟩ := (hin k' ⟨nm, some s⟩).2 ⟨al, ht'⟩
    exact ⟨⟨nm, some s⟩, (inG_iff_mem hw hk _).1 this, s, rfl, hin'⟩
  · rintro ⟨f, hf, s, hs, hin'⟩
    obtain ⟨al, hfl⟩ := (hin k f).1 ((inG_iff_mem hw hk f).2 hf)
    obtain ⟨s0, hs0, ht⟩ := (hpe tn _ _).2 hfl
    exact ⟨s, ⟨⟨k, al, f.name, f.sub⟩, ⟨s0, hs0, ht⟩, rfl, hs⟩, hin'⟩

variable {e : Env} {r : Refs} {orig : Name → Option (List Field)}

/-- CompleteValue at a leaf type is the wrapper conformance of the printed leaf type -/
theorem compP_leaf (H : Hyp c e r orig) (R : Name → List Selection → J → Prop) (sub : List Selection) :
    ∀ (ty : GType), isLeafType c.S ty.unwrapped = true →
    (∀ v, CompP c R sub ty false v ↔ WrapConf (fun n v => Mem e v (r.out n)) ty v) ∧
    (∀ v, CompP c R sub ty true v ↔ WrapConfNN (fun n v => Mem e v (r.out n)) ty v)
  | .named n p, hl => by
    simp only [GType.unwrapped] at hl
    have hc := isLeaf_not_composite hl
    have hn : ∀ v, NamedP c R sub n v ↔ Mem e v (r.out n) := by
      intro v; simp only [NamedP, hc, Bool.false_eq_true, ↓reduceIte]; exact (H.leaf n v hl).symm
    constructor
    · intro v; simp only [CompP, Bool.false_eq_true, ↓reduceIte, WrapConf, hn]
    · intro v
      simp only [CompP, ↓reduceIte, WrapConfNN, hn]
      constructor
      · exact fun h => h.2
      · intro h
        refine ⟨?_, h⟩
        rintro rfl
        have := (H.leaf n .null hl).1 h
        rw [H.leafNotNull] at this; cases this
  | .list t p, hc => by
    simp only [GType.unwrapped] at hc
    have ih := (compP_leaf H R sub t hc).1
    constructor
    · intro v
      simp only [CompP, WrapConf, true_and]
      constructor
      · rintro (h | ⟨xs, rfl, hx⟩)
        · exact Or.inl h
        · exact Or.inr ⟨xs, rfl, fun x hxm => (ih x).1 (hx x hxm)⟩
      · rintro (h | ⟨xs, rfl, hx⟩)
        · exact Or.inl h
        · exact Or.inr ⟨xs, rfl, fun x hxm => (ih x).2 (hx x hxm)⟩
    · intro v
      simp only [CompP, WrapConfNN, Bool.true_eq_false, false_and, false_or]
      constructor
      · rintro ⟨xs, rfl, hx⟩; exact ⟨xs, rfl, fun x hxm => (ih x).1 (hx x hxm)⟩
      · rintro ⟨xs, rfl, hx⟩; exact ⟨xs, rfl, fun x hxm => (ih x).2 (hx x hxm)⟩
  | .nonNull t, hc => by
    simp only [GType.unwrapped] at hc
    have ih := (compP_leaf H R sub t hc).2
    exact ⟨fun v => by simp only [CompP, WrapConf]; exact ih v, fun v => by simp only [CompP, WrapConfNN]; exact ih v⟩

/-- a non-empty unaliased field of a related branch is declared by the object's declaration -/
theorem un_declared (H : Hyp c e r orig) {tn : Name} {td : TypeDef} (htd : c.S.typeDef? tn = some td)
    (hk : td.kind = .object) {ofs : List Field} (hofs : orig tn = some ofs) {σ : Sigma} {Sb : SSet} {f : SField}
    (hr : RelField c tn σ Sb false f) (hne : f.isEmpty = false) : ofs.any (·.1 == f.name) = true := by
  obtain ⟨ofs', hofs', hdecl⟩ := H.origObj tn td htd hk
  rw [hofs] at hofs'; cases hofs'
  cases f with
  | empty k => simp [SField.isEmpty] at hne
  | leaf k ty b =>
    simp only [RelField] at hr
    obtain ⟨t, ⟨s, _, hin⟩, hkey, hal, hcond⟩ := hr
    have hkn := inFlat_key hin hal
    simp only [SField.name]
    rw [hdecl, ← hkey, hkn]
    split at hcond
    · rename_i htn; exact Or.inl (by simpa using htn)
    · obtain ⟨_, _, fd, hfd, _⟩ := hcond; exact Or.inr (by simp [hfd])
  | object k T =>
    simp only [RelField] at hr
    obtain ⟨t, fd, ⟨s, _, hin⟩, hkey, hal, _, _, hfd, _⟩ := hr
    have hkn := inFlat_key hin hal
    simp only [SField.name]
    rw [hdecl, ← hkey, hkn]
    exact Or.inr (by simp [hfd])

/-! ### well-formedness of related trees -/

mutual
theorem rel_wfTree (H : Hyp c e r orig) : ∀ (T : SelTree) (ty : GType) (Sb : SSet), RelTree c T ty Sb → WFTree orig T
  | .nonNull T, ty, Sb, h => by
    cases ty <;> simp only [RelTree] at h
    simp only [WFTree]; exact rel_wfTree H T _ Sb h
  | .list T, ty, Sb, h => by
    cases ty <;> simp only [RelTree] at h
    simp only [WFTree]; exact rel_wfTree H T _ Sb h
  | .object bs, ty, Sb, h => by
    cases ty <;> simp only [RelTree] at h
    rename_i n p
    obtain ⟨hc, hcov, hb⟩ := h
    simp only [WFTree]
    refine ⟨?_, rel_wfBranches H bs n Sb hb⟩
    rintro rfl
    have hne := H.inhabited n hc
    cases hp : c.S.possibleTypes n with
    | nil => exact hne hp
    | cons o os =>
      obtain ⟨b, hb, _⟩ := hcov o (by rw [hp]; simp) (fun _ => false)
      cases hb
theorem rel_wfBranches (H : Hyp c e r orig) : ∀ (bs : List Branch) (n : Name) (Sb : SSet),
    RelBranches c bs n Sb → WFBranches orig bs
  | [], _, _, _ => by simp [WFBranches]
  | b :: bs, n, Sb, h => by
    simp only [RelBranches] at h
    simp only [WFBranches]
    exact ⟨rel_wfBranch H b n Sb h.1, rel_wfBranches H bs n Sb h.2⟩
theorem rel_wfBranch (H : Hyp c e r orig) : ∀ (b : Branch) (n : Name) (Sb : SSet), RelBranch c b n Sb → WFBranch orig b
  | .mk tn vars un al, n, Sb, h => by
    simp only [RelBranch] at h
    obtain ⟨_, ⟨td, htd, hk⟩, hself, _, hna, hdis, hf⟩ := h
    obtain ⟨hu, ha, _⟩ := hf (sigmaOf vars) hself
    obtain ⟨ofs, hofs, _⟩ := H.origObj tn td htd hk
    simp only [WFBranch]
    exact ⟨by simp [hofs], hna, hdis, rel_wfFields H tn _ Sb false un hu, rel_wfFields H tn _ Sb true al ha⟩
theorem rel_wfFields (H : Hyp c e r orig) (tn : Name) (σ : Sigma) (Sb : SSet) (tag : Bool) : ∀ (fs : List SField),
    RelFields c tn σ Sb tag fs → WFFields orig fs
  | [], _ => by simp [WFFields]
  | f :: fs, h => by
    simp only [RelFields] at h
    simp only [WFFields]
    exact ⟨rel_wfField H tn σ Sb tag f h.1, rel_wfFields H tn σ Sb tag fs h.2⟩
theorem rel_wfField (H : Hyp c e r orig) (tn : Name) (σ : Sigma) (Sb : SSet) (tag : Bool) : ∀ (f : SField),
    RelField c tn σ Sb tag f → WFField orig f
  | .empty _, _ => by simp [WFField]
  | .leaf _ _ _, _ => by simp [WFField]
  | .object k T, h => by
    simp only [RelField] at h
    obtain ⟨t, fd, _, _, _, _, _, _, hT⟩ := h
    simp only [WFField]
    exact rel_wfTree H T fd.ty _ hT
end

/-! ### the statements of the mutual induction -/

variable (c e r orig)

def TreeStmt (T : SelTree) : Prop :=
  ∀ (ty : GType) (Sb : SSet) (ss : List Selection) (nn : Bool), RelTree c T ty Sb → PEq c Sb ss →
    Coh c (tdepth T) Sb ty.unwrapped →
    (∀ v, CompP c (RefLocal c) ss ty nn v → DenTree e r orig T nn v) ∧
    (∀ D, FuelOk c D ss → ∀ v, JWf v → DenTree e r orig T nn v → CompP c (RefLocalN c (tdepth T)) ss ty nn v)

def FieldStmt (f : SField) : Prop :=
  ∀ (tn : Name) (σ : Sigma) (Sb : SSet) (tag : Bool) (ss : List Selection) (g : Groups),
    RelField c tn σ Sb tag f → PEq c Sb ss → CohAt c Sb tn →
    (∀ t fd, PU c Sb tn allInc t → c.S.field? tn t.name = some fd →
      Coh c (fdepth f) (SubSet c Sb tn allInc t.key) fd.ty.unwrapped) →
    collectFields c σ tn ss = some g →
    (∀ kvs, (∀ e' ∈ g, FieldOkP c (RefLocal c) tn e'.2 (J.get kvs e'.1)) →
      (∀ kv ∈ kvs, kv.2 = .absent ∨ ∃ e' ∈ g, e'.1 = kv.1) → DenField e r orig tn f (J.get kvs f.name)) ∧
    (∀ D kvs fs, (∀ e' ∈ g, FuelOk c D (mergedSub e'.2)) → JWf (.obj kvs) → f.isEmpty = false → (f.name, fs) ∈ g →
      DenField e r orig tn f (J.get kvs f.name) → FieldOkP c (RefLocalN c (fdepth f)) tn fs (J.get kvs f.name))

def BranchStmt (b : Branch) : Prop :=
  ∀ (n : Name) (Sb : SSet) (ss : List Selection), RelBranch c b n Sb → PEq c Sb ss → Coh c (bdepth b + 1) Sb n →
    (∀ σ g v, Agree σ b.vars → collectFields c σ b.typeName ss = some g → SetOkP c (RefLocal c) b.typeName g v →
      DenBranch e r orig b v) ∧
    (∀ D v, FuelOk c D ss → JWf v → DenBranch e r orig b v → RefLocalN c (bdepth b + 1) b.typeName ss v)

variable {c e r orig}

/-- the first field of a group, as an occurrence -/
theorem group_head {Sb : SSet} {ss : List Selection} {σ : Sigma} {tn : Name} {g : Groups}
    (hpe : PEq c Sb ss) (hg : collectFields c σ tn ss = some g) {k : Name} {fs : List CField} (hk : (k, fs) ∈ g) :
    ∃ f0 rest al, fs = f0 :: rest ∧ PU c Sb tn (included σ) ⟨k, al, f0.name, f0.sub⟩ := by
  obtain ⟨hw, hin⟩ := collectFields_spec c σ tn hg
  cases fs with
  | nil => exact absurd rfl (hw.2 _ hk)
  | cons f0 rest =>
    obtain ⟨al, h⟩ := (hin k f0).1 ⟨_, hk, by simp⟩
    exact ⟨f0, rest, al, rfl, (hpe _ _ _).2 h⟩

/-- an occurrence has its group -/
theorem group_of {Sb : SSet} {ss : List Selection} {σ : Sigma} {tn : Name} {g : Groups}
    (hpe : PEq c Sb ss) (hg : collectFields c σ tn ss = some g) {t : FT} (ht : PU c Sb tn (included σ) t) :
    ∃ fs, (t.key, fs) ∈ g := by
  obtain ⟨_, hin⟩ := collectFields_spec c σ tn hg
  obtain ⟨k, al, nm, sub⟩ := t
  obtain ⟨fs, h, _⟩ := (hin k ⟨nm, sub⟩).2 ⟨al, (hpe _ _ _).1 ht⟩
  exact ⟨fs, h⟩

theorem fieldStmt_empty (k : Name) : FieldStmt c e r orig (.empty k) := by
  intro tn σ Sb tag ss g hr hpe _ _ hg
  simp only [RelField] at hr
  refine ⟨fun kvs _ hK => ?_, fun D kvs fs _ _ hne => by simp [SField.isEmpty] at hne⟩
  simp only [DenField, SField.name]
  refine Classical.byContradiction fun hx => ?_
  have hm := jget_mem hx
  rcases hK _ hm with h | ⟨e', he', hk'⟩
  · exact hx h
  · obtain ⟨k', fs⟩ := e'
    simp only at hk'; subst hk'
    obtain ⟨f0, rest, al, _, hpu⟩ := group_head hpe hg he'
    exact hr.2 _ hpu rfl

theorem fieldStmt_leaf (H : Hyp c e r orig) (k : Name) (ty : GType) (b : Bool) : FieldStmt c e r orig (.leaf k ty b) := by
  intro tn σ Sb tag ss g hr hpe hcoh _ hg
  simp only [RelField] at hr
  obtain ⟨t, ht, hkey, _, hcond⟩ := hr
  have key : ∀ fs, (k, fs) ∈ g → ∃ f0 rest, fs = f0 :: rest ∧ f0.name = t.name := by
    intro fs hfs
    obtain ⟨f0, rest, al, hfs', hpu⟩ := group_head hpe hg hfs
    have := (cohAt_full hcoh _ _ (pu_all hpu) (pu_all ht) (by simp [hkey])).2.1
    exact ⟨f0, rest, hfs', this⟩
  constructor
  · intro kvs hF _
    obtain ⟨fs, hfs⟩ := group_of hpe hg ht
    rw [hkey] at hfs
    obtain ⟨f0, rest, hfs', hname⟩ := key fs hfs
    obtain ⟨f0', rest', hfs'', hok⟩ := hF _ hfs
    simp only at hfs'' hok
    rw [hfs'] at hfs''; cases hfs''
    simp only [DenField, SField.name]
    rw [hname] at hok
    split at hcond
    · rename_i htn
      rw [if_pos htn] at hok
      subst hcond; simpa using hok
    · rename_i htn
      rw [if_neg htn] at hok
      obtain ⟨rfl, hsub, fd, hfd, rfl⟩ := hcond
      obtain ⟨fd', hfd', hc⟩ := hok
      rw [hfd] at hfd'; cases hfd'
      have hnc := hcoh.2 t fd (pu_all ht) (by simpa using htn) hfd hsub
      simpa using ((compP_leaf H _ _ fd.ty hnc).1 _).1 hc
  · intro D kvs fs _ _ _ hfs hden
    simp only [SField.name] at hfs hden ⊢
    obtain ⟨f0, rest, hfs', hname⟩ := key fs hfs
    refine ⟨f0, rest, hfs', ?_⟩
    rw [hname]
    simp only [DenField] at hden
    split at hcond
    · rename_i htn
      rw [if_pos htn]
      subst hcond; simpa using hden
    · rename_i htn
      rw [if_neg htn]
      obtain ⟨rfl, hsub, fd, hfd, rfl⟩ := hcond
      have hnc := hcoh.2 t fd (pu_all ht) (by simpa using htn) hfd hsub
      exact ⟨fd, hfd, ((compP_leaf H _ _ fd.ty hnc).1 _).2 (by simpa using hden)⟩

theorem fieldStmt_object (k : Name) (T : SelTree) (hT : TreeStmt c e r orig T) : FieldStmt c e r orig (.object k T) := by
  intro tn σ Sb tag ss g hr hpe hcoh hnest hg
  simp only [RelField] at hr
  obtain ⟨t, fd, ht, hkey, _, _, htn, hfd, hrel⟩ := hr
  have hcohT : Coh c (tdepth T) (SubSet c Sb tn (included σ) k) fd.ty.unwrapped := by
    have := hnest t fd (pu_all ht) hfd
    simp only [fdepth, hkey] at this
    refine coh_subset _ _ _ _ ?_ this
    rintro s ⟨t', ht', hk', hs'⟩
    exact ⟨t', pu_all ht', hk', hs'⟩
  have key : ∀ fs, (k, fs) ∈ g → ∃ f0 rest, fs = f0 :: rest ∧ f0.name = t.name := by
    intro fs hfs
    obtain ⟨f0, rest, al, hfs', hpu⟩ := group_head hpe hg hfs
    have := (cohAt_full hcoh _ _ (pu_all hpu) (pu_all ht) (by simp [hkey])).2.1
    exact ⟨f0, rest, hfs', this⟩
  have htn' : ¬ (t.name == "__typename") = true := by simp [htn]
  constructor
  · intro kvs hF _
    obtain ⟨fs, hfs⟩ := group_of hpe hg ht
    rw [hkey] at hfs
    obtain ⟨f0, rest, hfs', hname⟩ := key fs hfs
    obtain ⟨f0', rest', hfs'', hok⟩ := hF _ hfs
    simp only at hfs'' hok
    rw [hfs'] at hfs''; cases hfs''
    rw [hname, if_neg htn'] at hok
    obtain ⟨fd', hfd', hc⟩ := hok
    rw [hfd] at hfd'; cases hfd'
    simp only [DenField, SField.name]
    exact (hT fd.ty _ (mergedSub fs) false hrel (subSet_merged hpe hg hfs) hcohT).1 _ hc
  · intro D kvs fs hfuel hwf _ hfs hden
    simp only [SField.name] at hfs hden ⊢
    obtain ⟨f0, rest, hfs', hname⟩ := key fs hfs
    refine ⟨f0, rest, hfs', ?_⟩
    rw [hname, if_neg htn']
    simp only [DenField] at hden
    refine ⟨fd, hfd, ?_⟩
    simp only [fdepth]
    exact (hT fd.ty _ (mergedSub fs) false hrel (subSet_merged hpe hg hfs) hcohT).2 D (hfuel _ hfs) _
      (jget_wf hwf k) hden

theorem branchStmt_of (H : Hyp c e r orig) (tn : Name) (vars : List (Name × Bool)) (un al : List SField)
    (hun : ∀ f ∈ un, FieldStmt c e r orig f) (hal : ∀ f ∈ al, FieldStmt c e r orig f) :
    BranchStmt c e r orig (.mk tn vars un al) := by
  intro n Sb ss hrel hpe hcoh
  simp only [RelBranch] at hrel
  obtain ⟨hposs, ⟨td, htd, hkind⟩, hself, _, _, _, hf⟩ := hrel
  simp only [Coh] at hcoh
  obtain ⟨hcohAt, hnest⟩ := hcoh tn hposs
  obtain ⟨ofs, hofs, hdecl⟩ := H.origObj tn td htd hkind
  have hnestU : ∀ f ∈ un, ∀ t fd, PU c Sb tn allInc t → c.S.field? tn t.name = some fd →
      Coh c (fdepth f) (SubSet c Sb tn allInc t.key) fd.ty.unwrapped := by
    intro f hfm t fd ht hfd
    refine coh_mono _ _ ?_ _ _ (hnest t fd ht hfd)
    have := fsdepth_mem hfm; simp only [bdepth]; omega
  have hnestA : ∀ f ∈ al, ∀ t fd, PU c Sb tn allInc t → c.S.field? tn t.name = some fd →
      Coh c (fdepth f) (SubSet c Sb tn allInc t.key) fd.ty.unwrapped := by
    intro f hfm t fd ht hfd
    refine coh_mono _ _ ?_ _ _ (hnest t fd ht hfd)
    have := fsdepth_mem hfm; simp only [bdepth]; omega
  simp only [Branch.vars, Branch.typeName]
  constructor
  · intro σ g v hag hg hset
    obtain ⟨hu, ha, hcov⟩ := hf σ hag
    obtain ⟨kvs, rfl, hF, hK⟩ := hset
    simp only [DenBranch]
    refine ⟨ofs, hofs, kvs, rfl, ?_, ?_, ?_⟩
    · rw [denFields_iff]
      intro f hfm _
      exact (hun f hfm tn σ Sb false ss g (relFields_mem hu f hfm) hpe hcohAt (hnestU f hfm) hg).1 kvs hF hK
    · rw [denFields_iff]
      intro f hfm _
      exact (hal f hfm tn σ Sb true ss g (relFields_mem ha f hfm) hpe hcohAt (hnestA f hfm) hg).1 kvs hF hK
    · intro kv hkv
      rcases hK kv hkv with h | ⟨e', he', hk'⟩
      · exact Or.inl h
      · obtain ⟨k', fs⟩ := e'
        simp only at hk'; subst hk'
        obtain ⟨f0, rest, alx, _, hpu⟩ := group_head hpe hg he'
        obtain ⟨f, hfm, hname, hne⟩ := hcov _ hpu
        by_cases hax : alx = true
        · simp only [hax, ↓reduceIte] at hfm
          exact Or.inr (Or.inr ⟨f, hfm, hname⟩)
        · simp only [hax, Bool.false_eq_true, ↓reduceIte] at hfm
          exact Or.inr (Or.inl ⟨f, hfm, un_declared H htd hkind hofs (relFields_mem hu f hfm) hne, hname⟩)
  · intro D v hfuel hwf hden
    simp only [DenBranch] at hden
    obtain ⟨ofs', hofs', kvs, rfl, hdu, hda, hkeys⟩ := hden
    rw [hofs] at hofs'; cases hofs'
    rw [denFields_iff] at hdu hda
    obtain ⟨hu, ha, hcov⟩ := hf (sigmaOf vars) hself
    obtain ⟨g, hg, hgf⟩ := collectFields_fuel hfuel (sigmaOf vars) tn
    rw [refLocalN_succ_iff]
    refine ⟨sigmaOf vars, g, hg, kvs, rfl, ?_, ?_⟩
    · rintro ⟨k, fs⟩ he'
      simp only
      obtain ⟨f0, rest, alx, _, hpu⟩ := group_head hpe hg he'
      obtain ⟨f, hfm, hname, hne⟩ := hcov _ hpu
      simp only at hname
      by_cases hax : alx = true
      · simp only [hax, ↓reduceIte] at hfm
        have hd := hda f hfm rfl
        have := (hal f hfm tn _ Sb true ss g (relFields_mem ha f hfm) hpe hcohAt (hnestA f hfm) hg).2 D kvs fs hgf hwf hne
          (hname ▸ he') hd
        rw [hname] at this
        refine fieldOkP_mono (refLocalN_mono c _ _ ?_) this
        have := fsdepth_mem hfm; simp only [bdepth]; omega
      · simp only [hax, Bool.false_eq_true, ↓reduceIte] at hfm
        have hd := hdu f hfm (un_declared H htd hkind hofs (relFields_mem hu f hfm) hne)
        have := (hun f hfm tn _ Sb false ss g (relFields_mem hu f hfm) hpe hcohAt (hnestU f hfm) hg).2 D kvs fs hgf hwf hne
          (hname ▸ he') hd
        rw [hname] at this
        refine fieldOkP_mono (refLocalN_mono c _ _ ?_) this
        have := fsdepth_mem hfm; simp only [bdepth]; omega
    · intro kv hkv
      have hnd : (kvs.map (·.1)).Nodup := by simp only [JWf] at hwf; exact hwf.1
      have hget := jget_of_mem hnd kv hkv
      have fin : ∀ (tag : Bool) (f : SField), RelField c tn (sigmaOf vars) Sb tag f → f.name = kv.1 →
          DenField e r orig tn f (J.get kvs f.name) → kv.2 = .absent ∨ ∃ e' ∈ g, e'.1 = kv.1 := by
        intro tag f hr hname hd
        cases f with
        | empty k =>
          simp only [DenField, SField.name] at hd hname
          rw [hname, hget] at hd; exact Or.inl hd
        | leaf k ty b =>
          simp only [RelField] at hr
          obtain ⟨t, ht, hkey, _⟩ := hr
          obtain ⟨fs, hfs⟩ := group_of hpe hg ht
          simp only [SField.name] at hname
          exact Or.inr ⟨_, hfs, by simp [hkey, hname]⟩
        | object k T =>
          simp only [RelField] at hr
          obtain ⟨t, fd, ht, hkey, _⟩ := hr
          obtain ⟨fs, hfs⟩ := group_of hpe hg ht
          simp only [SField.name] at hname
          exact Or.inr ⟨_, hfs, by simp [hkey, hname]⟩
      rcases hkeys kv hkv with h | ⟨f, hfm, hdeclf, hname⟩ | ⟨f, hfm, hname⟩
      · exact Or.inl h
      · exact fin false f (relFields_mem hu f hfm) hname (hdu f hfm hdeclf)
      · exact fin true f (relFields_mem ha f hfm) hname (hda f hfm rfl)

theorem treeStmt_object (H : Hyp c e r orig) (bs : List Branch) (hbs : ∀ b ∈ bs, BranchStmt c e r orig b) :
    TreeStmt c e r orig (.object bs) := by
  intro ty Sb ss nn hrel hpe hcoh
  cases ty <;> simp only [RelTree] at hrel
  rename_i n p
  obtain ⟨hcomp, hcov, hrb⟩ := hrel
  simp only [GType.unwrapped, tdepth] at hcoh
  have hb : ∀ b ∈ bs, _ := fun b hb => hbs b hb n Sb ss (relBranches_mem hrb b hb) hpe
    (coh_mono _ _ (by have := bsdepth_mem hb; omega) _ _ hcoh)
  have hN : ∀ R v, NamedP c R ss n v ↔ ∃ o ∈ c.S.possibleTypes n, R o ss v := by
    intro R v; simp only [NamedP, hcomp, ↓reduceIte]
  constructor
  · intro v hv
    have main : NamedP c (RefLocal c) ss n v → DenTree e r orig (.object bs) nn v := by
      intro hn
      obtain ⟨o, ho, hr⟩ := (hN _ _).1 hn
      obtain ⟨σ, g, hg, hset⟩ := refLocal_unfold hr
      obtain ⟨b, hbm, rfl, hag⟩ := hcov o ho σ
      simp only [DenTree]
      exact Or.inr ((denBranches_iff v bs).2 ⟨b, hbm, (hb b hbm).1 σ g v hag hg hset⟩)
    simp only [CompP] at hv
    split at hv
    · exact main hv.2
    · rename_i hnn
      rcases hv with rfl | hv
      · simp only [DenTree]; exact Or.inl (by simpa using hnn)
      · exact main hv
  · intro D hfuel v hwf hden
    simp only [DenTree] at hden
    simp only [CompP, tdepth]
    have main : DenBranches e r orig bs v → v ≠ .null ∧ NamedP c (RefLocalN c (bsdepth bs + 1)) ss n v := by
      intro hd
      obtain ⟨b, hbm, hdb⟩ := (denBranches_iff v bs).1 hd
      have h1 := (hb b hbm).2 D v hfuel hwf hdb
      have hposs : b.typeName ∈ c.S.possibleTypes n := by
        have := relBranches_mem hrb b hbm
        cases b; simp only [RelBranch] at this; exact this.1
      refine ⟨?_, (hN _ _).2 ⟨b.typeName, hposs, refLocalN_mono c _ _ (by have := bsdepth_mem hbm; omega) _ _ _ h1⟩⟩
      rintro rfl
      cases b; simp only [DenBranch] at hdb
      obtain ⟨_, _, _, h, _⟩ := hdb; cases h
    split
    · rename_i hnn
      rcases hden with ⟨h, _⟩ | hd
      · rw [hnn] at h; cases h
      · exact main hd
    · rcases hden with ⟨_, h⟩ | hd
      · exact Or.inl h
      · exact Or.inr (main hd).2

mutual
theorem adeq_tree (H : Hyp c e r orig) : ∀ (T : SelTree), TreeStmt c e r orig T
  | .nonNull T => by
    intro ty Sb ss nn hrel hpe hcoh
    cases ty <;> simp only [RelTree] at hrel
    rename_i ty'
    simp only [GType.unwrapped, tdepth] at hcoh
    have ih := adeq_tree H T ty' Sb ss true hrel hpe hcoh
    simp only [CompP, DenTree, tdepth]
    exact ih
  | .list T => by
    intro ty Sb ss nn hrel hpe hcoh
    cases ty <;> simp only [RelTree] at hrel
    rename_i ty' p
    simp only [GType.unwrapped, tdepth] at hcoh
    have ih := adeq_tree H T ty' Sb ss false hrel hpe hcoh
    simp only [CompP, DenTree, tdepth]
    constructor
    · rintro v (h | ⟨xs, rfl, hx⟩)
      · exact Or.inl h
      · exact Or.inr ⟨xs, rfl, fun x hxm => ih.1 x (hx x hxm)⟩
    · rintro D hfuel v hwf (h | ⟨xs, rfl, hx⟩)
      · exact Or.inl h
      · simp only [JWf] at hwf
        exact Or.inr ⟨xs, rfl, fun x hxm => ih.2 D hfuel x (jWfList_mem hwf x hxm) (hx x hxm)⟩
  | .object bs => treeStmt_object H bs (adeq_branches H bs)
theorem adeq_branches (H : Hyp c e r orig) : ∀ (bs : List Branch), ∀ b ∈ bs, BranchStmt c e r orig b
  | [], _, h => by cases h
  | b0 :: bs, b, h => by
    rcases List.mem_cons.1 h with h | h
    · exact h ▸ adeq_branch H b0
    · exact adeq_branches H bs b h
theorem adeq_branch (H : Hyp c e r orig) : ∀ (b : Branch), BranchStmt c e r orig b
  | .mk tn vars un al => branchStmt_of H tn vars un al (adeq_fields H un) (adeq_fields H al)
theorem adeq_fields (H : Hyp c e r orig) : ∀ (fs : List SField), ∀ f ∈ fs, FieldStmt c e r orig f
  | [], _, h => by cases h
  | f0 :: fs, f, h => by
    rcases List.mem_cons.1 h with h | h
    · exact h ▸ adeq_field H f0
    · exact adeq_fields H fs f h
theorem adeq_field (H : Hyp c e r orig) : ∀ (f : SField), FieldStmt c e r orig f
  | .empty k => fieldStmt_empty k
  | .leaf k ty b => fieldStmt_leaf H k ty b
  | .object k T => fieldStmt_object k T (adeq_tree H T)
end

end
end NitroVerif.OpTypes.Ref
