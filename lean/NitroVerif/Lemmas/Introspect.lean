/-
Lemmas for `C15_schema_eq`: the reader (`Model/Introspect`) inverts the renderer of the specification
(`Spec/IntrospectSpec.encode`).
-/
import NitroVerif.Model.Introspect
import NitroVerif.Spec.IntrospectSpec
import NitroVerif.Lemmas.AstSchema
namespace NitroVerif.Introspect
open NitroVerif NitroVerif.SchemaIR NitroVerif.IntrospectSpec

theorem isNamedKind_kindStr (k : IKind) : isNamedKind (kindStr k) = true := by
  cases k <;> decide

theorem isNamedKind_kindOfName (s : Schema) (n : String) : isNamedKind (kindOfName s n) = true := by
  unfold kindOfName
  split
  · exact isNamedKind_kindStr _
  · decide

theorem dec_namedRef (s : Schema) (n : String) :
    (decTypeKvs (encNamedRefKvs s n) {}).bind finishType
      = some { kind := kindOfName s n, name := some n } := by
  simp [encNamedRefKvs, decTypeKvs, putOnce, reqStr, optStr, optTypeRef, finishType]

theorem asType_namedRef (s : Schema) (n : String) :
    asType { kind := kindOfName s n, name := some n } = .ok (.named n) := by
  simp [asType, isNamedKind_kindOfName]

theorem dec_encTypeKvs (s : Schema) (t : IType) :
    ((decTypeKvs (encTypeKvs s t) {}).bind finishType).map asType = some (.ok t) := by
  induction t with
  | named n => simp [encTypeKvs, dec_namedRef, asType_namedRef]
  | list t ih =>
    have h : optTypeRef (.obj (encTypeKvs s t)) = some (some (.ok t)) := by
      simp only [optTypeRef]
      cases hx : (decTypeKvs (encTypeKvs s t) {}).bind finishType with
      | none => simp [hx] at ih
      | some r => simp [hx] at ih ⊢; exact ih
    simp [encTypeKvs, decTypeKvs, putOnce, reqStr, optStr, h, finishType, asType, isNamedKind]
  | nonNull t ih =>
    have h : optTypeRef (.obj (encTypeKvs s t)) = some (some (.ok t)) := by
      simp only [optTypeRef]
      cases hx : (decTypeKvs (encTypeKvs s t) {}).bind finishType with
      | none => simp [hx] at ih
      | some r => simp [hx] at ih ⊢; exact ih
    simp [encTypeKvs, decTypeKvs, putOnce, reqStr, optStr, h, finishType, asType, isNamedKind]

theorem reqTypeRef_encType (s : Schema) (t : IType) : reqTypeRef (encType s t) = some (.ok t) := by
  simp only [encType, reqTypeRef]; exact dec_encTypeKvs s t

theorem deprecation_roundtrip (d : Option String) : deprecation (some d.isSome) d = d := by
  cases d <;> simp [deprecation]

theorem optStr_optStrJ (o : Option String) : optStr (optStrJ o) = some o := by
  cases o <;> rfl

theorem collect_ok {α : Type} (l : List α) : collect (l.map Except.ok) = .ok l := by
  induction l with
  | nil => rfl
  | cons x r ih => simp [collect, ih]

theorem decIV_encIV (s : Schema) (v : IInputValue) : decIV (encIV s v) = some (.ok v) := by
  cases v with | mk name desc ty default dep =>
  simp [encIV, decIV, decIVKvs, putOnce, reqStr, optStr_optStrJ, optBool, reqTypeRef_encType, finishIV,
    deprecation_roundtrip]

theorem ivList_enc (s : Schema) (l : List IInputValue) : ivList (l.map (encIV s)) = some (l.map Except.ok) := by
  induction l with
  | nil => simp [ivList]
  | cons x r ih => simp [ivList, decIV_encIV, ih]

theorem decField_encField (s : Schema) (f : IField) : decField (encField s f) = some (.ok f) := by
  cases f with | mk name desc ty args dep =>
  simp [encField, decField, decFieldKvs, putOnce, reqStr, optStr_optStrJ, optBool, reqTypeRef_encType, reqIVList,
    ivList_enc, finishField, collect_ok, deprecation_roundtrip]

theorem fieldList_enc (s : Schema) (l : List IField) : fieldList (l.map (encField s)) = some (l.map Except.ok) := by
  induction l with
  | nil => simp [fieldList]
  | cons x r ih => simp [fieldList, decField_encField, ih]

theorem decType_namedRef (s : Schema) (n : String) :
    decType (encNamedRef s n) = some { kind := kindOfName s n, name := some n } := by
  simp only [encNamedRef, decType]; exact dec_namedRef s n

theorem typeNameList_enc (s : Schema) (l : List String) :
    typeNameList (l.map (encNamedRef s)) = some (l.map Except.ok) := by
  induction l with
  | nil => simp [typeNameList]
  | cons x r ih => simp [typeNameList, decType_namedRef, asTypeName, asType_namedRef, IType.unwrapped, ih]

theorem decEV_encMember (m : IEnumMember) : decEV (encMember m) = some m := by
  cases m with | mk name desc dep =>
  simp [encMember, decEV, decEVKvs, putOnce, reqStr, optStr_optStrJ, optBool, finishEV, deprecation_roundtrip]

theorem decEVList_enc (l : List IEnumMember) : decEVList (l.map encMember) = some l := by
  induction l with
  | nil => simp [decEVList]
  | cons x r ih => simp [decEVList, decEV_encMember, ih]

end NitroVerif.Introspect
