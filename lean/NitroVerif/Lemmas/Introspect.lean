/-
Lemmas for `C15_schema_eq`: the reader (`Model/Introspect`) inverts the renderer of the specification
(`Spec/IntrospectSpec.encode`).
-/
import NitroVerif.Model.Introspect
import NitroVerif.Spec.IntrospectSpec
import NitroVerif.Lemmas.AstSchema
namespace NitroVerif.Introspect
open NitroVerif NitroVerif.SchemaIR NitroVerif.IntrospectSpec

theorem isNamedKind_kindStr (k : IKind) : isNamedKind (kindStr k) = true := by
  cases k <;> decide

theorem isNamedKind_kindOfName (s : Schema) (n : String) : isNamedKind (kindOfName s n) = true := by
  unfold kindOfName
  split
  · exact isNamedKind_kindStr _
  · decide

theorem dec_namedRef (s : Schema) (n : String) :
    (decTypeKvs (encNamedRefKvs s n) {}).bind finishType
      = some { kind := kindOfName s n, name := some n } := by
  simp [encNamedRefKvs, decTypeKvs, putOnce, reqStr, optStr, optTypeRef, finishType]

theorem asType_namedRef (s : Schema) (n : String) :
    asType { kind := kindOfName s n, name := some n } = .ok (.named n) := by
  simp [asType, isNamedKind_kindOfName]

theorem dec_encTypeKvs (s : Schema) (t : IType) :
    ((decTypeKvs (encTypeKvs s t) {}).bind finishType).map asType = some (.ok t) := by
  induction t with
  | named n => simp [encTypeKvs, dec_namedRef, asType_namedRef]
  | list t ih =>
    have h : optTypeRef (.obj (encTypeKvs s t)) = some (some (.ok t)) := by
      simp only [optTypeRef]
      cases hx : (decTypeKvs (encTypeKvs s t) {}).bind finishType with
      | none => simp [hx] at ih
      | some r => simp [hx] at ih ⊢; exact ih
    simp [encTypeKvs, decTypeKvs, putOnce, reqStr, optStr, h, finishType, asType, isNamedKind]
  | nonNull t ih =>
    have h : optTypeRef (.obj (encTypeKvs s t)) = some (some (.ok t)) := by
      simp only [optTypeRef]
      cases hx : (decTypeKvs (encTypeKvs s t) {}).bind finishType with
      | none => simp [hx] at ih
      | some r => simp [hx] at ih ⊢; exact ih
    simp [encTypeKvs, decTypeKvs, putOnce, reqStr, optStr, h, finishType, asType, isNamedKind]

theorem reqTypeRef_encType (s : Schema) (t : IType) : reqTypeRef (encType s t) = some (.ok t) := by
  simp only [encType, reqTypeRef]; exact dec_encTypeKvs s t

theorem deprecation_roundtrip (d : Option String) : deprecation (some d.isSome) d = d := by
  cases d <;> simp [deprecation]

theorem optStr_optStrJ (o : Option String) : optStr (optStrJ o) = some o := by
  cases o <;> rfl

theorem collect_ok {α : Type} (l : List α) : collect (l.map Except.ok) = .ok l := by
  induction l with
  | nil => rfl
  | cons x r ih => simp [collect, ih]

theorem decIV_encIV (s : Schema) (v : IInputValue) : decIV (encIV s v) = some (.ok v) := by
  cases v with | mk name desc ty default dep =>
  simp [encIV, decIV, decIVKvs, putOnce, reqStr, optStr_optStrJ, optBool, reqTypeRef_encType, finishIV,
    deprecation_roundtrip]

theorem ivList_enc (s : Schema) (l : List IInputValue) : ivList (l.map (encIV s)) = some (l.map Except.ok) := by
  induction l with
  | nil => simp [ivList]
  | cons x r ih => simp [ivList, decIV_encIV, ih]

theorem decField_encField (s : Schema) (f : IField) : decField (encField s f) = some (.ok f) := by
  cases f with | mk name desc ty args dep =>
  simp [encField, decField, decFieldKvs, putOnce, reqStr, optStr_optStrJ, optBool, reqTypeRef_encType, reqIVList,
    ivList_enc, finishField, collect_ok, deprecation_roundtrip]

theorem fieldList_enc (s : Schema) (l : List IField) : fieldList (l.map (encField s)) = some (l.map Except.ok) := by
  induction l with
  | nil => simp [fieldList]
  | cons x r ih => simp [fieldList, decField_encField, ih]

theorem decType_namedRef (s : Schema) (n : String) :
    decType (encNamedRef s n) = some { kind := kindOfName s n, name := some n } := by
  simp only [encNamedRef, decType]; exact dec_namedRef s n

theorem typeNameList_enc (s : Schema) (l : List String) :
    typeNameList (l.map (encNamedRef s)) = some (l.map Except.ok) := by
  induction l with
  | nil => simp [typeNameList]
  | cons x r ih => simp [typeNameList, decType_namedRef, asTypeName, asType_namedRef, IType.unwrapped, ih]

theorem decEV_encMember (m : IEnumMember) : decEV (encMember m) = some m := by
  cases m with | mk name desc dep =>
  simp [encMember, decEV, decEVKvs, putOnce, reqStr, optStr_optStrJ, optBool, finishEV, deprecation_roundtrip]

theorem decEVList_enc (l : List IEnumMember) : decEVList (l.map encMember) = some l := by
  induction l with
  | nil => simp [decEVList]
  | cons x r ih => simp [decEVList, decEV_encMember, ih]

@[simp] theorem optStr_str (x : String) : optStr (.str x) = some (some x) := rfl
@[simp] theorem optStr_null : optStr .null = some none := rfl

theorem asTypeDefinition_enc (s : Schema) (url : String → Option String) (t : ITypeDef) :
    (decType (encTypeDef s url t)).map asTypeDefinition = some (.ok (AstSchema.cleanType t)) := by
  cases t with | mk kind name desc fields interfaces possible members inputs =>
  cases kind <;>
    simp [encTypeDef, decType, decTypeKvs, putOnce, reqStr, optStr_optStrJ, optFieldList, optIVList,
      optTypeNameList, optEVList, fieldList_enc, ivList_enc, typeNameList_enc, decEVList_enc, finishType,
      asTypeDefinition, kindStr, collect_ok, AstSchema.cleanType, possibleOf]

theorem typeRecList_enc (s : Schema) (url : String → Option String) (l : List ITypeDef) :
    (typeRecList (l.map (encTypeDef s url))).map (fun rs => collect (rs.map asTypeDefinition))
      = some (.ok (l.map AstSchema.cleanType)) := by
  induction l with
  | nil => simp [typeRecList, collect]
  | cons x r ih =>
    have hx := asTypeDefinition_enc s url x
    cases hd : decType (encTypeDef s url x) with
    | none => simp [hd] at hx
    | some rx =>
      simp [hd] at hx
      cases hr : typeRecList (r.map (encTypeDef s url)) with
      | none => simp [hr] at ih
      | some rr =>
        simp [hr] at ih
        simp [typeRecList, hd, hr, collect, hx, ih]

theorem strList_enc (l : List String) : strList (l.map Json.str) = some l := by
  induction l with
  | nil => simp [strList]
  | cons x r ih => simp [strList, reqStr, ih]

theorem decDir_encDirective (s : Schema) (d : IDirectiveDef) : decDir (encDirective s d) = some d := by
  cases d with | mk name desc locations args repeatable =>
  simp [encDirective, decDir, decDirKvs, putOnce, reqStr, optStr_optStrJ, optBool, reqStrList, strList_enc, reqIVList,
    ivList_enc, finishDir, collect_ok]

theorem dirList_enc (s : Schema) (l : List IDirectiveDef) : dirList (l.map (encDirective s)) = some l := by
  induction l with
  | nil => simp [dirList]
  | cons x r ih => simp [dirList, decDir_encDirective, ih]

theorem optNameObj_encRoot (r : Option String) : optNameObj (encRoot r) = some r := by
  cases r <;> simp [encRoot, optNameObj, reqNameObj, nameObjKvs, putOnce, reqStr]

theorem typeRecList_enc' (s : Schema) (url : String → Option String) (l : List ITypeDef) :
    ∃ rs, typeRecList (l.map (encTypeDef s url)) = some rs ∧
      collect (rs.map asTypeDefinition) = .ok (l.map AstSchema.cleanType) := by
  have h := typeRecList_enc s url l
  cases hr : typeRecList (l.map (encTypeDef s url)) with
  | none => simp [hr] at h
  | some rs => exact ⟨rs, rfl, by simpa [hr] using h⟩

/-- what the reader keeps of a schema value rendered as an introspection result: everything, with the components
    outside a definition's kind emptied (`possibleTypes` of an interface is not read), first definition of a
    repeated name kept, root-types node at a built-in position -/
def readBack (s : Schema) : Schema :=
  { desc := s.desc, roots := s.roots, explicitRoots := false,
    types := extendTypes [] (s.types.map AstSchema.cleanType), directives := extendDirectives [] s.directives }

/-- the reader inverts the specification's renderer (for a schema with a query root) -/
theorem fromIntrospection_encode (s : Schema) (url : String → Option String) (q : String)
    (hq : s.roots.query = some q) :
    fromIntrospection (encode s url)
      = .ok { desc := s.desc, roots := s.roots, explicitRoots := false,
              types := extendTypes [] (s.types.map AstSchema.cleanType),
              directives := extendDirectives [] s.directives } := by
  obtain ⟨rs, hrs, hcol⟩ := typeRecList_enc' s url s.types
  have hroots : s.roots = { query := some q, mutation := s.roots.mutation, subscription := s.roots.subscription } := by
    cases hr : s.roots with | mk a b c => simp [hr] at hq; simp [hq]
  have hqobj : reqNameObj (encRoot (some q)) = some q := by
    simp [encRoot, reqNameObj, nameObjKvs, putOnce, reqStr]
  simp only [encode, fromIntrospection, resultKvs]
  simp [decSchemaKvs, putOnce, optStr_optStrJ, hq, hqobj, optNameObj_encRoot, hrs, dirList_enc, finishSchema, hcol]
  rw [hroots]

end NitroVerif.Introspect
