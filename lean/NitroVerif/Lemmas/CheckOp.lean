import NitroVerif.Model.CheckOp
import NitroVerif.Spec.Valid
/-!
Helper lemmas for C03 / C04 (never the property statements): the scan structure of the main loop of
`check_operation_document` and of `check_variables_definition`.
-/
namespace NitroVerif.CheckOp
open NitroVerif.Gql NitroVerif.CheckCommon NitroVerif.Valid

theorem append_eq_nil' {α} {a b : List α} (h : a ++ b = []) : a = [] ∧ b = [] := by
  cases a <;> simp_all

/-- the reference validator and the model read the same operations / fragments off a document -/
theorem ops_eq (D : Doc) : Valid.ops D = opsOf D := rfl
theorem frags_eq (D : Doc) : Valid.frags D = fragsOf D := rfl

/-- names of the named operations of a list of definitions -/
def opNamesOf (ds : List ExecDef) : List Name := (opsOf ds).filterMap fun o => o.name.map (·.1)
def fragNamesOf (ds : List ExecDef) : List Name := (fragsOf ds).map (·.name)

theorem opNamesOf_nil : opNamesOf [] = [] := rfl
theorem fragNamesOf_nil : fragNamesOf [] = [] := rfl

theorem opNamesOf_cons (d : ExecDef) (ds : List ExecDef) :
    opNamesOf (d :: ds) = (match d with
      | .op o => (match o.name with | some (n, _) => [n] | none => [])
      | _ => []) ++ opNamesOf ds := by
  cases d with
  | op o =>
    cases h : o.name with
    | none => simp [opNamesOf, opsOf, h]
    | some np => obtain ⟨n, p⟩ := np; simp [opNamesOf, opsOf, h]
  | frag f => simp [opNamesOf, opsOf]
  | imp i => simp [opNamesOf, opsOf]

theorem opNamesOf_append (a b : List ExecDef) : opNamesOf (a ++ b) = opNamesOf a ++ opNamesOf b := by
  simp [opNamesOf, opsOf, List.filterMap_append]

theorem fragNamesOf_cons (d : ExecDef) (ds : List ExecDef) :
    fragNamesOf (d :: ds) = (match d with | .frag f => [f.name] | _ => []) ++ fragNamesOf ds := by
  cases d <;> simp [fragNamesOf, fragsOf]

theorem fragNamesOf_append (a b : List ExecDef) : fragNamesOf (a ++ b) = fragNamesOf a ++ fragNamesOf b := by
  simp [fragNamesOf, fragsOf, List.filterMap_append]

theorem any_opHasName (n : Name) (ds : List ExecDef) : ds.any (opHasName n) = true ↔ n ∈ opNamesOf ds := by
  induction ds with
  | nil => simp [opNamesOf, opsOf]
  | cons d ds ih =>
    rw [opNamesOf_cons, List.any_cons, Bool.or_eq_true, ih]
    cases d with
    | op o =>
      cases h : o.name with
      | none => simp [opHasName, h]
      | some np => obtain ⟨m, p⟩ := np; simp [opHasName, h, @eq_comm _ m n]
    | frag f => simp [opHasName]
    | imp i => simp [opHasName]

theorem any_fragHasName (n : Name) (ds : List ExecDef) : ds.any (fragHasName n) = true ↔ n ∈ fragNamesOf ds := by
  induction ds with
  | nil => simp [fragNamesOf, fragsOf]
  | cons d ds ih =>
    rw [fragNamesOf_cons, List.any_cons, Bool.or_eq_true, ih]
    cases d with
    | frag f => simp [fragHasName, @eq_comm _ f.name n]
    | op o => simp [fragHasName]
    | imp i => simp [fragHasName]

/-- every definition of an accepted document has an empty header and an empty body -/
theorem checkDefs_mem {S : Schema} {D : Doc} {n : Nat} :
    ∀ (rest earlier : List ExecDef), checkDefs S D n earlier rest = [] →
      ∀ d ∈ rest, (∃ e, defHeader n e d = []) ∧ defBody S D d = [] := by
  intro rest
  induction rest with
  | nil => intro _ _ d hd; cases hd
  | cons x rest ih =>
    intro earlier h d hd
    simp only [checkDefs] at h
    obtain ⟨h1, h3⟩ := append_eq_nil' h
    obtain ⟨h1, h2⟩ := append_eq_nil' h1
    rcases List.mem_cons.mp hd with rfl | hd
    · exact ⟨⟨earlier, h1⟩, h2⟩
    · exact ih _ h3 d hd

/-- scan lemma for operation names: nothing later repeats an earlier name, and the later names are distinct -/
theorem checkDefs_opNames {S : Schema} {D : Doc} {n : Nat} :
    ∀ (rest earlier : List ExecDef), checkDefs S D n earlier rest = [] →
      (∀ x ∈ opNamesOf rest, x ∉ opNamesOf earlier) ∧ nodupB (opNamesOf rest) = true := by
  intro rest
  induction rest with
  | nil => intro _ _; simp [opNamesOf, opsOf, nodupB]
  | cons d rest ih =>
    intro earlier h
    simp only [checkDefs] at h
    obtain ⟨h1, h3⟩ := append_eq_nil' h
    obtain ⟨h1, _⟩ := append_eq_nil' h1
    obtain ⟨ihA, ihB⟩ := ih _ h3
    rw [opNamesOf_append] at ihA
    rw [opNamesOf_cons]
    cases d with
    | op o =>
      cases hn : o.name with
      | none =>
        simp only [hn, List.nil_append]
        refine ⟨fun x hx hx' => ihA x hx (List.mem_append_left _ hx'), ihB⟩
      | some np =>
        obtain ⟨m, p⟩ := np
        simp only [hn]
        have hm : m ∉ opNamesOf earlier := by
          intro hmem
          have := (any_opHasName m earlier).mpr hmem
          simp [defHeader, hn, this] at h1
        have hd : opNamesOf [ExecDef.op o] = [m] := by simp [opNamesOf_cons, hn, opNamesOf_nil]
        have hm' : m ∉ opNamesOf rest := by
          intro hmem
          exact ihA m hmem (List.mem_append_right _ (by simp [hd]))
        refine ⟨?_, ?_⟩
        · intro x hx hx'
          simp only [List.cons_append, List.nil_append, List.mem_cons] at hx
          rcases hx with rfl | hx
          · exact hm hx'
          · exact ihA x hx (List.mem_append_left _ hx')
        · simp only [List.cons_append, List.nil_append, nodupB, Bool.and_eq_true, Bool.not_eq_true',
            ihB, and_true]
          simpa using hm'
    | frag f =>
      simp only [List.nil_append]
      exact ⟨fun x hx hx' => ihA x hx (List.mem_append_left _ hx'), ihB⟩
    | imp i =>
      simp only [List.nil_append]
      exact ⟨fun x hx hx' => ihA x hx (List.mem_append_left _ hx'), ihB⟩

/-- scan lemma for fragment names -/
theorem checkDefs_fragNames {S : Schema} {D : Doc} {n : Nat} :
    ∀ (rest earlier : List ExecDef), checkDefs S D n earlier rest = [] →
      (∀ x ∈ fragNamesOf rest, x ∉ fragNamesOf earlier) ∧ nodupB (fragNamesOf rest) = true := by
  intro rest
  induction rest with
  | nil => intro _ _; simp [fragNamesOf, fragsOf, nodupB]
  | cons d rest ih =>
    intro earlier h
    simp only [checkDefs] at h
    obtain ⟨h1, h3⟩ := append_eq_nil' h
    obtain ⟨h1, _⟩ := append_eq_nil' h1
    obtain ⟨ihA, ihB⟩ := ih _ h3
    rw [fragNamesOf_append] at ihA
    rw [fragNamesOf_cons]
    cases d with
    | frag f =>
      have hm : f.name ∉ fragNamesOf earlier := by
        intro hmem
        have := (any_fragHasName f.name earlier).mpr hmem
        simp [defHeader, this] at h1
      have hd : fragNamesOf [ExecDef.frag f] = [f.name] := by simp [fragNamesOf_cons, fragNamesOf_nil]
      have hm' : f.name ∉ fragNamesOf rest := by
        intro hmem
        exact ihA _ hmem (List.mem_append_right _ (by simp [hd]))
      refine ⟨?_, ?_⟩
      · intro x hx hx'
        simp only [List.cons_append, List.nil_append, List.mem_cons] at hx
        rcases hx with rfl | hx
        · exact hm hx'
        · exact ihA x hx (List.mem_append_left _ hx')
      · simp only [List.cons_append, List.nil_append, nodupB, Bool.and_eq_true, Bool.not_eq_true',
          ihB, and_true]
        simpa using hm'
    | op o =>
      simp only [List.nil_append]
      exact ⟨fun x hx hx' => ihA x hx (List.mem_append_left _ hx'), ihB⟩
    | imp i =>
      simp only [List.nil_append]
      exact ⟨fun x hx hx' => ihA x hx (List.mem_append_left _ hx'), ihB⟩

/-- scan lemma for `check_variables_definition` -/
theorem checkVariablesAux_nil {S : Schema} :
    ∀ (vs : List VarDef) (seen : List Name), checkVariablesAux S seen vs = [] →
      (∀ v ∈ vs, v.name ∉ seen) ∧ nodupB (vs.map (·.name)) = true ∧
      (∀ v ∈ vs, isInputType? S v.ty.unwrapped = some true) := by
  intro vs
  induction vs with
  | nil => intro _ _; simp [nodupB]
  | cons v vs ih =>
    intro seen h
    simp only [checkVariablesAux] at h
    obtain ⟨h1, h4⟩ := append_eq_nil' h
    obtain ⟨h1, h3⟩ := append_eq_nil' h1
    obtain ⟨h1, _⟩ := append_eq_nil' h1
    have hseen : seen.contains v.name = false := by
      cases hc : seen.contains v.name with
      | false => rfl
      | true => rw [hc] at h1; exact absurd h1 (by simp)
    rw [hseen] at h4
    simp only [Bool.false_eq_true, if_false] at h4
    obtain ⟨ihA, ihB, ihC⟩ := ih _ h4
    have hin : isInputType? S v.ty.unwrapped = some true := by
      cases hk : isInputType? S v.ty.unwrapped with
      | none => simp [hk] at h3
      | some b => cases b with
        | true => rfl
        | false => simp [hk] at h3
    have hnot : v.name ∉ seen := by simpa using hseen
    refine ⟨?_, ?_, ?_⟩
    · intro w hw
      rcases List.mem_cons.mp hw with rfl | hw
      · exact hnot
      · intro hmem; exact ihA w hw (List.mem_append_left _ hmem)
    · simp only [List.map_cons, nodupB, Bool.and_eq_true, Bool.not_eq_true', ihB, and_true]
      cases hc : (vs.map (·.name)).contains v.name with
      | false => rfl
      | true =>
        exfalso
        have : v.name ∈ vs.map (·.name) := by simpa using hc
        obtain ⟨w, hw, hwn⟩ := List.mem_map.mp this
        exact ihA w hw (by rw [hwn]; exact List.mem_append_right _ (by simp))
    · intro w hw
      rcases List.mem_cons.mp hw with rfl | hw
      · exact hin
      · exact ihC w hw

/-- an accepted operation found its root type and passed every part of `check_operation` -/
theorem checkOperation_nil {S : Schema} {D : Doc} {o : OperationDef} (h : checkOperation S D o = []) :
    ∃ root, S.typeDef? (S.rootName o.kind) = some root ∧
      checkDirectives S (some o.vars) o.dirs (opLocation o.kind) = [] ∧
      checkVariablesAux S [] o.vars = [] ∧
      (o.kind == .subscription && hasMoreThanOneField D o.sel) = false ∧
      checkSelectionSet S (spreadHandler S D (fuelFor D)) [] (some o.vars) root o.sel o.pos = [] := by
  unfold checkOperation at h
  split at h
  · simp at h
  · split at h
    · simp at h
    · rename_i root hroot
      obtain ⟨h1, h4⟩ := append_eq_nil' h
      obtain ⟨h1, h3⟩ := append_eq_nil' h1
      obtain ⟨h1, h2⟩ := append_eq_nil' h1
      refine ⟨root, hroot, h1, h2, ?_, h4⟩
      cases hc : (o.kind == .subscription && hasMoreThanOneField D o.sel) with
      | false => rfl
      | true => simp [hc] at h3

/-- every operation of an accepted document passed `check_variables_definition` -/
theorem vars_of_accepted {S : Schema} {D : Doc} (h : checkOp S D = []) :
    ∀ o ∈ Valid.ops D, checkVariablesAux S [] o.vars = [] := by
  intro o ho
  have hmem : ExecDef.op o ∈ D := by
    simp only [Valid.ops, List.mem_filterMap] at ho
    obtain ⟨d, hd, hdo⟩ := ho
    cases d <;> simp at hdo
    subst hdo; exact hd
  obtain ⟨_, hb⟩ := checkDefs_mem D [] h _ hmem
  obtain ⟨_, _, _, hv, _⟩ := checkOperation_nil (by simpa [defBody] using hb)
  exact hv


theorem nodupB_append_cons {x : Name} : ∀ (a b : List Name), nodupB (a ++ x :: b) = true → x ∉ a := by
  intro a
  induction a with
  | nil => intro _ _; simp
  | cons y a ih =>
    intro b h
    simp only [List.cons_append, nodupB, Bool.and_eq_true, Bool.not_eq_true'] at h
    obtain ⟨hy, hrest⟩ := h
    have hxa := ih b hrest
    intro hmem
    rcases List.mem_cons.mp hmem with rfl | hmem
    · have : (a ++ x :: b).contains x = true := by simp
      rw [this] at hy; cases hy
    · exact hxa hmem


/-- "not repeatable" as the reference validator reads it -/
def nonRepeatable (S : Schema) (d : Directive) : Bool :=
  match S.directiveDef? d.name with | some dd => !dd.repeatable | none => true

/-- scan lemma for `check_directives` -/
theorem checkDirectivesAux_nil {S : Schema} {vars : Option (List VarDef)} {loc : String} :
    ∀ (ds : List Directive) (seen : List Name), checkDirectivesAux S vars loc seen ds = [] →
      (∀ d ∈ ds, ∃ dd, S.directiveDef? d.name = some dd ∧ dd.locations.contains loc = true) ∧
      (∀ d ∈ ds, nonRepeatable S d = true → d.name ∉ seen) ∧
      nodupB ((ds.filter (nonRepeatable S)).map (·.name)) = true := by
  intro ds
  induction ds with
  | nil => intro _ _; simp [nodupB]
  | cons d ds ih =>
    intro seen h
    simp only [checkDirectivesAux] at h
    cases hd : S.directiveDef? d.name with
    | none => simp [hd] at h
    | some dd =>
      simp only [hd] at h
      obtain ⟨h1, h4⟩ := append_eq_nil' h
      obtain ⟨h1, _⟩ := append_eq_nil' h1
      obtain ⟨h1, h2⟩ := append_eq_nil' h1
      obtain ⟨ihA, ihB, ihC⟩ := ih _ h4
      have hloc : dd.locations.contains loc = true := by
        cases hc : dd.locations.all (· != loc) with
        | true => rw [hc] at h1; exact absurd h1 (by simp)
        | false =>
          obtain ⟨x, hx, hxl⟩ : ∃ x ∈ dd.locations, ¬ ((x != loc) = true) := by
            simpa [List.all_eq_true] using hc
          have : x = loc := by simpa using hxl
          subst this
          simpa using hx
      have hnr : nonRepeatable S d = !dd.repeatable := by simp [nonRepeatable, hd]
      have hseen : nonRepeatable S d = true → seen.contains d.name = false := by
        intro hn
        cases hc : seen.contains d.name with
        | false => rfl
        | true =>
          rw [hc] at h2
          rw [hnr] at hn
          have : dd.repeatable = false := by simpa using hn
          simp [this] at h2
      refine ⟨?_, ?_, ?_⟩
      · intro e he
        rcases List.mem_cons.mp he with rfl | he
        · exact ⟨dd, hd, hloc⟩
        · exact ihA e he
      · intro e he hn
        rcases List.mem_cons.mp he with rfl | he
        · simpa using hseen hn
        · intro hmem
          refine ihB e he hn ?_
          split
          · exact hmem
          · exact List.mem_append_left _ hmem
      · by_cases hn : nonRepeatable S d = true
        · have hs := hseen hn
          rw [hs] at ihB
          simp only [Bool.false_eq_true, if_false] at ihB
          simp only [List.filter_cons, hn, if_true, List.map_cons, nodupB, Bool.and_eq_true,
            Bool.not_eq_true', ihC, and_true]
          cases hc : ((ds.filter (nonRepeatable S)).map (·.name)).contains d.name with
          | false => rfl
          | true =>
            exfalso
            have : d.name ∈ (ds.filter (nonRepeatable S)).map (·.name) := by simpa using hc
            obtain ⟨e, he, hen⟩ := List.mem_map.mp this
            obtain ⟨he1, he2⟩ := List.mem_filter.mp he
            exact ihB e he1 he2 (by rw [hen]; exact List.mem_append_right _ (by simp))
        · have hn' : nonRepeatable S d = false := by simpa using hn
          simpa [List.filter_cons, hn'] using ihC

/-- every variable definition of an accepted variable list has accepted directives -/
theorem checkVariablesAux_dirs {S : Schema} :
    ∀ (vs : List VarDef) (seen : List Name), checkVariablesAux S seen vs = [] →
      ∀ v ∈ vs, checkDirectives S none v.dirs "VARIABLE_DEFINITION" = [] := by
  intro vs
  induction vs with
  | nil => intro _ _ v hv; cases hv
  | cons w vs ih =>
    intro seen h v hv
    simp only [checkVariablesAux] at h
    obtain ⟨h1, h4⟩ := append_eq_nil' h
    obtain ⟨h1, _⟩ := append_eq_nil' h1
    obtain ⟨_, h2⟩ := append_eq_nil' h1
    rcases List.mem_cons.mp hv with rfl | hv
    · exact h2
    · exact ih _ h4 v hv

/-- the three directive rules on one directive list, as the reference validator states them per site -/
def dirSiteOk (S : Schema) (site : String × List Directive) : Prop :=
  (∀ d ∈ site.2, (S.directiveDef? d.name).isSome = true) ∧
  (∀ d ∈ site.2, (match S.directiveDef? d.name with | some dd => dd.locations.contains site.1 | none => true) = true) ∧
  nodupB ((site.2.filter fun d => match S.directiveDef? d.name with | some dd => !dd.repeatable | none => true).map (·.name)) = true

theorem dirSiteOk_of_checkDirectives {S : Schema} {vars : Option (List VarDef)} {loc : String} {ds : List Directive}
    (h : checkDirectives S vars ds loc = []) : dirSiteOk S (loc, ds) := by
  obtain ⟨hA, _, hC⟩ := checkDirectivesAux_nil ds [] h
  refine ⟨?_, ?_, ?_⟩
  · intro d hd; obtain ⟨dd, hdd, _⟩ := hA d hd; simp [hdd]
  · intro d hd; obtain ⟨dd, hdd, hl⟩ := hA d hd; simpa [hdd] using hl
  · exact hC

end NitroVerif.CheckOp
