import NitroVerif.Lemmas.PrintMapBodyText
/-!
# C06 — the buffer of `SourceWriter` is the concatenated text of the calls, up to indentation

`SourceWriter` inserts `indent` spaces in front of the first non-empty piece it writes on a line and nothing else.
`stripLead` drops the spaces at the beginning of every line of a text. `run_buffer_text`: after ANY sequence of trait calls, run
from a state with an empty buffer, `stripLead` of the writer's buffer = `stripLead` of the concatenated chunks (`rawText`).
-/
namespace NitroVerif.PrintMap
open NitroVerif.SourceMap

/-- drop the spaces at the beginning of every line; the flag says "only spaces so far on this line" -/
def stripLead : Bool → List Char → List Char
  | _, [] => []
  | b, c :: cs =>
    if c = '\n' then c :: stripLead true cs
    else if b && c = ' ' then stripLead true cs
    else c :: stripLead false cs

/-- the flag after a text -/
def startAfter : Bool → List Char → Bool
  | b, [] => b
  | b, c :: cs =>
    if c = '\n' then startAfter true cs
    else if b && c = ' ' then startAfter true cs
    else startAfter false cs

theorem stripLead_append : ∀ (b : Bool) (A B : List Char),
    stripLead b (A ++ B) = stripLead b A ++ stripLead (startAfter b A) B
  | _, [], _ => rfl
  | b, c :: cs, B => by
    simp only [List.cons_append, stripLead, startAfter]
    split
    · simp [stripLead_append true cs B]
    · split
      · exact stripLead_append true cs B
      · simp [stripLead_append false cs B]

theorem startAfter_append : ∀ (b : Bool) (A B : List Char), startAfter b (A ++ B) = startAfter (startAfter b A) B
  | _, [], _ => rfl
  | b, c :: cs, B => by
    simp only [List.cons_append, startAfter]
    split
    · exact startAfter_append true cs B
    · split
      · exact startAfter_append true cs B
      · exact startAfter_append false cs B

theorem stripLead_spaces (n : Nat) : stripLead true (List.replicate n ' ') = [] := by
  induction n with
  | zero => rfl
  | succ n ih => simp [List.replicate_succ, stripLead, ih]

theorem startAfter_spaces (n : Nat) : startAfter true (List.replicate n ' ') = true := by
  induction n with
  | zero => rfl
  | succ n ih => simp [List.replicate_succ, startAfter, ih]

/-- the writer's buffer and the text `T` written so far agree up to line-leading spaces; a pending indentation is at a
    line start -/
def BufInv (st : WState) (T : List Char) : Prop :=
  stripLead true st.buf = stripLead true T ∧ startAfter true st.buf = startAfter true T ∧
  (st.pending = true → startAfter true st.buf = true)

theorem bufInv_append {st : WState} {T : List Char} (h : BufInv st T) (l : List Char) (hp : st.pending = false) :
    BufInv { st with buf := st.buf ++ l, col := st.col + utf16Len l } (T ++ l) := by
  obtain ⟨h1, h2, _⟩ := h
  refine ⟨?_, ?_, ?_⟩
  · simp only [stripLead_append, h1, h2]
  · simp only [startAfter_append, h2]
  · intro hpen; simp [hp] at hpen

theorem bufInv_flush {st : WState} {T : List Char} (h : BufInv st T) :
    BufInv (flushIndent st) T ∧ (flushIndent st).pending = false := by
  obtain ⟨h1, h2, h3⟩ := h
  unfold flushIndent
  split
  · rename_i hp
    have hs := h3 hp
    refine ⟨⟨?_, ?_, ?_⟩, rfl⟩
    · simp only [stripLead_append, hs, stripLead_spaces, List.append_nil, h1]
    · simp only [startAfter_append, hs, startAfter_spaces]
      rw [← h2, hs]
    · intro hpen; cases hpen
  · rename_i hp
    exact ⟨⟨h1, h2, h3⟩, by simpa using hp⟩

theorem bufInv_writeLine {st : WState} {T : List Char} (h : BufInv st T) (l : List Char) :
    BufInv (writeLine st l) (T ++ l) := by
  unfold writeLine
  split
  · rename_i hl
    have : l = [] := by simpa using hl
    subst this
    simpa using h
  · obtain ⟨hf, hp⟩ := bufInv_flush h
    exact bufInv_append hf l hp

theorem bufInv_newline {st : WState} {T : List Char} (h : BufInv st T) : BufInv (newline st) (T ++ ['\n']) := by
  obtain ⟨h1, h2, _⟩ := h
  refine ⟨?_, ?_, ?_⟩
  · simp only [newline, stripLead_append, h1, h2]
  · simp only [newline, startAfter_append, h2]
  · intro _
    simp [newline, startAfter_append, startAfter]

/-- lines joined by '\n', each preceded by one -/
def nlLines : List (List Char) → List Char
  | [] => []
  | l :: ls => '\n' :: l ++ nlLines ls

theorem bufInv_writeLines : ∀ (ls : List (List Char)) {st : WState} {T : List Char}, BufInv st T →
    BufInv (writeLines st ls) (T ++ nlLines ls)
  | [], _, _, h => by simpa [writeLines, nlLines] using h
  | l :: ls, st, T, h => by
    have h1 := bufInv_writeLine (bufInv_newline h) l
    have h2 := bufInv_writeLines ls h1
    simpa [writeLines, nlLines, List.append_assoc] using h2

theorem splitOn_join (sep : Char) : ∀ s : List Char, ∃ l ls, splitOn sep s = l :: ls ∧
    s = l ++ (ls.flatMap fun x => sep :: x)
  | [] => ⟨[], [], rfl, rfl⟩
  | c :: cs => by
    obtain ⟨l, ls, h1, h2⟩ := splitOn_join sep cs
    unfold splitOn
    split
    · rename_i hc
      exact ⟨[], l :: ls, by rw [h1], by simp [hc, h2]⟩
    · rw [h1]
      exact ⟨c :: l, ls, rfl, by simp [h2]⟩

theorem nlLines_eq (ls : List (List Char)) : nlLines ls = ls.flatMap fun x => '\n' :: x := by
  induction ls with
  | nil => rfl
  | cons l ls ih => simp [nlLines, ih]

theorem bufInv_write {st : WState} {T : List Char} (h : BufInv st T) (chunk : List Char) :
    BufInv (write st chunk) (T ++ chunk) := by
  obtain ⟨l, ls, h1, h2⟩ := splitOn_join '\n' chunk
  unfold write
  rw [h1]
  have := bufInv_writeLines ls (bufInv_writeLine h l)
  rw [nlLines_eq] at this
  rw [h2]
  simpa [List.append_assoc] using this

theorem bufInv_of_buf_eq {a b : WState} {T : List Char} (h : BufInv a T) (hb : b.buf = a.buf) (hp : b.pending = a.pending) :
    BufInv b T := by
  unfold BufInv at *
  rw [hb, hp]
  exact h

theorem bufInv_wAddEntry {st : WState} {T : List Char} (h : BufInv st T) (e : Entry) : BufInv (wAddEntry st e) T :=
  bufInv_of_buf_eq h rfl rfl

/-- the chunk an operation writes -/
def opChunk : Op → List Char
  | .write c => c
  | .writeFor c _ => c
  | _ => []

theorem bufInv_step (p : Policy) {st st' : WState} {T : List Char} (h : BufInv st T) (op : Op)
    (hs : step p st op = some st') : BufInv st' (T ++ opChunk op) := by
  cases op with
  | write c =>
    simp only [step, Option.some.injEq] at hs
    subst hs
    exact bufInv_write h c
  | writeFor c node =>
    simp only [step, writeFor] at hs
    split at hs
    · simp only [Option.some.injEq] at hs
      subst hs
      exact bufInv_write h c
    · split at hs
      · cases hs
      · split at hs
        · simp only [Option.some.injEq] at hs
          subst hs
          rename_i nm _
          have h0 : BufInv { st with names := (mapName p st.names nm).1 } T := bufInv_of_buf_eq h rfl rfl
          obtain ⟨hf, _⟩ := bufInv_flush h0
          exact bufInv_wAddEntry (bufInv_write (bufInv_wAddEntry hf _) c) _
        · simp only [Option.some.injEq] at hs
          subst hs
          exact bufInv_write (bufInv_wAddEntry h _) c
  | indent =>
    simp only [step, Option.some.injEq] at hs
    subst hs
    simp only [opChunk, List.append_nil]
    exact bufInv_of_buf_eq h rfl rfl
  | dedent =>
    simp only [step, Option.some.injEq] at hs
    subst hs
    simp only [opChunk, List.append_nil]
    exact bufInv_of_buf_eq h rfl rfl
  | setMapper m =>
    simp only [step, Option.some.injEq] at hs
    subst hs
    simp only [opChunk, List.append_nil]
    exact bufInv_of_buf_eq h rfl rfl

theorem bufInv_run (p : Policy) : ∀ (ops : List Op) {st st' : WState} {T : List Char}, BufInv st T →
    run p st ops = some st' → BufInv st' (T ++ ops.flatMap opChunk)
  | [], _, _, _, h, hr => by
    simp only [run, Option.some.injEq] at hr
    subst hr
    simpa using h
  | op :: ops, st, st', T, h, hr => by
    simp only [run] at hr
    split at hr
    · cases hr
    · rename_i s1 hs
      have := bufInv_run p ops (bufInv_step p h op hs) hr
      simpa [List.append_assoc] using this

theorem chunks_toOp (ops : List POp) : (ops.map POp.toOp).flatMap opChunk = (rawText ops).toList := by
  induction ops with
  | nil => rfl
  | cons op ops ih =>
    cases op <;> simp [POp.toOp, opChunk, ih, String.toList_append]

/-- after ANY sequence of trait calls, run from a writer state whose buffer is still empty, the buffer is the
    concatenated text of the calls up to the spaces at the beginning of lines (the indentation) -/
theorem run_buffer_text (p : Policy) (ops : List POp) (st0 st : WState) (hb : st0.buf = []) (hp : st0.pending = false)
    (h : run p st0 (ops.map POp.toOp) = some st) :
    stripLead true st.buf = stripLead true (rawText ops).toList := by
  have h0 : BufInv st0 [] := by
    refine ⟨by rw [hb], by rw [hb], ?_⟩
    intro hpen; simp [hp] at hpen
  have := (bufInv_run p _ h0 h).1
  simpa [chunks_toOp] using this

end NitroVerif.PrintMap
