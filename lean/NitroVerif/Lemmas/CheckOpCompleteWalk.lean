import NitroVerif.Lemmas.CheckOpCompleteClosure
/-!
Completeness of the selection-set walk (C04).

* `walk_complete`: the structural part — through fields and inline fragments, for an arbitrary spread handler `H`:
  if every selection of the selection set and of the selection sets nested in it satisfies the local facts `SelOK`
  and `H` is quiet at every fragment spread, `checkSelections` is quiet.
* `handler_complete`: the part by fuel — `spreadHandler S D fuel` is quiet at a spread of a fragment in a scope whose
  fragments are all fine (`ScopeOK`), provided the fuel exceeds the number of fragments not yet on the stack and
  every fragment on the stack reaches the spread fragment. Acyclicity (5.5.2.2) then shows the fragment is not on
  the stack, and the "fuel exhausted" branch is never taken: pushing a fragment makes the count of fragments not
  on the stack strictly smaller.
-/
namespace NitroVerif.CheckOp
open NitroVerif.Gql NitroVerif.CheckCommon NitroVerif.Valid

/-- the local facts (from the specification's rules) that make one step of the walk quiet; a selection whose type
    in scope is unknown (`none`) is never visited -/
def SelOK (S : Schema) (D : Doc) (A : ErrKind → Bool) (vars : Option (List VarDef)) : Option Name × Selection → Prop
  | (none, _) => True
  | (some t, .field _ name _ args dirs sel) =>
    ∃ fd, fieldDef? S t name = some fd ∧ Quiet A (checkDirectives S vars dirs "FIELD") ∧
      (∀ pos, Quiet A (checkArguments S vars pos args fd.args)) ∧
      ∃ ft, S.typeDef? fd.ty.unwrapped = some ft ∧ sel.isSome = (directFields ft).isSome
  | (some t, .spread name _ dirs pos) =>
    Quiet A (checkDirectives S vars dirs "FRAGMENT_SPREAD") ∧
    ∀ root f ct, S.typeDef? t = some root → fragMap D name = some f → S.typeDef? f.cond = some ct →
      (spreadApplicability S root ct pos).1 = []
  | (some t, .inline cond dirs _ pos) =>
    Quiet A (checkDirectives S vars dirs "INLINE_FRAGMENT") ∧
    match cond with
    | none => True
    | some (c, _) => ∃ ct, S.typeDef? c = some ct ∧ (directFields ct).isSome = true ∧
        ∀ root, S.typeDef? t = some root → (spreadApplicability S root ct pos).1 = []

/-- the spread handler is quiet at a fragment spread visited with the type `t` in scope -/
def SpreadQuiet (S : Schema) (A : ErrKind → Bool) (H : SpreadHandler) (seen : List Name) (vars : Option (List VarDef)) :
    Option Name × Selection → Prop
  | (some t, .spread name np _ pos) => ∀ root, S.typeDef? t = some root → Quiet A (H seen vars root name np pos)
  | _ => True

section
variable {S : Schema} {D : Doc} {A : ErrKind → Bool} (hN : NoReservedFields S)
  {H : SpreadHandler} {seen : List Name} {vars : Option (List VarDef)}
include hN

/-- one selection, given the lemma for all strictly smaller selection sets -/
theorem walk_complete_sel (k : Nat)
    (IH : ∀ ss, Selection.sizeList ss ≤ k → ∀ t root fields, S.typeDef? t = some root → directFields root = some fields →
      (∀ s ∈ ss, SelOK S D A vars (some t, s) ∧ SpreadQuiet S A H seen vars (some t, s)) →
      (∀ ps ∈ allSels (ctxsOfSels S (some t) ss), SelOK S D A vars ps ∧ SpreadQuiet S A H seen vars ps) →
      Quiet A (checkSelections S H seen vars root fields ss)) :
    ∀ s, s.size ≤ k + 1 → ∀ t root fields, S.typeDef? t = some root → directFields root = some fields →
      (SelOK S D A vars (some t, s) ∧ SpreadQuiet S A H seen vars (some t, s)) →
      (∀ ps ∈ allSels (ctxsOfSel S (some t) s), SelOK S D A vars ps ∧ SpreadQuiet S A H seen vars ps) →
      Quiet A (checkSelection S H seen vars root fields s) := by
  intro s hsz t root fields hn hf hs h2
  cases s with
  | field al name namePos args dirs sel =>
    rw [checkSelection_field]
    obtain ⟨⟨fd, hfd, hd, ha, ft, hft, hsel⟩, _⟩ := hs
    have hfind : fields.find? (·.name == name) = some fd := by rw [← fieldDef?_eq_find hN hn hf]; exact hfd
    simp only [hfind, hft]
    rw [quiet_append, quiet_append]
    refine ⟨⟨hd, ha namePos⟩, ?_⟩
    cases sel with
    | none =>
      simp only
      have : (directFields ft).isSome = false := by simpa using hsel.symm
      simp only [this, Bool.false_eq_true, if_false]
      exact quiet_nil
    | some ss =>
      simp only
      have hss : Selection.sizeList ss ≤ k := by simp [Selection.size] at hsz; omega
      cases hdf : directFields ft with
      | none => simp [hdf] at hsel
      | some ffields =>
        simp only
        apply IH ss hss _ _ _ hft hdf
        · intro x hx
          apply h2
          simp only [ctxsOfSel, Option.bind_some, hfd, Option.map_some, allSels_cons, List.mem_append, List.mem_map]
          exact Or.inl ⟨x, hx, rfl⟩
        · intro ps hps
          apply h2
          simp only [ctxsOfSel, Option.bind_some, hfd, Option.map_some, allSels_cons, List.mem_append]
          exact Or.inr hps
  | spread name namePos dirs pos =>
    simp only [checkSelection]
    rw [quiet_append]
    exact ⟨hs.1.1, hs.2 root hn⟩
  | inline cond dirs ss pos =>
    simp only [checkSelection]
    rw [quiet_append]
    have hss : Selection.sizeList ss ≤ k := by simp [Selection.size] at hsz; omega
    obtain ⟨⟨hd, hc⟩, _⟩ := hs
    refine ⟨hd, ?_⟩
    cases cond with
    | none =>
      simp only
      apply IH ss hss _ _ _ hn hf
      · intro x hx
        apply h2
        simp only [ctxsOfSel, allSels_cons, List.mem_append, List.mem_map]
        exact Or.inl ⟨x, hx, rfl⟩
      · intro ps hps
        apply h2
        simp only [ctxsOfSel, allSels_cons, List.mem_append]
        exact Or.inr hps
    | some cc =>
      obtain ⟨c, cp⟩ := cc
      simp only at hc ⊢
      obtain ⟨ct, hct, hdf, hap⟩ := hc
      simp only [hct, spreadApplicability_go hf, if_true, hap root hn, List.nil_append]
      cases hdf' : directFields ct with
      | none => simp [hdf'] at hdf
      | some cfields =>
        simp only
        apply IH ss hss _ _ _ hct hdf'
        · intro x hx
          apply h2
          simp only [ctxsOfSel, allSels_cons, List.mem_append, List.mem_map]
          exact Or.inl ⟨x, hx, rfl⟩
        · intro ps hps
          apply h2
          simp only [ctxsOfSel, allSels_cons, List.mem_append]
          exact Or.inr hps

theorem walk_complete_sized : ∀ (k : Nat) (ss : List Selection), Selection.sizeList ss ≤ k →
    ∀ t root fields, S.typeDef? t = some root → directFields root = some fields →
      (∀ s ∈ ss, SelOK S D A vars (some t, s) ∧ SpreadQuiet S A H seen vars (some t, s)) →
      (∀ ps ∈ allSels (ctxsOfSels S (some t) ss), SelOK S D A vars ps ∧ SpreadQuiet S A H seen vars ps) →
      Quiet A (checkSelections S H seen vars root fields ss) := by
  intro k
  induction k with
  | zero =>
    intro ss hsz t root fields _ _ _ _
    cases ss with
    | nil => simp only [checkSelections]; exact quiet_nil
    | cons s ss => have := Selection.one_le_size s; simp [Selection.sizeList] at hsz; omega
  | succ k ih =>
    intro ss
    induction ss with
    | nil => intro _ t root fields _ _ _ _; simp only [checkSelections]; exact quiet_nil
    | cons s ss ihs =>
      intro hsz t root fields hn hf h1 h2
      have hs1 := Selection.one_le_size s
      simp only [Selection.sizeList] at hsz
      simp only [checkSelections]
      rw [quiet_append]
      refine ⟨?_, ?_⟩
      · apply walk_complete_sel hN k ih s (by omega) t root fields hn hf (h1 s (by simp))
        intro ps hps
        apply h2
        rw [ctxsOfSels, allSels_append]
        exact List.mem_append_left _ hps
      · apply ihs (by omega) t root fields hn hf (fun x hx => h1 x (List.mem_cons_of_mem _ hx))
        intro ps hps
        apply h2
        rw [ctxsOfSels, allSels_append]
        exact List.mem_append_right _ hps

/-- **Walk lemma (completeness).** -/
theorem walk_complete {t : Name} {root : TypeDef} {fields : List FieldDef} {ss : List Selection}
    (hn : S.typeDef? t = some root) (hf : directFields root = some fields)
    (h : ∀ ps ∈ allSels (ctxsOfRoot S t ss), SelOK S D A vars ps ∧ SpreadQuiet S A H seen vars ps) :
    Quiet A (checkSelections S H seen vars root fields ss) := by
  apply walk_complete_sized hN _ ss (Nat.le_refl _) t root fields hn hf
  · intro s hs
    apply h
    simp only [ctxsOfRoot, allSels_cons, List.mem_append, List.mem_map]
    exact Or.inl ⟨s, hs, rfl⟩
  · intro ps hps
    apply h
    simp only [ctxsOfRoot, allSels_cons, List.mem_append]
    exact Or.inr hps
end

/-- a fragment spread among the selections of a selection set (at any depth) is one of its spread names -/
theorem spreadNames_of_allSels (S : Schema) (n : Name) : ∀ (k : Nat) (ss : List Selection), Selection.sizeList ss ≤ k →
    ∀ (parent p : Option Name) np dirs pos,
      (p, Selection.spread n np dirs pos) ∈ allSels (⟨parent, ss⟩ :: ctxsOfSels S parent ss) → n ∈ spreadNames ss := by
  intro k
  induction k with
  | zero =>
    intro ss hsz parent p np dirs pos h
    cases ss with
    | nil => simp [allSels, ctxsOfSels] at h
    | cons s ss => have := Selection.one_le_size s; simp [Selection.sizeList] at hsz; omega
  | succ k ih =>
    intro ss
    induction ss with
    | nil => intro _ parent p np dirs pos h; simp [allSels, ctxsOfSels] at h
    | cons s ss ihs =>
      intro hsz parent p np dirs pos h
      have hs1 := Selection.one_le_size s
      simp only [Selection.sizeList] at hsz
      rw [spreadNames_cons, List.mem_append]
      rw [allSels_cons, ctxsOfSels, allSels_append] at h
      simp only [List.map_cons, List.mem_append, List.mem_cons] at h
      -- the spread is `s` itself, or in the rest of the set, or nested in `s`, or nested in the rest
      have hrest : (p, Selection.spread n np dirs pos) ∈ allSels (⟨parent, ss⟩ :: ctxsOfSels S parent ss) →
          n ∈ spreadNames ss := ihs (by omega) parent p np dirs pos
      rcases h with (h | h) | h | h
      · left
        have := (Prod.mk.inj h).2
        rw [← this]
        simp [spreadNamesSel]
      · right
        apply hrest
        rw [allSels_cons]
        exact List.mem_append_left _ h
      · left
        cases s with
        | field al name namePos args dirs' sel =>
          cases sel with
          | none => simp [ctxsOfSel, allSels] at h
          | some ss' =>
            have hss : Selection.sizeList ss' ≤ k := by simp [Selection.size] at hsz; omega
            simp only [ctxsOfSel] at h
            simp only [spreadNamesSel]
            exact ih ss' hss _ p np dirs pos h
        | spread => simp [ctxsOfSel, allSels] at h
        | inline cond dirs' ss' pos' =>
          have hss : Selection.sizeList ss' ≤ k := by simp [Selection.size] at hsz; omega
          simp only [spreadNamesSel]
          cases cond with
          | none => simp only [ctxsOfSel] at h; exact ih ss' hss _ p np dirs pos h
          | some cc => obtain ⟨c, cp⟩ := cc; simp only [ctxsOfSel] at h; exact ih ss' hss _ p np dirs pos h
      · right
        apply hrest
        rw [allSels_cons]
        exact List.mem_append_right _ h

/-! ### the spread handler, by fuel -/

/-- a fragment definition is fine in the scope `Sc` (a set of fragment names closed under spreads) -/
structure FragOK (S : Schema) (D : Doc) (A : ErrKind → Bool) (vars : Option (List VarDef)) (Sc : Name → Prop)
    (f : FragmentDef) : Prop where
  dirs : Quiet A (checkDirectives S vars f.dirs "FRAGMENT_DEFINITION")
  cond : ∃ ct fields, S.typeDef? f.cond = some ct ∧ directFields ct = some fields
  sels : ∀ ps ∈ allSels (ctxsOfRoot S f.cond f.sel), SelOK S D A vars ps
  next : ∀ m ∈ spreadNames f.sel, Sc m

/-- every name of the scope is a defined fragment that is fine -/
def ScopeOK (S : Schema) (D : Doc) (A : ErrKind → Bool) (vars : Option (List VarDef)) (Sc : Name → Prop) : Prop :=
  ∀ n, Sc n → ∃ f, fragMap D n = some f ∧ FragOK S D A vars Sc f

/-- what the walk needs to know about `reachable`: it contains the spreads of the start set, is closed under the
    spreads of reached fragments, and no fragment reaches itself (5.5.2.2) -/
structure DocReach (D : Doc) : Prop where
  start : ∀ ss n, n ∈ spreadNames ss → n ∈ Valid.reachable D ss
  step : ∀ ss m g n, m ∈ Valid.reachable D ss → fragMap D m = some g → n ∈ spreadNames g.sel → n ∈ Valid.reachable D ss
  acyclic : ∀ n f, fragMap D n = some f → n ∉ Valid.reachable D f.sel

section
variable {S : Schema} {D : Doc} {A : ErrKind → Bool} {vars : Option (List VarDef)} {Sc : Name → Prop}
  (hN : NoReservedFields S) (hSc : ScopeOK S D A vars Sc) (hR : DocReach D)
include hN hSc hR

/-- **Handler lemma (completeness, fuel adequacy).** -/
theorem handler_complete : ∀ (fuel : Nat) (seen : List Name) (t : Name) (root : TypeDef) (name : Name) (np pos : Pos),
    unseenIn (fragNamesOf D) seen < fuel → Sc name →
    (∀ s ∈ seen, ∃ g, fragMap D s = some g ∧ name ∈ Valid.reachable D g.sel) →
    S.typeDef? t = some root →
    (∀ f ct, fragMap D name = some f → S.typeDef? f.cond = some ct → (spreadApplicability S root ct pos).1 = []) →
    Quiet A (spreadHandler S D fuel seen vars root name np pos) := by
  intro fuel
  induction fuel with
  | zero => intro seen t root name np pos h; exact absurd h (Nat.not_lt_zero _)
  | succ k ih =>
    intro seen t root name np pos hfuel hsc hstack hroot happ
    obtain ⟨f, hm, hfok⟩ := hSc name hsc
    have hs : seen.contains name = false := by
      cases hc : seen.contains name with
      | false => rfl
      | true =>
        exfalso
        obtain ⟨g, hg, hreach⟩ := hstack name (by simpa using hc)
        exact hR.acyclic name g hg hreach
    obtain ⟨ct, fields, hct, hdf⟩ := hfok.cond
    simp only [spreadHandler, hs, Bool.false_eq_true, if_false, hm, hct, happ f ct hm hct, List.nil_append]
    rw [quiet_append]
    refine ⟨hfok.dirs, ?_⟩
    split
    · unfold checkSelectionSet
      simp only [hdf]
      obtain ⟨hfmem, hfname⟩ := fragMap_mem hm
      have hnameU : name ∈ fragNamesOf D := by
        rw [← hfname]; exact List.mem_map.mpr ⟨f, hfmem, rfl⟩
      have hfuel' : unseenIn (fragNamesOf D) (seen ++ [name]) < k := by
        have := unseenIn_lt (U := fragNamesOf D) (acc := seen) (acc' := seen ++ [name])
          (fun x hx => List.mem_append_left _ hx) hnameU (by simpa using hs) (by simp)
        omega
      apply walk_complete hN hct hdf
      intro ps hps
      refine ⟨hfok.sels ps hps, ?_⟩
      obtain ⟨p, s⟩ := ps
      cases p with
      | none => simp [SpreadQuiet]
      | some t' =>
        cases s with
        | field => simp [SpreadQuiet]
        | inline => simp [SpreadQuiet]
        | spread n' np' dirs' pos' =>
          simp only [SpreadQuiet]
          intro root' hroot'
          have hn' : n' ∈ spreadNames f.sel :=
            spreadNames_of_allSels S n' _ f.sel (Nat.le_refl _) (some f.cond) (some t') np' dirs' pos' hps
          have hsel := hfok.sels _ hps
          simp only [SelOK] at hsel
          apply ih (seen ++ [name]) t' root' n' np' pos' hfuel' (hfok.next n' hn') ?_ hroot'
            (fun f' ct' hf' hct' => hsel.2 root' f' ct' hroot' hf' hct')
          intro s hs'
          rcases List.mem_append.mp hs' with hs' | hs'
          · obtain ⟨g, hg, hreach⟩ := hstack s hs'
            exact ⟨g, hg, hR.step _ name f n' hreach hm hn'⟩
          · simp at hs'
            subst hs'
            exact ⟨f, hm, hR.start _ n' hn'⟩
    · exact quiet_nil

/-- the walk of a root selection set (an operation's, or a fragment definition's with its own name on the stack):
    quiet when its selections are fine, its spreads are in the scope, and every fragment on the initial stack
    reaches each of its spreads -/
theorem selectionSet_complete {seen : List Name} {t : Name} {root : TypeDef} {ss : List Selection} (anchor : Pos)
    (hroot : S.typeDef? t = some root) (hcomp : (directFields root).isSome = true)
    (hsels : ∀ ps ∈ allSels (ctxsOfRoot S t ss), SelOK S D A vars ps)
    (hscope : ∀ n ∈ spreadNames ss, Sc n)
    (hstack : ∀ s ∈ seen, ∃ g, fragMap D s = some g ∧ ∀ n ∈ spreadNames ss, n ∈ Valid.reachable D g.sel) :
    Quiet A (checkSelectionSet S (spreadHandler S D (fuelFor D)) seen vars root ss anchor) := by
  unfold checkSelectionSet
  cases hdf : directFields root with
  | none => simp [hdf] at hcomp
  | some fields =>
    simp only
    apply walk_complete hN hroot hdf
    intro ps hps
    refine ⟨hsels ps hps, ?_⟩
    obtain ⟨p, s⟩ := ps
    cases p with
    | none => simp [SpreadQuiet]
    | some t' =>
      cases s with
      | field => simp [SpreadQuiet]
      | inline => simp [SpreadQuiet]
      | spread n' np' dirs' pos' =>
        simp only [SpreadQuiet]
        intro root' hroot'
        have hn' : n' ∈ spreadNames ss :=
          spreadNames_of_allSels S n' _ ss (Nat.le_refl _) (some t) (some t') np' dirs' pos' hps
        have hsel := hsels _ hps
        simp only [SelOK] at hsel
        apply handler_complete hN hSc hR (fuelFor D) seen t' root' n' np' pos' ?_ (hscope n' hn') ?_ hroot'
          (fun f' ct' hf' hct' => hsel.2 root' f' ct' hroot' hf' hct')
        · have := unseenIn_le (fragNamesOf D) seen
          have hlen : (fragNamesOf D).length = (fragsOf D).length := by simp [fragNamesOf]
          simp only [fuelFor]
          omega
        · intro s hs
          obtain ⟨g, hg, hreach⟩ := hstack s hs
          exact ⟨g, hg, hreach n' hn'⟩
end

end NitroVerif.CheckOp
