import NitroVerif.Lemmas.CheckOpCompleteSites
/-!
Completeness of `check_operation` and `check_fragment_definition` (C04): assembling the walk, the directive /
argument / value lemmas, the subscription count and the variable definitions into "the body of every definition of
a spec-valid document is checked without a diagnostic" — under three decidable side conditions the specification's
rules (as transcribed in `Spec/Valid.lean`) and `SchemaValid` do not imply:
`noEmptyUnionB S` (no union type without members), `rootsDefinedB S D` (the schema has a root type for the kind of
every operation), `constVarDefsB D` (default values and directives of variable definitions contain no variables —
the grammar's `Value[Const]` / `Directives[Const]`).
-/
namespace NitroVerif.CheckOp
open NitroVerif.Gql NitroVerif.CheckCommon NitroVerif.Valid

/-! ### constant values -/

mutual
/-- the value contains a variable -/
def Value.hasVar : Value → Bool
  | .var .. => true
  | .list vs _ => Value.hasVarList vs
  | .obj fs _ => Value.hasVarFields fs
  | _ => false
def Value.hasVarList : List Value → Bool
  | [] => false
  | v :: vs => Value.hasVar v || Value.hasVarList vs
def Value.hasVarFields : List (Name × Pos × Value) → Bool
  | [] => false
  | (_, _, v) :: r => Value.hasVar v || Value.hasVarFields r
end

/-- the default values and the directives of variable definitions are constant (grammar: `DefaultValue : = Value[Const]`,
    `VariableDefinition : Variable : Type DefaultValue? Directives[Const]?`) -/
def constVarDefsB (D : Doc) : Bool :=
  (opsOf D).all fun o => o.vars.all fun v =>
    (match v.default with | some d => !Value.hasVar d | none => true) &&
    v.dirs.all fun d => d.args.all fun a => !Value.hasVar a.2.2

/-- the schema has a root operation type for the kind of every operation of the document (the two early exits of
    `check_operation`: `NoRootType`, `UnknownType`) -/
def rootsDefinedB (S : Schema) (D : Doc) : Bool :=
  (opsOf D).all fun o =>
    !(hasExplicitSchema S && (S.explicitRoot? o.kind).isNone) && (S.typeDef? (S.rootName o.kind)).isSome

/-- a constant value has no variable usage -/
theorem varUses_of_const (S : Schema) : ∀ (k : Nat) (v : Value), v.size ≤ k → Value.hasVar v = false →
    ∀ (t : GType) (ld : Bool), varUses S v t ld = [] := by
  intro k
  induction k with
  | zero => intro v hv; cases v <;> simp [Value.size] at hv
  | succ k ih =>
    have hlist : ∀ (vs : List Value) (inner : GType), Value.sizeList vs ≤ k → Value.hasVarList vs = false →
        varUsesList S vs inner = [] := by
      intro vs inner
      induction vs with
      | nil => intro _ _; simp [varUsesList]
      | cons v vs ihvs =>
        intro hsz hc
        simp only [Value.sizeList] at hsz
        simp only [Value.hasVarList, Bool.or_eq_false_iff] at hc
        simp only [varUsesList, ih v (by omega) hc.1, ihvs (by omega) hc.2, List.append_nil]
    have hfields : ∀ (inputs : List InputValueDef) (fs : List (Name × Pos × Value)), Value.sizeFields fs ≤ k →
        Value.hasVarFields fs = false → varUsesFields S fs inputs = [] := by
      intro inputs fs
      induction fs with
      | nil => intro _ _; simp [varUsesFields]
      | cons f fs ihfs =>
        obtain ⟨kk, p, v⟩ := f
        intro hsz hc
        simp only [Value.sizeFields] at hsz
        simp only [Value.hasVarFields, Bool.or_eq_false_iff] at hc
        simp only [varUsesFields, ihfs (by omega) hc.2, List.append_nil]
        cases inputs.find? (·.name == kk) with
        | none => simp
        | some d => simp only []; exact ih v (by omega) hc.1 _ _
    intro v hsz hc t ld
    cases v with
    | var n p => simp [Value.hasVar] at hc
    | list vs p =>
      simp only [Value.size] at hsz
      simp only [Value.hasVar] at hc
      simp only [varUses]
      split
      · exact hlist vs _ (by omega) hc
      · rfl
    | obj fs p =>
      simp only [Value.size] at hsz
      simp only [Value.hasVar] at hc
      simp only [varUses]
      split
      · split
        · exact hfields _ fs (by omega) hc
        · rfl
      · rfl
    | null p => simp [varUses]
    | int s p => simp [varUses]
    | float s p => simp [varUses]
    | str s p => simp [varUses]
    | bool s p => simp [varUses]
    | enum s p => simp [varUses]

/-! ### variable usages -/

/-- under `without_variable_checks` every variable usage is fine -/
theorem usesOK_uv (S : Schema) (sites : List ArgSite) : UsesOK S allowUV none sites := by
  intro tv _ u _
  unfold UseQuiet varCheck
  simp only [Option.getD_none, varDef?, List.find?_nil]
  rw [quiet_single]
  rfl

/-- a variable usage the specification allows is accepted -/
theorem varCheck_of_allowed {vars : List VarDef} {u : VarUse} {vd : VarDef}
    (hf : vars.find? (·.name == u.name) = some vd) (h : usageAllowed vd u = true) :
    varCheck (some vars) u.name u.pos u.locTy u.locDefault = [] := by
  unfold varCheck
  simp only [Option.getD_some, varDef?, hf]
  unfold usageAllowed at h
  have key : ∀ b : Bool, b = true → (if b = true then ([] : List Diag) else [(ErrKind.TypeMismatch, u.pos)]) = [] := by
    intro b hb; simp [hb]
  apply key
  cases hl : u.locTy with
  | named m q =>
    simp only [hl] at h ⊢
    rw [typeCompat_eq]
    cases hty : vd.ty <;> simpa [hty] using h
  | list e q =>
    simp only [hl] at h ⊢
    rw [typeCompat_eq]
    cases hty : vd.ty <;> simpa [hty] using h
  | nonNull inner =>
    simp only [hl] at h ⊢
    rw [hasNonNullDefault_eq]
    cases hty : vd.ty with
    | named m q =>
      simp only [hty] at h
      simp only [GType.isNonNull, Bool.not_false, if_true, typeCompat_eq]
      cases hd : hasNonNullVariableDefault vd <;> cases hld : u.locDefault <;> simp [hd, hld] at h ⊢ <;> exact h
    | list e q =>
      simp only [hty] at h
      simp only [GType.isNonNull, Bool.not_false, if_true, typeCompat_eq]
      cases hd : hasNonNullVariableDefault vd <;> cases hld : u.locDefault <;> simp [hd, hld] at h ⊢ <;> exact h
    | nonNull x =>
      simp only [hty] at h
      simp only [GType.isNonNull, Bool.not_true, Bool.false_eq_true, if_false, typeCompat_eq]
      exact h

/-! ### monotonicity of the site collectors -/

theorem allSels_mono {a b : List Ctx} (h : ∀ c ∈ a, c ∈ b) : ∀ ps ∈ allSels a, ps ∈ allSels b := by
  intro ps hps
  simp only [allSels, List.mem_flatMap] at hps ⊢
  obtain ⟨c, hc, hp⟩ := hps
  exact ⟨c, h c hc, hp⟩

theorem fieldArgSites_mono {S : Schema} {a b : List Ctx} (h : ∀ c ∈ a, c ∈ b) :
    ∀ x ∈ fieldArgSites S a, x ∈ fieldArgSites S b := by
  intro x hx
  simp only [fieldArgSites, List.mem_filterMap] at hx ⊢
  obtain ⟨ps, hps, hx⟩ := hx
  exact ⟨ps, allSels_mono h ps hps, hx⟩

theorem ctxDirSites_mono {a b : List Ctx} (h : ∀ c ∈ a, c ∈ b) : ∀ x ∈ ctxDirSites a, x ∈ ctxDirSites b := by
  intro x hx
  simp only [ctxDirSites, List.mem_map] at hx ⊢
  obtain ⟨ps, hps, hx⟩ := hx
  exact ⟨ps, allSels_mono h ps hps, hx⟩

theorem dirArgSites_mono {S : Schema} {a b : List (String × List Directive)} (h : ∀ s ∈ a, s ∈ b) :
    ∀ x ∈ dirArgSites S a, x ∈ dirArgSites S b := by
  intro x hx
  simp only [dirArgSites, List.mem_flatMap] at hx ⊢
  obtain ⟨s, hs, hx⟩ := hx
  exact ⟨s, h s hs, hx⟩

/-- the argument sites in the scope of one fragment definition -/
def fragArgSites (S : Schema) (f : FragmentDef) : List ArgSite :=
  fieldArgSites S (ctxsOfRoot S f.cond f.sel) ++
  dirArgSites S (defDirSites (.frag f) ++ ctxDirSites (ctxsOfRoot S f.cond f.sel))

theorem ctxsOfDef_sub {S : Schema} {D : Doc} {d : ExecDef} (hd : d ∈ D) : ∀ c ∈ ctxsOfDef S d, c ∈ allCtxs S D := by
  intro c hc
  simp only [allCtxs, List.mem_flatMap]
  exact ⟨d, hd, hc⟩

section
variable {S : Schema} {D : Doc} (hS : SchemaValid S) (hNE : noEmptyUnionB S = true) (R : Rules S D)
include hS hNE R

/-- a spread inside a definition of the document names a defined fragment (5.5.2.1) -/
theorem spread_defined {d : ExecDef} (hd : d ∈ D) {t : Name} {ss : List Selection}
    (hctx : ctxsOfDef S d = ctxsOfRoot S t ss) {n : Name} (hn : n ∈ spreadNames ss) :
    ∃ f, fragMap D n = some f := by
  obtain ⟨p, np, ds, ps, hmem⟩ := spread_in_allSels S n _ ss (Nat.le_refl _) hn (some t)
  have hmem' : (p, Selection.spread n np ds ps) ∈ allSels (allCtxs S D) := by
    apply allSels_mono (ctxsOfDef_sub hd)
    rw [hctx]
    simpa [ctxsOfRoot] using hmem
  have := List.all_eq_true.mp R.r5_2_1 _ hmem'
  simp only [frag?_eq_fragMap (doc_fragNames_nodup hS hNE R)] at this
  cases hm : fragMap D n with
  | none => simp [hm] at this
  | some f => exact ⟨f, rfl⟩

theorem doc_spreadsDefined : SpreadsDefined D := by
  intro f hf n hn
  obtain ⟨g, hg⟩ := spread_defined hS hNE R (frag_mem_doc hf) (t := f.cond) (ss := f.sel) rfl hn
  obtain ⟨hgm, hgn⟩ := fragMap_mem hg
  rw [← hgn]
  exact List.mem_map.mpr ⟨g, hgm, rfl⟩

theorem doc_reach : DocReach D := by
  have hnd := doc_fragNames_nodup hS hNE R
  have hSD := doc_spreadsDefined hS hNE R
  refine ⟨fun ss => (reachable_facts hnd hSD ss).1, fun ss => (reachable_facts hnd hSD ss).2, ?_⟩
  intro n f hf hmem
  obtain ⟨hfm, hfn⟩ := fragMap_mem hf
  have := List.all_eq_true.mp R.r5_2_2 f (by rw [frags_eq]; exact hfm)
  rw [hfn] at this
  have hc : (Valid.reachable D f.sel).contains n = true := by simpa using hmem
  rw [hc] at this; cases this

/-- a fragment definition is fine in any scope that contains its spreads, given its variable usages are handled -/
theorem fragOK_of_valid {A : ErrKind → Bool} {vars : Option (List VarDef)} {Sc : Name → Prop} {f : FragmentDef}
    (hf : f ∈ fragsOf D) (hu : UsesOK S A vars (fragArgSites S f)) (hnext : ∀ m ∈ spreadNames f.sel, Sc m) :
    FragOK S D A vars Sc f := by
  have hd := frag_mem_doc hf
  refine ⟨?_, ?_, ?_, hnext⟩
  · apply dirSite_quiet hS R
    · simp only [dirSites, List.mem_append, List.mem_flatMap]
      exact Or.inl ⟨.frag f, hd, by simp [defDirSites]⟩
    · apply usesOK_mono _ hu
      intro s hs
      simp only [fragArgSites, List.mem_append]
      right
      exact dirArgSites_mono (fun x hx => by simp at hx; subst hx; simp [defDirSites]) s hs
  · have hcond : f.cond ∈ typeConditions S D := by
      simp only [typeConditions, List.mem_append, List.mem_map]
      exact Or.inl ⟨f, by rw [frags_eq]; exact hf, rfl⟩
    obtain ⟨ct, hct, hck⟩ := typeCondition_ok hS hNE R hcond
    have := isComposite_directFields hck
    cases hdf : directFields ct with
    | none => simp [hdf] at this
    | some fields => exact ⟨ct, fields, hct, hdf⟩
  · intro ps hps
    apply selOK_of_valid hS hNE R (allSels_mono (ctxsOfDef_sub hd) ps hps)
    apply usesOK_mono _ hu
    intro s hs
    have := selArgSites_sub (C := ctxsOfRoot S f.cond f.sel) hps s hs
    simp only [fragArgSites, List.mem_append] at this ⊢
    rcases this with h | h
    · exact Or.inl h
    · exact Or.inr (dirArgSites_mono (fun x hx => List.mem_append_right _ hx) s h)

/-! ### operations -/

/-- every variable usage in the scope of an operation is accepted (5.8.3, 5.8.5) -/
theorem op_usesOK {o : OperationDef} (ho : o ∈ opsOf D) :
    UsesOK S allowNone (some o.vars) (fieldArgSites S (opCtxs S D o) ++ dirArgSites S (opDirSites S D o)) := by
  intro tv htv u hu
  have hmem : u ∈ opVarUses S D o := by
    simp only [opVarUses, List.mem_flatMap]
    exact ⟨tv, htv, hu⟩
  have ho' : o ∈ Valid.ops D := by rw [ops_eq]; exact ho
  have h3 := List.all_eq_true.mp (List.all_eq_true.mp R.r8_3 o ho') u hmem
  have h5 := List.all_eq_true.mp (List.all_eq_true.mp R.r8_5 o ho') u hmem
  cases hf : o.vars.find? (·.name == u.name) with
  | none =>
    exfalso
    obtain ⟨v, hv, hvn⟩ := List.any_eq_true.mp h3
    rw [List.find?_eq_none] at hf
    exact hf v hv hvn
  | some vd =>
    simp only [hf] at h5
    unfold UseQuiet
    rw [varCheck_of_allowed hf h5]
    exact quiet_nil

/-- a fragment reached from an operation is defined -/
theorem reachable_defined {d : ExecDef} (hd : d ∈ D) {t : Name} {ss : List Selection}
    (hctx : ctxsOfDef S d = ctxsOfRoot S t ss) {n : Name} (hn : n ∈ Valid.reachable D ss) :
    ∃ f, fragMap D n = some f := by
  have hr := reachable_sound (doc_fragNames_nodup hS hNE R) hn
  cases hr with
  | base h => exact spread_defined hS hNE R hd hctx h
  | step _ hg h =>
    exact spread_defined hS hNE R (frag_mem_doc (fragMap_mem hg).1) (t := _) (ss := _) rfl h

/-- the fragments an operation reaches form a scope in which every fragment is fine -/
theorem op_scopeOK {o : OperationDef} (ho : o ∈ opsOf D) :
    ScopeOK S D allowNone (some o.vars) (fun n => n ∈ Valid.reachable D o.sel) := by
  have hnd := doc_fragNames_nodup hS hNE R
  have hR := doc_reach hS hNE R
  intro n hn
  obtain ⟨f, hf⟩ := reachable_defined hS hNE R (op_mem_doc ho) (t := S.rootName o.kind) (ss := o.sel) rfl hn
  refine ⟨f, hf, ?_⟩
  obtain ⟨hfm, hfn⟩ := fragMap_mem hf
  apply fragOK_of_valid hS hNE R hfm
  · apply usesOK_mono _ (op_usesOK hS hNE R ho)
    have hfrag : Valid.frag? D n = some f := by rw [frag?_eq_fragMap hnd]; exact hf
    have hctx : ∀ c ∈ ctxsOfRoot S f.cond f.sel, c ∈ opCtxs S D o := by
      intro c hc
      simp only [opCtxs, List.mem_append, List.mem_flatMap]
      right
      exact ⟨n, hn, by rw [hfrag]; exact hc⟩
    intro s hs
    simp only [fragArgSites, List.mem_append] at hs
    simp only [List.mem_append]
    rcases hs with hs | hs
    · exact Or.inl (fieldArgSites_mono hctx s hs)
    · right
      refine dirArgSites_mono ?_ s hs
      intro x hx
      simp only [opDirSites, List.mem_append, List.mem_flatMap]
      rcases List.mem_append.mp hx with hx | hx
      · left; right
        exact ⟨n, hn, by rw [hfrag]; exact hx⟩
      · right
        exact ctxDirSites_mono hctx x hx
  · intro m hm
    exact hR.step _ n f m hn hf hm

theorem checkVariablesAux_complete {o : OperationDef} (ho : o ∈ opsOf D) (hconst : constVarDefsB D = true) :
    checkVariablesAux S [] o.vars = [] := by
  have SF := schemaFacts_of_valid hS
  have ho' : o ∈ Valid.ops D := by rw [ops_eq]; exact ho
  have hrest : checkVariablesAux S [] o.vars = o.vars.flatMap (varDefRest S) := by
    apply checkVariablesAux_rest
    · intro x hx; cases hx
    · exact List.all_eq_true.mp R.r8_1 o ho'
    · intro v hvm
      have := List.all_eq_true.mp (List.all_eq_true.mp R.r8_2 o ho') v hvm
      unfold isInputType?
      cases hk : S.kindOf? v.ty.unwrapped with
      | none => simp [hk] at this
      | some k => simp [hk] at this ⊢; exact this
  rw [hrest, List.flatMap_eq_nil_iff]
  intro v hv
  have hc := List.all_eq_true.mp (List.all_eq_true.mp hconst o ho) v hv
  simp only [Bool.and_eq_true] at hc
  obtain ⟨hcd, hcdirs⟩ := hc
  unfold varDefRest
  have h1 : checkDirectives S none v.dirs "VARIABLE_DEFINITION" = [] := by
    apply quiet_none_iff.mp
    apply dirSite_quiet hS R
    · simp only [dirSites, List.mem_append, List.mem_flatMap]
      exact Or.inl ⟨.op o, op_mem_doc ho, by simp only [defDirSites, List.mem_cons, List.mem_map]; exact Or.inr ⟨v, hv, rfl⟩⟩
    · intro tv htv u hu
      exfalso
      simp only [typedValuesOf, dirArgSites, List.flatMap_cons, List.flatMap_nil, List.append_nil, List.mem_flatMap,
        List.mem_filterMap] at htv
      obtain ⟨site, ⟨d, hd, hsite⟩, a, ha, htv⟩ := htv
      cases hdd : S.directiveDef? d.name with
      | none => simp [hdd] at hsite
      | some dd =>
        simp only [hdd, Option.map_some, Option.some.injEq] at hsite
        subst hsite
        simp only at ha htv
        cases hfd : dd.args.find? (·.name == a.1) with
        | none => simp [hfd] at htv
        | some ad =>
          simp only [hfd, Option.map_some, Option.some.injEq] at htv
          subst htv
          have hcv := List.all_eq_true.mp (List.all_eq_true.mp hcdirs d hd) a ha
          simp only [Bool.not_eq_true'] at hcv
          rw [varUses_of_const S _ _ (Nat.le_refl _) hcv] at hu
          cases hu
  rw [h1, List.nil_append]
  cases hdv : v.default with
  | none => rfl
  | some dv =>
    simp only
    apply quiet_none_iff.mp
    simp only [hdv, Bool.not_eq_true'] at hcd
    apply checkValue_complete' (schemaValid_uniqueArgs hS) SF.inputTy
    · have := List.all_eq_true.mp (List.all_eq_true.mp R.r8_2 o ho') v hv
      exact inputTy_of_match this
    · apply typedValues_clean hS R ⟨dv, v.ty, false⟩
      simp only [typedValues, List.mem_append, List.mem_flatMap, List.mem_filterMap]
      exact Or.inr ⟨o, ho', v, hv, by simp [hdv]⟩
    · intro u hu
      rw [varUses_of_const S _ _ (Nat.le_refl _) hcd] at hu
      cases hu

/-- the directives of an operation are checked without a diagnostic -/
theorem op_directives_complete {o : OperationDef} (ho : o ∈ opsOf D) :
    checkDirectives S (some o.vars) o.dirs (opLocation o.kind) = [] := by
  apply quiet_none_iff.mp
  rw [← opLocation_eq]
  apply dirSite_quiet hS R
  · simp only [dirSites, List.mem_append, List.mem_flatMap]
    exact Or.inl ⟨.op o, op_mem_doc ho, by simp [defDirSites]⟩
  · apply usesOK_mono _ (op_usesOK hS hNE R ho)
    intro s hs
    refine List.mem_append_right _ (dirArgSites_mono ?_ s hs)
    intro x hx
    simp at hx; subst hx
    simp [opDirSites, defDirSites]

/-- a subscription with exactly one root response key is not reported -/
theorem op_subscription_complete {o : OperationDef} (ho : o ∈ opsOf D) :
    (o.kind == .subscription && hasMoreThanOneField D o.sel) = false := by
  have hnd := doc_fragNames_nodup hS hNE R
  have hSD := doc_spreadsDefined hS hNE R
  have ho' : o ∈ Valid.ops D := by rw [ops_eq]; exact ho
  cases hk : (o.kind == OpKind.subscription) with
  | false => simp
  | true =>
    have h231 := List.all_eq_true.mp R.r2_3_1 o ho'
    have hne : (o.kind != OpKind.subscription) = false := by simp [bne, hk]
    simp only [hne, Bool.false_or, beq_iff_eq] at h231
    simp [hasMoreThanOneField_false hnd hSD h231]

/-- the walk of an operation's selection set (through fields, inline fragments and — by fuel — fragment spreads)
    reports nothing -/
theorem op_walk_complete {o : OperationDef} (ho : o ∈ opsOf D) {root : TypeDef}
    (hroot : S.typeDef? (S.rootName o.kind) = some root) :
    checkSelectionSet S (spreadHandler S D (fuelFor D)) [] (some o.vars) root o.sel o.pos = [] := by
  have SF := schemaFacts_of_valid hS
  have hR := doc_reach hS hNE R
  apply quiet_none_iff.mp
  apply selectionSet_complete (schemaValid_noReserved hS) (op_scopeOK hS hNE R ho) hR o.pos hroot
  · have := SF.roots o.kind root hroot
    unfold directFields; simp [this]
  · intro ps hps
    apply selOK_of_valid hS hNE R
      (allSels_mono (ctxsOfDef_sub (d := .op o) (op_mem_doc ho)) ps (by simpa [ctxsOfDef] using hps))
    apply usesOK_mono _ (op_usesOK hS hNE R ho)
    intro s hs
    have hsub : ∀ c ∈ ctxsOfRoot S (S.rootName o.kind) o.sel, c ∈ opCtxs S D o := by
      intro c hc; simp only [opCtxs, List.mem_append]; exact Or.inl hc
    have := selArgSites_sub (C := ctxsOfRoot S (S.rootName o.kind) o.sel) hps s hs
    rcases List.mem_append.mp this with h | h
    · exact List.mem_append_left _ (fieldArgSites_mono hsub s h)
    · refine List.mem_append_right _ (dirArgSites_mono ?_ s h)
      intro x hx
      simp only [opDirSites, List.mem_append]
      exact Or.inr (ctxDirSites_mono hsub x hx)
  · intro n hn; exact hR.start _ n hn
  · intro s hs; cases hs

/-- **Completeness of `check_operation`.** -/
theorem checkOperation_complete {o : OperationDef} (ho : o ∈ opsOf D) (hroots : rootsDefinedB S D = true)
    (hconst : constVarDefsB D = true) : checkOperation S D o = [] := by
  have hr := List.all_eq_true.mp hroots o ho
  simp only [Bool.and_eq_true, Bool.not_eq_true'] at hr
  obtain ⟨hr1, hr2⟩ := hr
  unfold checkOperation
  rw [hr1]
  simp only [Bool.false_eq_true, if_false]
  cases hroot : S.typeDef? (S.rootName o.kind) with
  | none => simp [hroot] at hr2
  | some root =>
    simp only
    rw [op_directives_complete hS hNE R ho, checkVariablesAux_complete hS hNE R ho hconst,
      op_subscription_complete hS hNE R ho, op_walk_complete hS hNE R ho hroot]
    rfl

/-! ### the scope of an operation lies inside the document -/

omit hS hNE in
theorem opCtxs_sub {o : OperationDef} (ho : o ∈ opsOf D) : ∀ c ∈ opCtxs S D o, c ∈ allCtxs S D := by
  intro c hc
  simp only [opCtxs, List.mem_append, List.mem_flatMap] at hc
  rcases hc with hc | ⟨n, _, hc⟩
  · exact ctxsOfDef_sub (d := .op o) (op_mem_doc ho) c (by simpa [ctxsOfDef] using hc)
  · cases hf : Valid.frag? D n with
    | none => simp [hf] at hc
    | some f =>
      simp only [hf] at hc
      exact ctxsOfDef_sub (d := .frag f) (frag_mem_doc (frag?_mem_frags hf)) c (by simpa [ctxsOfDef] using hc)

omit hS hNE in
theorem opDirSites_sub {o : OperationDef} (ho : o ∈ opsOf D) : ∀ x ∈ opDirSites S D o, x ∈ dirSites S D := by
  intro x hx
  simp only [opDirSites, List.mem_append, List.mem_flatMap] at hx
  simp only [dirSites, List.mem_append, List.mem_flatMap]
  rcases hx with (hx | ⟨n, _, hx⟩) | hx
  · exact Or.inl ⟨.op o, op_mem_doc ho, hx⟩
  · cases hf : Valid.frag? D n with
    | none => simp [hf] at hx
    | some f =>
      simp only [hf] at hx
      exact Or.inl ⟨.frag f, frag_mem_doc (frag?_mem_frags hf), hx⟩
  · exact Or.inr (ctxDirSites_mono (opCtxs_sub R ho) x hx)

omit hS hNE in
theorem opArgSites_sub {o : OperationDef} (ho : o ∈ opsOf D) :
    ∀ x ∈ fieldArgSites S (opCtxs S D o) ++ dirArgSites S (opDirSites S D o), x ∈ argSites S D := by
  intro x hx
  simp only [argSites, List.mem_append] at hx ⊢
  rcases hx with hx | hx
  · exact Or.inl (fieldArgSites_mono (opCtxs_sub R ho) x hx)
  · exact Or.inr (dirArgSites_mono (opDirSites_sub R ho) x hx)

/-! ### fragment definitions -/

/-- all defined fragments form a scope in which, under `without_variable_checks`, every fragment is fine -/
theorem all_scopeOK : ScopeOK S D allowUV none (fun n => ∃ f, fragMap D n = some f) := by
  intro n hn
  obtain ⟨f, hf⟩ := hn
  refine ⟨f, hf, ?_⟩
  obtain ⟨hfm, _⟩ := fragMap_mem hf
  apply fragOK_of_valid hS hNE R hfm (usesOK_uv S _)
  intro m hm
  exact spread_defined hS hNE R (frag_mem_doc hfm) (t := f.cond) (ss := f.sel) rfl hm

/-- **Completeness of `check_fragment_definition`**, whether or not an operation spreads the fragment. -/
theorem checkFragmentDefinition_complete {f : FragmentDef} (hf : f ∈ fragsOf D) (used : Bool) :
    checkFragmentDefinition S D used f = [] := by
  have hnd := doc_fragNames_nodup hS hNE R
  have hR := doc_reach hS hNE R
  have hfok := fragOK_of_valid hS hNE R (A := allowUV) (vars := none) (Sc := fun n => ∃ f, fragMap D n = some f)
    hf (usesOK_uv S _)
    (fun m hm => spread_defined hS hNE R (frag_mem_doc hf) (t := f.cond) (ss := f.sel) rfl hm)
  obtain ⟨ct, fields, hct, hdf⟩ := hfok.cond
  unfold checkFragmentDefinition
  simp only [hct, hdf, Option.isSome_some, if_true]
  cases used with
  | true => simp
  | false =>
    simp only [Bool.false_eq_true, if_false]
    rw [quiet_uv_iff.mpr hfok.dirs, List.nil_append]
    apply quiet_uv_iff.mpr
    apply selectionSet_complete (schemaValid_noReserved hS) (all_scopeOK hS hNE R) hR f.pos hct (by simp [hdf])
      hfok.sels hfok.next
    intro s hs
    simp at hs; subst hs
    exact ⟨f, fragMap_of_mem hnd hf, fun n hn => hR.start _ n hn⟩

/-- the body of every definition is checked without a diagnostic -/
theorem defBody_complete (hroots : rootsDefinedB S D = true) (hconst : constVarDefsB D = true) :
    ∀ d ∈ D, defBody S D d = [] := by
  intro d hd
  cases d with
  | imp i => rfl
  | op o =>
    have ho : o ∈ opsOf D := by simp only [opsOf, List.mem_filterMap]; exact ⟨_, hd, rfl⟩
    exact checkOperation_complete hS hNE R ho hroots hconst
  | frag f =>
    have hf : f ∈ fragsOf D := by simp only [fragsOf, List.mem_filterMap]; exact ⟨_, hd, rfl⟩
    exact checkFragmentDefinition_complete hS hNE R hf _
end

/-! ### the main loop -/

theorem checkDefs_nil_of {S : Schema} {D : Doc} {n : Nat} : ∀ (rest earlier : List ExecDef),
    (∀ e d r, rest = e ++ d :: r → defHeader n (earlier ++ e) d = []) → (∀ d ∈ rest, defBody S D d = []) →
    checkDefs S D n earlier rest = [] := by
  intro rest
  induction rest with
  | nil => intro _ _ _; rfl
  | cons d rest ih =>
    intro earlier hh hb
    simp only [checkDefs]
    have h1 := hh [] d rest rfl
    simp only [List.append_nil] at h1
    rw [h1, hb d (by simp), List.nil_append, List.nil_append]
    apply ih
    · intro e d' r hr
      have := hh (d :: e) d' r (by rw [hr]; rfl)
      simpa [List.append_assoc] using this
    · exact fun d' hd' => hb d' (List.mem_cons_of_mem _ hd')

theorem checkOp_nil_of {S : Schema} {D : Doc}
    (hh : ∀ pre d post, D = pre ++ d :: post → defHeader (opsOf D).length pre d = [])
    (hb : ∀ d ∈ D, defBody S D d = []) : checkOp S D = [] := by
  unfold checkOp
  apply checkDefs_nil_of D [] _ hb
  intro e d r hD
  simpa using hh e d r hD

end NitroVerif.CheckOp
