import NitroVerif.Model.Exports
/-!
Helper lemmas for C14 (never the property statements): how the readers of a module (`exports`, `valueExports`,
`exportRefs`, `defaults`, `consts`) distribute over the statement chunks `print_document` emits.
-/
namespace NitroVerif.Exports

/-! ### readers distribute over `++` -/

@[simp] theorem exports_append (a b : Module) : exports (a ++ b) = exports a ++ exports b := by
  fun_induction exports a <;> simp_all [exports]

@[simp] theorem valueExports_append (a b : Module) : valueExports (a ++ b) = valueExports a ++ valueExports b := by
  fun_induction valueExports a <;> simp_all [valueExports]

@[simp] theorem exportRefs_append (a b : Module) : exportRefs (a ++ b) = exportRefs a ++ exportRefs b := by
  fun_induction exportRefs a <;> simp_all [exportRefs]

@[simp] theorem defaults_append (a b : Module) : defaults (a ++ b) = defaults a ++ defaults b := by
  fun_induction defaults a <;> simp_all [defaults]

@[simp] theorem consts_append (a b : Module) : consts (a ++ b) = consts a ++ consts b := by
  fun_induction consts a <;> simp_all [consts]

theorem valueExports_eq_map_exportRefs (m : Module) : valueExports m = (exportRefs m).map Prod.fst := by
  fun_induction valueExports m <;> simp_all [exportRefs]

/-! ### the visitors, projection by projection (so that the visitor itself can stay folded) -/

@[simp] theorem typeVisitor_operation (t : TypeOptions) (names : OpNames) (i : Nat) (e a b : Bool) :
    (typeVisitor t).operation names i e a b =
      [ .typeAlias (names.operationName ++ t.operationResultTypeSuffix) b,
        .typeAlias (names.operationName ++ t.variablesTypeSuffix) a,
        .const names.operationVariableName i e (!e && !t.printValues) t.printValues ] := rfl

@[simp] theorem typeVisitor_fragment (t : TypeOptions) (vn fn : Str) (i : Nat) (e : Bool) :
    (typeVisitor t).fragment vn fn i e =
      [ .typeAlias (fn ++ t.fragmentTypeSuffix) e,
        .const (fn ++ t.base.fragmentVariableSuffix) i e (!e && !t.printValues) t.printValues ] := rfl

@[simp] theorem typeVisitor_defaultExport (t : TypeOptions) (names : OpNames) :
    (typeVisitor t).defaultExport names = [ .exportDefault names.operationVariableName ] := rfl

@[simp] theorem jsVisitor_operation (names : OpNames) (i : Nat) (e a b : Bool) :
    jsVisitor.operation names i e a b = [ .const names.operationVariableName i e false true ] := rfl

@[simp] theorem jsVisitor_fragment (vn fn : Str) (i : Nat) (e : Bool) :
    jsVisitor.fragment vn fn i e = [ .const vn i e false true ] := rfl

@[simp] theorem jsVisitor_defaultExport (names : OpNames) :
    jsVisitor.defaultExport names = [ .exportDefault names.operationVariableName ] := rfl

/-! ### the file as the loader sees it -/

@[simp] theorem varName_asLocal (o : BaseOptions) (d : Def) : varName o d.asLocal = varName o d := by
  cases d <;> rfl

@[simp] theorem ops_map_asLocal (F : File) : ops (F.map Def.asLocal) = ops F := by
  induction F with
  | nil => rfl
  | cons d r ih => cases d <;> simp_all [ops, Def.asLocal]

theorem ops_length (F : File) : (ops F).length = operationCount F := by
  induction F with
  | nil => rfl
  | cons d r ih => cases d <;> simp_all [ops, operationCount, isOp, List.filter]

@[simp] theorem operationCount_map_asLocal (F : File) : operationCount (F.map Def.asLocal) = operationCount F := by
  rw [← ops_length, ← ops_length, ops_map_asLocal]

theorem map_asLocal_of_no_import (F : File) (h : ∀ d ∈ F, d.isImported = false) : F.map Def.asLocal = F := by
  induction F with
  | nil => rfl
  | cons d r ih =>
    have hd := h d (by simp)
    have hr : ∀ d ∈ r, d.isImported = false := fun d hd => h d (by simp [hd])
    cases d <;> simp_all [Def.asLocal, Def.isImported]

@[simp] theorem constsFrom_map_asLocal (o : BaseOptions) (i : Nat) (F : File) :
    constsFrom o i (F.map Def.asLocal) = constsFrom o i F := by
  induction F generalizing i with
  | nil => rfl
  | cons d r ih => simp [constsFrom, ih]

/-! ### what `print_document` declares: the same constants for both visitors -/

theorem consts_printDefs_type (t : TypeOptions) (n i : Nat) (F : File) :
    consts (printDefs t.base (typeVisitor t) n i F) = constsFrom t.base i F := by
  induction F generalizing i with
  | nil => rfl
  | cons d r ih =>
    cases d with
    | op k nm =>
      by_cases h : (t.base.defaultExportForOperation && n == 1) = true <;>
        simp [printDefs, consts, constsFrom, varName, ih, h]
    | frag nm imp => simp [printDefs, consts, constsFrom, varName, ih]

theorem consts_printDefs_js (o : BaseOptions) (n i : Nat) (F : File) :
    consts (printDefs o jsVisitor n i F) = constsFrom o i F := by
  induction F generalizing i with
  | nil => rfl
  | cons d r ih =>
    cases d with
    | op k nm =>
      by_cases h : (o.defaultExportForOperation && n == 1) = true <;>
        simp [printDefs, consts, constsFrom, varName, ih, h]
    | frag nm imp => simp [printDefs, consts, constsFrom, varName, ih]

/-! ### export references, computed from the file alone -/

/-- (exported name, local name) pairs `print_document` emits, for either visitor -/
def refsFrom (o : BaseOptions) (count : Nat) : File → List (Str × Str)
  | [] => []
  | .op k n :: r =>
    let vn := (operationVariableName o k n).operationVariableName
    (if o.namedExportForOperation then [(vn, vn)] else [])
      ++ (if o.defaultExportForOperation && count == 1 then [(defaultName, vn)] else [])
      ++ refsFrom o count r
  | .frag n imp :: r =>
    (if imp then [] else [(n ++ o.fragmentVariableSuffix, n ++ o.fragmentVariableSuffix)]) ++ refsFrom o count r

theorem exportRefs_printDefs_type (t : TypeOptions) (n i : Nat) (F : File) :
    exportRefs (printDefs t.base (typeVisitor t) n i F) = refsFrom t.base n F := by
  induction F generalizing i with
  | nil => rfl
  | cons d r ih =>
    cases d with
    | op k nm =>
      by_cases h : (t.base.defaultExportForOperation && n == 1) = true <;>
        cases hn : t.base.namedExportForOperation <;>
        simp [printDefs, exportRefs, refsFrom, ih, h, hn]
    | frag nm imp => cases imp <;> simp [printDefs, exportRefs, refsFrom, ih]

theorem exportRefs_printDefs_js (o : BaseOptions) (n i : Nat) (F : File) :
    exportRefs (printDefs o jsVisitor n i F) = refsFrom o n F := by
  induction F generalizing i with
  | nil => rfl
  | cons d r ih =>
    cases d with
    | op k nm =>
      by_cases h : (o.defaultExportForOperation && n == 1) = true <;>
        cases hn : o.namedExportForOperation <;>
        simp [printDefs, exportRefs, refsFrom, ih, h, hn]
    | frag nm imp => cases imp <;> simp [printDefs, exportRefs, refsFrom, ih]

/-- the loader's view of the file exports everything the real view exports (imported fragments in addition) -/
theorem refsFrom_sublist_asLocal (o : BaseOptions) (n : Nat) (F : File) :
    (refsFrom o n F).Sublist (refsFrom o n (F.map Def.asLocal)) := by
  induction F with
  | nil => exact List.Sublist.refl _
  | cons d r ih =>
    cases d with
    | op k nm => exact List.Sublist.append (List.Sublist.refl _) ih
    | frag nm imp =>
      cases imp
      · exact List.Sublist.append (List.Sublist.refl _) ih
      · simpa [refsFrom, Def.asLocal] using List.Sublist.cons _ ih

/-- every export reference names the constant of a definition of the file: itself, or — for the default export —
    an operation of a file that has exactly `count = 1` operations -/
theorem refsFrom_mem (o : BaseOptions) (count : Nat) (F : File) (e l : Str) (h : (e, l) ∈ refsFrom o count F) :
    ∃ d ∈ F, l = varName o d ∧ (e = l ∨ (e = defaultName ∧ isOp d = true ∧ count = 1)) := by
  induction F with
  | nil => simp [refsFrom] at h
  | cons d r ih =>
    cases d with
    | op k nm =>
      simp only [refsFrom, List.mem_append] at h
      rcases h with (h | h) | h
      · refine ⟨.op k nm, by simp, ?_⟩
        split at h <;> simp_all [varName]
      · refine ⟨.op k nm, by simp, ?_⟩
        split at h
        · rename_i hc
          simp only [Bool.and_eq_true, beq_iff_eq] at hc
          simp_all [varName, isOp]
        · simp at h
      · obtain ⟨d, hd, hh⟩ := ih h
        exact ⟨d, by simp [hd], hh⟩
    | frag nm imp =>
      simp only [refsFrom, List.mem_append] at h
      rcases h with h | h
      · refine ⟨.frag nm imp, by simp, ?_⟩
        split at h <;> simp_all [varName]
      · obtain ⟨d, hd, hh⟩ := ih h
        exact ⟨d, by simp [hd], hh⟩

/-! ### default export -/

/-- default-export statements `print_document` emits, for either visitor -/
def defaultsFrom (o : BaseOptions) (count : Nat) (F : File) : List Str :=
  if o.defaultExportForOperation && count == 1 then
    (ops F).map fun p => (operationVariableName o p.1 p.2).operationVariableName
  else []

theorem defaultsFrom_nil (o : BaseOptions) (n : Nat) : defaultsFrom o n [] = [] := by
  simp [defaultsFrom, ops]

theorem defaultsFrom_op (o : BaseOptions) (n : Nat) (k : Kind) (nm : Option Str) (r : File) :
    defaultsFrom o n (.op k nm :: r) =
      (if o.defaultExportForOperation && n == 1 then [(operationVariableName o k nm).operationVariableName] else [])
        ++ defaultsFrom o n r := by
  unfold defaultsFrom
  split <;> simp [ops]

theorem defaultsFrom_frag (o : BaseOptions) (n : Nat) (nm : Str) (imp : Bool) (r : File) :
    defaultsFrom o n (.frag nm imp :: r) = defaultsFrom o n r := by
  simp [defaultsFrom, ops]

theorem defaults_printDefs_type (t : TypeOptions) (n i : Nat) (F : File) :
    defaults (printDefs t.base (typeVisitor t) n i F) = defaultsFrom t.base n F := by
  induction F generalizing i with
  | nil => simp [printDefs, defaults, defaultsFrom_nil]
  | cons d r ih =>
    cases d with
    | op k nm =>
      simp only [printDefs, defaults_append, ih, defaultsFrom_op, typeVisitor_operation, typeVisitor_defaultExport]
      split <;> simp [defaults]
    | frag nm imp => simp [printDefs, defaults, defaultsFrom_frag, ih]

theorem defaults_printDefs_js (o : BaseOptions) (n i : Nat) (F : File) :
    defaults (printDefs o jsVisitor n i F) = defaultsFrom o n F := by
  induction F generalizing i with
  | nil => simp [printDefs, defaults, defaultsFrom_nil]
  | cons d r ih =>
    cases d with
    | op k nm =>
      simp only [printDefs, defaults_append, ih, defaultsFrom_op, jsVisitor_operation, jsVisitor_defaultExport]
      split <;> simp [defaults]
    | frag nm imp => simp [printDefs, defaults, defaultsFrom_frag, ih]

/-! ### constants by index, and scope lookup -/

theorem constsFrom_getElem (o : BaseOptions) (k : Nat) (F : File) (i : Nat) (d : Def) (h : F[i]? = some d) :
    (varName o d, k + i) ∈ constsFrom o k F := by
  induction F generalizing k i with
  | nil => simp at h
  | cons x r ih =>
    cases i with
    | zero => simp at h; subst h; simp [constsFrom]
    | succ j =>
      simp at h
      have := ih (k + 1) j h
      simp only [constsFrom, List.mem_cons]
      right
      have e : k + 1 + j = k + (j + 1) := by omega
      rw [← e]; exact this

theorem candidates_of_nodup (n : Str) (i : Nat) (l : List (Str × Nat))
    (hn : (l.map Prod.fst).Nodup) (hm : (n, i) ∈ l) : candidates n l = [i] := by
  induction l with
  | nil => simp at hm
  | cons p r ih =>
    obtain ⟨m, j⟩ := p
    simp only [List.map_cons, List.nodup_cons] at hn
    have none_of : ∀ (r : List (Str × Nat)), n ∉ r.map Prod.fst → candidates n r = [] := by
      intro r
      induction r with
      | nil => intro _; rfl
      | cons q r ihr =>
        obtain ⟨m', j'⟩ := q
        intro hq
        simp only [List.map_cons, List.mem_cons, not_or] at hq
        have : ¬ m' = n := fun e => hq.1 e.symm
        simp [candidates, this, ihr hq.2]
    simp only [List.mem_cons, Prod.mk.injEq] at hm
    rcases hm with ⟨rfl, rfl⟩ | hm
    · simp [candidates, none_of r hn.1]
    · have hne : ¬ m = n := by
        intro e; subst e
        exact hn.1 (List.mem_map.mpr ⟨(m, i), hm, rfl⟩)
      simp [candidates, hne, ih hn.2 hm]

theorem resolve_congr (m m' : Module) (h : consts m = consts m') : resolve m = resolve m' := by
  funext n; simp [resolve, h]

theorem resolve_of_nodup (m : Module) (n : Str) (i : Nat)
    (hn : ((consts m).map Prod.fst).Nodup) (hm : (n, i) ∈ consts m) : resolve m n = some i := by
  simp [resolve, candidates_of_nodup n i _ hn hm]

/-! ### non-empty names -/

theorem capitalize_ne_nil (s : Str) (h : s ≠ []) : capitalize s ≠ [] := by
  cases s <;> simp_all [capitalize]

end NitroVerif.Exports
