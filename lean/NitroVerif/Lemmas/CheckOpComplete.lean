import NitroVerif.Lemmas.CheckOpSubscription
/-! Completeness direction (C04): what `SpecValid` documents make the checker's loops reduce to. -/
namespace NitroVerif.CheckOp
open NitroVerif.Gql NitroVerif.CheckCommon NitroVerif.Valid

/-- what remains of `check_variables_definition` once no duplicate-name / unknown-type / output-type diagnostic is
    pushed: the checks of each variable's directives and default value -/
def varDefRest (S : Schema) (v : VarDef) : List Diag :=
  checkDirectives S none v.dirs "VARIABLE_DEFINITION" ++
  (match v.default with | some d => checkValue S none d v.ty false | none => [])

/-- with pairwise different variable names of input types, `check_variables_definition` pushes neither
    `DuplicatedVariableName`, `UnknownType` nor `NoOutputType` -/
theorem checkVariablesAux_rest {S : Schema} :
    ∀ (vs : List VarDef) (seen : List Name), (∀ x ∈ seen, x ∉ vs.map (·.name)) → nodupB (vs.map (·.name)) = true →
      (∀ v ∈ vs, isInputType? S v.ty.unwrapped = some true) →
      checkVariablesAux S seen vs = vs.flatMap (varDefRest S) := by
  intro vs
  induction vs with
  | nil => intro _ _ _ _; rfl
  | cons v vs ih =>
    intro seen hseen hnd hin
    simp only [List.map_cons] at hnd hseen
    obtain ⟨hv, hnd'⟩ := (nodupB_cons_iff _ _).mp hnd
    have hc : seen.contains v.name = false := by
      cases hc : seen.contains v.name with
      | false => rfl
      | true => exact absurd (List.mem_cons_self) (hseen v.name (by simpa using hc))
    have hrest := ih (seen ++ [v.name]) (by
        intro x hx
        rcases List.mem_append.mp hx with hx | hx
        · intro hmem; exact hseen x hx (List.mem_cons_of_mem _ hmem)
        · simp at hx; subst hx; exact hv) hnd' (fun w hw => hin w (List.mem_cons_of_mem _ hw))
    simp only [checkVariablesAux, hc, Bool.false_eq_true, if_false, hin v (by simp), List.nil_append,
      List.flatMap_cons, varDefRest, hrest, List.append_assoc]
    rfl

theorem isComposite_directFields {td : TypeDef} (h : isCompositeKind td.kind = true) : (directFields td).isSome = true := by
  unfold directFields
  cases hk : td.kind <;> simp [hk, isCompositeKind] at h ⊢

end NitroVerif.CheckOp
