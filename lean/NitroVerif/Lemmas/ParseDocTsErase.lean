/-
The type-system documents returned by the round trip differ from the given ones only in positions (helper lemmas for
Props/C07Doc): `eraseTsDoc (wpTsDoc …) = eraseTsDoc doc`, with the position-erasing functions of
`Spec/GqlDocTokens.lean`, for documents whose type definitions carry only the components of their kind.
-/
import NitroVerif.Lemmas.ParseDocTsDoc
import NitroVerif.Lemmas.ParseDocErase
import NitroVerif.Spec.GqlDocTokens
namespace NitroVerif.DocParse
open NitroVerif.Peg NitroVerif.Gen NitroVerif.Build NitroVerif.TypeParse NitroVerif.StringParse
open NitroVerif.Gql NitroVerif.ValueParse NitroVerif.GqlTokens

set_option linter.unusedSimpArgs false

theorem tsErase_withPosD (τ : Trivia) (inp : List Char) (q : Nat) (d : Directive) :
    eraseDirective (withPosD τ inp q d) = eraseDirective d := by
  simp [eraseDirective, withPosD, withPosFs_erase]

theorem tsErase_wpDirs (τ : Trivia) (inp : List Char) (sep : Bool) (p : Nat) (ds : List Directive) :
    eraseDirs (wpDirs τ inp sep p ds) = eraseDirs ds :=
  mapItems_map _ _ _ _ eraseDirective eraseDirective (fun _ q d => tsErase_withPosD τ inp q d) ds p

theorem tsErase_wpIVD (τ : Trivia) (inp : List Char) (sep : Bool) (p : Nat) (v : InputValueDef) :
    eraseIV (wpIVD τ inp sep p v) = eraseIV v := by
  cases hd : v.default with
  | none => simp [eraseIV, wpIVD, erase_wpType, tsErase_wpDirs, hd, wpOptDefault]
  | some d => simp [eraseIV, wpIVD, erase_wpType, tsErase_wpDirs, hd, wpOptDefault, withPosV_erase]

theorem tsErase_wpIVDs (τ : Trivia) (inp : List Char) (p : Nat) (vs : List InputValueDef) :
    (wpIVDs τ inp p vs).map eraseIV = vs.map eraseIV :=
  mapItems_map _ _ _ _ eraseIV eraseIV (fun s q v => tsErase_wpIVD τ inp s q v) vs p

theorem tsErase_wpFieldDef (τ : Trivia) (inp : List Char) (sep : Bool) (p : Nat) (f : FieldDef) :
    eraseFieldDef (wpFieldDef τ inp sep p f) = eraseFieldDef f := by
  simp [eraseFieldDef, wpFieldDef, erase_wpType, tsErase_wpDirs, tsErase_wpIVDs]

theorem tsErase_wpFieldDefs (τ : Trivia) (inp : List Char) (p : Nat) (fs : List FieldDef) :
    (wpFieldDefs τ inp p fs).map eraseFieldDef = fs.map eraseFieldDef :=
  mapItems_map _ _ _ _ eraseFieldDef eraseFieldDef (fun s q v => tsErase_wpFieldDef τ inp s q v) fs p

theorem tsErase_wpEnumVal (τ : Trivia) (inp : List Char) (sep : Bool) (p : Nat) (v : EnumValueDef) :
    eraseEnumValue (wpEnumVal τ inp sep p v) = eraseEnumValue v := by
  simp [eraseEnumValue, wpEnumVal, tsErase_wpDirs]

theorem tsErase_wpEnumVals (τ : Trivia) (inp : List Char) (p : Nat) (vs : List EnumValueDef) :
    (wpEnumVals τ inp p vs).map eraseEnumValue = vs.map eraseEnumValue :=
  mapItems_map _ _ _ _ eraseEnumValue eraseEnumValue (fun s q v => tsErase_wpEnumVal τ inp s q v) vs p

theorem tsErase_wpNames (τ : Trivia) (inp : List Char) (c : Char) (sep : Bool) (p : Nat) (ns : List (Name × Pos)) :
    eraseNames (wpNames τ inp c sep p ns) = eraseNames ns := by
  cases ns with
  | nil => rfl
  | cons n rest =>
    simp only [wpNames, eraseNames, List.map_cons]
    exact congrArg _ (mapItems_map (riSepName τ c) false sep
      (fun _ q (m : Name × Pos) => (m.1, posAt inp (q + (tk τ false q [c]).length)))
      (fun x : Name × Pos => (x.1, Pos.none)) (fun x : Name × Pos => (x.1, Pos.none)) (fun _ _ _ => rfl) rest _)

/-- a type definition carries only the components of its kind -/
def KindNormal (t : TypeDef) : Prop :=
  match t.kind with
  | .scalar => t.implements = [] ∧ t.fields = [] ∧ t.members = [] ∧ t.values = [] ∧ t.inputs = []
  | .object => t.members = [] ∧ t.values = [] ∧ t.inputs = []
  | .interface => t.members = [] ∧ t.values = [] ∧ t.inputs = []
  | .union => t.implements = [] ∧ t.fields = [] ∧ t.values = [] ∧ t.inputs = []
  | .enum => t.implements = [] ∧ t.fields = [] ∧ t.members = [] ∧ t.inputs = []
  | .input => t.implements = [] ∧ t.fields = [] ∧ t.members = [] ∧ t.values = []

theorem tsErase_wpTypeDefAny (τ : Trivia) (inp : List Char) (sep : Bool) (p : Nat) (t : TypeDef) (hn : KindNormal t) :
    eraseTypeDef (wpTypeDefAny τ inp sep p t) = eraseTypeDef t := by
  simp only [KindNormal] at hn
  simp only [wpTypeDefAny]
  cases hk : t.kind <;> simp only [hk] at hn ⊢
  · obtain ⟨h1, h2, h3, h4, h5⟩ := hn
    simp [eraseTypeDef, wpScalarDef, tsErase_wpDirs, hk, h1, h2, h3, h4, h5, eraseNames]
  · obtain ⟨h3, h4, h5⟩ := hn
    simp [eraseTypeDef, wpObjDef, tsErase_wpDirs, tsErase_wpNames, tsErase_wpFieldDefs, hk, h3, h4, h5]
  · obtain ⟨h3, h4, h5⟩ := hn
    simp [eraseTypeDef, wpObjDef, tsErase_wpDirs, tsErase_wpNames, tsErase_wpFieldDefs, hk, h3, h4, h5]
  · obtain ⟨h1, h2, h4, h5⟩ := hn
    simp [eraseTypeDef, wpUnionDef, tsErase_wpDirs, tsErase_wpNames, hk, h1, h2, h4, h5]
  · obtain ⟨h1, h2, h3, h5⟩ := hn
    simp [eraseTypeDef, wpEnumDef, tsErase_wpDirs, tsErase_wpEnumVals, hk, h1, h2, h3, h5, eraseNames]
  · obtain ⟨h1, h2, h3, h4⟩ := hn
    simp [eraseTypeDef, wpInputDef, tsErase_wpDirs, tsErase_wpIVDs, hk, h1, h2, h3, h4, eraseNames]

theorem tsErase_wpTypeExtAny (τ : Trivia) (inp : List Char) (sep : Bool) (p : Nat) (t : TypeDef) (hn : KindNormal t)
    (hdesc : t.desc = none) : eraseTypeDef (wpTypeExtAny τ inp sep p t) = eraseTypeDef t := by
  simp only [KindNormal] at hn
  simp only [wpTypeExtAny]
  cases hk : t.kind <;> simp only [hk] at hn ⊢
  · obtain ⟨h1, h2, h3, h4, h5⟩ := hn
    simp [eraseTypeDef, wpScalarExt, tsErase_wpDirs, hk, h1, h2, h3, h4, h5, hdesc, eraseNames]
  · obtain ⟨h3, h4, h5⟩ := hn
    simp [eraseTypeDef, wpObjExt, tsErase_wpDirs, tsErase_wpNames, tsErase_wpFieldDefs, hk, h3, h4, h5, hdesc]
  · obtain ⟨h3, h4, h5⟩ := hn
    simp [eraseTypeDef, wpObjExt, tsErase_wpDirs, tsErase_wpNames, tsErase_wpFieldDefs, hk, h3, h4, h5, hdesc]
  · obtain ⟨h1, h2, h4, h5⟩ := hn
    simp only [wpUnionExt]
    split
    · rename_i hm
      have hm' : t.members = [] := by simpa using hm
      simp [eraseTypeDef, wpUnionExtD, tsErase_wpDirs, hk, h1, h2, h4, h5, hdesc, hm', eraseNames]
    · simp [eraseTypeDef, wpUnionExtM, tsErase_wpDirs, tsErase_wpNames, hk, h1, h2, h4, h5, hdesc]
  · obtain ⟨h1, h2, h3, h5⟩ := hn
    simp [eraseTypeDef, wpEnumExt, tsErase_wpDirs, tsErase_wpEnumVals, hk, h1, h2, h3, h5, hdesc, eraseNames]
  · obtain ⟨h1, h2, h3, h4⟩ := hn
    simp [eraseTypeDef, wpInputExt, tsErase_wpDirs, tsErase_wpIVDs, hk, h1, h2, h3, h4, hdesc, eraseNames]

theorem tsErase_wpRoots (τ : Trivia) (inp : List Char) (p : Nat) (rs : List (OpKind × Name × Pos)) :
    (wpRoots τ inp p rs).map eraseRoot = rs.map eraseRoot :=
  mapItems_map (rRoot τ) true false (wpRoot τ inp) eraseRoot eraseRoot (fun _ _ _ => rfl) rs p

/-- the items that carry only what their rendering shows: a type definition or extension only the components of its kind;
    extensions no description -/
def NormalItem : TsItem → Prop
  | .typeDef t => KindNormal t
  | .typeExt t => KindNormal t ∧ t.desc = none
  | .schemaExt s => s.desc = none
  | _ => True

theorem tsErase_wpTsItem (τ : Trivia) (inp : List Char) (sep : Bool) (p : Nat) (it : TsItem) (hn : NormalItem it) :
    eraseTsItem (wpTsItem τ inp sep p it) = eraseTsItem it := by
  cases it with
  | typeDef t => simp [wpTsItem, eraseTsItem, tsErase_wpTypeDefAny τ inp sep p t hn]
  | schemaDef s => simp [wpTsItem, eraseTsItem, eraseSchemaDef, wpSchemaDef, tsErase_wpDirs, tsErase_wpRoots]
  | directiveDef d => simp [wpTsItem, eraseTsItem, eraseDirectiveDef, wpDirectiveDef, tsErase_wpIVDs]
  | schemaExt s =>
    have hd : s.desc = none := hn
    simp [wpTsItem, eraseTsItem, eraseSchemaDef, wpSchemaExt, tsErase_wpDirs, tsErase_wpRoots, hd]
  | typeExt t => simp [wpTsItem, eraseTsItem, tsErase_wpTypeExtAny τ inp sep p t hn.1 hn.2]

theorem mapItems_map_mem {α β γ : Type} (ri : Bool → Nat → α → List Char) (sm sl : Bool) (f : Bool → Nat → α → β)
    (g : β → γ) (g' : α → γ) : ∀ (as : List α) (p : Nat), (∀ a ∈ as, ∀ s p, g (f s p a) = g' a) →
    (mapItems ri sm sl f p as).map g = as.map g' := by
  intro as
  induction as with
  | nil => intro p _; rfl
  | cons a r ih =>
    intro p h
    cases r with
    | nil => simp [mapItems, h a (List.mem_cons_self ..)]
    | cons b r =>
      simp only [mapItems, List.map_cons, h a (List.mem_cons_self ..)]
      rw [ih _ (fun x hx => h x (List.mem_cons_of_mem _ hx))]
      rfl

/-- the document returned by the round trip is the given one up to positions -/
theorem tsErase_wpTsDoc (τ : Trivia) (inp : List Char) (doc : List TsItem) (hn : ∀ d ∈ doc, NormalItem d) :
    eraseTsDoc (wpTsDoc τ inp doc) = eraseTsDoc doc :=
  mapItems_map_mem _ _ _ _ eraseTsItem eraseTsItem doc _ (fun d hd s q => tsErase_wpTsItem τ inp s q d (hn d hd))

end NitroVerif.DocParse
