import NitroVerif.Lemmas.CheckOpSoundClosure
/-!
Witnesses for the non-vacuity examples of `Props/C03.lean` (definitions only, no theorem): one schema with every
kind of type and three directives, one accepted document (`wDoc`) that contains every construct a rule of the
reference validator talks about, counters that say how often a rule's quantifier is exercised non-trivially, and
one small rejected document per rule (`wBad r`) on which the rule is false.
-/
namespace NitroVerif.CheckOp.Witness
open NitroVerif.Gql NitroVerif.CheckCommon NitroVerif.Valid

/-! ### terse constructors -/

def ty (n : Name) : GType := .named n {}
def tyNN (n : Name) : GType := .nonNull (.named n {})
def fld (name : Name) (args : List Arg := []) (dirs : List Directive := []) (sel : Option (List Selection) := none)
    (al : Option Name := none) : Selection :=
  .field (al.map fun a => (a, {})) name {} args dirs sel
def spr (name : Name) (dirs : List Directive := []) : Selection := .spread name {} dirs {}
def inl (cond : Option Name) (sel : List Selection) (dirs : List Directive := []) : Selection :=
  .inline (cond.map fun c => (c, {})) dirs sel {}
def arg (n : Name) (v : Value) : Arg := (n, {}, v)
def dir (n : Name) (args : List Arg := []) : Directive := { name := n, args := args }
def vInt (s : String) : Value := .int s {}
def vStr (s : String) : Value := .str s {}
def vBool (b : Bool) : Value := .bool b {}
def vVar (n : Name) : Value := .var n {}
def vEnum (n : Name) : Value := .enum n {}
def vObj (fs : List (Name × Value)) : Value := .obj (fs.map fun f => (f.1, {}, f.2)) {}
def vList (vs : List Value) : Value := .list vs {}

/-! ### schema -/

def idField : FieldDef := { name := "id", ty := tyNN "ID" }

/--
```graphql
enum Color { RED GREEN }
input Pt { x: Int!  y: Int = 0 }
interface Node { id: ID! }
type User implements Node { id: ID!  name(upper: Boolean): String  friend: User }
type Dog implements Node { id: ID!  bark: String }
union Pet = Dog | User
type Query { a: Int  f(x: Int!): Query  node(id: ID!): Node  near(p: Pt!, c: Color, tags: [String!]): User  pet: Pet }
type Subscription { tick: Int  user: User }
directive @skip(if: Boolean!) on FIELD | FRAGMENT_SPREAD | INLINE_FRAGMENT
directive @tag(name: String) repeatable on QUERY | SUBSCRIPTION | FIELD | FRAGMENT_DEFINITION | VARIABLE_DEFINITION | FRAGMENT_SPREAD | INLINE_FRAGMENT
directive @once on FIELD | QUERY
``` -/
def wSchema : Schema := ⟨[
  .typeDef { kind := .scalar, name := "Int" },
  .typeDef { kind := .scalar, name := "Float" },
  .typeDef { kind := .scalar, name := "String" },
  .typeDef { kind := .scalar, name := "Boolean" },
  .typeDef { kind := .scalar, name := "ID" },
  .typeDef { kind := .enum, name := "Color", values := [{ name := "RED" }, { name := "GREEN" }] },
  .typeDef { kind := .input, name := "Pt",
             inputs := [{ name := "x", ty := tyNN "Int" }, { name := "y", ty := ty "Int", default := some (vInt "0") }] },
  .typeDef { kind := .interface, name := "Node", fields := [idField] },
  .typeDef { kind := .object, name := "User", implements := [("Node", {})],
             fields := [idField, { name := "name", args := [{ name := "upper", ty := ty "Boolean" }], ty := ty "String" },
                        { name := "friend", ty := ty "User" }] },
  .typeDef { kind := .object, name := "Dog", implements := [("Node", {})],
             fields := [idField, { name := "bark", ty := ty "String" }] },
  .typeDef { kind := .union, name := "Pet", members := [("Dog", {}), ("User", {})] },
  .typeDef { kind := .object, name := "Query",
             fields := [{ name := "a", ty := ty "Int" },
                        { name := "f", args := [{ name := "x", ty := tyNN "Int" }], ty := ty "Query" },
                        { name := "node", args := [{ name := "id", ty := tyNN "ID" }], ty := ty "Node" },
                        { name := "near", args := [{ name := "p", ty := tyNN "Pt" }, { name := "c", ty := ty "Color" },
                                                   { name := "tags", ty := .list (tyNN "String") {} }], ty := ty "User" },
                        { name := "pet", ty := ty "Pet" }] },
  .typeDef { kind := .object, name := "Subscription",
             fields := [{ name := "tick", ty := ty "Int" }, { name := "user", ty := ty "User" }] },
  .directiveDef { name := "skip", args := [{ name := "if", ty := tyNN "Boolean" }],
                  locations := ["FIELD", "FRAGMENT_SPREAD", "INLINE_FRAGMENT"] },
  .directiveDef { name := "tag", args := [{ name := "name", ty := ty "String" }], repeatable := true,
                  locations := ["QUERY", "SUBSCRIPTION", "FIELD", "FRAGMENT_DEFINITION", "VARIABLE_DEFINITION",
                                "FRAGMENT_SPREAD", "INLINE_FRAGMENT"] },
  .directiveDef { name := "once", locations := ["FIELD", "QUERY"] }]⟩

/-! ### the accepted document -/

/--
```graphql
query Q($v: Int!, $p: Pt = {x: 1}, $on: Boolean! @tag(name: "v")) @tag(name: "q") @once {
  a
  b: f(x: $v) @skip(if: $on) @tag @tag(name: "t") { a ...QF @skip(if: true) }
  node(id: "1") { id ... on User { name(upper: true) friend { ...UF } } ... on Dog @tag { bark } ... { id } }
  near(p: {x: 2, y: 3}, c: RED, tags: ["s"]) { name }
  n2: near(p: $p) { id }
  pet { __typename ... on Dog { bark } ...PF }
}
query R { a }
subscription Sub { ...SF }
fragment QF on Query @tag(name: "f") { a }
fragment UF on User { id name ...NF }
fragment NF on Node { id }
fragment PF on Pet { ... on Node { id } }
fragment SF on Subscription { ... { t: tick } }
fragment Unused on Node { id ... on User { name } }
``` -/
def wDoc : Doc := [
  .op { kind := .query, name := some ("Q", {}),
        vars := [{ name := "v", ty := tyNN "Int" },
                 { name := "p", ty := ty "Pt", default := some (vObj [("x", vInt "1")]) },
                 { name := "on", ty := tyNN "Boolean", dirs := [dir "tag" [arg "name" (vStr "v")]] }],
        dirs := [dir "tag" [arg "name" (vStr "q")], dir "once"],
        sel := [
          fld "a",
          fld "f" [arg "x" (vVar "v")] [dir "skip" [arg "if" (vVar "on")], dir "tag", dir "tag" [arg "name" (vStr "t")]]
            (some [fld "a", spr "QF" [dir "skip" [arg "if" (vBool true)]]]) (some "b"),
          fld "node" [arg "id" (vStr "1")] []
            (some [fld "id",
                   inl (some "User") [fld "name" [arg "upper" (vBool true)], fld "friend" [] [] (some [spr "UF"])],
                   inl (some "Dog") [fld "bark"] [dir "tag"],
                   inl none [fld "id"]]),
          fld "near" [arg "p" (vObj [("x", vInt "2"), ("y", vInt "3")]), arg "c" (vEnum "RED"), arg "tags" (vList [vStr "s"])] []
            (some [fld "name"]),
          fld "near" [arg "p" (vVar "p")] [] (some [fld "id"]) (some "n2"),
          fld "pet" [] [] (some [fld "__typename", inl (some "Dog") [fld "bark"], spr "PF"])] },
  .op { kind := .query, name := some ("R", {}), sel := [fld "a"] },
  .op { kind := .subscription, name := some ("Sub", {}), sel := [spr "SF"] },
  .frag { name := "QF", cond := "Query", dirs := [dir "tag" [arg "name" (vStr "f")]], sel := [fld "a"] },
  .frag { name := "UF", cond := "User", sel := [fld "id", fld "name", spr "NF"] },
  .frag { name := "NF", cond := "Node", sel := [fld "id"] },
  .frag { name := "PF", cond := "Pet", sel := [inl (some "Node") [fld "id"]] },
  .frag { name := "SF", cond := "Subscription", sel := [inl none [fld "tick" [] [] none (some "t")]] },
  .frag { name := "Unused", cond := "Node", sel := [fld "id", inl (some "User") [fld "name"]] }]

/-- `{ a }` — a lone anonymous operation (5.2.2.1) -/
def wAnonDoc : Doc := [.op { kind := .query, sel := [fld "a"] }]

/-! ### how often a rule's quantifier is exercised non-trivially on a document -/

def selsOf (S : Schema) (D : Doc) : List (Option Name × Selection) := allSels (allCtxs S D)

def count {α} (p : α → Bool) (l : List α) : Nat := (l.filter p).length

/-- field selections with a known type in scope -/
def nFields (S : Schema) (D : Doc) : Nat :=
  count (fun | (some _, .field ..) => true | _ => false) (selsOf S D)
/-- field selections with / without a sub-selection -/
def nFieldsWithSel (S : Schema) (D : Doc) : Nat :=
  count (fun | (some _, .field _ _ _ _ _ (some _)) => true | _ => false) (selsOf S D)
def nLeafFields (S : Schema) (D : Doc) : Nat :=
  count (fun | (some _, .field _ _ _ _ _ none) => true | _ => false) (selsOf S D)
def nSpreads (S : Schema) (D : Doc) : Nat :=
  count (fun | (some _, .spread ..) => true | _ => false) (selsOf S D)
/-- spreads and conditioned inline fragments whose type condition differs from the type in scope -/
def nNarrowing (S : Schema) (D : Doc) : Nat :=
  count (fun
    | (some t, .spread n _ _ _) => (match frag? D n with | some f => f.cond != t | none => false)
    | (some t, .inline (some (c, _)) _ _ _) => c != t
    | _ => false) (selsOf S D)
/-- arguments given (over all field and directive argument lists) -/
def nArgs (S : Schema) (D : Doc) : Nat := ((argSites S D).map (·.args.length)).sum
/-- argument lists with at least two arguments -/
def nMultiArgLists (S : Schema) (D : Doc) : Nat :=
  count (fun as => as.length ≥ 2) (rule_5_4_2.fieldArgSitesAll S D ++ rule_5_4_2.dirArgSitesAll S D)
/-- required argument definitions at the argument sites -/
def nRequiredArgDefs (S : Schema) (D : Doc) : Nat :=
  ((argSites S D).map fun s => count (fun d => d.ty.isNonNull && d.default.isNone) s.defs).sum
def nTypedValues (S : Schema) (D : Doc) : Nat := (typedValues S D).length
def nObjectValues (S : Schema) (D : Doc) : Nat :=
  count (fun tv => match tv.value with | .obj .. => true | _ => false) (typedValues S D)
/-- object literals with at least two fields -/
def nBigObjectValues (S : Schema) (D : Doc) : Nat :=
  count (fun tv => match tv.value with | .obj fs _ => fs.length ≥ 2 | _ => false) (typedValues S D)
def nVarUses (S : Schema) (D : Doc) : Nat := ((ops D).map fun o => (opVarUses S D o).length).sum
/-- variable usages through a fragment-free path at a non-null location by a nullable variable with default -/
def nDefaultRescued (S : Schema) (D : Doc) : Nat :=
  ((ops D).map fun o => count (fun u => u.locTy.isNonNull &&
      (match o.vars.find? (·.name == u.name) with | some vd => !vd.ty.isNonNull | none => false)) (opVarUses S D o)).sum
def maxVars (D : Doc) : Nat := ((ops D).map (·.vars.length)).foldl max 0
/-- directive applications -/
def nDirectives (S : Schema) (D : Doc) : Nat := ((dirSites S D).map (·.2.length)).sum
/-- locations with at least one directive, as a list of location names -/
def dirLocations (S : Schema) (D : Doc) : List String :=
  dedup (((dirSites S D).filter fun s => !s.2.isEmpty).map (·.1))
/-- locations carrying the same (repeatable) directive twice -/
def nRepeated (S : Schema) (D : Doc) : Nat :=
  count (fun s => !nodupB (s.2.map (·.name))) (dirSites S D)
/-- fragments that spread other fragments -/
def nSpreadingFrags (D : Doc) : Nat := count (fun f => !(reachable D f.sel).isEmpty) (frags D)
/-- subscriptions whose single root key is only found through a fragment spread -/
def nSubsThroughSpread (D : Doc) : Nat :=
  count (fun o => o.kind == .subscription && (keysFlat o.sel).isEmpty && !(reachableFlat D o.sel).isEmpty) (ops D)

/-! ### one rejected document per rule -/

def q (sels : List Selection) (vars : List VarDef := []) (dirs : List Directive := []) : ExecDef :=
  .op { kind := .query, name := some ("Q", {}), vars := vars, dirs := dirs, sel := sels }
def fr (name cond : Name) (sels : List Selection) : ExecDef := .frag { name := name, cond := cond, sel := sels }

/-- a document that violates rule `r` (and, as far as possible, nothing else) -/
def wBad : String → Doc
  | "5.2.1.1" => [q [fld "a"], q [fld "a"]]                                     -- two operations named Q
  | "5.2.2.1" => [.op { kind := .query, sel := [fld "a"] }, q [fld "a"]]        -- anonymous + another
  | "5.2.3.1" => [.op { kind := .subscription, sel := [fld "tick", spr "SF"] },
                  fr "SF" "Subscription" [fld "user" [] [] (some [fld "id"])]]   -- two root fields, one through a spread
  | "5.3.1" => [q [fld "nope"]]
  | "5.3.3" => [q [fld "a" [] [] (some [fld "a"])]]                             -- selection on a scalar
  | "5.4.1" => [q [fld "f" [arg "x" (vInt "1"), arg "z" (vInt "1")] [] (some [fld "a"])]]
  | "5.4.2" => [q [fld "f" [arg "x" (vInt "1"), arg "x" (vInt "1")] [] (some [fld "a"])]]
  | "5.4.2.1" => [q [fld "f" [] [] (some [fld "a"])]]
  | "5.6.1" => [q [fld "f" [arg "x" (vStr "1")] [] (some [fld "a"])]]
  | "5.6.2" => [q [fld "near" [arg "p" (vObj [("x", vInt "1"), ("z", vInt "1")])] [] (some [fld "id"])]]
  | "5.6.3" => [q [fld "near" [arg "p" (vObj [("x", vInt "1"), ("x", vInt "1")])] [] (some [fld "id"])]]
  | "5.6.4" => [q [fld "near" [arg "p" (vObj [("y", vInt "1")])] [] (some [fld "id"])]]
  | "5.8.1" => [q [fld "a"] [{ name := "v", ty := ty "Int" }, { name := "v", ty := ty "Int" }]]
  | "5.8.2" => [q [fld "a"] [{ name := "v", ty := ty "User" }]]
  | "5.8.3" => [q [fld "f" [arg "x" (vVar "w")] [] (some [fld "a"])]]
  | "5.8.5" => [q [fld "f" [arg "x" (vVar "v")] [] (some [fld "a"])] [{ name := "v", ty := ty "Int" }]]
  | "5.5.1.1" => [q [spr "F"], fr "F" "Query" [fld "a"], fr "F" "Query" [fld "a"]]
  | "5.5.1.2" => [q [inl (some "Nope") [fld "a"]]]
  | "5.5.1.3" => [q [spr "F"], fr "F" "Int" [fld "a"]]
  | "5.5.2.1" => [q [spr "F"]]
  | "5.5.2.2" => [q [spr "F"], fr "F" "Query" [spr "G"], fr "G" "Query" [spr "F"]]
  | "5.5.2.3" => [q [fld "node" [arg "id" (vStr "1")] [] (some [inl (some "User") [inl (some "Dog") [fld "bark"]]])]]
  | "5.7.1" => [q [fld "a" [] [dir "nope"]]]
  | "5.7.2" => [q [fld "a"] [] [dir "skip" [arg "if" (vBool true)]]]             -- @skip on a QUERY
  | "5.7.3" => [q [fld "a" [] [dir "once", dir "once"]]]
  | _ => []

/-- rule id ↦ predicate of the implemented-rule table (`true` for an unknown id) -/
def ruleOf (r : String) (S : Schema) (D : Doc) : Bool :=
  match ruleTable.find? (·.1 == r) with
  | some p => p.2 S D
  | none => true

end NitroVerif.CheckOp.Witness
