import NitroVerif.Lemmas.JsonTextNumber
/-!
# C12, text level — reading the writer's text gives back the tree (any lexical layer that reads the writer's strings)

`LexOk L`: the lexical layer `L` does not treat a character that begins a token of the writer's text as white space, opens a
string exactly at `"` among those characters, and reads json-writer's escaped strings back (`strBody_esc`, `js_strBody_esc`).
Both `rfc8259` and `JsLit.lex` are `LexOk`.

`value_chars` (mutual induction over the tree): for every tree `t` whose numbers are number tokens and whose member names the
lexical layer accepts (`good`), every text `rest` that cannot continue a number and every fuel `≥ cost t`,
`value L fuel (chars t ++ rest) = some (t, rest)`. `cost_le`: `cost t < 2 * length`, so `fuelFor` is enough.
-/
namespace NitroVerif.JsonText
open NitroVerif NitroVerif.PrintMap

/-- the characters that begin a value of the writer's text -/
def isStart (c : Char) : Bool :=
  c = '"' || c = '[' || c = '{' || c = 't' || c = 'f' || c = 'n' || c = '-' || isDigit c

structure LexOk (L : Lex) : Prop where
  ws_start : ∀ c, isStart c = true → L.ws c = false
  ws_punct : L.ws ']' = false ∧ L.ws '}' = false ∧ L.ws ',' = false ∧ L.ws ':' = false
  quote_dq : L.quote '"' = true
  quote_start : ∀ c, isStart c = true → c ≠ '"' → L.quote c = false
  quote_close : L.quote '}' = false
  str_esc : ∀ s rest, L.str '"' (escChars s ++ '"' :: rest) = some (s, rest)

theorem rfc8259_ok : LexOk rfc8259 where
  ws_start := by
    intro c h
    simp only [isStart, isDigit, Bool.or_eq_true, decide_eq_true_eq, Bool.and_eq_true] at h
    simp only [rfc8259, decide_eq_false_iff_not]
    rintro (h' | h' | h' | h') <;> subst h' <;> simp at h
  ws_punct := by simp [rfc8259]
  quote_dq := by simp [rfc8259]
  quote_start := by intro c _ h; simp [rfc8259, h]
  quote_close := by simp [rfc8259]
  str_esc := fun s rest => strBody_esc s rest

theorem jsLit_ok : LexOk JsLit.lex where
  ws_start := by
    intro c h
    simp only [isStart, isDigit, Bool.or_eq_true, decide_eq_true_eq, Bool.and_eq_true] at h
    have hn : c.toNat = 34 ∨ c.toNat = 91 ∨ c.toNat = 123 ∨ c.toNat = 116 ∨ c.toNat = 102 ∨ c.toNat = 110 ∨
        c.toNat = 45 ∨ (48 ≤ c.toNat ∧ c.toNat ≤ 57) := by
      rcases h with ((((((h | h) | h) | h) | h) | h) | h) | h
      all_goals first | (subst h; simp) | (right; right; right; right; right; right; right; exact h)
    simp only [JsLit.lex, JsLit.lexOf, JsLit.ws, decide_eq_false_iff_not]
    omega
  ws_punct := by simp [JsLit.lex, JsLit.lexOf, JsLit.ws]
  quote_dq := by simp [JsLit.lex, JsLit.lexOf]
  quote_start := by
    intro c h hq
    simp only [isStart, isDigit, Bool.or_eq_true, decide_eq_true_eq, Bool.and_eq_true] at h
    simp only [JsLit.lex, JsLit.lexOf, decide_eq_false_iff_not]
    rintro (h' | h')
    · exact hq h'
    · subst h'; simp at h
  quote_close := by simp [JsLit.lex, JsLit.lexOf]
  str_esc := fun s rest => js_strBody_esc s rest

/-! ## which trees -/

/-- `r` is ONE number token of RFC 8259 §6 -/
def numTok (r : List Char) : Bool := decide (number r = some (r, []))

mutual
/-- every number of the tree is a number token, every member name is accepted by `key` -/
def good (key : List Char → Bool) : Json → Bool
  | .num r => numTok r.toList
  | .arr xs => goodList key xs
  | .obj kvs => goodFields key kvs
  | _ => true
def goodList (key : List Char → Bool) : List Json → Bool
  | [] => true
  | x :: xs => good key x && goodList key xs
def goodFields (key : List Char → Bool) : List (String × Json) → Bool
  | [] => true
  | (k, v) :: r => key k.toList && good key v && goodFields key r
end

mutual
/-- fuel `value` needs for the text of a tree -/
def cost : Json → Nat
  | .arr xs => costList xs + 1
  | .obj kvs => costFields kvs + 1
  | _ => 1
def costList : List Json → Nat
  | [] => 0
  | x :: xs => cost x + costList xs + 1
def costFields : List (String × Json) → Nat
  | [] => 0
  | (_, v) :: r => cost v + costFields r + 1
end

/-! ## the text of a tree begins with a start character -/

theorem chars_head (key : List Char → Bool) (t : Json) (h : good key t = true) :
    ∃ c r, chars t = c :: r ∧ isStart c = true := by
  cases t with
  | null => exact ⟨'n', _, rfl, by decide⟩
  | bool b => cases b
              · exact ⟨'f', _, rfl, by decide⟩
              · exact ⟨'t', _, rfl, by decide⟩
  | num raw =>
    simp only [good, numTok, decide_eq_true_eq] at h
    obtain ⟨c, cs, hs, hc⟩ := number_head h
    refine ⟨c, cs, by simp [chars, hs], ?_⟩
    rcases hc with hc | hc
    · subst hc; decide
    · simp [isStart, hc]
  | str s => exact ⟨'"', _, rfl, by decide⟩
  | arr xs => exact ⟨'[', _, rfl, by decide⟩
  | obj kvs => exact ⟨'{', _, rfl, by decide⟩

theorem start_ne {c : Char} (h : isStart c = true) : c ≠ ']' ∧ c ≠ '}' ∧ c ≠ ',' ∧ c ≠ ':' := by
  simp only [isStart, isDigit, Bool.or_eq_true, decide_eq_true_eq, Bool.and_eq_true] at h
  refine ⟨?_, ?_, ?_, ?_⟩ <;> (intro e; subst e; simp at h)

theorem skipWs_cons {ws : Char → Bool} {c : Char} (h : ws c = false) (r : List Char) : skipWs ws (c :: r) = c :: r := by
  simp [skipWs, h]

/-! ## one step of `value` / `elements` / `members` -/

section
variable {L : Lex} (hL : LexOk L)
include hL

theorem value_str (s : String) (f : Nat) (rest : List Char) :
    value L (f + 1) (strChars s ++ rest) = some (.str s, rest) := by
  have h1 := hL.ws_start '"' (by decide)
  have : strChars s ++ rest = '"' :: (escChars s.toList ++ '"' :: rest) := by simp [strChars]
  rw [this]
  simp [value, skipWs, h1, hL.quote_dq, hL.str_esc, String.ofList_toList]

theorem value_null (f : Nat) (rest : List Char) : value L (f + 1) ('n' :: 'u' :: 'l' :: 'l' :: rest) = some (.null, rest) := by
  have h1 := hL.ws_start 'n' (by decide)
  have h2 := hL.quote_start 'n' (by decide) (by decide)
  simp [value, skipWs, h1, h2, keyword]

theorem value_true (f : Nat) (rest : List Char) :
    value L (f + 1) ('t' :: 'r' :: 'u' :: 'e' :: rest) = some (.bool true, rest) := by
  have h1 := hL.ws_start 't' (by decide)
  have h2 := hL.quote_start 't' (by decide) (by decide)
  simp [value, skipWs, h1, h2, keyword]

theorem value_false (f : Nat) (rest : List Char) :
    value L (f + 1) ('f' :: 'a' :: 'l' :: 's' :: 'e' :: rest) = some (.bool false, rest) := by
  have h1 := hL.ws_start 'f' (by decide)
  have h2 := hL.quote_start 'f' (by decide) (by decide)
  simp [value, skipWs, h1, h2, keyword]

theorem value_num (raw : String) (hn : numTok raw.toList = true) (f : Nat) (rest : List Char) (hd : Delim rest) :
    value L (f + 1) (raw.toList ++ rest) = some (.num raw, rest) := by
  simp only [numTok, decide_eq_true_eq] at hn
  obtain ⟨c, cs, hs, hc⟩ := number_head hn
  have hst : isStart c = true := by
    rcases hc with hc | hc
    · subst hc; decide
    · simp [isStart, hc]
  have h1 := hL.ws_start c hst
  have hq : c ≠ '"' := by
    rcases hc with hc | hc
    · subst hc; decide
    · intro e; subst e; simp [isDigit] at hc
  have h2 := hL.quote_start c hst hq
  have hne : c ≠ '[' ∧ c ≠ '{' ∧ c ≠ 't' ∧ c ≠ 'f' ∧ c ≠ 'n' := by
    rcases hc with hc | hc
    · subst hc; decide
    · refine ⟨?_, ?_, ?_, ?_, ?_⟩ <;> (intro e; subst e; simp [isDigit] at hc)
  have hnum := number_append rest hd hn
  rw [hs] at hnum ⊢
  simp only [List.cons_append] at hnum ⊢
  simp [value, skipWs, h1, h2, hne, hnum, ← hs, String.ofList_toList]

theorem value_arr_nil (f : Nat) (rest : List Char) : value L (f + 1) ('[' :: ']' :: rest) = some (.arr [], rest) := by
  have h1 := hL.ws_start '[' (by decide)
  have h2 := hL.quote_start '[' (by decide) (by decide)
  simp [value, skipWs, h1, h2, hL.ws_punct.1]

theorem value_arr_cons (f : Nat) (c : Char) (r : List Char) (hc : isStart c = true) (xs : List Json) (r' : List Char)
    (he : elements L f (c :: r) = some (xs, r')) : value L (f + 1) ('[' :: c :: r) = some (.arr xs, r') := by
  have h1 := hL.ws_start '[' (by decide)
  have h2 := hL.quote_start '[' (by decide) (by decide)
  simp [value, skipWs, h1, h2, hL.ws_start c hc, (start_ne hc).1, he]

theorem value_obj_nil (f : Nat) (rest : List Char) : value L (f + 1) ('{' :: '}' :: rest) = some (.obj [], rest) := by
  have h1 := hL.ws_start '{' (by decide)
  have h2 := hL.quote_start '{' (by decide) (by decide)
  simp [value, skipWs, h1, h2, hL.ws_punct.2.1]

theorem value_obj_cons (f : Nat) (r : List Char) (kvs : List (String × Json)) (r' : List Char)
    (hm : members L f ('"' :: r) = some (kvs, r')) : value L (f + 1) ('{' :: '"' :: r) = some (.obj kvs, r') := by
  have h1 := hL.ws_start '{' (by decide)
  have h2 := hL.quote_start '{' (by decide) (by decide)
  simp [value, skipWs, h1, h2, hL.ws_start '"' (by decide), hm]

theorem elements_last (f : Nat) (s : List Char) (x : Json) (rest : List Char)
    (hv : value L f s = some (x, ']' :: rest)) : elements L (f + 1) s = some ([x], rest) := by
  simp [elements, hv, skipWs, hL.ws_punct.1]

theorem elements_more (f : Nat) (s : List Char) (x : Json) (xs : List Json) (r rest : List Char)
    (hv : value L f s = some (x, ',' :: r)) (he : elements L f r = some (xs, rest)) :
    elements L (f + 1) s = some (x :: xs, rest) := by
  simp [elements, hv, skipWs, hL.ws_punct.2.2.1, he]

theorem members_last (f : Nat) (k : String) (hk : L.key k.toList = true) (s : List Char) (v : Json) (rest : List Char)
    (hv : value L f s = some (v, '}' :: rest)) :
    members L (f + 1) (strChars k ++ ':' :: s) = some ([(k, v)], rest) := by
  have h1 := hL.ws_start '"' (by decide)
  have : strChars k ++ ':' :: s = '"' :: (escChars k.toList ++ '"' :: ':' :: s) := by simp [strChars]
  rw [this]
  simp [members, skipWs, h1, hL.quote_dq, hL.str_esc, hk, hL.ws_punct.2.2.2, hv, hL.ws_punct.2.1, String.ofList_toList]

theorem members_more (f : Nat) (k : String) (hk : L.key k.toList = true) (s : List Char) (v : Json)
    (kvs : List (String × Json)) (r rest : List Char)
    (hv : value L f s = some (v, ',' :: r)) (hm : members L f r = some (kvs, rest)) :
    members L (f + 1) (strChars k ++ ':' :: s) = some ((k, v) :: kvs, rest) := by
  have h1 := hL.ws_start '"' (by decide)
  have : strChars k ++ ':' :: s = '"' :: (escChars k.toList ++ '"' :: ':' :: s) := by simp [strChars]
  rw [this]
  simp [members, skipWs, h1, hL.quote_dq, hL.str_esc, hk, hL.ws_punct.2.2.2, hv, hL.ws_punct.2.2.1, hm,
    String.ofList_toList]

end

/-! ## the induction -/

theorem delim_comma (r : List Char) : Delim (',' :: r) := delim_cons (by decide)
theorem delim_rbracket (r : List Char) : Delim (']' :: r) := delim_cons (by decide)
theorem delim_rbrace (r : List Char) : Delim ('}' :: r) := delim_cons (by decide)

theorem succ_of_pos {f : Nat} (h : 0 < f) : ∃ g, f = g + 1 := ⟨f - 1, by omega⟩

mutual
/-- reading the text of a tree gives back the tree and leaves exactly the text behind it -/
theorem value_chars {L : Lex} (hL : LexOk L) : (t : Json) → good L.key t = true → ∀ (f : Nat) (rest : List Char),
    Delim rest → cost t ≤ f → value L f (chars t ++ rest) = some (t, rest)
  | .null, _, f, rest, _, hf => by
    obtain ⟨g, rfl⟩ := succ_of_pos (f := f) (by simp [cost] at hf; omega)
    exact value_null hL g rest
  | .bool b, _, f, rest, _, hf => by
    obtain ⟨g, rfl⟩ := succ_of_pos (f := f) (by simp [cost] at hf; omega)
    cases b
    · exact value_false hL g rest
    · exact value_true hL g rest
  | .num raw, h, f, rest, hd, hf => by
    obtain ⟨g, rfl⟩ := succ_of_pos (f := f) (by simp [cost] at hf; omega)
    simp only [good] at h
    exact value_num hL raw h g rest hd
  | .str s, _, f, rest, _, hf => by
    obtain ⟨g, rfl⟩ := succ_of_pos (f := f) (by simp [cost] at hf; omega)
    exact value_str hL s g rest
  | .arr [], _, f, rest, _, hf => by
    obtain ⟨g, rfl⟩ := succ_of_pos (f := f) (by simp [cost] at hf; omega)
    simpa [chars, charsList] using value_arr_nil hL g rest
  | .arr (x :: xs), h, f, rest, _, hf => by
    obtain ⟨g, rfl⟩ := succ_of_pos (f := f) (by simp [cost] at hf; omega)
    simp only [good] at h
    have he := elements_chars hL (x :: xs) (by simp) h g rest (by simp only [cost] at hf; omega)
    have hx : good L.key x = true := by simp only [goodList, Bool.and_eq_true] at h; exact h.1
    obtain ⟨c, r, hc, hst⟩ := chars_head L.key x hx
    have e : chars (.arr (x :: xs)) ++ rest = '[' :: (charsList (x :: xs) true ++ ']' :: rest) := by
      simp [chars]
    have e2 : charsList (x :: xs) true ++ ']' :: rest = c :: (r ++ charsList xs false ++ ']' :: rest) := by
      simp [charsList, hc]
    rw [e2] at he
    rw [e, e2]
    exact value_arr_cons hL g c _ hst _ _ he
  | .obj [], _, f, rest, _, hf => by
    obtain ⟨g, rfl⟩ := succ_of_pos (f := f) (by simp [cost] at hf; omega)
    simpa [chars, charsFields] using value_obj_nil hL g rest
  | .obj ((k, v) :: kvs), h, f, rest, _, hf => by
    obtain ⟨g, rfl⟩ := succ_of_pos (f := f) (by simp [cost] at hf; omega)
    simp only [good] at h
    have hm := members_chars hL ((k, v) :: kvs) (by simp) h g rest (by simp only [cost] at hf; omega)
    have e : chars (.obj ((k, v) :: kvs)) ++ rest = '{' :: (charsFields ((k, v) :: kvs) true ++ '}' :: rest) := by
      simp [chars]
    have e2 : charsFields ((k, v) :: kvs) true ++ '}' :: rest =
        '"' :: (escChars k.toList ++ '"' :: ':' :: (chars v ++ charsFields kvs false ++ '}' :: rest)) := by
      simp [charsFields, strChars]
    rw [e2] at hm
    rw [e, e2]
    exact value_obj_cons hL g _ _ _ hm
/-- `x,x,…,x]` -/
theorem elements_chars {L : Lex} (hL : LexOk L) : (xs : List Json) → xs ≠ [] → goodList L.key xs = true →
    ∀ (f : Nat) (rest : List Char), costList xs ≤ f →
      elements L f (charsList xs true ++ ']' :: rest) = some (xs, rest)
  | [], hne, _, _, _, _ => absurd rfl hne
  | [x], _, h, f, rest, hf => by
    obtain ⟨g, rfl⟩ := succ_of_pos (f := f) (by simp [costList] at hf; omega)
    simp only [goodList, Bool.and_eq_true] at h
    have hv := value_chars hL x h.1 g (']' :: rest) (delim_rbracket rest) (by simp only [costList] at hf; omega)
    simpa [charsList] using elements_last hL g _ x rest hv
  | x :: y :: ys, _, h, f, rest, hf => by
    obtain ⟨g, rfl⟩ := succ_of_pos (f := f) (by simp [costList] at hf; omega)
    simp only [goodList, Bool.and_eq_true] at h
    have hv := value_chars hL x h.1 g (',' :: (charsList (y :: ys) true ++ ']' :: rest)) (delim_comma _)
      (by simp only [costList] at hf; omega)
    have he := elements_chars hL (y :: ys) (by simp) (by simp only [goodList, Bool.and_eq_true]; exact h.2) g rest
      (by simp only [costList] at hf ⊢; omega)
    have e : charsList (x :: y :: ys) true ++ ']' :: rest =
        chars x ++ ',' :: (charsList (y :: ys) true ++ ']' :: rest) := by simp [charsList]
    rw [e]
    exact elements_more hL g _ x (y :: ys) _ rest hv he
/-- `"k":v,…,"k":v}` -/
theorem members_chars {L : Lex} (hL : LexOk L) : (kvs : List (String × Json)) → kvs ≠ [] →
    goodFields L.key kvs = true → ∀ (f : Nat) (rest : List Char), costFields kvs ≤ f →
      members L f (charsFields kvs true ++ '}' :: rest) = some (kvs, rest)
  | [], hne, _, _, _, _ => absurd rfl hne
  | [(k, v)], _, h, f, rest, hf => by
    obtain ⟨g, rfl⟩ := succ_of_pos (f := f) (by simp [costFields] at hf; omega)
    simp only [goodFields, Bool.and_eq_true] at h
    have hv := value_chars hL v h.1.2 g ('}' :: rest) (delim_rbrace rest) (by simp only [costFields] at hf; omega)
    simpa [charsFields] using members_last hL g k h.1.1 _ v rest hv
  | (k, v) :: (k', v') :: r, _, h, f, rest, hf => by
    obtain ⟨g, rfl⟩ := succ_of_pos (f := f) (by simp [costFields] at hf; omega)
    simp only [goodFields, Bool.and_eq_true] at h
    have hv := value_chars hL v h.1.2 g (',' :: (charsFields ((k', v') :: r) true ++ '}' :: rest)) (delim_comma _)
      (by simp only [costFields] at hf; omega)
    have hm := members_chars hL ((k', v') :: r) (by simp)
      (by simp only [goodFields, Bool.and_eq_true]; exact ⟨h.2.1, h.2.2⟩) g rest
      (by simp only [costFields] at hf ⊢; omega)
    have e : charsFields ((k, v) :: (k', v') :: r) true ++ '}' :: rest =
        strChars k ++ ':' :: (chars v ++ ',' :: (charsFields ((k', v') :: r) true ++ '}' :: rest)) := by
      simp [charsFields]
    rw [e]
    exact members_more hL g k h.1.1 _ v ((k', v') :: r) _ rest hv hm
end

/-! ## `fuelFor` is enough -/

theorem two_le_length_strChars (s : String) : 2 ≤ (strChars s).length := by simp [strChars]

mutual
theorem cost_le (key : List Char → Bool) : (t : Json) → good key t = true → cost t + 1 ≤ 2 * (chars t).length
  | .null, _ => by simp [cost, chars]
  | .bool b, _ => by cases b <;> simp [cost, chars]
  | .num raw, h => by
    simp only [good, numTok, decide_eq_true_eq] at h
    obtain ⟨c, cs, hs, _⟩ := number_head h
    simp only [cost, chars, hs, List.length_cons]
    omega
  | .str s, _ => by have := two_le_length_strChars s; simp only [cost, chars]; omega
  | .arr xs, h => by
    simp only [good] at h
    have := costList_le key xs true h
    simp only [cost, chars, List.length_cons, List.length_append, List.length_nil]
    omega
  | .obj kvs, h => by
    simp only [good] at h
    have := costFields_le key kvs true h
    simp only [cost, chars, List.length_cons, List.length_append, List.length_nil]
    omega
theorem costList_le (key : List Char → Bool) : (xs : List Json) → (first : Bool) → goodList key xs = true →
    costList xs ≤ 2 * (charsList xs first).length
  | [], _, _ => by simp [costList]
  | x :: xs, first, h => by
    simp only [goodList, Bool.and_eq_true] at h
    have h1 := cost_le key x h.1
    have h2 := costList_le key xs false h.2
    simp only [costList, charsList, List.length_append]
    omega
theorem costFields_le (key : List Char → Bool) : (kvs : List (String × Json)) → (first : Bool) →
    goodFields key kvs = true → costFields kvs ≤ 2 * (charsFields kvs first).length
  | [], _, _ => by simp [costFields]
  | (k, v) :: r, first, h => by
    simp only [goodFields, Bool.and_eq_true] at h
    have h1 := cost_le key v h.1.2
    have h2 := costFields_le key r false h.2
    simp only [costFields, charsFields, List.length_append, List.length_cons]
    omega
end

/-- the text of a tree, followed by any text that cannot continue a number: `value` with the standard fuel reads the tree and
    stops exactly behind it -/
theorem value_chars_fuelFor {L : Lex} (hL : LexOk L) (t : Json) (h : good L.key t = true) (rest : List Char)
    (hd : Delim rest) : value L (fuelFor (chars t ++ rest)) (chars t ++ rest) = some (t, rest) := by
  apply value_chars hL t h _ rest hd
  have := cost_le L.key t h
  simp only [fuelFor, List.length_append]
  omega

/-- whole-text reading: the text of a tree and nothing else -/
theorem parseWith_chars {L : Lex} (hL : LexOk L) (t : Json) (h : good L.key t = true) :
    parseWith L (chars t) = some t := by
  have := value_chars_fuelFor hL t h [] delim_nil
  simp only [List.append_nil] at this
  simp [parseWith, this, skipWs]

end NitroVerif.JsonText
