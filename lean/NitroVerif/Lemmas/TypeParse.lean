/-
The `Type` sub-language of the GENERATED grammar, run by the generic interpreter (helper lemmas for Props/C07
`render_parse_type`). The rule bodies are read from `Gen.grammar` by `rfl`-checked equalities: if grammar.pest changes
one of these rules, this file no longer compiles.
-/
import NitroVerif.Lemmas.PegRun
import NitroVerif.Model.Build
namespace NitroVerif.TypeParse
open NitroVerif.Peg NitroVerif.Gen NitroVerif.Build

/-! ### the rules, as generated -/

theorem look_Type : gList.look R.«Type» =
    some (.normal, .choice (.call R.NonNullType) (.choice (.call R.NamedType) (.call R.ListType))) := rfl
theorem look_NamedType : gList.look R.NamedType = some (.normal, .call R.Name) := rfl
theorem look_ListType : gList.look R.ListType =
    some (.normal, .seq (.str ['[']) (.seq (.call R.«Type») (.str [']']))) := rfl
theorem look_NonNullType : gList.look R.NonNullType =
    some (.normal, .choice (.seq (.call R.NamedType) (.str ['!'])) (.seq (.call R.ListType) (.str ['!']))) := rfl
theorem look_Name : gList.look R.Name = some (.atomic, .seq (.call R.NameStart) (.star (.call R.NameContinue))) := rfl
theorem look_NameStart : gList.look R.NameStart = some (.atomic, .choice (.call R.ASCII_ALPHA) (.str ['_'])) := rfl
theorem look_NameContinue : gList.look R.NameContinue =
    some (.atomic, .choice (.call R.ASCII_ALPHANUMERIC) (.str ['_'])) := rfl
theorem look_ALPHA : gList.look R.ASCII_ALPHA = some (.silent, .choice (.range 'a' 'z') (.range 'A' 'Z')) := rfl
theorem look_ALNUM : gList.look R.ASCII_ALPHANUMERIC =
    some (.silent, .choice (.range 'a' 'z') (.choice (.range 'A' 'Z') (.range '0' '9'))) := rfl
theorem look_NEWLINE : gList.look R.NEWLINE =
    some (.silent, .choice (.str ['\n']) (.choice (.str ['\r', '\n']) (.str ['\r']))) := rfl
theorem look_WHITESPACE : gList.look R.WHITESPACE =
    some (.silent, .choice (.str [Char.ofNat 65279]) (.choice (.str ['\t']) (.choice (.str [' '])
      (.choice (.call R.NEWLINE) (.str [',']))))) := rfl
/-- only the head of COMMENT matters here: it starts with the terminal `#` -/
theorem look_COMMENT : ∃ rest, gList.look R.COMMENT = some (.silent, .seq (.str ['#']) rest) := ⟨_, rfl⟩
theorem ws_cm : gList.ws = some R.WHITESPACE ∧ gList.cm = some R.COMMENT := ⟨rfl, rfl⟩

theorem notSpecial {r : RuleId} (h1 : r ≠ R.WHITESPACE) (h2 : r ≠ R.COMMENT) :
    ¬ (gList.ws = some r ∨ gList.cm = some r) := by
  rw [ws_cm.1, ws_cm.2]
  rintro (h | h)
  · exact h1 (Option.some.inj h).symm
  · exact h2 (Option.some.inj h).symm

/-! ### character classes -/

def alpha (d : Char) : Prop := ('a' ≤ d ∧ d ≤ 'z') ∨ ('A' ≤ d ∧ d ≤ 'Z')
def alnum (d : Char) : Prop := ('a' ≤ d ∧ d ≤ 'z') ∨ (('A' ≤ d ∧ d ≤ 'Z') ∨ ('0' ≤ d ∧ d ≤ '9'))
def nameStart (d : Char) : Prop := alpha d ∨ d = '_'
def nameCont (d : Char) : Prop := alnum d ∨ d = '_'

instance (d : Char) : Decidable (alpha d) := by unfold alpha; infer_instance
instance (d : Char) : Decidable (alnum d) := by unfold alnum; infer_instance
instance (d : Char) : Decidable (nameStart d) := by unfold nameStart; infer_instance
instance (d : Char) : Decidable (nameCont d) := by unfold nameCont; infer_instance

/-- the head of the remaining input does not satisfy `P` (or the input is at its end) -/
def HeadNot (P : Char → Prop) (rest : List Char) : Prop := ∀ d r, rest = d :: r → ¬ P d

theorem matchStr_none_of_head {x : Char} {xs rest : List Char} (h : HeadNot (· = x) rest) :
    matchStr (x :: xs) rest = none := by
  cases rest with
  | nil => rfl
  | cons d r =>
    have : ¬ x = d := fun e => h d r rfl e.symm
    simp [matchStr, this]

theorem range_runs_or_fails (sk : Bool) (lo hi : Char) (at_ : Atomicity) (p : Nat) (d : Char) (r : List Char) :
    (lo ≤ d ∧ d ≤ hi → Runs gList 1 sk (.range lo hi) at_ ⟨p, d :: r⟩ ⟨p + 1, r⟩ []) ∧
    (¬ (lo ≤ d ∧ d ≤ hi) → Fails gList 1 sk (.range lo hi) at_ ⟨p, d :: r⟩) := by
  constructor
  · intro h; exact runs_range (c := ⟨p, d :: r⟩) rfl h
  · intro h
    refine fails_range (c := ⟨p, d :: r⟩) ?_
    intro d' r' he
    cases he
    exact h

theorem range_fails_nil (sk : Bool) (lo hi : Char) (at_ : Atomicity) (p : Nat) :
    Fails gList 1 sk (.range lo hi) at_ ⟨p, []⟩ := by
  refine fails_range (c := ⟨p, []⟩) ?_
  intro d r he; cases he

/-! ### ASCII_ALPHA, ASCII_ALPHANUMERIC, NameStart, NameContinue (called inside the atomic rule `Name`) -/

theorem alpha_runs {p d r} (h : alpha d) : RunsRule gList 3 R.ASCII_ALPHA .atomic ⟨p, d :: r⟩ ⟨p + 1, r⟩ [] := by
  refine runsRule_silent look_ALPHA (notSpecial (by decide) (by decide)) ?_
  by_cases h1 : 'a' ≤ d ∧ d ≤ 'z'
  · exact (runs_choice_l ((range_runs_or_fails true _ _ _ p d r).1 h1)).mono (by omega)
  · have h2 : 'A' ≤ d ∧ d ≤ 'Z' := h.resolve_left h1
    exact runs_choice_r ((range_runs_or_fails true _ _ _ p d r).2 h1) ((range_runs_or_fails true _ _ _ p d r).1 h2)

theorem alpha_fails {p rest} (h : HeadNot alpha rest) : FailsRule gList 3 R.ASCII_ALPHA .atomic ⟨p, rest⟩ := by
  refine failsRule_silent look_ALPHA (notSpecial (by decide) (by decide)) ?_
  cases rest with
  | nil => exact fails_choice (range_fails_nil _ _ _ _ _) (range_fails_nil _ _ _ _ _)
  | cons d r =>
    have hd := h d r rfl
    exact fails_choice ((range_runs_or_fails true _ _ _ p d r).2 (fun x => hd (Or.inl x)))
      ((range_runs_or_fails true _ _ _ p d r).2 (fun x => hd (Or.inr x)))

theorem alnum_runs {p d r} (h : alnum d) : RunsRule gList 4 R.ASCII_ALPHANUMERIC .atomic ⟨p, d :: r⟩ ⟨p + 1, r⟩ [] := by
  refine runsRule_silent look_ALNUM (notSpecial (by decide) (by decide)) ?_
  by_cases h1 : 'a' ≤ d ∧ d ≤ 'z'
  · exact (runs_choice_l ((range_runs_or_fails true _ _ _ p d r).1 h1)).mono (by omega)
  · have h' := h.resolve_left h1
    refine runs_choice_r (((range_runs_or_fails true _ _ _ p d r).2 h1).mono (by omega : 1 ≤ 2)) ?_
    by_cases h2 : 'A' ≤ d ∧ d ≤ 'Z'
    · exact runs_choice_l ((range_runs_or_fails true _ _ _ p d r).1 h2)
    · exact runs_choice_r ((range_runs_or_fails true _ _ _ p d r).2 h2)
        ((range_runs_or_fails true _ _ _ p d r).1 (h'.resolve_left h2))

theorem alnum_fails {p rest} (h : HeadNot alnum rest) : FailsRule gList 4 R.ASCII_ALPHANUMERIC .atomic ⟨p, rest⟩ := by
  refine failsRule_silent look_ALNUM (notSpecial (by decide) (by decide)) ?_
  cases rest with
  | nil =>
    exact fails_choice ((range_fails_nil _ _ _ _ _).mono (by omega : 1 ≤ 2))
      (fails_choice (range_fails_nil _ _ _ _ _) (range_fails_nil _ _ _ _ _))
  | cons d r =>
    have hd := h d r rfl
    exact fails_choice (((range_runs_or_fails true _ _ _ p d r).2 (fun x => hd (Or.inl x))).mono (by omega : 1 ≤ 2))
      (fails_choice ((range_runs_or_fails true _ _ _ p d r).2 (fun x => hd (Or.inr (Or.inl x))))
        ((range_runs_or_fails true _ _ _ p d r).2 (fun x => hd (Or.inr (Or.inr x)))))

theorem nameStart_runs {p d r} (h : nameStart d) : RunsRule gList 6 R.NameStart .atomic ⟨p, d :: r⟩ ⟨p + 1, r⟩ [] := by
  have key : Runs gList 5 false (.choice (.call R.ASCII_ALPHA) (.str ['_'])) .atomic ⟨p, d :: r⟩ ⟨p + 1, r⟩ [] := by
    by_cases ha : alpha d
    · exact runs_choice_l (runs_call (alpha_runs ha))
    · have hu : d = '_' := h.resolve_left ha
      subst hu
      refine runs_choice_r (fails_call (alpha_fails ?_)) ((runs_str (c := ⟨p, '_' :: r⟩) (by simp [matchStr])).mono (by omega))
      intro d' r' he; cases he; exact ha
  simpa using runsRule_atomic (at_ := .atomic) look_NameStart key

theorem nameStart_fails {p rest} (h : HeadNot nameStart rest) : FailsRule gList 6 R.NameStart .atomic ⟨p, rest⟩ := by
  refine failsRule_atomic look_NameStart ?_
  refine fails_choice (fails_call (alpha_fails fun d r he ha => h d r he (Or.inl ha))) ?_
  exact (fails_str (c := ⟨p, rest⟩) (matchStr_none_of_head fun d r he hd => h d r he (Or.inr hd))).mono (by omega)

theorem nameCont_runs {p d r} (h : nameCont d) : RunsRule gList 7 R.NameContinue .atomic ⟨p, d :: r⟩ ⟨p + 1, r⟩ [] := by
  have key : Runs gList 6 false (.choice (.call R.ASCII_ALPHANUMERIC) (.str ['_'])) .atomic ⟨p, d :: r⟩ ⟨p + 1, r⟩ [] := by
    by_cases ha : alnum d
    · exact runs_choice_l (runs_call (alnum_runs ha))
    · have hu : d = '_' := h.resolve_left ha
      subst hu
      refine runs_choice_r (fails_call (alnum_fails ?_)) ((runs_str (c := ⟨p, '_' :: r⟩) (by simp [matchStr])).mono (by omega))
      intro d' r' he; cases he; exact ha
  simpa using runsRule_atomic (at_ := .atomic) look_NameContinue key

theorem nameCont_fails {p rest} (h : HeadNot nameCont rest) : FailsRule gList 7 R.NameContinue .atomic ⟨p, rest⟩ := by
  refine failsRule_atomic look_NameContinue ?_
  refine fails_choice (fails_call (alnum_fails fun d r he ha => h d r he (Or.inl ha))) ?_
  exact (fails_str (c := ⟨p, rest⟩) (matchStr_none_of_head fun d r he hd => h d r he (Or.inr hd))).mono (by omega)

/-! ### Name -/

/-- `NameContinue*` consumes a run of name characters and stops at the first other character -/
theorem nameCont_star (ds : List Char) : ∀ (p : Nat) (rest : List Char), (∀ x ∈ ds, nameCont x) → HeadNot nameCont rest →
    Runs gList (ds.length + 9) false (.star (.call R.NameContinue)) .atomic ⟨p, ds ++ rest⟩ ⟨p + ds.length, rest⟩ [] := by
  induction ds with
  | nil =>
    intro p rest _ hr
    simpa using runs_star_nil (fails_call (nameCont_fails (p := p) hr))
  | cons d ds ih =>
    intro p rest hds hr
    have h1 := runs_call (sk := false) (nameCont_runs (p := p) (r := ds ++ rest) (hds d (List.mem_cons_self ..)))
    have h2 := ih (p + 1) rest (fun x hx => hds x (List.mem_cons_of_mem _ hx)) hr
    have := runs_star_cons (h1.mono (by omega : 8 ≤ ds.length + 9)) h2
    simpa [Nat.add_assoc, Nat.add_comm 1] using this

/-- a valid name: a name-start character followed by name characters -/
def validName : List Char → Prop
  | [] => False
  | d :: ds => nameStart d ∧ ∀ x ∈ ds, nameCont x

theorem name_runs {n : List Char} (hn : validName n) (p : Nat) (rest : List Char) (hr : HeadNot nameCont rest) :
    RunsRule gList (n.length + 12) R.Name .nonAtomic ⟨p, n ++ rest⟩ ⟨p + n.length, rest⟩ [Pair.mk R.Name p (p + n.length) []] := by
  cases n with
  | nil => exact absurd hn id
  | cons d ds =>
    obtain ⟨hd, hds⟩ := hn
    have h1 := runs_call (sk := false) (nameStart_runs (p := p) (r := ds ++ rest) hd)
    have h2 := nameCont_star ds (p + 1) rest hds hr
    have hb := runs_seq_nosk (h1.mono (by omega : 7 ≤ ds.length + 9)) h2
    have := runsRule_atomic (at_ := .nonAtomic) look_Name hb
    refine RunsRule.mono ?_ (by simp : ds.length + 12 ≤ (d :: ds).length + 12)
    simpa [Nat.add_assoc, Nat.add_comm 1] using this

theorem name_fails {p rest} (h : HeadNot nameStart rest) : FailsRule gList 9 R.Name .nonAtomic ⟨p, rest⟩ :=
  failsRule_atomic look_Name (fails_seq_first (fails_call (nameStart_fails h)))

/-! ### the implicit skip does nothing in front of a non-trivia character -/

def trivia (d : Char) : Prop :=
  d = Char.ofNat 65279 ∨ d = '\t' ∨ d = ' ' ∨ d = '\n' ∨ d = '\r' ∨ d = ',' ∨ d = '#'

instance (d : Char) : Decidable (trivia d) := by unfold trivia; infer_instance

theorem skip_noop {p rest} (h : HeadNot trivia rest) : SkipNoop gList 18 .nonAtomic ⟨p, rest⟩ := by
  have hn : ∀ (x : Char), trivia x → ∀ xs, matchStr (x :: xs) rest = none := by
    intro x hx xs
    exact matchStr_none_of_head fun d r he hd => h d r he (hd ▸ hx)
  have fs : ∀ (x : Char) (xs : List Char) (at_ : Atomicity) (sk : Bool), trivia x →
      Fails gList 1 sk (.str (x :: xs)) at_ ⟨p, rest⟩ := fun x xs at_ sk hx => fails_str (c := ⟨p, rest⟩) (hn x hx xs)
  have hnl : FailsRule gList 4 R.NEWLINE .atomic ⟨p, rest⟩ := by
    refine failsRule_silent look_NEWLINE (notSpecial (by decide) (by decide)) ?_
    exact fails_choice ((fs '\n' [] _ _ (by simp [trivia])).mono (by omega : 1 ≤ 2))
      (fails_choice (fs '\r' ['\n'] _ _ (by simp [trivia])) (fs '\r' [] _ _ (by simp [trivia])))
  have e4 : Fails gList 6 false (.choice (.call R.NEWLINE) (.str [','])) .atomic ⟨p, rest⟩ :=
    fails_choice (fails_call hnl) ((fs ',' [] _ _ (by simp [trivia])).mono (by omega))
  have e3 : Fails gList 7 false (.choice (.str [' ']) (.choice (.call R.NEWLINE) (.str [',']))) .atomic ⟨p, rest⟩ :=
    fails_choice ((fs ' ' [] _ _ (by simp [trivia])).mono (by omega)) e4
  have e2 : Fails gList 8 false (.choice (.str ['\t']) (.choice (.str [' ']) (.choice (.call R.NEWLINE) (.str [','])))) .atomic
      ⟨p, rest⟩ := fails_choice ((fs '\t' [] _ _ (by simp [trivia])).mono (by omega)) e3
  have hws : FailsRule gList 10 R.WHITESPACE .nonAtomic ⟨p, rest⟩ :=
    failsRule_special look_WHITESPACE (Or.inl ws_cm.1)
      (fails_choice ((fs (Char.ofNat 65279) [] _ _ (by simp [trivia])).mono (by omega)) e2)
  have hcm : FailsRule gList 10 R.COMMENT .nonAtomic ⟨p, rest⟩ := by
    obtain ⟨tl, hl⟩ := look_COMMENT
    exact (failsRule_special hl (Or.inr ws_cm.2) (fails_seq_first (fs '#' [] _ _ (by simp [trivia])))).mono (by omega)
  exact skipNoop_of_fails ws_cm.1 ws_cm.2 hws hcm

end NitroVerif.TypeParse
