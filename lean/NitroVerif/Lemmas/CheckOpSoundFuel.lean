import NitroVerif.Lemmas.CheckOpSoundNonEmpty
/-!
Fuel adequacy of the model's spread recursion.

`spreadHandler S D fuel` (main walk) and `keysHandler D fuel` (root keys of a subscription) recurse on a fuel and
have an out-of-fuel branch that the Rust code does not have. Here the model is re-stated with the fuel `n` and the
behaviour of the out-of-fuel branches (`Z`, `ZK`) as PARAMETERS (`checkOpX`); `checkOp` is the instance
`n = fuelFor D`, `Z` = "report `RecursingFragmentSpread`", `ZK` = "no keys" (`checkOp_eq_X`, by unfolding).

Invariant of every walk: the stack `seen` has no duplicates and consists of names of fragment definitions of the
document, hence (pigeonhole, `List.Nodup.length_le_of_subset`) `seen.length ≤ #fragment definitions`; the fuel
decreases by one exactly when the stack grows by one, so `#fragments + 1 ≤ fuel + seen.length` is preserved.
At fuel 0 that would force `seen.length > #fragments` — impossible — so the out-of-fuel branch is never evaluated
and the result depends neither on `n ≥ fuelFor D` nor on `Z`, `ZK` (`checkOpX_indep`).
-/
namespace NitroVerif.CheckOp
open NitroVerif.Gql NitroVerif.CheckCommon NitroVerif.Valid

/-! ### the model with fuel and out-of-fuel behaviour as parameters -/

/-- `spreadHandler` with an arbitrary out-of-fuel behaviour `Z` -/
def spreadHandlerZ (S : Schema) (D : Doc) (Z : SpreadHandler) : Nat → SpreadHandler
  | 0 => Z
  | fuel + 1 => fun seen vars root name namePos pos =>
    if seen.contains name then [(ErrKind.RecursingFragmentSpread, pos)]
    else match fragMap D name with
      | none => [(ErrKind.UnknownFragment, namePos)]
      | some f =>
        checkDirectives S vars f.dirs "FRAGMENT_DEFINITION" ++
        match S.typeDef? f.cond with
        | none => []
        | some ct =>
          let a := spreadApplicability S root ct pos
          a.1 ++ (if a.2 then checkSelectionSet S (spreadHandlerZ S D Z fuel) (seen ++ [name]) vars ct f.sel f.pos else [])

/-- `keysHandler` with an arbitrary out-of-fuel behaviour `ZK` -/
def keysHandlerZ (D : Doc) (ZK : KeysHandler) : Nat → KeysHandler
  | 0 => ZK
  | fuel + 1 => fun seen name =>
    if seen.contains name then []
    else match fragMap D name with
      | none => []
      | some f => rootKeys (keysHandlerZ D ZK fuel) (seen ++ [name]) f.sel

/-- the out-of-fuel branches of the model -/
def exhaustedSpread : SpreadHandler := fun _ _ _ _ _ pos => [(ErrKind.RecursingFragmentSpread, pos)]
def exhaustedKeys : KeysHandler := fun _ _ => []

theorem spreadHandler_eq_Z (S : Schema) (D : Doc) : ∀ k, spreadHandler S D k = spreadHandlerZ S D exhaustedSpread k := by
  intro k
  induction k with
  | zero => rfl
  | succ k ih =>
    funext seen vars root name namePos pos
    simp only [spreadHandler, spreadHandlerZ, ih]
    cases fragMap D name with
    | none => rfl
    | some f => cases S.typeDef? f.cond <;> rfl

theorem keysHandler_eq_Z (D : Doc) : ∀ k, keysHandler D k = keysHandlerZ D exhaustedKeys k := by
  intro k
  induction k with
  | zero => rfl
  | succ k ih =>
    funext seen name
    simp only [keysHandler, keysHandlerZ, ih]
    cases fragMap D name <;> rfl

/-- `check_operation` of the model with the two handlers as parameters -/
def checkOperationH (S : Schema) (HS : SpreadHandler) (HK : KeysHandler) (op : OperationDef) : List Diag :=
  if hasExplicitSchema S && (S.explicitRoot? op.kind).isNone then [(ErrKind.NoRootType, op.pos)]
  else match S.typeDef? (S.rootName op.kind) with
    | none => [(ErrKind.UnknownType, op.pos)]
    | some root =>
      checkDirectives S (some op.vars) op.dirs (opLocation op.kind) ++
      checkVariablesAux S [] op.vars ++
      (if op.kind == .subscription && decide ((dedupNames (rootKeys HK [] op.sel)).length > 1)
        then [(ErrKind.SubscriptionMustHaveExactlyOneRootField, op.pos)] else []) ++
      checkSelectionSet S HS [] (some op.vars) root op.sel op.pos

/-- `check_fragment_definition` of the model with the spread handler as parameter -/
def checkFragmentDefinitionH (S : Schema) (HS : SpreadHandler) (used : Bool) (f : FragmentDef) : List Diag :=
  (if used then [] else withoutVariableChecks (checkDirectives S none f.dirs "FRAGMENT_DEFINITION")) ++
  match S.typeDef? f.cond with
  | none => [(ErrKind.UnknownType, f.condPos)]
  | some t =>
    if (directFields t).isSome then
      (if used then []
       else withoutVariableChecks (checkSelectionSet S HS [f.name] none t f.sel f.pos))
    else [(ErrKind.InvalidFragmentTarget, f.condPos)]

def defBodyH (S : Schema) (D : Doc) (HS : SpreadHandler) (HK : KeysHandler) : ExecDef → List Diag
  | .op o => checkOperationH S HS HK o
  | .frag f => checkFragmentDefinitionH S HS ((usedFragments D).contains f.name) f
  | .imp _ => []

def checkDefsH (S : Schema) (D : Doc) (HS : SpreadHandler) (HK : KeysHandler) (opNum : Nat) :
    List ExecDef → List ExecDef → List Diag
  | _, [] => []
  | earlier, d :: rest =>
    defHeader opNum earlier d ++ defBodyH S D HS HK d ++ checkDefsH S D HS HK opNum (earlier ++ [d]) rest

/-- **the model with fuel `n` and out-of-fuel behaviours `Z` (main walk) and `ZK` (root keys)** -/
def checkOpX (S : Schema) (D : Doc) (n : Nat) (Z : SpreadHandler) (ZK : KeysHandler) : List Diag :=
  checkDefsH S D (spreadHandlerZ S D Z n) (keysHandlerZ D ZK n) (opsOf D).length [] D

theorem checkDefs_eq_H (S : Schema) (D : Doc) (opNum : Nat) : ∀ (rest earlier : List ExecDef),
    checkDefs S D opNum earlier rest =
      checkDefsH S D (spreadHandler S D (fuelFor D)) (keysHandler D (fuelFor D)) opNum earlier rest := by
  intro rest
  induction rest with
  | nil => intro _; rfl
  | cons d rest ih =>
    intro earlier
    simp only [checkDefs, checkDefsH, ih]
    congr 2

/-- `checkOp` is the instance of `checkOpX` with the model's fuel and the model's out-of-fuel branches -/
theorem checkOp_eq_X (S : Schema) (D : Doc) :
    checkOp S D = checkOpX S D (fuelFor D) exhaustedSpread exhaustedKeys := by
  unfold checkOp checkOpX
  rw [checkDefs_eq_H, spreadHandler_eq_Z, keysHandler_eq_Z]

/-! ### congruence: a walk only consults its handler with the walk's own stack and variables -/

theorem checkSelections_congr {S : Schema} {H H' : SpreadHandler} {seen : List Name} {vars : Option (List VarDef)}
    (hH : ∀ root name np pos, H seen vars root name np pos = H' seen vars root name np pos) :
    ∀ (k : Nat) (ss : List Selection), Selection.sizeList ss ≤ k → ∀ (root : TypeDef) (fields : List FieldDef),
      checkSelections S H seen vars root fields ss = checkSelections S H' seen vars root fields ss := by
  intro k
  induction k with
  | zero =>
    intro ss hsz root fields
    cases ss with
    | nil => simp only [checkSelections]
    | cons s ss => have := Selection.one_le_size s; simp [Selection.sizeList] at hsz; omega
  | succ k ih =>
    intro ss
    induction ss with
    | nil => intro _ root fields; simp only [checkSelections]
    | cons s ss ihs =>
      intro hsz root fields
      have hs1 := Selection.one_le_size s
      simp only [Selection.sizeList] at hsz
      simp only [checkSelections]
      rw [ihs (by omega) root fields]
      congr 1
      cases s with
      | field al name namePos args dirs sel =>
        rw [checkSelection_field, checkSelection_field]
        cases sel with
        | none => rfl
        | some ss' =>
          have hss : Selection.sizeList ss' ≤ k := by simp [Selection.size] at hsz; omega
          simp only [ih ss' hss]
      | spread name namePos dirs pos => simp only [checkSelection, hH]
      | inline cond dirs ss' pos =>
        have hss : Selection.sizeList ss' ≤ k := by simp [Selection.size] at hsz; omega
        simp only [checkSelection, ih ss' hss]

theorem checkSelectionSet_congr {S : Schema} {H H' : SpreadHandler} {seen : List Name} {vars : Option (List VarDef)}
    (hH : ∀ root name np pos, H seen vars root name np pos = H' seen vars root name np pos)
    (root : TypeDef) (ss : List Selection) (anchor : Pos) :
    checkSelectionSet S H seen vars root ss anchor = checkSelectionSet S H' seen vars root ss anchor := by
  unfold checkSelectionSet
  cases directFields root with
  | none => rfl
  | some fields => exact checkSelections_congr hH _ ss (Nat.le_refl _) root fields

theorem rootKeys_congr {H H' : KeysHandler} {seen : List Name} (hH : ∀ name, H seen name = H' seen name) :
    ∀ (k : Nat) (ss : List Selection), Selection.sizeList ss ≤ k → rootKeys H seen ss = rootKeys H' seen ss := by
  intro k
  induction k with
  | zero =>
    intro ss hsz
    cases ss with
    | nil => simp only [rootKeys]
    | cons s ss => have := Selection.one_le_size s; simp [Selection.sizeList] at hsz; omega
  | succ k ih =>
    intro ss
    induction ss with
    | nil => intro _; simp only [rootKeys]
    | cons s ss ihs =>
      intro hsz
      have hs1 := Selection.one_le_size s
      simp only [Selection.sizeList] at hsz
      simp only [rootKeys]
      rw [ihs (by omega)]
      congr 1
      cases s with
      | field al name namePos args dirs sel =>
        cases al with
        | none => simp only [rootKeysSel]
        | some a => obtain ⟨a, ap⟩ := a; simp only [rootKeysSel]
      | spread name namePos dirs pos => simp only [rootKeysSel, hH]
      | inline cond dirs ss' pos =>
        have hss : Selection.sizeList ss' ≤ k := by simp [Selection.size] at hsz; omega
        simp only [rootKeysSel, ih ss' hss]

/-! ### the stack invariant and the pigeonhole -/

/-- the stack of a walk: pairwise different names of fragment definitions of the document -/
def StackOK (D : Doc) (seen : List Name) : Prop := seen.Nodup ∧ ∀ x ∈ seen, x ∈ fragNamesOf D

theorem stackOK_nil (D : Doc) : StackOK D [] := ⟨List.nodup_nil, fun _ h => by cases h⟩

theorem stackOK_single {D : Doc} {f : FragmentDef} (hf : f ∈ fragsOf D) : StackOK D [f.name] :=
  ⟨by simp, fun x hx => by
    simp only [List.mem_singleton] at hx; subst hx
    exact List.mem_map.mpr ⟨f, hf, rfl⟩⟩

theorem stackOK_push {D : Doc} {seen : List Name} {name : Name} {f : FragmentDef} (h : StackOK D seen)
    (hs : seen.contains name = false) (hm : fragMap D name = some f) : StackOK D (seen ++ [name]) := by
  obtain ⟨hf, hfn⟩ := fragMap_mem hm
  have hnot : name ∉ seen := by simpa using hs
  refine ⟨?_, ?_⟩
  · rw [List.nodup_append]
    refine ⟨h.1, by simp, ?_⟩
    intro a ha b hb
    simp only [List.mem_singleton] at hb
    subst hb
    intro hab; subst hab; exact hnot ha
  · intro x hx
    rcases List.mem_append.mp hx with hx | hx
    · exact h.2 x hx
    · simp only [List.mem_singleton] at hx; subst hx
      exact List.mem_map.mpr ⟨f, hf, hfn⟩

/-- **pigeonhole**: a stack is never longer than the number of fragment definitions -/
theorem stack_length_le {D : Doc} {seen : List Name} (h : StackOK D seen) : seen.length ≤ (fragsOf D).length := by
  have := List.Nodup.length_le_of_subset h.1 (fun x hx => h.2 x hx)
  simpa [fragNamesOf] using this

/-! ### independence of fuel and of the out-of-fuel branch -/

/-- **Fuel adequacy of the main walk.** With a legal stack and `#fragments + 1 ≤ fuel + stack height`, a spread is
    handled the same way whatever the fuel and whatever the out-of-fuel branch does. -/
theorem spreadHandlerZ_indep {S : Schema} {D : Doc} (Z Z' : SpreadHandler) :
    ∀ (k k' : Nat) (seen : List Name), StackOK D seen →
      (fragsOf D).length + 1 ≤ k + seen.length → (fragsOf D).length + 1 ≤ k' + seen.length →
      ∀ vars root name np pos,
        spreadHandlerZ S D Z k seen vars root name np pos = spreadHandlerZ S D Z' k' seen vars root name np pos := by
  intro k
  induction k with
  | zero => intro k' seen hs h1 _; have := stack_length_le hs; omega
  | succ k ih =>
    intro k' seen hs h1 h2 vars root name np pos
    cases k' with
    | zero => have := stack_length_le hs; omega
    | succ k' =>
      simp only [spreadHandlerZ]
      cases hc : seen.contains name with
      | true => rfl
      | false =>
        simp only [Bool.false_eq_true, if_false]
        cases hm : fragMap D name with
        | none => rfl
        | some f =>
          simp only
          have hpush := stackOK_push hs hc hm
          have hlen : (seen ++ [name]).length = seen.length + 1 := by simp
          have hcongr : ∀ ct, checkSelectionSet S (spreadHandlerZ S D Z k) (seen ++ [name]) vars ct f.sel f.pos =
              checkSelectionSet S (spreadHandlerZ S D Z' k') (seen ++ [name]) vars ct f.sel f.pos := by
            intro ct
            apply checkSelectionSet_congr
            intro root' name' np' pos'
            exact ih k' (seen ++ [name]) hpush (by omega) (by omega) vars root' name' np' pos'
          simp only [hcongr]

/-- **Fuel adequacy of the root-key collection.** -/
theorem keysHandlerZ_indep {D : Doc} (ZK ZK' : KeysHandler) :
    ∀ (k k' : Nat) (seen : List Name), StackOK D seen →
      (fragsOf D).length + 1 ≤ k + seen.length → (fragsOf D).length + 1 ≤ k' + seen.length →
      ∀ name, keysHandlerZ D ZK k seen name = keysHandlerZ D ZK' k' seen name := by
  intro k
  induction k with
  | zero => intro k' seen hs h1 _; have := stack_length_le hs; omega
  | succ k ih =>
    intro k' seen hs h1 h2 name
    cases k' with
    | zero => have := stack_length_le hs; omega
    | succ k' =>
      simp only [keysHandlerZ]
      cases hc : seen.contains name with
      | true => rfl
      | false =>
        simp only [Bool.false_eq_true, if_false]
        cases hm : fragMap D name with
        | none => rfl
        | some f =>
          simp only
          have hpush := stackOK_push hs hc hm
          have hlen : (seen ++ [name]).length = seen.length + 1 := by simp
          apply rootKeys_congr _ _ f.sel (Nat.le_refl _)
          intro name'
          exact ih k' (seen ++ [name]) hpush (by omega) (by omega) name'

/-- the loop over the definitions: every definition of `rest` is a definition of the document -/
theorem checkDefsH_indep {S : Schema} {D : Doc} {n n' : Nat} (Z Z' : SpreadHandler) (ZK ZK' : KeysHandler)
    (hn : fuelFor D ≤ n) (hn' : fuelFor D ≤ n') (opNum : Nat) :
    ∀ (rest earlier : List ExecDef), (∀ d ∈ rest, d ∈ D) →
      checkDefsH S D (spreadHandlerZ S D Z n) (keysHandlerZ D ZK n) opNum earlier rest =
      checkDefsH S D (spreadHandlerZ S D Z' n') (keysHandlerZ D ZK' n') opNum earlier rest := by
  unfold fuelFor at hn hn'
  intro rest
  induction rest with
  | nil => intro _ _; rfl
  | cons d rest ih =>
    intro earlier hsub
    simp only [checkDefsH]
    rw [ih _ (fun x hx => hsub x (List.mem_cons_of_mem _ hx))]
    congr 2
    cases d with
    | imp i => rfl
    | op o =>
      simp only [defBodyH, checkOperationH]
      have h1 : rootKeys (keysHandlerZ D ZK n) [] o.sel = rootKeys (keysHandlerZ D ZK' n') [] o.sel :=
        rootKeys_congr (fun name => keysHandlerZ_indep ZK ZK' n n' [] (stackOK_nil D) (by simp; omega) (by simp; omega) name)
          _ o.sel (Nat.le_refl _)
      have h2 : ∀ root, checkSelectionSet S (spreadHandlerZ S D Z n) [] (some o.vars) root o.sel o.pos =
          checkSelectionSet S (spreadHandlerZ S D Z' n') [] (some o.vars) root o.sel o.pos := by
        intro root
        apply checkSelectionSet_congr
        intro root' name np pos
        exact spreadHandlerZ_indep Z Z' n n' [] (stackOK_nil D) (by simp; omega) (by simp; omega) _ root' name np pos
      simp only [h1, h2]
    | frag f =>
      have hf : f ∈ fragsOf D := by
        simp only [fragsOf, List.mem_filterMap]
        exact ⟨_, hsub (.frag f) (by simp), rfl⟩
      simp only [defBodyH, checkFragmentDefinitionH]
      have h2 : ∀ t, checkSelectionSet S (spreadHandlerZ S D Z n) [f.name] none t f.sel f.pos =
          checkSelectionSet S (spreadHandlerZ S D Z' n') [f.name] none t f.sel f.pos := by
        intro t
        apply checkSelectionSet_congr
        intro root' name np pos
        exact spreadHandlerZ_indep Z Z' n n' [f.name] (stackOK_single hf) (by simp; omega) (by simp; omega) _ root' name np pos
      simp only [h2]

/-- **Fuel adequacy of the model.** From the model's fuel `fuelFor D` upwards the diagnostics depend neither on
    the fuel nor on what the out-of-fuel branches do: those branches are never evaluated. -/
theorem checkOpX_indep (S : Schema) (D : Doc) {n n' : Nat} (Z Z' : SpreadHandler) (ZK ZK' : KeysHandler)
    (hn : fuelFor D ≤ n) (hn' : fuelFor D ≤ n') : checkOpX S D n Z ZK = checkOpX S D n' Z' ZK' := by
  unfold checkOpX
  exact checkDefsH_indep Z Z' ZK ZK' hn hn' _ D [] (fun _ h => h)

end NitroVerif.CheckOp
