/-
Variable definitions (helper lemmas for Props/C07Doc): `VariableDefinition = Variable ~ ":" ~ Type ~ DefaultValue? ~
Directives?`, `VariablesDefinition = "(" ~ VariableDefinition+ ~ ")"`, every token followed by its gap.
-/
import NitroVerif.Lemmas.ParseDocType
namespace NitroVerif.DocParse
open NitroVerif.Peg NitroVerif.Gen NitroVerif.Gen.Parts NitroVerif.Build NitroVerif.TypeParse NitroVerif.StringParse
open NitroVerif.Gql NitroVerif.ValueParse NitroVerif.Spec.Lex

set_option linter.unusedSimpArgs false

theorem look_VariablesDefinition : gList.look R.VariablesDefinition =
    some (.normal, .seq (.str ['(']) (.seq (.plus (.call R.VariableDefinition)) (.str [')']))) := rfl
theorem look_VariableDefinition : gList.look R.VariableDefinition = some (.normal, .seq (.call R.Variable)
    (.seq (.str [':']) (.seq (.call R.«Type») (.seq (.opt (.call R.DefaultValue)) (.opt (.call R.Directives)))))) := rfl
theorem look_DefaultValue : gList.look R.DefaultValue = some (.normal, .seq (.str ['=']) (.call R.Value)) := rfl

variable {inp : List Char}

/-! ### default values -/

/-- `= gap value gap`, nothing if there is no default value -/
def rOptDefault (τ : Trivia) (sep : Bool) (p : Nat) : Option Value → List Char
  | none => []
  | some v => tk τ false p ['='] ++ tk τ sep (p + (tk τ false p ['=']).length) (renderV τ (p + (tk τ false p ['=']).length) v)

def wpOptDefault (τ : Trivia) (inp : List Char) (p : Nat) : Option Value → Option Value
  | none => none
  | some v => some (withPosV τ inp (p + (tk τ false p ['=']).length) v)

theorem hd_rOptDefault (τ : Trivia) (sep : Bool) (p : Nat) (d : Option Value) :
    rOptDefault τ sep p d = [] ∨ Hd (· = '=') (rOptDefault τ sep p d) := by
  cases d with
  | none => exact Or.inl rfl
  | some v => exact Or.inr (Hd.append (hd_tk (P := (· = '=')) (hd_cons [] rfl)) _)

theorem rOptDefault_eq_nil {τ : Trivia} {sep : Bool} {p : Nat} {d : Option Value} (h : rOptDefault τ sep p d = []) :
    d = none := by
  cases d with
  | none => rfl
  | some v => exact absurd h (Hd.append (hd_tk (P := (· = '=')) (hd_cons [] rfl)) _).ne_nil

theorem defaultValue_fails {p : Nat} (h : HeadNot (· = '=') (inp.drop p)) :
    Fails gList 4 true (.call R.DefaultValue) .nonAtomic (At inp p) :=
  fails_rule look_DefaultValue (by decide) (by decide) (fails_seq_1 (str_fails h))

theorem valHead_not_trivia' {d : Char} (h : ValHead d) : ¬ trivia d := valHead_not_trivia h

/-- `DefaultValue?`; what follows must not begin with `=`, `.`, `"` -/
theorem optDefaultT (τ : Trivia) (hτ : ∀ q, Ws (τ q)) (d : Option Value) (hwf : ∀ v ∈ d, WFV v) {sep : Bool} {p : Nat}
    {bad : Char → Prop} (hb1 : bad '=') (hb2 : sep = false → ∀ c, c = '.' ∨ c = '"' → bad c)
    (h : HasAt inp p (rOptDefault τ sep p d))
    (hn : Nxt inp bad sep (p + (rOptDefault τ sep p d).length)) :
    ∃ o : Option Pair, RunsK (B (rOptDefault τ sep p d).length + 10) (.opt (.call R.DefaultValue)) (At inp p)
        (At inp (p + (rOptDefault τ sep p d).length)) o.toList ∧
      (∀ x ∈ o, x.rule = R.DefaultValue ∧ CleanP x) ∧
      ∀ fuel, (rOptDefault τ sep p d).length ≤ fuel →
        optDefault (Ctx.spec inp) fuel o = .ok (wpOptDefault τ inp p d) := by
  cases d with
  | none =>
    have hn' : Nxt inp bad sep p := by simpa [rOptDefault] using hn
    refine ⟨none, ?_, by simp, fun _ _ => rfl⟩
    have := runsK_opt_none (defaultValue_fails (headNot_mono (fun c (hc : c = '=') => hc ▸ hb1) hn'.ok)) hn'.tok
    simp only [rOptDefault, List.length_nil, Nat.add_zero, Option.toList_none]
    exact this.mono (by barith)
  | some v =>
    have hv : WFV v := hwf v rfl
    simp only [rOptDefault] at h hn ⊢
    generalize hE : tk τ false p ['='] = tE at *
    generalize hV : tk τ sep (p + tE.length) (renderV τ (p + tE.length) v) = tV at *
    have hlen : p + (tE ++ tV).length = p + tE.length + tV.length := by simp only [List.length_append]; omega
    rw [hlen] at hn ⊢
    have g0 : HasAt inp p tE := h.left
    have g1 : HasAt inp (p + tE.length) tV := h.right
    obtain ⟨c, r, hc, hvh⟩ := renderV_head τ (p + tE.length) v hv
    have hdV : Hd ValHead tV := by rw [← hV]; exact hd_tk ⟨c, r, hc, hvh⟩
    have r0 := strT hτ ['='] (hE ▸ g0) (by rw [hE]; exact tok_of_hd g1 hdV (fun d => valHead_not_trivia))
    have r1 := valueT τ hτ v hv hb2 (hV ▸ g1) (by rw [hV]; exact hn)
    rw [hE] at r0
    rw [hV] at r1
    obtain ⟨e, rD⟩ := runsK_rule look_DefaultValue (by decide) (by decide) (runsK_seq r0 r1)
    refine ⟨some (.mk R.DefaultValue p e [valuePair τ (p + tE.length) v]), ?_, ?_, ?_⟩
    · exact RunsK.cast ((runsK_opt_some rD).mono (by barith)) rfl rfl (by simp [At])
    · intro x hx
      cases hx
      exact ⟨rfl, cleanP_of (by decide) (by decide) ⟨clean_valuePair τ _ v, trivial⟩⟩
    · intro fuel hf
      have hsz := size_le_length τ v.size v (Nat.le_refl _) hv (p + tE.length)
      have hl : (renderV τ (p + tE.length) v).length ≤ tV.length := by rw [← hV]; simp [tk]
      have hb := value_builds τ inp v.size v (Nat.le_refl _) (p + tE.length) _ fuel
        ((hV ▸ g1 : HasAt inp _ (tk τ sep _ _)).left.drop) (by simp only [List.length_append] at hf; omega)
      simp [optDefault, onlyChild, Pair.children, hb, wpOptDefault, hE, bind, Except.bind]

/-! ### one variable definition -/

/-- flags: the gap after the type / after the default value is made non-empty iff nothing of the definition follows -/
def rVarDef (τ : Trivia) (sep : Bool) (p : Nat) (v : VarDef) : List Char :=
  let tS := tk τ false p ['$']
  let tN := tk τ false (p + tS.length) v.name.toList
  let tC := tk τ false (p + tS.length + tN.length) [':']
  let tT := rType τ (sep && v.dirs.isEmpty && v.default.isNone) (p + tS.length + tN.length + tC.length) v.ty
  let tE := rOptDefault τ (sep && v.dirs.isEmpty) (p + tS.length + tN.length + tC.length + tT.length) v.default
  tS ++ (tN ++ (tC ++ (tT ++ (tE ++ rDirs τ sep (p + tS.length + tN.length + tC.length + tT.length + tE.length) v.dirs))))

def wpVarDef (τ : Trivia) (inp : List Char) (sep : Bool) (p : Nat) (v : VarDef) : VarDef :=
  let tS := tk τ false p ['$']
  let tN := tk τ false (p + tS.length) v.name.toList
  let tC := tk τ false (p + tS.length + tN.length) [':']
  let tT := rType τ (sep && v.dirs.isEmpty && v.default.isNone) (p + tS.length + tN.length + tC.length) v.ty
  let tE := rOptDefault τ (sep && v.dirs.isEmpty) (p + tS.length + tN.length + tC.length + tT.length) v.default
  { name := v.name, pos := posAt inp p, ty := wpType τ inp (p + tS.length + tN.length + tC.length) v.ty,
    default := wpOptDefault τ inp (p + tS.length + tN.length + tC.length + tT.length) v.default,
    dirs := wpDirs τ inp sep (p + tS.length + tN.length + tC.length + tT.length + tE.length) v.dirs }

def WFVarDef (v : VarDef) : Prop := validName v.name.toList ∧ WF v.ty ∧ (∀ d ∈ v.default, WFV d) ∧ WFDirs v.dirs

/-- what must not follow a variable definition -/
abbrev varBad : Char → Prop := fun c => c = '!' ∨ c = '=' ∨ c = '@' ∨ c = '(' ∨ c = '.' ∨ c = '"'

theorem hd_rVarDef (τ : Trivia) (sep : Bool) (p : Nat) (v : VarDef) : Hd (· = '$') (rVarDef τ sep p v) := by
  simp only [rVarDef]
  exact Hd.append (hd_tk (P := (· = '$')) (hd_cons [] rfl)) _

theorem p_vardef_nodup : (P_VariableDefinition.map itemRule).Nodup := by decide

theorem varDefT (τ : Trivia) (hτ : ∀ q, Ws (τ q)) (v : VarDef) (hwf : WFVarDef v) {sep : Bool} {p : Nat}
    (h : HasAt inp p (rVarDef τ sep p v)) (hn : Nxt inp varBad sep (p + (rVarDef τ sep p v).length)) :
    ∃ pr, RunsK (B (rVarDef τ sep p v).length + 30) (.call R.VariableDefinition) (At inp p)
        (At inp (p + (rVarDef τ sep p v).length)) [pr] ∧ PairOk R.VariableDefinition p pr ∧
      ∀ fuel, (rVarDef τ sep p v).length ≤ fuel →
        buildVariableDefinition (Ctx.spec inp) fuel pr = .ok (wpVarDef τ inp sep p v) := by
  obtain ⟨hname, hty, hdef, hdirs⟩ := hwf
  simp only [rVarDef, wpVarDef] at h hn ⊢
  generalize hS : tk τ false p ['$'] = tS at *
  generalize hN : tk τ false (p + tS.length) v.name.toList = tN at *
  generalize hC : tk τ false (p + tS.length + tN.length) [':'] = tC at *
  generalize hsT : (sep && v.dirs.isEmpty && v.default.isNone) = sT at *
  generalize hsE : (sep && v.dirs.isEmpty) = sE at *
  generalize hT : rType τ sT (p + tS.length + tN.length + tC.length) v.ty = tT at *
  generalize hE : rOptDefault τ sE (p + tS.length + tN.length + tC.length + tT.length) v.default = tE at *
  generalize hD : rDirs τ sep (p + tS.length + tN.length + tC.length + tT.length + tE.length) v.dirs = tD at *
  have hlen : p + (tS ++ (tN ++ (tC ++ (tT ++ (tE ++ tD))))).length =
      p + tS.length + tN.length + tC.length + tT.length + tE.length + tD.length := by
    simp only [List.length_append]; omega
  rw [hlen] at hn ⊢
  have g0 : HasAt inp p tS := h.left
  have g1 : HasAt inp (p + tS.length) tN := h.right.left
  have g2 : HasAt inp (p + tS.length + tN.length) tC := h.right.right.left
  have g3 : HasAt inp (p + tS.length + tN.length + tC.length) tT := h.right.right.right.left
  have g4 : HasAt inp (p + tS.length + tN.length + tC.length + tT.length) tE := h.right.right.right.right.left
  have g5 : HasAt inp (p + tS.length + tN.length + tC.length + tT.length + tE.length) tD := h.right.right.right.right.right
  have hlS : 1 ≤ tS.length := by rw [← hS]; simp [tk]
  have hlC : 1 ≤ tC.length := by rw [← hC]; simp [tk]
  -- what follows the default value / the type
  have n4 : Nxt inp (fun c => c = '!' ∨ c = '=' ∨ c = '.' ∨ c = '"') sE
      (p + tS.length + tN.length + tC.length + tT.length + tE.length) := by
    refine Nxt.rest g5 hn (hD ▸ hd_rDirs τ sep _ v.dirs) (P := (· = '@')) (by rintro c rfl; decide)
      (fun c hc => hc.elim Or.inl (fun h => h.elim (fun h => Or.inr (Or.inl h))
        (fun h => Or.inr (Or.inr (Or.inr (Or.inr h)))))) ?_
    intro ht hs
    have : v.dirs = [] := rDirs_eq_nil (hD.trans ht)
    rw [← hsE, this] at hs
    simpa using hs
  have n3 : Nxt inp (· = '!') sT (p + tS.length + tN.length + tC.length + tT.length) := by
    refine Nxt.rest g4 n4 (hE ▸ hd_rOptDefault τ sE _ v.default) (P := (· = '=')) (by rintro c rfl; decide)
      (fun c hc => Or.inl hc) ?_
    intro ht hs
    have : v.default = none := rOptDefault_eq_nil (hE.trans ht)
    rw [← hsT, this] at hs
    simpa using hs
  -- `$ name`
  have hdN : Hd nameStart tN := hN ▸ hd_tk (hd_of_validName hname)
  have hdC : Hd (· = ':') tC := hC ▸ hd_tk (hd_cons _ rfl)
  have hdT : Hd (fun d => nameStart d ∨ d = '[') tT := hT ▸ hd_rType τ sT _ v.ty hty
  have r0 := strT hτ ['$'] (hS ▸ g0) (by rw [hS]; exact tok_of_hd g1 hdN (fun d => nameStart_not_trivia))
  have r1 := nameT hτ hname (hN ▸ g1) (bad := fun _ => False)
    (by rw [hN]; exact Nxt.of_hd g2 hdC (by rintro c rfl; decide))
  rw [hS] at r0
  rw [hN] at r1
  obtain ⟨eV, rV⟩ := runsK_rule look_Variable (by decide) (by decide) (runsK_seq r0 r1.toK)
  -- `:`
  have r2 := strT hτ [':'] (hC ▸ g2) (by
    rw [hC]; exact tok_of_hd g3 hdT (by
      rintro c (hc | rfl)
      · exact nameStart_not_trivia hc
      · decide))
  rw [hC] at r2
  -- type, default value, directives
  obtain ⟨prT, rT, hokT, hbT⟩ := (type_all τ hτ v.ty hty).2 sT _ (· = '!') rfl (hT ▸ g3) (by rw [hT]; exact n3)
  rw [hT] at rT hbT
  obtain ⟨oE, rE, hokE, hbE⟩ := optDefaultT τ hτ v.default hdef (bad := fun c => c = '!' ∨ c = '=' ∨ c = '.' ∨ c = '"')
    (Or.inr (Or.inl rfl)) (fun _ c hc => Or.inr (Or.inr hc)) (hE ▸ g4) (by rw [hE]; exact n4)
  rw [hE] at rE hbE
  obtain ⟨oD, rD, hokD, _, hbD⟩ := optDirsT τ hτ v.dirs hdirs (bad := varBad) (Or.inr (Or.inr (Or.inr (Or.inl rfl))))
    (Or.inr (Or.inr (Or.inl rfl))) (hD ▸ g5) (by rw [hD]; exact hn)
  rw [hD] at rD hbD
  obtain ⟨e, rR⟩ := runsK_rule look_VariableDefinition (by decide) (by decide)
    (runsK_seq rV (runsK_seq r2 (runsK_seq rT (runsK_seq rE rD))))
  refine ⟨_, rR.mono (by barith), ?_, ?_⟩
  · refine pairOk_mk (by decide) (by decide) ?_
    simp only [cleanL_append, cleanL_cons, cleanL_nil, and_true, true_and]
    exact ⟨cleanP_of (by decide) (by decide) ⟨cleanP_of (by decide) (by decide) trivial, trivial⟩, hokT.clean,
      clean_opt (fun x hx => (hokE x hx).2), clean_opt (fun x hx => (hokD x hx).clean)⟩
  · intro fuel hf
    have hf' : tS.length + (tN.length + (tC.length + (tT.length + (tE.length + tD.length)))) ≤ fuel := by
      simpa using hf
    have hch : [Pair.mk R.Variable (At inp p).pos eV ([] ++ [Pair.mk R.Name (p + tS.length)
          (p + tS.length + v.name.toList.length) []])] ++ ([] ++ ([prT] ++ (oE.toList ++ oD.toList))) =
        slotPairs [some (Pair.mk R.Variable p eV [Pair.mk R.Name (p + tS.length)
          (p + tS.length + v.name.toList.length) []]), some prT, oE, oD] := by simp [slotPairs, At]
    rw [hch]
    have hm := matchParts_slots P_VariableDefinition _ p_vardef_nodup
      (show slotsOk P_VariableDefinition [some (Pair.mk R.Variable p eV [Pair.mk R.Name (p + tS.length)
          (p + tS.length + v.name.toList.length) []]), some prT, oE, oD] from
        ⟨⟨_, rfl, rfl⟩, ⟨_, rfl, hokT.rule⟩, fun x hx => (hokE x hx).1, fun x hx => (hokD x hx).rule, trivial⟩)
    have hname' := (hN ▸ g1 : HasAt inp _ (tk τ false _ v.name.toList)).left.slice
    simp [buildVariableDefinition, Pair.children, hm, buildVariable, onlyChildOf, onlyChild, OC_Variable,
      hbT fuel (by omega), hbE fuel (by omega), hbD fuel (by omega), asString_spec', toPos_spec', Pair.start, Pair.stop,
      hname', At, bind, Except.bind]

end NitroVerif.DocParse
