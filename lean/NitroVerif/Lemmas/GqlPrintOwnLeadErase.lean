import NitroVerif.Lemmas.GqlPrintOwnLeadDoc
import NitroVerif.Lemmas.ParseDocTsErase
/-!
C16 over nitrogql's own parser, second stage: the document returned for a rendering with leading separators is the given
one up to positions. Copy of the last part of C07's `Lemmas/ParseDocTsErase.lean`.
-/
namespace NitroVerif.DocParseL
open NitroVerif.Peg NitroVerif.Gen NitroVerif.Gen.Parts NitroVerif.Build NitroVerif.TypeParse NitroVerif.StringParse
open NitroVerif.Gql NitroVerif.ValueParse NitroVerif.Spec.Lex NitroVerif.ParseText NitroVerif.DocParse
open NitroVerif.GqlTokens

set_option linter.unusedSimpArgs false
set_option linter.unusedVariables false

theorem tsErase_wpNamesL (τ : Trivia) (inp : List Char) (c : Char) (sep : Bool) (p : Nat) (ns : List (Name × Pos)) :
    eraseNames (wpNamesL τ inp c sep p ns) = eraseNames ns := by
  cases ns with
  | nil => rfl
  | cons n rest => simp only [wpNamesL, tsErase_wpNames]

theorem tsErase_wpTypeDefAny (τ : Trivia) (inp : List Char) (sep : Bool) (p : Nat) (t : TypeDef) (hn : KindNormal t) :
    eraseTypeDef (wpTypeDefAny τ inp sep p t) = eraseTypeDef t := by
  simp only [KindNormal] at hn
  simp only [wpTypeDefAny]
  cases hk : t.kind <;> simp only [hk] at hn ⊢
  · obtain ⟨h1, h2, h3, h4, h5⟩ := hn
    simp [eraseTypeDef, wpScalarDef, tsErase_wpDirs, hk, h1, h2, h3, h4, h5, eraseNames]
  · obtain ⟨h3, h4, h5⟩ := hn
    simp [eraseTypeDef, wpObjDef, tsErase_wpDirs, tsErase_wpNames, tsErase_wpFieldDefs, hk, h3, h4, h5]
  · obtain ⟨h3, h4, h5⟩ := hn
    simp [eraseTypeDef, wpObjDef, tsErase_wpDirs, tsErase_wpNames, tsErase_wpFieldDefs, hk, h3, h4, h5]
  · obtain ⟨h1, h2, h4, h5⟩ := hn
    simp [eraseTypeDef, wpUnionDef, tsErase_wpDirs, tsErase_wpNames, tsErase_wpNamesL, hk, h1, h2, h4, h5]
  · obtain ⟨h1, h2, h3, h5⟩ := hn
    simp [eraseTypeDef, wpEnumDef, tsErase_wpDirs, tsErase_wpEnumVals, hk, h1, h2, h3, h5, eraseNames]
  · obtain ⟨h1, h2, h3, h4⟩ := hn
    simp [eraseTypeDef, wpInputDef, tsErase_wpDirs, tsErase_wpIVDs, hk, h1, h2, h3, h4, eraseNames]

theorem tsErase_wpTypeExtAny (τ : Trivia) (inp : List Char) (sep : Bool) (p : Nat) (t : TypeDef) (hn : KindNormal t)
    (hdesc : t.desc = none) : eraseTypeDef (wpTypeExtAny τ inp sep p t) = eraseTypeDef t := by
  simp only [KindNormal] at hn
  simp only [wpTypeExtAny]
  cases hk : t.kind <;> simp only [hk] at hn ⊢
  · obtain ⟨h1, h2, h3, h4, h5⟩ := hn
    simp [eraseTypeDef, wpScalarExt, tsErase_wpDirs, hk, h1, h2, h3, h4, h5, hdesc, eraseNames]
  · obtain ⟨h3, h4, h5⟩ := hn
    simp [eraseTypeDef, wpObjExt, tsErase_wpDirs, tsErase_wpNames, tsErase_wpFieldDefs, hk, h3, h4, h5, hdesc]
  · obtain ⟨h3, h4, h5⟩ := hn
    simp [eraseTypeDef, wpObjExt, tsErase_wpDirs, tsErase_wpNames, tsErase_wpFieldDefs, hk, h3, h4, h5, hdesc]
  · obtain ⟨h1, h2, h4, h5⟩ := hn
    simp only [wpUnionExt]
    split
    · rename_i hm
      have hm' : t.members = [] := by simpa using hm
      simp [eraseTypeDef, wpUnionExtD, tsErase_wpDirs, hk, h1, h2, h4, h5, hdesc, hm', eraseNames]
    · simp [eraseTypeDef, wpUnionExtM, tsErase_wpDirs, tsErase_wpNames, tsErase_wpNamesL, hk, h1, h2, h4, h5, hdesc]
  · obtain ⟨h1, h2, h3, h5⟩ := hn
    simp [eraseTypeDef, wpEnumExt, tsErase_wpDirs, tsErase_wpEnumVals, hk, h1, h2, h3, h5, hdesc, eraseNames]
  · obtain ⟨h1, h2, h3, h4⟩ := hn
    simp [eraseTypeDef, wpInputExt, tsErase_wpDirs, tsErase_wpIVDs, hk, h1, h2, h3, h4, hdesc, eraseNames]

theorem tsErase_wpRoots (τ : Trivia) (inp : List Char) (p : Nat) (rs : List (OpKind × Name × Pos)) :
    (wpRoots τ inp p rs).map eraseRoot = rs.map eraseRoot :=
  mapItems_map (rRoot τ) true false (wpRoot τ inp) eraseRoot eraseRoot (fun _ _ _ => rfl) rs p

theorem tsErase_wpTsItem (τ : Trivia) (inp : List Char) (sep : Bool) (p : Nat) (it : TsItem) (hn : NormalItem it) :
    eraseTsItem (wpTsItem τ inp sep p it) = eraseTsItem it := by
  cases it with
  | typeDef t => simp [wpTsItem, eraseTsItem, tsErase_wpTypeDefAny τ inp sep p t hn]
  | schemaDef s => simp [wpTsItem, eraseTsItem, eraseSchemaDef, wpSchemaDef, tsErase_wpDirs, tsErase_wpRoots]
  | directiveDef d => simp [wpTsItem, eraseTsItem, eraseDirectiveDef, wpDirectiveDef, tsErase_wpIVDs]
  | schemaExt s =>
    have hd : s.desc = none := hn
    simp [wpTsItem, eraseTsItem, eraseSchemaDef, wpSchemaExt, tsErase_wpDirs, tsErase_wpRoots, hd]
  | typeExt t => simp [wpTsItem, eraseTsItem, tsErase_wpTypeExtAny τ inp sep p t hn.1 hn.2]

theorem mapItems_map_mem {α β γ : Type} (ri : Bool → Nat → α → List Char) (sm sl : Bool) (f : Bool → Nat → α → β)
    (g : β → γ) (g' : α → γ) : ∀ (as : List α) (p : Nat), (∀ a ∈ as, ∀ s p, g (f s p a) = g' a) →
    (mapItems ri sm sl f p as).map g = as.map g' := by
  intro as
  induction as with
  | nil => intro p _; rfl
  | cons a r ih =>
    intro p h
    cases r with
    | nil => simp [mapItems, h a (List.mem_cons_self ..)]
    | cons b r =>
      simp only [mapItems, List.map_cons, h a (List.mem_cons_self ..)]
      rw [ih _ (fun x hx => h x (List.mem_cons_of_mem _ hx))]
      rfl

/-- the document returned by the round trip is the given one up to positions -/
theorem tsErase_wpTsDoc (τ : Trivia) (inp : List Char) (doc : List TsItem) (hn : ∀ d ∈ doc, NormalItem d) :
    eraseTsDoc (wpTsDoc τ inp doc) = eraseTsDoc doc :=
  mapItems_map_mem _ _ _ _ eraseTsItem eraseTsItem doc _ (fun d hd s q => tsErase_wpTsItem τ inp s q d (hn d hd))


end NitroVerif.DocParseL
