import NitroVerif.Lemmas.CheckOpSoundFuel
/-!
Fuel adequacy of the third fuel of the model: `usedFragments D` (= `fragments_used_by_operations`, a worklist loop
in the Rust code) is computed by `usedIter D (#fragments + 2)`, i.e. by iterating `usedStep` a fixed number of
times. Here: that many rounds reach the FIXED POINT of `usedStep` (the state in which the Rust loop stops), so any
larger number of rounds gives the same list.

Argument: the list only grows at its end (`usedStep acc = acc ++ new`, no duplicates). If round `i + 1` still adds
something, the name whose spreads were new was itself added in round `i` and is the name of a fragment definition;
so every productive round after the first is paid for by a NEW defined fragment name in the list, and a
duplicate-free list contains at most `#fragments` of those (pigeonhole).
-/
namespace NitroVerif.CheckOp
open NitroVerif.Gql NitroVerif.CheckCommon NitroVerif.Valid

/-! ### the de-duplicating fold -/

abbrev dedupStep (acc : List Name) (x : Name) : List Name := if acc.contains x then acc else acc ++ [x]

theorem foldl_dedup_nodup : ∀ (xs init : List Name), init.Nodup → (xs.foldl dedupStep init).Nodup := by
  intro xs
  induction xs with
  | nil => intro init h; exact h
  | cons x xs ih =>
    intro init h
    simp only [List.foldl_cons]
    apply ih
    unfold dedupStep
    split
    · exact h
    · rename_i hc
      have hx : x ∉ init := by simpa using hc
      rw [List.nodup_append]
      refine ⟨h, by simp, ?_⟩
      intro a ha b hb
      simp only [List.mem_singleton] at hb
      subst hb
      intro hab; subst hab; exact hx ha

theorem foldl_dedup_fixed : ∀ (xs init : List Name), (∀ x ∈ xs, x ∈ init) → xs.foldl dedupStep init = init := by
  intro xs
  induction xs with
  | nil => intro _ _; rfl
  | cons x xs ih =>
    intro init h
    simp only [List.foldl_cons]
    have hx : init.contains x = true := by simpa using h x (by simp)
    have : dedupStep init x = init := by simp only [dedupStep, hx, if_true]
    rw [this]
    exact ih init (fun y hy => h y (List.mem_cons_of_mem _ hy))

theorem foldl_dedup_of_nodup : ∀ (xs init : List Name), (init ++ xs).Nodup → xs.foldl dedupStep init = init ++ xs := by
  intro xs
  induction xs with
  | nil => intro init _; simp
  | cons x xs ih =>
    intro init h
    simp only [List.foldl_cons]
    have hx : x ∉ init := by
      intro hmem
      rw [List.nodup_append] at h
      exact h.2.2 x hmem x (by simp) rfl
    have hc : init.contains x = false := by simpa using hx
    have : dedupStep init x = init ++ [x] := by simp only [dedupStep, hc, Bool.false_eq_true, if_false]
    rw [this, ih (init ++ [x]) (by simpa using h)]
    simp

theorem dedupNames_nodup (xs : List Name) : (dedupNames xs).Nodup := foldl_dedup_nodup xs [] List.nodup_nil

theorem dedupNames_append_fixed {acc ys : List Name} (hnd : acc.Nodup) (hsub : ∀ y ∈ ys, y ∈ acc) :
    dedupNames (acc ++ ys) = acc := by
  unfold dedupNames
  rw [List.foldl_append]
  have h1 := foldl_dedup_of_nodup acc [] (by simpa using hnd)
  simp only [List.nil_append] at h1
  show List.foldl dedupStep (List.foldl dedupStep [] acc) ys = acc
  rw [h1]
  exact foldl_dedup_fixed ys acc hsub

/-! ### one round -/

/-- the spreads of the fragment named `n` (none when `n` is not defined) -/
def usedNext (D : Doc) (n : Name) : List Name :=
  match fragMap D n with | some f => spreadNames f.sel | none => []

theorem usedStep_eq (D : Doc) (acc : List Name) : usedStep D acc = dedupNames (acc ++ acc.flatMap (usedNext D)) := by
  unfold usedStep
  congr 2

theorem usedStep_nodup (D : Doc) (acc : List Name) : (usedStep D acc).Nodup := dedupNames_nodup _

theorem mem_usedStep {D : Doc} {acc : List Name} {y : Name} :
    y ∈ usedStep D acc ↔ y ∈ acc ∨ y ∈ acc.flatMap (usedNext D) := by
  rw [usedStep_eq]
  constructor
  · intro h; exact List.mem_append.mp (mem_dedupNames h)
  · intro h; exact mem_foldl_dedup_of _ [] (Or.inr (List.mem_append.mpr h))

/-- a round that adds nothing leaves the list unchanged -/
theorem usedStep_fixed_of {D : Doc} {acc : List Name} (hnd : acc.Nodup)
    (hsub : ∀ y ∈ acc.flatMap (usedNext D), y ∈ acc) : usedStep D acc = acc := by
  rw [usedStep_eq]
  exact dedupNames_append_fixed hnd hsub

/-- names of the list that are fragment definitions -/
def definedIn (D : Doc) (acc : List Name) : List Name := acc.filter fun n => (fragMap D n).isSome

theorem definedIn_length_le {D : Doc} {acc : List Name} (hnd : acc.Nodup) : (definedIn D acc).length ≤ (fragsOf D).length := by
  have h1 : (definedIn D acc).Nodup := hnd.sublist List.filter_sublist
  have h2 : definedIn D acc ⊆ fragNamesOf D := by
    intro x hx
    simp only [definedIn, List.mem_filter] at hx
    cases hm : fragMap D x with
    | none => simp [hm] at hx
    | some f =>
      obtain ⟨hf, hfn⟩ := fragMap_mem hm
      exact List.mem_map.mpr ⟨f, hf, hfn⟩
  have := List.Nodup.length_le_of_subset h1 h2
  simpa [fragNamesOf] using this

/-- **Progress.** If the round after `usedStep acc` still adds something, `usedStep acc` contains a defined fragment
    name that `acc` did not contain. -/
theorem usedStep_progress {D : Doc} {acc : List Name} (hacc : acc.Nodup)
    (hne : usedStep D (usedStep D acc) ≠ usedStep D acc) :
    (definedIn D acc).length + 1 ≤ (definedIn D (usedStep D acc)).length := by
  have hex : ∃ x ∈ usedStep D acc, x ∉ acc ∧ (fragMap D x).isSome = true := by
    apply Classical.byContradiction
    intro hno
    apply hne
    apply usedStep_fixed_of (usedStep_nodup D acc)
    intro y hy
    obtain ⟨x, hx, hyx⟩ := List.mem_flatMap.mp hy
    by_cases hxa : x ∈ acc
    · exact mem_usedStep.mpr (Or.inr (List.mem_flatMap.mpr ⟨x, hxa, hyx⟩))
    · exfalso
      apply hno
      refine ⟨x, hx, hxa, ?_⟩
      cases hm : fragMap D x with
      | none => simp [usedNext, hm] at hyx
      | some f => rfl
  obtain ⟨x, hx, hxa, hdef⟩ := hex
  have hnd : (x :: definedIn D acc).Nodup := by
    rw [List.nodup_cons]
    refine ⟨?_, hacc.sublist List.filter_sublist⟩
    intro hmem
    simp only [definedIn, List.mem_filter] at hmem
    exact hxa hmem.1
  have hsub : (x :: definedIn D acc) ⊆ definedIn D (usedStep D acc) := by
    intro y hy
    simp only [definedIn, List.mem_filter]
    rcases List.mem_cons.mp hy with rfl | hy
    · exact ⟨hx, hdef⟩
    · simp only [definedIn, List.mem_filter] at hy
      exact ⟨mem_usedStep.mpr (Or.inl hy.1), hy.2⟩
  have := List.Nodup.length_le_of_subset hnd hsub
  simpa using this

/-! ### iteration -/

theorem usedIter_succ' (D : Doc) : ∀ (k : Nat) (acc : List Name), usedIter D (k + 1) acc = usedStep D (usedIter D k acc) := by
  intro k
  induction k with
  | zero => intro acc; rfl
  | succ k ih => intro acc; rw [usedIter, ih (usedStep D acc)]; rfl

theorem usedIter_fixed {D : Doc} {acc : List Name} (h : usedStep D acc = acc) : ∀ k, usedIter D k acc = acc := by
  intro k
  induction k with
  | zero => rfl
  | succ k ih => rw [usedIter, h, ih]

theorem usedIter_nodup {D : Doc} : ∀ (k : Nat) (acc : List Name), acc.Nodup → (usedIter D k acc).Nodup := by
  intro k
  induction k with
  | zero => intro acc h; exact h
  | succ k ih => intro acc _; exact ih _ (usedStep_nodup D acc)

/-- **Fuel adequacy of `usedIter`.** With `#fragments ≤ rounds + #defined names already in the list`, the round after
    the last one adds nothing. -/
theorem usedIter_stable {D : Doc} : ∀ (k : Nat) (acc : List Name), acc.Nodup →
    (fragsOf D).length ≤ k + (definedIn D acc).length →
    usedStep D (usedStep D (usedIter D k acc)) = usedStep D (usedIter D k acc) := by
  intro k
  induction k with
  | zero =>
    intro acc hnd hk
    apply Classical.byContradiction
    intro hne
    have h1 := usedStep_progress hnd hne
    have h2 := definedIn_length_le (D := D) (usedStep_nodup D acc)
    simp only [usedIter] at h1 h2 hne
    omega
  | succ k ih =>
    intro acc hnd hk
    simp only [usedIter]
    by_cases hq : usedStep D (usedStep D acc) = usedStep D acc
    · rw [usedIter_fixed hq k, hq, hq]
    · have h1 := usedStep_progress hnd hq
      exact ih (usedStep D acc) (usedStep_nodup D acc) (by omega)

/-- from `#fragments + 1` rounds on, more rounds change nothing -/
theorem usedIter_indep {D : Doc} {acc : List Name} (hnd : acc.Nodup) :
    ∀ j, usedIter D ((fragsOf D).length + 1 + j) acc = usedIter D ((fragsOf D).length + 1) acc := by
  have hst := usedIter_stable (D := D) (fragsOf D).length acc hnd (by omega)
  rw [← usedIter_succ'] at hst
  intro j
  induction j with
  | zero => rfl
  | succ j ih =>
    rw [show (fragsOf D).length + 1 + (j + 1) = ((fragsOf D).length + 1 + j) + 1 from by omega, usedIter_succ', ih]
    exact hst

/-- the start list of `usedFragments` -/
def usedStart (D : Doc) : List Name := dedupNames ((opsOf D).flatMap fun o => spreadNames o.sel)

theorem usedFragments_eq (D : Doc) : usedFragments D = usedIter D ((fragsOf D).length + 2) (usedStart D) := rfl

/-- **`usedFragments` does not depend on its fuel**: any number of rounds `n ≥ #fragments + 1` computes it -/
theorem usedFragments_fuel {D : Doc} {n : Nat} (hn : (fragsOf D).length + 1 ≤ n) :
    usedIter D n (usedStart D) = usedFragments D := by
  have hnd : (usedStart D).Nodup := dedupNames_nodup _
  obtain ⟨j, rfl⟩ : ∃ j, n = (fragsOf D).length + 1 + j := ⟨n - ((fragsOf D).length + 1), by omega⟩
  rw [usedIter_indep hnd j, usedFragments_eq, show (fragsOf D).length + 2 = (fragsOf D).length + 1 + 1 from rfl,
    usedIter_indep hnd 1]

/-- **`usedFragments D` is a fixed point of the round function**: the state in which the worklist loop of
    `fragments_used_by_operations` stops -/
theorem usedFragments_fixed (D : Doc) : usedStep D (usedFragments D) = usedFragments D := by
  have hnd : (usedStart D).Nodup := dedupNames_nodup _
  rw [usedFragments_eq, ← usedIter_succ', show (fragsOf D).length + 2 + 1 = (fragsOf D).length + 1 + 2 from by omega,
    usedIter_indep hnd 2, show (fragsOf D).length + 2 = (fragsOf D).length + 1 + 1 from rfl, usedIter_indep hnd 1]

/-! ### the model with ALL THREE fuels as parameters -/

def defBodyHU (S : Schema) (used : List Name) (HS : SpreadHandler) (HK : KeysHandler) : ExecDef → List Diag
  | .op o => checkOperationH S HS HK o
  | .frag f => checkFragmentDefinitionH S HS (used.contains f.name) f
  | .imp _ => []

def checkDefsHU (S : Schema) (used : List Name) (HS : SpreadHandler) (HK : KeysHandler) (opNum : Nat) :
    List ExecDef → List ExecDef → List Diag
  | _, [] => []
  | earlier, d :: rest =>
    defHeader opNum earlier d ++ defBodyHU S used HS HK d ++ checkDefsHU S used HS HK opNum (earlier ++ [d]) rest

/-- **the model with walk fuel `n`, closure rounds `m`, and out-of-fuel behaviours `Z`, `ZK`** -/
def checkOpXU (S : Schema) (D : Doc) (n m : Nat) (Z : SpreadHandler) (ZK : KeysHandler) : List Diag :=
  checkDefsHU S (usedIter D m (usedStart D)) (spreadHandlerZ S D Z n) (keysHandlerZ D ZK n) (opsOf D).length [] D

theorem checkDefsHU_eq (S : Schema) (D : Doc) (HS : SpreadHandler) (HK : KeysHandler) (opNum : Nat) :
    ∀ (rest earlier : List ExecDef),
      checkDefsHU S (usedFragments D) HS HK opNum earlier rest = checkDefsH S D HS HK opNum earlier rest := by
  intro rest
  induction rest with
  | nil => intro _; rfl
  | cons d rest ih =>
    intro earlier
    simp only [checkDefsHU, checkDefsH, ih]
    congr 2

theorem checkOpXU_eq_X (S : Schema) (D : Doc) {n m : Nat} (Z : SpreadHandler) (ZK : KeysHandler)
    (hm : (fragsOf D).length + 1 ≤ m) : checkOpXU S D n m Z ZK = checkOpX S D n Z ZK := by
  unfold checkOpXU checkOpX
  rw [usedFragments_fuel hm, checkDefsHU_eq]

end NitroVerif.CheckOp
