/-
Helper lemmas for C11 (no property statements).

Part 1: the generic registry. A registry fed with a sequence of entries (`orig o` / `ext e`) from the empty map ends,
when no key receives two originals, in the closed form `group`: the keys in order of first occurrence, each with
its (unique) original and the list of its extensions in feeding order.
-/
import NitroVerif.Model.ExtResolve
import NitroVerif.Spec.ExtMerge
set_option linter.unusedSimpArgs false
set_option linter.unusedSectionVars false
namespace NitroVerif.ExtResolve
open NitroVerif.Gql

/-- what is fed to one registry -/
inductive Entry (O E : Type) where
  | orig (o : O)
  | ext (e : E)

section generic
variable {K O E : Type} [DecidableEq K] (kO : O → K) (kE : E → K)

def Entry.key : Entry O E → K
  | .orig o => kO o
  | .ext e => kE e

def origsOf (k : K) (ops : List (Entry O E)) : List O :=
  ops.filterMap fun | .orig o => if kO o = k then some o else none | .ext _ => none

def extsOf (k : K) (ops : List (Entry O E)) : List E :=
  ops.filterMap fun | .ext e => if kE e = k then some e else none | .orig _ => none

def addKey (acc : List K) (k : K) : List K := if k ∈ acc then acc else acc ++ [k]

/-- keys in order of first occurrence -/
def firstKeys (ks : List K) : List K := ks.foldl addKey []

def mkItem (ops : List (Entry O E)) (k : K) : ExtItem K O E :=
  ⟨k, (origsOf kO k ops).head?, extsOf kE k ops⟩

def group (ops : List (Entry O E)) : ExtList K O E :=
  (firstKeys (ops.map (Entry.key kO kE))).map (mkItem kO kE ops)

def applyEntry (l : ExtList K O E) : Entry O E → Except O (ExtList K O E)
  | .orig o => setOriginal l (kO o) o
  | .ext e => .ok (addExtension l (kE e) e)

def runFrom (l : ExtList K O E) : List (Entry O E) → Except O (ExtList K O E)
  | [] => .ok l
  | op :: ops =>
    match applyEntry kO kE l op with
    | .ok l' => runFrom l' ops
    | .error f => .error f

/-! #### firstKeys -/

theorem mem_foldl_addKey (ks : List K) : ∀ (acc : List K) (k : K), k ∈ ks.foldl addKey acc ↔ k ∈ acc ∨ k ∈ ks := by
  induction ks with
  | nil => simp
  | cons a ks ih =>
    intro acc k
    simp only [List.foldl_cons, ih, List.mem_cons]
    unfold addKey
    split <;> rename_i h
    · constructor
      · rintro (h1 | h1)
        · exact Or.inl h1
        · exact Or.inr (Or.inr h1)
      · rintro (h1 | h1 | h1)
        · exact Or.inl h1
        · exact Or.inl (h1 ▸ h)
        · exact Or.inr h1
    · simp only [List.mem_append, List.mem_singleton]
      constructor
      · rintro ((h1 | h1) | h1)
        · exact Or.inl h1
        · exact Or.inr (Or.inl h1)
        · exact Or.inr (Or.inr h1)
      · rintro (h1 | h1 | h1)
        · exact Or.inl (Or.inl h1)
        · exact Or.inl (Or.inr h1)
        · exact Or.inr h1

theorem mem_firstKeys {ks : List K} {k : K} : k ∈ firstKeys ks ↔ k ∈ ks := by
  simp [firstKeys, mem_foldl_addKey]

theorem nodup_foldl_addKey (ks : List K) : ∀ acc : List K, acc.Nodup → (ks.foldl addKey acc).Nodup := by
  induction ks with
  | nil => simp
  | cons a ks ih =>
    intro acc h
    apply ih
    unfold addKey
    split <;> rename_i h1
    · exact h
    · rw [List.nodup_append]
      refine ⟨h, by simp, ?_⟩
      intro x hx y hy
      simp at hy
      subst hy
      intro e
      exact h1 (e ▸ hx)

theorem nodup_firstKeys (ks : List K) : (firstKeys ks).Nodup := nodup_foldl_addKey ks [] (by simp)

theorem firstKeys_snoc (ks : List K) (k : K) : firstKeys (ks ++ [k]) = addKey (firstKeys ks) k := by
  simp [firstKeys, List.foldl_append]

theorem find?_foldl_addKey (p : K → Bool) (ks : List K) :
    ∀ acc : List K, (ks.foldl addKey acc).find? p = (acc.find? p).or (ks.find? p) := by
  induction ks with
  | nil => simp
  | cons a ks ih =>
    intro acc
    simp only [List.foldl_cons, ih]
    unfold addKey
    split <;> rename_i h
    · by_cases hp : p a = true
      · have : (acc.find? p).isSome := by
          rw [List.find?_isSome]; exact ⟨a, h, hp⟩
        cases hf : acc.find? p with
        | none => simp [hf] at this
        | some x => simp
      · simp [List.find?_cons, hp]
    · rw [List.find?_append]
      by_cases hp : p a = true
      · cases hf : acc.find? p <;> simp [List.find?_cons, hp]
      · cases hf : acc.find? p <;> simp [List.find?_cons, hp]

theorem find?_firstKeys (p : K → Bool) (ks : List K) : (firstKeys ks).find? p = ks.find? p := by
  simp [firstKeys, find?_foldl_addKey]

/-! #### one operation on a registry given as `ks.map f` -/

theorem addExtension_map (f : K → ExtItem K O E) (hf : ∀ k, (f k).key = k) (k : K) (e : E) :
    ∀ ks : List K, ks.Nodup →
      addExtension (ks.map f) k e =
        if k ∈ ks then ks.map (fun k' => if k' = k then ⟨k', (f k').original, (f k').extensions ++ [e]⟩ else f k')
        else ks.map f ++ [⟨k, none, [e]⟩] := by
  intro ks
  induction ks with
  | nil => intro _; simp [addExtension]
  | cons a ks ih =>
    intro hnd
    rw [List.nodup_cons] at hnd
    simp only [List.map_cons, addExtension, hf]
    by_cases hak : a = k
    · subst hak
      have : ks.map (fun k' => if k' = a then ⟨k', (f k').original, (f k').extensions ++ [e]⟩ else f k') = ks.map f := by
        apply List.map_congr_left
        intro x hx
        have : x ≠ a := fun h => hnd.1 (h ▸ hx)
        simp [this]
      simp [this]
    · have hka : ¬ k = a := fun h => hak h.symm
      simp only [hak, if_false, ih hnd.2, List.mem_cons, hka, false_or]
      split <;> simp

theorem setOriginal_map (f : K → ExtItem K O E) (hf : ∀ k, (f k).key = k) (k : K) (o : O) :
    ∀ ks : List K, ks.Nodup →
      setOriginal (ks.map f) k o =
        if k ∈ ks then
          (match (f k).original with
           | some first => .error first
           | none => .ok (ks.map (fun k' => if k' = k then ⟨k', some o, (f k').extensions⟩ else f k')))
        else .ok (ks.map f ++ [⟨k, some o, []⟩]) := by
  intro ks
  induction ks with
  | nil => intro _; simp [setOriginal]
  | cons a ks ih =>
    intro hnd
    rw [List.nodup_cons] at hnd
    simp only [List.map_cons, setOriginal, hf]
    by_cases hak : a = k
    · subst hak
      have : ks.map (fun k' => if k' = a then ⟨k', some o, (f k').extensions⟩ else f k') = ks.map f := by
        apply List.map_congr_left
        intro x hx
        have : x ≠ a := fun h => hnd.1 (h ▸ hx)
        simp [this]
      simp only [if_true, List.mem_cons, true_or, this]
      cases (f a).original <;> simp
    · have hka : ¬ k = a := fun h => hak h.symm
      simp only [hak, if_false, ih hnd.2, List.mem_cons, hka, false_or]
      by_cases hmem : k ∈ ks
      · simp only [hmem, if_true]
        cases (f k).original <;> simp
      · simp [hmem]

/-! #### the closed form is preserved by feeding one more entry -/

theorem origsOf_snoc_ext (k : K) (ops : List (Entry O E)) (e : E) :
    origsOf kO k (ops ++ [.ext e]) = origsOf kO k ops := by
  simp [origsOf, List.filterMap_append]

theorem origsOf_snoc_orig (k : K) (ops : List (Entry O E)) (o : O) :
    origsOf kO k (ops ++ [.orig o]) = origsOf kO k ops ++ (if kO o = k then [o] else []) := by
  by_cases h : kO o = k <;> simp [origsOf, List.filterMap_append, h]

theorem extsOf_snoc_orig (k : K) (ops : List (Entry O E)) (o : O) :
    extsOf kE k (ops ++ [.orig o]) = extsOf kE k ops := by
  simp [extsOf, List.filterMap_append]

theorem extsOf_snoc_ext (k : K) (ops : List (Entry O E)) (e : E) :
    extsOf kE k (ops ++ [.ext e]) = extsOf kE k ops ++ (if kE e = k then [e] else []) := by
  by_cases h : kE e = k <;> simp [extsOf, List.filterMap_append, h]

theorem origsOf_eq_nil_of_not_mem {k : K} {ops : List (Entry O E)} (h : k ∉ ops.map (Entry.key kO kE)) :
    origsOf kO k ops = [] := by
  simp only [origsOf, List.filterMap_eq_nil_iff]
  intro op hop
  cases op with
  | ext e => rfl
  | orig o =>
    have : kO o ≠ k := fun heq => h (List.mem_map.mpr ⟨_, hop, by simpa [Entry.key] using heq⟩)
    simp [this]

theorem extsOf_eq_nil_of_not_mem {k : K} {ops : List (Entry O E)} (h : k ∉ ops.map (Entry.key kO kE)) :
    extsOf kE k ops = [] := by
  simp only [extsOf, List.filterMap_eq_nil_iff]
  intro op hop
  cases op with
  | orig o => rfl
  | ext e =>
    have : kE e ≠ k := fun heq => h (List.mem_map.mpr ⟨_, hop, by simpa [Entry.key] using heq⟩)
    simp [this]

theorem addExtension_group (ops : List (Entry O E)) (e : E) :
    addExtension (group kO kE ops) (kE e) e = group kO kE (ops ++ [.ext e]) := by
  unfold group
  rw [addExtension_map _ (fun _ => rfl) _ _ _ (nodup_firstKeys _)]
  simp only [List.map_append, List.map_cons, List.map_nil, Entry.key, firstKeys_snoc]
  unfold addKey
  split <;> rename_i h
  · apply List.map_congr_left
    intro k' _
    simp only [mkItem, origsOf_snoc_ext, extsOf_snoc_ext]
    by_cases hk : k' = kE e
    · subst hk; simp
    · have : ¬ kE e = k' := fun h => hk h.symm
      simp [hk, this]
  · rw [List.map_append]
    congr 1
    · apply List.map_congr_left
      intro k' hk'
      have hne : ¬ kE e = k' := fun heq => h (heq ▸ hk')
      simp [mkItem, origsOf_snoc_ext, extsOf_snoc_ext, hne]
    · have hn : kE e ∉ ops.map (Entry.key kO kE) := fun hm => h (mem_firstKeys.mpr hm)
      simp [mkItem, origsOf_snoc_ext, extsOf_snoc_ext, origsOf_eq_nil_of_not_mem kO kE hn,
        extsOf_eq_nil_of_not_mem kO kE hn]

theorem setOriginal_group (ops : List (Entry O E)) (o : O) :
    setOriginal (group kO kE ops) (kO o) o =
      match (origsOf kO (kO o) ops).head? with
      | some first => .error first
      | none => .ok (group kO kE (ops ++ [.orig o])) := by
  unfold group
  rw [setOriginal_map _ (fun _ => rfl) _ _ _ (nodup_firstKeys _)]
  simp only [List.map_append, List.map_cons, List.map_nil, Entry.key, firstKeys_snoc]
  unfold addKey
  split <;> rename_i h
  · simp only [mkItem]
    cases hh : (origsOf kO (kO o) ops).head? with
    | some first => rfl
    | none =>
      simp only
      congr 1
      apply List.map_congr_left
      intro k' _
      simp only [mkItem, origsOf_snoc_orig, extsOf_snoc_orig]
      by_cases hk : k' = kO o
      · subst hk
        have : origsOf kO (kO o) ops = [] := by simpa using hh
        simp [this]
      · have : ¬ kO o = k' := fun h => hk h.symm
        simp [hk, this]
  · have hn : kO o ∉ ops.map (Entry.key kO kE) := fun hm => h (mem_firstKeys.mpr hm)
    simp only [origsOf_eq_nil_of_not_mem kO kE hn, List.head?_nil]
    congr 1
    rw [List.map_append]
    congr 1
    · apply List.map_congr_left
      intro k' hk'
      have hne : ¬ kO o = k' := fun heq => h (heq ▸ hk')
      simp [mkItem, origsOf_snoc_orig, extsOf_snoc_orig, hne]
    · simp [mkItem, origsOf_snoc_orig, extsOf_snoc_orig, origsOf_eq_nil_of_not_mem kO kE hn,
        extsOf_eq_nil_of_not_mem kO kE hn]

/-! #### feeding a whole sequence -/

/-- the keys of the originals fed, in order -/
def origKeys (ops : List (Entry O E)) : List K :=
  ops.filterMap fun | .orig o => some (kO o) | .ext _ => none

/-- the extensions fed, in order -/
def extsAll (ops : List (Entry O E)) : List E :=
  ops.filterMap fun | .ext e => some e | .orig _ => none

/-- the originals fed, in order -/
def origsAll (ops : List (Entry O E)) : List O :=
  ops.filterMap fun | .orig o => some o | .ext _ => none

theorem origKeys_eq_map (ops : List (Entry O E)) : origKeys kO ops = (origsAll ops).map kO := by
  induction ops with
  | nil => rfl
  | cons op ops ih => cases op <;> simp_all [origKeys, origsAll]

theorem origsOf_eq_filter (k : K) (ops : List (Entry O E)) :
    origsOf kO k ops = (origsAll ops).filter (fun o => kO o = k) := by
  induction ops with
  | nil => rfl
  | cons op ops ih =>
    cases op with
    | ext e => simpa [origsOf, origsAll] using ih
    | orig o =>
      by_cases h : kO o = k
      · simpa [origsOf, origsAll, h, List.filter_cons] using ih
      · simpa [origsOf, origsAll, h, List.filter_cons] using ih

theorem extsOf_eq_filter (k : K) (ops : List (Entry O E)) :
    extsOf kE k ops = (extsAll ops).filter (fun e => kE e = k) := by
  induction ops with
  | nil => rfl
  | cons op ops ih =>
    cases op with
    | orig o => simpa [extsOf, extsAll] using ih
    | ext e =>
      by_cases h : kE e = k
      · simpa [extsOf, extsAll, h, List.filter_cons] using ih
      · simpa [extsOf, extsAll, h, List.filter_cons] using ih

theorem origsOf_eq_nil_iff (k : K) (ops : List (Entry O E)) : origsOf kO k ops = [] ↔ k ∉ origKeys kO ops := by
  rw [origsOf_eq_filter, origKeys_eq_map, List.filter_eq_nil_iff]
  simp only [List.mem_map, decide_eq_true_eq, not_exists, not_and]

theorem group_nil : group kO kE ([] : List (Entry O E)) = [] := by
  simp [group, firstKeys]

theorem runFrom_group (ops : List (Entry O E)) :
    ∀ pre : List (Entry O E), (origKeys kO pre).Nodup →
      (∀ l, runFrom kO kE (group kO kE pre) ops = .ok l →
          l = group kO kE (pre ++ ops) ∧ (origKeys kO (pre ++ ops)).Nodup) ∧
      ((origKeys kO (pre ++ ops)).Nodup → runFrom kO kE (group kO kE pre) ops = .ok (group kO kE (pre ++ ops))) := by
  induction ops with
  | nil => intro pre h; simp [runFrom, h]
  | cons op ops ih =>
    intro pre hpre
    have happ : pre ++ op :: ops = (pre ++ [op]) ++ ops := by simp
    cases op with
    | ext e =>
      have hk : origKeys kO (pre ++ [Entry.ext e]) = origKeys kO pre := by simp [origKeys, List.filterMap_append]
      have := ih (pre ++ [.ext e]) (hk ▸ hpre)
      simp only [runFrom, applyEntry, addExtension_group]
      rw [happ]
      exact this
    | orig o =>
      have hk : origKeys kO (pre ++ [Entry.orig o]) = origKeys kO pre ++ [kO o] := by
        simp [origKeys, List.filterMap_append]
      simp only [runFrom, applyEntry, setOriginal_group]
      cases hh : (origsOf kO (kO o) pre).head? with
      | none =>
        have hnil : origsOf kO (kO o) pre = [] := by simpa using hh
        have hnm := (origsOf_eq_nil_iff kO (kO o) pre).mp hnil
        have hnd : (origKeys kO (pre ++ [Entry.orig o])).Nodup := by
          rw [hk, List.nodup_append]
          refine ⟨hpre, by simp, ?_⟩
          intro a ha b hb
          simp at hb
          subst hb
          exact fun e => hnm (e ▸ ha)
        have := ih (pre ++ [.orig o]) hnd
        simp only
        rw [happ]
        exact this
      | some first =>
        simp only
        refine ⟨fun l h => by simp at h, fun hnd => ?_⟩
        exfalso
        have hne : origsOf kO (kO o) pre ≠ [] := by
          intro h; rw [h] at hh; simp at hh
        have hm : kO o ∈ origKeys kO pre := by
          apply Classical.byContradiction
          intro hc
          exact hne ((origsOf_eq_nil_iff kO (kO o) pre).mpr hc)
        rw [happ] at hnd
        have hnd2 : (origKeys kO (pre ++ [Entry.orig o])).Nodup := by
          have : origKeys kO (pre ++ [Entry.orig o] ++ ops) = origKeys kO (pre ++ [Entry.orig o]) ++ origKeys kO ops := by
            simp [origKeys, List.filterMap_append]
          rw [this, List.nodup_append] at hnd
          exact hnd.1
        rw [hk, List.nodup_append] at hnd2
        exact hnd2.2.2 _ hm _ (by simp) rfl

/-- a registry fed from empty succeeds iff no key receives two originals, and then it is the closed form -/
theorem run_ok_iff (ops : List (Entry O E)) (l : ExtList K O E) :
    runFrom kO kE [] ops = .ok l ↔ (origKeys kO ops).Nodup ∧ l = group kO kE ops := by
  have h := runFrom_group kO kE ops [] (by simp [origKeys])
  rw [group_nil] at h
  simp only [List.nil_append] at h
  constructor
  · intro hr
    have := h.1 l hr
    exact ⟨this.2, this.1⟩
  · rintro ⟨hnd, rfl⟩
    exact h.2 hnd

/-! #### finishing a registry in closed form -/

theorem filterMap_congr' {α β : Type} {f g : α → Option β} :
    ∀ {l : List α}, (∀ x ∈ l, f x = g x) → l.filterMap f = l.filterMap g := by
  intro l
  induction l with
  | nil => intro _; rfl
  | cons a l ih =>
    intro h
    simp only [List.filterMap_cons, h a (by simp)]
    rw [ih (fun x hx => h x (by simp [hx]))]

/-- the (original, extensions) pair of a key -/
def pairOf (ops : List (Entry O E)) (k : K) : Option (O × List E) :=
  (origsOf kO k ops).head?.map fun o => (o, extsOf kE k ops)

theorem intoPairs_map_ok (ops : List (Entry O E)) :
    ∀ ks : List K, (∀ k ∈ ks, k ∈ origKeys kO ops) →
      intoPairs (ks.map (mkItem kO kE ops)) = .ok (ks.filterMap (pairOf kO kE ops)) := by
  intro ks
  induction ks with
  | nil => intro _; rfl
  | cons a ks ih =>
    intro h
    have ha : origsOf kO a ops ≠ [] := fun hn => (origsOf_eq_nil_iff kO a ops).mp hn (h a (by simp))
    cases ho : origsOf kO a ops with
    | nil => exact absurd ho ha
    | cons o r =>
      simp [intoPairs, mkItem, pairOf, ho]
      rw [ih (fun k hk => h k (by simp [hk]))]

theorem intoPairs_map_err (ops : List (Entry O E)) (k : K) (e : E) (he : (extsOf kE k ops).head? = some e) :
    ∀ ks : List K, ks.find? (fun k => decide (k ∉ origKeys kO ops)) = some k →
      intoPairs (ks.map (mkItem kO kE ops)) = .error e := by
  intro ks
  induction ks with
  | nil => intro h; simp at h
  | cons a ks ih =>
    intro h
    by_cases hp : a ∉ origKeys kO ops
    · simp only [List.find?_cons, hp, not_false_eq_true, decide_true] at h
      have hak : a = k := by simpa using h
      subst hak
      have ho := (origsOf_eq_nil_iff kO a ops).mpr hp
      cases hx : extsOf kE a ops with
      | nil => rw [hx] at he; simp at he
      | cons x r =>
        rw [hx] at he
        simp at he
        subst he
        simp [intoPairs, mkItem, ho, hx]
    · have hp' : a ∈ origKeys kO ops := Classical.byContradiction hp
      simp only [List.find?_cons, hp', not_true_eq_false, decide_false] at h
      have ha : origsOf kO a ops ≠ [] := fun hn => (origsOf_eq_nil_iff kO a ops).mp hn hp'
      cases ho : origsOf kO a ops with
      | nil => exact absurd ho ha
      | cons o r =>
        simp [intoPairs, mkItem, ho]
        rw [ih h]

/-- the first extension (in feeding order) whose key has no original, seen from the key sequence -/
theorem find?_orphan (OK : List K) (e : E) :
    ∀ ops : List (Entry O E), (∀ o ∈ origsAll ops, kO o ∈ OK) →
      (extsAll ops).find? (fun e => decide (kE e ∉ OK)) = some e →
        (ops.map (Entry.key kO kE)).find? (fun k => decide (k ∉ OK)) = some (kE e) ∧
          (extsOf kE (kE e) ops).head? = some e := by
  intro ops
  induction ops with
  | nil => intro _ h; simp [extsAll] at h
  | cons op ops ih =>
    intro hO h
    cases op with
    | orig o =>
      have ho : kO o ∈ OK := hO o (by simp [origsAll])
      have := ih (fun o' ho' => hO o' (by simp [origsAll] at ho' ⊢; exact Or.inr ho')) (by simpa [extsAll] using h)
      simpa [Entry.key, ho, extsOf] using this
    | ext e' =>
      by_cases hp : kE e' ∉ OK
      · have : e' = e := by simpa [extsAll, hp] using h
        subst this
        simp [Entry.key, hp, extsOf]
      · have hp' : kE e' ∈ OK := Classical.byContradiction hp
        have h' : (extsAll ops).find? (fun e => decide (kE e ∉ OK)) = some e := by
          simpa [extsAll, hp'] using h
        have := ih (fun o' ho' => hO o' (by simpa [origsAll] using ho')) h'
        have hne : kE e' ≠ kE e := by
          intro heq
          have := List.find?_some h'
          simp at this
          exact this (heq ▸ hp')
        simpa [Entry.key, hp', extsOf, hne] using this

theorem mem_origKeys_of_orig {ops : List (Entry O E)} {o : O} (h : Entry.orig o ∈ ops) : kO o ∈ origKeys kO ops := by
  simp only [origKeys, List.mem_filterMap]
  exact ⟨_, h, rfl⟩

theorem mem_origsAll {ops : List (Entry O E)} {o : O} : o ∈ origsAll ops ↔ Entry.orig o ∈ ops := by
  simp only [origsAll, List.mem_filterMap]
  constructor
  · rintro ⟨op, hop, h⟩
    cases op <;> simp_all
  · intro h; exact ⟨_, h, rfl⟩

theorem mem_extsAll {ops : List (Entry O E)} {e : E} : e ∈ extsAll ops ↔ Entry.ext e ∈ ops := by
  simp only [extsAll, List.mem_filterMap]
  constructor
  · rintro ⟨op, hop, h⟩
    cases op <;> simp_all
  · intro h; exact ⟨_, h, rfl⟩

/-- finishing the closed form: the first orphan extension is the error; without orphans, the pairs of the keys -/
theorem intoPairs_group (ops : List (Entry O E)) :
    intoPairs (group kO kE ops) =
      match (extsAll ops).find? (fun e => decide (kE e ∉ origKeys kO ops)) with
      | some e => .error e
      | none => .ok ((firstKeys (ops.map (Entry.key kO kE))).filterMap (pairOf kO kE ops)) := by
  cases hf : (extsAll ops).find? (fun e => decide (kE e ∉ origKeys kO ops)) with
  | some e =>
    have := find?_orphan kO kE (origKeys kO ops) e ops
      (fun o ho => mem_origKeys_of_orig kO (mem_origsAll.mp ho)) hf
    simp only
    unfold group
    apply intoPairs_map_err kO kE ops (kE e) e this.2
    rw [find?_firstKeys]
    exact this.1
  | none =>
    simp only
    unfold group
    apply intoPairs_map_ok
    intro k hk
    rw [mem_firstKeys, List.mem_map] at hk
    obtain ⟨op, hop, rfl⟩ := hk
    cases op with
    | orig o => exact mem_origKeys_of_orig kO hop
    | ext e =>
      rw [List.find?_eq_none] at hf
      have := hf e (mem_extsAll.mpr hop)
      simpa [Entry.key] using this

/-- the same with any Boolean test for "the key has no original" -/
theorem intoPairs_group' (ops : List (Entry O E)) (p : E → Bool)
    (hp : ∀ e, p e = true ↔ kE e ∉ origKeys kO ops) :
    intoPairs (group kO kE ops) =
      match (extsAll ops).find? p with
      | some e => .error e
      | none => .ok ((firstKeys (ops.map (Entry.key kO kE))).filterMap (pairOf kO kE ops)) := by
  have : p = fun e => decide (kE e ∉ origKeys kO ops) := by
    funext e
    have := hp e
    cases hpe : p e <;> simp_all
  subst this
  exact intoPairs_group kO kE ops

theorem filter_eq_singleton {α : Type} (f : α → K) :
    ∀ (l : List α) (o : α), (l.map f).Nodup → o ∈ l → l.filter (fun x => f x = f o) = [o] := by
  intro l
  induction l with
  | nil => intro o _ h; simp at h
  | cons a l ih =>
    intro o hnd ho
    simp only [List.map_cons, List.nodup_cons, List.mem_map, not_exists, not_and] at hnd
    rcases List.mem_cons.mp ho with rfl | ho'
    · have : l.filter (fun x => f x = f o) = [] := by
        rw [List.filter_eq_nil_iff]
        intro x hx
        have := hnd.1 x hx
        simpa using this
      simp [List.filter_cons, this]
    · have hne : f a ≠ f o := fun h => hnd.1 o ho' h.symm
      simp [List.filter_cons, hne, ih o hnd.2 ho']

/-- without duplicate originals, the pairs of the keys are, up to order, every original with the extensions of its key -/
theorem pairs_perm (ops : List (Entry O E)) (hnd : (origKeys kO ops).Nodup) :
    ((firstKeys (ops.map (Entry.key kO kE))).filterMap (pairOf kO kE ops)).Perm
      ((origsAll ops).map fun o => (o, extsOf kE (kO o) ops)) := by
  -- the keys that have an original
  have h1 : (firstKeys (ops.map (Entry.key kO kE))).filterMap (pairOf kO kE ops) =
      ((firstKeys (ops.map (Entry.key kO kE))).filter (fun k => decide (k ∈ origKeys kO ops))).filterMap
        (pairOf kO kE ops) := by
    rw [List.filterMap_filter]
    apply filterMap_congr'
    intro k _
    by_cases hk : k ∈ origKeys kO ops
    · simp [hk]
    · have := (origsOf_eq_nil_iff kO k ops).mpr hk
      simp [hk, pairOf, this]
  have h2 : ((firstKeys (ops.map (Entry.key kO kE))).filter (fun k => decide (k ∈ origKeys kO ops))).Perm
      (origKeys kO ops) := by
    rw [List.perm_ext_iff_of_nodup ((nodup_firstKeys _).sublist List.filter_sublist) hnd]
    intro k
    simp only [List.mem_filter, mem_firstKeys, decide_eq_true_eq, and_iff_right_iff_imp]
    intro hk
    simp only [origKeys, List.mem_filterMap] at hk
    obtain ⟨op, hop, hk⟩ := hk
    cases op with
    | ext e => simp at hk
    | orig o =>
      simp at hk
      exact List.mem_map.mpr ⟨_, hop, by simpa [Entry.key] using hk⟩
  have h3 : (origKeys kO ops).filterMap (pairOf kO kE ops) =
      (origsAll ops).map fun o => (o, extsOf kE (kO o) ops) := by
    rw [origKeys_eq_map, List.filterMap_map, ← List.filterMap_eq_map]
    apply filterMap_congr'
    intro o ho
    have := filter_eq_singleton kO (origsAll ops) o (by rw [← origKeys_eq_map]; exact hnd) ho
    simp [pairOf, origsOf_eq_filter, this]
  rw [h1, ← h3]
  exact h2.filterMap _

end generic

/-! ### Part 2: the scan loop = seven independent registries fed with the projections of the document -/

open NitroVerif.ExtMerge

theorem sortByPos_perm {α : Type} (f : α → Pos) : ∀ l : List α, (sortByPos f l).Perm l := by
  have hins : ∀ (x : α) (l : List α), (insertByPos f x l).Perm (x :: l) := by
    intro x l
    induction l with
    | nil => simp [insertByPos]
    | cons y ys ih =>
      simp only [insertByPos]
      split
      · exact List.Perm.refl _
      · exact ((List.Perm.cons y ih).trans (List.Perm.swap x y ys))
  intro l
  induction l with
  | nil => simp [sortByPos]
  | cons x xs ih => exact (hins x _).trans (List.Perm.cons x ih)

def projS : TsItem → Option (Entry SchemaDef SchemaDef)
  | .schemaDef s => some (.orig s)
  | .schemaExt s => some (.ext s)
  | .typeDef _ => none
  | .typeExt _ => none
  | .directiveDef _ => none

def projT (k : TypeKind) : TsItem → Option (Entry TypeDef TypeDef)
  | .typeDef t => if t.kind = k then some (.orig t) else none
  | .typeExt t => if t.kind = k then some (.ext t) else none
  | .schemaDef _ => none
  | .schemaExt _ => none
  | .directiveDef _ => none

/-- registry keys (`HasPos::name`) -/
def kS : SchemaDef → Key := fun _ => none
def kT : TypeDef → Key := fun t => some t.name

def opsS (doc : TsDoc) : List (Entry SchemaDef SchemaDef) := doc.filterMap projS
def opsT (k : TypeKind) (doc : TsDoc) : List (Entry TypeDef TypeDef) := doc.filterMap (projT k)

def dirsOf (doc : TsDoc) : List DirectiveDef :=
  doc.filterMap fun | .directiveDef d => some d | _ => none

theorem scan_ok : ∀ (doc : TsDoc) (st st' : St), scan st doc = .ok st' →
    runFrom kS kS st.schema (opsS doc) = .ok st'.schema ∧
    (∀ k, runFrom kT kT (st.types k) (opsT k doc) = .ok (st'.types k)) ∧
    st'.directives = st.directives ++ dirsOf doc := by
  intro doc
  induction doc with
  | nil =>
    intro st st' h
    simp only [scan, Except.ok.injEq] at h
    subst h
    simp [opsS, opsT, runFrom, dirsOf]
  | cons it r ih =>
    intro st st' h
    simp only [scan] at h
    cases hs : step st it with
    | error e => rw [hs] at h; simp at h
    | ok st1 =>
      rw [hs] at h
      have ih' := ih st1 st' h
      cases it with
      | schemaDef s =>
        simp only [step] at hs
        cases hso : setOriginal st.schema none s with
        | error f => rw [hso] at hs; simp at hs
        | ok l =>
          rw [hso] at hs
          simp only [Except.ok.injEq] at hs
          subst hs
          refine ⟨?_, ?_, ?_⟩
          · simp only [opsS, List.filterMap_cons, projS, runFrom, applyEntry, kS, hso]
            exact ih'.1
          · intro k; simpa [opsT, projT, List.filterMap_cons] using ih'.2.1 k
          · simpa [dirsOf] using ih'.2.2
      | typeDef t =>
        simp only [step] at hs
        cases hso : setOriginal (st.types t.kind) (some t.name) t with
        | error f => rw [hso] at hs; simp at hs
        | ok l =>
          rw [hso] at hs
          simp only [Except.ok.injEq] at hs
          subst hs
          refine ⟨?_, ?_, ?_⟩
          · simpa [opsS, projS, List.filterMap_cons] using ih'.1
          · intro k
            have := ih'.2.1 k
            by_cases hk : k = t.kind
            · subst hk
              simp only [opsT, List.filterMap_cons, projT, if_true, runFrom, applyEntry, kT, hso]
              simpa [opsT] using this
            · have hk' : ¬ t.kind = k := fun h => hk h.symm
              simpa [opsT, projT, List.filterMap_cons, hk, hk'] using this
          · simpa [dirsOf] using ih'.2.2
      | directiveDef d =>
        simp only [step, Except.ok.injEq] at hs
        subst hs
        refine ⟨?_, ?_, ?_⟩
        · simpa [opsS, projS, List.filterMap_cons] using ih'.1
        · intro k; simpa [opsT, projT, List.filterMap_cons] using ih'.2.1 k
        · simpa [dirsOf] using ih'.2.2
      | schemaExt s =>
        simp only [step, Except.ok.injEq] at hs
        subst hs
        refine ⟨?_, ?_, ?_⟩
        · simp only [opsS, List.filterMap_cons, projS, runFrom, applyEntry, kS]
          exact ih'.1
        · intro k; simpa [opsT, projT, List.filterMap_cons] using ih'.2.1 k
        · simpa [dirsOf] using ih'.2.2
      | typeExt t =>
        simp only [step, Except.ok.injEq] at hs
        subst hs
        refine ⟨?_, ?_, ?_⟩
        · simpa [opsS, projS, List.filterMap_cons] using ih'.1
        · intro k
          have := ih'.2.1 k
          by_cases hk : k = t.kind
          · subst hk
            simp only [opsT, List.filterMap_cons, projT, if_true, runFrom, applyEntry, kT]
            simpa [opsT] using this
          · have hk' : ¬ t.kind = k := fun h => hk h.symm
            simpa [opsT, projT, List.filterMap_cons, hk, hk'] using this
        · simpa [dirsOf] using ih'.2.2

theorem scan_error : ∀ (doc : TsDoc) (st : St) (e : ExtError), scan st doc = .error e →
    ∃ pre it post st1, doc = pre ++ it :: post ∧ scan st pre = .ok st1 ∧ step st1 it = .error e := by
  intro doc
  induction doc with
  | nil => intro st e h; simp [scan] at h
  | cons it r ih =>
    intro st e h
    simp only [scan] at h
    cases hs : step st it with
    | error e' =>
      rw [hs] at h
      simp only [Except.error.injEq] at h
      subst h
      exact ⟨[], it, r, st, rfl, rfl, hs⟩
    | ok st1 =>
      rw [hs] at h
      obtain ⟨pre, it', post, st2, hd, hp, he⟩ := ih st1 e h
      exact ⟨it :: pre, it', post, st2, by simp [hd], by simp [scan, hs, hp], he⟩

/-- after a successful scan from the empty state every registry is the closed form of its projection -/
theorem scan_empty_ok (doc : TsDoc) (st : St) (h : scan {} doc = .ok st) :
    ((origKeys kS (opsS doc)).Nodup ∧ st.schema = group kS kS (opsS doc)) ∧
    (∀ k, (origKeys kT (opsT k doc)).Nodup ∧ st.types k = group kT kT (opsT k doc)) ∧
    st.directives = dirsOf doc := by
  have := scan_ok doc {} st h
  refine ⟨(run_ok_iff kS kS _ _).mp this.1, fun k => (run_ok_iff kT kT _ _).mp (this.2.1 k), ?_⟩
  simpa using this.2.2

/-! #### projections vs. the specification's views of the document -/

theorem origsAll_opsT (k : TypeKind) (doc : TsDoc) : origsAll (opsT k doc) = typeDefs k doc := by
  induction doc with
  | nil => rfl
  | cons it r ih =>
    cases it with
    | typeDef t =>
      by_cases h : t.kind = k <;> simpa [origsAll, opsT, projT, List.filterMap_cons, typeDefs, h] using ih
    | typeExt t =>
      by_cases h : t.kind = k <;> simpa [origsAll, opsT, projT, List.filterMap_cons, typeDefs, h] using ih
    | _ => simpa [origsAll, opsT, projT, List.filterMap_cons, typeDefs] using ih

theorem extsAll_opsT (k : TypeKind) (doc : TsDoc) : extsAll (opsT k doc) = typeExtsOfKind k doc := by
  induction doc with
  | nil => rfl
  | cons it r ih =>
    cases it with
    | typeDef t =>
      by_cases h : t.kind = k <;> simpa [extsAll, opsT, projT, List.filterMap_cons, typeExtsOfKind, h] using ih
    | typeExt t =>
      by_cases h : t.kind = k <;> simpa [extsAll, opsT, projT, List.filterMap_cons, typeExtsOfKind, h] using ih
    | _ => simpa [extsAll, opsT, projT, List.filterMap_cons, typeExtsOfKind] using ih

theorem extsOf_opsT (k : TypeKind) (n : Name) (doc : TsDoc) : extsOf kT (some n) (opsT k doc) = typeExts k n doc := by
  induction doc with
  | nil => rfl
  | cons it r ih =>
    cases it with
    | typeDef t =>
      by_cases h : t.kind = k <;> simpa [extsOf, opsT, projT, List.filterMap_cons, typeExts, h] using ih
    | typeExt t =>
      by_cases h : t.kind = k
      · by_cases hn : t.name = n <;> simpa [extsOf, opsT, projT, List.filterMap_cons, typeExts, h, hn, kT] using ih
      · simpa [extsOf, opsT, projT, List.filterMap_cons, typeExts, h] using ih
    | _ => simpa [extsOf, opsT, projT, List.filterMap_cons, typeExts] using ih

theorem origKeys_opsT (k : TypeKind) (doc : TsDoc) :
    origKeys kT (opsT k doc) = ((typeDefs k doc).map (·.name)).map some := by
  rw [origKeys_eq_map, origsAll_opsT]
  simp [kT]

theorem nodup_map_some {α : Type} (l : List α) : (l.map some).Nodup ↔ l.Nodup := by
  induction l with
  | nil => simp
  | cons a l ih => simp [List.nodup_cons, ih]

theorem origsAll_opsS (doc : TsDoc) : origsAll (opsS doc) = schemaDefs doc := by
  induction doc with
  | nil => rfl
  | cons it r ih => cases it <;> simpa [origsAll, opsS, projS, List.filterMap_cons, schemaDefs] using ih

theorem extsAll_opsS (doc : TsDoc) : extsAll (opsS doc) = schemaExts doc := by
  induction doc with
  | nil => rfl
  | cons it r ih => cases it <;> simpa [extsAll, opsS, projS, List.filterMap_cons, schemaExts] using ih

theorem extsOf_opsS (doc : TsDoc) : extsOf kS none (opsS doc) = schemaExts doc := by
  rw [extsOf_eq_filter, extsAll_opsS]
  simp [kS]

theorem origKeys_opsS (doc : TsDoc) : origKeys kS (opsS doc) = List.replicate (schemaDefs doc).length none := by
  rw [origKeys_eq_map, origsAll_opsS]
  induction schemaDefs doc with
  | nil => rfl
  | cons a l ih => simp [List.replicate_succ, ih, kS]

theorem nodup_replicate_none (n : Nat) : (List.replicate n (none : Key)).Nodup ↔ n ≤ 1 := by
  match n with
  | 0 => simp
  | 1 => simp
  | n + 2 => simp [List.replicate_succ]

/-! ### Part 3: finishing the registries -/

theorem mergeOf_eq (t : TypeDef) (es : List TypeDef) : mergeOf t.kind (t, es) = refTypeWith t es := by
  cases h : t.kind <;>
    simp [mergeOf, mergeScalar, mergeObject, mergeInterface, mergeUnion, mergeEnum, mergeInput, refTypeWith,
      hasImplements, hasFields, hasMembers, hasValues, hasInputs, h]

theorem mergeSchema_eq (s : SchemaDef) (es : List SchemaDef) : mergeSchema (s, es) = refSchemaWith s es := rfl

theorem mem_typeDefs {k : TypeKind} {doc : TsDoc} {t : TypeDef} :
    t ∈ typeDefs k doc ↔ TsItem.typeDef t ∈ doc ∧ t.kind = k := by
  simp only [typeDefs, List.mem_filterMap]
  constructor
  · rintro ⟨it, hit, h⟩
    cases it with
    | typeDef t' =>
      by_cases hk : t'.kind = k
      · simp [hk] at h; subst h; exact ⟨hit, hk⟩
      · simp [hk] at h
    | _ => simp at h
  · rintro ⟨h, hk⟩
    exact ⟨_, h, by simp [hk]⟩

theorem mem_typeExtsOfKind {k : TypeKind} {doc : TsDoc} {t : TypeDef} :
    t ∈ typeExtsOfKind k doc ↔ TsItem.typeExt t ∈ doc ∧ t.kind = k := by
  simp only [typeExtsOfKind, List.mem_filterMap]
  constructor
  · rintro ⟨it, hit, h⟩
    cases it with
    | typeExt t' =>
      by_cases hk : t'.kind = k
      · simp [hk] at h; subst h; exact ⟨hit, hk⟩
      · simp [hk] at h
    | _ => simp at h
  · rintro ⟨h, hk⟩
    exact ⟨_, h, by simp [hk]⟩

/-- the type registry of kind `k`, finished -/
theorem typeItems_char (doc : TsDoc) (st : St) (k : TypeKind) (hst : st.types k = group kT kT (opsT k doc)) :
    typeItems st k =
      match (typeExtsOfKind k doc).find? (fun e => decide (e.name ∉ (typeDefs k doc).map (·.name))) with
      | some e => .error (.noOriginal (elemName k) e.pos)
      | none => .ok ((sortByPos (fun p => p.1.pos)
          ((firstKeys ((opsT k doc).map (Entry.key kT kT))).filterMap (pairOf kT kT (opsT k doc)))).map
            fun p => .typeDef (mergeOf k p)) := by
  have h := intoPairs_group' kT kT (opsT k doc) (fun e => decide (e.name ∉ (typeDefs k doc).map (·.name)))
    (fun e => by simp [origKeys_opsT, kT])
  rw [extsAll_opsT] at h
  unfold typeItems finishList
  rw [hst, h]
  cases (typeExtsOfKind k doc).find? (fun e => decide (e.name ∉ (typeDefs k doc).map (·.name))) <;> rfl

theorem typeItems_perm (doc : TsDoc) (k : TypeKind) (hnd : ((typeDefs k doc).map (·.name)).Nodup) :
    (((sortByPos (fun p : TypeDef × List TypeDef => p.1.pos)
          ((firstKeys ((opsT k doc).map (Entry.key kT kT))).filterMap (pairOf kT kT (opsT k doc)))).map
            fun p => TsItem.typeDef (mergeOf k p))).Perm
      ((typeDefs k doc).map fun t => .typeDef (refType doc t)) := by
  have hnd' : (origKeys kT (opsT k doc)).Nodup := by rw [origKeys_opsT, nodup_map_some]; exact hnd
  have h := ((sortByPos_perm (fun p : TypeDef × List TypeDef => p.1.pos) _).trans
    (pairs_perm kT kT (opsT k doc) hnd')).map (fun p => TsItem.typeDef (mergeOf k p))
  refine h.trans ?_
  rw [origsAll_opsT, List.map_map]
  have : (typeDefs k doc).map ((fun p => TsItem.typeDef (mergeOf k p)) ∘ fun o => (o, extsOf kT (kT o) (opsT k doc))) =
      (typeDefs k doc).map fun t => .typeDef (refType doc t) := by
    apply List.map_congr_left
    intro t ht
    have hk := (mem_typeDefs.mp ht).2
    subst hk
    simp only [Function.comp, kT, extsOf_opsT, refType, mergeOf_eq]
  rw [this]

theorem schemaItems_char (doc : TsDoc) (st : St) (hst : st.schema = group kS kS (opsS doc)) :
    schemaItems st =
      match (schemaExts doc).find? (fun _ => decide (schemaDefs doc = [])) with
      | some e => .error (.noOriginal "schema" e.pos)
      | none => .ok ((sortByPos (fun p => p.1.pos)
          ((firstKeys ((opsS doc).map (Entry.key kS kS))).filterMap (pairOf kS kS (opsS doc)))).map
            fun p => .schemaDef (mergeSchema p)) := by
  have h := intoPairs_group' kS kS (opsS doc) (fun _ => decide (schemaDefs doc = []))
    (fun e => by rw [origKeys_opsS]; cases schemaDefs doc <;> simp [kS, List.replicate_succ])
  rw [extsAll_opsS] at h
  unfold schemaItems finishList
  rw [hst, h]
  cases (schemaExts doc).find? (fun _ => decide (schemaDefs doc = [])) <;> rfl

theorem schemaItems_perm (doc : TsDoc) (hnd : (schemaDefs doc).length ≤ 1) :
    (((sortByPos (fun p : SchemaDef × List SchemaDef => p.1.pos)
          ((firstKeys ((opsS doc).map (Entry.key kS kS))).filterMap (pairOf kS kS (opsS doc)))).map
            fun p => TsItem.schemaDef (mergeSchema p))).Perm
      ((schemaDefs doc).map fun s => .schemaDef (refSchema doc s)) := by
  have hnd' : (origKeys kS (opsS doc)).Nodup := by rw [origKeys_opsS, nodup_replicate_none]; exact hnd
  have h := ((sortByPos_perm (fun p : SchemaDef × List SchemaDef => p.1.pos) _).trans
    (pairs_perm kS kS (opsS doc) hnd')).map (fun p => TsItem.schemaDef (mergeSchema p))
  refine h.trans ?_
  rw [origsAll_opsS, List.map_map]
  have : (schemaDefs doc).map ((fun p => TsItem.schemaDef (mergeSchema p)) ∘ fun o => (o, extsOf kS (kS o) (opsS doc))) =
      (schemaDefs doc).map fun s => .schemaDef (refSchema doc s) := by
    apply List.map_congr_left
    intro s _
    simp only [Function.comp, kS, extsOf_opsS, refSchema, mergeSchema_eq]
  rw [this]

theorem typeItemsAll_ok (st : St) (X : TypeKind → List TsItem) :
    ∀ ks : List TypeKind, (∀ k ∈ ks, ∃ items, typeItems st k = .ok items ∧ items.Perm (X k)) →
      ∃ all, typeItemsAll st ks = .ok all ∧ all.Perm (ks.flatMap X) := by
  intro ks
  induction ks with
  | nil => intro _; exact ⟨[], rfl, by simp⟩
  | cons k ks ih =>
    intro h
    obtain ⟨items, hi, hp⟩ := h k (by simp)
    obtain ⟨all, ha, hpa⟩ := ih (fun k' hk' => h k' (by simp [hk']))
    exact ⟨items ++ all, by simp [typeItemsAll, hi, ha], by simpa using hp.append hpa⟩

theorem typeItemsAll_ok_inv (st : St) :
    ∀ (ks : List TypeKind) (all : List TsItem), typeItemsAll st ks = .ok all →
      ∀ k ∈ ks, ∃ items, typeItems st k = .ok items := by
  intro ks
  induction ks with
  | nil => intro _ _ k hk; simp at hk
  | cons k ks ih =>
    intro all h k' hk'
    simp only [typeItemsAll] at h
    cases hi : typeItems st k with
    | error e => rw [hi] at h; simp at h
    | ok items =>
      rw [hi] at h
      cases ha : typeItemsAll st ks with
      | error e => rw [ha] at h; simp at h
      | ok all' =>
        rcases List.mem_cons.mp hk' with rfl | hk''
        · exact ⟨_, hi⟩
        · exact ih all' ha k' hk''

theorem typeItemsAll_err (st : St) (e : ExtError) :
    ∀ ks : List TypeKind, typeItemsAll st ks = .error e →
      ∃ a k b, ks = a ++ k :: b ∧ (∀ k' ∈ a, ∃ items, typeItems st k' = .ok items) ∧ typeItems st k = .error e := by
  intro ks
  induction ks with
  | nil => intro h; simp [typeItemsAll] at h
  | cons k ks ih =>
    intro h
    simp only [typeItemsAll] at h
    cases hi : typeItems st k with
    | error e' =>
      rw [hi] at h
      simp only [Except.error.injEq] at h
      subst h
      exact ⟨[], k, ks, rfl, by simp, hi⟩
    | ok items =>
      rw [hi] at h
      cases ha : typeItemsAll st ks with
      | ok all' => rw [ha] at h; simp at h
      | error e' =>
        rw [ha] at h
        simp only [Except.error.injEq] at h
        subst h
        obtain ⟨a, k2, b, hks, hok, herr⟩ := ih ha
        refine ⟨k :: a, k2, b, by simp [hks], ?_, herr⟩
        intro k' hk'
        rcases List.mem_cons.mp hk' with rfl | hk''
        · exact ⟨_, hi⟩
        · exact hok k' hk''

/-! ### Part 4: a list is, up to order, the concatenation of its classes -/

theorem flatMap_if_neg {α C : Type} [DecidableEq C] (g : C → List α) (a : α) (c0 : C) :
    ∀ cs : List C, c0 ∉ cs → (cs.flatMap fun c => if c = c0 then a :: g c else g c) = cs.flatMap g := by
  intro cs
  induction cs with
  | nil => intro _; rfl
  | cons d ds ih =>
    intro h
    have hd : d ≠ c0 := fun e => h (by simp [e])
    simp only [List.flatMap_cons, hd, if_false]
    rw [ih (fun hm => h (by simp [hm]))]

theorem flatMap_insert_perm {α C : Type} [DecidableEq C] (g : C → List α) (a : α) (c0 : C) :
    ∀ cs : List C, cs.Nodup → c0 ∈ cs →
      (cs.flatMap fun c => if c = c0 then a :: g c else g c).Perm (a :: cs.flatMap g) := by
  intro cs
  induction cs with
  | nil => intro _ h; simp at h
  | cons c cs ih =>
    intro hnd hm
    rw [List.nodup_cons] at hnd
    by_cases hc : c = c0
    · subst hc
      simp [List.flatMap_cons, flatMap_if_neg g a c cs hnd.1]
    · have hm' : c0 ∈ cs := by
        rcases List.mem_cons.mp hm with h | h
        · exact absurd h.symm hc
        · exact h
      simp only [List.flatMap_cons, hc, if_false]
      exact ((ih hnd.2 hm').append_left (g c)).trans List.perm_middle

theorem filterMap_partition_perm {α β C : Type} [DecidableEq C] (cls : α → C) (f : α → Option β)
    (cs : List C) (hnd : cs.Nodup) :
    ∀ l : List α, (∀ x ∈ l, cls x ∈ cs) →
      (l.filterMap f).Perm (cs.flatMap fun c => l.filterMap fun x => if cls x = c then f x else none) := by
  intro l
  induction l with
  | nil =>
    intro _
    have : (cs.flatMap fun _ => ([] : List β)) = [] := by
      induction cs with
      | nil => rfl
      | cons c cs ih => simp
    simp
  | cons x l ih =>
    intro hx
    have ih' := ih (fun y hy => hx y (by simp [hy]))
    cases hfx : f x with
    | none =>
      have : (fun c => (x :: l).filterMap fun y => if cls y = c then f y else none) =
          (fun c => l.filterMap fun y => if cls y = c then f y else none) := by
        funext c
        simp [List.filterMap_cons, hfx]
      rw [this]
      simpa [List.filterMap_cons, hfx] using ih'
    | some b =>
      have : (fun c => (x :: l).filterMap fun y => if cls y = c then f y else none) =
          (fun c => if c = cls x then b :: (l.filterMap fun y => if cls y = c then f y else none)
            else l.filterMap fun y => if cls y = c then f y else none) := by
        funext c
        by_cases hc : cls x = c
        · subst hc; simp [List.filterMap_cons, hfx]
        · have hc' : ¬ c = cls x := fun h => hc h.symm
          simp [List.filterMap_cons, hc, hc']
      rw [this]
      have hp := flatMap_insert_perm (fun c => l.filterMap fun y => if cls y = c then f y else none) b (cls x) cs hnd
        (hx x (by simp))
      simp only [List.filterMap_cons, hfx]
      exact (List.Perm.cons b ih').trans hp.symm

/-- class of an item: `none` = the schema registry, `some k` = the registry of kind `k` -/
def cls : TsItem → Option TypeKind
  | .typeDef t => some t.kind
  | .typeExt t => some t.kind
  | .schemaDef _ => none
  | .schemaExt _ => none
  | .directiveDef _ => none

theorem classS_eq (D : TsDoc) : ∀ doc : TsDoc,
    (doc.filterMap fun x => if cls x = none then refItem? D x else none) =
      (schemaDefs doc).map fun s => .schemaDef (refSchema D s) := by
  intro doc
  induction doc with
  | nil => rfl
  | cons it r ih => cases it <;> simpa [List.filterMap_cons, cls, refItem?, schemaDefs] using ih

theorem classT_eq (D : TsDoc) (k : TypeKind) : ∀ doc : TsDoc,
    (doc.filterMap fun x => if cls x = some k then refItem? D x else none) =
      (typeDefs k doc).map fun t => .typeDef (refType D t) := by
  intro doc
  induction doc with
  | nil => rfl
  | cons it r ih =>
    cases it with
    | typeDef t => by_cases h : t.kind = k <;> simpa [List.filterMap_cons, cls, refItem?, typeDefs, h] using ih
    | typeExt t => by_cases h : t.kind = k <;> simpa [List.filterMap_cons, cls, refItem?, typeDefs, h] using ih
    | _ => simpa [List.filterMap_cons, cls, refItem?, typeDefs] using ih

/-- the reference merge (document order) is, up to order, its schema part followed by its parts per kind -/
theorem refMerge_perm (doc : TsDoc) :
    (refMerge doc).Perm
      (((schemaDefs doc).map fun s => TsItem.schemaDef (refSchema doc s)) ++
        kindOrder.flatMap fun k => (typeDefs k doc).map fun t => TsItem.typeDef (refType doc t)) := by
  have h := filterMap_partition_perm cls (refItem? doc) (none :: kindOrder.map some) (by decide) doc
    (by intro x _; cases hx : cls x with
        | none => simp
        | some k => cases k <;> simp [kindOrder])
  unfold refMerge
  refine h.trans ?_
  simp only [List.flatMap_cons, classS_eq, List.flatMap_map, classT_eq]
  exact List.Perm.refl _

/-! ### Part 5: `resolve` characterised -/

/-- what the per-kind part of the output is compared with -/
def kindRef (doc : TsDoc) (k : TypeKind) : List TsItem := (typeDefs k doc).map fun t => .typeDef (refType doc t)

def schemaRef (doc : TsDoc) : List TsItem := (schemaDefs doc).map fun s => .schemaDef (refSchema doc s)

theorem map_dirsOf (doc : TsDoc) : (dirsOf doc).map TsItem.directiveDef = directiveDefs doc := by
  unfold dirsOf directiveDefs
  induction doc with
  | nil => rfl
  | cons it r ih => cases it <;> simp_all [List.filterMap_cons]

theorem length_defs (D : TsDoc) : ∀ l : TsDoc,
    (directiveDefs l).length + (l.filterMap (refItem? D)).length = (l.filter fun it => !isExt it).length := by
  intro l
  induction l with
  | nil => rfl
  | cons x r ih =>
    cases x <;> simp [directiveDefs, refItem?, isExt, List.filterMap_cons, List.filter_cons] at ih ⊢ <;> omega

theorem schemaDefs_append (a b : TsDoc) : schemaDefs (a ++ b) = schemaDefs a ++ schemaDefs b := by
  simp [schemaDefs, List.filterMap_append]

theorem typeDefs_append (k : TypeKind) (a b : TsDoc) : typeDefs k (a ++ b) = typeDefs k a ++ typeDefs k b := by
  simp [typeDefs, List.filterMap_append]

theorem mem_kindOrder (k : TypeKind) : k ∈ kindOrder := by cases k <;> simp [kindOrder]

theorem noDup_of_scan (doc : TsDoc) (st : St) (h : scan {} doc = .ok st) : NoDupOriginal doc := by
  have hc := scan_empty_ok doc st h
  refine ⟨?_, fun k => ?_⟩
  · have := hc.1.1
    rwa [origKeys_opsS, nodup_replicate_none] at this
  · have := (hc.2.1 k).1
    rwa [origKeys_opsT, nodup_map_some] at this

theorem typeItems_ok (doc : TsDoc) (st : St) (k : TypeKind) (hst : st.types k = group kT kT (opsT k doc))
    (hnd : ((typeDefs k doc).map (·.name)).Nodup) (items : List TsItem) (h : typeItems st k = .ok items) :
    (∀ e ∈ typeExtsOfKind k doc, e.name ∈ (typeDefs k doc).map (·.name)) ∧ items.Perm (kindRef doc k) := by
  rw [typeItems_char doc st k hst] at h
  cases hf : (typeExtsOfKind k doc).find? (fun e => decide (e.name ∉ (typeDefs k doc).map (·.name))) with
  | some e => rw [hf] at h; simp at h
  | none =>
    rw [hf] at h
    simp only [Except.ok.injEq] at h
    subst h
    refine ⟨?_, typeItems_perm doc k hnd⟩
    intro e he
    have := List.find?_eq_none.mp hf e he
    simpa using this

theorem typeItems_ok_of (doc : TsDoc) (st : St) (k : TypeKind) (hst : st.types k = group kT kT (opsT k doc))
    (hnd : ((typeDefs k doc).map (·.name)).Nodup)
    (hno : ∀ e ∈ typeExtsOfKind k doc, e.name ∈ (typeDefs k doc).map (·.name)) :
    ∃ items, typeItems st k = .ok items ∧ items.Perm (kindRef doc k) := by
  rw [typeItems_char doc st k hst]
  have hf : (typeExtsOfKind k doc).find? (fun e => decide (e.name ∉ (typeDefs k doc).map (·.name))) = none := by
    rw [List.find?_eq_none]
    intro e he
    simpa using hno e he
  rw [hf]
  exact ⟨_, rfl, typeItems_perm doc k hnd⟩

theorem typeItems_err (doc : TsDoc) (st : St) (k : TypeKind) (hst : st.types k = group kT kT (opsT k doc))
    (e : ExtError) (h : typeItems st k = .error e) :
    ∃ x, (typeExtsOfKind k doc).find? (fun e => decide (e.name ∉ (typeDefs k doc).map (·.name))) = some x ∧
      e = .noOriginal (elemName k) x.pos := by
  rw [typeItems_char doc st k hst] at h
  cases hf : (typeExtsOfKind k doc).find? (fun e => decide (e.name ∉ (typeDefs k doc).map (·.name))) with
  | none => rw [hf] at h; simp at h
  | some x =>
    rw [hf] at h
    simp only [Except.error.injEq] at h
    exact ⟨x, rfl, h.symm⟩

theorem find?_const {α : Type} (b : Bool) (l : List α) : l.find? (fun _ => b) = if b then l.head? else none := by
  cases l with
  | nil => cases b <;> rfl
  | cons a l => cases b <;> simp [List.find?_cons]

theorem schemaItems_ok (doc : TsDoc) (st : St) (hst : st.schema = group kS kS (opsS doc))
    (hnd : (schemaDefs doc).length ≤ 1) (items : List TsItem) (h : schemaItems st = .ok items) :
    (schemaExts doc ≠ [] → schemaDefs doc ≠ []) ∧ items.Perm (schemaRef doc) := by
  rw [schemaItems_char doc st hst, find?_const] at h
  by_cases hd : schemaDefs doc = []
  · simp only [hd, decide_true, if_true] at h
    cases hx : (schemaExts doc).head? with
    | some x => rw [hx] at h; simp at h
    | none =>
      have : schemaExts doc = [] := List.head?_eq_none_iff.mp hx
      rw [hx] at h
      simp only [Except.ok.injEq] at h
      subst h
      exact ⟨fun hne => absurd this hne, schemaItems_perm doc hnd⟩
  · simp only [hd, decide_false] at h
    simp only [Bool.false_eq_true, if_false, Except.ok.injEq] at h
    subst h
    exact ⟨fun _ => hd, schemaItems_perm doc hnd⟩

theorem schemaItems_ok_of (doc : TsDoc) (st : St) (hst : st.schema = group kS kS (opsS doc))
    (hnd : (schemaDefs doc).length ≤ 1) (hno : schemaExts doc ≠ [] → schemaDefs doc ≠ []) :
    ∃ items, schemaItems st = .ok items ∧ items.Perm (schemaRef doc) := by
  rw [schemaItems_char doc st hst, find?_const]
  by_cases hd : schemaDefs doc = []
  · have : schemaExts doc = [] := Classical.byContradiction fun hne => hno hne hd
    simp only [hd, decide_true, if_true, this, List.head?_nil]
    exact ⟨_, rfl, schemaItems_perm doc hnd⟩
  · simp only [hd, decide_false, Bool.false_eq_true, if_false]
    exact ⟨_, rfl, schemaItems_perm doc hnd⟩

theorem schemaItems_err (doc : TsDoc) (st : St) (hst : st.schema = group kS kS (opsS doc))
    (e : ExtError) (h : schemaItems st = .error e) :
    ∃ x, schemaDefs doc = [] ∧ (schemaExts doc).head? = some x ∧ e = .noOriginal "schema" x.pos := by
  rw [schemaItems_char doc st hst, find?_const] at h
  by_cases hd : schemaDefs doc = []
  · simp only [hd, decide_true, if_true] at h
    cases hx : (schemaExts doc).head? with
    | none => rw [hx] at h; simp at h
    | some x =>
      rw [hx] at h
      simp only [Except.error.injEq] at h
      exact ⟨x, hd, rfl, h.symm⟩
  · simp [hd] at h

/-- success of `resolve`: the two failure conditions are absent and the output is the directive definitions,
    then (up to order) the merged schema definitions, then (up to order within each kind) the merged definitions -/
theorem resolve_ok (doc out : TsDoc) (h : resolve doc = .ok out) :
    NoDupOriginal doc ∧ NoOrphan doc ∧
    ∃ ss ts, out = (dirsOf doc).map TsItem.directiveDef ++ ss ++ ts ∧ ss.Perm (schemaRef doc) ∧
      ts.Perm (kindOrder.flatMap (kindRef doc)) := by
  unfold resolve at h
  cases hs : scan {} doc with
  | error e => rw [hs] at h; simp at h
  | ok st =>
    rw [hs] at h
    dsimp only at h
    have hnd := noDup_of_scan doc st hs
    have hc := scan_empty_ok doc st hs
    cases hss : schemaItems st with
    | error e => rw [hss] at h; simp at h
    | ok ss =>
      rw [hss] at h
      dsimp only at h
      cases hts : typeItemsAll st kindOrder with
      | error e => rw [hts] at h; simp at h
      | ok ts =>
        rw [hts] at h
        simp only [Except.ok.injEq] at h
        have hS := schemaItems_ok doc st hc.1.2 hnd.1 ss hss
        have hT : ∀ k, ∃ items, typeItems st k = .ok items := fun k =>
          typeItemsAll_ok_inv st kindOrder ts hts k (mem_kindOrder k)
        have hT' : ∀ k, (∀ e ∈ typeExtsOfKind k doc, e.name ∈ (typeDefs k doc).map (·.name)) ∧
            ∃ items, typeItems st k = .ok items ∧ items.Perm (kindRef doc k) := by
          intro k
          obtain ⟨items, hi⟩ := hT k
          have := typeItems_ok doc st k (hc.2.1 k).2 (hnd.2 k) items hi
          exact ⟨this.1, items, hi, this.2⟩
        obtain ⟨all, ha, hp⟩ := typeItemsAll_ok st (kindRef doc) kindOrder (fun k _ => (hT' k).2)
        rw [hts] at ha
        simp only [Except.ok.injEq] at ha
        subst ha
        refine ⟨hnd, ⟨hS.1, fun k => (hT' k).1⟩, ss, ts, ?_, hS.2, hp⟩
        rw [← h, hc.2.2]

/-- the first pass fails exactly at the first definition whose registry entry already has an original -/
theorem scan_err (doc : TsDoc) (e : ExtError) (h : scan {} doc = .error e) :
    ∃ pre it post, doc = pre ++ it :: post ∧ NoDupOriginal pre ∧
      ((∃ s f, it = .schemaDef s ∧ schemaDefs pre = [f] ∧ e = .duplicateOriginal "schema" "" f.pos s.pos) ∨
       (∃ t f, it = .typeDef t ∧ (typeDefs t.kind pre).find? (fun x => decide (x.name = t.name)) = some f ∧
          e = .duplicateOriginal (elemName t.kind) t.name f.pos t.pos)) := by
  obtain ⟨pre, it, post, st1, hd, hp, he⟩ := scan_error doc {} e h
  have hnd := noDup_of_scan pre st1 hp
  have hc := scan_empty_ok pre st1 hp
  refine ⟨pre, it, post, hd, hnd, ?_⟩
  cases it with
  | schemaDef s =>
    left
    simp only [step] at he
    have hg := setOriginal_group kS kS (opsS pre) s
    rw [← hc.1.2] at hg
    have hk : kS s = none := rfl
    rw [hk] at hg
    rw [hg, origsOf_eq_filter, origsAll_opsS] at he
    have hfil : (schemaDefs pre).filter (fun o => decide (kS o = none)) = schemaDefs pre := by
      rw [List.filter_eq_self]; intro a _; simp [kS]
    rw [hfil] at he
    cases hsd : schemaDefs pre with
    | nil => rw [hsd] at he; simp at he
    | cons f r =>
      rw [hsd] at he
      simp only [List.head?_cons, Except.error.injEq] at he
      have hlen := hnd.1
      rw [hsd] at hlen
      have hr : r = [] := by
        cases r with
        | nil => rfl
        | cons _ _ => simp at hlen
      subst hr
      exact ⟨s, f, rfl, rfl, he.symm⟩
  | typeDef t =>
    right
    simp only [step] at he
    have hg := setOriginal_group kT kT (opsT t.kind pre) t
    rw [← (hc.2.1 t.kind).2] at hg
    have hk : kT t = some t.name := rfl
    rw [hk] at hg
    rw [hg, origsOf_eq_filter, origsAll_opsT, List.head?_filter] at he
    have hfind : (typeDefs t.kind pre).find? (fun o => decide (kT o = some t.name)) =
        (typeDefs t.kind pre).find? (fun x => decide (x.name = t.name)) := by
      congr 1; funext x; simp [kT]
    rw [hfind] at he
    cases hf : (typeDefs t.kind pre).find? (fun x => decide (x.name = t.name)) with
    | none => rw [hf] at he; simp at he
    | some f =>
      rw [hf] at he
      simp only [Except.error.injEq] at he
      exact ⟨t, f, rfl, hf, he.symm⟩
  | directiveDef d => simp [step] at he
  | schemaExt s => simp [step] at he
  | typeExt t => simp [step] at he

theorem noDup_of_append_left {pre post : TsDoc} (h : NoDupOriginal (pre ++ post)) : NoDupOriginal pre := by
  refine ⟨?_, fun k => ?_⟩
  · have := h.1
    simp only [schemaDefs, List.filterMap_append, List.length_append] at this ⊢
    omega
  · have := h.2 k
    simp only [typeDefs, List.filterMap_append, List.map_append, List.nodup_append] at this ⊢
    exact this.1

/-- the first pass succeeds when no original is duplicated -/
theorem scan_ok_of (doc : TsDoc) (hnd : NoDupOriginal doc) : ∃ st, scan {} doc = .ok st := by
  cases hs : scan {} doc with
  | ok st => exact ⟨st, rfl⟩
  | error e =>
    exfalso
    obtain ⟨pre, it, post, hd, _, hcase⟩ := scan_err doc e hs
    subst hd
    rcases hcase with ⟨s, f, rfl, hf, _⟩ | ⟨t, f, rfl, hf, _⟩
    · have := hnd.1
      simp [schemaDefs, List.filterMap_append] at this hf
      rw [hf] at this
      simp at this
      omega
    · have := hnd.2 t.kind
      have hmem := List.mem_of_find?_eq_some hf
      have hname : f.name = t.name := by simpa using List.find?_some hf
      simp only [typeDefs, List.filterMap_append, List.filterMap_cons, if_true, List.map_append, List.map_cons,
        List.nodup_append] at this
      exact this.2.2 f.name (List.mem_map.mpr ⟨f, hmem, rfl⟩) t.name (by simp) hname

theorem resolve_ok_of (doc : TsDoc) (hnd : NoDupOriginal doc) (hno : NoOrphan doc) : ∃ out, resolve doc = .ok out := by
  obtain ⟨st, hs⟩ := scan_ok_of doc hnd
  have hc := scan_empty_ok doc st hs
  obtain ⟨ss, hss, _⟩ := schemaItems_ok_of doc st hc.1.2 hnd.1 hno.1
  obtain ⟨ts, hts, _⟩ := typeItemsAll_ok st (kindRef doc) kindOrder
    (fun k _ => typeItems_ok_of doc st k (hc.2.1 k).2 (hnd.2 k) (hno.2 k))
  exact ⟨st.directives.map .directiveDef ++ ss ++ ts, by simp [resolve, hs, hss, hts]⟩

/-- failure of `resolve`, both ways it can happen -/
theorem resolve_err (doc : TsDoc) (e : ExtError) (h : resolve doc = .error e) :
    (∃ pre it post, doc = pre ++ it :: post ∧ NoDupOriginal pre ∧
      ((∃ s f, it = .schemaDef s ∧ schemaDefs pre = [f] ∧ e = .duplicateOriginal "schema" "" f.pos s.pos) ∨
       (∃ t f, it = .typeDef t ∧ (typeDefs t.kind pre).find? (fun x => decide (x.name = t.name)) = some f ∧
          e = .duplicateOriginal (elemName t.kind) t.name f.pos t.pos))) ∨
    (NoDupOriginal doc ∧
      ((∃ x, schemaDefs doc = [] ∧ (schemaExts doc).head? = some x ∧ e = .noOriginal "schema" x.pos) ∨
       ((schemaExts doc ≠ [] → schemaDefs doc ≠ []) ∧
        ∃ a k b x, kindOrder = a ++ k :: b ∧
          (∀ k' ∈ a, ∀ y ∈ typeExtsOfKind k' doc, y.name ∈ (typeDefs k' doc).map (·.name)) ∧
          (typeExtsOfKind k doc).find? (fun y => decide (y.name ∉ (typeDefs k doc).map (·.name))) = some x ∧
          e = .noOriginal (elemName k) x.pos))) := by
  unfold resolve at h
  cases hs : scan {} doc with
  | error e' =>
    rw [hs] at h
    simp only [Except.error.injEq] at h
    subst h
    exact Or.inl (scan_err doc _ hs)
  | ok st =>
    right
    rw [hs] at h
    dsimp only at h
    have hnd := noDup_of_scan doc st hs
    have hc := scan_empty_ok doc st hs
    refine ⟨hnd, ?_⟩
    cases hss : schemaItems st with
    | error e' =>
      rw [hss] at h
      simp only [Except.error.injEq] at h
      subst h
      exact Or.inl (schemaItems_err doc st hc.1.2 _ hss)
    | ok ss =>
      right
      rw [hss] at h
      dsimp only at h
      have hS := schemaItems_ok doc st hc.1.2 hnd.1 ss hss
      refine ⟨hS.1, ?_⟩
      cases hts : typeItemsAll st kindOrder with
      | ok ts => rw [hts] at h; simp at h
      | error e' =>
        rw [hts] at h
        simp only [Except.error.injEq] at h
        subst h
        obtain ⟨a, k, b, hko, hok, herr⟩ := typeItemsAll_err st _ kindOrder hts
        obtain ⟨x, hx, he⟩ := typeItems_err doc st k (hc.2.1 k).2 _ herr
        refine ⟨a, k, b, x, hko, ?_, hx, he⟩
        intro k' hk'
        obtain ⟨items, hi⟩ := hok k' hk'
        exact (typeItems_ok doc st k' (hc.2.1 k').2 (hnd.2 k') items hi).1

end NitroVerif.ExtResolve
